(* C14 - statements only.  Text, tree and binary forms of a document agree, and so do path look-ups. *)
Require Import ZArith List Bool. Require IW.JSON.TextSpec. Require Import IW.JSON.Text IW.JSON.WriteBack.
Require Import IW.JSON.Val IW.JSON.Binn IW.JSON.Ptr IW.JSON.Binn_proofs IW.JSON.Ptr_proofs IW.Gen.Facts.
Require Import IW.JSON.BinnAcc IW.JSON.BinnAcc_proofs IW.JSON.Forms_proofs.
Import ListNotations. Local Open Scope Z_scope.

Definition C14_doc : jval :=
  JObj [ ([97], JArr [JI64 (-129); JI64 4294967296; JStr [104; 105]; JNull; JBool true]);
         ([107; 126; 47], JObj [([], JF64 4609434218613702656)]);
         ([66], JArr []) ].

(* tree -> binary -> tree is the identity on every document whose strings and keys are C strings, whose keys have at
   most 255 bytes (and are unique ignoring case), and whose numbers are 64-bit *)
Theorem C14_binn_roundtrip : forall v bs, wf v = true -> binn_encode v = Some bs -> binn_decode bs = Some v.
Proof. exact binn_roundtrip. Qed.
Print Assumptions C14_binn_roundtrip.

Example C14_binn_roundtrip_ex : wf C14_doc = true /\ exists bs, binn_encode C14_doc = Some bs /\ binn_decode bs = Some C14_doc.
Proof. split; [vm_compute; reflexivity|]. eexists. split; [vm_compute; reflexivity|vm_compute; reflexivity]. Qed.

(* only objects and arrays have a binary document form (jbl_from_node / jbl_from_json refuse scalars) *)
Theorem C14_scalar_has_no_binary_form : forall v, (forall ms, v <> JObj ms) -> (forall l, v <> JArr l) -> binn_encode v = None.
Proof. exact binn_encode_scalar_none. Qed.
Print Assumptions C14_scalar_has_no_binary_form.

Example C14_scalar_has_no_binary_form_ex : binn_encode (JI64 5) = None.
Proof. reflexivity. Qed.

(* jbl_clone and jbl_clone_into_pool give a buffer with the same bytes (hence, by the round trip, an equal document) *)
Theorem C14_binn_clone_same : forall v bs, binn_encode v = Some bs ->
  binn_clone bs = Some bs /\ binn_clone_into_pool bs = Some bs.
Proof. exact binn_clone_same. Qed.
Print Assumptions C14_binn_clone_same.

Example C14_binn_clone_same_ex : exists bs, binn_encode C14_doc = Some bs /\ binn_clone bs = Some bs.
Proof. eexists. split; [vm_compute; reflexivity|vm_compute; reflexivity]. Qed.

(* _jbl_ptr_pool computes the RFC 6901 reference tokens (with ~0 and ~1 unescaped) of every pointer text that does not
   end in '/' (the one-character pointer "/" is fine); ill-formed texts ('~' not followed by 0/1, no leading '/') give
   no segment list on both sides *)
Theorem C14_ptr_parse_rfc6901 : forall path, trailing_slash (cstr path) = false ->
  ptr_parse path = rfc_ptr_parse (cstr path).
Proof. exact ptr_parse_rfc6901. Qed.
Print Assumptions C14_ptr_parse_rfc6901.

Example C14_ptr_parse_rfc6901_ex :
  trailing_slash (cstr [47; 97; 126; 49; 98; 47; 47; 109; 126; 48; 110; 47; 48]) = false /\
  ptr_parse [47; 97; 126; 49; 98; 47; 47; 109; 126; 48; 110; 47; 48] = Some [[97; 47; 98]; []; [109; 126; 110]; [48]].
Proof. split; vm_compute; reflexivity. Qed.

(* ... and refuses every longer text that ends in '/', which RFC 6901 reads as a last segment "" (excluded by C14) *)
Theorem C14_ptr_parse_trailing_slash : forall path, trailing_slash (cstr path) = true -> ptr_parse3 path = PErr.
Proof. exact ptr_parse_trailing_slash. Qed.
Print Assumptions C14_ptr_parse_trailing_slash.

Example C14_ptr_parse_trailing_slash_ex : trailing_slash (cstr [47; 97; 47]) = true /\ rfc_ptr_parse [47; 97; 47] = Some [[97]; []].
Proof. split; vm_compute; reflexivity. Qed.

(* jbn_at on the tree and jbl_at on the binary form of the same document return the same thing, namely the RFC 6901
   referent or not-found, for every pointer without a '*' segment and with at most JBL_MAX_NESTING_LEVEL segments;
   `small`: arrays shorter than 2^31 elements *)
Theorem C14_at_agree : forall v bs path ptr, wf v = true -> small v = true -> binn_encode v = Some bs ->
  forallb byte_ok path = true -> ptr_parse path = Some ptr ->
  Forall (fun s => star s = false) ptr -> zlen ptr <= jbinn_JBL_MAX_NESTING_LEVEL ->
  at_tree v path = at_binn bs path /\
  at_tree v path = match rfc6901_at ptr v with Some r => AtFound r | None => AtNotFound end.
Proof. exact at_agree_text. Qed.
Print Assumptions C14_at_agree.

Example C14_at_agree_ex :
  let path := [47; 97; 47; 50] in
  wf C14_doc = true /\ small C14_doc = true /\ forallb byte_ok path = true /\
  ptr_parse path = Some [[97]; [50]] /\ rfc6901_at [[97]; [50]] C14_doc = Some (JStr [104; 105]) /\
  at_tree C14_doc path = AtFound (JStr [104; 105]).
Proof. repeat split; vm_compute; reflexivity. Qed.

(* the cursor-free search both walks implement is RFC 6901 evaluation (documents with unique keys) *)
Theorem C14_dfs_is_rfc6901 : forall segs v, wf v = true -> small v = true -> segs <> [] ->
  dfs segs (kids_list v) = rfc6901_at segs v.
Proof. intros segs v Hw Hs. apply dfs_rfc. split; assumption. Qed.
Print Assumptions C14_dfs_is_rfc6901.

Example C14_dfs_is_rfc6901_ex : dfs [[107; 126; 47]; []] (kids_list C14_doc) = Some (JF64 4609434218613702656).
Proof. vm_compute. reflexivity. Qed.

(* jbn_clone (a copy rebuilt by _jbl_clone_node_visit during a walk of the source) is equal to its source, for every
   document *)
Theorem C14_jbn_clone_equal : forall v, jbn_clone v = v.
Proof. exact jbn_clone_equal. Qed.
Print Assumptions C14_jbn_clone_equal.

Example C14_jbn_clone_equal_ex : jbn_clone C14_doc = C14_doc /\ jbn_clone (JArr [JArr [JArr []; JI64 5]; JObj []]) = JArr [JArr [JArr []; JI64 5]; JObj []].
Proof. split; vm_compute; reflexivity. Qed.

(* look-ups depend only on the value, not on how the tree / the buffer was produced: whatever chain of jbn_clone,
   jbl_to_node (decode), jbl_from_node (encode), jbl_clone, jbl_clone_into_pool leads from a document to a tree `t` and a
   buffer `b` (tree_of / bin_of), jbn_at, jbn_at2, jbl_at, jbl_at2 answer on them what they answer on the document and
   its encoding (and hence, by C14_at_agree, the RFC 6901 referent).  The model's tree is a value: storage facts of the C
   tree (keys counted by klidx without a terminator when borrowed from a buffer) are outside it and are tied to the code
   by the producer x consumer matrix of the check (T2), see notes/jbinn.md *)
Theorem C14_at_producer_independent : forall v bs t b path ptr, wf v = true -> binn_encode v = Some bs ->
  tree_of v bs t -> bin_of v bs b ->
  at_tree t path = at_tree v path /\ at_tree2 t ptr = at_tree2 v ptr /\
  at_binn b path = at_binn bs path /\ at_binn2 b ptr = at_binn2 bs ptr.
Proof. exact at_producer_independent. Qed.
Print Assumptions C14_at_producer_independent.

Example C14_at_producer_independent_ex : exists bs b t,
  binn_encode C14_doc = Some bs /\ binn_clone bs = Some b /\ binn_decode b = Some t /\
  tree_of C14_doc bs (jbn_clone t) /\ bin_of C14_doc bs b /\
  at_tree (jbn_clone t) [47; 97; 47; 50] = AtFound (JStr [104; 105]).
Proof.
  pose (bs := match binn_encode C14_doc with Some x => x | None => [] end).
  exists bs, bs, C14_doc.
  assert (E : binn_encode C14_doc = Some bs) by (vm_compute; reflexivity).
  assert (C : binn_clone bs = Some bs) by (vm_compute; reflexivity).
  assert (D : binn_decode bs = Some C14_doc) by (vm_compute; reflexivity).
  assert (B : bin_of C14_doc bs bs) by (apply (BP_clone _ _ bs); [apply BP_self|exact C]).
  split; [exact E|]. split; [exact C|]. split; [exact D|]. split; [|split; [exact B|vm_compute; reflexivity]].
  apply TP_clone. apply (TP_decode _ _ bs); assumption.
Qed.

(* ================================================================== deepening round *)
(* ---- (a) the encoder guard.  `fits`: every container stays within the size binn_save_header can write (2^31 - 1 bytes,
   computed by `enc_size` without building the bytes).
   EXACTNESS with no hypothesis on the document at all: jbl_from_node succeeds iff every member name has at most 255 bytes
   and clashes with no other name of its object under SearchForKey's comparison (WriteBack.representable - the value-level
   guard the C15/C16 write-back model uses, so the byte-level encoder and that model agree up to the size limit) and the
   sizes fit *)
Theorem C14_encode_iff_guard : forall v, is_container v = true ->
  ((exists bs, binn_encode v = Some bs) <-> representable v = true /\ fits v = true).
Proof. exact encode_iff_guard. Qed.
Print Assumptions C14_encode_iff_guard.

Example C14_encode_iff_guard_ex :
  representable C14_doc = true /\ fits C14_doc = true /\
  representable (JObj [([97; 98], JNull); ([65; 66], JNull)]) = false /\ binn_encode (JObj [([97; 98], JNull); ([65; 66], JNull)]) = None.
Proof. repeat split; vm_compute; reflexivity. Qed.

(* TOTALITY: every document that satisfies the executable well-formedness predicate `wf` of the round-trip theorem (names of
   at most 255 bytes, unique ignoring ASCII case, C strings, 64-bit numbers) and the size guard is encoded, and the encoding
   has the predicted size *)
Theorem C14_encode_total : forall v, wf v = true -> fits v = true -> is_container v = true ->
  exists bs, binn_encode v = Some bs /\ zlen bs = enc_size v.
Proof. exact encode_total. Qed.
Print Assumptions C14_encode_total.

Example C14_encode_total_ex : wf C14_doc = true /\ fits C14_doc = true /\ is_container C14_doc = true /\ enc_size C14_doc = 49.
Proof. repeat split; vm_compute; reflexivity. Qed.

(* EXACTNESS in the vocabulary of `wf`: over the documents a C tree can hold (`cdom`: C strings, int64, 64-bit doubles) the
   encoder accepts exactly the documents with wf && fits; in particular every document it rejects violates the guard *)
Theorem C14_encode_guard_exact : forall v, cdom v = true -> is_container v = true ->
  ((exists bs, binn_encode v = Some bs) <-> wf v && fits v = true).
Proof. exact encode_guard_exact. Qed.
Print Assumptions C14_encode_guard_exact.

Theorem C14_encode_reject_exact : forall v, cdom v = true -> is_container v = true -> binn_encode v = None ->
  wf v && fits v = false.
Proof. exact encode_reject_exact. Qed.
Print Assumptions C14_encode_reject_exact.

Example C14_encode_guard_exact_ex :
  let long := JObj [(repeat 97 256, JNull)] in
  cdom long = true /\ is_container long = true /\ binn_encode long = None /\ wf long = false /\
  wf (JObj [(repeat 97 255, JNull)]) = true /\ fits (JObj [(repeat 97 255, JNull)]) = true.
Proof. cbv zeta. repeat split; vm_compute; reflexivity. Qed.

(* ---- (a) print_agree.  `jbl_as_json_binn` is _jbl_as_json of iwjson.c walking the binn iterators over the bytes; `as_json` is
   C13's model of jbn_as_json (JSON/Text.v, imported).  The binary printer on the encoding of v writes what C13's value-level
   model of the binary printer (`jbl_as_json`, so far tied to the bytes only by T2) writes on v ... *)
Theorem C14_print_binn_value : forall fo pf v bs, wf v = true -> binn_encode v = Some bs ->
  jbl_as_json_binn fo pf bs = lift (jbl_as_json fo pf v).
Proof. exact jbl_as_json_binn_value. Qed.
Print Assumptions C14_print_binn_value.

(* ... hence print_agree as the property states it, for EVERY flag set (JBL_PRINT_PRETTY, JBL_PRINT_CODEPOINTS,
   JBL_PRINT_PRETTY_INDENT2, JBL_PRINT_PRETTY_INDENT4 and any other bits): the text printed from the binary form is the text
   printed from the tree; doubles print through `fo` on both sides; a printer error (invalid UTF-8 under JBL_PRINT_CODEPOINTS)
   is the same error on both sides.  Unconditional since the library fix d42c39c: before it `_jbl_as_json` ignored the
   indentation bits and this round had proved a refutation (witness [1], JBL_PRINT_PRETTY_INDENT2) instead *)
Theorem C14_print_agree : forall fo pf v bs, wf v = true -> binn_encode v = Some bs ->
  jbl_as_json_binn fo pf bs = lift (as_json fo pf v).
Proof. exact print_agree. Qed.
Print Assumptions C14_print_agree.

Example C14_print_agree_ex : exists bs t,
  binn_encode C14_doc = Some bs /\
  as_json (fun _ => [49; 46; 53]) (Z.lor JBL_PRINT_PRETTY_INDENT4 JBL_PRINT_CODEPOINTS) C14_doc = Ok t /\
  jbl_as_json_binn (fun _ => [49; 46; 53]) (Z.lor JBL_PRINT_PRETTY_INDENT4 JBL_PRINT_CODEPOINTS) bs = BOk t /\
  as_json (fun _ => []) JBL_PRINT_PRETTY_INDENT2 (JArr [JI64 1]) = Ok [91; 10; 32; 32; 49; 10; 93] /\
  jbl_as_json_binn (fun _ => []) JBL_PRINT_PRETTY_INDENT2 [224; 5; 1; 32; 1] = BOk [91; 10; 32; 32; 49; 10; 93].
Proof. eexists. eexists. split; [vm_compute; reflexivity|]. split; [vm_compute; reflexivity|]. repeat split; vm_compute; reflexivity. Qed.

(* ---- (b) conversion orders.  Starting from a tree v, take any chain of jbn_clone, jbl_to_node (decode), jbn_from_json
   (parse) | jbl_from_node (encode), jbl_clone, jbl_clone_into_pool | jbn_as_json, jbl_as_json with ANY flag sets - any order, any
   length (ftree / fbin / ftext of Forms_proofs.v).  Domain: wf v (names <= 255 bytes unique ignoring case, C strings),
   integers int64, NO doubles (`nodbl`: C13's text round trip treats doubles as oracle inputs), nesting within
   JBL_MAX_NESTING_LEVEL.  Then every tree reached is v, every buffer reached is the encoding of v, every text reached
   parses to v. *)
Theorem C14_conversion_orders : forall ora fo v, wf v = true -> nodbl v = true ->
  TextSpec.depth v <= JBL_MAX_NESTING_LEVEL ->
  (forall t, ftree ora fo v t -> t = v) /\
  (forall b, fbin ora fo v b -> binn_encode v = Some b) /\
  (forall x, ftext ora fo v x -> from_json ora x = Ok (Some v)).
Proof. exact forms_closed. Qed.
Print Assumptions C14_conversion_orders.

(* text -> tree -> binary -> tree -> text, spelled out on one chain *)
Example C14_conversion_orders_ex :
  let v := JObj [([97], JArr [JI64 (-129); JStr [104; 105]; JNull; JBool true]); ([66], JObj [])] in
  let fo := fun _ : Z => @nil Z in let ora := fun _ : list Z => (0, 0%nat, false) in
  wf v = true /\ nodbl v = true /\ TextSpec.depth v <= JBL_MAX_NESTING_LEVEL /\
  exists x bs t x', as_json fo 0 v = Ok x /\ from_json ora x = Ok (Some v) /\ binn_encode v = Some bs /\
    binn_decode bs = Some t /\ as_json fo JBL_PRINT_PRETTY_INDENT2 t = Ok x' /\ ftext ora fo v x' /\ from_json ora x' = Ok (Some v).
Proof.
  cbv zeta.
  set (v := JObj [([97], JArr [JI64 (-129); JStr [104; 105]; JNull; JBool true]); ([66], JObj [])]).
  set (fo := fun _ : Z => @nil Z). set (ora := fun _ : list Z => (0, 0%nat, false)).
  pose (x := match as_json fo 0 v with Ok x => x | Err _ => [] end).
  pose (bs := match binn_encode v with Some b => b | None => [] end).
  pose (x' := match as_json fo JBL_PRINT_PRETTY_INDENT2 v with Ok x => x | Err _ => [] end).
  assert (A1 : as_json fo 0 v = Ok x) by (vm_compute; reflexivity).
  assert (A2 : from_json ora x = Ok (Some v)) by (vm_compute; reflexivity).
  assert (A3 : binn_encode v = Some bs) by (vm_compute; reflexivity).
  assert (A4 : binn_decode bs = Some v) by (vm_compute; reflexivity).
  assert (A5 : as_json fo JBL_PRINT_PRETTY_INDENT2 v = Ok x') by (vm_compute; reflexivity).
  assert (A6 : from_json ora x' = Ok (Some v)) by (vm_compute; reflexivity).
  split; [vm_compute; reflexivity|]. split; [vm_compute; reflexivity|]. split; [vm_compute; discriminate|].
  exists x, bs, v, x'. repeat (split; [assumption|]). split; [|assumption].
  apply (FX_tree ora fo v JBL_PRINT_PRETTY_INDENT2 v x'); [|exact A5].
  apply (FT_decode ora fo v bs v); [|exact A4].
  apply (FB_encode ora fo v v bs); [|exact A3].
  apply (FT_parse ora fo v x v); [|exact A2].
  apply (FX_tree ora fo v 0 v x); [apply FT_self|exact A1].
Qed.

(* with doubles (carried as 64-bit patterns, never interpreted) the orders over tree and binary form: whatever chain of
   jbn_clone, decode, encode, jbl_clone, jbl_clone_into_pool - the tree is v and the buffer is the encoding of v *)
Theorem C14_conversion_orders_tree_binary : forall v bs, wf v = true -> binn_encode v = Some bs ->
  (forall t, tree_of v bs t -> t = v) /\ (forall b, bin_of v bs b -> b = bs).
Proof. exact producers_same. Qed.
Print Assumptions C14_conversion_orders_tree_binary.

(* every single step is defined on the domain, so the chains exist: encoding by the guard, decoding by the round trip, both
   printers whenever JBL_PRINT_CODEPOINTS is off, parsing by C13's theorem *)
Theorem C14_conversions_total : forall ora fo pf v, wf v = true -> fits v = true -> is_container v = true ->
  nodbl v = true -> TextSpec.depth v <= JBL_MAX_NESTING_LEVEL -> has pf JBL_PRINT_CODEPOINTS = false ->
  exists bs x, binn_encode v = Some bs /\ binn_decode bs = Some v /\
               as_json fo pf v = Ok x /\ jbl_as_json_binn fo pf bs = BOk x /\ from_json ora x = Ok (Some v).
Proof. exact conversions_total. Qed.
Print Assumptions C14_conversions_total.

(* ---- (c) accessors of the binary form.  jbl_type / jbl_count / jbl_iterator_init + jbl_iterator_next on the encoding of v:
   the iterator hands out exactly the members of v, in order, an array element with its index, an object member with its
   name and the length of the name; decoding each handed-out value gives the member; jbl_count is their number *)
Theorem C14_iterator_enumerates : forall v bs, wf v = true -> binn_encode v = Some bs ->
  exists b l, root_bval bs = Some b /\ jbl_members b = Some l /\
              members_val (S (length bs)) l = expected_members v /\
              jbl_type b = jval_type v /\ jbl_count b = Z.of_nat (length l).
Proof. exact iterator_enumerates. Qed.
Print Assumptions C14_iterator_enumerates.

Example C14_iterator_enumerates_ex :
  expected_members C14_doc = [(Some [97], 1, Some (JArr [JI64 (-129); JI64 4294967296; JStr [104; 105]; JNull; JBool true]));
                              (Some [107; 126; 47], 3, Some (JObj [([], JF64 4609434218613702656)])); (Some [66], 1, Some (JArr []))] /\
  expected_members (JArr [JNull; JI64 7]) = [(None, 0, Some JNull); (None, 1, Some (JI64 7))].
Proof. split; vm_compute; reflexivity. Qed.

(* jbl_size of the binary form of v is the length of its buffer, the size `enc_size v` of the guard (the value the library reports
   once the header has been written; before that a writable document reported a stale size - round 7, notes/jbinn.md) *)
Theorem C14_size : forall v bs, wf v = true -> binn_encode v = Some bs ->
  exists b, root_bval bs = Some b /\ jbl_size b = zlen bs /\ zlen bs = enc_size v.
Proof. exact size_doc. Qed.
Print Assumptions C14_size.

(* the same for every value reached inside the document (`repr v b`: b is what GetValue reads at an encoding of v) *)
Theorem C14_type_count : forall v b, repr v b ->
  jbl_type b = jval_type v /\ jbl_count b = match v with JArr l => zlen l | JObj ms => zlen ms | _ => 0 end.
Proof. exact type_count_repr. Qed.
Print Assumptions C14_type_count.

(* jbl_object_get_type / _fill_jbl / _i64 / _f64 / _bool / _str with a C-string key on the binary form of an object: they answer
   about the member the case-folding rule designates (`find_ci`: the first member whose name equals the key ignoring ASCII
   case - unique, since such names cannot coexist in a binary object), with the value that member has in the tree; a typed
   getter of another type family answers JBL_ERROR_CREATION; no designated member: JBV_NONE / JBL_ERROR_CREATION *)
Theorem C14_object_get : forall ms bs key, wf (JObj ms) = true -> binn_encode (JObj ms) = Some bs ->
  forallb char_ok key = true ->
  exists b, root_bval bs = Some b /\
  match find_ci key ms with
  | Some x =>
    jbl_object_get_type b key = jval_type x /\
    (exists bv, jbl_object_get_fill b key = (G_OK, Some bv) /\ dec_node (S (length bs)) bv = Some x) /\
    jbl_object_get_i64 b key = match x with JI64 n => (G_OK, n) | _ => (G_CREATION, 0) end /\
    jbl_object_get_f64 b key = match x with JF64 d => (G_OK, d) | _ => (G_CREATION, 0) end /\
    jbl_object_get_bool b key = match x with JBool t => (G_OK, t) | _ => (G_CREATION, false) end /\
    jbl_object_get_str b key = match x with JStr s => (G_OK, s) | _ => (G_CREATION, []) end
  | None =>
    jbl_object_get_type b key = JP_JBV_NONE /\ jbl_object_get_fill b key = (G_CREATION, None) /\
    jbl_object_get_i64 b key = (G_CREATION, 0) /\ jbl_object_get_f64 b key = (G_CREATION, 0) /\
    jbl_object_get_bool b key = (G_CREATION, false) /\ jbl_object_get_str b key = (G_CREATION, [])
  end.
Proof. exact object_get_doc. Qed.
Print Assumptions C14_object_get.

Example C14_object_get_ex : exists bs b,
  binn_encode (JObj [([110; 97; 109; 101], JStr [105; 111]); ([75], JI64 (-5))]) = Some bs /\ root_bval bs = Some b /\
  find_ci [78; 65; 77; 69] [([110; 97; 109; 101], JStr [105; 111]); ([75], JI64 (-5))] = Some (JStr [105; 111]) /\
  jbl_object_get_str b [78; 65; 77; 69] = (G_OK, [105; 111]) /\ jbl_object_get_i64 b [107] = (G_OK, -5) /\
  jbl_object_get_i64 b [110; 97; 109; 101] = (G_CREATION, 0) /\ jbl_object_get_type b [122] = JP_JBV_NONE.
Proof.
  eexists. eexists. split; [vm_compute; reflexivity|]. split; [vm_compute; reflexivity|]. repeat split; vm_compute; reflexivity.
Qed.

(* the case-folding rule against RFC 6901's exact rule: where names are unique ignoring case, a name that is present exactly is
   the member the case-folding rule designates (so jbl_object_get_* and jbl_at agree on every one-segment pointer that exists) *)
Theorem C14_find_ci_exact : forall ms key x, keys_unique (map fst ms) = true ->
  find_key key ms = Some x -> find_ci key ms = Some x.
Proof. exact find_ci_exact. Qed.
Print Assumptions C14_find_ci_exact.

(* ---- (d) pointer utilities.  jbl_ptr_serialize writes "/" and the stored bytes of each segment; it inverts jbl_ptr_alloc on
   every pointer whose segments need no escaping (no '/', '~'; `trailing_slash`: the text a pointer with a last segment ""
   would give is refused by the parser, as C14_ptr_parse_trailing_slash says) *)
Theorem C14_ptr_serialize_parse_partial : forall segs, Forall plain_seg segs -> trailing_slash (ptr_serialize segs) = false ->
  ptr_parse (ptr_serialize segs) = Some segs.
Proof. exact ptr_serialize_parse. Qed.
Print Assumptions C14_ptr_serialize_parse_partial.

Example C14_ptr_serialize_parse_ex :
  Forall plain_seg [[97; 98]; []; [48]] /\ trailing_slash (ptr_serialize [[97; 98]; []; [48]]) = false /\
  ptr_serialize [[97; 98]; []; [48]] = [47; 97; 98; 47; 47; 48].
Proof.
  split; [|split; vm_compute; reflexivity].
  repeat (apply Forall_cons; [repeat (apply Forall_cons; [repeat split; discriminate|]); apply Forall_nil|]). apply Forall_nil.
Qed.

(* the full statement (for every parsed pointer) is FALSE of the code: a segment holding '/' or '~' is written back
   unescaped - "/a~1b" parses to the one segment "a/b", which is serialised as "/a/b", a pointer with two segments
   (replayed on the library: notes/jbinn.md, fixes/jbinn-ptr-serialize-escape.diff; outside the statement of C14, not judged) *)
Theorem C14_ptr_serialize_parse_refuted : exists path segs,
  ptr_parse path = Some segs /\ ptr_parse (ptr_serialize segs) <> Some segs.
Proof. exact ptr_serialize_parse_refuted. Qed.
Print Assumptions C14_ptr_serialize_parse_refuted.

(* jbl_ptr_cmp (allocation size, segment count, strcmp of the segments): 0 on a pointer and itself, and 0 only when both texts
   parse to the same segments *)
Theorem C14_ptr_cmp_refl : forall path segs, ptr_parse path = Some segs -> ptr_cmp path path = Some 0.
Proof. exact ptr_cmp_refl. Qed.
Print Assumptions C14_ptr_cmp_refl.

Theorem C14_ptr_cmp_zero : forall p1 p2, ptr_cmp p1 p2 = Some 0 ->
  exists segs, ptr_parse p1 = Some segs /\ ptr_parse p2 = Some segs.
Proof. exact ptr_cmp_zero. Qed.
Print Assumptions C14_ptr_cmp_zero.

Example C14_ptr_cmp_ex : ptr_cmp [47; 97] [47; 98] = Some (-1) /\ ptr_cmp [47; 97; 47; 98] [47; 97; 126; 49; 98] = Some 1 /\
  ptr_cmp [47; 97; 126] [47; 97] = None.
Proof. repeat split; vm_compute; reflexivity. Qed.
