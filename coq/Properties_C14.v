(* C14 - statements only.  Text, tree and binary forms of a document agree, and so do path look-ups. *)
Require Import ZArith List. Require Import IW.JSON.Val IW.JSON.Binn IW.JSON.Ptr IW.JSON.Binn_proofs IW.Gen.Facts.
Import ListNotations. Local Open Scope Z_scope.

Definition C14_doc : jval :=
  JObj [ ([97], JArr [JI64 (-129); JI64 4294967296; JStr [104; 105]; JNull; JBool true]);
         ([107; 126; 47], JObj [([], JF64 4609434218613702656)]);
         ([66], JArr []) ].

(* tree -> binary -> tree is the identity on every document whose strings and keys are C strings, whose keys have at
   most 255 bytes (and are unique ignoring case), and whose numbers are 64-bit *)
Theorem C14_binn_roundtrip : forall v bs, wf v = true -> binn_encode v = Some bs -> binn_decode bs = Some v.
Proof. exact binn_roundtrip. Qed.
Print Assumptions C14_binn_roundtrip.

Example C14_binn_roundtrip_ex : wf C14_doc = true /\ exists bs, binn_encode C14_doc = Some bs /\ binn_decode bs = Some C14_doc.
Proof. split; [vm_compute; reflexivity|]. eexists. split; [vm_compute; reflexivity|vm_compute; reflexivity]. Qed.

(* only objects and arrays have a binary document form (jbl_from_node / jbl_from_json refuse scalars) *)
Theorem C14_scalar_has_no_binary_form : forall v, (forall ms, v <> JObj ms) -> (forall l, v <> JArr l) -> binn_encode v = None.
Proof. exact binn_encode_scalar_none. Qed.
Print Assumptions C14_scalar_has_no_binary_form.

Example C14_scalar_has_no_binary_form_ex : binn_encode (JI64 5) = None.
Proof. reflexivity. Qed.

(* jbl_clone and jbl_clone_into_pool give a buffer with the same bytes (hence, by the round trip, an equal document) *)
Theorem C14_binn_clone_same : forall v bs, binn_encode v = Some bs ->
  binn_clone bs = Some bs /\ binn_clone_into_pool bs = Some bs.
Proof. exact binn_clone_same. Qed.
Print Assumptions C14_binn_clone_same.

Example C14_binn_clone_same_ex : exists bs, binn_encode C14_doc = Some bs /\ binn_clone bs = Some bs.
Proof. eexists. split; [vm_compute; reflexivity|vm_compute; reflexivity]. Qed.
