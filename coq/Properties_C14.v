(* C14 - statements only.  Text, tree and binary forms of a document agree, and so do path look-ups. *)
Require Import ZArith List. Require Import IW.JSON.Val IW.JSON.Binn IW.JSON.Ptr IW.JSON.Binn_proofs IW.JSON.Ptr_proofs IW.Gen.Facts.
Import ListNotations. Local Open Scope Z_scope.

Definition C14_doc : jval :=
  JObj [ ([97], JArr [JI64 (-129); JI64 4294967296; JStr [104; 105]; JNull; JBool true]);
         ([107; 126; 47], JObj [([], JF64 4609434218613702656)]);
         ([66], JArr []) ].

(* tree -> binary -> tree is the identity on every document whose strings and keys are C strings, whose keys have at
   most 255 bytes (and are unique ignoring case), and whose numbers are 64-bit *)
Theorem C14_binn_roundtrip : forall v bs, wf v = true -> binn_encode v = Some bs -> binn_decode bs = Some v.
Proof. exact binn_roundtrip. Qed.
Print Assumptions C14_binn_roundtrip.

Example C14_binn_roundtrip_ex : wf C14_doc = true /\ exists bs, binn_encode C14_doc = Some bs /\ binn_decode bs = Some C14_doc.
Proof. split; [vm_compute; reflexivity|]. eexists. split; [vm_compute; reflexivity|vm_compute; reflexivity]. Qed.

(* only objects and arrays have a binary document form (jbl_from_node / jbl_from_json refuse scalars) *)
Theorem C14_scalar_has_no_binary_form : forall v, (forall ms, v <> JObj ms) -> (forall l, v <> JArr l) -> binn_encode v = None.
Proof. exact binn_encode_scalar_none. Qed.
Print Assumptions C14_scalar_has_no_binary_form.

Example C14_scalar_has_no_binary_form_ex : binn_encode (JI64 5) = None.
Proof. reflexivity. Qed.

(* jbl_clone and jbl_clone_into_pool give a buffer with the same bytes (hence, by the round trip, an equal document) *)
Theorem C14_binn_clone_same : forall v bs, binn_encode v = Some bs ->
  binn_clone bs = Some bs /\ binn_clone_into_pool bs = Some bs.
Proof. exact binn_clone_same. Qed.
Print Assumptions C14_binn_clone_same.

Example C14_binn_clone_same_ex : exists bs, binn_encode C14_doc = Some bs /\ binn_clone bs = Some bs.
Proof. eexists. split; [vm_compute; reflexivity|vm_compute; reflexivity]. Qed.

(* _jbl_ptr_pool computes the RFC 6901 reference tokens (with ~0 and ~1 unescaped) of every pointer text that does not
   end in '/' (the one-character pointer "/" is fine); ill-formed texts ('~' not followed by 0/1, no leading '/') give
   no segment list on both sides *)
Theorem C14_ptr_parse_rfc6901 : forall path, trailing_slash (cstr path) = false ->
  ptr_parse path = rfc_ptr_parse (cstr path).
Proof. exact ptr_parse_rfc6901. Qed.
Print Assumptions C14_ptr_parse_rfc6901.

Example C14_ptr_parse_rfc6901_ex :
  trailing_slash (cstr [47; 97; 126; 49; 98; 47; 47; 109; 126; 48; 110; 47; 48]) = false /\
  ptr_parse [47; 97; 126; 49; 98; 47; 47; 109; 126; 48; 110; 47; 48] = Some [[97; 47; 98]; []; [109; 126; 110]; [48]].
Proof. split; vm_compute; reflexivity. Qed.

(* ... and refuses every longer text that ends in '/', which RFC 6901 reads as a last segment "" (excluded by C14) *)
Theorem C14_ptr_parse_trailing_slash : forall path, trailing_slash (cstr path) = true -> ptr_parse3 path = PErr.
Proof. exact ptr_parse_trailing_slash. Qed.
Print Assumptions C14_ptr_parse_trailing_slash.

Example C14_ptr_parse_trailing_slash_ex : trailing_slash (cstr [47; 97; 47]) = true /\ rfc_ptr_parse [47; 97; 47] = Some [[97]; []].
Proof. split; vm_compute; reflexivity. Qed.

(* jbn_at on the tree and jbl_at on the binary form of the same document return the same thing, namely the RFC 6901
   referent or not-found, for every pointer without a '*' segment and with at most JBL_MAX_NESTING_LEVEL segments;
   `small`: arrays shorter than 2^31 elements *)
Theorem C14_at_agree : forall v bs path ptr, wf v = true -> small v = true -> binn_encode v = Some bs ->
  forallb byte_ok path = true -> ptr_parse path = Some ptr ->
  Forall (fun s => star s = false) ptr -> zlen ptr <= jbinn_JBL_MAX_NESTING_LEVEL ->
  at_tree v path = at_binn bs path /\
  at_tree v path = match rfc6901_at ptr v with Some r => AtFound r | None => AtNotFound end.
Proof. exact at_agree_text. Qed.
Print Assumptions C14_at_agree.

Example C14_at_agree_ex :
  let path := [47; 97; 47; 50] in
  wf C14_doc = true /\ small C14_doc = true /\ forallb byte_ok path = true /\
  ptr_parse path = Some [[97]; [50]] /\ rfc6901_at [[97]; [50]] C14_doc = Some (JStr [104; 105]) /\
  at_tree C14_doc path = AtFound (JStr [104; 105]).
Proof. repeat split; vm_compute; reflexivity. Qed.

(* the cursor-free search both walks implement is RFC 6901 evaluation (documents with unique keys) *)
Theorem C14_dfs_is_rfc6901 : forall segs v, wf v = true -> small v = true -> segs <> [] ->
  dfs segs (kids_list v) = rfc6901_at segs v.
Proof. intros segs v Hw Hs. apply dfs_rfc. split; assumption. Qed.
Print Assumptions C14_dfs_is_rfc6901.

Example C14_dfs_is_rfc6901_ex : dfs [[107; 126; 47]; []] (kids_list C14_doc) = Some (JF64 4609434218613702656).
Proof. vm_compute. reflexivity. Qed.

(* jbn_clone (a copy rebuilt by _jbl_clone_node_visit during a walk of the source) is equal to its source, for every
   document *)
Theorem C14_jbn_clone_equal : forall v, jbn_clone v = v.
Proof. exact jbn_clone_equal. Qed.
Print Assumptions C14_jbn_clone_equal.

Example C14_jbn_clone_equal_ex : jbn_clone C14_doc = C14_doc /\ jbn_clone (JArr [JArr [JArr []; JI64 5]; JObj []]) = JArr [JArr [JArr []; JI64 5]; JObj []].
Proof. split; vm_compute; reflexivity. Qed.

(* look-ups depend only on the value, not on how the tree / the buffer was produced: whatever chain of jbn_clone,
   jbl_to_node (decode), jbl_from_node (encode), jbl_clone, jbl_clone_into_pool leads from a document to a tree `t` and a
   buffer `b` (tree_of / bin_of), jbn_at, jbn_at2, jbl_at, jbl_at2 answer on them what they answer on the document and
   its encoding (and hence, by C14_at_agree, the RFC 6901 referent).  The model's tree is a value: storage facts of the C
   tree (keys counted by klidx without a terminator when borrowed from a buffer) are outside it and are tied to the code
   by the producer x consumer matrix of the check (T2), see notes/jbinn.md *)
Theorem C14_at_producer_independent : forall v bs t b path ptr, wf v = true -> binn_encode v = Some bs ->
  tree_of v bs t -> bin_of v bs b ->
  at_tree t path = at_tree v path /\ at_tree2 t ptr = at_tree2 v ptr /\
  at_binn b path = at_binn bs path /\ at_binn2 b ptr = at_binn2 bs ptr.
Proof. exact at_producer_independent. Qed.
Print Assumptions C14_at_producer_independent.

Example C14_at_producer_independent_ex : exists bs b t,
  binn_encode C14_doc = Some bs /\ binn_clone bs = Some b /\ binn_decode b = Some t /\
  tree_of C14_doc bs (jbn_clone t) /\ bin_of C14_doc bs b /\
  at_tree (jbn_clone t) [47; 97; 47; 50] = AtFound (JStr [104; 105]).
Proof.
  pose (bs := match binn_encode C14_doc with Some x => x | None => [] end).
  exists bs, bs, C14_doc.
  assert (E : binn_encode C14_doc = Some bs) by (vm_compute; reflexivity).
  assert (C : binn_clone bs = Some bs) by (vm_compute; reflexivity).
  assert (D : binn_decode bs = Some C14_doc) by (vm_compute; reflexivity).
  assert (B : bin_of C14_doc bs bs) by (apply (BP_clone _ _ bs); [apply BP_self|exact C]).
  split; [exact E|]. split; [exact C|]. split; [exact D|]. split; [|split; [exact B|vm_compute; reflexivity]].
  apply TP_clone. apply (TP_decode _ _ bs); assumption.
Qed.
