(* C02 - cursors enumerate records in key order.  Statements only. *)
Require Import List ZArith Lia. Import ListNotations.
Require Import IW.KV.Node IW.KV.Spec IW.KV.Cursor IW.KV.Cursor_proofs IW.KV.Node_proofs IW.KV.CursorGe_proofs IW.KV.Keys IW.KV.Inst IW.KV.Keys_proofs IW.KV.Match_proofs IW.KV.CopyReads IW.KV.CopyReads_proofs IW.Gen.Facts.

(* For EVERY chain of non-empty nodes with distinct identities (any number of nodes, any node sizes) and whatever
   state the cursor was in before: BEFORE_FIRST followed by repeated NEXT (reading the record after each successful
   move) returns exactly the records of the chain, in chain order, each once, and then reports the end. Together with
   C01 (the flattened chain is the sorted association list) this is "every live record exactly once in key order". *)
Theorem C02_scan_next_all :
  forall (K V : Type) (IDXNUM : nat), 1 <= IDXNUM ->
  forall (c : chain K V) (cur0 : cursor) (fuel : nat),
    ids_unique K V c -> nonempty_nodes K V c -> length (flat K V c) < fuel ->
    scan_next K V IDXNUM fuel c (snd (cursor_to K V IDXNUM c cur0 CBeforeFirst)) = flat K V c.
Proof. exact scan_next_all. Qed.
Print Assumptions C02_scan_next_all.

(* ... and AFTER_LAST followed by repeated PREV returns the exact reverse *)
Theorem C02_scan_prev_all :
  forall (K V : Type) (IDXNUM : nat), 1 <= IDXNUM ->
  forall (c : chain K V) (cur0 : cursor) (fuel : nat),
    ids_unique K V c -> nonempty_nodes K V c -> length (flat K V c) < fuel ->
    scan_prev K V IDXNUM fuel c (snd (cursor_to K V IDXNUM c cur0 CAfterLast)) = rev (flat K V c).
Proof. exact scan_prev_all. Qed.
Print Assumptions C02_scan_prev_all.

(* EQ positions on the given key or reports not-found - for every chain satisfying the invariant of C01, every comparator
   that is a total preorder, and whatever the cursor did before (cur is arbitrary) *)
Theorem C02_cursor_eq_spec :
  forall (K V : Type) (cmp : K -> K -> comparison) (IDXNUM PIVOT : nat), 1 <= PIVOT < IDXNUM ->
    (forall a b c : K, cmp a b = Lt -> cmp b c = Eq -> cmp a c = Lt) ->
    (forall a b c : K, cmp a b = Lt -> cmp b c = Lt -> cmp a c = Lt) ->
    forall (c : chain K V) (cur : cursor) (k : K),
      NodeInv K V cmp IDXNUM c -> ids_unique K V c ->
      match cursor_to_key K V cmp c cur false k with
      | (CROk, cur') => exists k' v, cursor_read K V c cur' = Some (k', v) /\ cmp k' k = Eq
                                     /\ Spec.s_get K V cmp (flat K V c) k = Some v
      | (_, _) => Spec.s_get K V cmp (flat K V c) k = None
      end.
Proof. exact cursor_eq_spec. Qed.
Print Assumptions C02_cursor_eq_spec.

(* GE positions on the record the ordered specification designates (Spec.s_ge: the record with that key if stored,
   otherwise the last record before the key in scan order = the smallest key greater than it), and reports not-found
   exactly when no such record exists - whatever the cursor did before *)
Theorem C02_cursor_ge_spec :
  forall (K V : Type) (cmp : K -> K -> comparison) (IDXNUM PIVOT : nat), 1 <= PIVOT < IDXNUM ->
    (forall a b c : K, cmp a b = Lt -> cmp b c = Eq -> cmp a c = Lt) ->
    (forall a b c : K, cmp a b = Lt -> cmp b c = Lt -> cmp a c = Lt) ->
    forall (c : chain K V) (cur : cursor) (k : K),
      NodeInv K V cmp IDXNUM c -> ids_unique K V c ->
      match cursor_to_key K V cmp c cur true k with
      | (CROk, cur') => exists e, cursor_read K V c cur' = Some e /\ s_ge K V cmp (flat K V c) k None = Some e
      | (_, _) => s_ge K V cmp (flat K V c) k None = None
      end.
Proof. exact cursor_ge_spec. Qed.
Print Assumptions C02_cursor_ge_spec.

(* deleting through a positioned cursor removes exactly the record the cursor reads - whatever calls preceded it (the
   statement depends on the cursor only through the record it designates) *)
Theorem C02_cursor_del_spec :
  forall (K V : Type) (cmp : K -> K -> comparison) (IDXNUM PIVOT : nat), 1 <= PIVOT < IDXNUM ->
    (forall a b c : K, cmp a b = Lt -> cmp b c = Eq -> cmp a c = Lt) ->
    (forall a b : K, cmp a b = CompOpp (cmp b a)) ->
    forall (c : chain K V) (cur : cursor) id i k0 v0,
      NodeInv K V cmp IDXNUM c ->
      cursor_at cur = Some (id, i) -> cursor_read K V c cur = Some (k0, v0) ->
      exists c' ch, del_by_id K V None c id i = Some (c', ch) /\
                    flat K V c' = s_del K V cmp (flat K V c) k0 /\ NodeInv K V cmp IDXNUM c'.
Proof. exact cursor_del_spec. Qed.
Print Assumptions C02_cursor_del_spec.

(* overwriting through a positioned cursor replaces the value of exactly that record: same node, same slot, same key;
   every other record and the order of keys are unchanged *)
Theorem C02_cursor_set_spec :
  forall (K V : Type) (cmp : K -> K -> comparison) (IDXNUM : nat),
    forall (c : chain K V) (cur : cursor) id i k0 v0 v,
      NodeInv K V cmp IDXNUM c ->
      cursor_at cur = Some (id, i) -> cursor_read K V c cur = Some (k0, v0) ->
      exists c' A r B, upd_by_id K V c id i v = Some c' /\ c = A ++ (id, r) :: B /\
        c' = A ++ (id, update_at K V r i v) :: B /\ nth_error (update_at K V r i v) i = Some (k0, v) /\
        map fst (flat K V c') = map fst (flat K V c) /\ NodeInv K V cmp IDXNUM c'.
Proof. exact cursor_set_spec. Qed.
Print Assumptions C02_cursor_set_spec.

(* Non-vacuity: a three-node chain; the scan computed by the model returns its five records in order. *)
Definition ex_chain : chain nat nat := [(1, [(10, 0); (9, 0)]); (2, [(7, 0)]); (5, [(4, 0); (2, 0)])].
Example C02_scan_example :
  scan_next nat nat 32 10 ex_chain (snd (cursor_to nat nat 32 ex_chain (cursor_init) CBeforeFirst))
  = [(10, 0); (9, 0); (7, 0); (4, 0); (2, 0)].
Proof. vm_compute. reflexivity. Qed.
Example C02_example_hyps : ids_unique nat nat ex_chain /\ nonempty_nodes nat nat ex_chain.
Proof.
  split.
  - unfold ids_unique. simpl. repeat constructor; simpl; intuition discriminate.
  - unfold nonempty_nodes. repeat constructor; simpl; discriminate.
Qed.

(* Matching the key (iwkv_cursor_is_matched_key) acts on exactly the record under the cursor: for number keys the caller's
   4- or 8-byte number goes through the same entry point as put/get and the answer is "the stored key is that key"; for byte
   keys it is equality with the stored key bytes; with no record under the cursor there is no answer.  The answer before the
   repair 5300b87 (sizes compared first) said "no" to the 4-byte form of the very key the cursor was opened with. *)
Theorem C02_match_number_keys : forall (d : db) (slot : nat) (k0 k : list Z) (c0 comp : Z) (ek0 ek : key) (v : value),
  km_vnum (d_mode d) = true -> bytes k0 -> bytes k ->
  eff_key (d_mode d) k0 c0 = (ROk, ek0) -> eff_key (d_mode d) k comp = (ROk, ek) ->
  db_cread d slot = Some (ek0, v) ->
  db_cmatch d slot k = Some (bytes_eqb (fst ek0) (fst ek)).
Proof. exact cmatch_number_keys. Qed.
Print Assumptions C02_match_number_keys.

Theorem C02_match_byte_keys : forall (d : db) (slot : nat) (k : list Z) (ek0 : key) (v : value),
  km_vnum (d_mode d) = false -> db_cread d slot = Some (ek0, v) ->
  db_cmatch d slot k = Some (bytes_eqb (fst ek0) k).
Proof. exact cmatch_byte_keys. Qed.
Print Assumptions C02_match_byte_keys.

Theorem C02_match_bytes_eqb_is_equality : forall a b, bytes_eqb a b = true <-> a = b.
Proof. exact bytes_eqb_eq. Qed.
Print Assumptions C02_match_bytes_eqb_is_equality.

Theorem C02_match_no_record : forall (d : db) (slot : nat) (k : list Z), db_cread d slot = None -> db_cmatch d slot k = None.
Proof. exact cmatch_no_record. Qed.
Print Assumptions C02_match_no_record.

Theorem C02_match_old_refuted :
  exists (d : db) (k : list Z) ek v, eff_key (d_mode d) k 0%Z = (ROk, ek) /\ db_cread d 0%nat = Some (ek, v) /\
    db_cmatch_old d 0%nat k = Some false /\ db_cmatch d 0%nat k = Some true.
Proof. exact cmatch_old_refuted. Qed.
Print Assumptions C02_match_old_refuted.

(* Copy reads (iwkv_cursor_copy_val / iwkv_cursor_copy_key) act on exactly the record a read through the cursor returns: the
   full size is reported whatever the buffer, at most n bytes are written, they are the first n bytes, and a buffer that is
   large enough receives everything. *)
Theorem C02_copy_val_spec : forall (d : db) (slot n : nat) (k : key) (v : value),
  db_cread d slot = Some (k, v) ->
  exists out, db_ccopyval d slot n = Some (length v, out) /\ out = firstn n v /\ (length out <= n)%nat /\
              (length v <= n -> out = v)%nat.
Proof. exact ccopyval_spec. Qed.
Print Assumptions C02_copy_val_spec.

Theorem C02_copy_key_spec : forall (d : db) (slot n : nat) (k : key) (v : value),
  db_cread d slot = Some (k, v) ->
  exists out, db_ccopykey d slot n = Some (length (fst (api_key (d_mode d) k)), snd (api_key (d_mode d) k), out) /\
              out = firstn n (fst (api_key (d_mode d) k)) /\ (length out <= n)%nat /\
              (length (fst (api_key (d_mode d) k)) <= n -> out = fst (api_key (d_mode d) k))%nat.
Proof. exact ccopykey_spec. Qed.
Print Assumptions C02_copy_key_spec.

Theorem C02_copy_no_record : forall (d : db) (slot n : nat),
  db_cread d slot = None -> db_ccopyval d slot n = None /\ db_ccopykey d slot n = None.
Proof. exact ccopy_no_record. Qed.
Print Assumptions C02_copy_no_record.
