(* C02 - cursors enumerate records in key order.  Statements only. *)
Require Import List ZArith Lia. Import ListNotations.
Require Import IW.KV.Node IW.KV.Cursor IW.KV.Cursor_proofs IW.KV.Node_proofs IW.KV.Inst IW.KV.Keys_proofs IW.Gen.Facts.

(* For EVERY chain of non-empty nodes with distinct identities (any number of nodes, any node sizes) and whatever
   state the cursor was in before: BEFORE_FIRST followed by repeated NEXT (reading the record after each successful
   move) returns exactly the records of the chain, in chain order, each once, and then reports the end. Together with
   C01 (the flattened chain is the sorted association list) this is "every live record exactly once in key order". *)
Theorem C02_scan_next_all :
  forall (K V : Type) (IDXNUM : nat), 1 <= IDXNUM ->
  forall (c : chain K V) (cur0 : cursor) (fuel : nat),
    ids_unique K V c -> nonempty_nodes K V c -> length (flat K V c) < fuel ->
    scan_next K V IDXNUM fuel c (snd (cursor_to K V IDXNUM c cur0 CBeforeFirst)) = flat K V c.
Proof. exact scan_next_all. Qed.
Print Assumptions C02_scan_next_all.

(* ... and AFTER_LAST followed by repeated PREV returns the exact reverse *)
Theorem C02_scan_prev_all :
  forall (K V : Type) (IDXNUM : nat), 1 <= IDXNUM ->
  forall (c : chain K V) (cur0 : cursor) (fuel : nat),
    ids_unique K V c -> nonempty_nodes K V c -> length (flat K V c) < fuel ->
    scan_prev K V IDXNUM fuel c (snd (cursor_to K V IDXNUM c cur0 CAfterLast)) = rev (flat K V c).
Proof. exact scan_prev_all. Qed.
Print Assumptions C02_scan_prev_all.

(* EQ positions on the given key or reports not-found - for every chain satisfying the invariant of C01, every comparator
   that is a total preorder, and whatever the cursor did before (cur is arbitrary) *)
Theorem C02_cursor_eq_spec :
  forall (K V : Type) (cmp : K -> K -> comparison) (IDXNUM PIVOT : nat), 1 <= PIVOT < IDXNUM ->
    (forall a b c : K, cmp a b = Lt -> cmp b c = Eq -> cmp a c = Lt) ->
    (forall a b c : K, cmp a b = Lt -> cmp b c = Lt -> cmp a c = Lt) ->
    forall (c : chain K V) (cur : cursor) (k : K),
      NodeInv K V cmp IDXNUM c -> ids_unique K V c ->
      match cursor_to_key K V cmp c cur false k with
      | (CROk, cur') => exists k' v, cursor_read K V c cur' = Some (k', v) /\ cmp k' k = Eq
                                     /\ Spec.s_get K V cmp (flat K V c) k = Some v
      | (_, _) => Spec.s_get K V cmp (flat K V c) k = None
      end.
Proof. exact cursor_eq_spec. Qed.
Print Assumptions C02_cursor_eq_spec.

(* PARTIAL: the GE positioning and the positioned read/write operations are in
   the model (KV/Cursor.v: cursor_to, cursor_to_key, cursor_read; KV/Inst.v: db_cset, db_cdel) and are tied to the
   implementation by the correspondence check, but no theorem about them is proved here. *)

(* Non-vacuity: a three-node chain; the scan computed by the model returns its five records in order. *)
Definition ex_chain : chain nat nat := [(1, [(10, 0); (9, 0)]); (2, [(7, 0)]); (5, [(4, 0); (2, 0)])].
Example C02_scan_example :
  scan_next nat nat 32 10 ex_chain (snd (cursor_to nat nat 32 ex_chain (cursor_init) CBeforeFirst))
  = [(10, 0); (9, 0); (7, 0); (4, 0); (2, 0)].
Proof. vm_compute. reflexivity. Qed.
Example C02_example_hyps : ids_unique nat nat ex_chain /\ nonempty_nodes nat nat ex_chain.
Proof.
  split.
  - unfold ids_unique. simpl. repeat constructor; simpl; intuition discriminate.
  - unfold nonempty_nodes. repeat constructor; simpl; discriminate.
Qed.
