Require Import ZArith List. Require Extraction. Require Import ExtrOcamlBasic.
Require Import IW.Lib.CInt IW.UT.Conv IW.JSON.Val IW.JSON.Patch IW.JSON.Mem IW.JSON.Merge IW.JSON.PatchSpec IW.Gen.Facts IW.JSON.Binn IW.JSON.WriteBack IW.JSON.PatchId.
Extraction "m.ml" Z.add Z.mul Z.sub Z.div_eucl Z.compare Z.of_nat Z.to_nat Z.opp
  node n_kl n_key n_ty n_vi n_vs n_ch fops rawop pop rc rc_code opk op_code ty_code
  nodes_eq patch_node create_patch decode_ops_exact patch_binary apply_op parse_ops
  merge_pool jbn_merge_patch_pool jbn_merge_patch_node jbn_patch_auto merge_patch_create jbn_merge_patch_path_pool merge_binary
  heap h_empty h_live herr hnode forget heap_of destroy jbn_merge_patch_heap jbn_merge_patch_path_heap
  iwjsreg_merge_model iwjsreg_merge_scalar
  inode ipop i_of_node i_apply_ops i_ids i_parents_ok iforget lib_reparent i_id i_ch
  val doc_val of_val rfc_program merge_spec strict lenient
  wb_enc wb_store jbl_patch_model jbl_merge_model representable.
