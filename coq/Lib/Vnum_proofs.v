Require Import ZArith List Lia. Require Import IW.Lib.CInt IW.Lib.Vnum IW.Gen.Facts. Import ListNotations.
Local Open Scope Z_scope.
Ltac Zify.zify_post_hook ::= Z.div_mod_to_equations.

Lemma sw64_id n : 0 <= n < 2^63 -> sw 64 n = n.
Proof. intros H. unfold sw. change (2^(64-1)) with (2^63). rewrite Z.mod_small; lia. Qed.
Lemma sw32_id n : 0 <= n < 2^31 -> sw 32 n = n.
Proof. intros H. unfold sw. change (2^(32-1)) with (2^31). rewrite Z.mod_small; lia. Qed.

Lemma set_loop_step f num : set_vnum_loop (S f) num =
  if num <=? 0 then [] else if 0 <? num / 128 then (255 - num mod 128) :: set_vnum_loop f (num / 128) else [num mod 128].
Proof. reflexivity. Qed.

(* reading back what the loop wrote, from any accumulator state *)
Lemma read_set_loop : forall f num rest base acc i,
  0 < num < 128 ^ Z.of_nat f ->
  read_vnum_loop (set_vnum_loop f num ++ rest) base acc i
  = Some (acc + base * num, (i + length (set_vnum_loop f num))%nat).
Proof.
  induction f as [|f IH]; intros num rest base acc i H.
  - simpl in H. lia.
  - rewrite set_loop_step.
    destruct (num <=? 0) eqn:E0; [lia|].
    destruct (0 <? num / 128) eqn:E1.
    + cbn [app read_vnum_loop length].
      assert (Hm : 0 <= num mod 128 < 128) by (apply Z.mod_pos_bound; lia).
      destruct (255 - num mod 128 <? 128) eqn:E2; [lia|].
      rewrite IH.
      * f_equal. f_equal; [|lia].
        replace (255 - (255 - num mod 128)) with (num mod 128) by lia.
        pose proof (Z.div_mod num 128). lia.
      * rewrite Nat2Z.inj_succ, Z.pow_succ_r in H by lia. split; [lia|].
        apply Z.div_lt_upper_bound; lia.
    + cbn [app read_vnum_loop length].
      assert (Hm : 0 <= num mod 128 < 128) by (apply Z.mod_pos_bound; lia).
      destruct (num mod 128 <? 128) eqn:E2; [|lia].
      f_equal. f_equal; [|lia].
      assert (num / 128 = 0) by lia. pose proof (Z.div_mod num 128). lia.
Qed.

Lemma set_loop_nonempty f num : 0 < num -> (0 < f)%nat -> set_vnum_loop f num <> [].
Proof. intros H Hf. destruct f; [lia|]. rewrite set_loop_step.
  destruct (num <=? 0) eqn:E; [lia|]. destruct (0 <? num/128); discriminate. Qed.

Theorem vnum64_roundtrip n rest : 0 <= n < 2^63 ->
  read_vnum (set_vnum64 n ++ rest) = Some (n, length (set_vnum64 n)) /\ set_vnum64 n <> [].
Proof.
  intros H. unfold set_vnum64, read_vnum. rewrite sw64_id by exact H.
  destruct (n =? 0) eqn:E.
  - assert (n = 0) by lia. subst. split; [reflexivity|discriminate].
  - split.
    + rewrite read_set_loop; [f_equal; f_equal; lia|]. change (128 ^ Z.of_nat 10) with (2^70). lia.
    + apply set_loop_nonempty; lia.
Qed.

Theorem vnum32_roundtrip n rest : 0 <= n < 2^31 ->
  read_vnum (set_vnum32 n ++ rest) = Some (n, length (set_vnum32 n)) /\ set_vnum32 n <> [].
Proof.
  intros H. unfold set_vnum32, read_vnum. rewrite sw32_id by exact H.
  destruct (n =? 0) eqn:E.
  - assert (n = 0) by lia. subst. split; [reflexivity|discriminate].
  - split.
    + rewrite read_set_loop; [f_equal; f_equal; lia|]. change (128 ^ Z.of_nat 5) with (2^35). lia.
    + apply set_loop_nonempty; lia.
Qed.

(* values the encoder rejects (len = 0): exactly those with the sign bit set *)
Theorem vnum64_rejects n : 2^63 <= n < 2^64 -> set_vnum64 n = [].
Proof.
  intros H. unfold set_vnum64, sw. change (2^(64-1)) with (2^63).
  replace ((n + 2^63) mod 2^64) with (n - 2^63).
  2:{ apply Z.mod_unique with (q := 1); lia. }
  destruct (n - 2^63 - 2^63 =? 0) eqn:E; [lia|].
  change (set_vnum_loop 10) with (set_vnum_loop (S 9)). rewrite set_loop_step.
  destruct (n - 2^63 - 2^63 <=? 0) eqn:E2; [reflexivity|lia].
Qed.

(* length = IW_VNUMSIZE (the macro as translated from the current source) *)
Lemma set_loop_len : forall f num k, (0 < k)%nat -> (k <= f)%nat ->
  128 ^ (Z.of_nat k - 1) <= num < 128 ^ Z.of_nat k -> length (set_vnum_loop f num) = k.
Proof.
  induction f as [|f IH]; intros num k Hk Hf H; [lia|].
  assert (0 < 128 ^ (Z.of_nat k - 1)) by (apply Z.pow_pos_nonneg; lia).
  rewrite set_loop_step. destruct (num <=? 0) eqn:E0; [lia|].
  destruct k as [|[|k]]; [lia| |].
  - simpl in H. destruct (0 <? num/128) eqn:E; [|reflexivity]. exfalso. change (128^1) with 128 in H. lia.
  - destruct (0 <? num/128) eqn:E.
    + cbn [length]. f_equal. apply IH; [lia|lia|].
      replace (Z.of_nat (S (S k)) - 1) with (Z.succ (Z.of_nat (S k) - 1)) in H by lia.
      rewrite Z.pow_succ_r in H by lia.
      replace (Z.of_nat (S (S k))) with (Z.succ (Z.of_nat (S k))) in H by lia.
      rewrite Z.pow_succ_r in H by lia.
      split; [apply Z.div_le_lower_bound; lia | apply Z.div_lt_upper_bound; lia].
    + exfalso. replace (Z.of_nat (S (S k)) - 1) with (Z.succ (Z.of_nat k)) in H by lia.
      rewrite Z.pow_succ_r in H by lia.
      assert (0 < 128 ^ Z.of_nat k) by (apply Z.pow_pos_nonneg; lia). lia.
Qed.

Theorem vnum64_size n : 0 <= n < 2^63 -> Z.of_nat (length (set_vnum64 n)) = IW_VNUMSIZE n.
Proof.
  intros H. unfold set_vnum64. rewrite sw64_id by exact H.
  unfold IW_VNUMSIZE, uw. rewrite Z.mod_small by lia.
  destruct (n =? 0) eqn:E0.
  { assert (n = 0) by lia; subst; reflexivity. }
  assert (L : forall k, (0 < k <= 10)%nat -> 128 ^ (Z.of_nat k - 1) <= n < 128 ^ Z.of_nat k ->
              length (set_vnum_loop 10 n) = k) by (intros; apply set_loop_len; lia).
  destruct (n <? 128) eqn:E1. { rewrite (L 1%nat); [reflexivity|lia|]. change (128^(Z.of_nat 1 - 1)) with 1. change (128^Z.of_nat 1) with 128. lia. }
  destruct (n <? 16384) eqn:E2. { rewrite (L 2%nat); [reflexivity|lia|]. change (128^(Z.of_nat 2 - 1)) with 128. change (128^Z.of_nat 2) with 16384. lia. }
  destruct (n <? 2097152) eqn:E3. { rewrite (L 3%nat); [reflexivity|lia|]. change (128^(Z.of_nat 3 - 1)) with 16384. change (128^Z.of_nat 3) with 2097152. lia. }
  destruct (n <? 268435456) eqn:E4. { rewrite (L 4%nat); [reflexivity|lia|]. change (128^(Z.of_nat 4 - 1)) with 2097152. change (128^Z.of_nat 4) with 268435456. lia. }
  destruct (n <? 34359738368) eqn:E5. { rewrite (L 5%nat); [reflexivity|lia|]. change (128^(Z.of_nat 5 - 1)) with 268435456. change (128^Z.of_nat 5) with 34359738368. lia. }
  destruct (n <? 4398046511104) eqn:E6. { rewrite (L 6%nat); [reflexivity|lia|]. change (128^(Z.of_nat 6 - 1)) with 34359738368. change (128^Z.of_nat 6) with 4398046511104. lia. }
  destruct (n <? 562949953421312) eqn:E7. { rewrite (L 7%nat); [reflexivity|lia|]. change (128^(Z.of_nat 7 - 1)) with 4398046511104. change (128^Z.of_nat 7) with 562949953421312. lia. }
  destruct (n <? 72057594037927936) eqn:E8. { rewrite (L 8%nat); [reflexivity|lia|]. change (128^(Z.of_nat 8 - 1)) with 562949953421312. change (128^Z.of_nat 8) with 72057594037927936. lia. }
  destruct (n <? 9223372036854775808) eqn:E9. { rewrite (L 9%nat); [reflexivity|lia|]. change (128^(Z.of_nat 9 - 1)) with 72057594037927936. change (128^Z.of_nat 9) with 9223372036854775808. lia. }
  lia.
Qed.

(* every encoded byte is a byte; encodings are self-delimiting: continuation bytes >= 128, last < 128 *)
Lemma set_loop_shape : forall f num, 0 < num ->
  Forall (fun b => 0 <= b < 256) (set_vnum_loop f num).
Proof.
  induction f as [|f IH]; intros num H; [constructor|].
  rewrite set_loop_step. destruct (num <=? 0); [constructor|].
  assert (Hm : 0 <= num mod 128 < 128) by (apply Z.mod_pos_bound; lia).
  destruct (0 <? num/128) eqn:E.
  - constructor; [lia|apply IH; lia].
  - constructor; [lia|constructor].
Qed.

(* order: the encoding length is monotone, which is what lets the integer-key comparator use
   `v2len - v1len` when lengths differ *)
Theorem vnum64_len_monotone a b : 0 <= a <= b -> b < 2^63 ->
  (length (set_vnum64 a) <= length (set_vnum64 b))%nat.
Proof.
  intros H Hb. apply Nat2Z.inj_le. rewrite !vnum64_size by lia.
  unfold IW_VNUMSIZE, uw. rewrite !Z.mod_small by lia.
  repeat match goal with |- context [if (?x <? ?y) then 1 else 0] => destruct (x <? y) eqn:?; cbn [Z.eqb] end; lia.
Qed.
