(* Variable-length integer codec of the file format: IW_SETVNUMBUF(64) / IW_READVNUMBUF(64)
   (src/utils/iwutils.h).  Bytes are Z in 0..255; the C macros work on signed char: a continuation
   byte is ~rem (unsigned value 255 - rem), the terminating byte is rem itself (< 128). *)
Require Import ZArith List. Require Import IW.Lib.CInt. Import ListNotations.
Local Open Scope Z_scope.

(* loop of IW_SETVNUMBUF64: `while (_num_ > 0)`, _num_ signed *)
Fixpoint set_vnum_loop (fuel : nat) (num : Z) : list Z :=
  match fuel with
  | O => []
  | S f =>
    if num <=? 0 then []
    else let rem := num mod 128 in
         let num' := num / 128 in
         if 0 <? num' then (255 - rem) :: set_vnum_loop f num' else [rem]
  end.

(* v is the unsigned 64-bit argument; `int64_t _num_ = (num_)` reinterprets it. Result [] = len 0 = error *)
Definition set_vnum64 (v : Z) : list Z :=
  let num := sw 64 v in if num =? 0 then [0] else set_vnum_loop 10 num.
Definition set_vnum32 (v : Z) : list Z :=
  let num := sw 32 v in if num =? 0 then [0] else set_vnum_loop 5 num.

(* IW_READVNUMBUF64: returns (num, step); None = the loop ran past the end of the given bytes *)
Fixpoint read_vnum_loop (buf : list Z) (base acc : Z) (i : nat) : option (Z * nat) :=
  match buf with
  | [] => None
  | b :: rest =>
    if b <? 128 then Some (acc + base * b, S i)
    else read_vnum_loop rest (base * 128) (acc + base * (255 - b)) (S i)
  end.
Definition read_vnum (buf : list Z) : option (Z * nat) := read_vnum_loop buf 1 0 O.
