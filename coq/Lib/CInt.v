(* C integer wrap-around, used by the macros translated into Gen/Facts.v and by the models. *)
Require Import ZArith.
Local Open Scope Z_scope.

Definition uw (bits : Z) (x : Z) : Z := x mod 2 ^ bits.
Definition sw (bits : Z) (x : Z) : Z := (x + 2 ^ (bits - 1)) mod 2 ^ bits - 2 ^ (bits - 1).
