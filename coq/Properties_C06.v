(* C06 - on-disk structure well-formed and every block accounted for.  Statements only.
   The auditor (KV/Audit.v) is an independent reader of the file format, extracted and run on the real file image
   after every batch of every history.  Its per-node and per-chain checks are boolean tests that restate the property
   directly (reachability from the header, level-i chain = nodes of the level-0 chain with lvl >= i, back links,
   per-level counters, nodes non-empty / sorted / globally ordered / true prefix, slots inside the block without
   overlap).  PROVED here: the two accounting algorithms it relies on mean what the property says.
   NOT proved: that every reachable state of the store model passes the auditor (L2 links and L3 data-block layout are
   not in the Coq model of the store); that part rests on the audited real images (tie T2). *)
Require Import List ZArith Lia Sorted. Import ListNotations.
Require Import IW.KV.Keys IW.KV.Audit IW.KV.Audit_proofs IW.KV.Records IW.KV.AuditRecords_proofs IW.KV.Head IW.KV.Head_proofs IW.Gen.Facts.
Local Open Scope Z_scope.

(* the adjacent-overlap test on the ranges sorted by start is pairwise disjointness (blocks, and slots of a data block) *)
Theorem C06_ranges_disjoint_sound :
  forall l : list (Z * Z),
    Forall (fun r => 0 <= snd r) l -> ranges_disjoint (sort_ranges l) = true ->
    ForallOrdPairs disj (sort_ranges l) /\ (forall r, In r (sort_ranges l) <-> In r l).
Proof.
  intros l Hn Hd. split; [|intros r; apply sort_ranges_in].
  apply ranges_disjoint_sound; [apply sort_ranges_sorted| |exact Hd].
  rewrite Forall_forall in *. intros r Hr. apply Hn. apply sort_ranges_in. exact Hr.
Qed.
Print Assumptions C06_ranges_disjoint_sound.

(* no complaint from the bitmap walk = the allocated set equals the occupied set exactly, for every byte function
   (file image), every bitmap offset and every list of occupied ranges: nothing leaks, nothing is unaccounted *)
Theorem C06_bitmap_exact :
  forall (rd : Z -> Z) (bmoff total : Z) (l : list (Z * Z)),
    Forall (fun r => 0 <= snd r) l -> Forall (fun r => 0 <= fst r) l -> 0 <= total ->
    ranges_disjoint (sort_ranges l) = true ->
    check_map rd bmoff 0 total (sort_ranges l) = [] ->
    forall b, 0 <= b < total -> (bm_bit rd bmoff b = true <-> exists r, In r l /\ inr b r).
Proof.
  intros rd bmoff total l Hn Hs Ht Hd Hc b Hb.
  assert (Hn' : Forall (fun r => 0 <= snd r) (sort_ranges l)).
  { rewrite Forall_forall in *. intros r Hr. apply Hn. apply sort_ranges_in. exact Hr. }
  assert (Hlo : laid_out 0 (sort_ranges l)).
  { apply laid_out_of_disjoint; [apply sort_ranges_sorted|exact Hn'|exact Hd|].
    destruct (sort_ranges l) as [|r0 rest] eqn:E; [exact I|].
    rewrite Forall_forall in Hs. apply Hs. apply sort_ranges_in. rewrite E. left. reflexivity. }
  rewrite (check_map_sound rd bmoff (sort_ranges l) 0 total Hlo Ht Hc b Hb).
  split; intros [r [Hr Hi]]; exists r; split; auto; apply sort_ranges_in; exact Hr.
Qed.
Print Assumptions C06_bitmap_exact.

(* Non-vacuity: a 16-block image whose bitmap byte 0x0F 0x03 marks blocks 0-3 and 8-9; ranges (0,4) and (8,2) *)
Example C06_bitmap_example :
  let rd := fun o => if o =? 100 then 15 else if o =? 101 then 3 else 0 in
  check_map rd 100 0 16 (sort_ranges [(8, 2); (0, 4)]) = [] /\ ranges_disjoint (sort_ranges [(8, 2); (0, 4)]) = true.
Proof. vm_compute. split; reflexivity. Qed.
Example C06_bitmap_example_leak :
  let rd := fun o => if o =? 100 then 15 else if o =? 101 then 7 else 0 in
  check_map rd 100 0 16 (sort_ranges [(8, 2); (0, 4)]) = [CLeak 10].
Proof. vm_compute. reflexivity. Qed.

(* the auditor and the record reader of the read-back theorems (C03) agree: a node the auditor has no complaint about has
   1..32 records, every one of them is readable by `node_recs`, and the stored keys the auditor judged (order inside the
   node, global order, cached prefix) are exactly the keys of the records that reader returns - for every file image, every
   block number and every key mode *)
Theorem C06_audited_node_is_readable :
  forall (rd : Z -> Z) (m : kmode) (blk : Z),
    let s := read_sblk rd blk in
    fst (fst (audit_node rd m s)) = [] ->
    exists recs, node_recs rd s = Some recs /\ map fst recs = snd (fst (audit_node rd m s)) /\
                 length recs = Z.to_nat (s_pnum s) /\ 1 <= s_pnum s <= KVBLK_IDXNUM.
Proof. exact audited_node_is_readable. Qed.
Print Assumptions C06_audited_node_is_readable.

(* The level links of the database head.  A search context or cursor reads them up to the first zero into a recycled node
   copy and the whole array of SLEVELS links is written back when the head changes.  For the reader of the current tree
   (the variant is the measured fact KV_HEAD_READ_ZEROES_REST): whatever the recycled copy held before, what is read has no
   link behind the first zero, and a head that is clean on disk is read as exactly what is stored - so writing it back keeps
   the levels above the current top empty.  The reader before the repair 7cc8b6d handed back the slot's old links. *)
Theorem C06_head_read_clean : forall disk slot, length slot = length disk -> clean (read_head disk slot) = true.
Proof. exact head_read_clean. Qed.
Print Assumptions C06_head_read_clean.

Theorem C06_head_read_identity : forall disk slot, clean disk = true -> length slot = length disk -> read_head disk slot = disk.
Proof. exact head_read_identity. Qed.
Print Assumptions C06_head_read_identity.

Theorem C06_head_read_stale_refuted :
  exists disk slot, clean disk = true /\ length slot = length disk /\
    clean (read_levels false disk slot) = false /\ read_levels false disk slot <> disk.
Proof. exact head_read_stale_refuted. Qed.
Print Assumptions C06_head_read_stale_refuted.

(* Correspondence, evaluated here on every run: the five reads tools/probes/probe_kvhead.c made with the current tree
   (first zero at level 1, 2, 5, 23 and none; slot full of another node's links) are what the model's reader returns. *)
Example C06_head_probe_agrees :
  forallb (fun t => match t with (disk, slot, res) =>
                      if list_eq_dec Z.eq_dec (read_head disk slot) res then true else false end) KV_HEAD_PROBE = true.
Proof. vm_compute. reflexivity. Qed.
