(* C06 - statements only. *)
Require Import List ZArith. Require Import IW.KV.Node IW.KV.Node_proofs.
Theorem C06_insert_length : forall K V (n : recs K V) i e, length (insert_at K V n i e) = S (length n).
Proof. exact insert_at_length. Qed.
Print Assumptions C06_insert_length.
