(* C07 - concurrent API calls cannot deadlock (lock skeleton).  Statements only.
   PROVED: for any number of threads and any calls whose lock requests are taken in strictly increasing rank order
   (store lock < database lock < allocator lock < file lock < log mutex), every reachable state of the lock LTS in
   which some call has not returned has an enabled step; the skeletons of the API calls follow that order.
   NOT proved (open goals, kept visible): `atomic_under_locks` (conflict serialisability of the data steps), the
   worker-count / condition-variable handshake of exclusive sections, writer preference of the rwlocks, absence of
   data races on store memory.  Those are sampled on the implementation: every concurrent execution must have a
   linearisation (exact search) and must terminate. *)
Require Import List ZArith Lia. Import ListNotations.
Require Import IW.CC.KvLocks IW.CC.KvLocks_proofs.

Theorem C07_no_deadlock_partial :
  forall (calls : list (list req)) (s : state),
    Forall increasing calls ->
    reach (map (fun c => {| held := []; todo := c |}) calls) s ->
    (exists t, In t s /\ unfinished t) -> exists i, can_step s i = true.
Proof. exact no_deadlock_reachable. Qed.
Print Assumptions C07_no_deadlock_partial.

Theorem C07_api_skeletons_ordered :
  forall db, increasing (call_put db) /\ increasing (call_get db) /\ increasing call_db_create /\ increasing call_sync.
Proof. exact skeletons_increasing. Qed.
Print Assumptions C07_api_skeletons_ordered.

(* Non-vacuity: two threads, a writer on database 1 and a reader on database 1: from the state where the writer holds
   store(R)+db(W) the reader (which holds store(R)) is blocked and the writer is enabled. *)
Example C07_blocked_example :
  let s := [ {| held := [((2, 1), Wr); ((1, 0), Rd)]; todo := [((3, 0), Wr)] |};
             {| held := [((1, 0), Rd)]; todo := [((2, 1), Rd)] |} ] in
  can_step s 1 = false /\ can_step s 0 = true.
Proof. vm_compute. split; reflexivity. Qed.
