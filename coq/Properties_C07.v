(* C07 - concurrent API calls cannot deadlock (lock skeleton).  Statements only.
   PROVED: for any number of threads and any calls whose lock requests are taken in strictly increasing rank order
   (store lock < database lock < allocator lock < file lock < log mutex), every reachable state of the lock LTS in
   which some call has not returned has an enabled step; the skeletons of the API calls follow that order.
   PROVED (dynamic form, the one tied to the code): threads are arbitrary programs of acquire / release actions (locks
   taken and released any number of times inside a call); if every acquisition happens while the thread holds only
   locks of strictly lower rank and a finished program holds nothing, no reachable state is a deadlock
   (C07_no_deadlock_dynamic).  That discipline is what the lock-order tracer (harness/h_lockord.c: every pthread lock
   operation of the library interposed, lock objects classified) checks on the real acquisition sequences of every
   API call in checks/C07.py, with the rank table read from coq/CC/LockOrder.v.
   NOT proved (open goals, kept visible): `atomic_under_locks` (conflict serialisability of the data steps), the
   worker-count / condition-variable handshake of exclusive sections, writer preference of the rwlocks, absence of
   data races on store memory.  Those are sampled on the implementation: every concurrent execution must have a
   linearisation (exact search) and must terminate. *)
Require Import List ZArith Lia. Import ListNotations.
Require Import IW.CC.KvLocks IW.CC.KvLocks_proofs IW.CC.LockOrder IW.CC.LockOrder_proofs.

Theorem C07_no_deadlock_partial :
  forall (calls : list (list req)) (s : state),
    Forall increasing calls ->
    reach (map (fun c => {| held := []; todo := c |}) calls) s ->
    (exists t, In t s /\ unfinished t) -> exists i, can_step s i = true.
Proof. exact no_deadlock_reachable. Qed.
Print Assumptions C07_no_deadlock_partial.

Theorem C07_api_skeletons_ordered :
  forall db, increasing (call_put db) /\ increasing (call_get db) /\ increasing call_db_create /\ increasing call_sync.
Proof. exact skeletons_increasing. Qed.
Print Assumptions C07_api_skeletons_ordered.

(* the dynamic lock-order theorem: any number of threads, programs of any length *)
Theorem C07_no_deadlock_dynamic :
  forall (progs : list (list act)) (s : dstate),
    Forall (well_ranked []) progs ->
    dreach (map (fun p => {| dheld := []; dprog := p |}) progs) s ->
    (exists t, In t s /\ dprog t <> []) -> exists i, dcan_step s i = true.
Proof. exact dno_deadlock_reachable. Qed.
Print Assumptions C07_no_deadlock_dynamic.

(* Non-vacuity and sharpness: a put-like program (store R, db W, then repeatedly file lock R / log mutex, allocator W
   with the file lock taken inside it) is well ranked; the same program with the allocator lock requested while the
   file lock is still held (the order a careless refactoring of _sblk_destroy produces) is not, and two such threads
   reach a state where nobody can move. *)
Definition ex_good : list act :=
  [Acq ((1,0),Rd); Acq ((2,1),Wr); Acq ((4,0),Rd); Acq ((5,0),Wr); Rel (5,0); Rel (4,0);
   Acq ((3,0),Wr); Acq ((4,0),Wr); Rel (4,0); Rel (3,0); Rel (2,1); Rel (1,0)].
Definition ex_bad_a : list act := [Acq ((4,0),Rd); Acq ((3,0),Wr); Rel (3,0); Rel (4,0)].
Definition ex_bad_b : list act := [Acq ((3,0),Wr); Acq ((4,0),Wr); Rel (4,0); Rel (3,0)].
Example C07_dynamic_examples :
  well_ranked [] ex_good /\ ~ well_ranked [] ex_bad_a /\
  (let s := [ {| dheld := [((4,0),Rd)]; dprog := tl ex_bad_a |}; {| dheld := [((3,0),Wr)]; dprog := tl ex_bad_b |} ] in
   dcan_step s 0 = false /\ dcan_step s 1 = false).
Proof.
  split; [|split].
  - cbn. unfold rank. cbn. repeat split; intros x Hx; repeat (destruct Hx as [<-|Hx]; [cbn; lia|]); destruct Hx.
  - cbn. unfold rank. intros [_ [H _]]. specialize (H ((4,0),Rd) (or_introl eq_refl)). cbn in H. lia.
  - vm_compute. split; reflexivity.
Qed.

(* Non-vacuity: two threads, a writer on database 1 and a reader on database 1: from the state where the writer holds
   store(R)+db(W) the reader (which holds store(R)) is blocked and the writer is enabled. *)
Example C07_blocked_example :
  let s := [ {| held := [((2, 1), Wr); ((1, 0), Rd)]; todo := [((3, 0), Wr)] |};
             {| held := [((1, 0), Rd)]; todo := [((2, 1), Rd)] |} ] in
  can_step s 1 = false /\ can_step s 0 = true.
Proof. vm_compute. split; reflexivity. Qed.
