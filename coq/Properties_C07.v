(* C07 - concurrent API calls cannot deadlock (lock skeleton).  Statements only.
   PROVED: for any number of threads and any calls whose lock requests are taken in strictly increasing rank order
   (store lock < database lock < allocator lock < file lock < log mutex), every reachable state of the lock LTS in
   which some call has not returned has an enabled step; the skeletons of the API calls follow that order.
   PROVED (dynamic form, the one tied to the code): threads are arbitrary programs of acquire / release actions (locks
   taken and released any number of times inside a call); if every acquisition happens while the thread holds only
   locks of strictly lower rank and a finished program holds nothing, no reachable state is a deadlock
   (C07_no_deadlock_dynamic).  That discipline is what the lock-order tracer (harness/h_lockord.c: every pthread lock
   operation of the library interposed, lock objects classified) checks on the real acquisition sequences of every
   API call in checks/C07.py, with the rank table read from coq/CC/LockOrder.v.
   PROVED (section model, CC/Sections.v): an operation is a sequence of critical sections run atomically, a context
   switch can happen between any two of them.  If every store into the mapping is logged inside the section that made it
   (publication discipline, WAL mode) and the two operations hold compatible outer locks with the database-lock
   discipline, EVERY interleaving ends in the state of the serial order A;B and of B;A, with the same values read, and
   the mapping still equals file + log (C07_sections_serialisable, C07_locks_give_noconflict); with incompatible outer
   locks the lock-step system only produces serial runs; together: C07_two_ops_serialisable.  Without WAL no
   publication hypothesis is needed.  The discipline is necessary: C07_unpublished_refuted (the store in one section,
   its log record in the next - the shape of a `dlsnr->onwrite` moved behind `release_mmap`).
   This is a theorem about the ABSTRACT section model (locations are per database, the allocator is a counter, physical
   block placement is not modelled).  It is tied to the code by the preemption explorer (harness/h_preempt.c,
   checks/c07_preempt.py): the lock events of the real operation are compiled into a model program (`compile`), the
   model predicts for every hand-over point k whether a file growth by the other thread leaves mapping bytes that
   differ from file + log (`stale_after`), and the prediction is compared with the implementation for every k.
   C07_guarded_trace_never_stale: a trace whose log records are all written under a lock that excludes a remap predicts
   "never"; C07_unguarded_trace_refuted: the trace of the unchanged _sblk_destroy predicts a stale byte at one k (and the
   implementation shows it there).
   NOT proved (open goals, kept visible): that the code's sections are atomic with respect to each other (absence of
   data races on store memory inside critical sections), the worker-count / condition-variable handshake of exclusive
   sections, writer preference of the rwlocks; more than two threads in the section model.  Those are sampled on the
   implementation: every concurrent execution must have a linearisation (exact search) and must terminate. *)
Require Import List ZArith Lia. Import ListNotations.
Require Import IW.CC.KvLocks IW.CC.KvLocks_proofs IW.CC.LockOrder IW.CC.LockOrder_proofs.
Require Import IW.CC.Sections IW.CC.Sections_proofs IW.CC.Balance IW.CC.Balance_proofs.

Theorem C07_no_deadlock_partial :
  forall (calls : list (list req)) (s : state),
    Forall increasing calls ->
    reach (map (fun c => {| held := []; todo := c |}) calls) s ->
    (exists t, In t s /\ unfinished t) -> exists i, can_step s i = true.
Proof. exact no_deadlock_reachable. Qed.
Print Assumptions C07_no_deadlock_partial.

Theorem C07_api_skeletons_ordered :
  forall db, increasing (call_put db) /\ increasing (call_get db) /\ increasing call_db_create /\ increasing call_sync.
Proof. exact skeletons_increasing. Qed.
Print Assumptions C07_api_skeletons_ordered.

(* the dynamic lock-order theorem: any number of threads, programs of any length *)
Theorem C07_no_deadlock_dynamic :
  forall (progs : list (list act)) (s : dstate),
    Forall (well_ranked []) progs ->
    dreach (map (fun p => {| dheld := []; dprog := p |}) progs) s ->
    (exists t, In t s /\ dprog t <> []) -> exists i, dcan_step s i = true.
Proof. exact dno_deadlock_reachable. Qed.
Print Assumptions C07_no_deadlock_dynamic.

(* Non-vacuity and sharpness: a put-like program (store R, db W, then repeatedly file lock R / log mutex, allocator W
   with the file lock taken inside it) is well ranked; the same program with the allocator lock requested while the
   file lock is still held (the order a careless refactoring of _sblk_destroy produces) is not, and two such threads
   reach a state where nobody can move. *)
Definition ex_good : list act :=
  [Acq ((1,0),Rd); Acq ((2,1),Wr); Acq ((4,0),Rd); Acq ((5,0),Wr); Rel (5,0); Rel (4,0);
   Acq ((3,0),Wr); Acq ((4,0),Wr); Rel (4,0); Rel (3,0); Rel (2,1); Rel (1,0)].
Definition ex_bad_a : list act := [Acq ((4,0),Rd); Acq ((3,0),Wr); Rel (3,0); Rel (4,0)].
Definition ex_bad_b : list act := [Acq ((3,0),Wr); Acq ((4,0),Wr); Rel (4,0); Rel (3,0)].
Example C07_dynamic_examples :
  well_ranked [] ex_good /\ ~ well_ranked [] ex_bad_a /\
  (let s := [ {| dheld := [((4,0),Rd)]; dprog := tl ex_bad_a |}; {| dheld := [((3,0),Wr)]; dprog := tl ex_bad_b |} ] in
   dcan_step s 0 = false /\ dcan_step s 1 = false).
Proof.
  split; [|split].
  - cbn. unfold rank. cbn. repeat split; intros x Hx; repeat (destruct Hx as [<-|Hx]; [cbn; lia|]); destruct Hx.
  - cbn. unfold rank. intros [_ [H _]]. specialize (H ((4,0),Rd) (or_introl eq_refl)). cbn in H. lia.
  - vm_compute. split; reflexivity.
Qed.

(* Non-vacuity: two threads, a writer on database 1 and a reader on database 1: from the state where the writer holds
   store(R)+db(W) the reader (which holds store(R)) is blocked and the writer is enabled. *)
Example C07_blocked_example :
  let s := [ {| held := [((2, 1), Wr); ((1, 0), Rd)]; todo := [((3, 0), Wr)] |};
             {| held := [((1, 0), Rd)]; todo := [((2, 1), Rd)] |} ] in
  can_step s 1 = false /\ can_step s 0 = true.
Proof. vm_compute. split; reflexivity. Qed.

(* ---- operations as sequences of critical sections (CC/Sections.v) ---- *)
Theorem C07_sections_serialisable :
  forall (w : bool) (a b : prog) (l : list (bool * section)) (s0 : store),
    inv s0 -> Forall (good w) a -> Forall (good w) b -> noconflict a b -> Interleave a b l ->
    let c := exec w (start s0) l in
    let cab := exec w (start s0) (tag false a ++ tag true b) in
    let cba := exec w (start s0) (tag true b ++ tag false a) in
    inv (cs c) /\
    (same (cs c) (cs cab) /\ oa c = oa cab /\ ob c = ob cab) /\
    (same (cs c) (cs cba) /\ oa c = oa cba /\ ob c = ob cba).
Proof. exact sections_serialisable. Qed.
Print Assumptions C07_sections_serialisable.

Theorem C07_locks_give_noconflict :
  forall A B : op, well_locked A -> well_locked B -> compatible (outer A) (outer B) = true -> noconflict (body A) (body B).
Proof. exact locks_noconflict. Qed.
Print Assumptions C07_locks_give_noconflict.

(* any complete run of the lock-step system of two operations: the result of some serial order *)
Theorem C07_two_ops_serialisable :
  forall (w : bool) (A B : op) (sched : list bool) (s0 : store) (f : lcfg),
    inv s0 -> Forall (good w) (body A) -> Forall (good w) (body B) -> well_locked A -> well_locked B ->
    run_ops w A B sched s0 = Some f -> finished f = true ->
    let cab := exec w (start s0) (tag false (body A) ++ tag true (body B)) in
    let cba := exec w (start s0) (tag true (body B) ++ tag false (body A)) in
    (same (cs (lc f)) (cs cab) /\ oa (lc f) = oa cab /\ ob (lc f) = ob cab) \/
    (same (cs (lc f)) (cs cba) /\ oa (lc f) = oa cba /\ ob (lc f) = ob cba).
Proof. exact two_ops_serialisable. Qed.
Print Assumptions C07_two_ops_serialisable.

(* the full statement WITHOUT the publication hypothesis is false in WAL mode: the store in one section, its log record
   in the next, a file growth of the other thread in between - every other hypothesis holds (and the same programs are
   fine without WAL) *)
Theorem C07_unpublished_refuted :
  exists a b l, noconflict a b /\ Interleave a b l /\ inv zero_store /\
    (exists x, Forall (good false) a /\ ~ good true x /\ In x a) /\
    mp (cs (exec true (start zero_store) l)) (0, 0) <> mp (cs (exec true (start zero_store) (tag false a ++ tag true b))) (0, 0) /\
    mp (cs (exec true (start zero_store) l)) (0, 0) <> mp (cs (exec true (start zero_store) (tag true b ++ tag false a))) (0, 0) /\
    ~ inv (cs (exec true (start zero_store) l)).
Proof. exact unpublished_refuted. Qed.
Print Assumptions C07_unpublished_refuted.

(* lock-event traces of the implementation *)
Theorem C07_guarded_trace_never_stale :
  forall (tr : list ev) (k : nat), unguarded_logs tr = 0 -> stale_after true tr k = false.
Proof. exact guarded_trace_never_stale. Qed.
Print Assumptions C07_guarded_trace_never_stale.

Theorem C07_nowal_never_stale : forall (tr : list ev) (k : nat), stale_after false tr k = false.
Proof. exact nowal_never_stale. Qed.
Print Assumptions C07_nowal_never_stale.

Theorem C07_unguarded_trace_refuted : exists tr k, unguarded_logs tr = 1 /\ stale_after true tr k = true.
Proof. exact unguarded_trace_refuted. Qed.
Print Assumptions C07_unguarded_trace_refuted.

(* Non-vacuity of the hypotheses: a put on database 0 (two published stores, an allocation that grows the file, a read)
   and a put on database 1, store lock shared, database locks exclusive: well locked, compatible, published; a
   schedule of the lock-step system that interleaves them runs to the end. *)
Definition ex_put0 : op :=
  {| outer := [((1, 0), KvLocks.Rd); (dblock 0, KvLocks.Wr)];
     body := [[Get (0, 1)]; [Sto (0, 1) 5; Log (0, 1) 5; Grow 2]; [Sto (0, 2) 6; Log (0, 2) 6]] |}.
Definition ex_put1 : op :=
  {| outer := [((1, 0), KvLocks.Rd); (dblock 1, KvLocks.Wr)];
     body := [[Sto (1, 1) 8; Log (1, 1) 8]; [Grow 4]] |}.
Example C07_sections_example :
  well_locked ex_put0 /\ well_locked ex_put1 /\ compatible (outer ex_put0) (outer ex_put1) = true /\
  Forall (good true) (body ex_put0) /\ Forall (good true) (body ex_put1) /\ inv zero_store /\
  (exists f, run_ops true ex_put0 ex_put1 [false; true; false; true; false] zero_store = Some f /\ finished f = true /\
             mp (cs (lc f)) (0, 2) = 6%Z /\ mp (cs (lc f)) (1, 1) = 8%Z /\ fsz (cs (lc f)) = 6%Z).
Proof.
  split; [|split; [|split; [|split; [|split; [|split]]]]].
  - unfold well_locked, ex_put0. simpl. repeat (first [apply Forall_cons | apply Forall_nil]); simpl; auto 8.
  - unfold well_locked, ex_put1. simpl. repeat (first [apply Forall_cons | apply Forall_nil]); simpl; auto 8.
  - reflexivity.
  - repeat constructor.
  - repeat constructor.
  - intros l. reflexivity.
  - eexists. split; [vm_compute; reflexivity|]. repeat split; vm_compute; reflexivity.
Qed.
(* two operations on the SAME database: the outer locks are incompatible, the lock-step system refuses to interleave *)
Example C07_same_db_refused :
  compatible (outer ex_put0) (outer ex_put0) = false /\
  run_ops true ex_put0 ex_put0 [false; true] zero_store = None.
Proof. split; vm_compute; reflexivity. Qed.

(* ---- API calls are lock-balanced (CC/Balance.v) ----
   In every reachable state of any number of threads running well-ranked acquire / release programs, a thread whose call
   has returned holds no lock.  The lock programs of the paths of iwkv_db() are well ranked and balanced; the path of the
   tree before 107860a (INCOMPATIBLE_DB_MODE returned under the exclusive lock) is neither, and with one more caller a
   state is reachable in which nobody can move although the lock holder has returned.  On the implementation the explorer
   (harness/h_preempt.c) checks after every call that the calling thread holds none of the interposed locks, and the
   extracted `trace_balanced` judges the recorded lock events of the same call (scenario `dbrace`). *)
Theorem C07_returned_call_holds_nothing :
  forall (progs : list (list act)) (s : dstate) (t : dthread),
    Forall (well_ranked []) progs -> dreach (fresh_threads progs) s -> In t s -> dprog t = [] -> dheld t = [].
Proof. exact finished_holds_nothing. Qed.
Print Assumptions C07_returned_call_holds_nothing.

Theorem C07_iwkv_db_paths_balanced : Forall (fun p => well_ranked [] p /\ balanced p) iwkv_db_summaries.
Proof. exact iwkv_db_summaries_ranked. Qed.
Print Assumptions C07_iwkv_db_paths_balanced.

Theorem C07_iwkv_db_prefix_refuted :
  held_after [] db_lost_race_prefix = [(l_store, KvLocks.Wr)] /\ ~ balanced db_lost_race_prefix /\
  ~ well_ranked [] db_lost_race_prefix /\
  exists s, dreach (fresh_threads [db_lost_race_prefix; db_found]) s /\
            (exists t, In t s /\ dprog t = [] /\ dheld t <> []) /\
            (exists t, In t s /\ dprog t <> []) /\ forall i, dcan_step s i = false.
Proof. exact iwkv_db_prefix_refuted. Qed.
Print Assumptions C07_iwkv_db_prefix_refuted.

Theorem C07_trace_balanced_iff : forall tr : list ev, trace_balanced tr = true <-> balanced (trace_prog tr).
Proof. exact trace_balanced_iff. Qed.
Print Assumptions C07_trace_balanced_iff.

(* the recorded lock events of the loser of the `dbrace` scenario, after and before the fix, are the model's paths *)
Example C07_dbrace_traces :
  trace_balanced dbrace_loser_trace = true /\ trace_balanced dbrace_loser_trace_prefix = false /\
  trace_prog dbrace_loser_trace = db_lost_race /\ trace_prog dbrace_loser_trace_prefix = db_lost_race_prefix.
Proof. exact dbrace_traces. Qed.
