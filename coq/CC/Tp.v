(* C20 - iwtp.c (thread pool) as a labelled transition system; same conventions as Stw.v.
   Threads 0 .. nthreads-1 are the pool workers created (and registered in tp->threads) by iwtp_start.
   [chk] selects the variant of iwtp_schedule: false = the code as found (no look at tp->shutdown),
   true = fix f543a7b (IW_ERROR_INVALID_STATE once shutdown is set, as iwtp.h documents).
   [reg]: false = the code as found (overflow thread not pushed to tp->threads: it finds idx == -1 and leaves at once, it is
   never joined), true = fix b174074 (pushed: it runs at most one task, then unregisters and detaches itself unless
   shutdown is set, in which case iwtp_shutdown joins it).
   The registry tp->threads is the list [regs] with the real list operations: iwulist_push = append,
   iwulist_find_first = Lts.find_first (the index is computed once in the prologue of _worker_fn and cached in [ix]; the
   test `idx >= tp->num_threads` uses the cached value), iwulist_remove_first_by = Lts.remove_first (removal by VALUE).
   No proofs in this file. *)
Require Import List Bool Arith.
Require Import IW.CC.Lts.
Import ListNotations.

Record cfg := mkcfg { nthreads : nat; limit : nat; ovf : nat; chk : bool; reg : bool }.

Inductive pcT :=
| Idle | Start | Locked               (* client: between calls, before/after pthread_mutex_lock *)
| PEnq | PSp | PSig                   (* iwtp_schedule: linked, overflow thread created, cond signalled *)
| QB | QJoin | QFreed                 (* iwtp_shutdown; QJoin: joining the threads of the cloned list jl *)
| Ret (rc : nat) (sched : bool)
| TStart | TReg                       (* _worker_fn prologue: lock, find idx, unlock *)
| TTop | TL1 | TDeq | TU1t | TRun | TU1 | TL2 | TWait | TWoken | TExit | TDead.

(* ix: the index `idx` that _worker_fn found for itself in tp->threads in its prologue (cached for the whole life of the
   thread); det (ghost): the thread has unregistered and detached itself *)
Record thr := mkt { pc : pcT; fn : nat; tk : task; wf : bool; jl : list tid; ix : nat; det : bool }.
Definition setpc (th : thr) (p : pcT) : thr := mkt p (fn th) (tk th) (wf th) (jl th) (ix th) (det th).

Record st := mk {
  queue : list task; qsize : nat; busy : nat; shut : bool;
  owner : option tid; waitc : list tid;
  regs : list tid;      (* tp->threads *)
  workers : list tid;   (* ghost: every thread that was started with _worker_fn *)
  th : tid -> thr;
  used : list task; enq : list task; done : list task; disc : list task; acc : list task; started : list task;
  shut_wait : bool; freed : bool; uaf : bool
}.

Definition set_queue (s : st) (v : list task) : st :=
  mk v (qsize s) (busy s) (shut s) (owner s) (waitc s) (regs s) (workers s) (th s) (used s) (enq s) (done s) (disc s) (acc s) (started s) (shut_wait s) (freed s) (uaf s).
Definition set_qsize (s : st) (v : nat) : st :=
  mk (queue s) v (busy s) (shut s) (owner s) (waitc s) (regs s) (workers s) (th s) (used s) (enq s) (done s) (disc s) (acc s) (started s) (shut_wait s) (freed s) (uaf s).
Definition set_busy (s : st) (v : nat) : st :=
  mk (queue s) (qsize s) v (shut s) (owner s) (waitc s) (regs s) (workers s) (th s) (used s) (enq s) (done s) (disc s) (acc s) (started s) (shut_wait s) (freed s) (uaf s).
Definition set_shut (s : st) (v : bool) : st :=
  mk (queue s) (qsize s) (busy s) v (owner s) (waitc s) (regs s) (workers s) (th s) (used s) (enq s) (done s) (disc s) (acc s) (started s) (shut_wait s) (freed s) (uaf s).
Definition set_owner (s : st) (v : option tid) : st :=
  mk (queue s) (qsize s) (busy s) (shut s) v (waitc s) (regs s) (workers s) (th s) (used s) (enq s) (done s) (disc s) (acc s) (started s) (shut_wait s) (freed s) (uaf s).
Definition set_waitc (s : st) (v : list tid) : st :=
  mk (queue s) (qsize s) (busy s) (shut s) (owner s) v (regs s) (workers s) (th s) (used s) (enq s) (done s) (disc s) (acc s) (started s) (shut_wait s) (freed s) (uaf s).
Definition set_regs (s : st) (v : list tid) : st :=
  mk (queue s) (qsize s) (busy s) (shut s) (owner s) (waitc s) v (workers s) (th s) (used s) (enq s) (done s) (disc s) (acc s) (started s) (shut_wait s) (freed s) (uaf s).
Definition set_workers (s : st) (v : list tid) : st :=
  mk (queue s) (qsize s) (busy s) (shut s) (owner s) (waitc s) (regs s) v (th s) (used s) (enq s) (done s) (disc s) (acc s) (started s) (shut_wait s) (freed s) (uaf s).
Definition set_th (s : st) (v : tid -> thr) : st :=
  mk (queue s) (qsize s) (busy s) (shut s) (owner s) (waitc s) (regs s) (workers s) v (used s) (enq s) (done s) (disc s) (acc s) (started s) (shut_wait s) (freed s) (uaf s).
Definition set_used (s : st) (v : list task) : st :=
  mk (queue s) (qsize s) (busy s) (shut s) (owner s) (waitc s) (regs s) (workers s) (th s) v (enq s) (done s) (disc s) (acc s) (started s) (shut_wait s) (freed s) (uaf s).
Definition set_enq (s : st) (v : list task) : st :=
  mk (queue s) (qsize s) (busy s) (shut s) (owner s) (waitc s) (regs s) (workers s) (th s) (used s) v (done s) (disc s) (acc s) (started s) (shut_wait s) (freed s) (uaf s).
Definition set_done (s : st) (v : list task) : st :=
  mk (queue s) (qsize s) (busy s) (shut s) (owner s) (waitc s) (regs s) (workers s) (th s) (used s) (enq s) v (disc s) (acc s) (started s) (shut_wait s) (freed s) (uaf s).
Definition set_disc (s : st) (v : list task) : st :=
  mk (queue s) (qsize s) (busy s) (shut s) (owner s) (waitc s) (regs s) (workers s) (th s) (used s) (enq s) (done s) v (acc s) (started s) (shut_wait s) (freed s) (uaf s).
Definition set_acc (s : st) (v : list task) : st :=
  mk (queue s) (qsize s) (busy s) (shut s) (owner s) (waitc s) (regs s) (workers s) (th s) (used s) (enq s) (done s) (disc s) v (started s) (shut_wait s) (freed s) (uaf s).
Definition set_started (s : st) (v : list task) : st :=
  mk (queue s) (qsize s) (busy s) (shut s) (owner s) (waitc s) (regs s) (workers s) (th s) (used s) (enq s) (done s) (disc s) (acc s) v (shut_wait s) (freed s) (uaf s).
Definition set_shut_wait (s : st) (v : bool) : st :=
  mk (queue s) (qsize s) (busy s) (shut s) (owner s) (waitc s) (regs s) (workers s) (th s) (used s) (enq s) (done s) (disc s) (acc s) (started s) v (freed s) (uaf s).
Definition set_freed (s : st) (v : bool) : st :=
  mk (queue s) (qsize s) (busy s) (shut s) (owner s) (waitc s) (regs s) (workers s) (th s) (used s) (enq s) (done s) (disc s) (acc s) (started s) (shut_wait s) v (uaf s).
Definition set_uaf (s : st) (v : bool) : st :=
  mk (queue s) (qsize s) (busy s) (shut s) (owner s) (waitc s) (regs s) (workers s) (th s) (used s) (enq s) (done s) (disc s) (acc s) (started s) (shut_wait s) (freed s) v.
Definition set_thr (s : st) (t : tid) (x : thr) : st := set_th s (upd (th s) t x).

Definition init (c : cfg) : st :=
  mk [] 0 0 false None [] (seq 0 (nthreads c)) (seq 0 (nthreads c))
     (fun t => if t <? nthreads c then mkt TStart 0 0 false [] 0 false else mkt Idle 0 0 false [] 0 false)
     [] [] [] [] [] [] false false false.

Definition do_lock (s : st) (t : tid) : st := set_uaf (set_owner s (Some t)) (uaf s || freed s).

(* `tp->queue_limit && (tp->queue_size + 1 > tp->queue_limit)` *)
Definition full (c : cfg) (s : st) : bool := negb (limit c =? 0) && (limit c <? qsize s + 1).
(* queue_size > 1 && num_threads_busy >= num_threads && iwulist_length(&threads) < num_threads * (1 + factor) *)
Definition spawn_cond (c : cfg) (s : st) : bool :=
  (1 <? qsize s) && (nthreads c <=? busy s) && (length (regs s) <? nthreads c * (1 + ovf c)).

Definition unlock_to (s : st) (t : tid) (x : thr) (p : pcT) : option st :=
  Some (set_thr (set_owner s None) t (setpc x p)).

Definition step (c : cfg) (s : st) (t : tid) (e : ev) : option st :=
  let x := th s t in
  match pc x with
  | Idle =>
      match e with
      | ECall f k w =>
          if t <? nthreads c then None
          else if f =? 0 then
            if memb k (used s) then None else Some (set_thr (set_used s (k :: used s)) t (mkt Start 0 k w [] 0 false))
          else if (f =? 3) || (f =? 4) || (f =? 5) then Some (set_thr s t (mkt Start f 0 w [] 0 false))
          else None
      | _ => None
      end
  | Start | TStart | TTop | TU1 =>
      match e with
      | ELock =>
          if free_mtx (owner s) then
            match pc x with
            | Start => Some (set_thr (do_lock s t) t (setpc x Locked))
            | TStart => Some (set_thr (do_lock s t) t (setpc x TReg))
            | TTop => Some (set_thr (set_busy (do_lock s t) (busy s + 1)) t (setpc x TL1))
            | _ => Some (set_thr (set_busy (do_lock s t) (pred (busy s))) t (setpc x TL2))
            end
          else None
      | _ => None
      end
  | TWait =>
      match e with
      | EWake k => if free_mtx (owner s) && (k =? 0) then
          Some (set_thr (set_waitc (do_lock s t) (remove1 t (waitc s))) t (setpc x TWoken)) else None
      | _ => None
      end
  | TU1t => match e with
            | ERun k => if k =? tk x then Some (set_thr (set_started s (started s ++ [k])) t (setpc x TRun)) else None
            | _ => None
            end
  | TRun => match e with
            | EDone k => if k =? tk x then Some (set_thr (set_done s (done s ++ [k])) t (setpc x TU1)) else None
            | _ => None
            end
  | TExit => match e with EExit => Some (set_thr s t (setpc x TDead)) | _ => None end
  | TDead => None
  | QJoin =>
      match jl x with
      | k :: rest =>
          match e with
          | EJoin j => if j =? k then
                         match pc (th s k) with
                         | TDead => Some (set_thr s t (mkt QJoin (fn x) (tk x) (wf x) rest (ix x) (det x)))
                         | _ => None
                         end
                       else None
          | _ => None
          end
      | [] => match e with EFree => Some (set_thr (set_freed s true) t (setpc x QFreed)) | _ => None end
      end
  | QFreed => match e with
              | ERet rc sc => if (rc =? 0) && negb sc then Some (set_thr s t (setpc x Idle)) else None
              | _ => None
              end
  | Ret rc sc =>
      match e with
      | ERet rc' sc' =>
          if (rc =? rc') && eqb sc sc' then
            Some (set_thr (if sc then set_acc s (acc s ++ [tk x]) else s) t (setpc x Idle))
          else None
      | _ => None
      end
  | _ => (* inside the critical section *)
      if owns (owner s) t then
        match pc x with
        | Locked =>
            match fn x with
            | 0 =>
                if chk c && shut s then
                  match e with EUnlock => unlock_to s t x (Ret RC_INVALID_STATE false) | _ => None end
                else if full c s then
                  match e with EUnlock => unlock_to s t x (Ret RC_OVERFLOW false) | _ => None end
                else match e with
                     | EEnq k => if k =? tk x then
                         Some (set_thr (set_enq (set_qsize (set_queue s (queue s ++ [k])) (qsize s + 1)) (enq s ++ [k])) t (setpc x PEnq))
                         else None
                     | _ => None
                     end
            | 3 =>
                if shut s then match e with EUnlock => unlock_to s t x (Ret RC_OK false) | _ => None end
                else match e with
                     | EBcast k => if k =? 0 then
                         let s1 := set_shut_wait (set_shut s true) (wf x) in
                         let s2 := if wf x then s1 else set_qsize (set_disc (set_queue s1 []) (disc s ++ queue s)) 0 in
                         Some (set_thr (set_waitc s2 []) t (mkt QB (fn x) (tk x) (wf x) (regs s) (ix x) (det x)))
                         else None
                     | _ => None
                     end
            | 4 => match e with EUnlock => unlock_to s t x (Ret (qsize s) false) | _ => None end
            | 5 => match e with EUnlock => unlock_to s t x (Ret (busy s) false) | _ => None end
            | _ => None
            end
        | PEnq =>
            if spawn_cond c s then
              match e with
              | ESpawn ch => if (nthreads c <=? ch) && negb (ch =? t) then
                  match pc (th s ch) with
                  | Idle =>
                      let s1 := set_workers s (workers s ++ [ch]) in
                      let s2 := if reg c then set_regs s1 (regs s ++ [ch]) else s1 in
                      Some (set_thr (set_thr s2 ch (mkt TStart 0 0 false [] 0 false)) t (setpc x PSp))
                  | _ => None
                  end else None
              | _ => None
              end
            else match e with
                 | ESignal k w => if k =? 0 then
                     match w with
                     | Some v => if memb v (waitc s) then Some (set_thr (set_waitc s (remove1 v (waitc s))) t (setpc x PSig)) else None
                     | None => if is_nil (waitc s) then Some (set_thr s t (setpc x PSig)) else None
                     end else None
                 | _ => None
                 end
        | PSp =>
            match e with
            | ESignal k w => if k =? 0 then
                match w with
                | Some v => if memb v (waitc s) then Some (set_thr (set_waitc s (remove1 v (waitc s))) t (setpc x PSig)) else None
                | None => if is_nil (waitc s) then Some (set_thr s t (setpc x PSig)) else None
                end else None
            | _ => None
            end
        | PSig => match e with EUnlock => unlock_to s t x (Ret RC_OK true) | _ => None end
        | QB => match e with EUnlock => unlock_to s t x QJoin | _ => None end
        | TReg =>
            (* `idx = iwulist_find_first(&tp->threads, &st)`, unlock, `if (idx == -1) return 0;` *)
            match e with
            | EUnlock =>
                match find_first t (regs s) with
                | Some i => Some (set_thr (set_owner s None) t (mkt TTop (fn x) (tk x) (wf x) (jl x) i (det x)))
                | None => unlock_to s t x TExit
                end
            | _ => None
            end
        | TL1 =>
            match e with
            | EDeq k =>
                match queue s with
                | y :: q => if k =? y then
                    Some (set_thr (set_qsize (set_queue s q) (pred (qsize s))) t (mkt TDeq (fn x) k (wf x) (jl x) (ix x) (det x))) else None
                | [] => None
                end
            | EUnlock => if is_nil (queue s) then unlock_to s t x TU1 else None
            | _ => None
            end
        | TDeq => match e with EUnlock => unlock_to s t x TU1t | _ => None end
        | TL2 =>
            if nthreads c <=? ix x then
              (* `idx >= tp->num_threads` (overflow thread):
                 `if (!tp->shutdown) { iwulist_remove_first_by(&tp->threads, &st); pthread_detach(st); }`, unlock, leave *)
              match e with
              | EUnlock =>
                  if shut s then unlock_to s t x TExit
                  else Some (set_thr (set_owner (set_regs s (remove_first t (regs s))) None) t
                                     (mkt TExit (fn x) (tk x) (wf x) (jl x) (ix x) true))
              | _ => None
              end
            else if negb (is_nil (queue s)) then match e with EUnlock => unlock_to s t x TTop | _ => None end
            else if shut s then match e with EUnlock => unlock_to s t x TExit | _ => None end
            else match e with
                 | EWait k => if k =? 0 then Some (set_thr (set_owner (set_waitc s (t :: waitc s)) None) t (setpc x TWait)) else None
                 | _ => None
                 end
        | TWoken => match e with EUnlock => unlock_to s t x TTop | _ => None end
        | _ => None
        end
      else None
  end.

Definition hidden (c : cfg) (s : st) (t : tid) : option ev :=
  match pc (th s t) with
  | TL1 => match queue s with
           | y :: _ => match step c s t (EDeq y) with Some _ => Some (EDeq y) | None => None end
           | [] => None
           end
  | Locked => let e := EEnq (tk (th s t)) in match step c s t e with Some _ => Some e | None => None end
  | _ => None
  end.

(* task held by thread t between dequeue and the return of fn *)
Definition held1 (s : st) (t : tid) : list task :=
  match pc (th s t) with TDeq | TU1t | TRun => [tk (th s t)] | _ => [] end.
Definition held (s : st) : list task := flat_map (held1 s) (workers s).
