(* C07 - proofs for CC/Balance.v *)
Require Import List ZArith Bool Lia. Import ListNotations.
Require Import IW.CC.KvLocks IW.CC.KvLocks_proofs IW.CC.LockOrder IW.CC.LockOrder_proofs IW.CC.Sections IW.CC.Balance.

Lemma well_ranked_held_after : forall p h, well_ranked h p -> held_after h p = [].
Proof.
  induction p as [|a p IH]; intros h H.
  - exact H.
  - destruct a as [r|l]; simpl in *.
    + apply IH. apply H.
    + apply IH. exact H.
Qed.

Theorem well_ranked_balanced : forall p, well_ranked [] p -> balanced p.
Proof. intros p H. apply well_ranked_held_after. exact H. Qed.

(* in every reachable state of any number of well-ranked threads, a thread whose call has returned holds nothing *)
Theorem finished_holds_nothing : forall (progs : list (list act)) (s : dstate) (t : dthread),
  Forall (well_ranked []) progs -> dreach (fresh_threads progs) s -> In t s -> dprog t = [] -> dheld t = [].
Proof.
  intros progs s t Hw Hr Hin Hfin.
  assert (Hi : dinv s).
  { eapply dinv_reachable; [|exact Hr]. unfold fresh_threads. apply dinv_init. exact Hw. }
  unfold dinv in Hi. rewrite Forall_forall in Hi. specialize (Hi t Hin). rewrite Hfin in Hi. exact Hi.
Qed.

Theorem iwkv_db_summaries_ranked : Forall (fun p => well_ranked [] p /\ balanced p) iwkv_db_summaries.
Proof.
  assert (H : Forall (well_ranked []) iwkv_db_summaries).
  { unfold iwkv_db_summaries.
    apply Forall_cons; [|apply Forall_cons; [|apply Forall_cons; [|apply Forall_nil]]];
      cbn; unfold rank; cbn; repeat split; try reflexivity;
      intros x Hx; repeat (destruct Hx as [<-|Hx]; [cbn; lia|]); destruct Hx. }
  rewrite Forall_forall in *. intros p Hp. split; [apply H; exact Hp|apply well_ranked_balanced; apply H; exact Hp].
Qed.

Lemma run_sched_reach : forall l s s', run_sched s l = Some s' -> dreach s s'.
Proof.
  intros l s s' H.
  assert (G : forall l s0 s, dreach s0 s -> run_sched s l = Some s' -> dreach s0 s').
  { clear. induction l as [|i r IH]; intros s0 s Hr H; simpl in H.
    - inversion H; subst. exact Hr.
    - destruct (dcan_step s i) eqn:E; [|discriminate]. eapply IH; [|exact H]. apply dreach_step; assumption. }
  eapply G; [apply dreach_refl|exact H].
Qed.

(* the pre-fix path: not balanced, not well ranked, and with one more caller a reachable state in which that caller waits
   for ever although the thread that holds the lock has returned *)
Theorem iwkv_db_prefix_refuted :
  held_after [] db_lost_race_prefix = [(l_store, KvLocks.Wr)] /\ ~ balanced db_lost_race_prefix /\
  ~ well_ranked [] db_lost_race_prefix /\
  exists s, dreach (fresh_threads [db_lost_race_prefix; db_found]) s /\
            (exists t, In t s /\ dprog t = [] /\ dheld t <> []) /\
            (exists t, In t s /\ dprog t <> []) /\ forall i, dcan_step s i = false.
Proof.
  split; [reflexivity|]. split; [intros H; vm_compute in H; discriminate|]. split.
  { intros H. apply well_ranked_balanced in H. vm_compute in H. discriminate. }
  destruct (run_sched (fresh_threads [db_lost_race_prefix; db_found]) [0; 0; 0; 0; 0]) as [s|] eqn:E; [|vm_compute in E; discriminate].
  exists s. split; [apply run_sched_reach with (l := [0; 0; 0; 0; 0]); exact E|].
  vm_compute in E. inversion E; subst s. clear E. split; [|split].
  - eexists. split; [left; reflexivity|]. split; [reflexivity|discriminate].
  - eexists. split; [right; left; reflexivity|]. discriminate.
  - intros [|[|i]]; try reflexivity. unfold dcan_step. simpl. destruct i; reflexivity.
Qed.

Theorem dbrace_traces : trace_balanced dbrace_loser_trace = true /\ trace_balanced dbrace_loser_trace_prefix = false /\
  trace_prog dbrace_loser_trace = db_lost_race /\ trace_prog dbrace_loser_trace_prefix = db_lost_race_prefix.
Proof. repeat split; reflexivity. Qed.

Theorem trace_balanced_iff : forall tr, trace_balanced tr = true <-> balanced (trace_prog tr).
Proof.
  intros tr. unfold trace_balanced, balanced. destruct (held_after [] (trace_prog tr)); split; intros H; try reflexivity; discriminate.
Qed.
