(* C20 - transition coverage of the two labelled transition systems Stw / Tp ("no dead transition").

   An EDGE is an abstraction of one transition  step c s t e = Some s'  that identifies the syntactic branch of
   wstep / cstep / Tp.step that produced it:
     (src, fn, evk, tgt, aux)
   src  code of the pc of thread t in s (Stw: 100 + worker pc when t = W, else the client's pc; the return code held in
        `Ret rc sched` is erased at the source, sched is kept)
   fn   the API function where the model reads it: the function being called at Idle (ECall f), fn of the thread at
        Locked, 0 at every other pc (no branch of the model looks at fn there)
   evk  kind of the event, with the condition variable number for EWait/EWake/EBcast/ESignal, Some/None of the released
        waiter for ESignal, the wait flag for ECall F_SHUTDOWN
   tgt  code of the pc of t in s'; `Ret rc sched` is coded with sched and with rc clipped to {0,1,2}, except for the value
        returning queries (Stw fn 4; Tp fn 4, 5) where rc is coded 0
   aux  the state/configuration tests that the branch reads and that (src, evk, tgt) do not determine (shut, full,
        is_nil queue, wait flag, reg, overflow-thread test ...), read in the order in which the model reads them.
   edges_run collects the edges along a trace from a state; the witness lists give, for several configurations, traces
   from the initial state; Cover_proofs.v shows that every transition of the model has the edge of a transition taken
   in one of these (hence reachable) runs, except four edges (three branches) of Stw that are proved unreachable.
   stw_variant_edges / tp_variant_edges are the edges that only the code as found (recheck / chk / reg = false) takes; the
   runs of the current variant (recheck = true; chk = reg = true) cover all the others.
   No proofs in this file. *)
Require Import List Bool Arith.
Require Import IW.CC.Lts.
Require IW.CC.Stw IW.CC.Tp.
Import ListNotations.

Definition edge := (nat * nat * nat * nat * nat)%type.

Definition edge_eqb (a b : edge) : bool :=
  match a, b with
  | (a1, a2, a3, a4, a5), (b1, b2, b3, b4, b5) => (a1 =? b1) && (a2 =? b2) && (a3 =? b3) && (a4 =? b4) && (a5 =? b5)
  end.
Definition edge_mem (e : edge) (l : list edge) : bool := existsb (edge_eqb e) l.
Fixpoint edge_nodup (l : list edge) : list edge :=
  match l with
  | [] => []
  | e :: r => if edge_mem e r then edge_nodup r else e :: edge_nodup r
  end.

Definition b2n (b : bool) : nat := if b then 1 else 0.

Definition ev_code (e : ev) : nat :=
  match e with
  | ELock => 1 | EUnlock => 2
  | EWait k => 10 + k | EWake k => 20 + k
  | ESignal k w => 30 + 2 * k + (match w with Some _ => 1 | None => 0 end)
  | EBcast k => 40 + k
  | EEnq _ => 50 | EDeq _ => 51 | ERun _ => 52 | EDone _ => 53 | EDiscard _ => 54
  | ECall f _ w => 60 + (if f =? F_SHUTDOWN then b2n w else 0)
  | ERet _ _ => 70
  | ESpawn _ => 80 | EExit => 81 | EJoin _ => 82 | EFree => 83
  end.

Definition call_fn (e : ev) : nat := match e with ECall f _ _ => f | _ => 0 end.

(* return code held in `Ret rc sched`: q = the code is erased *)
Definition rc_code (q : bool) (rc : nat) (sc : bool) : nat :=
  20 + 2 * (if q then 0 else Nat.min rc 2) + b2n sc.

Section EdgesOfRun.
  Variable S : Type.
  Variable step : S -> tid -> ev -> option S.
  Variable edge_of : S -> tid -> ev -> S -> edge.

  (* the edges along a trace; stops at the first event that is not a transition *)
  Fixpoint edges_run (s : S) (tr : list (tid * ev)) : list edge :=
    match tr with
    | [] => []
    | (t, e) :: r =>
        match step s t e with
        | Some s' => edge_of s t e s' :: edges_run s' r
        | None => []
        end
    end.
End EdgesOfRun.

(* ======================= iwstw ======================= *)
Definition stw_wpc_code (p : Stw.wpcT) : nat :=
  match p with
  | Stw.WTop => 100 | Stw.WL1 => 101 | Stw.WDeq => 102 | Stw.WU1t => 103 | Stw.WRun => 104 | Stw.WU1 => 105
  | Stw.WL2 => 106 | Stw.WL2a => 107 | Stw.WL2b => 108 | Stw.WWait => 109 | Stw.WWoken => 110 | Stw.WExit => 111
  | Stw.WDead => 112
  | Stw.WSdStart => 113 | Stw.WSdLocked => 114 | Stw.WSdRet0 => 115 | Stw.WSdRetA => 116
  end.

Definition stw_cpc_code (q : bool) (p : Stw.cpcT) : nat :=
  match p with
  | Stw.Idle => 0 | Stw.Start => 1 | Stw.Locked => 2 | Stw.CWait => 3 | Stw.Woken => 4 | Stw.ODisc => 5
  | Stw.Enq => 6 | Stw.Bc => 7 | Stw.DDisc => 8 | Stw.DBc1 => 9 | Stw.DBc2 => 10 | Stw.DUnl => 11
  | Stw.DJoined => 12 | Stw.DFreed => 13
  | Stw.Ret rc sc => rc_code q rc sc
  end.

Definition stw_is_locked (p : Stw.cpcT) : bool := match p with Stw.Locked => true | _ => false end.

(* the function number, where the model reads it *)
Definition stw_fn (s : Stw.st) (t : tid) (e : ev) : nat :=
  if t =? Stw.W then 0
  else match Stw.cp (Stw.cl s t) with
       | Stw.Idle => call_fn e
       | Stw.Locked => Stw.fn (Stw.cl s t)
       | _ => 0
       end.

Definition stw_aux (c : Stw.cfg) (s : Stw.st) (t : tid) : nat :=
  if t =? Stw.W then
    match Stw.wpc s with Stw.WL2 => b2n (Stw.shut s) | _ => 0 end
  else
    let th := Stw.cl s t in
    match Stw.cp th with
    | Stw.Locked =>
        match Stw.fn th with
        | 0 => if Stw.shut s then 1 else if Stw.full c s then 2 else 0
        | 1 => if Stw.shut s then 1 else if is_nil (Stw.queue s) then 2 else 0
        | 2 => if Stw.shut s then 1 else if is_nil (Stw.queue s) then 2 else 0
        | 3 => if Stw.shut s then 1 else if Stw.wf th then 4 else if is_nil (Stw.queue s) then 2 else 0
        | _ => 0
        end
    | Stw.Woken => (if Stw.full c s then 2 else 0) + b2n (Stw.shut s)
    | Stw.ODisc => if is_nil (Stw.queue s) then 2 else 0
    | Stw.DDisc => if is_nil (Stw.queue s) then 2 else 0
    | _ => 0
    end.

Definition stw_edge (c : Stw.cfg) (s : Stw.st) (t : tid) (e : ev) (s' : Stw.st) : edge :=
  if t =? Stw.W then
    (stw_wpc_code (Stw.wpc s), 0, ev_code e, stw_wpc_code (Stw.wpc s'), stw_aux c s t)
  else
    let th := Stw.cl s t in
    (stw_cpc_code true (Stw.cp th), stw_fn s t e, ev_code e,
     stw_cpc_code (stw_is_locked (Stw.cp th) && (Stw.fn th =? F_QSIZE)) (Stw.cp (Stw.cl s' t)),
     stw_aux c s t).

Definition stw_edges_of_run (c : Stw.cfg) (tr : list (tid * ev)) : list edge :=
  edges_run Stw.st (Stw.step c) (stw_edge c) Stw.init tr.

(* the edges that no reachable state takes (Cover_proofs.stw_dead_edges_unreachable): loop_step / odisc_step /
   ddisc_step are shared between the first visit (Locked) and the re-entry (Woken / ODisc / DDisc); the re-entry pc is only
   reached with blocking = true resp. has_cb = true, so the branch for the other value of the configuration flag is dead
   THERE (it is live at Locked):
     Woken -EUnlock-> Ret OVERFLOW   (needs blocking = false; full, with shut clear / set)
     ODisc -EEnq->    Enq            (queue not empty, needs has_cb = false)
     DDisc -EBcast 0-> DBc1          (queue not empty, needs has_cb = false) *)
Definition stw_dead_edges : list edge :=
  [ (4, 0, 2, 24, 2); (4, 0, 2, 24, 3); (5, 0, 50, 6, 0); (8, 0, 40, 9, 0) ].

(* taken only by the code as found (recheck = false): the woken submitter links its task although shutdown is set *)
Definition stw_variant_edges : list edge := [ (4, 0, 50, 6, 1) ].

(* ======================= iwtp ======================= *)
Definition tp_pc_code (q : bool) (p : Tp.pcT) : nat :=
  match p with
  | Tp.Idle => 0 | Tp.Start => 1 | Tp.Locked => 2 | Tp.PEnq => 3 | Tp.PSp => 4 | Tp.PSig => 5
  | Tp.QB => 6 | Tp.QJoin => 7 | Tp.QFreed => 8
  | Tp.Ret rc sc => rc_code q rc sc
  | Tp.TStart => 40 | Tp.TReg => 41 | Tp.TTop => 42 | Tp.TL1 => 43 | Tp.TDeq => 44 | Tp.TU1t => 45 | Tp.TRun => 46
  | Tp.TU1 => 47 | Tp.TL2 => 48 | Tp.TWait => 49 | Tp.TWoken => 50 | Tp.TExit => 51 | Tp.TDead => 52
  end.

Definition tp_is_locked (p : Tp.pcT) : bool := match p with Tp.Locked => true | _ => false end.

Definition tp_fn (s : Tp.st) (t : tid) (e : ev) : nat :=
  match Tp.pc (Tp.th s t) with
  | Tp.Idle => call_fn e
  | Tp.Locked => Tp.fn (Tp.th s t)
  | _ => 0
  end.

Definition tp_aux (c : Tp.cfg) (s : Tp.st) (t : tid) : nat :=
  let x := Tp.th s t in
  match Tp.pc x with
  | Tp.Locked =>
      match Tp.fn x with
      | 0 => b2n (Tp.shut s)
      | 3 => if Tp.shut s then 1 else if Tp.wf x then 4 else 0
      | _ => 0
      end
  | Tp.PEnq => if Tp.spawn_cond c s then 2 + b2n (Tp.reg c) else 0
  | Tp.TL2 =>
      if Tp.nthreads c <=? Tp.ix x then 4 + b2n (Tp.shut s)
      else if negb (is_nil (Tp.queue s)) then 0 else if Tp.shut s then 1 else 2
  | _ => 0
  end.

Definition tp_edge (c : Tp.cfg) (s : Tp.st) (t : tid) (e : ev) (s' : Tp.st) : edge :=
  let x := Tp.th s t in
  (tp_pc_code true (Tp.pc x), tp_fn s t e, ev_code e,
   tp_pc_code (tp_is_locked (Tp.pc x) && ((Tp.fn x =? F_QSIZE) || (Tp.fn x =? F_BUSY))) (Tp.pc (Tp.th s' t)),
   tp_aux c s t).

Definition tp_edges_of_run (c : Tp.cfg) (tr : list (tid * ev)) : list edge :=
  edges_run Tp.st (Tp.step c) (tp_edge c) (Tp.init c) tr.

(* taken only by the code as found: chk = false: iwtp_schedule with shutdown set links the task / reports OVERFLOW;
   reg = false: the overflow thread does not find itself in tp->threads (`idx == -1`, "should never be happen") and
   leaves; the overflow thread is created without being registered *)
Definition tp_variant_edges : list edge := [ (2, 0, 50, 3, 1); (2, 0, 2, 24, 1); (41, 0, 2, 51, 0); (3, 0, 80, 4, 2) ].

(* ======================= witness runs ======================= *)
(* The first run of each list is the real trace of the implementation used by Stw_proofs.accepted_eventually_refuted /
   Tp_proofs.shutdown_wait_drains_refuted; the others were found by a breadth-first search over the extracted models
   (shortest trace to each edge over a family of configurations, greedy selection).  Threads: Stw 0 = worker, Tp 0.. =
   pool threads, 10 / 11 = clients, 20 = caller of shutdown, 30 = overflow thread. *)
Definition stw_witness : list (Stw.cfg * list (tid * ev)) :=
  [ (Stw.mkcfg 1 true true false false,
     [(10, ECall 0 0 false); (10, ELock); (10, EEnq 0); (10, EBcast 0); (10, EUnlock); (10, ERet 0 true); (0, ELock); (0, EDeq 0); (0, EUnlock); (0, ERun 0); (10, ECall 0 1 false); (10, ELock); (10, EEnq 1); (10, EBcast 0); (10, EUnlock); (10, ERet 0 true); (10, ECall 0 2 false); (10, ELock); (10, EWait 1); (20, ECall 3 0 false); (20, ELock); (20, EDiscard 1); (20, EBcast 0); (20, EBcast 1); (20, EUnlock); (0, EDone 0); (0, ELock); (0, EUnlock); (0, EExit); (10, EWake 1); (10, EEnq 2); (10, EBcast 0); (10, EUnlock); (10, ERet 0 true); (20, EJoin 0); (20, EFree); (20, ERet 0 false)]);
    (* iwstw_shutdown called from the task body: the harness traces of the code as found (selfunlock = false: returns
       IW_ERROR_ASSERTION with the mutex still locked) and of the variant that unlocks first *)
    (Stw.mkcfg 0 false false true false,
     [(10, ECall 0 0 false); (10, ELock); (10, EEnq 0); (10, EBcast 0); (10, EUnlock); (10, ERet 0 true); (0, ELock); (0, EDeq 0); (0, EUnlock); (0, ERun 0); (0, ECall 3 0 true); (0, ELock); (0, ERet 3 false); (0, EDone 0)]);
    (Stw.mkcfg 0 false false true true,
     [(10, ECall 0 0 false); (10, ELock); (10, EEnq 0); (10, EBcast 0); (10, EUnlock); (10, ERet 0 true); (0, ELock); (0, EDeq 0); (0, EUnlock); (0, ERun 0); (0, ECall 3 0 true); (0, ELock); (0, EUnlock); (0, ERet 3 false); (0, EDone 0)]);
    (Stw.mkcfg 3 true true true true,
     [(10, ECall 0 0 false); (10, ELock); (10, EEnq 0); (10, EBcast 0); (10, EUnlock); (10, ERet 0 true); (10, ECall 0 1 false); (10, ELock); (10, EEnq 1); (10, EBcast 0); (10, EUnlock); (10, ERet 0 true); (10, ECall 0 2 false); (10, ELock); (10, EEnq 2); (10, EBcast 0); (10, EUnlock); (11, ECall 0 3 false); (11, ELock); (11, EWait 1); (0, ELock); (0, EDeq 0); (0, EUnlock); (0, ERun 0); (0, EDone 0); (20, ECall 3 0 true); (20, ELock); (20, EBcast 0); (20, EBcast 1); (20, EUnlock); (0, ELock); (0, EBcast 1)]);
    (Stw.mkcfg 3 true true true true,
     [(10, ECall 0 0 false); (10, ELock); (10, EEnq 0); (10, EBcast 0); (10, EUnlock); (10, ERet 0 true); (10, ECall 0 1 false); (10, ELock); (10, EEnq 1); (10, EBcast 0); (10, EUnlock); (10, ERet 0 true); (10, ECall 0 2 false); (10, ELock); (10, EEnq 2); (10, EBcast 0); (10, EUnlock); (11, ECall 0 3 false); (11, ELock); (11, EWait 1); (0, ELock); (0, EDeq 0); (0, EUnlock); (0, ERun 0); (0, EDone 0); (0, ELock); (0, EBcast 1); (0, EUnlock)]);
    (Stw.mkcfg 1 false true true true,
     [(10, ECall 0 0 false); (10, ELock); (10, EEnq 0); (10, EBcast 0); (10, EUnlock); (0, ELock); (0, EDeq 0); (0, EUnlock); (0, ERun 0); (0, ECall 3 0 false); (20, ECall 3 0 false); (20, ELock); (20, EBcast 0); (20, EUnlock); (0, ELock); (0, EUnlock); (0, ERet 0 false)]);
    (Stw.mkcfg 1 true true true true,
     [(10, ECall 0 0 false); (10, ELock); (10, EEnq 0); (10, EBcast 0); (10, EUnlock); (11, ECall 0 1 false); (11, ELock); (11, EWait 1); (0, ELock); (0, EDeq 0); (0, EUnlock); (0, ERun 0); (0, EDone 0); (0, ELock); (0, EBcast 1); (0, EWait 0)]);
    (Stw.mkcfg 1 false true true true,
     [(0, ELock); (0, EUnlock); (20, ECall 3 0 false); (20, ELock); (20, EBcast 0); (20, EUnlock); (0, ELock); (0, EUnlock); (0, EExit); (20, EJoin 0); (20, EFree); (20, ERet 0 false); (20, ECall 3 0 false); (20, ELock); (20, EUnlock)]);
    (Stw.mkcfg 1 true true true true,
     [(10, ECall 0 0 false); (10, ELock); (10, EEnq 0); (10, EBcast 0); (10, EUnlock); (11, ECall 0 1 false); (11, ELock); (11, EWait 1); (20, ECall 3 0 true); (20, ELock); (20, EBcast 0); (20, EBcast 1); (20, EUnlock); (11, EWake 1); (11, EUnlock)]);
    (Stw.mkcfg 0 false true true true,
     [(10, ECall 0 0 false); (10, ELock); (10, EEnq 0); (10, EBcast 0); (10, EUnlock); (10, ERet 0 true); (10, ECall 0 1 false); (10, ELock); (10, EEnq 1); (10, EBcast 0); (10, EUnlock); (11, ECall 1 2 false); (11, ELock); (11, EDiscard 0); (11, EDiscard 1)]);
    (Stw.mkcfg 1 true false true true,
     [(10, ECall 0 0 false); (10, ELock); (10, EEnq 0); (10, EBcast 0); (10, EUnlock); (11, ECall 0 1 false); (11, ELock); (11, EWait 1); (20, ECall 3 0 false); (20, ELock); (20, EBcast 0); (20, EBcast 1); (20, EUnlock); (11, EWake 1); (11, EUnlock)]);
    (Stw.mkcfg 0 false true true true,
     [(10, ECall 0 0 false); (10, ELock); (10, EEnq 0); (10, EBcast 0); (10, EUnlock); (11, ECall 0 1 false); (11, ELock); (11, EEnq 1); (11, EBcast 0); (11, EUnlock); (20, ECall 3 0 false); (20, ELock); (20, EDiscard 0); (20, EDiscard 1)]);
    (Stw.mkcfg 1 false true true true,
     [(0, ELock); (0, EUnlock); (10, ECall 0 0 false); (10, ELock); (10, EEnq 0); (10, EBcast 0); (10, EUnlock); (20, ECall 3 0 true); (20, ELock); (20, EBcast 0); (20, EUnlock); (0, ELock); (0, EUnlock)]);
    (Stw.mkcfg 1 true true true true,
     [(10, ECall 0 0 false); (10, ELock); (10, EEnq 0); (10, EBcast 0); (10, EUnlock); (11, ECall 0 1 false); (11, ELock); (11, EWait 1); (0, ELock); (0, EDeq 0); (0, EUnlock); (11, EWake 1); (11, EEnq 1)]);
    (Stw.mkcfg 1 true true true true,
     [(10, ECall 0 0 false); (10, ELock); (10, EEnq 0); (10, EBcast 0); (10, EUnlock); (0, ELock); (0, EDeq 0); (0, EUnlock); (0, ERun 0); (0, ECall 3 0 false); (0, ELock); (0, EUnlock); (0, ERet 3 false)]);
    (Stw.mkcfg 1 true true true false,
     [(10, ECall 0 0 false); (10, ELock); (10, EEnq 0); (10, EBcast 0); (10, EUnlock); (0, ELock); (0, EDeq 0); (0, EUnlock); (0, ERun 0); (0, ECall 3 0 false); (0, ELock); (0, ERet 3 false)]);
    (Stw.mkcfg 1 true true true true,
     [(10, ECall 0 0 false); (10, ELock); (10, EEnq 0); (10, EBcast 0); (10, EUnlock); (0, ELock); (0, EDeq 0); (0, EUnlock); (0, ERun 0); (0, ECall 3 0 true)]);
    (Stw.mkcfg 1 true true true true,
     [(10, ECall 0 0 false); (10, ELock); (10, EEnq 0); (10, EBcast 0); (10, EUnlock); (11, ECall 0 1 false); (11, ELock); (11, EWait 1); (11, EWake 1); (11, EWait 1)]);
    (Stw.mkcfg 1 true true true true,
     [(10, ECall 0 0 false); (10, ELock); (10, EEnq 0); (10, EBcast 0); (10, EUnlock); (20, ECall 3 0 false); (20, ELock); (20, EDiscard 0); (20, EBcast 0)]);
    (Stw.mkcfg 1 true true true true,
     [(10, ECall 0 0 false); (10, ELock); (10, EEnq 0); (10, EBcast 0); (10, EUnlock); (11, ECall 1 1 false); (11, ELock); (11, EDiscard 0); (11, EEnq 1)]);
    (Stw.mkcfg 1 true true true true,
     [(0, ELock); (0, EUnlock); (10, ECall 0 0 false); (10, ELock); (10, EEnq 0); (10, EBcast 0); (10, EUnlock); (0, ELock); (0, EUnlock)]);
    (Stw.mkcfg 1 true false true true,
     [(10, ECall 0 0 false); (10, ELock); (10, EEnq 0); (10, EBcast 0); (10, EUnlock); (11, ECall 1 1 false); (11, ELock); (11, EEnq 1)]);
    (Stw.mkcfg 1 false true true true,
     [(10, ECall 0 0 false); (10, ELock); (10, EEnq 0); (10, EBcast 0); (10, EUnlock); (11, ECall 0 1 false); (11, ELock); (11, EUnlock)]);
    (Stw.mkcfg 1 true true true true,
     [(10, ECall 0 0 false); (10, ELock); (10, EEnq 0); (10, EBcast 0); (10, EUnlock); (11, ECall 2 1 false); (11, ELock); (11, EUnlock)]);
    (Stw.mkcfg 1 false true true true,
     [(10, ECall 1 0 false); (20, ECall 3 0 false); (20, ELock); (20, EBcast 0); (20, EUnlock); (10, ELock); (10, EUnlock)]);
    (Stw.mkcfg 1 false true true true,
     [(10, ECall 2 0 false); (20, ECall 3 0 false); (20, ELock); (20, EBcast 0); (20, EUnlock); (10, ELock); (10, EUnlock)]);
    (Stw.mkcfg 1 false true true true,
     [(10, ECall 0 0 false); (20, ECall 3 0 false); (20, ELock); (20, EBcast 0); (20, EUnlock); (10, ELock); (10, EUnlock)]);
    (Stw.mkcfg 1 true true true true,
     [(0, ELock); (0, EUnlock); (0, ELock); (0, EWait 0); (0, EWake 0); (0, EUnlock)]);
    (Stw.mkcfg 1 true true true true,
     [(10, ECall 4 0 false); (10, ELock); (10, EUnlock); (10, ERet 0 false)]);
    (Stw.mkcfg 1 true true true true,
     [(10, ECall 1 0 false); (10, ELock); (10, EEnq 0)]);
    (Stw.mkcfg 1 true true true true,
     [(10, ECall 2 0 false); (10, ELock); (10, EEnq 0)]);
    (Stw.mkcfg 1 true false false true,
     [(10, ECall 0 0 false); (10, ELock); (10, EEnq 0); (10, EBcast 0); (10, EUnlock); (11, ECall 0 1 false); (11, ELock); (11, EWait 1); (20, ECall 3 0 false); (20, ELock); (20, EBcast 0); (20, EBcast 1); (20, EUnlock); (11, EWake 1); (11, EEnq 1)]) ].

Definition tp_witness : list (Tp.cfg * list (tid * ev)) :=
  [ (Tp.mkcfg 1 0 0 false false,
     [(20, ECall 3 0 true); (20, ELock); (20, EBcast 0); (20, EUnlock); (0, ELock); (0, EUnlock); (0, ELock); (0, EUnlock); (0, ELock); (0, EUnlock); (0, EExit); (20, EJoin 0); (10, ECall 0 0 false); (10, ELock); (10, EEnq 0); (10, ESignal 0 None); (10, EUnlock); (10, ERet 0 true); (20, EFree); (20, ERet 0 false)]);
    (* hand-written: an overflow thread is created while pool threads are parked (busy counts overflow threads), the
       only way to reach PSp -ESignal (Some _)-> PSig *)
    (Tp.mkcfg 2 0 2 true true,
     [(0, ELock); (0, EUnlock); (0, ELock); (0, EUnlock); (1, ELock); (1, EUnlock); (1, ELock); (1, EUnlock); (10, ECall 0 0 false); (10, ELock); (10, EEnq 0); (10, ESignal 0 None); (10, EUnlock); (10, ERet 0 true); (10, ECall 0 1 false); (10, ELock); (10, EEnq 1); (10, ESpawn 30); (10, ESignal 0 None); (10, EUnlock); (10, ERet 0 true); (10, ECall 0 2 false); (10, ELock); (10, EEnq 2); (10, ESpawn 31); (10, ESignal 0 None); (10, EUnlock); (10, ERet 0 true); (30, ELock); (30, EUnlock); (30, ELock); (30, EDeq 0); (30, EUnlock); (30, ERun 0); (31, ELock); (31, EUnlock); (31, ELock); (31, EDeq 1); (31, EUnlock); (31, ERun 1); (0, ELock); (0, EUnlock); (0, ELock); (0, EDeq 2); (0, EUnlock); (0, ERun 2); (0, EDone 2); (0, ELock); (0, EWait 0); (1, ELock); (1, EWait 0); (10, ECall 0 3 false); (10, ELock); (10, EEnq 3); (10, ESignal 0 (Some 0)); (10, EUnlock); (10, ERet 0 true); (10, ECall 0 4 false); (10, ELock); (10, EEnq 4); (10, ESpawn 32); (10, ESignal 0 (Some 1)); (10, EUnlock); (10, ERet 0 true)]);
    (Tp.mkcfg 1 0 1 true true,
     [(0, ELock); (0, EUnlock); (0, ELock); (0, EUnlock); (10, ECall 0 0 false); (10, ELock); (10, EEnq 0); (10, ESignal 0 None); (10, EUnlock); (10, ERet 0 true); (10, ECall 0 1 false); (10, ELock); (10, EEnq 1); (10, ESpawn 30); (10, ESignal 0 None); (10, EUnlock); (20, ECall 3 0 false); (20, ELock); (20, EBcast 0); (20, EUnlock); (30, ELock); (30, EUnlock); (30, ELock); (30, EUnlock); (30, ELock); (30, EUnlock)]);
    (Tp.mkcfg 1 0 1 true true,
     [(0, ELock); (0, EUnlock); (0, ELock); (0, EUnlock); (10, ECall 0 0 false); (10, ELock); (10, EEnq 0); (10, ESignal 0 None); (10, EUnlock); (10, ERet 0 true); (10, ECall 0 1 false); (10, ELock); (10, EEnq 1); (10, ESpawn 30); (10, ESignal 0 None); (10, EUnlock); (30, ELock); (30, EUnlock); (30, ELock); (30, EDeq 0); (30, EUnlock); (30, ERun 0); (30, EDone 0); (30, ELock); (30, EUnlock)]);
    (Tp.mkcfg 1 0 1 true true,
     [(0, ELock); (0, EUnlock); (0, ELock); (0, EUnlock); (20, ECall 3 0 false); (20, ELock); (20, EBcast 0); (20, EUnlock); (0, ELock); (0, EUnlock); (0, EExit); (20, EJoin 0); (20, EFree); (20, ERet 0 false); (20, ECall 3 0 false); (20, ELock); (20, EUnlock)]);
    (Tp.mkcfg 1 2 0 true true,
     [(10, ECall 0 0 false); (10, ELock); (10, EEnq 0); (10, ESignal 0 None); (10, EUnlock); (10, ERet 0 true); (10, ECall 0 1 false); (10, ELock); (10, EEnq 1); (10, ESignal 0 None); (10, EUnlock); (10, ERet 0 true); (10, ECall 0 2 false); (10, ELock); (10, EUnlock)]);
    (Tp.mkcfg 1 0 1 true true,
     [(0, ELock); (0, EUnlock); (0, ELock); (0, EUnlock); (10, ECall 0 0 false); (10, ELock); (10, EEnq 0); (10, ESignal 0 None); (10, EUnlock); (0, ELock); (0, EUnlock)]);
    (Tp.mkcfg 1 0 1 true true,
     [(0, ELock); (0, EUnlock); (0, ELock); (0, EUnlock); (0, ELock); (0, EWait 0); (10, ECall 0 0 false); (10, ELock); (10, EEnq 0); (10, ESignal 0 (Some 0))]);
    (Tp.mkcfg 1 0 1 true true,
     [(0, ELock); (0, EUnlock); (0, ELock); (0, EUnlock); (0, ELock); (0, EWait 0); (0, EWake 0); (0, EUnlock)]);
    (Tp.mkcfg 1 0 1 true true,
     [(10, ECall 0 0 false); (20, ECall 3 0 false); (20, ELock); (20, EBcast 0); (20, EUnlock); (10, ELock); (10, EUnlock)]);
    (Tp.mkcfg 1 0 1 true true,
     [(11, ECall 4 0 false); (11, ELock); (11, EUnlock); (11, ERet 0 false)]);
    (Tp.mkcfg 1 0 1 true true,
     [(11, ECall 5 0 false); (11, ELock); (11, EUnlock)]);
    (Tp.mkcfg 1 0 1 true true,
     [(20, ECall 3 0 true); (20, ELock); (20, EBcast 0)]);
    (Tp.mkcfg 1 2 0 false true,
     [(10, ECall 0 0 false); (10, ELock); (10, EEnq 0); (10, ESignal 0 None); (10, EUnlock); (10, ERet 0 true); (10, ECall 0 1 false); (10, ELock); (10, EEnq 1); (10, ESignal 0 None); (10, EUnlock); (10, ERet 0 true); (10, ECall 0 2 false); (20, ECall 3 0 true); (20, ELock); (20, EBcast 0); (20, EUnlock); (10, ELock); (10, EUnlock)]);
    (Tp.mkcfg 1 0 1 true false,
     [(0, ELock); (0, EUnlock); (0, ELock); (0, EUnlock); (10, ECall 0 0 false); (10, ELock); (10, EEnq 0); (10, ESignal 0 None); (10, EUnlock); (10, ERet 0 true); (10, ECall 0 1 false); (10, ELock); (10, EEnq 1); (10, ESpawn 30); (10, ESignal 0 None); (10, EUnlock); (30, ELock); (30, EUnlock)]);
    (Tp.mkcfg 1 0 1 false true,
     [(10, ECall 0 0 false); (20, ECall 3 0 false); (20, ELock); (20, EBcast 0); (20, EUnlock); (10, ELock); (10, EEnq 0)]) ].

Definition stw_edges : list edge := flat_map (fun w => stw_edges_of_run (fst w) (snd w)) stw_witness.
Definition tp_edges : list edge := flat_map (fun w => tp_edges_of_run (fst w) (snd w)) tp_witness.

(* the runs of the current variant of the code *)
Definition stw_edges_fixed : list edge :=
  flat_map (fun w => stw_edges_of_run (fst w) (snd w)) (filter (fun w => Stw.recheck (fst w)) stw_witness).
Definition tp_edges_fixed : list edge :=
  flat_map (fun w => tp_edges_of_run (fst w) (snd w)) (filter (fun w => Tp.chk (fst w) && Tp.reg (fst w)) tp_witness).
