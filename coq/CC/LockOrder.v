(* C07 - deadlock freedom from the DYNAMIC lock order.
   A thread is a program of lock actions (acquire a reader/writer lock, release a lock) of any length and shape - locks
   may be taken and released many times inside one API call, as the code does.  The discipline is the one the tracer
   (harness/h_lockord.c) checks on the real acquisition sequences of the implementation: whenever a thread acquires a
   lock, every lock it already holds has a strictly lower rank; when its program ends it holds nothing.
   lock classes and ranks: the table below is read by checks/C07.py (single source). *)
Require Import List ZArith Bool Lia String. Import ListNotations.
Require Import IW.CC.KvLocks.
Local Open Scope string_scope.

(* LOCK-CLASS-TABLE (parsed by checks/C07.py): class name, rank.
   "thr" is the termination of a library thread (the checkpoint thread) seen as a lock: the thread holds it from its
   start to its end and takes every other lock while holding it, pthread_join acquires it.  In the rank discipline it is
   therefore the lowest class: whoever joins a thread must hold no lock at all that the thread may still ask for. *)
Definition lock_classes : list (string * nat) :=
  [("thr", 0); ("wk", 1); ("store", 2); ("db", 3); ("fsm", 4); ("exf", 5); ("wal", 6); ("spin", 7)].

Inductive act := Acq (r : req) | Rel (l : lock).
Record dthread := { dheld : list req; dprog : list act }.
Definition dstate := list dthread.

Fixpoint remove_first (l : lock) (h : list req) : list req :=
  match h with
  | [] => []
  | x :: r => if lock_eqb (fst x) l then r else x :: remove_first l r
  end.

Definition as_thread (t : dthread) : thread := {| held := dheld t; todo := [] |}.

Fixpoint dothers_compat (r : req) (i : nat) (s : dstate) (j : nat) : bool :=
  match s with
  | [] => true
  | t :: s' => (if Nat.eqb i j then true else compat r (as_thread t)) && dothers_compat r i s' (S j)
  end.

Definition dcan_step (s : dstate) (i : nat) : bool :=
  match nth_error s i with
  | None => false
  | Some t => match dprog t with
              | Acq r :: _ => dothers_compat r i s 0
              | Rel _ :: _ => true
              | [] => false
              end
  end.

Definition dstep_thread (t : dthread) : dthread :=
  match dprog t with
  | Acq r :: p => {| dheld := r :: dheld t; dprog := p |}
  | Rel l :: p => {| dheld := remove_first l (dheld t); dprog := p |}
  | [] => t
  end.

Fixpoint dupd_nth (s : dstate) (i : nat) (t : dthread) : dstate :=
  match s, i with
  | [], _ => []
  | _ :: s', O => t :: s'
  | x :: s', S j => x :: dupd_nth s' j t
  end.
Definition ddo_step (s : dstate) (i : nat) : dstate :=
  match nth_error s i with Some t => dupd_nth s i (dstep_thread t) | None => s end.

Inductive dreach (s0 : dstate) : dstate -> Prop :=
| dreach_refl : dreach s0 s0
| dreach_step s i : dreach s0 s -> dcan_step s i = true -> dreach s0 (ddo_step s i).

(* the discipline, for a program run from a given set of held locks *)
Fixpoint well_ranked (h : list req) (p : list act) : Prop :=
  match p with
  | [] => h = []
  | Acq r :: p' => (forall x, In x h -> rank x < rank r) /\ well_ranked (r :: h) p'
  | Rel l :: p' => well_ranked (remove_first l h) p'
  end.
