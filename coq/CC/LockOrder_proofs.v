Require Import List ZArith Bool Lia. Import ListNotations.
Require Import IW.CC.KvLocks IW.CC.KvLocks_proofs IW.CC.LockOrder.

Definition dinv (s : dstate) : Prop := Forall (fun t => well_ranked (dheld t) (dprog t)) s.

Lemma dstep_thread_wr t : well_ranked (dheld t) (dprog t) -> well_ranked (dheld (dstep_thread t)) (dprog (dstep_thread t)).
Proof.
  unfold dstep_thread. destruct (dprog t) as [|[r|l] p] eqn:E; intros H.
  - rewrite E. exact H.
  - cbn [dheld dprog]. cbn [well_ranked] in H. tauto.
  - cbn [dheld dprog]. cbn [well_ranked] in H. exact H.
Qed.

Lemma dupd_nth_Forall (P : dthread -> Prop) s i t : Forall P s -> P t -> Forall P (dupd_nth s i t).
Proof.
  revert i; induction s as [|x s IH]; intros i Hs Ht; simpl; [constructor|].
  inversion Hs; subst. destruct i; constructor; auto.
Qed.

Lemma dinv_step s i : dinv s -> dinv (ddo_step s i).
Proof.
  intros H. unfold ddo_step. destruct (nth_error s i) as [t|] eqn:E; [|exact H].
  apply dupd_nth_Forall; [exact H|]. apply dstep_thread_wr.
  unfold dinv in H. rewrite Forall_forall in H. apply H. eapply nth_error_In; eauto.
Qed.

Theorem dinv_reachable s0 s : dinv s0 -> dreach s0 s -> dinv s.
Proof. intros H0 Hr. induction Hr; [exact H0|]. apply dinv_step. assumption. Qed.

Lemma dothers_compat_false r i : forall s j, dothers_compat r i s j = false ->
  exists k t, nth_error s k = Some t /\ j + k <> i /\ compat r (as_thread t) = false.
Proof.
  induction s as [|t s IH]; intros j H; simpl in H; [discriminate|].
  destruct (Nat.eqb i j) eqn:E.
  - simpl in H. destruct (IH (S j) H) as [k [t' [Hn [Hne Hc]]]]. exists (S k), t'. repeat split; auto. lia.
  - destruct (compat r (as_thread t)) eqn:Ec.
    + simpl in H. destruct (IH (S j) H) as [k [t' [Hn [Hne Hc]]]]. exists (S k), t'. repeat split; auto. lia.
    + exists 0, t. apply Nat.eqb_neq in E. repeat split; auto. lia.
Qed.

(* 1 + rank of the lock a thread is about to acquire; 0 when its next action is no acquisition *)
Definition dwant (t : dthread) : nat := match dprog t with Acq r :: _ => S (rank r) | _ => 0 end.

Lemma dmax_want (s : dstate) : s <> [] -> exists i t, nth_error s i = Some t /\ forall u, In u s -> dwant u <= dwant t.
Proof.
  induction s as [|x s IH]; intros Hne; [congruence|].
  destruct s as [|y s'].
  - exists 0, x. split; [reflexivity|]. intros u [<-|[]]. lia.
  - destruct (IH ltac:(discriminate)) as [i [t [Hn Hmax]]].
    destruct (Nat.le_gt_cases (dwant x) (dwant t)) as [Hle|Hgt].
    + exists (S i), t. split; [exact Hn|]. intros u [<-|Hu]; [exact Hle|apply Hmax; exact Hu].
    + exists 0, x. split; [reflexivity|]. intros u [<-|Hu]; [lia|]. specialize (Hmax u Hu). lia.
Qed.

Definition releasing (t : dthread) : bool := match dprog t with Rel _ :: _ => true | _ => false end.

Theorem dno_deadlock s :
  dinv s -> (exists t, In t s /\ dprog t <> []) -> exists i, dcan_step s i = true.
Proof.
  intros Hinv [t0 [Hin0 Hun0]].
  destruct (existsb releasing s) eqn:Er.
  - apply existsb_exists in Er. destruct Er as [t [Hin Hr]].
    destruct (In_nth_error _ _ Hin) as [i Hi]. exists i. unfold dcan_step. rewrite Hi.
    unfold releasing in Hr. destruct (dprog t) as [|[r|l] p]; try discriminate. reflexivity.
  - assert (Hnr : forall u, In u s -> releasing u = false).
    { intros u Hu. destruct (releasing u) eqn:E; [|reflexivity].
      assert (existsb releasing s = true) by (apply existsb_exists; exists u; auto). congruence. }
    assert (Hne : s <> []) by (destruct s; [destruct Hin0|discriminate]).
    destruct (dmax_want s Hne) as [i [t [Hn Hmax]]].
    exists i. unfold dcan_step. rewrite Hn.
    assert (Hw0 : 1 <= dwant t0).
    { unfold dwant. specialize (Hnr t0 Hin0). unfold releasing in Hnr.
      destruct (dprog t0) as [|[r|l] p]; [congruence|lia|discriminate]. }
    pose proof (Hmax t0 Hin0) as Hm0.
    destruct (dprog t) as [|[r|l] rest] eqn:Et;
      [assert (dwant t = 0) by (unfold dwant; rewrite Et; reflexivity); lia| |assert (dwant t = 0) by (unfold dwant; rewrite Et; reflexivity); lia].
    destruct (dothers_compat r i s 0) eqn:Ec; [reflexivity|exfalso].
    destruct (dothers_compat_false r i s 0 Ec) as [k [u [Hk [Hne' Hc]]]].
    destruct (incompat_holds r (as_thread u) Hc) as [h [Hh Hrank]]. cbn [as_thread held] in Hh.
    assert (Hu : In u s) by (eapply nth_error_In; eauto).
    unfold dinv in Hinv. rewrite Forall_forall in Hinv. pose proof (Hinv u Hu) as Hwr.
    specialize (Hnr u Hu). unfold releasing in Hnr.
    destruct (dprog u) as [|[r'|l'] rest'] eqn:Eu; [| |discriminate].
    + (* a finished program holds nothing *)
      cbn [well_ranked] in Hwr. rewrite Hwr in Hh. destruct Hh.
    + cbn [well_ranked] in Hwr. destruct Hwr as [Hlt _]. specialize (Hlt h Hh).
      specialize (Hmax u Hu).
      assert (dwant u = S (rank r')) by (unfold dwant; rewrite Eu; reflexivity).
      assert (dwant t = S (rank r)) by (unfold dwant; rewrite Et; reflexivity).
      unfold rank in *. lia.
Qed.

Lemma dinv_init (progs : list (list act)) :
  Forall (well_ranked []) progs -> dinv (map (fun p => {| dheld := []; dprog := p |}) progs).
Proof.
  intros H. unfold dinv. rewrite Forall_map. rewrite Forall_forall in *. intros p Hp. cbn [dheld dprog]. apply H. exact Hp.
Qed.

Theorem dno_deadlock_reachable (progs : list (list act)) (s : dstate) :
  Forall (well_ranked []) progs ->
  dreach (map (fun p => {| dheld := []; dprog := p |}) progs) s ->
  (exists t, In t s /\ dprog t <> []) -> exists i, dcan_step s i = true.
Proof.
  intros Hp Hr Hu. apply dno_deadlock; [|exact Hu]. eapply dinv_reachable; [apply dinv_init; exact Hp|exact Hr].
Qed.

(* a call skeleton of KvLocks.v (take the locks in order, act, release all) is one well-ranked program *)
Fixpoint releases (l : list req) : list act := match l with [] => [] | r :: t => releases t ++ [Rel (fst r)] end.
Definition skeleton_prog (c : list req) : list act := map Acq c ++ releases c.
