(* C20 - common part of the labelled transition systems of the task executors
   (src/utils/iwstw.c, src/utils/iwtp.c).

   A transition is  step s t e = Some s' : thread [t] performs the event [e] in state [s].  All
   nondeterminism (which thread moves, which API call a client starts, which waiter a signal releases,
   when a condition wait returns) is resolved by the label, so [step] is a function and can replay the
   event trace of the real implementation; the theorems quantify over ALL traces.
   No proofs in this file. *)
Require Import List Bool Arith.
Import ListNotations.

Definition tid := nat.
Definition task := nat.

(* condition variables: 0 = `cond` (workers wait for work), 1 = `cond_queue` (submitters wait for room) *)
Inductive ev :=
| ELock | EUnlock
| EWait (c : nat) | EWake (c : nat)
| ESignal (c : nat) (w : option tid) | EBcast (c : nat)
| EEnq (x : task) | EDeq (x : task) | ERun (x : task) | EDone (x : task) | EDiscard (x : task)
| ECall (f : nat) (x : task) (flag : bool)
| ERet (rc : nat) (sched : bool)
| ESpawn (child : tid) | EExit | EJoin (child : tid) | EFree.

(* API function numbers used in ECall *)
Definition F_SCHEDULE := 0.
Definition F_ONLY := 1.
Definition F_EMPTY_ONLY := 2.
Definition F_SHUTDOWN := 3.
Definition F_QSIZE := 4.
Definition F_BUSY := 5.   (* iwtp_threads_busy_num *)

(* return codes, canonical small enum (the harness maps iwrc to these) *)
Definition RC_OK := 0.
Definition RC_INVALID_STATE := 1.
Definition RC_OVERFLOW := 2.
Definition RC_ASSERTION := 3.  (* IW_ERROR_ASSERTION: iwstw_shutdown called from the worker's own thread *)

Definition memb (x : nat) (l : list nat) : bool := existsb (Nat.eqb x) l.
Definition remove1 (x : nat) (l : list nat) : list nat := filter (fun y => negb (Nat.eqb y x)) l.
(* iwulist_find_first / iwulist_remove_first_by on a list of thread ids (src/utils/iwarr.c) *)
Fixpoint find_first (x : nat) (l : list nat) : option nat :=
  match l with
  | [] => None
  | y :: r => if Nat.eqb y x then Some 0 else match find_first x r with Some i => Some (S i) | None => None end
  end.
Fixpoint remove_first (x : nat) (l : list nat) : list nat :=
  match l with
  | [] => []
  | y :: r => if Nat.eqb y x then r else y :: remove_first x r
  end.
Definition upd {A} (m : nat -> A) (k : nat) (v : A) : nat -> A := fun k' => if Nat.eqb k' k then v else m k'.
Definition is_nil {A} (l : list A) : bool := match l with [] => true | _ => false end.
Definition free_mtx (o : option tid) : bool := match o with None => true | Some _ => false end.
Definition owns (o : option tid) (t : tid) : bool := match o with Some u => Nat.eqb u t | None => false end.

Section Run.
  Variable S : Type.
  Variable step : S -> tid -> ev -> option S.

  Fixpoint run (s : S) (tr : list (tid * ev)) : option S :=
    match tr with
    | [] => Some s
    | (t, e) :: r => match step s t e with Some s' => run s' r | None => None end
    end.

  (* replay that reports the position of the first event that is not a transition of the model *)
  Fixpoint replay (s : S) (tr : list (tid * ev)) (n : nat) : S * option nat :=
    match tr with
    | [] => (s, None)
    | (t, e) :: r => match step s t e with Some s' => replay s' r (Datatypes.S n) | None => (s, Some n) end
    end.

  Definition reachable (init s : S) : Prop := exists tr, run init tr = Some s.
End Run.
