(* C20 - iwstw.c (single-thread worker) as a labelled transition system.
   One transition per lock / unlock / wait / wake / broadcast / queue edit / callback / call / return,
   pc's follow the statement-level control flow of _worker_fn, iwstw_schedule, iwstw_schedule_only,
   iwstw_schedule_empty_only, iwstw_shutdown and iwstw_queue_size.
   The discard loops follow the FIXED code (fixes/exec-stw-discard.diff): the callback receives the task
   being dropped.  [recheck] selects the variant of iwstw_schedule: false = the code as found (the loop that
   waits for room is left without looking at `shutdown` again), true = fixes/exec-stw-recheck.diff.
   No proofs in this file. *)
Require Import List Bool Arith.
Require Import IW.CC.Lts.
Import ListNotations.

(* [selfunlock] selects the variant of the self-thread guard of iwstw_shutdown (a task body calling iwstw_shutdown on its own
   executor): false = the code as found (`return IW_ERROR_ASSERTION;` with stw->mtx still locked), true =
   fixes/exec-stw-self-shutdown-unlock.diff (the mutex is released first, as iwtp_shutdown does). *)
Record cfg := mkcfg { limit : nat; blocking : bool; has_cb : bool; recheck : bool; selfunlock : bool }.

Definition W : tid := 0. (* the worker thread; every other thread id is a client *)

Inductive wpcT :=
| WTop    (* loop head, before the first pthread_mutex_lock *)
| WL1     (* locked, before `if (stw->head)` *)
| WDeq    (* locked, task taken *)
| WU1t    (* unlocked, holding a task, before fn(arg) *)
| WRun    (* inside fn(arg) *)
| WU1     (* unlocked, no task, before the second lock *)
| WL2     (* locked, before the head/shutdown/queue_blocked case split *)
| WL2a    (* locked, head != 0, cond_queue broadcast done *)
| WL2b    (* locked, head == 0, cond_queue broadcast done, before cond_wait *)
| WWait   (* inside pthread_cond_wait(&cond) *)
| WWoken  (* cond_wait returned, mutex held *)
| WExit   (* left the loop *)
| WDead   (* thread finished *)
(* the task body calls iwstw_shutdown(&stw, ..) on its own executor *)
| WSdStart   (* inside fn(arg): iwstw_shutdown entered, before pthread_mutex_lock *)
| WSdLocked  (* locked, before `if (stw->shutdown)` / `if (stw->thr == pthread_self())` *)
| WSdRet0    (* unlocked, about to return 0 (shutdown was already set) *)
| WSdRetA.   (* unlocked (variant selfunlock), about to return IW_ERROR_ASSERTION *)

Inductive cpcT :=
| Idle | Start | Locked
| CWait | Woken           (* iwstw_schedule: inside / after pthread_cond_wait(&cond_queue) *)
| ODisc                   (* iwstw_schedule_only: in the discard loop *)
| Enq | Bc                (* task linked; cond broadcast done *)
| DDisc | DBc1 | DBc2 | DUnl | DJoined | DFreed   (* iwstw_shutdown *)
| Ret (rc : nat) (sched : bool).

Record cthr := mkc { cp : cpcT; fn : nat; tk : task; wf : bool }.
Definition setcp (th : cthr) (p : cpcT) : cthr := mkc p (fn th) (tk th) (wf th).

Record st := mk {
  (* struct iwstw *)
  queue : list task; cnt : nat; blocked : bool; shut : bool;
  (* mutex and the two condition variables: owner, threads parked (not yet signalled) *)
  owner : option tid; waitc : list tid; waitq : list tid;
  (* threads *)
  wpc : wpcT; wtk : task; cl : tid -> cthr;
  (* ghost history *)
  used : list task;     (* task ids passed to a schedule call *)
  enq : list task;      (* linked into the queue, in order *)
  done : list task;     (* fn returned, in order *)
  disc : list task;     (* dropped by iwstw_shutdown(false) *)
  repl : list task;     (* dropped by iwstw_schedule_only *)
  acc : list task;      (* schedule call returned 0 (and *out_scheduled) *)
  started : list task;  (* fn entered, in order *)
  shut_wait : bool;     (* wait_for_all of the shutdown call that set the flag *)
  freed : bool;         (* free(stw) executed *)
  uaf : bool            (* the mutex was taken after free(stw) *)
}.

Definition set_queue (s : st) (v : list task) : st :=
  mk v (cnt s) (blocked s) (shut s) (owner s) (waitc s) (waitq s) (wpc s) (wtk s) (cl s) (used s) (enq s) (done s) (disc s) (repl s) (acc s) (started s) (shut_wait s) (freed s) (uaf s).
Definition set_cnt (s : st) (v : nat) : st :=
  mk (queue s) v (blocked s) (shut s) (owner s) (waitc s) (waitq s) (wpc s) (wtk s) (cl s) (used s) (enq s) (done s) (disc s) (repl s) (acc s) (started s) (shut_wait s) (freed s) (uaf s).
Definition set_blocked (s : st) (v : bool) : st :=
  mk (queue s) (cnt s) v (shut s) (owner s) (waitc s) (waitq s) (wpc s) (wtk s) (cl s) (used s) (enq s) (done s) (disc s) (repl s) (acc s) (started s) (shut_wait s) (freed s) (uaf s).
Definition set_shut (s : st) (v : bool) : st :=
  mk (queue s) (cnt s) (blocked s) v (owner s) (waitc s) (waitq s) (wpc s) (wtk s) (cl s) (used s) (enq s) (done s) (disc s) (repl s) (acc s) (started s) (shut_wait s) (freed s) (uaf s).
Definition set_owner (s : st) (v : option tid) : st :=
  mk (queue s) (cnt s) (blocked s) (shut s) v (waitc s) (waitq s) (wpc s) (wtk s) (cl s) (used s) (enq s) (done s) (disc s) (repl s) (acc s) (started s) (shut_wait s) (freed s) (uaf s).
Definition set_waitc (s : st) (v : list tid) : st :=
  mk (queue s) (cnt s) (blocked s) (shut s) (owner s) v (waitq s) (wpc s) (wtk s) (cl s) (used s) (enq s) (done s) (disc s) (repl s) (acc s) (started s) (shut_wait s) (freed s) (uaf s).
Definition set_waitq (s : st) (v : list tid) : st :=
  mk (queue s) (cnt s) (blocked s) (shut s) (owner s) (waitc s) v (wpc s) (wtk s) (cl s) (used s) (enq s) (done s) (disc s) (repl s) (acc s) (started s) (shut_wait s) (freed s) (uaf s).
Definition set_wpc (s : st) (v : wpcT) : st :=
  mk (queue s) (cnt s) (blocked s) (shut s) (owner s) (waitc s) (waitq s) v (wtk s) (cl s) (used s) (enq s) (done s) (disc s) (repl s) (acc s) (started s) (shut_wait s) (freed s) (uaf s).
Definition set_wtk (s : st) (v : task) : st :=
  mk (queue s) (cnt s) (blocked s) (shut s) (owner s) (waitc s) (waitq s) (wpc s) v (cl s) (used s) (enq s) (done s) (disc s) (repl s) (acc s) (started s) (shut_wait s) (freed s) (uaf s).
Definition set_cl (s : st) (v : tid -> cthr) : st :=
  mk (queue s) (cnt s) (blocked s) (shut s) (owner s) (waitc s) (waitq s) (wpc s) (wtk s) v (used s) (enq s) (done s) (disc s) (repl s) (acc s) (started s) (shut_wait s) (freed s) (uaf s).
Definition set_used (s : st) (v : list task) : st :=
  mk (queue s) (cnt s) (blocked s) (shut s) (owner s) (waitc s) (waitq s) (wpc s) (wtk s) (cl s) v (enq s) (done s) (disc s) (repl s) (acc s) (started s) (shut_wait s) (freed s) (uaf s).
Definition set_enq (s : st) (v : list task) : st :=
  mk (queue s) (cnt s) (blocked s) (shut s) (owner s) (waitc s) (waitq s) (wpc s) (wtk s) (cl s) (used s) v (done s) (disc s) (repl s) (acc s) (started s) (shut_wait s) (freed s) (uaf s).
Definition set_done (s : st) (v : list task) : st :=
  mk (queue s) (cnt s) (blocked s) (shut s) (owner s) (waitc s) (waitq s) (wpc s) (wtk s) (cl s) (used s) (enq s) v (disc s) (repl s) (acc s) (started s) (shut_wait s) (freed s) (uaf s).
Definition set_disc (s : st) (v : list task) : st :=
  mk (queue s) (cnt s) (blocked s) (shut s) (owner s) (waitc s) (waitq s) (wpc s) (wtk s) (cl s) (used s) (enq s) (done s) v (repl s) (acc s) (started s) (shut_wait s) (freed s) (uaf s).
Definition set_repl (s : st) (v : list task) : st :=
  mk (queue s) (cnt s) (blocked s) (shut s) (owner s) (waitc s) (waitq s) (wpc s) (wtk s) (cl s) (used s) (enq s) (done s) (disc s) v (acc s) (started s) (shut_wait s) (freed s) (uaf s).
Definition set_acc (s : st) (v : list task) : st :=
  mk (queue s) (cnt s) (blocked s) (shut s) (owner s) (waitc s) (waitq s) (wpc s) (wtk s) (cl s) (used s) (enq s) (done s) (disc s) (repl s) v (started s) (shut_wait s) (freed s) (uaf s).
Definition set_started (s : st) (v : list task) : st :=
  mk (queue s) (cnt s) (blocked s) (shut s) (owner s) (waitc s) (waitq s) (wpc s) (wtk s) (cl s) (used s) (enq s) (done s) (disc s) (repl s) (acc s) v (shut_wait s) (freed s) (uaf s).
Definition set_shut_wait (s : st) (v : bool) : st :=
  mk (queue s) (cnt s) (blocked s) (shut s) (owner s) (waitc s) (waitq s) (wpc s) (wtk s) (cl s) (used s) (enq s) (done s) (disc s) (repl s) (acc s) (started s) v (freed s) (uaf s).
Definition set_freed (s : st) (v : bool) : st :=
  mk (queue s) (cnt s) (blocked s) (shut s) (owner s) (waitc s) (waitq s) (wpc s) (wtk s) (cl s) (used s) (enq s) (done s) (disc s) (repl s) (acc s) (started s) (shut_wait s) v (uaf s).
Definition set_uaf (s : st) (v : bool) : st :=
  mk (queue s) (cnt s) (blocked s) (shut s) (owner s) (waitc s) (waitq s) (wpc s) (wtk s) (cl s) (used s) (enq s) (done s) (disc s) (repl s) (acc s) (started s) (shut_wait s) (freed s) v.

Definition set_th (s : st) (t : tid) (th : cthr) : st := set_cl s (upd (cl s) t th).

Definition init : st :=
  mk [] 0 false false None [] [] WTop 0 (fun _ => mkc Idle 0 0 false) [] [] [] [] [] [] [] false false false.

Definition do_lock (s : st) (t : tid) : st := set_uaf (set_owner s (Some t)) (uaf s || freed s).

(* `stw->queue_limit && (stw->cnt + 1 > stw->queue_limit)` *)
Definition full (c : cfg) (s : st) : bool := negb (limit c =? 0) && (limit c <? cnt s + 1).
(* `stw->queue_blocked && stw->cnt < stw->queue_limit` *)
Definition canunblock (c : cfg) (s : st) : bool := blocked s && (cnt s <? limit c).

Definition wstep (c : cfg) (s : st) (e : ev) : option st :=
  match wpc s, e with
  | WTop, ELock => if free_mtx (owner s) then Some (set_wpc (do_lock s W) WL1) else None
  | WL1, EDeq x =>
      if owns (owner s) W then
        match queue s with
        | y :: q => if x =? y then Some (set_wpc (set_wtk (set_cnt (set_queue s q) (pred (cnt s))) x) WDeq) else None
        | [] => None
        end
      else None
  | WL1, EUnlock => if owns (owner s) W && is_nil (queue s) then Some (set_wpc (set_owner s None) WU1) else None
  | WDeq, EUnlock => if owns (owner s) W then Some (set_wpc (set_owner s None) WU1t) else None
  | WU1t, ERun x => if x =? wtk s then Some (set_wpc (set_started s (started s ++ [x])) WRun) else None
  | WRun, EDone x => if x =? wtk s then Some (set_wpc (set_done s (done s ++ [x])) WU1) else None
  (* iwstw_shutdown from the task body *)
  | WRun, ECall f _ _ => if f =? 3 then Some (set_wpc s WSdStart) else None
  | WSdStart, ELock => if free_mtx (owner s) then Some (set_wpc (do_lock s W) WSdLocked) else None
  | WSdLocked, EUnlock =>
      if owns (owner s) W then
        if shut s then Some (set_wpc (set_owner s None) WSdRet0)
        else if selfunlock c then Some (set_wpc (set_owner s None) WSdRetA) else None
      else None
  | WSdLocked, ERet rc sc =>  (* code as found: `return IW_ERROR_ASSERTION;` - the mutex stays locked *)
      if owns (owner s) W && negb (shut s) && negb (selfunlock c) && (rc =? RC_ASSERTION) && negb sc then Some (set_wpc s WRun)
      else None
  | WSdRet0, ERet rc sc => if (rc =? RC_OK) && negb sc then Some (set_wpc s WRun) else None
  | WSdRetA, ERet rc sc => if (rc =? RC_ASSERTION) && negb sc then Some (set_wpc s WRun) else None
  | WU1, ELock => if free_mtx (owner s) then Some (set_wpc (do_lock s W) WL2) else None
  | WL2, EBcast k =>
      if owns (owner s) W && (k =? 1) && canunblock c s && (negb (is_nil (queue s)) || negb (shut s)) then
        Some (set_wpc (set_waitq (set_blocked s false) []) (if is_nil (queue s) then WL2b else WL2a))
      else None
  | WL2, EUnlock =>
      if owns (owner s) W then
        if is_nil (queue s) then
          if shut s then Some (set_wpc (set_owner s None) WExit) else None
        else if canunblock c s then None else Some (set_wpc (set_owner s None) WTop)
      else None
  | WL2, EWait k =>
      if owns (owner s) W && (k =? 0) && is_nil (queue s) && negb (shut s) && negb (canunblock c s) then
        Some (set_wpc (set_owner (set_waitc s (W :: waitc s)) None) WWait)
      else None
  | WL2a, EUnlock => if owns (owner s) W then Some (set_wpc (set_owner s None) WTop) else None
  | WL2b, EWait k =>
      if owns (owner s) W && (k =? 0) then Some (set_wpc (set_owner (set_waitc s (W :: waitc s)) None) WWait) else None
  | WWait, EWake k =>
      if free_mtx (owner s) && (k =? 0) then Some (set_wpc (set_waitc (do_lock s W) (remove1 W (waitc s))) WWoken) else None
  | WWoken, EUnlock => if owns (owner s) W then Some (set_wpc (set_owner s None) WTop) else None
  | WExit, EExit => Some (set_wpc s WDead)
  | _, _ => None
  end.

(* unlock and leave towards the return statement *)
Definition unlock_ret (s : st) (t : tid) (th : cthr) (rc : nat) (sc : bool) : option st :=
  Some (set_th (set_owner s None) t (setcp th (Ret rc sc))).

(* the `while (queue_limit && cnt + 1 > queue_limit)` loop of iwstw_schedule and the code after it up to the
   point where the task is linked *)
Definition loop_step (c : cfg) (s : st) (t : tid) (th : cthr) (e : ev) : option st :=
  if full c s then
    if blocking c then
      if shut s then match e with EUnlock => unlock_ret s t th RC_INVALID_STATE false | _ => None end
      else match e with
           | EWait k => if k =? 1 then
               Some (set_th (set_owner (set_waitq (set_blocked s true) (t :: waitq s)) None) t (setcp th CWait))
               else None
           | _ => None
           end
    else match e with EUnlock => unlock_ret s t th RC_OVERFLOW false | _ => None end
  else if recheck c && shut s then
    match e with EUnlock => unlock_ret s t th RC_INVALID_STATE false | _ => None end
  else match e with
       | EEnq x => if x =? tk th then
           Some (set_th (set_enq (set_cnt (set_queue s (queue s ++ [x])) (cnt s + 1)) (enq s ++ [x])) t (setcp th Enq))
           else None
       | _ => None
       end.

(* discard loop of iwstw_schedule_only followed by head = tail = task; cnt = 1 *)
Definition odisc_step (c : cfg) (s : st) (t : tid) (th : cthr) (e : ev) : option st :=
  match queue s with
  | y :: q =>
      if has_cb c then
        match e with
        | EDiscard x => if x =? y then Some (set_th (set_repl (set_queue s q) (repl s ++ [y])) t (setcp th ODisc)) else None
        | _ => None
        end
      else match e with
           | EEnq x => if x =? tk th then
               Some (set_th (set_enq (set_repl (set_cnt (set_queue s [x]) 1) (repl s ++ queue s)) (enq s ++ [x])) t (setcp th Enq))
               else None
           | _ => None
           end
  | [] => match e with
          | EEnq x => if x =? tk th then
              Some (set_th (set_enq (set_cnt (set_queue s [x]) 1) (enq s ++ [x])) t (setcp th Enq))
              else None
          | _ => None
          end
  end.

(* discard loop of iwstw_shutdown(wait_for_all = false) followed by head = tail = 0; cnt = 0; shutdown = true;
   broadcast(cond) *)
Definition ddisc_step (c : cfg) (s : st) (t : tid) (th : cthr) (e : ev) : option st :=
  match queue s, has_cb c with
  | y :: q, true =>
      match e with
      | EDiscard x => if x =? y then Some (set_th (set_disc (set_queue s q) (disc s ++ [y])) t (setcp th DDisc)) else None
      | _ => None
      end
  | _, _ =>
      match e with
      | EBcast k => if k =? 0 then
          Some (set_th (set_shut_wait (set_waitc (set_shut (set_cnt (set_disc (set_queue s []) (disc s ++ queue s)) 0) true) [])
                                      false) t (setcp th DBc1))
          else None
      | _ => None
      end
  end.

Definition locked_step (c : cfg) (s : st) (t : tid) (th : cthr) (e : ev) : option st :=
  match fn th with
  | 0 => if shut s then match e with EUnlock => unlock_ret s t th RC_INVALID_STATE false | _ => None end
         else loop_step c s t th e
  | 1 => if shut s then match e with EUnlock => unlock_ret s t th RC_INVALID_STATE false | _ => None end
         else odisc_step c s t th e
  | 2 => if shut s then match e with EUnlock => unlock_ret s t th RC_INVALID_STATE false | _ => None end
         else if is_nil (queue s) then
           match e with
           | EEnq x => if x =? tk th then
               Some (set_th (set_enq (set_cnt (set_queue s [x]) (cnt s + 1)) (enq s ++ [x])) t (setcp th Enq))
               else None
           | _ => None
           end
         else match e with EUnlock => unlock_ret s t th RC_OK false | _ => None end
  | 3 => if shut s then match e with EUnlock => unlock_ret s t th RC_OK false | _ => None end
         else if wf th then
           match e with
           | EBcast k => if k =? 0 then
               Some (set_th (set_shut_wait (set_waitc (set_shut s true) []) true) t (setcp th DBc1)) else None
           | _ => None
           end
         else ddisc_step c s t th e
  | 4 => match e with EUnlock => unlock_ret s t th (cnt s) false | _ => None end
  | _ => None
  end.

Definition cstep (c : cfg) (s : st) (t : tid) (e : ev) : option st :=
  let th := cl s t in
  match cp th with
  | Idle =>
      match e with
      | ECall f x w =>
          if f <? 3 then
            if memb x (used s) then None else Some (set_th (set_used s (x :: used s)) t (mkc Start f x w))
          else if f <? 5 then Some (set_th s t (mkc Start f 0 w))
          else None
      | _ => None
      end
  | Start => match e with
             | ELock => if free_mtx (owner s) then Some (set_th (do_lock s t) t (setcp th Locked)) else None
             | _ => None
             end
  | CWait => match e with
             | EWake k => if free_mtx (owner s) && (k =? 1) then
                 Some (set_th (set_waitq (do_lock s t) (remove1 t (waitq s))) t (setcp th Woken)) else None
             | _ => None
             end
  | DUnl => match e with
            | EJoin k => if k =? W then match wpc s with WDead => Some (set_th s t (setcp th DJoined)) | _ => None end else None
            | _ => None
            end
  | DJoined => match e with EFree => Some (set_th (set_freed s true) t (setcp th DFreed)) | _ => None end
  | DFreed => match e with
              | ERet rc sc => if (rc =? 0) && negb sc then Some (set_th s t (setcp th Idle)) else None
              | _ => None
              end
  | Ret rc sc =>
      match e with
      | ERet rc' sc' =>
          if (rc =? rc') && eqb sc sc' then
            Some (set_th (if sc then set_acc s (acc s ++ [tk th]) else s) t (setcp th Idle))
          else None
      | _ => None
      end
  | _ => (* the remaining pc's are inside the critical section *)
      if owns (owner s) t then
        match cp th with
        | Locked => locked_step c s t th e
        | Woken => loop_step c s t th e
        | ODisc => odisc_step c s t th e
        | DDisc => ddisc_step c s t th e
        | Enq => match e with
                 | EBcast k => if k =? 0 then Some (set_th (set_waitc s []) t (setcp th Bc)) else None
                 | _ => None
                 end
        | Bc => match e with EUnlock => unlock_ret s t th RC_OK true | _ => None end
        | DBc1 => if blocking c then
                    match e with
                    | EBcast k => if k =? 1 then Some (set_th (set_waitq s []) t (setcp th DBc2)) else None
                    | _ => None
                    end
                  else match e with EUnlock => Some (set_th (set_owner s None) t (setcp th DUnl)) | _ => None end
        | DBc2 => match e with EUnlock => Some (set_th (set_owner s None) t (setcp th DUnl)) | _ => None end
        | _ => None
        end
      else None
  end.

Definition step (c : cfg) (s : st) (t : tid) (e : ev) : option st :=
  if t =? W then wstep c s e else cstep c s t e.

(* queue edits are not visible without the event hook: the replay takes them silently *)
Definition hidden (c : cfg) (s : st) (t : tid) : option ev :=
  if t =? W then
    match queue s with
    | x :: _ => match wstep c s (EDeq x) with Some _ => Some (EDeq x) | None => None end
    | [] => None
    end
  else
    let e := EEnq (tk (cl s t)) in
    match cstep c s t e with Some _ => Some e | None => None end.

(* tasks held by the worker between dequeue and the return of fn *)
Definition held (s : st) : list task :=
  match wpc s with WDeq | WU1t | WRun | WSdStart | WSdLocked | WSdRet0 | WSdRetA => [wtk s] | _ => [] end.

(* every thread is at rest: the worker has finished and no client is inside a call *)
Definition cl_idle (s : st) (t : tid) : bool := match cp (cl s t) with Idle => true | _ => false end.
Definition w_dead (s : st) : bool := match wpc s with WDead => true | _ => false end.
