(* C20 - invariants of the iwtp transition system over all interleavings *)
Require Import List Bool Arith Lia Permutation.
Require Import IW.CC.Lts IW.CC.Lts_proofs IW.CC.Tp.
Import ListNotations.

Definition R (c : cfg) (s : st) : Prop := reachable st (step c) (init c) s.

Ltac dcase H :=
  repeat match type of H with
  | context [match ?x with _ => _ end] =>
      let E := fresh "E" in destruct x eqn:E; try discriminate H
  end.

Ltac norm_hyps :=
  repeat match goal with
  | H : owns _ _ = true |- _ => apply owns_true in H
  | H : free_mtx _ = true |- _ => apply free_true in H
  | H : is_nil _ = true |- _ => apply is_nil_true in H
  | H : is_nil _ = false |- _ => apply is_nil_false in H
  | H : (_ && _) = true |- _ => apply andb_true_iff in H; destruct H
  | H : (_ && _) = false |- _ => apply andb_false_iff in H; destruct H
  | H : (_ || _) = true |- _ => apply orb_true_iff in H; destruct H
  | H : (_ || _) = false |- _ => apply orb_false_iff in H; destruct H
  | H : (_ =? _) = true |- _ => apply Nat.eqb_eq in H
  | H : (_ =? _) = false |- _ => apply Nat.eqb_neq in H
  | H : (_ <? _) = true |- _ => apply Nat.ltb_lt in H
  | H : (_ <? _) = false |- _ => apply Nat.ltb_ge in H
  | H : (_ <=? _) = true |- _ => apply Nat.leb_le in H
  | H : (_ <=? _) = false |- _ => apply Nat.leb_gt in H
  | H : negb _ = true |- _ => apply negb_true_iff in H
  | H : negb _ = false |- _ => apply negb_false_iff in H
  | H : memb _ _ = false |- _ => apply memb_false in H
  | H : memb _ _ = true |- _ => apply memb_true in H
  end.

Ltac tcases H := unfold step, unlock_to in H; cbv zeta in H; dcase H; norm_hyps; inversion H; subst; clear H.
Ltac rw_facts :=
  repeat match goal with
  | H : owner _ = _ |- _ => rewrite H in *
  | H : queue _ = _ |- _ => rewrite H in *
  | H : pc (th _ _) = _ |- _ => rewrite H in *
  end.

(* ---- queue_size is the length of the queue; a bounded queue never exceeds queue_limit ---- *)
Definition Iq (s : st) : Prop := qsize s = length (queue s).
Definition Ilim (c : cfg) (s : st) : Prop := limit c = 0 \/ length (queue s) <= limit c.

Lemma Iq_step : forall c s t e s', Iq s -> step c s t e = Some s' -> Iq s'.
Proof.
  intros c s t e s' I H. unfold Iq in *. tcases H; simpl in *; rw_facts; simpl in *; rewrite ?app_length; simpl; try lia.
Qed.

Lemma Ilim_step : forall c s t e s', Iq s -> Ilim c s -> step c s t e = Some s' -> Ilim c s'.
Proof.
  intros c s t e s' IQ I H. unfold Ilim, Iq in *. destruct I as [I|I]; [left; exact I|].
  destruct (Nat.eq_dec (limit c) 0) as [Z|Z]; [left; exact Z|right].
  tcases H; unfold full in *; simpl in *; rw_facts; simpl in *; norm_hyps; rewrite ?app_length; simpl in *; try lia.
Qed.

(* ---- the loop of _worker_fn is only entered by registered workers ---- *)
Definition loop_pc (p : pcT) : bool :=
  match p with TTop | TL1 | TDeq | TU1t | TRun | TU1 | TL2 | TWait | TWoken => true | _ => false end.
Definition Iwk (c : cfg) (s : st) : Prop := forall t, loop_pc (pc (th s t)) = true -> t < nthreads c.

Lemma Iwk_step : forall c s t e s', Iwk c s -> step c s t e = Some s' -> Iwk c s'.
Proof.
  intros c s t e s' I H. unfold Iwk in *.
  tcases H; intros u Hu; simpl in *; unfold upd in *;
    repeat match goal with
    | H : context [u =? ?a] |- _ => destruct (Nat.eqb_spec u a); [subst u|]
    end; simpl in *; try discriminate; auto;
    try (apply I; rw_facts; reflexivity).
Qed.

(* ---- fresh task ids, partition ---- *)
Definition cnt_in (x : task) (l : list task) : nat := count_occ Nat.eq_dec l x.
Definition parts (c : cfg) (s : st) : list task := queue s ++ held c s ++ done s ++ disc s.
Definition pre_enq (x : thr) : bool := match pc x with Start | Locked => fn x =? 0 | _ => false end.

Definition Iused (s : st) : Prop := forall x, In x (enq s) -> In x (used s).
Definition Ifresh (s : st) : Prop :=
  forall t, pre_enq (th s t) = true ->
    In (tk (th s t)) (used s) /\ ~ In (tk (th s t)) (enq s) /\
    forall u, u <> t -> pre_enq (th s u) = true -> tk (th s u) <> tk (th s t).
Definition Ipart (c : cfg) (s : st) : Prop :=
  forall x, cnt_in x (enq s) = cnt_in x (parts c s) /\ cnt_in x (enq s) <= 1.

Ltac pre_enq_now := unfold pre_enq; rw_facts; repeat match goal with H : fn _ = _ |- _ => rewrite H end; reflexivity.

Lemma step_frame : forall c s t e s', step c s t e = Some s' ->
  (forall u, u <> t -> pre_enq (th s u) = true \/ pre_enq (th s' u) = true -> th s' u = th s u) /\
  (pc (th s t) = Idle ->
     enq s' = enq s /\
     ((pre_enq (th s' t) = true /\ ~ In (tk (th s' t)) (used s) /\ used s' = tk (th s' t) :: used s) \/
      (pre_enq (th s' t) = false /\ used s' = used s))) /\
  (pc (th s t) <> Idle ->
     used s' = used s /\
     ((enq s' = enq s /\ (pre_enq (th s' t) = true -> pre_enq (th s t) = true /\ tk (th s' t) = tk (th s t))) \/
      (enq s' = enq s ++ [tk (th s t)] /\ pre_enq (th s t) = true /\ pre_enq (th s' t) = false))).
Proof.
  intros c s t e s' H. tcases H; simpl; unfold upd; rewrite ?Nat.eqb_refl; simpl;
  (split; [intros u Hu Hp; repeat match goal with
                           | |- context [u =? ?a] => destruct (Nat.eqb_spec u a); [subst u|]
                           | H : context [u =? ?a] |- _ => destruct (Nat.eqb_spec u a); [subst u|]
                           end; try contradiction; try reflexivity;
                           unfold pre_enq in Hp; simpl in Hp; rw_facts; simpl in Hp; destruct Hp; discriminate|]);
  (split; [intros HI; try congruence | intros HN; try congruence]);
  unfold pre_enq; simpl; rw_facts; simpl;
  repeat match goal with H : fn _ = _ |- _ => rewrite H end; simpl;
  repeat (split; [reflexivity|]);
  first [ solve [left; repeat split; auto; try discriminate; try congruence]
        | solve [right; repeat split; auto; try (apply Nat.eqb_neq; assumption)] ].
Qed.

Lemma Iused_step : forall c s t e s', Ifresh s -> Iused s -> step c s t e = Some s' -> Iused s'.
Proof.
  intros c s t e s' IF I H. unfold Iused in *.
  tcases H; simpl in *; intros y Hy; try (apply in_app_or in Hy; destruct Hy as [Hy|[Hy|[]]]); subst; auto;
    (eapply proj1, IF; pre_enq_now).
Qed.

Lemma idle_dec : forall p : pcT, p = Idle \/ p <> Idle.
Proof. destruct p; (left; reflexivity) || (right; discriminate). Qed.

Ltac fr Hfr u Ne Hp := let Q := fresh "Q" in pose proof (Hfr u Ne (or_intror Hp)) as Q; rewrite Q in *; clear Q.

Lemma Ifresh_step : forall c s t e s', Iused s -> Ifresh s -> step c s t e = Some s' -> Ifresh s'.
Proof.
  intros c s t e s' IU I H. apply step_frame in H. destruct H as (Hfr & HI & HN).
  destruct (idle_dec (pc (th s t))) as [Ei|Ei].
  - destruct (HI Ei) as (He & [(Hp & Hx & Hu)|(Hp & Hu)]); clear HI HN.
    + intros u Hpre. rewrite He, Hu. destruct (Nat.eq_dec u t) as [->|Ne].
      * split; [left; reflexivity|]. split; [intros Hin; apply Hx; apply IU; exact Hin|].
        intros u0 H0t Hp0. fr Hfr u0 H0t Hp0. intros Eq. apply Hx. rewrite <- Eq.
        apply (I u0 Hp0).
      * fr Hfr u Ne Hpre. destruct (I u Hpre) as (A & B & C).
        split; [right; exact A|]. split; [exact B|].
        intros u0 H0u Hp0. destruct (Nat.eq_dec u0 t) as [->|Ne0].
        -- intros Eq. apply Hx. rewrite Eq. exact A.
        -- fr Hfr u0 Ne0 Hp0. apply C; assumption.
    + intros u Hpre. rewrite He, Hu. destruct (Nat.eq_dec u t) as [->|Ne]; [congruence|].
      fr Hfr u Ne Hpre. destruct (I u Hpre) as (A & B & C). split; [exact A|]. split; [exact B|].
      intros u0 H0u Hp0. destruct (Nat.eq_dec u0 t) as [->|Ne0]; [congruence|].
      fr Hfr u0 Ne0 Hp0. apply C; assumption.
  - destruct (HN Ei) as (Hu & [(He & Hp)|(He & Hp & Hp')]); clear HI HN.
    + intros u Hpre. rewrite He, Hu. destruct (Nat.eq_dec u t) as [->|Ne].
      * destruct (Hp Hpre) as [Hp1 Htk]. rewrite Htk. destruct (I t Hp1) as (A & B & C). split; [exact A|]. split; [exact B|].
        intros u0 H0t Hp0. fr Hfr u0 H0t Hp0. apply C; assumption.
      * fr Hfr u Ne Hpre. destruct (I u Hpre) as (A & B & C). split; [exact A|]. split; [exact B|].
        intros u0 H0u Hp0. destruct (Nat.eq_dec u0 t) as [->|Ne0].
        -- destruct (Hp Hp0) as [Hp1 Htk]. rewrite Htk. apply C; auto.
        -- fr Hfr u0 Ne0 Hp0. apply C; assumption.
    + intros u Hpre. rewrite He, Hu. destruct (Nat.eq_dec u t) as [->|Ne]; [congruence|].
      fr Hfr u Ne Hpre. destruct (I u Hpre) as (A & B & C). split; [exact A|].
      split.
      * intros Hin. apply in_app_or in Hin. destruct Hin as [Hin|[Hin|[]]]; [exact (B Hin)|].
        apply (C t (not_eq_sym Ne) Hp). exact Hin.
      * intros u0 H0u Hp0. destruct (Nat.eq_dec u0 t) as [->|Ne0]; [congruence|].
        fr Hfr u0 Ne0 Hp0. apply C; assumption.
Qed.


(* effect of one transition on the task lists *)
Inductive qeff (s s' : st) (t : tid) : Prop :=
| QSame : queue s' = queue s -> (forall u, held1 s' u = held1 s u) -> done s' = done s -> disc s' = disc s ->
          enq s' = enq s -> qeff s s' t
| QEnq : forall x, x = tk (th s t) -> pre_enq (th s t) = true -> queue s' = queue s ++ [x] ->
          (forall u, held1 s' u = held1 s u) -> done s' = done s -> disc s' = disc s -> enq s' = enq s ++ [x] -> qeff s s' t
| QDeq : forall x, loop_pc (pc (th s t)) = true -> queue s = x :: queue s' -> held1 s t = [] -> held1 s' t = [x] ->
          (forall u, u <> t -> held1 s' u = held1 s u) -> done s' = done s -> disc s' = disc s -> enq s' = enq s -> qeff s s' t
| QDone : forall x, loop_pc (pc (th s t)) = true -> queue s' = queue s -> held1 s t = [x] -> held1 s' t = [] ->
          (forall u, u <> t -> held1 s' u = held1 s u) -> done s' = done s ++ [x] -> disc s' = disc s -> enq s' = enq s ->
          qeff s s' t
| QClear : queue s' = [] -> (forall u, held1 s' u = held1 s u) -> done s' = done s -> disc s' = disc s ++ queue s ->
          enq s' = enq s -> qeff s s' t.

Ltac held_same :=
  intros u; unfold held1; simpl; unfold upd;
  repeat match goal with |- context [u =? ?a] => destruct (Nat.eqb_spec u a); [subst u|] end;
  simpl; rw_facts; try reflexivity.

Lemma step_qeff : forall c s t e s', step c s t e = Some s' -> qeff s s' t.
Proof.
  intros c s t e s' H. tcases H;
    first [ solve [apply QSame; try reflexivity; held_same]
          | solve [eapply QEnq; try reflexivity; try pre_enq_now; held_same]
          | solve [eapply QDeq; try eassumption; try reflexivity; rw_facts; try reflexivity;
                   unfold held1; simpl; unfold upd; rewrite ?Nat.eqb_refl; simpl; rw_facts; try reflexivity;
                   intros u Hu; destruct (Nat.eqb_spec u t); [contradiction|reflexivity]]
          | solve [eapply QDone; try reflexivity; rw_facts; try reflexivity;
                   unfold held1; simpl; unfold upd; rewrite ?Nat.eqb_refl; simpl; rw_facts; try reflexivity;
                   intros u Hu; destruct (Nat.eqb_spec u t); [contradiction|reflexivity]]
          | solve [apply QClear; simpl; rewrite ?app_nil_r; try reflexivity; held_same] ].
Qed.

Lemma cnt_app : forall x a b, cnt_in x (a ++ b) = cnt_in x a + cnt_in x b.
Proof. intros. unfold cnt_in. apply count_occ_app. Qed.

Lemma cnt_pos_In : forall x l, In x l <-> cnt_in x l >= 1.
Proof. intros. unfold cnt_in. rewrite (count_occ_In Nat.eq_dec). lia. Qed.

Lemma flat_map_same : forall (f g : nat -> list task) l, (forall u, In u l -> g u = f u) -> flat_map g l = flat_map f l.
Proof.
  intros f g l. induction l as [|a l IH]; intros H; simpl; [reflexivity|].
  rewrite (H a (or_introl eq_refl)), IH; [reflexivity|]. intros u Hu. apply H. right. exact Hu.
Qed.

Lemma cnt_flat_map_upd : forall (f g : nat -> list task) t y l, NoDup l -> In t l -> (forall u, u <> t -> g u = f u) ->
  cnt_in y (flat_map g l) + cnt_in y (f t) = cnt_in y (flat_map f l) + cnt_in y (g t).
Proof.
  intros f g t y l. induction l as [|a l IH]; intros ND Hin Hext; [contradiction|].
  inversion ND as [|? ? Ha ND']; subst. simpl. rewrite !cnt_app. destruct (Nat.eq_dec a t) as [->|Ne].
  - rewrite (flat_map_same f g l); [lia|]. intros u Hu. apply Hext. intros ->. contradiction.
  - destruct Hin as [->|Hin]; [congruence|]. rewrite (Hext a Ne). specialize (IH ND' Hin Hext). lia.
Qed.

Lemma held_upd : forall c s s' t y, t < nthreads c -> (forall u, u <> t -> held1 s' u = held1 s u) ->
  cnt_in y (held c s') + cnt_in y (held1 s t) = cnt_in y (held c s) + cnt_in y (held1 s' t).
Proof.
  intros c s s' t y Ht Hext. unfold held. apply cnt_flat_map_upd; [apply seq_NoDup|apply in_seq; lia|exact Hext].
Qed.

Lemma held_same_all : forall c s s', (forall u, held1 s' u = held1 s u) -> held c s' = held c s.
Proof. intros c s s' H. unfold held. apply flat_map_same. intros u _. apply H. Qed.

Lemma cnt_single : forall x y, cnt_in y [x] = if Nat.eq_dec x y then 1 else 0.
Proof. intros. unfold cnt_in. simpl. destruct (Nat.eq_dec x y); reflexivity. Qed.

Lemma cnt_cons : forall x y l, cnt_in y (x :: l) = (if Nat.eq_dec x y then 1 else 0) + cnt_in y l.
Proof. intros. unfold cnt_in. simpl. destruct (Nat.eq_dec x y); reflexivity. Qed.

Lemma cnt_nil : forall y, cnt_in y [] = 0.
Proof. reflexivity. Qed.

Lemma Ipart_step : forall c s t e s', Iwk c s -> Ifresh s -> Ipart c s -> step c s t e = Some s' -> Ipart c s'.
Proof.
  intros c s t e s' IW IF I H. apply step_qeff in H. unfold Ipart in *. intros y. destruct (I y) as [P Q].
  unfold parts in *. rewrite !cnt_app in *.
  destruct H as [H1 H2 H3 H4 H5 | x Hx Hp H1 H2 H3 H4 H5 | x Hl H1 Ha Hb H2 H3 H4 H5 | x Hl H1 Ha Hb H2 H3 H4 H5
                | H1 H2 H3 H4 H5].
  - rewrite H1, (held_same_all c s s' H2), H3, H4, H5. split; assumption.
  - assert (Z : ~ In x (enq s)) by (subst x; apply IF; assumption).
    assert (Z0 : cnt_in x (enq s) = 0) by (apply (count_occ_not_In Nat.eq_dec); exact Z).
    rewrite H1, (held_same_all c s s' H2), H3, H4, H5, !cnt_app, !cnt_single.
    destruct (Nat.eq_dec x y) as [->|N]; lia.
  - assert (HU := held_upd c s s' t y (IW t Hl) H2). rewrite Ha, Hb, cnt_single, cnt_nil in HU.
    rewrite H1, cnt_cons in P. rewrite H3, H4, H5. destruct (Nat.eq_dec x y); lia.
  - assert (HU := held_upd c s s' t y (IW t Hl) H2). rewrite Ha, Hb, cnt_single, cnt_nil in HU.
    rewrite H1, H3, H4, H5, cnt_app, cnt_single. destruct (Nat.eq_dec x y); lia.
  - rewrite H1, (held_same_all c s s' H2), H3, H4, H5, cnt_app, cnt_nil. lia.
Qed.
