(* C20 - invariants of the iwtp transition system over all interleavings *)
Require Import List Bool Arith Lia Permutation.
Require Import IW.CC.Lts IW.CC.Lts_proofs IW.CC.Tp.
Import ListNotations.

Definition R (c : cfg) (s : st) : Prop := reachable st (step c) (init c) s.

Ltac dcase H :=
  repeat match type of H with
  | context [match ?x with _ => _ end] =>
      let E := fresh "E" in destruct x eqn:E; try discriminate H
  end.

Ltac norm_hyps :=
  repeat match goal with
  | H : owns _ _ = true |- _ => apply owns_true in H
  | H : free_mtx _ = true |- _ => apply free_true in H
  | H : is_nil _ = true |- _ => apply is_nil_true in H
  | H : is_nil _ = false |- _ => apply is_nil_false in H
  | H : (_ && _) = true |- _ => apply andb_true_iff in H; destruct H
  | H : (_ && _) = false |- _ => apply andb_false_iff in H; destruct H
  | H : (_ || _) = true |- _ => apply orb_true_iff in H; destruct H
  | H : (_ || _) = false |- _ => apply orb_false_iff in H; destruct H
  | H : (_ =? _) = true |- _ => apply Nat.eqb_eq in H
  | H : (_ =? _) = false |- _ => apply Nat.eqb_neq in H
  | H : (_ <? _) = true |- _ => apply Nat.ltb_lt in H
  | H : (_ <? _) = false |- _ => apply Nat.ltb_ge in H
  | H : (_ <=? _) = true |- _ => apply Nat.leb_le in H
  | H : (_ <=? _) = false |- _ => apply Nat.leb_gt in H
  | H : negb _ = true |- _ => apply negb_true_iff in H
  | H : negb _ = false |- _ => apply negb_false_iff in H
  | H : memb _ _ = false |- _ => apply memb_false in H
  | H : memb _ _ = true |- _ => apply memb_true in H
  end.

Ltac tcases H := unfold step, unlock_to in H; cbv zeta in H; dcase H; norm_hyps; inversion H; subst; clear H.
Ltac rw_facts :=
  repeat match goal with
  | H : owner _ = _ |- _ => rewrite H in *
  | H : queue _ = _ |- _ => rewrite H in *
  | H : pc (th _ _) = _ |- _ => rewrite H in *
  end.

(* ---- queue_size is the length of the queue; a bounded queue never exceeds queue_limit ---- *)
Definition Iq (s : st) : Prop := qsize s = length (queue s).
Definition Ilim (c : cfg) (s : st) : Prop := limit c = 0 \/ length (queue s) <= limit c.

Lemma Iq_step : forall c s t e s', Iq s -> step c s t e = Some s' -> Iq s'.
Proof.
  intros c s t e s' I H. unfold Iq in *. tcases H; simpl in *; rw_facts; simpl in *; rewrite ?app_length; simpl; try lia.
Qed.

Lemma Ilim_step : forall c s t e s', Iq s -> Ilim c s -> step c s t e = Some s' -> Ilim c s'.
Proof.
  intros c s t e s' IQ I H. unfold Ilim, Iq in *. destruct I as [I|I]; [left; exact I|].
  destruct (Nat.eq_dec (limit c) 0) as [Z|Z]; [left; exact Z|right].
  tcases H; unfold full in *; simpl in *; rw_facts; simpl in *; norm_hyps; rewrite ?app_length; simpl in *; try lia.
Qed.

(* ---- the threads that run _worker_fn ---- *)
Definition loop_pc (p : pcT) : bool :=
  match p with TTop | TL1 | TDeq | TU1t | TRun | TU1 | TL2 | TWait | TWoken => true | _ => false end.
Definition worker_pc (p : pcT) : bool :=
  match p with TStart | TReg | TExit | TDead => true | _ => loop_pc p end.

Ltac thr_cases u :=
  simpl in *; unfold upd in *;
  repeat match goal with
  | H : context [u =? ?a] |- _ => destruct (Nat.eqb_spec u a); [subst u|]
  | |- context [u =? ?a] => destruct (Nat.eqb_spec u a); [subst u|]
  end; simpl in *.

(* every thread of the ghost list runs _worker_fn; the list has no duplicates; tp->threads is part of it and always
   contains the threads created by iwtp_start; a thread inside the worker loop is in tp->threads *)
Definition Iww (s : st) : Prop := forall t, In t (workers s) -> worker_pc (pc (th s t)) = true.
Definition Inw (s : st) : Prop := NoDup (workers s).
Definition Irw (s : st) : Prop := forall t, In t (regs s) -> In t (workers s).
Definition Iregs (c : cfg) (s : st) : Prop := forall w, w < nthreads c -> In w (regs s).
Definition Iwk (s : st) : Prop := forall t, loop_pc (pc (th s t)) = true -> In t (regs s).

Lemma NoDup_app_snoc : forall (l : list nat) x, NoDup l -> ~ In x l -> NoDup (l ++ [x]).
Proof.
  induction l as [|a l IH]; intros x ND Hx; simpl; [constructor; [intros []|constructor]|].
  inversion ND; subst. constructor.
  - intros Hin. apply in_app_or in Hin. destruct Hin as [Hin|[Hin|[]]]; [contradiction|subst; apply Hx; left; reflexivity].
  - apply IH; [assumption|]. intros Hin. apply Hx. right. exact Hin.
Qed.

Lemma Iww_step : forall c s t e s', Iww s -> step c s t e = Some s' -> Iww s'.
Proof.
  intros c s t e s' I H. unfold Iww in *.
  tcases H; intros u Hu; assert (It := I t); try (assert (Iu := I u Hu)); thr_cases u; rw_facts; auto;
    try (apply in_app_or in Hu; destruct Hu as [Hu|[Hu|[]]]; try congruence; try (apply I; assumption));
    try (apply It; assumption).
Qed.

Lemma Irw_step : forall c s t e s', Irw s -> step c s t e = Some s' -> Irw s'.
Proof.
  intros c s t e s' I H. unfold Irw in *.
  tcases H; simpl in *; intros u Hu; auto;
    try (apply remove_first_sub in Hu; auto; fail);
    try (apply in_or_app; apply in_app_or in Hu; destruct Hu as [Hu|Hu]; [left; apply I; assumption|right; assumption]);
    try (apply in_or_app; left; apply I; assumption).
Qed.

Lemma Inw_step : forall c s t e s', Iww s -> Inw s -> step c s t e = Some s' -> Inw s'.
Proof.
  intros c s t e s' IW I H. unfold Inw in *.
  tcases H; simpl in *; auto;
    (apply NoDup_app_snoc; [exact I|]; intros Hin; apply IW in Hin; rewrite E4 in Hin; discriminate Hin).
Qed.

(* the threads of iwtp_start occupy the first num_threads positions of tp->threads for ever; hence the index that a thread
   found for itself in its prologue - although it may be stale later - still tells pool threads from overflow threads *)
Definition Ipre (c : cfg) (s : st) : Prop :=
  exists rest, regs s = seq 0 (nthreads c) ++ rest /\ forall r, In r rest -> nthreads c <= r.
Definition Iix (c : cfg) (s : st) : Prop :=
  forall t, loop_pc (pc (th s t)) = true -> (ix (th s t) < nthreads c <-> t < nthreads c).

Lemma notin_seq0 : forall t n, n <= t -> ~ In t (seq 0 n).
Proof. intros t n H Hin. apply in_seq in Hin. lia. Qed.

Lemma Iix_ovf : forall c s t, Iix c s -> loop_pc (pc (th s t)) = true -> nthreads c <= ix (th s t) -> nthreads c <= t.
Proof. intros c s t I Hl Hx. destruct (I t Hl) as [_ B]. destruct (Nat.lt_ge_cases t (nthreads c)) as [L|G]; [specialize (B L); lia|exact G]. Qed.

Lemma Ipre_step : forall c s t e s', Iix c s -> Ipre c s -> step c s t e = Some s' -> Ipre c s'.
Proof.
  intros c s t e s' IX I H. unfold Ipre in *. destruct I as (rest & Er & Hr).
  tcases H; simpl in *; try (exists rest; split; assumption).
  - exists (rest ++ [child]). split; [rewrite Er, app_assoc; reflexivity|].
    intros r Hin. apply in_app_or in Hin. destruct Hin as [Hin|[<-|[]]]; [apply Hr; exact Hin|assumption].
  - exists (remove_first t rest). split.
    + rewrite Er. apply remove_first_app_notin. apply notin_seq0. apply (Iix_ovf c s t IX); [rewrite E; reflexivity|assumption].
    + intros r Hin. apply Hr. eapply remove_first_sub. exact Hin.
Qed.

Lemma Iix_step : forall c s t e s', Ipre c s -> Iix c s -> step c s t e = Some s' -> Iix c s'.
Proof.
  intros c s t e s' IP I H. unfold Iix in *.
  tcases H; intros u Hu; assert (Iu := I u); assert (It := I t); thr_cases u; rw_facts; try discriminate; auto;
    try (apply It; reflexivity).
  (* the prologue: idx = find_first self *)
  destruct IP as (rest & Er & Hr). rewrite Er in E2.
  destruct (Nat.lt_ge_cases t (nthreads c)) as [L|G].
  - rewrite find_first_seq in E2 by exact L. inversion E2; subst. tauto.
  - rewrite find_first_app_r in E2 by (apply notin_seq0; exact G). rewrite seq_length in E2.
    destruct (find_first t rest); [|discriminate]. inversion E2; subst. split; intros; lia.
Qed.

Lemma Iregs_step : forall c s t e s', Iix c s -> Iregs c s -> step c s t e = Some s' -> Iregs c s'.
Proof.
  intros c s t e s' IX I H. unfold Iregs in *.
  tcases H; simpl in *; intros w Hw; auto;
    try (apply in_or_app; left; apply I; assumption).
  apply remove_first_keeps; [apply I; assumption|]. intros ->.
  assert (X := Iix_ovf c s t IX). rewrite E in X. specialize (X eq_refl). lia.
Qed.

Lemma Iwk_step : forall c s t e s', Iwk s -> step c s t e = Some s' -> Iwk s'.
Proof.
  intros c s t e s' I H. unfold Iwk in *.
  tcases H; intros u Hu; assert (It := I t); thr_cases u; rw_facts; try discriminate; auto;
    try (apply It; reflexivity);
    try (apply remove_first_keeps; [apply I; assumption|congruence]);
    try (apply in_or_app; left; apply I; assumption);
    try (destruct (in_dec Nat.eq_dec t (regs s)) as [Hin|Hnin]; [exact Hin|apply find_first_none in Hnin; congruence]).
Qed.

(* ---- fresh task ids, partition ---- *)
Definition cnt_in (x : task) (l : list task) : nat := count_occ Nat.eq_dec l x.
Definition parts (s : st) : list task := queue s ++ held s ++ done s ++ disc s.
Definition pre_enq (x : thr) : bool := match pc x with Start | Locked => fn x =? 0 | _ => false end.

Definition Iused (s : st) : Prop := forall x, In x (enq s) -> In x (used s).
Definition Ifresh (s : st) : Prop :=
  forall t, pre_enq (th s t) = true ->
    In (tk (th s t)) (used s) /\ ~ In (tk (th s t)) (enq s) /\
    forall u, u <> t -> pre_enq (th s u) = true -> tk (th s u) <> tk (th s t).
Definition Ipart (s : st) : Prop :=
  forall x, cnt_in x (enq s) = cnt_in x (parts s) /\ cnt_in x (enq s) <= 1.

Ltac pre_enq_now := unfold pre_enq; rw_facts; repeat match goal with H : fn _ = _ |- _ => rewrite H end; reflexivity.

Lemma step_frame : forall c s t e s', step c s t e = Some s' ->
  (forall u, u <> t -> pre_enq (th s u) = true \/ pre_enq (th s' u) = true -> th s' u = th s u) /\
  (pc (th s t) = Idle ->
     enq s' = enq s /\
     ((pre_enq (th s' t) = true /\ ~ In (tk (th s' t)) (used s) /\ used s' = tk (th s' t) :: used s) \/
      (pre_enq (th s' t) = false /\ used s' = used s))) /\
  (pc (th s t) <> Idle ->
     used s' = used s /\
     ((enq s' = enq s /\ (pre_enq (th s' t) = true -> pre_enq (th s t) = true /\ tk (th s' t) = tk (th s t))) \/
      (enq s' = enq s ++ [tk (th s t)] /\ pre_enq (th s t) = true /\ pre_enq (th s' t) = false))).
Proof.
  intros c s t e s' H. tcases H; simpl; unfold upd; rewrite ?Nat.eqb_refl; simpl;
  (split; [intros u Hu Hp; repeat match goal with
                           | |- context [u =? ?a] => destruct (Nat.eqb_spec u a); [subst u|]
                           | H : context [u =? ?a] |- _ => destruct (Nat.eqb_spec u a); [subst u|]
                           end; try contradiction; try reflexivity;
                           unfold pre_enq in Hp; simpl in Hp; rw_facts; simpl in Hp; destruct Hp; discriminate|]);
  (split; [intros HI; try congruence | intros HN; try congruence]);
  unfold pre_enq; simpl; rw_facts; simpl;
  repeat match goal with H : fn _ = _ |- _ => rewrite H end; simpl;
  repeat (split; [reflexivity|]);
  first [ solve [left; repeat split; auto; try discriminate; try congruence]
        | solve [right; repeat split; auto; try (apply Nat.eqb_neq; assumption)] ].
Qed.

Lemma Iused_step : forall c s t e s', Ifresh s -> Iused s -> step c s t e = Some s' -> Iused s'.
Proof.
  intros c s t e s' IF I H. unfold Iused in *.
  tcases H; simpl in *; intros y Hy; try (apply in_app_or in Hy; destruct Hy as [Hy|[Hy|[]]]); subst; auto;
    (eapply proj1, IF; pre_enq_now).
Qed.

Lemma idle_dec : forall p : pcT, p = Idle \/ p <> Idle.
Proof. destruct p; (left; reflexivity) || (right; discriminate). Qed.

Ltac fr Hfr u Ne Hp := let Q := fresh "Q" in pose proof (Hfr u Ne (or_intror Hp)) as Q; rewrite Q in *; clear Q.

Lemma Ifresh_step : forall c s t e s', Iused s -> Ifresh s -> step c s t e = Some s' -> Ifresh s'.
Proof.
  intros c s t e s' IU I H. apply step_frame in H. destruct H as (Hfr & HI & HN).
  destruct (idle_dec (pc (th s t))) as [Ei|Ei].
  - destruct (HI Ei) as (He & [(Hp & Hx & Hu)|(Hp & Hu)]); clear HI HN.
    + intros u Hpre. rewrite He, Hu. destruct (Nat.eq_dec u t) as [->|Ne].
      * split; [left; reflexivity|]. split; [intros Hin; apply Hx; apply IU; exact Hin|].
        intros u0 H0t Hp0. fr Hfr u0 H0t Hp0. intros Eq. apply Hx. rewrite <- Eq.
        apply (I u0 Hp0).
      * fr Hfr u Ne Hpre. destruct (I u Hpre) as (A & B & C).
        split; [right; exact A|]. split; [exact B|].
        intros u0 H0u Hp0. destruct (Nat.eq_dec u0 t) as [->|Ne0].
        -- intros Eq. apply Hx. rewrite Eq. exact A.
        -- fr Hfr u0 Ne0 Hp0. apply C; assumption.
    + intros u Hpre. rewrite He, Hu. destruct (Nat.eq_dec u t) as [->|Ne]; [congruence|].
      fr Hfr u Ne Hpre. destruct (I u Hpre) as (A & B & C). split; [exact A|]. split; [exact B|].
      intros u0 H0u Hp0. destruct (Nat.eq_dec u0 t) as [->|Ne0]; [congruence|].
      fr Hfr u0 Ne0 Hp0. apply C; assumption.
  - destruct (HN Ei) as (Hu & [(He & Hp)|(He & Hp & Hp')]); clear HI HN.
    + intros u Hpre. rewrite He, Hu. destruct (Nat.eq_dec u t) as [->|Ne].
      * destruct (Hp Hpre) as [Hp1 Htk]. rewrite Htk. destruct (I t Hp1) as (A & B & C). split; [exact A|]. split; [exact B|].
        intros u0 H0t Hp0. fr Hfr u0 H0t Hp0. apply C; assumption.
      * fr Hfr u Ne Hpre. destruct (I u Hpre) as (A & B & C). split; [exact A|]. split; [exact B|].
        intros u0 H0u Hp0. destruct (Nat.eq_dec u0 t) as [->|Ne0].
        -- destruct (Hp Hp0) as [Hp1 Htk]. rewrite Htk. apply C; auto.
        -- fr Hfr u0 Ne0 Hp0. apply C; assumption.
    + intros u Hpre. rewrite He, Hu. destruct (Nat.eq_dec u t) as [->|Ne]; [congruence|].
      fr Hfr u Ne Hpre. destruct (I u Hpre) as (A & B & C). split; [exact A|].
      split.
      * intros Hin. apply in_app_or in Hin. destruct Hin as [Hin|[Hin|[]]]; [exact (B Hin)|].
        apply (C t (not_eq_sym Ne) Hp). exact Hin.
      * intros u0 H0u Hp0. destruct (Nat.eq_dec u0 t) as [->|Ne0]; [congruence|].
        fr Hfr u0 Ne0 Hp0. apply C; assumption.
Qed.


(* effect of one transition on the task lists *)
Inductive qeff (s s' : st) (t : tid) : Prop :=
| QSame : queue s' = queue s -> held s' = held s -> done s' = done s -> disc s' = disc s ->
          enq s' = enq s -> qeff s s' t
| QEnq : forall x, x = tk (th s t) -> pre_enq (th s t) = true -> queue s' = queue s ++ [x] ->
          held s' = held s -> done s' = done s -> disc s' = disc s -> enq s' = enq s ++ [x] -> qeff s s' t
| QDeq : forall x, loop_pc (pc (th s t)) = true -> queue s = x :: queue s' -> held1 s t = [] -> held1 s' t = [x] ->
          workers s' = workers s -> (forall u, u <> t -> held1 s' u = held1 s u) -> done s' = done s -> disc s' = disc s ->
          enq s' = enq s -> qeff s s' t
| QDone : forall x, loop_pc (pc (th s t)) = true -> queue s' = queue s -> held1 s t = [x] -> held1 s' t = [] ->
          workers s' = workers s -> (forall u, u <> t -> held1 s' u = held1 s u) -> done s' = done s ++ [x] ->
          disc s' = disc s -> enq s' = enq s -> qeff s s' t
| QClear : queue s' = [] -> held s' = held s -> done s' = done s -> disc s' = disc s ++ queue s ->
          enq s' = enq s -> qeff s s' t.

Lemma flat_map_same : forall (f g : nat -> list task) l, (forall u, In u l -> g u = f u) -> flat_map g l = flat_map f l.
Proof.
  intros f g l. induction l as [|a l IH]; intros H; simpl; [reflexivity|].
  rewrite (H a (or_introl eq_refl)), IH; [reflexivity|]. intros u Hu. apply H. right. exact Hu.
Qed.

Ltac held_pt :=
  intros u; unfold held1; simpl; unfold upd;
  repeat match goal with |- context [u =? ?a] => destruct (Nat.eqb_spec u a); [subst u|] end;
  simpl; rw_facts; try reflexivity.

(* held is unchanged when no thread enters or leaves the holding pc's (a spawned thread holds nothing) *)
Ltac held_same :=
  unfold held; simpl; rewrite ?flat_map_app; simpl; rewrite ?app_nil_r;
  try (unfold held1 at 2; simpl; unfold upd; rewrite ?Nat.eqb_refl; simpl; rewrite ?app_nil_r);
  apply flat_map_same; intros u _; revert u; held_pt.

Lemma held_spawn : forall s s' ch, workers s' = workers s ++ [ch] -> (forall u, held1 s' u = held1 s u) ->
  held1 s ch = [] -> held s' = held s.
Proof.
  intros s s' ch Hw Hp Hc. unfold held. rewrite Hw, flat_map_app. simpl. rewrite (Hp ch), Hc, !app_nil_r.
  apply flat_map_same. intros u _. apply Hp.
Qed.

Lemma step_qeff : forall c s t e s', step c s t e = Some s' -> qeff s s' t.
Proof.
  intros c s t e s' H. tcases H;
    try first [ solve [apply QSame; try reflexivity; held_same]
          | solve [eapply QEnq; try reflexivity; try pre_enq_now; held_same]
          | solve [eapply QDeq; try eassumption; try reflexivity; rw_facts; try reflexivity;
                   unfold held1; simpl; unfold upd; rewrite ?Nat.eqb_refl; simpl; rw_facts; try reflexivity;
                   intros u Hu; destruct (Nat.eqb_spec u t); [contradiction|reflexivity]]
          | solve [eapply QDone; try reflexivity; rw_facts; try reflexivity;
                   unfold held1; simpl; unfold upd; rewrite ?Nat.eqb_refl; simpl; rw_facts; try reflexivity;
                   intros u Hu; destruct (Nat.eqb_spec u t); [contradiction|reflexivity]]
          | solve [apply QClear; simpl; rewrite ?app_nil_r; try reflexivity; held_same] ];
    (apply QSame; try reflexivity; apply (held_spawn _ _ child); [reflexivity|held_pt|unfold held1; rewrite E4; reflexivity]).
Qed.

Lemma cnt_app : forall x a b, cnt_in x (a ++ b) = cnt_in x a + cnt_in x b.
Proof. intros. unfold cnt_in. apply count_occ_app. Qed.

Lemma cnt_pos_In : forall x l, In x l <-> cnt_in x l >= 1.
Proof. intros. unfold cnt_in. rewrite (count_occ_In Nat.eq_dec). lia. Qed.

Lemma cnt_flat_map_upd : forall (f g : nat -> list task) t y l, NoDup l -> In t l -> (forall u, u <> t -> g u = f u) ->
  cnt_in y (flat_map g l) + cnt_in y (f t) = cnt_in y (flat_map f l) + cnt_in y (g t).
Proof.
  intros f g t y l. induction l as [|a l IH]; intros ND Hin Hext; [contradiction|].
  inversion ND as [|? ? Ha ND']; subst. simpl. rewrite !cnt_app. destruct (Nat.eq_dec a t) as [->|Ne].
  - rewrite (flat_map_same f g l); [lia|]. intros u Hu. apply Hext. intros ->. contradiction.
  - destruct Hin as [->|Hin]; [congruence|]. rewrite (Hext a Ne). specialize (IH ND' Hin Hext). lia.
Qed.

Lemma held_upd : forall s s' t y, NoDup (workers s) -> In t (workers s) -> workers s' = workers s ->
  (forall u, u <> t -> held1 s' u = held1 s u) ->
  cnt_in y (held s') + cnt_in y (held1 s t) = cnt_in y (held s) + cnt_in y (held1 s' t).
Proof.
  intros s s' t y ND Hin Hw Hext. unfold held. rewrite Hw. apply cnt_flat_map_upd; assumption.
Qed.

Lemma cnt_single : forall x y, cnt_in y [x] = if Nat.eq_dec x y then 1 else 0.
Proof. intros. unfold cnt_in. simpl. destruct (Nat.eq_dec x y); reflexivity. Qed.

Lemma cnt_cons : forall x y l, cnt_in y (x :: l) = (if Nat.eq_dec x y then 1 else 0) + cnt_in y l.
Proof. intros. unfold cnt_in. simpl. destruct (Nat.eq_dec x y); reflexivity. Qed.

Lemma cnt_nil : forall y, cnt_in y [] = 0.
Proof. reflexivity. Qed.

Lemma Ipart_step : forall c s t e s', Inw s -> Irw s -> Iwk s -> Ifresh s -> Ipart s -> step c s t e = Some s' -> Ipart s'.
Proof.
  intros c s t e s' ND IR IW IF I H. apply step_qeff in H. unfold Ipart in *. intros y. destruct (I y) as [P Q].
  unfold parts in *. rewrite !cnt_app in *.
  destruct H as [H1 H2 H3 H4 H5 | x Hx Hp H1 H2 H3 H4 H5 | x Hl H1 Ha Hb Hw H2 H3 H4 H5 | x Hl H1 Ha Hb Hw H2 H3 H4 H5
                | H1 H2 H3 H4 H5].
  - rewrite H1, H2, H3, H4, H5. split; assumption.
  - assert (Z : ~ In x (enq s)) by (subst x; apply IF; assumption).
    assert (Z0 : cnt_in x (enq s) = 0) by (apply (count_occ_not_In Nat.eq_dec); exact Z).
    rewrite H1, H2, H3, H4, H5, !cnt_app, !cnt_single.
    destruct (Nat.eq_dec x y) as [->|N]; lia.
  - assert (HU := held_upd s s' t y ND (IR t (IW t Hl)) Hw H2). rewrite Ha, Hb, cnt_single, cnt_nil in HU.
    rewrite H1, cnt_cons in P. rewrite H3, H4, H5. destruct (Nat.eq_dec x y); lia.
  - assert (HU := held_upd s s' t y ND (IR t (IW t Hl)) Hw H2). rewrite Ha, Hb, cnt_single, cnt_nil in HU.
    rewrite H1, H3, H4, H5, cnt_app, cnt_single. destruct (Nat.eq_dec x y); lia.
  - rewrite H1, H2, H3, H4, H5, cnt_app, cnt_nil. lia.
Qed.

(* ---- variant with the shutdown check in iwtp_schedule: after a pool thread of iwtp_start has left, the flag is set and the
        queue stays empty ---- *)
Definition Idead (c : cfg) (s : st) : Prop :=
  chk c = true -> forall w, w < nthreads c -> pc (th s w) = TExit \/ pc (th s w) = TDead -> shut s = true /\ queue s = [].

Lemma Idead_step : forall c s t e s', Iix c s -> Iregs c s -> Idead c s -> step c s t e = Some s' -> Idead c s'.
Proof.
  intros c s t e s' IX IR I H. unfold Idead in *. intros Hc w Hw Hp.
  tcases H; thr_cases w; rw_facts;
    try (destruct Hp as [Hp|Hp]; discriminate Hp); try lia;
    try (destruct (I Hc w Hw Hp) as [I1 I2]); rw_facts; auto; try congruence; try discriminate;
    try (split; auto; fail);
    try (apply (I Hc t Hw); left; assumption);
    try (exfalso; match goal with H : find_first ?x (regs _) = None |- _ => apply find_first_none in H; apply H; apply IR; assumption end);
    try (exfalso; assert (X := Iix_ovf c s t IX); rewrite E in X; specialize (X eq_refl); lia).
Qed.

(* ---- shutdown thread: flag set from the broadcast on; a thread that has just linked a task saw the flag clear ---- *)
Definition Ishutq (s : st) : Prop :=
  forall t, match pc (th s t) with QB | QJoin | QFreed => shut s = true | _ => True end.
Definition Ipenq (c : cfg) (s : st) : Prop :=
  chk c = true -> forall u, pc (th s u) = PEnq -> owner s = Some u -> shut s = false.

Lemma Ishutq_step : forall c s t e s', Ishutq s -> step c s t e = Some s' -> Ishutq s'.
Proof.
  intros c s t e s' I H. unfold Ishutq in *.
  tcases H; intros u; assert (Iu := I u); assert (It := I t); thr_cases u; rw_facts; auto;
    try (destruct (pc (th s u)); auto); try discriminate; try congruence.
Qed.

Lemma Ipenq_step : forall c s t e s', Ipenq c s -> step c s t e = Some s' -> Ipenq c s'.
Proof.
  intros c s t e s' I H. unfold Ipenq in *. intros Hc u Hp Ho.
  tcases H; thr_cases u; rw_facts; try discriminate; try congruence; auto;
    try (apply (I Hc u); congruence).
Qed.

(* ---- iwtp_shutdown joins every thread that is or will be inside the worker loop (variant with the shutdown check) ---- *)
Definition prejoin (s : st) (w : tid) : bool :=
  match pc (th s w) with TStart | TReg => memb w (regs s) | p => loop_pc p end.
Definition Ijoin (c : cfg) (s : st) : Prop :=
  chk c = true ->
  forall t, match pc (th s t) with
            | QB | QJoin | QFreed => forall w, prejoin s w = true -> In w (jl (th s t))
            | _ => True
            end.

Lemma prejoin_regs : forall s w, Iwk s -> prejoin s w = true -> In w (regs s).
Proof.
  intros s w IW H. unfold prejoin in H. destruct (pc (th s w)) eqn:E; try discriminate H;
    first [apply memb_true; exact H | apply IW; rewrite E; reflexivity].
Qed.

Lemma Ijoin_step : forall c s t e s', Iwk s -> Ishutq s -> Ipenq c s -> Ijoin c s -> step c s t e = Some s' -> Ijoin c s'.
Proof.
  intros c s t e s' IW IS IP I H. unfold Ijoin in *. intros Hc u. specialize (I Hc).
  assert (Iu := I u); assert (It := I t); assert (Su := IS u); specialize (IP Hc).
  tcases H; thr_cases u; rw_facts; auto;
    try (destruct (pc (th s u)) eqn:Eu; auto); intros w Hw; unfold prejoin in *; simpl in *; unfold upd in *;
    repeat match goal with H : context [w =? ?a] |- _ => destruct (Nat.eqb_spec w a); [subst w|] end; simpl in *;
    try discriminate Hw;
    try (apply Iu; rw_facts; simpl; auto; fail);
    try (apply It; rw_facts; simpl; auto; fail);
    try (exfalso; assert (X := IP _ E E0); congruence);
    try (exfalso; assert (X := IP t E eq_refl); congruence);
    try (apply (prejoin_regs s w IW); unfold prejoin; exact Hw);
    try discriminate Su;
    try (destruct (It w Hw) as [X|X]; [subst; rewrite E3 in Hw; discriminate Hw|exact X]);
    try (apply Iu; rewrite E; apply memb_true; assumption);
    try (apply Iu; rewrite E; apply memb_true; eapply find_first_some_In; eassumption).
Qed.

Definition Idw (s : st) : Prop := disc s = [] \/ (shut s = true /\ shut_wait s = false).

Lemma Idw_step : forall c s t e s', Idw s -> step c s t e = Some s' -> Idw s'.
Proof.
  intros c s t e s' I H. unfold Idw in *. tcases H; simpl in *; auto;
    destruct I as [I|[I1 I2]]; try discriminate; try congruence; auto; try (right; split; congruence).
Qed.

Definition Iaccpc (s : st) : Prop :=
  forall t, match pc (th s t) with PEnq | PSp | PSig | Ret _ true => In (tk (th s t)) (enq s) | _ => True end.
Definition Iacc (s : st) : Prop := forall x, In x (acc s) -> In x (enq s).

Lemma Iaccpc_step : forall c s t e s', Iaccpc s -> step c s t e = Some s' -> Iaccpc s'.
Proof.
  intros c s t e s' I H. unfold Iaccpc in *.
  tcases H; intros u; assert (Iu := I u); assert (It := I t); thr_cases u; rw_facts; auto;
    try (apply in_or_app; simpl; auto; fail);
    try (destruct (pc (th s u)); auto; try (destruct sched; auto); apply in_or_app; auto).
Qed.

Lemma Iacc_step : forall c s t e s', Iaccpc s -> Iacc s -> step c s t e = Some s' -> Iacc s'.
Proof.
  intros c s t e s' IP I H. unfold Iacc in *.
  tcases H; simpl in *; intros y Hy; try (apply in_or_app; left); auto;
    try (apply in_app_or in Hy; destruct Hy as [Hy|[Hy|[]]]); auto;
    try (subst y; assert (X := IP t); rewrite E in X; exact X).
Qed.

Record Inv (c : cfg) (s : st) : Prop := mkInv {
  i_q : Iq s; i_lim : Ilim c s; i_ww : Iww s; i_nw : Inw s; i_rw : Irw s; i_pre : Ipre c s; i_ix : Iix c s; i_regs : Iregs c s; i_wk : Iwk s;
  i_used : Iused s; i_fresh : Ifresh s; i_part : Ipart s; i_dead : Idead c s; i_shutq : Ishutq s; i_penq : Ipenq c s;
  i_join : Ijoin c s; i_dw : Idw s; i_accpc : Iaccpc s; i_acc : Iacc s }.

Lemma held_nil : forall s, (forall t, In t (workers s) -> held1 s t = []) -> held s = [].
Proof.
  intros s H. unfold held. induction (workers s) as [|a l IH]; simpl; [reflexivity|].
  rewrite (H a (or_introl eq_refl)), IH; [reflexivity|]. intros t Ht. apply H. right. exact Ht.
Qed.

Lemma init_pc : forall c t, pc (th (init c) t) = if t <? nthreads c then TStart else Idle.
Proof. intros. simpl. destruct (t <? nthreads c); reflexivity. Qed.

Lemma Inv_init : forall c, Inv c (init c).
Proof.
  intros c. constructor.
  - reflexivity.
  - right. simpl. lia.
  - intros t Ht. simpl in Ht. apply in_seq in Ht. rewrite init_pc. destruct (Nat.ltb_spec t (nthreads c)); [reflexivity|lia].
  - apply seq_NoDup.
  - intros t Ht. exact Ht.
  - exists []. split; [simpl; rewrite app_nil_r; reflexivity|intros r []].
  - intros t Ht. rewrite init_pc in Ht. destruct (t <? nthreads c); discriminate Ht.
  - intros w Hw. simpl. apply in_seq. lia.
  - intros t Ht. rewrite init_pc in Ht. destruct (t <? nthreads c); discriminate Ht.
  - intros x [].
  - intros t. unfold pre_enq. rewrite init_pc. destruct (t <? nthreads c); discriminate.
  - intros x. unfold parts. rewrite held_nil.
    + simpl. split; [reflexivity|lia].
    + intros t _. unfold held1. rewrite init_pc. destruct (t <? nthreads c); reflexivity.
  - intros _ w Hw. rewrite init_pc. destruct (w <? nthreads c); intros [H|H]; discriminate.
  - intros t. rewrite init_pc. destruct (t <? nthreads c); exact I.
  - intros _ u Hu. rewrite init_pc in Hu. destruct (u <? nthreads c); discriminate.
  - intros _ t. rewrite init_pc. destruct (t <? nthreads c); exact I.
  - left. reflexivity.
  - intros t. rewrite init_pc. destruct (t <? nthreads c); exact I.
  - intros x [].
Qed.

Lemma Inv_step : forall c s t e s', Inv c s -> step c s t e = Some s' -> Inv c s'.
Proof.
  intros c s t e s' [] H. constructor.
  - eapply Iq_step; eauto.
  - eapply Ilim_step; eauto.
  - eapply Iww_step; eauto.
  - eapply Inw_step; eauto.
  - eapply Irw_step; eauto.
  - eapply Ipre_step; eauto.
  - eapply Iix_step; eauto.
  - eapply Iregs_step; eauto.
  - eapply Iwk_step; eauto.
  - eapply Iused_step; eauto.
  - eapply Ifresh_step; eauto.
  - eapply Ipart_step; eauto.
  - eapply Idead_step; eauto.
  - eapply Ishutq_step; eauto.
  - eapply Ipenq_step; eauto.
  - eapply Ijoin_step; eauto.
  - eapply Idw_step; eauto.
  - eapply Iaccpc_step; eauto.
  - eapply Iacc_step; eauto.
Qed.

Theorem Inv_R : forall c s, R c s -> Inv c s.
Proof. intros c s H. eapply invariant_reachable; [apply Inv_init|apply Inv_step|exact H]. Qed.

(* ---- theorems ---- *)
Lemma cnt_le1_NoDup : forall l, (forall x, cnt_in x l <= 1) -> NoDup l.
Proof. intros l H. apply (NoDup_count_occ Nat.eq_dec). exact H. Qed.

Theorem accepted_partition : forall c s, R c s ->
  (forall x, In x (acc s) -> In x (enq s)) /\
  (forall x, In x (enq s) <-> In x (queue s ++ held s ++ done s ++ disc s)) /\
  NoDup (queue s ++ held s ++ done s ++ disc s) /\ NoDup (enq s).
Proof.
  intros c s H. apply Inv_R in H. destruct H. split; [exact i_acc0|]. split; [|split].
  - intros x. destruct (i_part0 x) as [P _]. rewrite !cnt_pos_In. fold (parts s). lia.
  - apply cnt_le1_NoDup. intros x. destruct (i_part0 x) as [P Q]. fold (parts s). lia.
  - apply cnt_le1_NoDup. intros x. destruct (i_part0 x) as [P Q]. exact Q.
Qed.

Theorem limit_respected : forall c s, R c s -> limit c > 0 -> length (queue s) <= limit c /\ qsize s = length (queue s).
Proof. intros c s H L. apply Inv_R in H. destruct H. split; [destruct i_lim0; lia|exact i_q0]. Qed.

(* variant with the shutdown check: when iwtp_shutdown has joined the threads of its list, no thread is inside the worker
   loop any more, every linked task has run or was dropped by that (non-waiting) shutdown; a waiting shutdown drops nothing *)
Theorem shutdown_wait_drains : forall c s t, R c s -> chk c = true -> nthreads c > 0 -> pc (th s t) = QFreed ->
  jl (th s t) = [] -> 
  shut s = true /\ queue s = [] /\ held s = [] /\
  (forall x, In x (enq s) -> In x (done s) \/ In x (disc s)) /\
  (shut_wait s = true -> disc s = [] /\ forall x, In x (acc s) -> In x (done s)).
Proof.
  intros c s t H Hc Hn Hp Hj. destruct (accepted_partition c s H) as (_ & P & _). apply Inv_R in H. destruct H.
  assert (D := i_join0 Hc t). rewrite Hp, Hj in D.
  assert (NP : forall w, prejoin s w = false).
  { intros w. destruct (prejoin s w) eqn:E; [destruct (D w E)|reflexivity]. }
  assert (Hh : held s = []).
  { apply held_nil. intros u _. assert (X := NP u). unfold prejoin in X. unfold held1. destruct (pc (th s u)); try reflexivity; discriminate X. }
  assert (W0 : pc (th s 0) = TExit \/ pc (th s 0) = TDead).
  { assert (X := NP 0). assert (Y := i_ww0 0 (i_rw0 0 (i_regs0 0 Hn))). assert (Z := i_regs0 0 Hn). apply memb_true in Z.
    unfold prejoin in X. destruct (pc (th s 0)); try discriminate X; try discriminate Y; auto; congruence. }
  destruct (i_dead0 Hc 0 Hn W0) as [A B].
  assert (X : forall x, In x (enq s) -> In x (done s) \/ In x (disc s)).
  { intros x Hx. apply P in Hx. rewrite B, Hh in Hx. simpl in Hx. apply in_app_or in Hx. exact Hx. }
  split; [exact A|]. split; [exact B|]. split; [exact Hh|]. split; [exact X|]. intros Hw.
  assert (E : disc s = []) by (destruct i_dw0 as [E|[_ E]]; [exact E|congruence]).
  split; [exact E|]. intros x Hx. destruct (X x (i_acc0 x Hx)) as [Y|Y]; [exact Y|]. rewrite E in Y. contradiction.
Qed.

Definition Ijl (s : st) : Prop := forall t, pc (th s t) = QFreed -> jl (th s t) = [].

Lemma Ijl_step : forall c s t e s', Ijl s -> step c s t e = Some s' -> Ijl s'.
Proof.
  intros c s t e s' I H. unfold Ijl in *.
  tcases H; intros u Hu; thr_cases u; rw_facts; try discriminate; auto.
Qed.

Lemma freed_jl_nil : forall c s t, R c s -> pc (th s t) = QFreed -> jl (th s t) = [].
Proof.
  intros c s t H. revert t. change (Ijl s). eapply invariant_reachable; [| |exact H].
  - intros t Ht. rewrite init_pc in Ht. destruct (t <? nthreads c); discriminate Ht.
  - intros s0 t0 e s1 I Hs. eapply Ijl_step; eauto.
Qed.

(* the code as found (no shutdown check in iwtp_schedule): real event trace of the directed scenario
   `tp-schedule-during-shutdown` (one worker, waiting shutdown): the call is accepted after the only worker has left *)
Definition lost_cfg : cfg := mkcfg 1 0 0 false false.
Definition lost_trace : list (tid * ev) :=
  [(20, ECall 3 0 true); (20, ELock); (20, EBcast 0); (20, EUnlock);
   (0, ELock); (0, EUnlock); (0, ELock); (0, EUnlock); (0, ELock); (0, EUnlock); (0, EExit); (20, EJoin 0);
   (10, ECall 0 0 false); (10, ELock); (10, EEnq 0); (10, ESignal 0 None); (10, EUnlock); (10, ERet 0 true);
   (20, EFree); (20, ERet 0 false)].

Theorem shutdown_wait_drains_refuted : exists s,
  run st (step lost_cfg) (init lost_cfg) lost_trace = Some s /\ pc (th s 0) = TDead /\ pc (th s 10) = Idle /\
  pc (th s 20) = Idle /\ shut_wait s = true /\ In 0 (acc s) /\ ~ In 0 (done s) /\ ~ In 0 (disc s) /\ queue s = [0].
Proof.
  eexists. split; [vm_compute; reflexivity|]. vm_compute. repeat split; auto; intuition discriminate.
Qed.

(* ---- no lost wake-up: while the queue is non-empty and the mutex is free, not every worker is parked ---- *)
Definition Iwc (c : cfg) (s : st) : Prop := forall v, In v (waitc s) -> v < nthreads c.
Definition allparked (c : cfg) (s : st) : Prop := forall w, w < nthreads c -> In w (waitc s).
Definition Inlw (c : cfg) (s : st) : Prop :=
  allparked c s ->
  queue s = [] \/ match owner s with Some t => pc (th s t) = PEnq \/ pc (th s t) = PSp | None => False end.
Definition Ipsig (c : cfg) (s : st) : Prop :=
  forall t, owner s = Some t -> pc (th s t) = PSig -> ~ allparked c s.

Lemma Iix_base : forall c s t, Iix c s -> loop_pc (pc (th s t)) = true -> ix (th s t) < nthreads c -> t < nthreads c.
Proof. intros c s t I Hl Hx. apply (I t Hl). exact Hx. Qed.

Lemma Iwc_step : forall c s t e s', Iix c s -> Iwc c s -> step c s t e = Some s' -> Iwc c s'.
Proof.
  intros c s t e s' IX I H. unfold Iwc in *.
  tcases H; simpl in *; intros v Hv; try contradiction; try (apply remove1_In in Hv; destruct Hv as [Hv _]); auto;
    try (destruct Hv as [<-|Hv]; [|auto]); try lia.
  apply (Iix_base c s t IX); [rewrite E; reflexivity|assumption].
Qed.

Definition Itw (c : cfg) (s : st) : Prop := forall t, pc (th s t) = TWait -> t < nthreads c.

Lemma Itw_step : forall c s t e s', Iix c s -> Itw c s -> step c s t e = Some s' -> Itw c s'.
Proof.
  intros c s t e s' IX I H. unfold Itw in *.
  tcases H; intros u Hu; thr_cases u; rw_facts; try discriminate; auto; try lia.
  apply (Iix_base c s t IX); [rewrite E; reflexivity|assumption].
Qed.

Lemma ap_nil : forall c s, nthreads c > 0 -> waitc s = [] -> ~ allparked c s.
Proof. intros c s Hn Hw A. specialize (A 0 Hn). rewrite Hw in A. contradiction. Qed.

Lemma ap_rm : forall c s v l, v < nthreads c -> waitc s = remove1 v l -> ~ allparked c s.
Proof. intros c s v l Hv Hw A. specialize (A v Hv). rewrite Hw in A. apply remove1_not_In in A. exact A. Qed.

Lemma Ipsig_step : forall c s t e s', nthreads c > 0 -> Iwc c s -> Itw c s -> Ipsig c s -> step c s t e = Some s' -> Ipsig c s'.
Proof.
  intros c s t e s' Hn IC IW I H. unfold Ipsig in *.
  tcases H; intros u Ho Hp; thr_cases u; rw_facts; try discriminate; try congruence;
    try (eapply ap_nil; [exact Hn|simpl; try assumption; reflexivity]);
    try (eapply ap_rm; [|simpl; reflexivity]; apply IC; assumption);
    try (unfold allparked in *; simpl; eapply I; eauto; congruence).
Qed.

Lemma Inlw_step : forall c s t e s', nthreads c > 0 -> Iwc c s -> Itw c s -> Ipsig c s -> Inlw c s ->
  step c s t e = Some s' -> Inlw c s'.
Proof.
  intros c s t e s' Hn IC IW IP I H. unfold Inlw in *.
  tcases H; intros AP;
    try (exfalso; eapply ap_nil; [exact Hn| |exact AP]; simpl; try assumption; reflexivity);
    try (exfalso; eapply ap_rm; [| |exact AP]; [|simpl; reflexivity]; first [apply IC; assumption | apply IW; assumption]);
    simpl in *; try (left; assumption); try (left; reflexivity);
    try (right; unfold upd; rewrite Nat.eqb_refl; simpl; auto; fail);
    try (exfalso; eapply IP; eauto; fail);
    unfold allparked in *; simpl in *; specialize (I AP); unfold upd; rw_facts; simpl in *;
    repeat match goal with
    | |- context [match owner ?z with _ => _ end] => destruct (owner z) eqn:?
    | H : context [?a =? ?b] |- _ => destruct (Nat.eqb_spec a b); subst
    | |- context [?a =? ?b] => destruct (Nat.eqb_spec a b); subst
    end; simpl in *; rw_facts; auto;
    try (destruct I as [I|[I|I]]; try discriminate I; auto; congruence);
    try (destruct I as [I|[]]; left; exact I).
Qed.

Definition Inv2 (c : cfg) (s : st) : Prop := Inv c s /\ Iwc c s /\ Itw c s /\ Ipsig c s /\ Inlw c s.

Lemma Inv2_R : forall c s, nthreads c > 0 -> R c s -> Inv2 c s.
Proof.
  intros c s Hn H. unfold Inv2.
  eapply (invariant_reachable st (step c) (fun s => Inv c s /\ Iwc c s /\ Itw c s /\ Ipsig c s /\ Inlw c s)); [| |exact H].
  - split; [apply Inv_init|]. split; [intros v []|].
    split; [intros t Ht; rewrite init_pc in Ht; destruct (t <? nthreads c); discriminate Ht|].
    split; [intros t Ht; discriminate Ht|].
    intros A. left. reflexivity.
  - intros s0 t e s1 (V & A & B & C & D) Hs. assert (IX := i_ix c s0 V).
    split; [eapply Inv_step; eauto|]. split; [eapply Iwc_step; eauto|]. split; [eapply Itw_step; eauto|].
    split; [eapply Ipsig_step; eauto|eapply Inlw_step; eauto].
Qed.

Theorem no_lost_wakeup : forall c s, nthreads c > 0 -> R c s -> owner s = None -> queue s <> [] ->
  exists w, w < nthreads c /\ ~ In w (waitc s).
Proof.
  intros c s Hn H Ho Hq.
  destruct (Inv2_R c s Hn H) as (_ & _ & _ & _ & I).
  (* not all parked, by contradiction on the decidable finite search *)
  assert (D : forall n, (forall w, w < n -> In w (waitc s)) \/ exists w, w < n /\ ~ In w (waitc s)).
  { induction n as [|n [IH|[w [Hw1 Hw2]]]].
    - left. intros w Hw. lia.
    - destruct (in_dec Nat.eq_dec n (waitc s)) as [Hin|Hnin].
      + left. intros w Hw. destruct (Nat.eq_dec w n) as [->|Ne]; [exact Hin|apply IH; lia].
      + right. exists n. split; [lia|exact Hnin].
    - right. exists w. split; [lia|exact Hw2]. }
  destruct (D (nthreads c)) as [A|E]; [|exact E].
  exfalso. destruct (I A) as [Q|Q]; [contradiction|]. rewrite Ho in Q. exact Q.
Qed.

Theorem shutdown_wait_drains_thm : forall c s t, R c s -> chk c = true -> nthreads c > 0 -> pc (th s t) = QFreed ->
  shut s = true /\ queue s = [] /\ held s = [] /\
  (forall x, In x (enq s) -> In x (done s) \/ In x (disc s)) /\
  (shut_wait s = true -> disc s = [] /\ forall x, In x (acc s) -> In x (done s)).
Proof. intros c s t H Hc Hn Hp. eapply shutdown_wait_drains; eauto. eapply freed_jl_nil; eauto. Qed.
