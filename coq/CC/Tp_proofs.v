(* C20 - invariants of the iwtp transition system over all interleavings *)
Require Import List Bool Arith Lia Permutation.
Require Import IW.CC.Lts IW.CC.Lts_proofs IW.CC.Tp.
Import ListNotations.

Definition R (c : cfg) (s : st) : Prop := reachable st (step c) (init c) s.

Ltac dcase H :=
  repeat match type of H with
  | context [match ?x with _ => _ end] =>
      let E := fresh "E" in destruct x eqn:E; try discriminate H
  end.

Ltac norm_hyps :=
  repeat match goal with
  | H : owns _ _ = true |- _ => apply owns_true in H
  | H : free_mtx _ = true |- _ => apply free_true in H
  | H : is_nil _ = true |- _ => apply is_nil_true in H
  | H : is_nil _ = false |- _ => apply is_nil_false in H
  | H : (_ && _) = true |- _ => apply andb_true_iff in H; destruct H
  | H : (_ && _) = false |- _ => apply andb_false_iff in H; destruct H
  | H : (_ || _) = true |- _ => apply orb_true_iff in H; destruct H
  | H : (_ || _) = false |- _ => apply orb_false_iff in H; destruct H
  | H : (_ =? _) = true |- _ => apply Nat.eqb_eq in H
  | H : (_ =? _) = false |- _ => apply Nat.eqb_neq in H
  | H : (_ <? _) = true |- _ => apply Nat.ltb_lt in H
  | H : (_ <? _) = false |- _ => apply Nat.ltb_ge in H
  | H : (_ <=? _) = true |- _ => apply Nat.leb_le in H
  | H : (_ <=? _) = false |- _ => apply Nat.leb_gt in H
  | H : negb _ = true |- _ => apply negb_true_iff in H
  | H : negb _ = false |- _ => apply negb_false_iff in H
  | H : memb _ _ = false |- _ => apply memb_false in H
  | H : memb _ _ = true |- _ => apply memb_true in H
  end.

Ltac tcases H := unfold step, unlock_to in H; cbv zeta in H; dcase H; norm_hyps; inversion H; subst; clear H.
Ltac rw_facts :=
  repeat match goal with
  | H : owner _ = _ |- _ => rewrite H in *
  | H : queue _ = _ |- _ => rewrite H in *
  | H : pc (th _ _) = _ |- _ => rewrite H in *
  end.

(* ---- queue_size is the length of the queue; a bounded queue never exceeds queue_limit ---- *)
Definition Iq (s : st) : Prop := qsize s = length (queue s).
Definition Ilim (c : cfg) (s : st) : Prop := limit c = 0 \/ length (queue s) <= limit c.

Lemma Iq_step : forall c s t e s', Iq s -> step c s t e = Some s' -> Iq s'.
Proof.
  intros c s t e s' I H. unfold Iq in *. tcases H; simpl in *; rw_facts; simpl in *; rewrite ?app_length; simpl; try lia.
Qed.

Lemma Ilim_step : forall c s t e s', Iq s -> Ilim c s -> step c s t e = Some s' -> Ilim c s'.
Proof.
  intros c s t e s' IQ I H. unfold Ilim, Iq in *. destruct I as [I|I]; [left; exact I|].
  destruct (Nat.eq_dec (limit c) 0) as [Z|Z]; [left; exact Z|right].
  tcases H; unfold full in *; simpl in *; rw_facts; simpl in *; norm_hyps; rewrite ?app_length; simpl in *; try lia.
Qed.

(* ---- the loop of _worker_fn is only entered by registered workers ---- *)
Definition loop_pc (p : pcT) : bool :=
  match p with TTop | TL1 | TDeq | TU1t | TRun | TU1 | TL2 | TWait | TWoken => true | _ => false end.
Definition Iwk (c : cfg) (s : st) : Prop := forall t, loop_pc (pc (th s t)) = true -> t < nthreads c.

Lemma Iwk_step : forall c s t e s', Iwk c s -> step c s t e = Some s' -> Iwk c s'.
Proof.
  intros c s t e s' I H. unfold Iwk in *.
  tcases H; intros u Hu; simpl in *; unfold upd in *;
    repeat match goal with
    | H : context [u =? ?a] |- _ => destruct (Nat.eqb_spec u a); [subst u|]
    end; simpl in *; try discriminate; auto;
    try (apply I; rw_facts; reflexivity).
Qed.

(* ---- fresh task ids, partition ---- *)
Definition cnt_in (x : task) (l : list task) : nat := count_occ Nat.eq_dec l x.
Definition parts (c : cfg) (s : st) : list task := queue s ++ held c s ++ done s ++ disc s.
Definition pre_enq (x : thr) : bool := match pc x with Start | Locked => fn x =? 0 | _ => false end.

Definition Iused (s : st) : Prop := forall x, In x (enq s) -> In x (used s).
Definition Ifresh (s : st) : Prop :=
  forall t, pre_enq (th s t) = true ->
    In (tk (th s t)) (used s) /\ ~ In (tk (th s t)) (enq s) /\
    forall u, u <> t -> pre_enq (th s u) = true -> tk (th s u) <> tk (th s t).
Definition Ipart (c : cfg) (s : st) : Prop :=
  forall x, cnt_in x (enq s) = cnt_in x (parts c s) /\ cnt_in x (enq s) <= 1.

Ltac pre_enq_now := unfold pre_enq; rw_facts; repeat match goal with H : fn _ = _ |- _ => rewrite H end; reflexivity.

Lemma step_frame : forall c s t e s', step c s t e = Some s' ->
  (forall u, u <> t -> pre_enq (th s u) = true \/ pre_enq (th s' u) = true -> th s' u = th s u) /\
  (pc (th s t) = Idle ->
     enq s' = enq s /\
     ((pre_enq (th s' t) = true /\ ~ In (tk (th s' t)) (used s) /\ used s' = tk (th s' t) :: used s) \/
      (pre_enq (th s' t) = false /\ used s' = used s))) /\
  (pc (th s t) <> Idle ->
     used s' = used s /\ tk (th s' t) = tk (th s t) /\
     ((enq s' = enq s /\ (pre_enq (th s' t) = true -> pre_enq (th s t) = true)) \/
      (enq s' = enq s ++ [tk (th s t)] /\ pre_enq (th s t) = true /\ pre_enq (th s' t) = false))).
Proof.
  intros c s t e s' H. tcases H; simpl; unfold upd; rewrite ?Nat.eqb_refl; simpl;
  (split; [intros u Hu Hp; repeat match goal with
                           | |- context [u =? ?a] => destruct (Nat.eqb_spec u a); [subst u|]
                           | H : context [u =? ?a] |- _ => destruct (Nat.eqb_spec u a); [subst u|]
                           end; try contradiction; try reflexivity;
                           unfold pre_enq in Hp; simpl in Hp; rw_facts; simpl in Hp; destruct Hp; discriminate|]);
  (split; [intros HI; try congruence | intros HN; try congruence]);
  unfold pre_enq; simpl; rw_facts; simpl;
  repeat match goal with H : fn _ = _ |- _ => rewrite H end; simpl;
  repeat (split; [reflexivity|]);
  try first [ solve [left; repeat split; auto; try discriminate; try congruence]
        | solve [right; repeat split; auto; try (apply Nat.eqb_neq; assumption)] ].
  Show.
Abort.
