(* C20 - generic lemmas about runs of a labelled transition system and the small list/bool helpers of Lts.v *)
Require Import List Bool Arith Lia Permutation.
Require Import IW.CC.Lts.
Import ListNotations.

Section RunFacts.
  Variable S : Type.
  Variable step : S -> tid -> ev -> option S.

  Lemma run_app : forall tr1 tr2 s,
    run S step s (tr1 ++ tr2) = match run S step s tr1 with Some s' => run S step s' tr2 | None => None end.
  Proof.
    induction tr1 as [|[t e] tr1 IH]; intros tr2 s; simpl; [reflexivity|].
    destruct (step s t e); [apply IH|reflexivity].
  Qed.

  (* invariants: induction over the transition relation *)
  Lemma invariant_run : forall (P : S -> Prop),
    (forall s t e s', P s -> step s t e = Some s' -> P s') ->
    forall tr s s', P s -> run S step s tr = Some s' -> P s'.
  Proof.
    intros P Hstep. induction tr as [|[t e] tr IH]; intros s s' Hs Hrun; simpl in Hrun.
    - inversion Hrun; subst; exact Hs.
    - destruct (step s t e) as [s1|] eqn:E; [|discriminate]. eapply IH; [|exact Hrun]. eapply Hstep; eauto.
  Qed.

  Lemma invariant_reachable : forall (P : S -> Prop) init,
    P init -> (forall s t e s', P s -> step s t e = Some s' -> P s') ->
    forall s, reachable S step init s -> P s.
  Proof. intros P init H0 Hs s [tr Hr]. eapply invariant_run; eauto. Qed.

  Lemma reachable_step : forall init s t e s',
    reachable S step init s -> step s t e = Some s' -> reachable S step init s'.
  Proof.
    intros init s t e s' [tr Hr] Hs. exists (tr ++ [(t, e)]). rewrite run_app, Hr. simpl. rewrite Hs. reflexivity.
  Qed.

  Lemma reachable_init : forall init, reachable S step init init.
  Proof. intros. exists []. reflexivity. Qed.

  Lemma replay_ok_run : forall tr s n s', replay S step s tr n = (s', None) -> run S step s tr = Some s'.
  Proof.
    induction tr as [|[t e] tr IH]; intros s n s' H; simpl in *.
    - inversion H; reflexivity.
    - destruct (step s t e); [eapply IH; eauto|discriminate].
  Qed.
End RunFacts.

(* ---- helpers ---- *)
Lemma memb_true : forall x l, memb x l = true <-> In x l.
Proof.
  intros x l. unfold memb. rewrite existsb_exists. split.
  - intros [y [Hy E]]. apply Nat.eqb_eq in E. subst. exact Hy.
  - intros H. exists x. split; [exact H|apply Nat.eqb_refl].
Qed.

Lemma memb_false : forall x l, memb x l = false <-> ~ In x l.
Proof. intros x l. rewrite <- memb_true. destruct (memb x l); split; congruence. Qed.

Lemma owns_true : forall o t, owns o t = true -> o = Some t.
Proof. intros [u|] t H; simpl in H; [apply Nat.eqb_eq in H; subst; reflexivity|discriminate]. Qed.

Lemma owns_some : forall t, owns (Some t) t = true.
Proof. intros; simpl; apply Nat.eqb_refl. Qed.

Lemma free_true : forall o, free_mtx o = true -> o = None.
Proof. intros [u|] H; [discriminate|reflexivity]. Qed.

Lemma is_nil_true : forall A (l : list A), is_nil l = true -> l = [].
Proof. intros A [|a l] H; [reflexivity|discriminate]. Qed.

Lemma is_nil_false : forall A (l : list A), is_nil l = false -> l <> [].
Proof. intros A [|a l] H; [discriminate|congruence]. Qed.

Lemma upd_same : forall A (m : nat -> A) k v, upd m k v k = v.
Proof. intros. unfold upd. rewrite Nat.eqb_refl. reflexivity. Qed.

Lemma upd_other : forall A (m : nat -> A) k v k', k' <> k -> upd m k v k' = m k'.
Proof. intros. unfold upd. destruct (Nat.eqb_spec k' k); [contradiction|reflexivity]. Qed.

Lemma remove1_In : forall x y l, In y (remove1 x l) <-> In y l /\ y <> x.
Proof.
  intros x y l. unfold remove1. rewrite filter_In. split; intros [H1 H2]; split; auto.
  - intros E. subst. rewrite Nat.eqb_refl in H2. discriminate.
  - destruct (Nat.eqb_spec y x); [contradiction|reflexivity].
Qed.

Lemma remove1_not_In : forall x l, ~ In x (remove1 x l).
Proof. intros x l H. apply remove1_In in H. destruct H; congruence. Qed.
