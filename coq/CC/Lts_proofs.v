(* C20 - generic lemmas about runs of a labelled transition system and the small list/bool helpers of Lts.v *)
Require Import List Bool Arith Lia Permutation.
Require Import IW.CC.Lts.
Import ListNotations.

Section RunFacts.
  Variable S : Type.
  Variable step : S -> tid -> ev -> option S.

  Lemma run_app : forall tr1 tr2 s,
    run S step s (tr1 ++ tr2) = match run S step s tr1 with Some s' => run S step s' tr2 | None => None end.
  Proof.
    induction tr1 as [|[t e] tr1 IH]; intros tr2 s; simpl; [reflexivity|].
    destruct (step s t e); [apply IH|reflexivity].
  Qed.

  (* invariants: induction over the transition relation *)
  Lemma invariant_run : forall (P : S -> Prop),
    (forall s t e s', P s -> step s t e = Some s' -> P s') ->
    forall tr s s', P s -> run S step s tr = Some s' -> P s'.
  Proof.
    intros P Hstep. induction tr as [|[t e] tr IH]; intros s s' Hs Hrun; simpl in Hrun.
    - inversion Hrun; subst; exact Hs.
    - destruct (step s t e) as [s1|] eqn:E; [|discriminate]. eapply IH; [|exact Hrun]. eapply Hstep; eauto.
  Qed.

  Lemma invariant_reachable : forall (P : S -> Prop) init,
    P init -> (forall s t e s', P s -> step s t e = Some s' -> P s') ->
    forall s, reachable S step init s -> P s.
  Proof. intros P init H0 Hs s [tr Hr]. eapply invariant_run; eauto. Qed.

  Lemma reachable_step : forall init s t e s',
    reachable S step init s -> step s t e = Some s' -> reachable S step init s'.
  Proof.
    intros init s t e s' [tr Hr] Hs. exists (tr ++ [(t, e)]). rewrite run_app, Hr. simpl. rewrite Hs. reflexivity.
  Qed.

  Lemma reachable_init : forall init, reachable S step init init.
  Proof. intros. exists []. reflexivity. Qed.

  Lemma replay_ok_run : forall tr s n s', replay S step s tr n = (s', None) -> run S step s tr = Some s'.
  Proof.
    induction tr as [|[t e] tr IH]; intros s n s' H; simpl in *.
    - inversion H; reflexivity.
    - destruct (step s t e); [eapply IH; eauto|discriminate].
  Qed.
End RunFacts.

(* ---- helpers ---- *)
Lemma memb_true : forall x l, memb x l = true <-> In x l.
Proof.
  intros x l. unfold memb. rewrite existsb_exists. split.
  - intros [y [Hy E]]. apply Nat.eqb_eq in E. subst. exact Hy.
  - intros H. exists x. split; [exact H|apply Nat.eqb_refl].
Qed.

Lemma memb_false : forall x l, memb x l = false <-> ~ In x l.
Proof. intros x l. rewrite <- memb_true. destruct (memb x l); split; congruence. Qed.

Lemma owns_true : forall o t, owns o t = true -> o = Some t.
Proof. intros [u|] t H; simpl in H; [apply Nat.eqb_eq in H; subst; reflexivity|discriminate]. Qed.

Lemma owns_some : forall t, owns (Some t) t = true.
Proof. intros; simpl; apply Nat.eqb_refl. Qed.

Lemma free_true : forall o, free_mtx o = true -> o = None.
Proof. intros [u|] H; [discriminate|reflexivity]. Qed.

Lemma is_nil_true : forall A (l : list A), is_nil l = true -> l = [].
Proof. intros A [|a l] H; [reflexivity|discriminate]. Qed.

Lemma is_nil_false : forall A (l : list A), is_nil l = false -> l <> [].
Proof. intros A [|a l] H; [discriminate|congruence]. Qed.

Lemma upd_same : forall A (m : nat -> A) k v, upd m k v k = v.
Proof. intros. unfold upd. rewrite Nat.eqb_refl. reflexivity. Qed.

Lemma upd_other : forall A (m : nat -> A) k v k', k' <> k -> upd m k v k' = m k'.
Proof. intros. unfold upd. destruct (Nat.eqb_spec k' k); [contradiction|reflexivity]. Qed.

Lemma remove1_In : forall x y l, In y (remove1 x l) <-> In y l /\ y <> x.
Proof.
  intros x y l. unfold remove1. rewrite filter_In. split; intros [H1 H2]; split; auto.
  - intros E. subst. rewrite Nat.eqb_refl in H2. discriminate.
  - destruct (Nat.eqb_spec y x); [contradiction|reflexivity].
Qed.

Lemma remove1_not_In : forall x l, ~ In x (remove1 x l).
Proof. intros x l H. apply remove1_In in H. destruct H; congruence. Qed.

(* ---- iwulist_find_first / iwulist_remove_first_by ---- *)
Lemma filter_all_true : forall A (f : A -> bool) l, (forall x, In x l -> f x = true) -> filter f l = l.
Proof.
  induction l as [|a l IH]; simpl; intros H; [reflexivity|]. rewrite (H a (or_introl eq_refl)). f_equal. apply IH. auto.
Qed.

Lemma remove_first_sub : forall x y l, In y (remove_first x l) -> In y l.
Proof.
  intros x y l. induction l as [|a l IH]; simpl; intros H; [exact H|].
  destruct (Nat.eqb_spec a x); [right; exact H|]. destruct H as [H|H]; [left; exact H|right; apply IH; exact H].
Qed.

Lemma remove_first_keeps : forall x y l, In y l -> y <> x -> In y (remove_first x l).
Proof.
  intros x y l. induction l as [|a l IH]; simpl; intros H N; [exact H|].
  destruct (Nat.eqb_spec a x) as [->|Na].
  - destruct H as [H|H]; [congruence|exact H].
  - destruct H as [H|H]; [left; exact H|right; apply IH; assumption].
Qed.

Lemma remove_first_notin : forall x l, ~ In x l -> remove_first x l = l.
Proof.
  intros x l. induction l as [|a l IH]; simpl; intros H; [reflexivity|].
  destruct (Nat.eqb_spec a x) as [->|Na]; [exfalso; apply H; left; reflexivity|].
  f_equal. apply IH. intros Hin. apply H. right. exact Hin.
Qed.

Lemma remove_first_NoDup : forall x l, NoDup l -> NoDup (remove_first x l) /\ ~ In x (remove_first x l).
Proof.
  intros x l. induction l as [|a l IH]; simpl; intros ND; [split; [constructor|intros []]|].
  inversion ND as [|? ? Ha ND']; subst. destruct (Nat.eqb_spec a x) as [->|Na]; [split; assumption|].
  destruct (IH ND') as [I1 I2]. split.
  - constructor; [|exact I1]. intros Hin. apply Ha. eapply remove_first_sub; exact Hin.
  - intros [H|H]; [congruence|exact (I2 H)].
Qed.

Lemma remove_first_app_notin : forall x a b, ~ In x a -> remove_first x (a ++ b) = a ++ remove_first x b.
Proof.
  intros x a b. induction a as [|y a IH]; simpl; intros H; [reflexivity|].
  destruct (Nat.eqb_spec y x) as [->|Ny]; [exfalso; apply H; left; reflexivity|].
  f_equal. apply IH. intros Hin. apply H. right. exact Hin.
Qed.

Lemma remove_first_remove1 : forall x l, NoDup l -> remove_first x l = remove1 x l.
Proof.
  intros x l. induction l as [|a l IH]; simpl; intros ND; [reflexivity|].
  inversion ND as [|? ? Ha ND']; subst. destruct (Nat.eqb_spec a x) as [->|Na]; simpl.
  - symmetry. unfold remove1. apply filter_all_true. intros y Hy. destruct (Nat.eqb_spec y x); [subst; contradiction|reflexivity].
  - f_equal. apply IH. exact ND'.
Qed.

Lemma remove_first_filter : forall (f : nat -> bool) x l, NoDup l ->
  filter f (remove_first x l) = filter (fun y => f y && negb (Nat.eqb y x)) l.
Proof.
  intros f x l. induction l as [|a l IH]; simpl; intros ND; [reflexivity|].
  inversion ND as [|? ? Ha ND']; subst. destruct (Nat.eqb_spec a x) as [->|Na]; simpl.
  - rewrite andb_false_r. apply filter_ext_in. intros y Hy. destruct (Nat.eqb_spec y x); [subst; contradiction|].
    rewrite andb_true_r. reflexivity.
  - rewrite andb_true_r. destruct (f a); [f_equal|]; apply IH; assumption.
Qed.

Lemma find_first_none : forall x l, find_first x l = None <-> ~ In x l.
Proof.
  intros x l. induction l as [|a l IH]; simpl; [split; [intros _ []|reflexivity]|].
  destruct (Nat.eqb_spec a x) as [->|Na].
  - split; [discriminate|]. intros H. exfalso. apply H. left. reflexivity.
  - destruct (find_first x l) as [i|]; split; try discriminate.
    + intros H. exfalso. assert (X : ~ In x l) by (intros Hin; apply H; right; exact Hin). apply IH in X. discriminate X.
    + intros _ [H|H]; [congruence|]. apply (proj1 IH eq_refl H).
    + reflexivity.
Qed.

Lemma find_first_some : forall x l i, find_first x l = Some i -> nth_error l i = Some x /\ i < length l.
Proof.
  intros x l. induction l as [|a l IH]; simpl; intros i H; [discriminate|].
  destruct (Nat.eqb_spec a x) as [->|Na].
  - inversion H; subst. simpl. split; [reflexivity|lia].
  - destruct (find_first x l) as [j|]; [|discriminate]. inversion H; subst. destruct (IH j eq_refl) as [A B].
    simpl. split; [exact A|lia].
Qed.

Lemma find_first_in : forall x l, In x l -> exists i, find_first x l = Some i.
Proof.
  intros x l H. destruct (find_first x l) as [i|] eqn:E; [exists i; reflexivity|].
  apply find_first_none in E. contradiction.
Qed.

Lemma find_first_app_r : forall x a b, ~ In x a ->
  find_first x (a ++ b) = match find_first x b with Some i => Some (length a + i) | None => None end.
Proof.
  intros x a b. induction a as [|y a IH]; simpl; intros H; [destruct (find_first x b); reflexivity|].
  destruct (Nat.eqb_spec y x) as [->|Ny]; [exfalso; apply H; left; reflexivity|].
  rewrite IH; [destruct (find_first x b); reflexivity|]. intros Hin. apply H. right. exact Hin.
Qed.

Lemma find_first_seq : forall x n rest, x < n -> find_first x (seq 0 n ++ rest) = Some x.
Proof.
  intros x n rest H.
  assert (G : forall k m r, k <= x -> x < k + m -> find_first x (seq k m ++ r) = Some (x - k)).
  { intros k m. revert k. induction m as [|m IH]; intros k r H1 H2; [lia|]. simpl.
    destruct (Nat.eqb_spec k x) as [->|N]; [rewrite Nat.sub_diag; reflexivity|].
    rewrite (IH (S k) r); [|lia|lia]. f_equal. lia. }
  rewrite (G 0 n rest); [f_equal; lia|lia|lia].
Qed.

Lemma find_first_some_In : forall x l i, find_first x l = Some i -> In x l.
Proof. intros x l i H. apply find_first_some in H. destruct H as [H _]. eapply nth_error_In; exact H. Qed.
