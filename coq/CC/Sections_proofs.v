(* C07 - proofs for CC/Sections.v: interleavings of published sections are serialisable *)
Require Import List ZArith Bool Lia. Import ListNotations.
Require Import IW.CC.KvLocks IW.CC.Sections.
Local Open Scope Z_scope.

Lemma loc_eqb_eq : forall a b, loc_eqb a b = true <-> a = b.
Proof.
  intros [a1 a2] [b1 b2]. unfold loc_eqb. simpl. rewrite andb_true_iff, !Nat.eqb_eq. split.
  - intros [H1 H2]. subst. reflexivity.
  - intros H. inversion H. auto.
Qed.
Lemma loc_eqb_refl : forall a, loc_eqb a a = true.
Proof. intros a. apply loc_eqb_eq. reflexivity. Qed.

Lemma rd_sec_ext : forall x f g, (forall l, f l = g l) -> rd_sec x f = rd_sec x g.
Proof.
  induction x as [|a r IH]; intros f g H; simpl; [reflexivity|].
  destruct a; try (apply IH; assumption).
  - apply IH. intros l0. unfold upd. destruct (loc_eqb l0 l); auto.
  - rewrite H. f_equal. apply IH. assumption.
Qed.

(* ---- what a section does when it starts from a state with mapping = log ---- *)
Definition sec_spec (w : bool) (s : store) (x : section) : Prop :=
  forall s' o, run_sec w s x = (s', o) ->
    inv s' /\ (forall l, mp s' l = wr_sec x l (mp s l)) /\ fsz s' = fsz s + gsum_sec x /\ o = rd_sec x (mp s).

Lemma sec_char_wal : forall n x, (length x <= n)%nat -> forall s, inv s -> pub_sec x = true -> sec_spec true s x.
Proof.
  induction n as [|n IH]; intros x Hlen s Hinv Hpub s' o Hrun.
  - destruct x; [|simpl in Hlen; lia]. simpl in Hrun. inversion Hrun; subst. simpl. repeat split; auto; lia.
  - destruct x as [|a r].
    { simpl in Hrun. inversion Hrun; subst. simpl. repeat split; auto; lia. }
    destruct a as [l v|l v|l|g|].
    + (* Sto must be followed by its Log *)
      simpl in Hpub. destruct r as [|a2 r']; [discriminate|]. destruct a2 as [l2 v2|l2 v2|l2|g2|]; try discriminate.
      apply andb_true_iff in Hpub. destruct Hpub as [Hp Hpub]. apply andb_true_iff in Hp. destruct Hp as [Hl Hv].
      apply loc_eqb_eq in Hl. apply Z.eqb_eq in Hv. subst l2 v2.
      simpl in Hrun.
      destruct (run_sec true {| mp := upd (mp s) l v; dur := upd (dur s) l v; fsz := fsz s |} r') as [s2 o2] eqn:E.
      inversion Hrun; subst s' o. clear Hrun.
      assert (Hi2 : inv {| mp := upd (mp s) l v; dur := upd (dur s) l v; fsz := fsz s |}).
      { intros l0. simpl. unfold upd. destruct (loc_eqb l0 l); auto. }
      assert (Hl2 : (length r' <= n)%nat) by (simpl in Hlen; lia).
      destruct (IH r' Hl2 _ Hi2 Hpub _ _ E) as [Ha [Hb [Hc Hd]]]. simpl in Hb, Hc, Hd.
      repeat split; auto.
      * intros l0. rewrite Hb. simpl. unfold upd. destruct (loc_eqb l0 l); reflexivity.
    + simpl in Hpub. discriminate.
    + simpl in Hpub. simpl in Hrun. destruct (run_sec true s r) as [s2 o2] eqn:E.
      inversion Hrun; subst s' o. clear Hrun.
      assert (Hl2 : (length r <= n)%nat) by (simpl in Hlen; lia).
      destruct (IH r Hl2 _ Hinv Hpub _ _ E) as [Ha [Hb [Hc Hd]]].
      repeat split; auto. simpl. rewrite Hd. reflexivity.
    + simpl in Hpub. simpl in Hrun.
      destruct (run_sec true {| mp := dur s; dur := dur s; fsz := fsz s + g |} r) as [s2 o2] eqn:E.
      inversion Hrun; subst s' o. clear Hrun.
      assert (Hi2 : inv {| mp := dur s; dur := dur s; fsz := fsz s + g |}) by (intros l0; reflexivity).
      assert (Hl2 : (length r <= n)%nat) by (simpl in Hlen; lia).
      destruct (IH r Hl2 _ Hi2 Hpub _ _ E) as [Ha [Hb [Hc Hd]]]. simpl in Hb, Hc, Hd.
      repeat split; auto.
      * intros l0. rewrite Hb. simpl. rewrite <- (Hinv l0). reflexivity.
      * simpl. lia.
      * simpl. rewrite Hd. apply rd_sec_ext. intros l0. symmetry. apply Hinv.
    + simpl in Hpub. simpl in Hrun.
      destruct (run_sec true {| mp := dur s; dur := dur s; fsz := fsz s |} r) as [s2 o2] eqn:E.
      inversion Hrun; subst s' o. clear Hrun.
      assert (Hi2 : inv {| mp := dur s; dur := dur s; fsz := fsz s |}) by (intros l0; reflexivity).
      assert (Hl2 : (length r <= n)%nat) by (simpl in Hlen; lia).
      destruct (IH r Hl2 _ Hi2 Hpub _ _ E) as [Ha [Hb [Hc Hd]]]. simpl in Hb, Hc, Hd.
      repeat split; auto.
      * intros l0. rewrite Hb. simpl. rewrite <- (Hinv l0). reflexivity.
      * simpl. rewrite Hd. apply rd_sec_ext. intros l0. symmetry. apply Hinv.
Qed.

Lemma sec_char_nowal : forall x s, inv s -> sec_spec false s x.
Proof.
  induction x as [|a r IH]; intros s Hinv s' o Hrun.
  - simpl in Hrun. inversion Hrun; subst. simpl. repeat split; auto; lia.
  - destruct a as [l v|l v|l|g|]; simpl in Hrun.
    + destruct (run_sec false {| mp := upd (mp s) l v; dur := upd (dur s) l v; fsz := fsz s |} r) as [s2 o2] eqn:E.
      inversion Hrun; subst s' o. clear Hrun.
      assert (Hi2 : inv {| mp := upd (mp s) l v; dur := upd (dur s) l v; fsz := fsz s |}).
      { intros l0. simpl. unfold upd. destruct (loc_eqb l0 l); auto. }
      destruct (IH _ Hi2 _ _ E) as [Ha [Hb [Hc Hd]]]. simpl in Hb, Hc, Hd.
      repeat split; auto.
      intros l0. rewrite Hb. simpl. unfold upd. destruct (loc_eqb l0 l); reflexivity.
    + destruct (run_sec false s r) as [s2 o2] eqn:E. inversion Hrun; subst s' o. clear Hrun.
      destruct (IH _ Hinv _ _ E) as [Ha [Hb [Hc Hd]]]. repeat split; auto.
    + destruct (run_sec false s r) as [s2 o2] eqn:E. inversion Hrun; subst s' o. clear Hrun.
      destruct (IH _ Hinv _ _ E) as [Ha [Hb [Hc Hd]]]. repeat split; auto. simpl. rewrite Hd. reflexivity.
    + destruct (run_sec false {| mp := mp s; dur := dur s; fsz := fsz s + g |} r) as [s2 o2] eqn:E.
      inversion Hrun; subst s' o. clear Hrun.
      assert (Hi2 : inv {| mp := mp s; dur := dur s; fsz := fsz s + g |}) by (intros l0; apply Hinv).
      destruct (IH _ Hi2 _ _ E) as [Ha [Hb [Hc Hd]]]. simpl in Hb, Hc, Hd.
      repeat split; auto. simpl. lia.
    + destruct (run_sec false s r) as [s2 o2] eqn:E. inversion Hrun; subst s' o. clear Hrun.
      destruct (IH _ Hinv _ _ E) as [Ha [Hb [Hc Hd]]]. repeat split; auto.
Qed.

Lemma sec_char : forall w x s, good w x -> inv s -> sec_spec w s x.
Proof.
  intros [|] x s Hg Hinv.
  - apply (sec_char_wal (length x)); auto.
  - apply sec_char_nowal; auto.
Qed.

(* ---- frame and locality ---- *)
Lemma wr_sec_frame : forall x l d, existsb (act_writes l) x = false -> wr_sec x l d = d.
Proof.
  induction x as [|a r IH]; intros l d H; simpl; [reflexivity|].
  simpl in H. apply orb_false_iff in H. destruct H as [Ha Hr].
  destruct a; try (apply IH; assumption).
  simpl in Ha. rewrite Ha. apply IH. assumption.
Qed.

Lemma wr_prog_frame : forall p l d, writes p l = false -> wr_prog p l d = d.
Proof.
  induction p as [|x r IH]; intros l d H; simpl; [reflexivity|].
  unfold writes in H. simpl in H. apply orb_false_iff in H. destruct H as [Hx Hr].
  rewrite wr_sec_frame by assumption. apply IH. exact Hr.
Qed.

Lemma writes_touches_act : forall l a, act_writes l a = true -> act_touches l a = true.
Proof. intros l [ | | | | ]; simpl; auto; discriminate. Qed.
Lemma writes_touches_sec : forall x l, existsb (act_writes l) x = true -> existsb (act_touches l) x = true.
Proof.
  induction x as [|a r IH]; intros l H; simpl in *; [discriminate|].
  apply orb_true_iff in H. apply orb_true_iff. destruct H as [H|H]; [left; apply writes_touches_act; exact H | right; apply IH; exact H].
Qed.

Lemma rd_sec_local : forall x f g, (forall l, existsb (act_touches l) x = true -> f l = g l) -> rd_sec x f = rd_sec x g.
Proof.
  induction x as [|a r IH]; intros f g H; simpl; [reflexivity|].
  assert (Hr : forall l, existsb (act_touches l) r = true -> f l = g l).
  { intros l Hl. apply H. simpl. rewrite Hl. apply orb_true_r. }
  destruct a as [l v|l v|l|n|]; try (apply IH; exact Hr).
  - apply IH. intros l0 Hl0. unfold upd. destruct (loc_eqb l0 l); [reflexivity|]. apply Hr. exact Hl0.
  - rewrite (H l) by (simpl; rewrite loc_eqb_refl; reflexivity). f_equal. apply IH. exact Hr.
Qed.

Lemma rd_prog_local : forall p f g, (forall l, touches p l = true -> f l = g l) -> rd_prog p f = rd_prog p g.
Proof.
  induction p as [|x r IH]; intros f g H; simpl; [reflexivity|].
  f_equal.
  - apply rd_sec_local. intros l Hl. apply H. unfold touches. simpl. rewrite Hl. reflexivity.
  - apply IH. intros l Hl. rewrite (H l); [reflexivity|]. unfold touches in *. simpl. rewrite Hl. apply orb_true_r.
Qed.

Lemma rd_prog_ext : forall p f g, (forall l, f l = g l) -> rd_prog p f = rd_prog p g.
Proof. intros p f g H. apply rd_prog_local. intros l _. apply H. Qed.

Lemma noconflict_tl_a : forall x a b, noconflict (x :: a) b -> noconflict a b.
Proof.
  intros x a b H l. destruct (H l) as [H1 H2]. split.
  - intros Hw. apply H1. unfold writes in *. simpl. rewrite Hw. apply orb_true_r.
  - intros Hw. specialize (H2 Hw). unfold touches in *. simpl in H2. apply orb_false_iff in H2. apply H2.
Qed.
Lemma noconflict_tl_b : forall y a b, noconflict a (y :: b) -> noconflict a b.
Proof.
  intros y a b H l. destruct (H l) as [H1 H2]. split.
  - intros Hw. specialize (H1 Hw). unfold touches in *. simpl in H1. apply orb_false_iff in H1. apply H1.
  - intros Hw. apply H2. unfold writes in *. simpl. rewrite Hw. apply orb_true_r.
Qed.

(* a section of one program does not write what the other program touches *)
Lemma head_a_silent : forall x a b l, noconflict (x :: a) b -> touches b l = true -> existsb (act_writes l) x = false.
Proof.
  intros x a b l H Ht. destruct (existsb (act_writes l) x) eqn:E; [|reflexivity].
  destruct (H l) as [H1 _]. rewrite H1 in Ht; [discriminate|]. unfold writes. simpl. rewrite E. reflexivity.
Qed.
Lemma head_b_silent : forall y a b l, noconflict a (y :: b) -> touches a l = true -> existsb (act_writes l) y = false.
Proof.
  intros y a b l H Ht. destruct (existsb (act_writes l) y) eqn:E; [|reflexivity].
  destruct (H l) as [_ H2]. rewrite H2 in Ht; [discriminate|]. unfold writes. simpl. rewrite E. reflexivity.
Qed.

Lemma wr_commute : forall y a b l d, noconflict a (y :: b) -> wr_prog a l (wr_sec y l d) = wr_sec y l (wr_prog a l d).
Proof.
  intros y a b l d H. destruct (writes a l) eqn:Ew.
  - destruct (H l) as [H1 _]. specialize (H1 Ew). unfold touches in H1. simpl in H1. apply orb_false_iff in H1. destruct H1 as [Hy _].
    assert (Hn : existsb (act_writes l) y = false).
    { destruct (existsb (act_writes l) y) eqn:E; [|reflexivity]. apply writes_touches_sec in E. congruence. }
    rewrite !wr_sec_frame by exact Hn. reflexivity.
  - rewrite !wr_prog_frame by exact Ew. reflexivity.
Qed.

Lemma exec_cons : forall w c t l, exec w c (t :: l) = exec w (step w c t) l.
Proof. reflexivity. Qed.

(* ---- the result of ANY interleaving, as an expression that does not mention the interleaving ---- *)
Lemma interleave_char : forall w a b l, Interleave a b l -> Forall (good w) a -> Forall (good w) b -> noconflict a b ->
  forall c, inv (cs c) ->
    inv (cs (exec w c l)) /\
    (forall x, mp (cs (exec w c l)) x = wr_prog b x (wr_prog a x (mp (cs c) x))) /\
    fsz (cs (exec w c l)) = fsz (cs c) + gsum a + gsum b /\
    oa (exec w c l) = oa c ++ rd_prog a (mp (cs c)) /\
    ob (exec w c l) = ob c ++ rd_prog b (mp (cs c)).
Proof.
  intros w a b l HI. induction HI as [|x a b l HI IH|y a b l HI IH]; intros Ga Gb Hnc c Hinv.
  - simpl. rewrite !app_nil_r. repeat split; auto; lia.
  - rewrite exec_cons. unfold step. simpl fst. simpl snd.
    destruct (run_sec w (cs c) x) as [s' o] eqn:E.
    inversion Ga as [|? ? Gx Ga']; subst.
    destruct (sec_char w x (cs c) Gx Hinv _ _ E) as [Hi [Hm [Hf Ho]]].
    set (c1 := {| cs := s'; oa := oa c ++ o; ob := ob c |}).
    destruct (IH Ga' Gb (noconflict_tl_a _ _ _ Hnc) c1 Hi) as [R1 [R2 [R3 [R4 R5]]]].
    simpl in R2, R3, R4, R5.
    split; [exact R1|]. split; [|split; [|split]].
    + intros z. rewrite R2. rewrite Hm. reflexivity.
    + rewrite R3, Hf. simpl. lia.
    + rewrite R4, Ho. rewrite <- app_assoc. f_equal. simpl. f_equal. apply rd_prog_ext. exact Hm.
    + rewrite R5. f_equal. apply rd_prog_local. intros z Hz. rewrite Hm.
      apply wr_sec_frame. eapply head_a_silent; eauto.
  - rewrite exec_cons. unfold step. simpl fst. simpl snd.
    destruct (run_sec w (cs c) y) as [s' o] eqn:E.
    inversion Gb as [|? ? Gy Gb']; subst.
    destruct (sec_char w y (cs c) Gy Hinv _ _ E) as [Hi [Hm [Hf Ho]]].
    set (c1 := {| cs := s'; oa := oa c; ob := ob c ++ o |}).
    destruct (IH Ga Gb' (noconflict_tl_b _ _ _ Hnc) c1 Hi) as [R1 [R2 [R3 [R4 R5]]]].
    simpl in R2, R3, R4, R5.
    split; [exact R1|]. split; [|split; [|split]].
    + intros z. rewrite R2. rewrite Hm. simpl. f_equal. eapply wr_commute; eauto.
    + rewrite R3, Hf. simpl. lia.
    + rewrite R4. f_equal. apply rd_prog_local. intros z Hz. rewrite Hm.
      apply wr_sec_frame. eapply head_b_silent; eauto.
    + rewrite R5, Ho. rewrite <- app_assoc. f_equal. simpl. f_equal. apply rd_prog_ext. exact Hm.
Qed.

Lemma interleave_ab : forall a b, Interleave a b (tag false a ++ tag true b).
Proof.
  induction a as [|x a IH]; intros b; simpl.
  - induction b as [|y b IHb]; simpl; constructor. exact IHb.
  - constructor. apply IH.
Qed.
Lemma interleave_ba : forall b a, Interleave a b (tag true b ++ tag false a).
Proof.
  induction b as [|y b IH]; intros a; simpl.
  - induction a as [|x a IHa]; simpl; constructor. exact IHa.
  - constructor. apply IH.
Qed.

Lemma interleavings_agree : forall w a b l1 l2 s0, inv s0 -> Forall (good w) a -> Forall (good w) b -> noconflict a b ->
  Interleave a b l1 -> Interleave a b l2 ->
  same (cs (exec w (start s0) l1)) (cs (exec w (start s0) l2)) /\
  oa (exec w (start s0) l1) = oa (exec w (start s0) l2) /\ ob (exec w (start s0) l1) = ob (exec w (start s0) l2).
Proof.
  intros w a b l1 l2 s0 Hinv Ga Gb Hnc H1 H2.
  destruct (interleave_char w a b l1 H1 Ga Gb Hnc (start s0) Hinv) as [A1 [A2 [A3 [A4 A5]]]].
  destruct (interleave_char w a b l2 H2 Ga Gb Hnc (start s0) Hinv) as [B1 [B2 [B3 [B4 B5]]]].
  split; [|split; congruence].
  split; [|split].
  - intros l. rewrite A2, B2. reflexivity.
  - intros l. rewrite <- (A1 l), <- (B1 l), A2, B2. reflexivity.
  - lia.
Qed.

Theorem sections_serialisable : forall w a b l s0,
  inv s0 -> Forall (good w) a -> Forall (good w) b -> noconflict a b -> Interleave a b l ->
  let c := exec w (start s0) l in
  let cab := exec w (start s0) (tag false a ++ tag true b) in
  let cba := exec w (start s0) (tag true b ++ tag false a) in
  inv (cs c) /\
  (same (cs c) (cs cab) /\ oa c = oa cab /\ ob c = ob cab) /\
  (same (cs c) (cs cba) /\ oa c = oa cba /\ ob c = ob cba).
Proof.
  intros w a b l s0 Hinv Ga Gb Hnc HI. simpl. split; [|split].
  - apply (interleave_char w a b l HI Ga Gb Hnc (start s0) Hinv).
  - apply (interleavings_agree w a b); auto. apply interleave_ab.
  - apply (interleavings_agree w a b); auto. apply interleave_ba.
Qed.

(* ---- the lock discipline gives the footprint condition ---- *)
Lemma writes_inv : forall p l, writes p l = true -> exists x v, In x p /\ In (Sto l v) x.
Proof.
  intros p l H. unfold writes in H. apply existsb_exists in H. destruct H as [x [Hx H]].
  apply existsb_exists in H. destruct H as [a [Ha H]].
  destruct a as [l' v| | | |]; simpl in H; try discriminate. apply loc_eqb_eq in H. subst l'. exists x, v. auto.
Qed.
Lemma touches_inv : forall p l, touches p l = true ->
  (exists x a, In x p /\ In a x /\ (exists v, a = Sto l v \/ a = Log l v)) \/ (exists x, In x p /\ In (Get l) x).
Proof.
  intros p l H. unfold touches in H. apply existsb_exists in H. destruct H as [x [Hx H]].
  apply existsb_exists in H. destruct H as [a [Ha H]].
  destruct a as [l' v|l' v|l'| |]; simpl in H; try discriminate; apply loc_eqb_eq in H; subst l'.
  - left. exists x, (Sto l v). split; [exact Hx|]. split; [exact Ha|]. exists v. left. reflexivity.
  - left. exists x, (Log l v). split; [exact Hx|]. split; [exact Ha|]. exists v. right. reflexivity.
  - right. exists x. auto.
Qed.

Lemma lock_eqb_refl : forall l, lock_eqb l l = true.
Proof. intros [a b]. unfold lock_eqb. simpl. rewrite !Nat.eqb_refl. reflexivity. Qed.

Lemma compat_wr_left : forall a b d m, compatible a b = true -> In (dblock d, KvLocks.Wr) a -> In (dblock d, m) b -> False.
Proof.
  intros a b d m H Ha Hb. unfold compatible in H. rewrite forallb_forall in H. specialize (H _ Ha).
  rewrite forallb_forall in H. specialize (H _ Hb). unfold compat1 in H. simpl in H. rewrite lock_eqb_refl in H. discriminate.
Qed.
Lemma compat_wr_right : forall a b d m, compatible a b = true -> In (dblock d, m) a -> In (dblock d, KvLocks.Wr) b -> False.
Proof.
  intros a b d m H Ha Hb. unfold compatible in H. rewrite forallb_forall in H. specialize (H _ Ha).
  rewrite forallb_forall in H. specialize (H _ Hb). unfold compat1 in H. simpl in H. rewrite lock_eqb_refl in H.
  destruct m; discriminate.
Qed.

Lemma locked_act : forall o x a, well_locked o -> In x (body o) -> In a x -> act_locked (outer o) a.
Proof.
  intros o x a H Hx Ha. unfold well_locked in H. rewrite Forall_forall in H. specialize (H _ Hx).
  rewrite Forall_forall in H. apply H. exact Ha.
Qed.

Lemma half_noconflict : forall A B l, well_locked A -> well_locked B ->
  (forall d m, In (dblock d, KvLocks.Wr) (outer A) -> In (dblock d, m) (outer B) -> False) ->
  writes (body A) l = true -> touches (body B) l = false.
Proof.
  intros A B l WA WB Hex Hw. destruct (touches (body B) l) eqn:Et; [|reflexivity]. exfalso.
  apply writes_inv in Hw. destruct Hw as [x [v [Hx Hin]]].
  pose proof (locked_act A x _ WA Hx Hin) as LA. simpl in LA.
  apply touches_inv in Et. destruct Et as [[y [a [Hy [Ha [v' Hor]]]]]|[y [Hy Hg]]].
  - pose proof (locked_act B y a WB Hy Ha) as LB. destruct Hor as [-> | ->]; simpl in LB; eapply Hex; eauto.
  - pose proof (locked_act B y _ WB Hy Hg) as LB. simpl in LB. destruct LB as [LB|LB]; eapply Hex; eauto.
Qed.

Theorem locks_noconflict : forall A B, well_locked A -> well_locked B -> compatible (outer A) (outer B) = true ->
  noconflict (body A) (body B).
Proof.
  intros A B WA WB Hc l. split.
  - apply half_noconflict; auto. intros d m Ha Hb. eapply compat_wr_left; eauto.
  - apply half_noconflict; auto. intros d m Hb Ha. eapply compat_wr_right; eauto.
Qed.

Theorem ops_serialisable : forall w A B l s0,
  inv s0 -> Forall (good w) (body A) -> Forall (good w) (body B) ->
  well_locked A -> well_locked B -> compatible (outer A) (outer B) = true -> Interleave (body A) (body B) l ->
  let c := exec w (start s0) l in
  let cab := exec w (start s0) (tag false (body A) ++ tag true (body B)) in
  let cba := exec w (start s0) (tag true (body B) ++ tag false (body A)) in
  inv (cs c) /\
  (same (cs c) (cs cab) /\ oa c = oa cab /\ ob c = ob cab) /\
  (same (cs c) (cs cba) /\ oa c = oa cba /\ ob c = ob cba).
Proof.
  intros w A B l s0 Hinv Ga Gb WA WB Hc HI. apply sections_serialisable; auto. apply locks_noconflict; auto.
Qed.

(* ---- sharpness: the store in one section, its log record in the next (the seeded change) ---- *)
Theorem unpublished_refuted :
  exists a b l, noconflict a b /\ Interleave a b l /\ inv zero_store /\
    (exists x, Forall (good false) a /\ ~ good true x /\ In x a) /\
    mp (cs (exec true (start zero_store) l)) (0%nat, 0%nat) <> mp (cs (exec true (start zero_store) (tag false a ++ tag true b))) (0%nat, 0%nat) /\
    mp (cs (exec true (start zero_store) l)) (0%nat, 0%nat) <> mp (cs (exec true (start zero_store) (tag true b ++ tag false a))) (0%nat, 0%nat) /\
    ~ inv (cs (exec true (start zero_store) l)).
Proof.
  exists late_a, late_b, late_sched. split; [|split; [|split; [|split; [|split; [|split]]]]].
  - intros l. split; intros H.
    + reflexivity.
    + unfold late_b, writes in H. simpl in H. discriminate.
  - unfold late_a, late_b, late_sched. repeat constructor.
  - intros l. reflexivity.
  - exists [Sto (0%nat, 0%nat) 7]. split; [|split].
    + unfold late_a. repeat constructor.
    + unfold good. simpl. discriminate.
    + unfold late_a. simpl. auto.
  - vm_compute. discriminate.
  - vm_compute. discriminate.
  - intros H. specialize (H (0%nat, 0%nat)). vm_compute in H. discriminate.
Qed.

(* ---- traces of the implementation ---- *)
Definition is_unguarded_log (e : ev * bool * nat) : bool :=
  match e with (EA CWal _, false, _) => true | _ => false end.

Lemma pub_stores_nil : pub_sec (stores_of []) = true.
Proof. reflexivity. Qed.

Lemma segments_good : forall L cur, Forall (fun e => is_unguarded_log e = false) L -> pub_sec cur = true ->
  Forall (fun x => pub_sec x = true) (segments L cur []).
Proof.
  induction L as [|e r IH]; intros cur HL Hc.
  - simpl. constructor; [exact Hc|constructor].
  - inversion HL as [|? ? He Hr]; subst.
    destruct e as [[e g] n]. destruct e as [c wr|c].
    + destruct c; simpl; try (apply IH; assumption).
      destruct g.
      * apply IH; [exact Hr|]. simpl. rewrite loc_eqb_refl. simpl. exact Hc.
      * simpl in He. discriminate.
    + destruct c; simpl; apply Forall_app; split; try (apply IH; [exact Hr|reflexivity]); constructor; try exact Hc; constructor.
Qed.

Lemma filter_nil_forall : forall {X} (f : X -> bool) l, length (filter f l) = 0%nat -> Forall (fun e => f e = false) l.
Proof.
  induction l as [|a r IH]; intros H; [constructor|].
  simpl in H. destruct (f a) eqn:E; [simpl in H; discriminate|]. constructor; auto.
Qed.

Lemma compile_good : forall tr, unguarded_logs tr = 0%nat -> Forall (good true) (compile tr).
Proof.
  intros tr H. unfold unguarded_logs in H. apply filter_nil_forall in H.
  unfold compile. apply segments_good; [|reflexivity].
  apply Forall_forall. intros e He. rewrite Forall_forall in H. apply H. apply in_rev. exact He.
Qed.

Lemma exec_inv : forall w l c, Forall (fun t => good w (snd t)) l -> inv (cs c) -> inv (cs (exec w c l)).
Proof.
  induction l as [|t r IH]; intros c HL Hinv; [exact Hinv|].
  inversion HL as [|? ? Ht Hr]; subst. rewrite exec_cons. apply IH; [exact Hr|].
  unfold step. destruct (run_sec w (cs c) (snd t)) as [s' o] eqn:E.
  destruct (sec_char w _ _ Ht Hinv _ _ E) as [Hi _]. destruct (fst t); exact Hi.
Qed.

Lemma Forall_tag : forall w b p, Forall (good w) p -> Forall (fun t => good w (snd t)) (tag b p).
Proof. intros w b p H. unfold tag. apply Forall_forall. intros t Ht. apply in_map_iff in Ht. destruct Ht as [x [<- Hx]]. simpl. rewrite Forall_forall in H. auto. Qed.

Lemma Forall_firstn_skipn : forall {X} (P : X -> Prop) n (l : list X), Forall P l -> Forall P (firstn n l) /\ Forall P (skipn n l).
Proof. intros X P n l H. rewrite <- (firstn_skipn n l) in H. apply Forall_app in H. exact H. Qed.

Lemma sched_good : forall w p k, Forall (good w) p -> Forall (fun t => good w (snd t)) (preempt_sched p k).
Proof.
  intros w p k H. destruct (Forall_firstn_skipn (good w) k p H) as [H1 H2].
  unfold preempt_sched. apply Forall_app. split; [apply Forall_tag; exact H1|].
  apply Forall_app. split; [|apply Forall_tag; exact H2].
  constructor; [|constructor]. simpl. destruct w; reflexivity.
Qed.

Lemma stale_false_of_inv : forall w tr k, inv (cs (exec w (start zero_store) (preempt_sched (compile tr) k))) -> stale_after w tr k = false.
Proof.
  intros w tr k H. unfold stale_after.
  destruct (existsb _ _) eqn:E; [|reflexivity].
  apply existsb_exists in E. destruct E as [n [_ Hn]]. rewrite (H (rec_loc n)) in Hn. rewrite Z.eqb_refl in Hn. discriminate.
Qed.

Theorem guarded_trace_never_stale : forall tr k, unguarded_logs tr = 0%nat -> stale_after true tr k = false.
Proof.
  intros tr k H. apply stale_false_of_inv. apply exec_inv; [|intros l; reflexivity].
  apply sched_good. apply compile_good. exact H.
Qed.

Lemma all_good_nowal : forall p, Forall (good false) p.
Proof. intros p. apply Forall_forall. intros x _. exact I. Qed.

Theorem nowal_never_stale : forall tr k, stale_after false tr k = false.
Proof.
  intros tr k. apply stale_false_of_inv. apply exec_inv; [|intros l; reflexivity].
  apply sched_good. apply all_good_nowal.
Qed.

(* the lock events of the unchanged _sblk_destroy (node removal, the page still holds other nodes): store into the
   mapping, release_mmap, then the log record with no lock held that excludes a remap *)
Definition sblk_destroy_trace : list ev :=
  [EA CStore false; EA CDb true; EA CExf false; ER CExf; EA CWal true; ER CWal; EA CFsm true; EA CExf false; ER CExf;
   EA CWal true; ER CWal; ER CFsm; ER CDb; ER CStore].
Theorem unguarded_trace_refuted : exists tr k, unguarded_logs tr = 1%nat /\ stale_after true tr k = true.
Proof. exists sblk_destroy_trace, 1%nat. split; vm_compute; reflexivity. Qed.

(* ---- the small-step system with outer locks ---- *)
Lemma is_nil_true : forall {X} (l : list X), is_nil l = true -> l = [].
Proof. intros X [|a r] H; [reflexivity|discriminate]. Qed.

Lemma lrun_interleave : forall w cmp sched s f, lrun w cmp sched s = Some f -> finished f = true ->
  exists l, Interleave (rest (ta s)) (rest (tb s)) l /\ lc f = exec w (lc s) l.
Proof.
  intros w cmp. induction sched as [|who r IH]; intros s f Hrun Hfin.
  - simpl in Hrun. inversion Hrun; subst f. unfold finished in Hfin. apply andb_true_iff in Hfin. destruct Hfin as [Ha Hb].
    apply is_nil_true in Ha. apply is_nil_true in Hb. rewrite Ha, Hb. exists []. split; [constructor|reflexivity].
  - simpl in Hrun. destruct (lstep w cmp s who) as [s'|] eqn:E; [|discriminate].
    destruct (IH s' f Hrun Hfin) as [l' [HI He]].
    unfold lstep in E. destruct who.
    + destruct (rest (tb s)) as [|y b'] eqn:Eb; [discriminate|]. destruct (may_run cmp (tb s) (ta s)); [|discriminate].
      inversion E; subst s'. simpl in HI, He. exists ((true, y) :: l'). split; [constructor; exact HI|]. rewrite exec_cons. exact He.
    + destruct (rest (ta s)) as [|x a'] eqn:Ea; [discriminate|]. destruct (may_run cmp (ta s) (tb s)); [|discriminate].
      inversion E; subst s'. simpl in HI, He. exists ((false, x) :: l'). split; [constructor; exact HI|]. rewrite exec_cons. exact He.
Qed.

Lemma lrun_serial : forall w sched s f, lrun w false sched s = Some f -> finished f = true ->
  holding (ta s) && holding (tb s) = false ->
  (lc f = exec w (lc s) (tag false (rest (ta s)) ++ tag true (rest (tb s))) \/
   lc f = exec w (lc s) (tag true (rest (tb s)) ++ tag false (rest (ta s)))) /\
  (holding (ta s) = true -> lc f = exec w (lc s) (tag false (rest (ta s)) ++ tag true (rest (tb s)))) /\
  (holding (tb s) = true -> lc f = exec w (lc s) (tag true (rest (tb s)) ++ tag false (rest (ta s)))).
Proof.
  intros w. induction sched as [|who r IH]; intros s f Hrun Hfin HJ.
  - simpl in Hrun. inversion Hrun; subst f. unfold finished in Hfin. apply andb_true_iff in Hfin. destruct Hfin as [Ha Hb].
    apply is_nil_true in Ha. apply is_nil_true in Hb. rewrite Ha, Hb. simpl. auto.
  - simpl in Hrun. destruct (lstep w false s who) as [s'|] eqn:E; [|discriminate].
    unfold lstep in E. destruct who.
    + (* B takes a step *)
      destruct (rest (tb s)) as [|y b'] eqn:Eb; [discriminate|].
      destruct (may_run false (tb s) (ta s)) eqn:Em; [|discriminate]. inversion E; subst s'. clear E.
      assert (Hha : holding (ta s) = false).
      { destruct (holding (ta s)) eqn:Eh; [|reflexivity]. unfold may_run in Em. rewrite Eh in Em. simpl in Em.
        rewrite !orb_false_r in Em.
        assert (Hh : holding (tb s) = true) by (unfold holding; rewrite Em, Eb; reflexivity).
        rewrite ?Eh, Hh in HJ. simpl in HJ. discriminate. }
      destruct (IH _ f Hrun Hfin) as [Hor [Hia Hib]]; [simpl; rewrite Hha; reflexivity|].
      cbn [lc ta tb rest started] in Hor, Hia, Hib.
      assert (HBA : lc f = exec w (lc s) (tag true (y :: b') ++ tag false (rest (ta s)))).
      { replace (tag true (y :: b') ++ tag false (rest (ta s))) with ((true, y) :: (tag true b' ++ tag false (rest (ta s)))) by reflexivity.
        rewrite exec_cons. destruct b' as [|y2 b2].
        - change (tag true []) with (@nil (bool * section)) in *. rewrite app_nil_r in Hor. rewrite app_nil_l in *. destruct Hor; assumption.
        - apply Hib. reflexivity. }
      split; [right; exact HBA|]. split; [intros H; rewrite Hha in H; discriminate|intros _; exact HBA].
    + destruct (rest (ta s)) as [|x a'] eqn:Ea; [discriminate|].
      destruct (may_run false (ta s) (tb s)) eqn:Em; [|discriminate]. inversion E; subst s'. clear E.
      assert (Hhb : holding (tb s) = false).
      { destruct (holding (tb s)) eqn:Eh; [|reflexivity]. unfold may_run in Em. rewrite Eh in Em. simpl in Em.
        rewrite !orb_false_r in Em.
        assert (Hh : holding (ta s) = true) by (unfold holding; rewrite Em, Ea; reflexivity).
        rewrite ?Eh, Hh in HJ. simpl in HJ. discriminate. }
      destruct (IH _ f Hrun Hfin) as [Hor [Hia Hib]]; [simpl; rewrite Hhb; apply andb_false_r|].
      cbn [lc ta tb rest started] in Hor, Hia, Hib.
      assert (HAB : lc f = exec w (lc s) (tag false (x :: a') ++ tag true (rest (tb s)))).
      { replace (tag false (x :: a') ++ tag true (rest (tb s))) with ((false, x) :: (tag false a' ++ tag true (rest (tb s)))) by reflexivity.
        rewrite exec_cons. destruct a' as [|x2 a2].
        - change (tag false []) with (@nil (bool * section)) in *. rewrite app_nil_r in Hor. rewrite app_nil_l in *. destruct Hor; assumption.
        - apply Hia. reflexivity. }
      split; [left; exact HAB|]. split; [intros _; exact HAB|intros H; rewrite Hhb in H; discriminate].
Qed.

Lemma same_refl : forall s, same s s.
Proof. intros s. repeat split; reflexivity. Qed.

Theorem two_ops_serialisable : forall w A B sched s0 f,
  inv s0 -> Forall (good w) (body A) -> Forall (good w) (body B) -> well_locked A -> well_locked B ->
  run_ops w A B sched s0 = Some f -> finished f = true ->
  let cab := exec w (start s0) (tag false (body A) ++ tag true (body B)) in
  let cba := exec w (start s0) (tag true (body B) ++ tag false (body A)) in
  (same (cs (lc f)) (cs cab) /\ oa (lc f) = oa cab /\ ob (lc f) = ob cab) \/
  (same (cs (lc f)) (cs cba) /\ oa (lc f) = oa cba /\ ob (lc f) = ob cba).
Proof.
  intros w A B sched s0 f Hinv Ga Gb WA WB Hrun Hfin. simpl. unfold run_ops in Hrun.
  destruct (compatible (outer A) (outer B)) eqn:Ec.
  - destruct (lrun_interleave _ _ _ _ _ Hrun Hfin) as [l [HI He]]. simpl in HI, He.
    destruct (ops_serialisable w A B l s0 Hinv Ga Gb WA WB Ec HI) as [_ [H1 _]]. left. rewrite He. exact H1.
  - destruct (lrun_serial _ _ _ _ Hrun Hfin) as [Hor _]; [reflexivity|]. simpl in Hor.
    destruct Hor as [H|H]; [left|right]; rewrite H; repeat split; reflexivity.
Qed.
