(* C20 - infinite executions of a labelled transition system and the fairness hypothesis of the liveness theorems.
   Definitions only (no proofs in this file).

   An execution is an infinite sequence of states with an optional label per position: `Some (t, e)` = thread t performs
   the transition e, `None` = nothing happens at this position (stuttering; a finite run is an execution that stutters
   for ever from some point on).

   [must s t e] says which transitions a thread is OBLIGED to take eventually.  The instances (Stw_live.must, Tp_live.must)
   exclude exactly two kinds of transition: starting a new API call (the environment is free never to call again) and the
   return of a condition wait that nobody has signalled (a spurious wake-up is allowed at any time but never promised).
   Everything else - taking the mutex when it is free, the next statement inside a critical section, the return of a task
   body, the return of a SIGNALLED wait, join of a finished thread - is obligatory.

   [fair x]:  whenever a thread has an obligatory transition that is enabled at position i, that thread performs some
   transition at a position j >= i.  In words: every enabled thread eventually steps (the scheduler does not starve a
   thread, the mutex does not starve a contender: a thread that finds the mutex free at some moment will get it at some
   later moment even if other threads take it in between), and a signalled waiter is eventually scheduled.
   This is stronger than weak fairness ([weakly_fair]: only a thread whose obligatory transition stays enabled for ever
   must step) - which is not enough for a mutex: two clients that take the mutex alternately leave the worker enabled only
   at isolated moments, so weak fairness never obliges it to move - and it is implied by strong fairness of every thread. *)
Require Import List Arith.
Require Import IW.CC.Lts.

Section Fair.
  Variable S : Type.
  Variable step : S -> tid -> ev -> option S.
  Variable must : S -> tid -> ev -> bool.

  Record exec := mkexec { st_at : nat -> S; lab : nat -> option (tid * ev) }.

  Definition is_exec (x : exec) : Prop :=
    forall i, match lab x i with
              | Some (t, e) => step (st_at x i) t e = Some (st_at x (Datatypes.S i))
              | None => st_at x (Datatypes.S i) = st_at x i
              end.

  Definition obliged (s : S) (t : tid) : Prop := exists e, must s t e = true /\ step s t e <> None.

  Definition steps_at (x : exec) (i : nat) (t : tid) : Prop := exists e, lab x i = Some (t, e).

  Definition fair (x : exec) : Prop :=
    forall t i, obliged (st_at x i) t -> exists j, i <= j /\ steps_at x j t.

  Definition weakly_fair (x : exec) : Prop :=
    forall t i, (forall j, i <= j -> obliged (st_at x j) t) -> exists j, i <= j /\ steps_at x j t.

  Definition eventually (x : exec) (i : nat) (P : S -> Prop) : Prop := exists j, i <= j /\ P (st_at x j).

  (* the execution that performs the finite trace tr from s0 and then stutters for ever *)
  Fixpoint state_after (s : S) (tr : list (tid * ev)) (i : nat) : S :=
    match i, tr with
    | Datatypes.S i', (t, e) :: r => match step s t e with Some s' => state_after s' r i' | None => s end
    | _, _ => s
    end.
  Definition finite_exec (s0 : S) (tr : list (tid * ev)) : exec :=
    mkexec (state_after s0 tr) (fun i => nth_error tr i).

  (* the execution that follows an infinite stream of labels from s0 as long as they are transitions *)
  Fixpoint state_along (s0 : S) (l : nat -> tid * ev) (i : nat) : S :=
    match i with
    | 0 => s0
    | Datatypes.S i' => let s := state_along s0 l i' in
                        match step s (fst (l i')) (snd (l i')) with Some s' => s' | None => s end
    end.
  Definition stream_exec (s0 : S) (l : nat -> tid * ev) : exec :=
    mkexec (state_along s0 l) (fun i => Some (l i)).
End Fair.
