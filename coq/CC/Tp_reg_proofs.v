(* C20 - iwtp.c: the registry tp->threads (after fix b174074 overflow threads are pushed to it).
   The registry is, in every reachable state, exactly the list of the threads started with _worker_fn, in creation order,
   minus the overflow threads that have unregistered and detached themselves; the index cached by a thread in its prologue
   may be stale but still tells pool threads from overflow threads; iwtp_shutdown joins exactly the registry, and after
   free(tp) no thread of the pool can touch the executor.  Removing by the cached index would be wrong (witness). *)
Require Import List Bool Arith Lia.
Require Import IW.CC.Lts IW.CC.Lts_proofs IW.CC.Tp IW.CC.Tp_proofs.
Import ListNotations.

Definition live (s : st) (t : tid) : bool := negb (det (th s t)).

Definition Ireg (c : cfg) (s : st) : Prop := reg c = true -> regs s = filter (live s) (workers s).
Definition Idet (c : cfg) (s : st) : Prop :=
  forall t, det (th s t) = true -> In t (workers s) /\ nthreads c <= t /\ (pc (th s t) = TExit \/ pc (th s t) = TDead).

Lemma remove_first_of_filter : forall (f : nat -> bool) x l, NoDup l ->
  remove_first x (filter f l) = filter (fun y => f y && negb (y =? x)) l.
Proof.
  intros f x l. induction l as [|a l IH]; simpl; intros ND; [reflexivity|].
  inversion ND as [|? ? Ha ND']; subst. destruct (f a) eqn:Fa; simpl.
  - destruct (Nat.eqb_spec a x) as [->|Na]; simpl.
    + apply filter_ext_in. intros y Hy. destruct (Nat.eqb_spec y x); [subst; contradiction|]. rewrite andb_true_r. reflexivity.
    + f_equal. apply IH. exact ND'.
  - apply IH. exact ND'.
Qed.

Lemma Idet_step : forall c s t e s', Iwk s -> Irw s -> Iix c s -> Idet c s -> step c s t e = Some s' -> Idet c s'.
Proof.
  intros c s t e s' IK IR IX I H. unfold Idet in *.
  tcases H; intros u Hu; assert (Iu := I u); assert (It := I t); thr_cases u; rw_facts; try discriminate Hu;
    try (destruct (Iu Hu) as (A & B & [C|C]); try congruence; repeat split; auto; try (apply in_or_app; left; exact A); fail);
    try (destruct (It Hu) as (A & B & [C|C]); try congruence; repeat split; auto; try (apply in_or_app; left; exact A); fail).
  split; [apply IR, IK; rewrite E; reflexivity|]. split; [|left; reflexivity].
  apply (Iix_ovf c s t IX); [rewrite E; reflexivity|assumption].
Qed.

Lemma live_same : forall (s s' : st) l, (forall u, In u l -> det (th s' u) = det (th s u)) -> filter (live s') l = filter (live s) l.
Proof. intros s s' l H. apply filter_ext_in. intros u Hu. unfold live. rewrite (H u Hu). reflexivity. Qed.

Lemma Ireg_step : forall c s t e s', Iww s -> Inw s -> Ireg c s -> step c s t e = Some s' -> Ireg c s'.
Proof.
  intros c s t e s' IW ND I H. unfold Ireg in *. intros Hr. specialize (I Hr).
  tcases H; simpl; try congruence;
    try (rewrite I; symmetry; apply live_same; intros u Hu; simpl; unfold upd;
         destruct (Nat.eqb_spec u t) as [->|Nu]; simpl; try reflexivity;
         (* a thread that starts a call is not a worker *)
         assert (X := IW _ Hu); rewrite E in X; discriminate X).
  - (* spawn *)
    match goal with |- _ = filter (live ?s1) _ => set (s' := s1) end.
    assert (L : live s' child = true).
    { unfold live, s'. simpl. unfold upd. destruct (Nat.eqb_spec child t); [contradiction|]. rewrite Nat.eqb_refl. reflexivity. }
    rewrite filter_app. simpl. rewrite L.
    rewrite I. f_equal. symmetry. apply live_same. intros u Hu. simpl. unfold upd.
    destruct (Nat.eqb_spec u t) as [->|Nu]; simpl; [reflexivity|].
    destruct (Nat.eqb_spec u child) as [->|Nu2]; simpl; [|reflexivity].
    assert (X := IW _ Hu). rewrite E4 in X. discriminate X.
  - (* unregister *)
    rewrite I. rewrite remove_first_of_filter by exact ND. apply filter_ext_in. intros u Hu. unfold live. simpl. unfold upd.
    destruct (Nat.eqb_spec u t) as [->|Nu]; simpl; [rewrite andb_false_r; reflexivity|rewrite andb_true_r; reflexivity].
Qed.


(* a pool thread of iwtp_start finds exactly its own number *)
Definition Iixb (c : cfg) (s : st) : Prop := forall t, loop_pc (pc (th s t)) = true -> t < nthreads c -> ix (th s t) = t.

Lemma Iixb_step : forall c s t e s', Ipre c s -> Iixb c s -> step c s t e = Some s' -> Iixb c s'.
Proof.
  intros c s t e s' IP I H. unfold Iixb in *.
  tcases H; intros u Hu Hlt; assert (Iu := I u); assert (It := I t); thr_cases u; rw_facts; try discriminate; auto;
    try (apply It; [reflexivity|assumption]).
  destruct IP as (rest & Er & Hr). rewrite Er in E2. rewrite find_first_seq in E2 by exact Hlt. inversion E2; reflexivity.
Qed.

(* ---- iwtp_shutdown: the flag is set before free; while it joins, every thread that has not detached itself is in the join
        list or already dead; after free no thread is, or will be, inside _worker_fn's loop ---- *)
Definition Ifs (s : st) : Prop := freed s = true -> shut s = true.
Definition Ijd (c : cfg) (s : st) : Prop :=
  chk c = true -> reg c = true ->
  forall t, match pc (th s t) with
            | QB | QJoin | QFreed => forall w, In w (workers s) -> det (th s w) = false -> In w (jl (th s t)) \/ pc (th s w) = TDead
            | _ => True
            end.
Definition Ifr (c : cfg) (s : st) : Prop := chk c = true -> freed s = true -> forall w, prejoin s w = false.

Lemma Ifs_step : forall c s t e s', Ishutq s -> Ifs s -> step c s t e = Some s' -> Ifs s'.
Proof.
  intros c s t e s' IS I H. unfold Ifs in *. assert (St := IS t).
  tcases H; simpl in *; intros Hf; auto; try (rewrite E in St; exact St); try (apply I in Hf; congruence).
Qed.

Lemma Ijd_step : forall c s t e s', Iww s -> Ireg c s -> Ishutq s -> Ipenq c s -> Ijd c s -> step c s t e = Some s' -> Ijd c s'.
Proof.
  intros c s t e s' IW IRg IS IP I H. unfold Ijd in *. intros Hc Hr u. specialize (I Hc Hr). specialize (IP Hc). specialize (IRg Hr).
  assert (Iu := I u); assert (It := I t); assert (Su := IS u).
  tcases H; thr_cases u; rw_facts; auto;
    try (destruct (pc (th s u)) eqn:Eu; auto); intros w Hw Hd; simpl in *; unfold upd in *;
    repeat match goal with
           | H : context [w =? ?a] |- _ => destruct (Nat.eqb_spec w a); [subst w|]
           | |- context [w =? ?a] => destruct (Nat.eqb_spec w a); [subst w|]
           end; simpl in *; rw_facts;
    try (exfalso; assert (X := IP _ E E0); congruence);
    try (exfalso; assert (X := IP t E eq_refl); congruence);
    try (destruct (Iu w Hw Hd) as [A|A]; [left; exact A|right; congruence]; fail);
    try (destruct (It w Hw Hd) as [A|A]; [left; exact A|right; congruence]; fail);
    try (destruct (Iu _ Hw Hd) as [A|A]; [left; exact A|right; congruence]; fail);
    try (destruct (It _ Hw Hd) as [A|A]; [left; exact A|right; congruence]; fail);
    try (right; reflexivity); try (right; assumption);
    try discriminate Su; try discriminate Hd;
    try (exfalso; assert (X := IW _ Hw); rw_facts; discriminate X);
    try (left; rewrite IRg; apply filter_In; split; [exact Hw|unfold live; rewrite Hd; reflexivity]).
  destruct (It w Hw Hd) as [[A|A]|A]; [right; congruence|left; exact A|right; exact A].
Qed.

Lemma Ifr_step : forall c s t e s', Iwk s -> Ifs s -> Ipenq c s -> Ijoin c s -> Ifr c s -> step c s t e = Some s' -> Ifr c s'.
Proof.
  intros c s t e s' IK IF IP IJ I H. unfold Ifr in *. intros Hc. specialize (IP Hc). specialize (IJ Hc t). specialize (I Hc).
  tcases H; simpl in *; intros Hf w; try (specialize (I Hf)); try (assert (Iw := I w));
    unfold prejoin in *; simpl in *; unfold upd in *;
    repeat match goal with
           | H : context [w =? ?a] |- _ => destruct (Nat.eqb_spec w a); [subst w|]
           | |- context [w =? ?a] => destruct (Nat.eqb_spec w a); [subst w|]
           end; simpl in *; rw_facts; auto; try congruence;
    try (assert (X := I t); rw_facts; simpl in X; congruence);
    try (exfalso; assert (S1 := IF Hf); assert (X := IP _ E E0); congruence);
    try (exfalso; assert (S1 := IF Hf); assert (X := IP t E eq_refl); congruence);
    try (exfalso; apply memb_false in Iw; apply Iw; eapply find_first_some_In; eassumption).
  match goal with |- ?m = false => destruct m eqn:X; [exfalso; apply (IJ w); exact X|reflexivity] end.
Qed.



Record RInv (c : cfg) (s : st) : Prop := mkRInv {
  r_inv : Inv c s; r_reg : Ireg c s; r_det : Idet c s; r_ixb : Iixb c s; r_fs : Ifs s; r_jd : Ijd c s; r_fr : Ifr c s }.

Lemma RInv_init : forall c, RInv c (init c).
Proof.
  intros c. constructor.
  - apply Inv_init.
  - intros _. simpl. symmetry. apply filter_all_true. intros x Hx. unfold live. simpl. destruct (x <? nthreads c); reflexivity.
  - intros t Ht. simpl in Ht. destruct (t <? nthreads c); discriminate Ht.
  - intros t Ht. rewrite init_pc in Ht. destruct (t <? nthreads c); discriminate Ht.
  - intros H. discriminate H.
  - intros _ _ t. rewrite init_pc. destruct (t <? nthreads c); exact I.
  - intros _ H. discriminate H.
Qed.

Lemma RInv_step : forall c s t e s', RInv c s -> step c s t e = Some s' -> RInv c s'.
Proof.
  intros c s t e s' [V] H. destruct V. constructor.
  - eapply Inv_step; [|exact H]. constructor; assumption.
  - eapply Ireg_step; eauto.
  - eapply Idet_step; eauto.
  - eapply Iixb_step; eauto.
  - eapply Ifs_step; eauto.
  - eapply Ijd_step; eauto.
  - eapply Ifr_step; eauto.
Qed.

Lemma RInv_R : forall c s, R c s -> RInv c s.
Proof. intros c s H. eapply invariant_reachable; [apply RInv_init|apply RInv_step|exact H]. Qed.

(* ---- theorems ---- *)

(* the registry holds exactly the live threads *)
Theorem registry_exact : forall c s, R c s -> reg c = true ->
  regs s = filter (live s) (workers s) /\ NoDup (regs s) /\
  (forall t, In t (regs s) <-> In t (workers s) /\ det (th s t) = false) /\
  (forall t, det (th s t) = true -> In t (workers s) /\ nthreads c <= t /\ (pc (th s t) = TExit \/ pc (th s t) = TDead)) /\
  (forall t, loop_pc (pc (th s t)) = true -> In t (regs s)) /\
  (exists rest, regs s = seq 0 (nthreads c) ++ rest /\ forall r, In r rest -> nthreads c <= r).
Proof.
  intros c s H Hr. destruct (RInv_R c s H) as [V Rg Dt _ _ _ _]. destruct V. specialize (Rg Hr).
  split; [exact Rg|]. split; [rewrite Rg; apply NoDup_filter; exact i_nw|]. split.
  - intros t. rewrite Rg, filter_In. unfold live. rewrite negb_true_iff. tauto.
  - split; [exact Dt|]. split; [exact i_wk|exact i_pre].
Qed.

(* the index cached in the prologue: exact for the threads of iwtp_start, and >= num_threads exactly for overflow threads - so
   the test `idx >= tp->num_threads` is right although idx may be stale *)
Theorem cached_index_classifies : forall c s t, R c s -> loop_pc (pc (th s t)) = true ->
  (nthreads c <=? ix (th s t)) = (nthreads c <=? t) /\ (t < nthreads c -> ix (th s t) = t).
Proof.
  intros c s t H Hl. destruct (RInv_R c s H) as [V _ _ Ib _ _ _]. destruct V. split; [|intros Hlt; apply Ib; assumption].
  destruct (i_ix t Hl) as [A B].
  destruct (Nat.leb_spec (nthreads c) (ix (th s t))), (Nat.leb_spec (nthreads c) t); auto; lia.
Qed.

(* iwtp_shutdown takes its join list from the registry ... *)
Theorem shutdown_joins_registry : forall c s t s', step c s t (EBcast 0) = Some s' -> pc (th s t) = Locked ->
  fn (th s t) = 3 /\ shut s = false /\ shut s' = true /\ pc (th s' t) = QB /\ jl (th s' t) = regs s /\ regs s' = regs s.
Proof.
  intros c s t s' H Hp. tcases H; try congruence; simpl; unfold upd; rewrite Nat.eqb_refl; simpl; repeat split; auto.
Qed.

(* ... and returns (free(tp)) only when every thread ever started with _worker_fn has finished or has detached itself and left
   the loop *)
Theorem shutdown_joined_all : forall c s t, R c s -> chk c = true -> reg c = true -> pc (th s t) = QFreed ->
  forall w, In w (workers s) ->
    (det (th s w) = false -> pc (th s w) = TDead) /\
    (det (th s w) = true -> pc (th s w) = TExit \/ pc (th s w) = TDead).
Proof.
  intros c s t H Hc Hr Hp w Hw. destruct (RInv_R c s H) as [V _ Dt _ _ Jd _]. split.
  - intros Hd. assert (X := Jd Hc Hr t). rewrite Hp in X. destruct (X w Hw Hd) as [A|A]; [|exact A].
    rewrite (freed_jl_nil c s t H Hp) in A. contradiction.
  - intros Hd. apply (Dt w Hd).
Qed.

(* after free(tp) no thread of the pool is inside, or can still enter, the worker loop: the executor is not touched by its own
   threads after it was freed *)
Theorem freed_no_worker_alive : forall c s, R c s -> chk c = true -> reg c = true -> freed s = true ->
  forall w, In w (workers s) -> pc (th s w) = TExit \/ pc (th s w) = TDead.
Proof.
  intros c s H Hc Hr Hf w Hw. destruct (RInv_R c s H) as [V Rg Dt _ _ _ Fr]. destruct V.
  assert (P := Fr Hc Hf w). assert (Wp := i_ww w Hw). specialize (Rg Hr).
  assert (Reg : det (th s w) = false -> In w (regs s)).
  { intros Hd. rewrite Rg. apply filter_In. split; [exact Hw|unfold live; rewrite Hd; reflexivity]. }
  destruct (det (th s w)) eqn:Ed; [apply (Dt w Ed)|]. specialize (Reg eq_refl). apply memb_true in Reg.
  unfold prejoin in P. destruct (pc (th s w)); try discriminate P; try discriminate Wp; auto; congruence.
Qed.

(* ---- removal through the cached index (the seeded regression `iwulist_remove(&tp->threads, idx)`) is wrong: a reachable state
        in which the overflow thread 31 is about to unregister itself, its cached index 2 is stale (its real position is 1 since
        thread 30, registered before it, has left) and position 2 now holds the live thread 32 ---- *)
Definition stale_cfg : cfg := mkcfg 1 0 2 true true.
Definition stale_trace : list (tid * ev) :=
  [(0, ELock); (0, EUnlock);
   (10, ECall 0 0 false); (10, ELock); (10, EEnq 0); (10, ESignal 0 None); (10, EUnlock); (10, ERet 0 true);
   (0, ELock); (0, EDeq 0); (0, EUnlock); (0, ERun 0);
   (10, ECall 0 1 false); (10, ELock); (10, EEnq 1); (10, ESignal 0 None); (10, EUnlock); (10, ERet 0 true);
   (10, ECall 0 2 false); (10, ELock); (10, EEnq 2); (10, ESpawn 30); (10, ESignal 0 None); (10, EUnlock); (10, ERet 0 true);
   (10, ECall 0 3 false); (10, ELock); (10, EEnq 3); (10, ESpawn 31); (10, ESignal 0 None); (10, EUnlock); (10, ERet 0 true);
   (30, ELock); (30, EUnlock); (31, ELock); (31, EUnlock);
   (30, ELock); (30, EDeq 1); (30, EUnlock); (30, ERun 1); (30, EDone 1); (30, ELock); (30, EUnlock); (30, EExit);
   (10, ECall 0 4 false); (10, ELock); (10, EEnq 4); (10, ESpawn 32); (10, ESignal 0 None); (10, EUnlock); (10, ERet 0 true);
   (31, ELock); (31, EDeq 2); (31, EUnlock); (31, ERun 2); (31, EDone 2); (31, ELock)].

Fixpoint remove_at (i : nat) (l : list nat) : list nat :=   (* iwulist_remove(list, index) *)
  match l, i with
  | [], _ => []
  | _ :: r, 0 => r
  | y :: r, S i' => y :: remove_at i' r
  end.

Theorem cached_index_removal_refuted : exists s,
  run st (step stale_cfg) (init stale_cfg) stale_trace = Some s /\ reg stale_cfg = true /\
  pc (th s 31) = TL2 /\ owner s = Some 31 /\ shut s = false /\ nthreads stale_cfg <= ix (th s 31) /\
  regs s = [0; 31; 32] /\ ix (th s 31) = 2 /\ find_first 31 (regs s) = Some 1 /\
  nth_error (regs s) (ix (th s 31)) = Some 32 /\ pc (th s 32) = TStart /\ det (th s 32) = false /\
  remove_first 31 (regs s) = [0; 32] /\          (* what the code does: unregisters the leaving thread *)
  remove_at (ix (th s 31)) (regs s) = [0; 31].   (* removal by the cached index: unregisters the live thread 32, keeps 31 *)
Proof.
  destruct (run st (step stale_cfg) (init stale_cfg) stale_trace) as [s|] eqn:Er; [|vm_compute in Er; discriminate].
  exists s. split; [reflexivity|]. vm_compute in Er. inversion Er; subst. simpl. repeat split; lia.
Qed.

(* ---- the code before b174074 (reg = false): the overflow thread is not in the registry, iwtp_shutdown does not join it, and it
        takes the mutex of the executor after free(tp) ---- *)
Definition unreg_cfg : cfg := mkcfg 1 0 1 true false.
Definition unreg_trace : list (tid * ev) :=
  [(0, ELock); (0, EUnlock);
   (10, ECall 0 0 false); (10, ELock); (10, EEnq 0); (10, ESignal 0 None); (10, EUnlock); (10, ERet 0 true);
   (0, ELock); (0, EDeq 0); (0, EUnlock); (0, ERun 0);
   (10, ECall 0 1 false); (10, ELock); (10, EEnq 1); (10, ESignal 0 None); (10, EUnlock); (10, ERet 0 true);
   (10, ECall 0 2 false); (10, ELock); (10, EEnq 2); (10, ESpawn 30); (10, ESignal 0 None); (10, EUnlock); (10, ERet 0 true);
   (20, ECall 3 0 true); (20, ELock); (20, EBcast 0); (20, EUnlock);
   (0, EDone 0); (0, ELock); (0, EUnlock);
   (0, ELock); (0, EDeq 1); (0, EUnlock); (0, ERun 1); (0, EDone 1); (0, ELock); (0, EUnlock);
   (0, ELock); (0, EDeq 2); (0, EUnlock); (0, ERun 2); (0, EDone 2); (0, ELock); (0, EUnlock); (0, EExit);
   (20, EJoin 0); (20, EFree);
   (30, ELock)].

Theorem freed_no_worker_alive_refuted_without_register : exists s,
  run st (step unreg_cfg) (init unreg_cfg) unreg_trace = Some s /\ chk unreg_cfg = true /\ reg unreg_cfg = false /\
  freed s = true /\ In 30 (workers s) /\ ~ In 30 (regs s) /\ pc (th s 30) = TReg /\ owner s = Some 30 /\ uaf s = true.
Proof.
  destruct (run st (step unreg_cfg) (init unreg_cfg) unreg_trace) as [s|] eqn:Er; [|vm_compute in Er; discriminate].
  exists s. split; [reflexivity|]. vm_compute in Er. inversion Er; subst. simpl. repeat split; auto.
  intros [H|[]]. discriminate H.
Qed.

(* ---- return values of the queries and of a rejected iwtp_schedule ---- *)
Theorem queue_size_exact : forall c s t s', R c s -> step c s t EUnlock = Some s' -> pc (th s t) = Locked -> fn (th s t) = 4 ->
  pc (th s' t) = Ret (length (queue s)) false /\ queue s' = queue s.
Proof.
  intros c s t s' H Hs Hp Hf. destruct (RInv_R c s H) as [V _ _ _ _ _ _]. destruct V. unfold Iq in i_q.
  tcases Hs; try congruence; simpl; unfold upd; rewrite Nat.eqb_refl; simpl; rewrite i_q; auto.
Qed.

Theorem overflow_only_when_full : forall c s t e s', R c s -> step c s t e = Some s' -> pc (th s t) = Locked -> fn (th s t) = 0 ->
  pc (th s' t) = Ret RC_OVERFLOW false -> limit c > 0 /\ length (queue s) >= limit c /\ enq s' = enq s /\ queue s' = queue s.
Proof.
  intros c s t e s' H Hs Hp Hf Hr. destruct (RInv_R c s H) as [V _ _ _ _ _ _]. destruct V. unfold Iq in i_q.
  tcases Hs; try congruence; simpl in Hr; unfold upd in Hr; rewrite Nat.eqb_refl in Hr; simpl in Hr; try discriminate Hr;
    unfold full in *; norm_hyps; simpl; repeat split; auto; lia.
Qed.

Theorem accepts_when_not_full : forall c s t, R c s -> pc (th s t) = Locked -> fn (th s t) = 0 -> owner s = Some t ->
  shut s = false -> (limit c = 0 \/ length (queue s) < limit c) -> step c s t (EEnq (tk (th s t))) <> None.
Proof.
  intros c s t H Hp Hf Ho Hs Hl. destruct (RInv_R c s H) as [V _ _ _ _ _ _]. destruct V. unfold Iq in i_q.
  unfold step. rewrite Hp, Ho. simpl. rewrite Nat.eqb_refl, Hf, Hs, andb_false_r.
  assert (F : full c s = false).
  { unfold full. rewrite i_q. destruct Hl as [Z|L]; [rewrite Z; reflexivity|].
    apply andb_false_iff. right. apply Nat.ltb_ge. lia. }
  rewrite F, Nat.eqb_refl. discriminate.
Qed.

(* num_threads_busy counts the threads between the increment and the decrement of the worker loop; hence it is bounded by the
   size of the registry, which never exceeds num_threads * (1 + overflow_threads_factor) *)
Definition busy_pc (p : pcT) : bool := match p with TL1 | TDeq | TU1t | TRun | TU1 => true | _ => false end.
Definition Ibusy (s : st) : Prop := busy s = length (filter (fun t => busy_pc (pc (th s t))) (workers s)).
Definition Icap (c : cfg) (s : st) : Prop := length (regs s) <= nthreads c * (1 + ovf c).

Lemma filter_none_l : forall A (f : A -> bool) l, (forall x, In x l -> f x = false) -> filter f l = [].
Proof.
  induction l as [|a l IH]; simpl; intros H; [reflexivity|]. rewrite (H a (or_introl eq_refl)). apply IH. auto.
Qed.

Lemma Icap_step : forall c s t e s', Icap c s -> step c s t e = Some s' -> Icap c s'.
Proof.
  intros c s t e s' I H. unfold Icap in *.
  tcases H; simpl; auto; unfold spawn_cond in *; norm_hyps; rewrite ?app_length; simpl; try lia.
  assert (X : length (remove_first t (regs s)) <= length (regs s)).
  { clear. induction (regs s) as [|a l IH]; simpl; [lia|]. destruct (a =? t); simpl; unfold tid in *; lia. }
  change (1 + ovf c) with (S (ovf c)) in *. unfold tid in *. lia.
Qed.

Lemma filter_len_upd : forall (f g : nat -> bool) t l, NoDup l -> In t l -> (forall u, u <> t -> g u = f u) ->
  length (filter g l) + (if f t then 1 else 0) = length (filter f l) + (if g t then 1 else 0).
Proof.
  intros f g t l. induction l as [|a l IH]; intros ND Hin Hext; [contradiction|].
  inversion ND as [|? ? Ha ND']; subst. simpl. destruct (Nat.eq_dec a t) as [->|Ne].
  - assert (E : filter g l = filter f l).
    { apply filter_ext_in. intros u Hu. apply Hext. intros ->. contradiction. }
    rewrite E. destruct (f t), (g t); simpl; lia.
  - destruct Hin as [->|Hin]; [congruence|]. rewrite (Hext a Ne). specialize (IH ND' Hin Hext).
    destruct (f a); simpl; lia.
Qed.

Lemma filter_len_same : forall (f g : nat -> bool) t l, (forall u, u <> t -> g u = f u) -> (In t l -> g t = f t) ->
  length (filter g l) = length (filter f l).
Proof.
  intros f g t l Hext Ht. f_equal. apply filter_ext_in. intros u Hu. destruct (Nat.eq_dec u t) as [->|N]; auto.
Qed.

Lemma Ibusy_step : forall c s t e s', Iww s -> Inw s -> Irw s -> Iwk s -> Ibusy s -> step c s t e = Some s' -> Ibusy s'.
Proof.
  intros c s t e s' IW ND IR IK I H. unfold Ibusy in *.
  assert (Wt : loop_pc (pc (th s t)) = true -> In t (workers s)) by (intros L; apply IR, IK; exact L).
  tcases H; simpl; rewrite ?filter_app; simpl; rewrite ?app_length; simpl;
    try (rewrite I; symmetry;
         apply (filter_len_same (fun u => busy_pc (pc (th s u))) _ t); simpl; unfold upd;
         [intros u Hu; destruct (Nat.eqb_spec u t); [contradiction|reflexivity]
         |intros Hin; rewrite Nat.eqb_refl; simpl; rewrite ?E; try reflexivity;
          assert (X := IW _ Hin); rewrite E in X; discriminate X]; fail).
  1,2: (* spawn *)
    (match goal with |- context [if ?b then [?ch] else []] =>
       assert (B : b = false) by (unfold upd; destruct (Nat.eqb_spec ch t); [contradiction|]; rewrite Nat.eqb_refl; reflexivity);
       rewrite B; simpl; rewrite I, Nat.add_0_r; f_equal; apply filter_ext_in; intros u Hu; unfold upd;
       destruct (Nat.eqb_spec u t) as [->|Nu]; simpl; [rewrite E; reflexivity|];
       destruct (Nat.eqb_spec u ch) as [->|Nu2]; simpl; [|reflexivity];
       assert (X := IW _ Hu); rewrite E4 in X; discriminate X
     end).
  - (* TTop -> TL1 : ++num_threads_busy *)
    assert (X := filter_len_upd (fun u => busy_pc (pc (th s u)))
                   (fun u => busy_pc (pc (upd (th s) t (setpc (th s t) TL1) u))) t (workers s) ND (Wt eq_refl)).
    simpl in X. rewrite upd_same, E in X. simpl in X. rewrite I.
    assert (Y : forall u, u <> t -> busy_pc (pc (upd (th s) t (setpc (th s t) TL1) u)) = busy_pc (pc (th s u)))
      by (intros u Hu; rewrite upd_other by exact Hu; reflexivity).
    specialize (X Y). unfold tid in *. lia.
  - (* TU1 -> TL2 : --num_threads_busy *)
    assert (X := filter_len_upd (fun u => busy_pc (pc (th s u)))
                   (fun u => busy_pc (pc (upd (th s) t (setpc (th s t) TL2) u))) t (workers s) ND (Wt eq_refl)).
    simpl in X. rewrite upd_same, E in X. simpl in X. rewrite I.
    assert (Y : forall u, u <> t -> busy_pc (pc (upd (th s) t (setpc (th s t) TL2) u)) = busy_pc (pc (th s u)))
      by (intros u Hu; rewrite upd_other by exact Hu; reflexivity).
    specialize (X Y). unfold tid in *. lia.
Qed.

Record BInv (c : cfg) (s : st) : Prop := mkBInv { b_inv : Inv c s; b_busy : Ibusy s; b_cap : Icap c s }.

Lemma BInv_R : forall c s, R c s -> BInv c s.
Proof.
  intros c s H. eapply invariant_reachable; [| |exact H].
  - constructor; [apply Inv_init| |].
    + unfold Ibusy. simpl. symmetry. apply length_zero_iff_nil. apply filter_none_l. intros x Hx.
      destruct (x <? nthreads c); reflexivity.
    + unfold Icap. simpl. rewrite seq_length. lia.
  - intros s0 t e s1 [V B C] Hs. destruct V. constructor.
    + eapply Inv_step; [|exact Hs]. constructor; assumption.
    + eapply Ibusy_step; eauto.
    + eapply Icap_step; eauto.
Qed.

(* iwtp_threads_busy_num returns the number of threads between `++num_threads_busy` and `--num_threads_busy`; it never exceeds
   the number of registered threads, which never exceeds num_threads * (1 + overflow_threads_factor) (iwtp.h) *)
Theorem busy_num_exact : forall c s t s', R c s -> step c s t EUnlock = Some s' -> pc (th s t) = Locked -> fn (th s t) = 5 ->
  pc (th s' t) = Ret (busy s) false /\
  busy s = length (filter (fun u => busy_pc (pc (th s u))) (workers s)) /\
  busy s <= length (regs s) /\ length (regs s) <= nthreads c * (1 + ovf c).
Proof.
  intros c s t s' H Hs Hp Hf. destruct (BInv_R c s H) as [V B C]. destruct V.
  split; [tcases Hs; try congruence; simpl; unfold upd; rewrite Nat.eqb_refl; reflexivity|].
  split; [exact B|]. split; [|exact C].
  rewrite B. apply NoDup_incl_length; [apply NoDup_filter; exact i_nw|].
  intros u Hu. apply filter_In in Hu. destruct Hu as [_ Hb]. apply i_wk. destruct (pc (th s u)); try discriminate Hb; reflexivity.
Qed.
