(* C20 - invariants of the iwstw transition system over all interleavings (induction on the transition relation) *)
Require Import List Bool Arith Lia Permutation.
Require Import IW.CC.Lts IW.CC.Lts_proofs IW.CC.Stw.
Import ListNotations.

Definition R (c : cfg) (s : st) : Prop := reachable st (step c) init s.

(* ---- case analysis of one transition ---- *)
Ltac dcase H :=
  repeat match type of H with
  | context [match ?x with _ => _ end] =>
      let E := fresh "E" in destruct x eqn:E; try discriminate H
  end.

Ltac norm_hyps :=
  repeat match goal with
  | H : owns _ _ = true |- _ => apply owns_true in H
  | H : free_mtx _ = true |- _ => apply free_true in H
  | H : is_nil _ = true |- _ => apply is_nil_true in H
  | H : is_nil _ = false |- _ => apply is_nil_false in H
  | H : (_ && _) = true |- _ => apply andb_true_iff in H; destruct H
  | H : (_ =? _) = true |- _ => apply Nat.eqb_eq in H
  | H : (_ =? _) = false |- _ => apply Nat.eqb_neq in H
  | H : negb _ = true |- _ => apply negb_true_iff in H
  | H : negb _ = false |- _ => apply negb_false_iff in H
  | H : (_ && _) = false |- _ => apply andb_false_iff in H; destruct H
  | H : (_ || _) = true |- _ => apply orb_true_iff in H; destruct H
  | H : (_ || _) = false |- _ => apply orb_false_iff in H; destruct H
  | H : (_ <? _) = true |- _ => apply Nat.ltb_lt in H
  | H : (_ <? _) = false |- _ => apply Nat.ltb_ge in H
  | H : (_ <=? _) = true |- _ => apply Nat.leb_le in H
  | H : (_ <=? _) = false |- _ => apply Nat.leb_gt in H
  | H : memb _ _ = false |- _ => apply memb_false in H
  | H : memb _ _ = true |- _ => apply memb_true in H
  end.

Ltac wcases H := unfold wstep in H; dcase H; norm_hyps; inversion H; subst; clear H.
Ltac ccases H :=
  unfold cstep, locked_step, loop_step, odisc_step, ddisc_step, unlock_ret in H; cbv zeta in H;
  dcase H; norm_hyps; inversion H; subst; clear H.
Ltac scases H t :=
  unfold step in H; destruct (Nat.eqb_spec t W) as [EW|EW]; [subst t; wcases H | ccases H].

Ltac rw_owner := repeat match goal with H : owner _ = _ |- _ => rewrite H in * end.
Ltac updt := unfold set_th; simpl; rewrite ?upd_same.

Ltac destr_owner :=
  match goal with
  | H : owner _ = _ |- _ => idtac
  | s : st |- _ => let u := fresh "u" in let Eo := fresh "Eo" in destruct (owner s) as [u|] eqn:Eo
  end.
Ltac eqbs :=
  repeat match goal with
  | |- context [?a =? ?b] => destruct (Nat.eqb_spec a b); subst; try contradiction; try congruence
  | H : context [?a =? ?b] |- _ => destruct (Nat.eqb_spec a b); subst; try contradiction; try congruence
  end.
Ltac rw_facts :=
  repeat match goal with
  | H : owner _ = _ |- _ => rewrite H in *
  | H : queue _ = _ |- _ => rewrite H in *
  | H : cp (cl _ _) = _ |- _ => rewrite H in *
  | H : wpc _ = _ |- _ => rewrite H in *
  end.

(* ---- I1: cnt is the length of the queue, except inside a discard loop ---- *)
Definition Icnt (s : st) : Prop :=
  match owner s with
  | Some t => if t =? W then cnt s = length (queue s)
              else match cp (cl s t) with ODisc | DDisc => True | _ => cnt s = length (queue s) end
  | None => cnt s = length (queue s)
  end.

Lemma Icnt_step : forall c s t e s', Icnt s -> step c s t e = Some s' -> Icnt s'.
Proof.
  intros c s t e s' I H. scases H t; unfold Icnt in *; destr_owner; simpl in *; unfold upd; rw_facts; simpl in *; eqbs;
    simpl in *; rw_facts; simpl in *; rewrite ?app_length; simpl; try lia; auto.
Qed.

(* ---- I2: a bounded queue never holds more than queue_limit tasks ---- *)
Definition Ilim (c : cfg) (s : st) : Prop := limit c = 0 \/ length (queue s) <= limit c.

Lemma Ilim_step : forall c s t e s', Icnt s -> Ilim c s -> step c s t e = Some s' -> Ilim c s'.
Proof.
  intros c s t e s' IC I H. unfold Ilim in *. destruct I as [I|I]; [left; exact I|].
  destruct (Nat.eq_dec (limit c) 0) as [Z|Z]; [left; exact Z|right].
  scases H t; unfold Icnt, full, canunblock in *; simpl in *; rw_facts; simpl in *; norm_hyps; eqbs; simpl in *;
    rewrite ?app_length; simpl; try lia.
Qed.

(* ---- I3: between the broadcast and the wait of the worker's idle path the mutex is held and the queue is empty ---- *)
Definition Iw2b (s : st) : Prop := wpc s = WL2b -> owner s = Some W /\ queue s = [].

Lemma Iw2b_step : forall c s t e s', Iw2b s -> step c s t e = Some s' -> Iw2b s'.
Proof.
  intros c s t e s' I H. unfold Iw2b in *.
  scases H t; simpl in *; intros HW; try discriminate HW; try (specialize (I HW); destruct I as [I1 I2]);
    rw_facts; try congruence; auto.
Qed.

(* ---- I4: no lost wake-up: the worker is parked only while the queue is empty, or the thread that has just linked a
        task still holds the mutex and is about to broadcast ---- *)
Definition Inlw (s : st) : Prop :=
  In W (waitc s) ->
  queue s = [] \/ match owner s with Some t => if t =? W then False else cp (cl s t) = Enq | None => False end.

Lemma Inlw_step : forall c s t e s', Iw2b s -> Inlw s -> step c s t e = Some s' -> Inlw s'.
Proof.
  intros c s t e s' I2 I H. unfold Inlw, Iw2b in *.
  scases H t; simpl in *; intros Hin; try contradiction;
    try (left; assumption); try (left; apply I2; first [assumption|reflexivity]);
    try (apply remove1_In in Hin; destruct Hin as [Hin _]);
    first [ specialize (I Hin) | clear I ];
    destr_owner; unfold upd in *; rw_facts; simpl in *; eqbs; simpl in *; rw_facts;
    try (destruct I as [I|I]; try discriminate I; try contradiction); auto; try congruence;
    try (left; apply I2; reflexivity).
Qed.

Lemma no_lost_wakeup_inv : forall s, Iw2b s -> Inlw s -> owner s = None -> In W (waitc s) -> queue s = [].
Proof. intros s _ I Ho Hin. destruct (I Hin) as [Q|Q]; [exact Q|]. rewrite Ho in Q. contradiction. Qed.

(* ---- I5/I6: task ids are fresh; every linked task is in exactly one of queued / held by the worker / done /
        dropped by shutdown / dropped by schedule_only ---- *)
Definition cnt_in (x : task) (l : list task) : nat := count_occ Nat.eq_dec l x.
Definition parts (s : st) : list task := queue s ++ held s ++ done s ++ disc s ++ repl s.
Definition pre_enq (th : cthr) : bool :=
  match cp th with Start | Locked => fn th <? 3 | CWait | Woken | ODisc => true | _ => false end.

Definition Iused (s : st) : Prop := forall x, In x (enq s) -> In x (used s).
Definition Ifresh (s : st) : Prop :=
  forall t, t <> W -> pre_enq (cl s t) = true ->
    In (tk (cl s t)) (used s) /\ ~ In (tk (cl s t)) (enq s) /\
    forall u, u <> W -> u <> t -> pre_enq (cl s u) = true -> tk (cl s u) <> tk (cl s t).
Definition Ipart (s : st) : Prop :=
  forall x, cnt_in x (enq s) = cnt_in x (parts s) /\ cnt_in x (enq s) <= 1.

Ltac pre_enq_now := unfold pre_enq; rw_facts; repeat match goal with H : fn _ = _ |- _ => rewrite H end; reflexivity.

Lemma Iused_step : forall c s t e s', Ifresh s -> Iused s -> step c s t e = Some s' -> Iused s'.
Proof.
  intros c s t e s' IF I H. unfold Iused in *.
  scases H t; simpl in *; intros y Hy; try (apply in_app_or in Hy; destruct Hy as [Hy|[Hy|[]]]); subst; auto;
    (eapply proj1, IF; [assumption|pre_enq_now]).
Qed.

(* effect of one transition on the thread table, used and enq *)
Lemma wstep_frame : forall c s e s', wstep c s e = Some s' -> cl s' = cl s /\ used s' = used s /\ enq s' = enq s.
Proof. intros c s e s' H. wcases H; simpl; auto. Qed.

Lemma cstep_frame : forall c s t e s', cstep c s t e = Some s' ->
  (forall u, u <> t -> cl s' u = cl s u) /\
  (cp (cl s t) = Idle ->
     enq s' = enq s /\
     ((pre_enq (cl s' t) = true /\ ~ In (tk (cl s' t)) (used s) /\ used s' = tk (cl s' t) :: used s) \/
      (pre_enq (cl s' t) = false /\ used s' = used s))) /\
  (cp (cl s t) <> Idle ->
     used s' = used s /\ tk (cl s' t) = tk (cl s t) /\
     ((enq s' = enq s /\ (pre_enq (cl s' t) = true -> pre_enq (cl s t) = true)) \/
      (enq s' = enq s ++ [tk (cl s t)] /\ pre_enq (cl s t) = true /\ pre_enq (cl s' t) = false))).
Proof.
  intros c s t e s' H. ccases H; simpl; unfold upd; rewrite ?Nat.eqb_refl; simpl;
  (split; [intros u Hu; destruct (Nat.eqb_spec u t); [contradiction|reflexivity]|]);
  (split; [intros HI; try congruence | intros HN; try congruence]);
  unfold pre_enq; simpl; rw_facts; simpl;
  repeat match goal with H : fn _ = _ |- _ => rewrite H end; simpl;
  repeat (split; [reflexivity|]);
  first [ solve [left; repeat split; auto; try (apply Nat.ltb_lt; assumption); try discriminate; try congruence]
        | solve [right; repeat split; auto; try (apply Nat.ltb_ge; assumption)] ].
Qed.

Lemma idle_dec : forall p : cpcT, p = Idle \/ p <> Idle.
Proof. destruct p; (left; reflexivity) || (right; discriminate). Qed.

Lemma Ifresh_step : forall c s t e s', Iused s -> Ifresh s -> step c s t e = Some s' -> Ifresh s'.
Proof.
  intros c s t e s' IU I H. unfold step in H. destruct (Nat.eqb_spec t W) as [EW|EW].
  - subst. apply wstep_frame in H. destruct H as (Hc & Hu & He). unfold Ifresh. rewrite Hc, Hu, He. exact I.
  - apply cstep_frame in H. destruct H as (Hfr & HI & HN).
    destruct (idle_dec (cp (cl s t))) as [Ei|Ei].
    + destruct (HI Ei) as (He & [(Hp & Hx & Hu)|(Hp & Hu)]); clear HI HN.
      * intros u Huw Hpre. rewrite He, Hu. destruct (Nat.eq_dec u t) as [->|Ne].
        -- split; [left; reflexivity|]. split; [intros Hin; apply Hx; apply IU; exact Hin|].
           intros u0 H0 H0t Hp0. rewrite (Hfr u0 H0t) in *. intros Eq. apply Hx. rewrite <- Eq.
           apply (I u0 H0 Hp0).
        -- rewrite (Hfr u Ne) in *. destruct (I u Huw Hpre) as (A & B & C).
           split; [right; exact A|]. split; [exact B|].
           intros u0 H0 H0u Hp0. destruct (Nat.eq_dec u0 t) as [->|Ne0].
           ++ intros Eq. apply Hx. rewrite Eq. exact A.
           ++ rewrite (Hfr u0 Ne0) in *. apply C; assumption.
      * intros u Huw Hpre. rewrite He, Hu. destruct (Nat.eq_dec u t) as [->|Ne]; [congruence|].
        rewrite (Hfr u Ne) in *. destruct (I u Huw Hpre) as (A & B & C). split; [exact A|]. split; [exact B|].
        intros u0 H0 H0u Hp0. destruct (Nat.eq_dec u0 t) as [->|Ne0]; [congruence|].
        rewrite (Hfr u0 Ne0) in *. apply C; assumption.
    + destruct (HN Ei) as (Hu & Htk & [(He & Hp)|(He & Hp & Hp')]); clear HI HN.
      * intros u Huw Hpre. rewrite He, Hu. destruct (Nat.eq_dec u t) as [->|Ne].
        -- rewrite Htk. destruct (I t EW (Hp Hpre)) as (A & B & C). split; [exact A|]. split; [exact B|].
           intros u0 H0 H0t Hp0. rewrite (Hfr u0 H0t) in *. apply C; assumption.
        -- rewrite (Hfr u Ne) in *. destruct (I u Huw Hpre) as (A & B & C). split; [exact A|]. split; [exact B|].
           intros u0 H0 H0u Hp0. destruct (Nat.eq_dec u0 t) as [->|Ne0].
           ++ rewrite Htk. apply C; auto.
           ++ rewrite (Hfr u0 Ne0) in *. apply C; assumption.
      * intros u Huw Hpre. rewrite He, Hu. destruct (Nat.eq_dec u t) as [->|Ne]; [congruence|].
        rewrite (Hfr u Ne) in *. destruct (I u Huw Hpre) as (A & B & C). split; [exact A|].
        split.
        -- intros Hin. apply in_app_or in Hin. destruct Hin as [Hin|[Hin|[]]]; [exact (B Hin)|].
           apply (C t EW (not_eq_sym Ne) Hp). exact Hin.
        -- intros u0 H0 H0u Hp0. destruct (Nat.eq_dec u0 t) as [->|Ne0]; [congruence|].
           rewrite (Hfr u0 Ne0) in *. apply C; assumption.
Qed.

(* effect of one transition on the task lists *)
Inductive qeff (s s' : st) (t : tid) : Prop :=
| QSame : queue s' = queue s -> held s' = held s -> done s' = done s -> disc s' = disc s -> repl s' = repl s ->
          enq s' = enq s -> qeff s s' t
| QEnq : forall x, t <> W -> x = tk (cl s t) -> pre_enq (cl s t) = true ->
          queue s' = queue s ++ [x] -> held s' = held s -> done s' = done s -> disc s' = disc s -> repl s' = repl s ->
          enq s' = enq s ++ [x] -> qeff s s' t
| QRepl : forall x, t <> W -> x = tk (cl s t) -> pre_enq (cl s t) = true ->
          queue s' = [x] -> held s' = held s -> done s' = done s -> disc s' = disc s -> repl s' = repl s ++ queue s ->
          enq s' = enq s ++ [x] -> qeff s s' t
| QDeq : forall x, queue s = x :: queue s' -> held s = [] -> held s' = [x] -> done s' = done s -> disc s' = disc s ->
          repl s' = repl s -> enq s' = enq s -> qeff s s' t
| QDone : forall x, queue s' = queue s -> held s = [x] -> held s' = [] -> done s' = done s ++ [x] -> disc s' = disc s ->
          repl s' = repl s -> enq s' = enq s -> qeff s s' t
| QDisc : forall x, queue s = x :: queue s' -> held s' = held s -> done s' = done s -> disc s' = disc s ++ [x] ->
          repl s' = repl s -> enq s' = enq s -> qeff s s' t
| QReplD : forall x, queue s = x :: queue s' -> held s' = held s -> done s' = done s -> disc s' = disc s ->
          repl s' = repl s ++ [x] -> enq s' = enq s -> qeff s s' t
| QClear : queue s' = [] -> held s' = held s -> done s' = done s -> disc s' = disc s ++ queue s ->
          repl s' = repl s -> enq s' = enq s -> qeff s s' t.

Lemma step_qeff : forall c s t e s', step c s t e = Some s' -> qeff s s' t.
Proof.
  intros c s t e s' H. unfold step in H. destruct (Nat.eqb_spec t W) as [EW|EW].
  - subst t. wcases H;
      first [ solve [apply QSame; unfold held; simpl; rw_facts; reflexivity]
            | solve [eapply QDeq; unfold held; simpl; rw_facts; try reflexivity; eassumption]
            | solve [eapply QDone; unfold held; simpl; rw_facts; reflexivity] ].
  - ccases H;
      first [ solve [apply QSame; reflexivity]
            | solve [eapply QEnq; try reflexivity; try assumption; pre_enq_now]
            | solve [eapply QRepl; try reflexivity; try assumption; simpl; rw_facts; try reflexivity; pre_enq_now]
            | solve [eapply QDisc; simpl; try reflexivity; eassumption]
            | solve [eapply QReplD; simpl; try reflexivity; eassumption]
            | solve [eapply QClear; simpl; rw_facts; rewrite ?app_nil_r; reflexivity] ].
Qed.

Ltac cnt_fin :=
  unfold cnt_in in *; repeat rewrite count_occ_app in *; simpl in *;
  repeat match goal with |- context [Nat.eq_dec ?a ?b] => destruct (Nat.eq_dec a b); subst end;
  repeat rewrite count_occ_app in *; simpl in *;
  repeat match goal with H : context [count_occ] |- _ => progress unfold task in H end; unfold task;
  try (split; timeout 5 lia); try (timeout 5 lia).

Lemma Ipart_step : forall c s t e s', Ifresh s -> Ipart s -> step c s t e = Some s' -> Ipart s'.
Proof.
  intros c s t e s' IF I H. apply step_qeff in H. unfold Ipart in *. intros y. destruct (I y) as [P Q]. clear I.
  unfold parts in *.
  destruct H as [H1 H2 H3 H4 H5 H6 | x Ht Hx Hp H1 H2 H3 H4 H5 H6 | x Ht Hx Hp H1 H2 H3 H4 H5 H6
                | x H1 H2a H2 H3 H4 H5 H6 | x H1 H2a H2 H3 H4 H5 H6 | x H1 H2 H3 H4 H5 H6 | x H1 H2 H3 H4 H5 H6
                | H1 H2 H3 H4 H5 H6];
    try (assert (Z : ~ In x (enq s)) by (subst x; apply IF; assumption);
         apply (count_occ_not_In Nat.eq_dec) in Z);
    rewrite ?H1, ?H2, ?H3, ?H4, ?H5, ?H6 in *; try rewrite H2a in *; cnt_fin.
Qed.

(* ---- I7: fn is entered in dequeue order; started = done ++ the running task ---- *)
Definition Istarted (s : st) : Prop :=
  started s = done s ++ match wpc s with WRun | WSdStart | WSdLocked | WSdRet0 | WSdRetA => [wtk s] | _ => [] end.

Lemma Istarted_step : forall c s t e s', Istarted s -> step c s t e = Some s' -> Istarted s'.
Proof.
  intros c s t e s' I H. unfold Istarted in *.
  scases H t; simpl in *; rw_facts; simpl in *; rewrite ?app_nil_r in *; try rewrite <- app_assoc; try congruence; auto.
Qed.

(* ---- I8: inside the discard loop of schedule_only the shutdown flag is still clear ---- *)
Definition Iodisc (s : st) : Prop :=
  forall t, t <> W -> owner s = Some t -> cp (cl s t) = ODisc \/ cp (cl s t) = DDisc -> shut s = false.

Ltac per_thread I u Hu :=
  simpl in *; unfold upd in *;
  try (match goal with |- context [u =? ?t] => destruct (Nat.eqb_spec u t); [subst u|] end);
  try (match goal with H : context [u =? ?t] |- _ => destruct (Nat.eqb_spec u t); [subst u|] end);
  simpl in *.

Lemma Iodisc_step : forall c s t e s', Iodisc s -> step c s t e = Some s' -> Iodisc s'.
Proof.
  intros c s t e s' I H. unfold Iodisc in *.
  scases H t; intros u Hu Ho Hc; per_thread I u Hu; rw_facts;
    try (destruct Hc as [Hc|Hc]; discriminate Hc); try discriminate; try congruence;
    try (apply (I u Hu); congruence); auto; try (eapply I; eauto; congruence).
Qed.

(* ---- I9 (variant with the re-check): once the worker has left its loop the flag is set and the queue stays empty ---- *)
Definition Idead (c : cfg) (s : st) : Prop :=
  recheck c = true -> wpc s = WExit \/ wpc s = WDead -> shut s = true /\ queue s = [].

Lemma Idead_step : forall c s t e s', Iodisc s -> Idead c s -> step c s t e = Some s' -> Idead c s'.
Proof.
  intros c s t e s' IO I H. unfold Idead in *. intros Hr Hw.
  scases H t; simpl in *; rw_facts;
    try (destruct Hw as [Hw|Hw]; discriminate Hw);
    try (specialize (I Hr Hw); destruct I as [I1 I2]); rw_facts; auto; try congruence; try discriminate;
    try (rewrite (IO t EW E0 (or_introl E)) in I1; discriminate I1).
Qed.

(* ---- I10: pthread_join returns only after the worker thread has finished ---- *)
Definition Ijoin (s : st) : Prop :=
  forall t, t <> W -> cp (cl s t) = DJoined \/ cp (cl s t) = DFreed -> wpc s = WDead.

Lemma Ijoin_step : forall c s t e s', Ijoin s -> step c s t e = Some s' -> Ijoin s'.
Proof.
  intros c s t e s' I H. unfold Ijoin in *.
  scases H t; intros u Hu Hc; per_thread I u Hu; rw_facts;
    try (destruct Hc as [Hc|Hc]; discriminate Hc); try reflexivity;
    try (rewrite <- (I u Hu Hc); congruence); try (eapply I; eauto; fail);
    try (assert (X := I u Hu Hc); congruence).
Qed.

(* ---- I11: only a non-waiting shutdown drops tasks ---- *)
Definition Idw (s : st) : Prop :=
  match disc s with
  | [] => True
  | _ => if shut s then shut_wait s = false
         else match owner s with Some t => if t =? W then False else cp (cl s t) = DDisc | None => False end
  end.

Lemma Idw_step : forall c s t e s', Iodisc s -> Idw s -> step c s t e = Some s' -> Idw s'.
Proof.
  intros c s t e s' IO I H. unfold Idw in *.
  scases H t; simpl in *; destruct (disc s) eqn:ED; simpl in *; auto; rw_facts; simpl in *;
    try (destruct (shut s) eqn:ES; [exact I|]); try destr_owner; unfold upd; rw_facts; simpl in *; eqbs; simpl in *;
    rw_facts; try contradiction; try discriminate; try congruence; auto;
    repeat match goal with H : shut _ = _ |- _ => rewrite H in * end; auto;
    try (rewrite (IO t EW E0 (or_intror E)); reflexivity);
    try (destruct (queue s); simpl; auto).
Qed.

(* ---- I12: a call that is about to report success has linked its task; accepted tasks were linked ---- *)
Definition Iaccpc (s : st) : Prop :=
  forall t, t <> W ->
    match cp (cl s t) with Enq | Bc | Ret _ true => In (tk (cl s t)) (enq s) | _ => True end.
Definition Iacc (s : st) : Prop := forall x, In x (acc s) -> In x (enq s).

Lemma Iaccpc_step : forall c s t e s', Iaccpc s -> step c s t e = Some s' -> Iaccpc s'.
Proof.
  intros c s t e s' I H. unfold Iaccpc in *.
  scases H t; intros u Hu; specialize (I u Hu); per_thread I u Hu; rw_facts; auto;
    try (apply in_or_app; simpl; auto; fail);
    try (destruct (cp (cl s u)); auto; try (destruct sched; auto); apply in_or_app; auto).
Qed.

Lemma Iacc_step : forall c s t e s', Iaccpc s -> Iacc s -> step c s t e = Some s' -> Iacc s'.
Proof.
  intros c s t e s' IP I H. unfold Iacc in *.
  scases H t; simpl in *; intros y Hy; try (apply in_or_app; left); auto;
    try (apply in_app_or in Hy; destruct Hy as [Hy|[Hy|[]]]); auto;
    try (subst y; assert (X := IP t EW); rewrite E in X; exact X).
Qed.

(* ---- I13: FIFO: the tasks that were not dropped leave the queue in the order in which they were linked ---- *)
Definition keep (E : list task) (x : task) : bool := negb (memb x E).
Definition excl (s : st) : list task := disc s ++ repl s.
Definition Ififo (s : st) : Prop := filter (keep (excl s)) (enq s) = done s ++ held s ++ queue s.

Lemma memb_app : forall z a b, memb z (a ++ b) = memb z a || memb z b.
Proof. intros. unfold memb. apply existsb_app. Qed.

Lemma filter_filter : forall A (f g : A -> bool) l, filter f (filter g l) = filter (fun x => g x && f x) l.
Proof.
  induction l as [|a l IH]; simpl; [reflexivity|]. destruct (g a); simpl; [destruct (f a)|]; rewrite IH; reflexivity.
Qed.

Lemma filter_all : forall A (f : A -> bool) l, (forall x, In x l -> f x = true) -> filter f l = l.
Proof.
  induction l as [|a l IH]; simpl; intros H; [reflexivity|]. rewrite (H a (or_introl eq_refl)). f_equal. apply IH. auto.
Qed.

Lemma filter_none : forall A (f : A -> bool) l, (forall x, In x l -> f x = false) -> filter f l = [].
Proof.
  induction l as [|a l IH]; simpl; intros H; [reflexivity|]. rewrite (H a (or_introl eq_refl)). apply IH. auto.
Qed.

Lemma fifo_drop : forall E E' l a q b,
  filter (keep E) l = a ++ q ++ b ->
  (forall z, memb z E' = memb z E || memb z q) ->
  (forall z, In z q -> ~ In z a /\ ~ In z b) ->
  filter (keep E') l = a ++ b.
Proof.
  intros E E' l a q b Hf HE Hd.
  assert (X : filter (keep E') l = filter (keep q) (filter (keep E) l)).
  { rewrite filter_filter. apply filter_ext. intros z. unfold keep. rewrite HE. rewrite negb_orb. reflexivity. }
  rewrite X, Hf, !filter_app.
  rewrite (filter_all _ (keep q) a), (filter_none _ (keep q) q), (filter_all _ (keep q) b); [reflexivity| | |].
  - intros z Hz. unfold keep. apply negb_true_iff, memb_false. intros Hq. apply (proj2 (Hd z Hq)). exact Hz.
  - intros z Hz. unfold keep. apply negb_false_iff, memb_true. exact Hz.
  - intros z Hz. unfold keep. apply negb_true_iff, memb_false. intros Hq. apply (proj1 (Hd z Hq)). exact Hz.
Qed.

Lemma cnt_pos_In : forall x l, In x l <-> cnt_in x l >= 1.
Proof. intros. unfold cnt_in. rewrite (count_occ_In Nat.eq_dec). lia. Qed.

Lemma cnt_zero_notIn : forall x l, cnt_in x l = 0 -> ~ In x l.
Proof. intros x l H Hin. apply cnt_pos_In in Hin. lia. Qed.

Lemma cnt_app : forall x a b, cnt_in x (a ++ b) = cnt_in x a + cnt_in x b.
Proof. intros. unfold cnt_in. apply count_occ_app. Qed.

Lemma part_disj : forall s, Ipart s -> forall z,
  cnt_in z (queue s) + cnt_in z (held s) + cnt_in z (done s) + cnt_in z (disc s) + cnt_in z (repl s) <= 1.
Proof.
  intros s I z. destruct (I z) as [P Q]. unfold parts in P. rewrite !cnt_app in P. lia.
Qed.

Lemma excl_in_enq : forall s, Ipart s -> forall z, In z (excl s) -> In z (enq s).
Proof.
  intros s I z Hz. destruct (I z) as [P Q]. unfold parts in P. rewrite !cnt_app in P.
  apply cnt_pos_In. unfold excl in Hz. apply in_app_or in Hz. destruct Hz as [Hz|Hz]; apply cnt_pos_In in Hz; lia.
Qed.



Lemma queue_disj : forall s, Ipart s -> forall z, In z (queue s) -> ~ In z (done s ++ held s) /\ ~ In z (@nil task).
Proof.
  intros s I z Hz. split; [|intros []]. intros Hin. assert (D := part_disj s I z).
  apply cnt_pos_In in Hz. apply in_app_or in Hin. destruct Hin as [Hin|Hin]; apply cnt_pos_In in Hin; lia.
Qed.

Lemma head_disj : forall s x q', Ipart s -> queue s = x :: q' ->
  forall z, In z [x] -> ~ In z (done s ++ held s) /\ ~ In z q'.
Proof.
  intros s x q' I Hq z [<-|[]]. assert (D := part_disj s I x). rewrite Hq in D. unfold cnt_in in D at 1. simpl in D.
  destruct (Nat.eq_dec x x) as [_|N]; [|congruence]. fold (cnt_in x q') in D. split.
  - intros Hin. apply in_app_or in Hin. destruct Hin as [Hin|Hin]; apply cnt_pos_In in Hin; lia.
  - intros Hin. apply cnt_pos_In in Hin. lia.
Qed.

Lemma Ififo_step : forall c s t e s', Ifresh s -> Ipart s -> Ififo s -> step c s t e = Some s' -> Ififo s'.
Proof.
  intros c s t e s' IF IP I H. apply step_qeff in H. unfold Ififo in *.
  destruct H as [H1 H2 H3 H4 H5 H6 | x Ht Hx Hp H1 H2 H3 H4 H5 H6 | x Ht Hx Hp H1 H2 H3 H4 H5 H6
                | x H1 H2a H2 H3 H4 H5 H6 | x H1 H2a H2 H3 H4 H5 H6 | x H1 H2 H3 H4 H5 H6 | x H1 H2 H3 H4 H5 H6
                | H1 H2 H3 H4 H5 H6]; unfold excl in *; rewrite ?H2, ?H3, ?H4, ?H5, ?H6.
  - rewrite H1. exact I.
  - (* enqueue *)
    assert (Z : ~ In x (enq s)) by (subst x; apply IF; assumption).
    rewrite H1, filter_app, I. simpl.
    replace (keep (disc s ++ repl s) x) with true.
    + rewrite <- !app_assoc. reflexivity.
    + symmetry. unfold keep. apply negb_true_iff, memb_false. intros Hin. apply Z. apply (excl_in_enq s IP). exact Hin.
  - (* schedule_only without callback: the whole queue is replaced *)
    assert (Z : ~ In x (enq s)) by (subst x; apply IF; assumption).
    rewrite H1, filter_app.
    rewrite (fifo_drop (disc s ++ repl s) (disc s ++ repl s ++ queue s) (enq s) (done s ++ held s) (queue s) []).
    + simpl. replace (keep (disc s ++ repl s ++ queue s) x) with true; [rewrite app_nil_r, <- app_assoc; reflexivity|].
      symmetry. unfold keep. apply negb_true_iff, memb_false. intros Hin. apply Z.
      rewrite app_assoc in Hin. apply in_app_or in Hin. destruct Hin as [Hin|Hin]; [apply (excl_in_enq s IP); exact Hin|].
      destruct (IP x) as [P Q]. unfold parts in P. rewrite !cnt_app in P. apply cnt_pos_In. apply cnt_pos_In in Hin. lia.
    + rewrite I, app_nil_r, <- app_assoc. reflexivity.
    + intros z. rewrite !memb_app. rewrite orb_assoc. reflexivity.
    + apply queue_disj. exact IP.
  - (* dequeue *) rewrite I, H1, H2a. reflexivity.
  - (* done *) rewrite I, H1, H2a. rewrite <- !app_assoc. reflexivity.
  - (* discard by shutdown *)
    rewrite (fifo_drop (disc s ++ repl s) ((disc s ++ [x]) ++ repl s) (enq s) (done s ++ held s) [x] (queue s')).
    + rewrite <- app_assoc. reflexivity.
    + rewrite I, H1, <- app_assoc. reflexivity.
    + intros z. rewrite !memb_app. simpl. rewrite orb_false_r. destruct (memb z (disc s)), (z =? x), (memb z (repl s)); reflexivity.
    + apply head_disj; assumption.
  - (* discard by schedule_only *)
    rewrite (fifo_drop (disc s ++ repl s) (disc s ++ repl s ++ [x]) (enq s) (done s ++ held s) [x] (queue s')).
    + rewrite <- app_assoc. reflexivity.
    + rewrite I, H1, <- app_assoc. reflexivity.
    + intros z. rewrite !memb_app. rewrite orb_assoc. reflexivity.
    + apply head_disj; assumption.
  - (* shutdown drops the rest of the queue at once *)
    rewrite H1.
    rewrite (fifo_drop (disc s ++ repl s) ((disc s ++ queue s) ++ repl s) (enq s) (done s ++ held s) (queue s) []).
    + rewrite !app_nil_r. reflexivity.
    + rewrite I, app_nil_r, <- app_assoc. reflexivity.
    + intros z. rewrite !memb_app. destruct (memb z (disc s)), (memb z (queue s)), (memb z (repl s)); reflexivity.
    + apply queue_disj. exact IP.
Qed.

(* ======== the invariant and its consequences ======== *)
Record Inv (c : cfg) (s : st) : Prop := mkInv {
  i_cnt : Icnt s; i_lim : Ilim c s; i_w2b : Iw2b s; i_nlw : Inlw s; i_used : Iused s; i_fresh : Ifresh s;
  i_part : Ipart s; i_started : Istarted s; i_odisc : Iodisc s; i_dead : Idead c s; i_join : Ijoin s; i_dw : Idw s;
  i_accpc : Iaccpc s; i_acc : Iacc s; i_fifo : Ififo s }.

Lemma Inv_init : forall c, Inv c init.
Proof.
  intros c. constructor.
  - reflexivity.
  - right. simpl. lia.
  - intros H. discriminate H.
  - intros [].
  - intros x [].
  - intros t _ H. discriminate H.
  - intros x. split; [reflexivity|simpl; lia].
  - reflexivity.
  - intros t _ H. discriminate H.
  - intros _ [H|H]; discriminate H.
  - intros t _ [H|H]; discriminate H.
  - exact I.
  - intros t _. exact I.
  - intros x [].
  - reflexivity.
Qed.

Lemma Inv_step : forall c s t e s', Inv c s -> step c s t e = Some s' -> Inv c s'.
Proof.
  intros c s t e s' [] H. constructor.
  - eapply Icnt_step; eauto.
  - eapply Ilim_step; eauto.
  - eapply Iw2b_step; eauto.
  - eapply Inlw_step; eauto.
  - eapply Iused_step; eauto.
  - eapply Ifresh_step; eauto.
  - eapply Ipart_step; eauto.
  - eapply Istarted_step; eauto.
  - eapply Iodisc_step; eauto.
  - eapply Idead_step; eauto.
  - eapply Ijoin_step; eauto.
  - eapply Idw_step; eauto.
  - eapply Iaccpc_step; eauto.
  - eapply Iacc_step; eauto.
  - eapply Ififo_step; eauto.
Qed.

Theorem Inv_R : forall c s, R c s -> Inv c s.
Proof. intros c s H. eapply invariant_reachable; [apply Inv_init|apply Inv_step|exact H]. Qed.

(* ---- theorems ---- *)
Lemma cnt_le1_NoDup : forall l, (forall x, cnt_in x l <= 1) -> NoDup l.
Proof. intros l H. apply (NoDup_count_occ Nat.eq_dec). exact H. Qed.

Theorem accepted_partition : forall c s, R c s ->
  (forall x, In x (acc s) -> In x (enq s)) /\
  (forall x, In x (enq s) <-> In x (queue s ++ held s ++ done s ++ disc s ++ repl s)) /\
  NoDup (queue s ++ held s ++ done s ++ disc s ++ repl s) /\ NoDup (enq s).
Proof.
  intros c s H. apply Inv_R in H. destruct H. split; [exact i_acc0|]. split; [|split].
  - intros x. destruct (i_part0 x) as [P _]. rewrite !cnt_pos_In. fold (parts s). lia.
  - apply cnt_le1_NoDup. intros x. destruct (i_part0 x) as [P Q]. fold (parts s). lia.
  - apply cnt_le1_NoDup. intros x. destruct (i_part0 x) as [P Q]. exact Q.
Qed.

Theorem status_monotone : forall c s t e s', step c s t e = Some s' -> forall x,
  (In x (done s) -> In x (done s')) /\ (In x (disc s) -> In x (disc s')) /\ (In x (repl s) -> In x (repl s')) /\
  (In x (held s) -> In x (held s') \/ In x (done s')) /\
  (In x (queue s) -> In x (queue s') \/ In x (held s') \/ In x (disc s') \/ In x (repl s')).
Proof.
  intros c s t e s' H x. apply step_qeff in H.
  destruct H as [H1 H2 H3 H4 H5 H6 | y Ht Hx Hp H1 H2 H3 H4 H5 H6 | y Ht Hx Hp H1 H2 H3 H4 H5 H6
                | y H1 H2a H2 H3 H4 H5 H6 | y H1 H2a H2 H3 H4 H5 H6 | y H1 H2 H3 H4 H5 H6 | y H1 H2 H3 H4 H5 H6
                | H1 H2 H3 H4 H5 H6]; rewrite ?H2, ?H3, ?H4, ?H5, ?H6; try rewrite H2a;
    repeat split; intros Hin; try rewrite H1 in *; rewrite ?in_app_iff in *; simpl in *;
    try (rewrite H1 in Hin; simpl in Hin); intuition (subst; auto).
Qed.

Theorem executed_at_most_once : forall c s, R c s -> NoDup (started s).
Proof.
  intros c s H. apply Inv_R in H. destruct H. apply cnt_le1_NoDup. intros x.
  assert (D := part_disj s i_part0 x). rewrite i_started0, cnt_app. unfold held in D.
  destruct (wpc s); simpl in *; try lia.
Qed.

Theorem stw_fifo : forall c s, R c s ->
  (exists rest, filter (keep (disc s ++ repl s)) (enq s) = started s ++ rest) /\
  (forall x, In x (started s) -> ~ In x (disc s ++ repl s)).
Proof.
  intros c s H. apply Inv_R in H. destruct H. split.
  - unfold Ififo, excl in i_fifo0. rewrite i_fifo0, i_started0. unfold held.
    destruct (wpc s); rewrite ?app_nil_r; try (eexists; rewrite <- app_assoc; reflexivity);
      try (exists (queue s); reflexivity); try (eexists; reflexivity).
  - intros x Hx Hd. assert (D := part_disj s i_part0 x). rewrite i_started0 in Hx.
    apply in_app_or in Hx. apply in_app_or in Hd.
    assert (In x (done s) \/ In x (held s)) as [A|A].
    { destruct Hx as [Hx|Hx]; [left; exact Hx|right]. unfold held. destruct (wpc s); try contradiction; exact Hx. }
    + apply cnt_pos_In in A. destruct Hd as [B|B]; apply cnt_pos_In in B; lia.
    + apply cnt_pos_In in A. destruct Hd as [B|B]; apply cnt_pos_In in B; lia.
Qed.

Theorem limit_respected : forall c s, R c s -> limit c > 0 -> length (queue s) <= limit c.
Proof. intros c s H L. apply Inv_R in H. destruct H. destruct i_lim0; lia. Qed.

Theorem no_lost_wakeup : forall c s, R c s -> owner s = None -> In W (waitc s) -> queue s = [].
Proof. intros c s H. apply Inv_R in H. destruct H. apply no_lost_wakeup_inv; assumption. Qed.

Theorem discarded_never_started : forall c s, R c s ->
  NoDup (disc s ++ repl s) /\
  forall x, In x (disc s ++ repl s) ->
    In x (enq s) /\ ~ In x (started s) /\ ~ In x (done s) /\ ~ In x (queue s) /\ ~ In x (held s).
Proof.
  intros c s H. destruct (stw_fifo c s H) as [_ F]. apply Inv_R in H. destruct H. split.
  - apply cnt_le1_NoDup. intros x. assert (D := part_disj s i_part0 x). rewrite cnt_app. lia.
  - intros x Hx. assert (D := part_disj s i_part0 x). split; [apply (excl_in_enq s i_part0); exact Hx|].
    split; [intros Hs; exact (F x Hs Hx)|].
    apply in_app_or in Hx.
    assert (cnt_in x (disc s) + cnt_in x (repl s) >= 1) by (destruct Hx as [B|B]; apply cnt_pos_In in B; lia).
    repeat split; intros A; apply cnt_pos_In in A; lia.
Qed.

(* the transitions of iwstw_shutdown(wait_for_all = false) report exactly the queue, head first *)
Theorem shutdown_discard_step : forall c s t x s', step c s t (EDiscard x) = Some s' -> fn (cl s t) = 3 ->
  cp (cl s t) = Locked \/ cp (cl s t) = DDisc ->
  t <> W /\ has_cb c = true /\ queue s = x :: queue s' /\ disc s' = disc s ++ [x] /\ shut s' = shut s.
Proof.
  intros c s t x s' H F Hc. scases H t; simpl in *; try congruence; try (destruct Hc; congruence);
    repeat split; auto; try congruence.
Qed.

Theorem shutdown_nowait_flag_step : forall c s t s', step c s t (EBcast 0) = Some s' -> t <> W -> fn (cl s t) = 3 ->
  (cp (cl s t) = Locked /\ wf (cl s t) = false /\ shut s = false) \/ cp (cl s t) = DDisc ->
  queue s' = [] /\ disc s' = disc s ++ queue s /\ shut s' = true /\ shut_wait s' = false /\ (has_cb c = true -> queue s = []).
Proof.
  intros c s t s' H Ht F Hc. scases H t; simpl in *; try congruence;
    try (destruct Hc as [(A & B & C)|A]; congruence);
    repeat split; auto; try congruence; rw_facts; rewrite ?app_nil_r; auto.
Qed.

Theorem shutdown_wait_flag_step : forall c s t s', step c s t (EBcast 0) = Some s' -> t <> W -> fn (cl s t) = 3 ->
  cp (cl s t) = Locked -> wf (cl s t) = true -> shut s = false ->
  queue s' = queue s /\ disc s' = disc s /\ shut s' = true /\ shut_wait s' = true.
Proof.
  intros c s t s' H Ht F Hc Hw Hs. scases H t; simpl in *; try congruence; repeat split; auto.
Qed.

(* a full bounded queue rejects or blocks as configured *)
Theorem full_queue_rejects_or_blocks : forall c s t e s', step c s t e = Some s' -> t <> W -> fn (cl s t) = 0 ->
  cp (cl s t) = Locked \/ cp (cl s t) = Woken -> shut s = false -> full c s = true ->
  (blocking c = false -> e = EUnlock /\ cp (cl s' t) = Ret RC_OVERFLOW false /\ enq s' = enq s) /\
  (blocking c = true -> e = EWait 1 /\ cp (cl s' t) = CWait /\ In t (waitq s') /\ blocked s' = true /\ enq s' = enq s).
Proof.
  intros c s t e s' H Ht F Hc Hs Hf. scases H t; simpl in *; try (destruct Hc; congruence); try congruence;
    unfold upd; rewrite ?Nat.eqb_refl; simpl; split; intros B; try congruence; repeat split; auto.
Qed.

(* variant with the re-check: once the worker has gone every linked task has run or was dropped and reported *)
Theorem worker_gone_all_settled : forall c s, R c s -> recheck c = true -> wpc s = WExit \/ wpc s = WDead ->
  shut s = true /\ queue s = [] /\ forall x, In x (enq s) -> In x (done s) \/ In x (disc s) \/ In x (repl s).
Proof.
  intros c s H Hr Hw. destruct (accepted_partition c s H) as (_ & P & _). apply Inv_R in H. destruct H.
  destruct (i_dead0 Hr Hw) as [A B]. split; [exact A|]. split; [exact B|]. intros x Hx. apply P in Hx. rewrite B in Hx.
  assert (Hh : held s = []) by (unfold held; destruct Hw as [Hw|Hw]; rewrite Hw; reflexivity).
  rewrite Hh in Hx. simpl in Hx. rewrite !in_app_iff in Hx. tauto.
Qed.

Theorem shutdown_wait_drains : forall c s t, R c s -> recheck c = true -> t <> W ->
  cp (cl s t) = DJoined \/ cp (cl s t) = DFreed ->
  (forall x, In x (acc s) -> In x (done s) \/ In x (disc s) \/ In x (repl s)) /\
  (shut_wait s = true -> disc s = [] /\ forall x, In x (acc s) -> In x (done s) \/ In x (repl s)).
Proof.
  intros c s t H Hr Ht Hc. assert (I := Inv_R c s H). destruct I.
  assert (Hw : wpc s = WDead) by (eapply i_join0; eauto).
  destruct (worker_gone_all_settled c s H Hr (or_intror Hw)) as (A & B & C).
  assert (X : forall x, In x (acc s) -> In x (done s) \/ In x (disc s) \/ In x (repl s)) by (intros x Hx; apply C, i_acc0, Hx).
  split; [exact X|]. intros Hsw.
  assert (D : disc s = []).
  { unfold Idw in i_dw0. destruct (disc s); [reflexivity|]. rewrite A in i_dw0. congruence. }
  split; [exact D|]. intros x Hx. destruct (X x Hx) as [Y|[Y|Y]]; auto. rewrite D in Y. contradiction.
Qed.

Theorem accepted_eventually : forall c s, R c s -> recheck c = true -> w_dead s = true ->
  forall x, In x (acc s) -> In x (done s) \/ In x (disc s) \/ In x (repl s).
Proof.
  intros c s H Hr Hw x Hx. assert (I := Inv_R c s H). destruct I.
  assert (wpc s = WDead) by (unfold w_dead in Hw; destruct (wpc s); try discriminate; reflexivity).
  destruct (worker_gone_all_settled c s H Hr (or_intror H0)) as (_ & _ & C). apply C, i_acc0, Hx.
Qed.

(* the code as found (no re-check): the real event trace of the directed scenario `stw-blocked-submitter-after-shutdown`
   (queue_limit 1, blocking, discard callback): task 2 is accepted, the worker has finished, shutdown has returned,
   every thread is at rest, and task 2 is neither done nor reported *)
Definition lost_cfg : cfg := mkcfg 1 true true false false.
Definition lost_trace : list (tid * ev) :=
  [(10, ECall 0 0 false); (10, ELock); (10, EEnq 0); (10, EBcast 0); (10, EUnlock); (10, ERet 0 true);
   (0, ELock); (0, EDeq 0); (0, EUnlock); (0, ERun 0);
   (10, ECall 0 1 false); (10, ELock); (10, EEnq 1); (10, EBcast 0); (10, EUnlock); (10, ERet 0 true);
   (10, ECall 0 2 false); (10, ELock); (10, EWait 1);
   (20, ECall 3 0 false); (20, ELock); (20, EDiscard 1); (20, EBcast 0); (20, EBcast 1); (20, EUnlock);
   (0, EDone 0); (0, ELock); (0, EUnlock); (0, EExit);
   (10, EWake 1); (10, EEnq 2); (10, EBcast 0); (10, EUnlock); (10, ERet 0 true);
   (20, EJoin 0); (20, EFree); (20, ERet 0 false)].

Theorem accepted_eventually_refuted : exists s,
  run st (step lost_cfg) init lost_trace = Some s /\ w_dead s = true /\ cl_idle s 10 = true /\ cl_idle s 20 = true /\
  In 2 (acc s) /\ ~ In 2 (done s) /\ ~ In 2 (disc s) /\ ~ In 2 (repl s) /\ queue s = [2] /\ freed s = true.
Proof.
  eexists. split; [vm_compute; reflexivity|]. vm_compute. repeat split; auto; intuition discriminate.
Qed.
