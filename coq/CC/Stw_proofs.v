(* C20 - invariants of the iwstw transition system over all interleavings (induction on the transition relation) *)
Require Import List Bool Arith Lia Permutation.
Require Import IW.CC.Lts IW.CC.Lts_proofs IW.CC.Stw.
Import ListNotations.

Definition R (c : cfg) (s : st) : Prop := reachable st (step c) init s.

(* ---- case analysis of one transition ---- *)
Ltac dcase H :=
  repeat match type of H with
  | context [match ?x with _ => _ end] =>
      let E := fresh "E" in destruct x eqn:E; try discriminate H
  end.

Ltac norm_hyps :=
  repeat match goal with
  | H : owns _ _ = true |- _ => apply owns_true in H
  | H : free_mtx _ = true |- _ => apply free_true in H
  | H : is_nil _ = true |- _ => apply is_nil_true in H
  | H : is_nil _ = false |- _ => apply is_nil_false in H
  | H : (_ && _) = true |- _ => apply andb_true_iff in H; destruct H
  | H : (_ =? _) = true |- _ => apply Nat.eqb_eq in H
  | H : (_ =? _) = false |- _ => apply Nat.eqb_neq in H
  | H : negb _ = true |- _ => apply negb_true_iff in H
  | H : negb _ = false |- _ => apply negb_false_iff in H
  | H : (_ && _) = false |- _ => apply andb_false_iff in H; destruct H
  | H : (_ || _) = true |- _ => apply orb_true_iff in H; destruct H
  | H : (_ || _) = false |- _ => apply orb_false_iff in H; destruct H
  | H : (_ <? _) = true |- _ => apply Nat.ltb_lt in H
  | H : (_ <? _) = false |- _ => apply Nat.ltb_ge in H
  | H : (_ <=? _) = true |- _ => apply Nat.leb_le in H
  | H : (_ <=? _) = false |- _ => apply Nat.leb_gt in H
  | H : memb _ _ = false |- _ => apply memb_false in H
  | H : memb _ _ = true |- _ => apply memb_true in H
  end.

Ltac wcases H := unfold wstep in H; dcase H; norm_hyps; inversion H; subst; clear H.
Ltac ccases H :=
  unfold cstep, locked_step, loop_step, odisc_step, ddisc_step, unlock_ret in H; cbv zeta in H;
  dcase H; norm_hyps; inversion H; subst; clear H.
Ltac scases H t :=
  unfold step in H; destruct (Nat.eqb_spec t W) as [EW|EW]; [subst t; wcases H | ccases H].

Ltac rw_owner := repeat match goal with H : owner _ = _ |- _ => rewrite H in * end.
Ltac updt := unfold set_th; simpl; rewrite ?upd_same.

Ltac destr_owner :=
  match goal with
  | H : owner _ = _ |- _ => idtac
  | s : st |- _ => let u := fresh "u" in let Eo := fresh "Eo" in destruct (owner s) as [u|] eqn:Eo
  end.
Ltac eqbs :=
  repeat match goal with
  | |- context [?a =? ?b] => destruct (Nat.eqb_spec a b); subst; try contradiction; try congruence
  | H : context [?a =? ?b] |- _ => destruct (Nat.eqb_spec a b); subst; try contradiction; try congruence
  end.
Ltac rw_facts :=
  repeat match goal with
  | H : owner _ = _ |- _ => rewrite H in *
  | H : queue _ = _ |- _ => rewrite H in *
  | H : cp (cl _ _) = _ |- _ => rewrite H in *
  | H : wpc _ = _ |- _ => rewrite H in *
  end.

(* ---- I1: cnt is the length of the queue, except inside a discard loop ---- *)
Definition Icnt (s : st) : Prop :=
  match owner s with
  | Some t => if t =? W then cnt s = length (queue s)
              else match cp (cl s t) with ODisc | DDisc => True | _ => cnt s = length (queue s) end
  | None => cnt s = length (queue s)
  end.

Lemma Icnt_step : forall c s t e s', Icnt s -> step c s t e = Some s' -> Icnt s'.
Proof.
  intros c s t e s' I H. scases H t; unfold Icnt in *; destr_owner; simpl in *; unfold upd; rw_facts; simpl in *; eqbs;
    simpl in *; rw_facts; simpl in *; rewrite ?app_length; simpl; try lia; auto.
Qed.

(* ---- I2: a bounded queue never holds more than queue_limit tasks ---- *)
Definition Ilim (c : cfg) (s : st) : Prop := limit c = 0 \/ length (queue s) <= limit c.

Lemma Ilim_step : forall c s t e s', Icnt s -> Ilim c s -> step c s t e = Some s' -> Ilim c s'.
Proof.
  intros c s t e s' IC I H. unfold Ilim in *. destruct I as [I|I]; [left; exact I|].
  destruct (Nat.eq_dec (limit c) 0) as [Z|Z]; [left; exact Z|right].
  scases H t; unfold Icnt, full, canunblock in *; simpl in *; rw_facts; simpl in *; norm_hyps; eqbs; simpl in *;
    rewrite ?app_length; simpl; try lia.
Qed.

(* ---- I3: between the broadcast and the wait of the worker's idle path the mutex is held and the queue is empty ---- *)
Definition Iw2b (s : st) : Prop := wpc s = WL2b -> owner s = Some W /\ queue s = [].

Lemma Iw2b_step : forall c s t e s', Iw2b s -> step c s t e = Some s' -> Iw2b s'.
Proof.
  intros c s t e s' I H. unfold Iw2b in *.
  scases H t; simpl in *; intros HW; try discriminate HW; try (specialize (I HW); destruct I as [I1 I2]);
    rw_facts; try congruence; auto.
Qed.

(* ---- I4: no lost wake-up: the worker is parked only while the queue is empty, or the thread that has just linked a
        task still holds the mutex and is about to broadcast ---- *)
Definition Inlw (s : st) : Prop :=
  In W (waitc s) ->
  queue s = [] \/ match owner s with Some t => if t =? W then False else cp (cl s t) = Enq | None => False end.

Lemma Inlw_step : forall c s t e s', Iw2b s -> Inlw s -> step c s t e = Some s' -> Inlw s'.
Proof.
  intros c s t e s' I2 I H. unfold Inlw, Iw2b in *.
  scases H t; simpl in *; intros Hin; try contradiction;
    try (left; assumption); try (left; apply I2; first [assumption|reflexivity]);
    try (apply remove1_In in Hin; destruct Hin as [Hin _]);
    first [ specialize (I Hin) | clear I ];
    destr_owner; unfold upd in *; rw_facts; simpl in *; eqbs; simpl in *; rw_facts;
    try (destruct I as [I|I]; try discriminate I; try contradiction); auto; try congruence;
    try (left; apply I2; reflexivity).
Qed.

Lemma no_lost_wakeup_inv : forall s, Iw2b s -> Inlw s -> owner s = None -> In W (waitc s) -> queue s = [].
Proof. intros s _ I Ho Hin. destruct (I Hin) as [Q|Q]; [exact Q|]. rewrite Ho in Q. contradiction. Qed.

(* ---- I5/I6: task ids are fresh; every linked task is in exactly one of queued / held by the worker / done /
        dropped by shutdown / dropped by schedule_only ---- *)
Definition cnt_in (x : task) (l : list task) : nat := count_occ Nat.eq_dec l x.
Definition parts (s : st) : list task := queue s ++ held s ++ done s ++ disc s ++ repl s.
Definition pre_enq (th : cthr) : bool :=
  match cp th with Start | Locked => fn th <? 3 | CWait | Woken | ODisc => true | _ => false end.

Definition Iused (s : st) : Prop := forall x, In x (enq s) -> In x (used s).
Definition Ifresh (s : st) : Prop :=
  forall t, t <> W -> pre_enq (cl s t) = true ->
    In (tk (cl s t)) (used s) /\ ~ In (tk (cl s t)) (enq s) /\
    forall u, u <> W -> u <> t -> pre_enq (cl s u) = true -> tk (cl s u) <> tk (cl s t).
Definition Ipart (s : st) : Prop :=
  forall x, cnt_in x (enq s) = cnt_in x (parts s) /\ cnt_in x (enq s) <= 1.

Ltac pre_enq_now := unfold pre_enq; rw_facts; repeat match goal with H : fn _ = _ |- _ => rewrite H end; reflexivity.

Lemma Iused_step : forall c s t e s', Ifresh s -> Iused s -> step c s t e = Some s' -> Iused s'.
Proof.
  intros c s t e s' IF I H. unfold Iused in *.
  scases H t; simpl in *; intros y Hy; try (apply in_app_or in Hy; destruct Hy as [Hy|[Hy|[]]]); subst; auto;
    (eapply proj1, IF; [assumption|pre_enq_now]).
Qed.

(* effect of one transition on the thread table, used and enq *)
Lemma wstep_frame : forall c s e s', wstep c s e = Some s' -> cl s' = cl s /\ used s' = used s /\ enq s' = enq s.
Proof. intros c s e s' H. wcases H; simpl; auto. Qed.

Lemma cstep_frame : forall c s t e s', cstep c s t e = Some s' ->
  (forall u, u <> t -> cl s' u = cl s u) /\
  (cp (cl s t) = Idle ->
     enq s' = enq s /\
     ((pre_enq (cl s' t) = true /\ ~ In (tk (cl s' t)) (used s) /\ used s' = tk (cl s' t) :: used s) \/
      (pre_enq (cl s' t) = false /\ used s' = used s))) /\
  (cp (cl s t) <> Idle ->
     used s' = used s /\ tk (cl s' t) = tk (cl s t) /\
     ((enq s' = enq s /\ (pre_enq (cl s' t) = true -> pre_enq (cl s t) = true)) \/
      (enq s' = enq s ++ [tk (cl s t)] /\ pre_enq (cl s t) = true /\ pre_enq (cl s' t) = false))).
Proof.
  intros c s t e s' H. ccases H; simpl; unfold upd; rewrite ?Nat.eqb_refl; simpl;
  (split; [intros u Hu; destruct (Nat.eqb_spec u t); [contradiction|reflexivity]|]);
  (split; [intros HI; try congruence | intros HN; try congruence]);
  unfold pre_enq; simpl; rw_facts; simpl;
  repeat match goal with H : fn _ = _ |- _ => rewrite H end; simpl;
  repeat (split; [reflexivity|]);
  first [ solve [left; repeat split; auto; try (apply Nat.ltb_lt; assumption); try discriminate; try congruence]
        | solve [right; repeat split; auto; try (apply Nat.ltb_ge; assumption)] ].
Qed.

Lemma idle_dec : forall p : cpcT, p = Idle \/ p <> Idle.
Proof. destruct p; (left; reflexivity) || (right; discriminate). Qed.

Lemma Ifresh_step : forall c s t e s', Iused s -> Ifresh s -> step c s t e = Some s' -> Ifresh s'.
Proof.
  intros c s t e s' IU I H. unfold step in H. destruct (Nat.eqb_spec t W) as [EW|EW].
  - subst. apply wstep_frame in H. destruct H as (Hc & Hu & He). unfold Ifresh. rewrite Hc, Hu, He. exact I.
  - apply cstep_frame in H. destruct H as (Hfr & HI & HN).
    destruct (idle_dec (cp (cl s t))) as [Ei|Ei].
    + destruct (HI Ei) as (He & [(Hp & Hx & Hu)|(Hp & Hu)]); clear HI HN.
      * intros u Huw Hpre. rewrite He, Hu. destruct (Nat.eq_dec u t) as [->|Ne].
        -- split; [left; reflexivity|]. split; [intros Hin; apply Hx; apply IU; exact Hin|].
           intros u0 H0 H0t Hp0. rewrite (Hfr u0 H0t) in *. intros Eq. apply Hx. rewrite <- Eq.
           apply (I u0 H0 Hp0).
        -- rewrite (Hfr u Ne) in *. destruct (I u Huw Hpre) as (A & B & C).
           split; [right; exact A|]. split; [exact B|].
           intros u0 H0 H0u Hp0. destruct (Nat.eq_dec u0 t) as [->|Ne0].
           ++ intros Eq. apply Hx. rewrite Eq. exact A.
           ++ rewrite (Hfr u0 Ne0) in *. apply C; assumption.
      * intros u Huw Hpre. rewrite He, Hu. destruct (Nat.eq_dec u t) as [->|Ne]; [congruence|].
        rewrite (Hfr u Ne) in *. destruct (I u Huw Hpre) as (A & B & C). split; [exact A|]. split; [exact B|].
        intros u0 H0 H0u Hp0. destruct (Nat.eq_dec u0 t) as [->|Ne0]; [congruence|].
        rewrite (Hfr u0 Ne0) in *. apply C; assumption.
    + destruct (HN Ei) as (Hu & Htk & [(He & Hp)|(He & Hp & Hp')]); clear HI HN.
      * intros u Huw Hpre. rewrite He, Hu. destruct (Nat.eq_dec u t) as [->|Ne].
        -- rewrite Htk. destruct (I t EW (Hp Hpre)) as (A & B & C). split; [exact A|]. split; [exact B|].
           intros u0 H0 H0t Hp0. rewrite (Hfr u0 H0t) in *. apply C; assumption.
        -- rewrite (Hfr u Ne) in *. destruct (I u Huw Hpre) as (A & B & C). split; [exact A|]. split; [exact B|].
           intros u0 H0 H0u Hp0. destruct (Nat.eq_dec u0 t) as [->|Ne0].
           ++ rewrite Htk. apply C; auto.
           ++ rewrite (Hfr u0 Ne0) in *. apply C; assumption.
      * intros u Huw Hpre. rewrite He, Hu. destruct (Nat.eq_dec u t) as [->|Ne]; [congruence|].
        rewrite (Hfr u Ne) in *. destruct (I u Huw Hpre) as (A & B & C). split; [exact A|].
        split.
        -- intros Hin. apply in_app_or in Hin. destruct Hin as [Hin|[Hin|[]]]; [exact (B Hin)|].
           apply (C t EW (not_eq_sym Ne) Hp). exact Hin.
        -- intros u0 H0 H0u Hp0. destruct (Nat.eq_dec u0 t) as [->|Ne0]; [congruence|].
           rewrite (Hfr u0 Ne0) in *. apply C; assumption.
Qed.

(* effect of one transition on the task lists *)
Inductive qeff (s s' : st) (t : tid) : Prop :=
| QSame : queue s' = queue s -> held s' = held s -> done s' = done s -> disc s' = disc s -> repl s' = repl s ->
          enq s' = enq s -> qeff s s' t
| QEnq : forall x, t <> W -> x = tk (cl s t) -> pre_enq (cl s t) = true ->
          queue s' = queue s ++ [x] -> held s' = held s -> done s' = done s -> disc s' = disc s -> repl s' = repl s ->
          enq s' = enq s ++ [x] -> qeff s s' t
| QRepl : forall x, t <> W -> x = tk (cl s t) -> pre_enq (cl s t) = true ->
          queue s' = [x] -> held s' = held s -> done s' = done s -> disc s' = disc s -> repl s' = repl s ++ queue s ->
          enq s' = enq s ++ [x] -> qeff s s' t
| QDeq : forall x, queue s = x :: queue s' -> held s = [] -> held s' = [x] -> done s' = done s -> disc s' = disc s ->
          repl s' = repl s -> enq s' = enq s -> qeff s s' t
| QDone : forall x, queue s' = queue s -> held s = [x] -> held s' = [] -> done s' = done s ++ [x] -> disc s' = disc s ->
          repl s' = repl s -> enq s' = enq s -> qeff s s' t
| QDisc : forall x, queue s = x :: queue s' -> held s' = held s -> done s' = done s -> disc s' = disc s ++ [x] ->
          repl s' = repl s -> enq s' = enq s -> qeff s s' t
| QReplD : forall x, queue s = x :: queue s' -> held s' = held s -> done s' = done s -> disc s' = disc s ->
          repl s' = repl s ++ [x] -> enq s' = enq s -> qeff s s' t
| QClear : queue s' = [] -> held s' = held s -> done s' = done s -> disc s' = disc s ++ queue s ->
          repl s' = repl s -> enq s' = enq s -> qeff s s' t.

Lemma step_qeff : forall c s t e s', step c s t e = Some s' -> qeff s s' t.
Proof.
  intros c s t e s' H. unfold step in H. destruct (Nat.eqb_spec t W) as [EW|EW].
  - subst t. wcases H;
      first [ solve [apply QSame; unfold held; simpl; rw_facts; reflexivity]
            | solve [eapply QDeq; unfold held; simpl; rw_facts; try reflexivity; eassumption]
            | solve [eapply QDone; unfold held; simpl; rw_facts; reflexivity] ].
  - ccases H;
      first [ solve [apply QSame; reflexivity]
            | solve [eapply QEnq; try reflexivity; try assumption; pre_enq_now]
            | solve [eapply QRepl; try reflexivity; try assumption; simpl; rw_facts; try reflexivity; pre_enq_now]
            | solve [eapply QDisc; simpl; try reflexivity; eassumption]
            | solve [eapply QReplD; simpl; try reflexivity; eassumption]
            | solve [eapply QClear; simpl; rw_facts; rewrite ?app_nil_r; reflexivity] ].
Qed.

Ltac cnt_fin :=
  unfold cnt_in in *; repeat rewrite count_occ_app in *; simpl in *;
  repeat match goal with |- context [Nat.eq_dec ?a ?b] => destruct (Nat.eq_dec a b); subst end;
  repeat rewrite count_occ_app in *; simpl in *;
  repeat match goal with H : context [count_occ] |- _ => progress unfold task in H end; unfold task;
  try (split; timeout 5 lia); try (timeout 5 lia).

Lemma Ipart_step : forall c s t e s', Ifresh s -> Ipart s -> step c s t e = Some s' -> Ipart s'.
Proof.
  intros c s t e s' IF I H. apply step_qeff in H. unfold Ipart in *. intros y. destruct (I y) as [P Q]. clear I.
  unfold parts in *.
  destruct H as [H1 H2 H3 H4 H5 H6 | x Ht Hx Hp H1 H2 H3 H4 H5 H6 | x Ht Hx Hp H1 H2 H3 H4 H5 H6
                | x H1 H2a H2 H3 H4 H5 H6 | x H1 H2a H2 H3 H4 H5 H6 | x H1 H2 H3 H4 H5 H6 | x H1 H2 H3 H4 H5 H6
                | H1 H2 H3 H4 H5 H6];
    try (assert (Z : ~ In x (enq s)) by (subst x; apply IF; assumption);
         apply (count_occ_not_In Nat.eq_dec) in Z);
    rewrite ?H1, ?H2, ?H3, ?H4, ?H5, ?H6 in *; try rewrite H2a in *; cnt_fin.
Qed.

(* ---- I7: fn is entered in dequeue order; started = done ++ the running task ---- *)
Definition Istarted (s : st) : Prop :=
  started s = done s ++ match wpc s with WRun => [wtk s] | _ => [] end.

Lemma Istarted_step : forall c s t e s', Istarted s -> step c s t e = Some s' -> Istarted s'.
Proof.
  intros c s t e s' I H. unfold Istarted in *.
  scases H t; simpl in *; rw_facts; simpl in *; rewrite ?app_nil_r in *; try rewrite <- app_assoc; try congruence; auto.
Qed.
