(* Deadlock freedom of the lock skeleton: when every call requests its locks in strictly increasing rank order, every
   reachable state in which some call has not returned has an enabled step - for any number of threads, any calls. *)
Require Import List ZArith Bool Lia. Import ListNotations.
Require Import IW.CC.KvLocks.

Definition tinv (t : thread) : Prop :=
  increasing (todo t) /\ forall h r, In h (held t) -> hd_error (todo t) = Some r -> rank h < rank r.
Definition Inv (s : state) : Prop := Forall tinv s.

Lemma tinv_step t : tinv t -> tinv (step_thread t).
Proof.
  intros [Hi Hh]. unfold step_thread. destruct (todo t) as [|r rest] eqn:E.
  - split; simpl; [exact I|intros h r [] _].
  - split; simpl.
    + destruct rest; [exact I|]. simpl in Hi. tauto.
    + intros h r' Hin Hr'. destruct rest as [|r2 rest']; [discriminate|]. simpl in Hr'. inversion Hr'; subst.
      simpl in Hi. destruct Hi as [Hlt _]. destruct Hin as [<-|Hin]; [exact Hlt|].
      specialize (Hh h r Hin eq_refl). lia.
Qed.

Lemma upd_nth_Forall (P : thread -> Prop) s i t : Forall P s -> P t -> Forall P (upd_nth s i t).
Proof.
  revert i; induction s as [|x s IH]; intros i Hs Ht; simpl; [constructor|].
  inversion Hs; subst. destruct i; constructor; auto.
Qed.

Lemma inv_step s i : Inv s -> Inv (do_step s i).
Proof.
  intros H. unfold do_step. destruct (nth_error s i) as [t|] eqn:E; [|exact H].
  apply upd_nth_Forall; [exact H|]. apply tinv_step.
  unfold Inv in H. rewrite Forall_forall in H. apply H. eapply nth_error_In; eauto.
Qed.

Theorem inv_reachable s0 s : Inv s0 -> reach s0 s -> Inv s.
Proof. intros H0 Hr. induction Hr; [exact H0|]. apply inv_step. assumption. Qed.

(* a thread that blocks request r holds the very lock r asks for *)
Lemma incompat_holds r t : compat r t = false -> exists h, In h (held t) /\ fst (fst h) = fst (fst r).
Proof.
  unfold compat. intros H.
  assert (Hex : exists h, In h (held t) /\ compat1 r h = false).
  { induction (held t) as [|h l IH]; simpl in H; [discriminate|].
    destruct (compat1 r h) eqn:E; [destruct (IH H) as [h' [Hin Hc]]; exists h'; split; [right|]; assumption|].
    exists h. split; [left; reflexivity|exact E]. }
  destruct Hex as [h [Hin Hc]]. exists h. split; [exact Hin|].
  unfold compat1, lock_eqb in Hc. destruct (Nat.eqb (fst (fst r)) (fst (fst h))) eqn:E1; simpl in Hc; [|discriminate].
  apply Nat.eqb_eq in E1. lia.
Qed.

Lemma others_compat_false r i : forall s j, others_compat r i s j = false ->
  exists k t, nth_error s k = Some t /\ j + k <> i /\ compat r t = false.
Proof.
  induction s as [|t s IH]; intros j H; simpl in H; [discriminate|].
  destruct (Nat.eqb i j) eqn:E.
  - simpl in H. destruct (IH (S j) H) as [k [t' [Hn [Hne Hc]]]]. exists (S k), t'. repeat split; auto. lia.
  - destruct (compat r t) eqn:Ec.
    + simpl in H. destruct (IH (S j) H) as [k [t' [Hn [Hne Hc]]]]. exists (S k), t'. repeat split; auto. lia.
    + exists 0, t. apply Nat.eqb_neq in E. repeat split; auto. lia.
Qed.

(* 1 + head request rank of a waiting thread, 0 for a thread that requests nothing *)
Definition want (t : thread) : nat := match todo t with r :: _ => S (rank r) | [] => 0 end.

Lemma max_want (s : state) : s <> [] -> exists i t, nth_error s i = Some t /\ forall u, In u s -> want u <= want t.
Proof.
  induction s as [|x s IH]; intros Hne; [congruence|].
  destruct s as [|y s'].
  - exists 0, x. split; [reflexivity|]. intros u [<-|[]]. lia.
  - destruct (IH ltac:(discriminate)) as [i [t [Hn Hmax]]].
    destruct (Nat.le_gt_cases (want x) (want t)) as [Hle|Hgt].
    + exists (S i), t. split; [exact Hn|]. intros u [<-|Hu]; [exact Hle|apply Hmax; exact Hu].
    + exists 0, x. split; [reflexivity|]. intros u [<-|Hu]; [lia|]. specialize (Hmax u Hu). lia.
Qed.

Definition releasable (t : thread) : bool :=
  match todo t, held t with [], _ :: _ => true | _, _ => false end.

Lemma releasable_can_step s i t : nth_error s i = Some t -> releasable t = true -> can_step s i = true.
Proof.
  intros Hn Hr. unfold can_step. rewrite Hn. unfold releasable in Hr.
  destruct (todo t); [|discriminate]. destruct (held t); [discriminate|reflexivity].
Qed.

Theorem no_deadlock s :
  Inv s -> (exists t, In t s /\ unfinished t) -> exists i, can_step s i = true.
Proof.
  intros Hinv [t0 [Hin0 Hun0]].
  destruct (existsb releasable s) eqn:Er.
  - (* a thread that has all its locks releases *)
    apply existsb_exists in Er. destruct Er as [t [Hin Hr]].
    destruct (In_nth_error _ _ Hin) as [i Hi]. exists i. eapply releasable_can_step; eauto.
  - (* otherwise every unfinished thread waits for a lock; take the one that wants the highest rank *)
    assert (Hnr : forall u, In u s -> releasable u = false).
    { intros u Hu. destruct (releasable u) eqn:E; [|reflexivity].
      assert (existsb releasable s = true) by (apply existsb_exists; exists u; auto). congruence. }
    assert (Hne : s <> []) by (destruct s; [destruct Hin0|discriminate]).
    destruct (max_want s Hne) as [i [t [Hn Hmax]]].
    exists i. unfold can_step. rewrite Hn.
    assert (Hw0 : 1 <= want t0).
    { unfold want. destruct (todo t0) as [|r ?] eqn:E; [|lia]. exfalso.
      destruct Hun0 as [Hh|Ht]; [|congruence].
      specialize (Hnr t0 Hin0). unfold releasable in Hnr. rewrite E in Hnr. destruct (held t0); [congruence|discriminate]. }
    pose proof (Hmax t0 Hin0) as Hm0.
    destruct (todo t) as [|r rest] eqn:Et; [assert (want t = 0) by (unfold want; rewrite Et; reflexivity); lia|].
    destruct (others_compat r i s 0) eqn:Ec; [reflexivity|exfalso].
    destruct (others_compat_false r i s 0 Ec) as [k [u [Hk [Hne' Hc]]]].
    destruct (incompat_holds r u Hc) as [h [Hh Hrank]].
    assert (Hu : In u s) by (eapply nth_error_In; eauto).
    (* u holds a lock and cannot release, so it waits for a lock of higher rank than any it holds *)
    destruct (todo u) as [|r' rest'] eqn:Eu.
    + specialize (Hnr u Hu). unfold releasable in Hnr. rewrite Eu in Hnr. destruct (held u); [destruct Hh|discriminate].
    + unfold Inv in Hinv. rewrite Forall_forall in Hinv. destruct (Hinv u Hu) as [_ Hlt].
      specialize (Hlt h r' Hh ltac:(rewrite Eu; reflexivity)).
      specialize (Hmax u Hu).
      assert (want u = S (rank r')) by (unfold want; rewrite Eu; reflexivity).
      assert (want t = S (rank r)) by (unfold want; rewrite Et; reflexivity).
      unfold rank in *. lia.
Qed.

(* the initial state: nothing held, every thread about to run one call with increasing ranks *)
Lemma inv_init (calls : list (list req)) :
  Forall increasing calls -> Inv (map (fun c => {| held := []; todo := c |}) calls).
Proof.
  intros H. unfold Inv. rewrite Forall_map. rewrite Forall_forall in *. intros c Hc.
  split; simpl; [apply H; exact Hc|intros h r []].
Qed.

Theorem no_deadlock_reachable (calls : list (list req)) (s : state) :
  Forall increasing calls ->
  reach (map (fun c => {| held := []; todo := c |}) calls) s ->
  (exists t, In t s /\ unfinished t) -> exists i, can_step s i = true.
Proof.
  intros Hc Hr Hu. apply no_deadlock; [|exact Hu]. eapply inv_reachable; [apply inv_init; exact Hc|exact Hr].
Qed.

(* the API skeletons follow the discipline *)
Lemma skeletons_increasing db :
  increasing (call_put db) /\ increasing (call_get db) /\ increasing call_db_create /\ increasing call_sync.
Proof. unfold call_put, call_get, call_db_create, call_sync, increasing, rank; simpl. repeat split; lia. Qed.
