(* C07 - API calls are lock-balanced: a call returns holding none of the locks it took.
   Programs are the acquire / release programs of CC/LockOrder.v.  `held_after` runs a program on a held set; the
   summaries below are the lock programs of the paths of iwkv_db() (src/kv/iwkv.c): the database is found by the first,
   read-locked look-up; it is created under the exclusive lock; it is found by the second look-up under the exclusive lock
   because another thread created it in between (same flags: handle returned; other flags: IWKV_ERROR_INCOMPATIBLE_DB_MODE).
   Before 107860a the last path returned without iwkv_exclusive_unlock(): `db_lost_race_prefix`.
   Lock-event traces of the implementation (harness/h_preempt.c) are mapped onto the same programs (`trace_prog`), so the
   extracted `trace_balanced` judges the real sequence of every call the preemption explorer runs.
   No proofs in this file (CC/Balance_proofs.v). *)
Require Import List ZArith Bool Lia. Import ListNotations.
Require Import IW.CC.KvLocks IW.CC.LockOrder IW.CC.Sections.

Fixpoint held_after (h : list req) (p : list act) : list req :=
  match p with
  | [] => h
  | Acq r :: p' => held_after (r :: h) p'
  | Rel l :: p' => held_after (remove_first l h) p'
  end.
Definition balanced (p : list act) : Prop := held_after [] p = [].

(* ranks of the lock-class table of CC/LockOrder.v *)
Definition l_wk : lock := (1, 0).
Definition l_store : lock := (2, 0).
Definition l_db (d : nat) : lock := (3, d).
Definition l_fsm : lock := (4, 0).
Definition l_exf : lock := (5, 0).
Definition l_wal : lock := (6, 0).

Definition db_lookup : list act := [Acq (l_store, KvLocks.Rd); Rel l_store].
(* iwkv_exclusive_lock: _wnw takes the worker mutex, then the store lock for writing, releases the mutex *)
Definition excl_enter : list act := [Acq (l_wk, KvLocks.Wr); Acq (l_store, KvLocks.Wr); Rel l_wk].
Definition db_create_body : list act :=
  [Acq (l_fsm, KvLocks.Wr); Acq (l_exf, KvLocks.Rd); Rel l_exf; Rel l_fsm;
   Acq (l_exf, KvLocks.Rd); Acq (l_wal, KvLocks.Wr); Rel l_wal; Rel l_exf].
Definition db_found : list act := db_lookup.
Definition db_created : list act := db_lookup ++ excl_enter ++ db_create_body ++ [Rel l_store].
Definition db_lost_race : list act := db_lookup ++ excl_enter ++ [Rel l_store].
Definition db_lost_race_prefix : list act := db_lookup ++ excl_enter.
Definition iwkv_db_summaries : list (list act) := [db_found; db_created; db_lost_race].

(* a schedule of thread indices, every step enabled *)
Fixpoint run_sched (s : dstate) (l : list nat) : option dstate :=
  match l with
  | [] => Some s
  | i :: r => if dcan_step s i then run_sched (ddo_step s i) r else None
  end.
Definition fresh_threads (progs : list (list act)) : dstate := map (fun p => {| dheld := []; dprog := p |}) progs.

(* lock events of the implementation as a program (one instance per class: a thread holds one database lock at a time) *)
Definition lock_of_cls (c : cls) : lock :=
  match c with
  | CWk => (1, 0) | CStore => (2, 0) | CDb => (3, 0) | CFsm => (4, 0) | CExf => (5, 0) | CWal => (6, 0) | CSpin => (7, 0)
  | COther => (8, 0)
  end.
Definition act_of_ev (e : ev) : act :=
  match e with
  | EA c wr => Acq (lock_of_cls c, if wr then KvLocks.Wr else KvLocks.Rd)
  | ER c => Rel (lock_of_cls c)
  end.
Definition trace_prog (tr : list ev) : list act := map act_of_ev tr.
Definition trace_balanced (tr : list ev) : bool :=
  match held_after [] (trace_prog tr) with [] => true | _ => false end.

(* the lock events of the two iwkv_db calls of the explorer scenario `dbrace` at hand-over point 1, loser's side:
   after 107860a and before *)
Definition dbrace_loser_trace : list ev :=
  [EA CStore false; ER CStore; EA CWk true; EA CStore true; ER CWk; ER CStore].
Definition dbrace_loser_trace_prefix : list ev :=
  [EA CStore false; ER CStore; EA CWk true; EA CStore true; ER CWk].
