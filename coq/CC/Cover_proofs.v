(* C20 - the two transition systems have no dead transition: every transition of Stw.step / Tp.step (from ANY state,
   reachable or not) has the same edge (Cover.stw_edge / Cover.tp_edge: source pc, function, event kind, target pc, the
   tests the branch reads) as a transition that is taken in a run from the initial state - except the four Stw edges of
   Cover.stw_dead_edges, which are transitions of the model (stw_dead_edges_syntactic) that no reachable state takes
   (stw_dead_edges_unreachable). *)
Require Import List Bool Arith Lia.
Require Import IW.CC.Lts IW.CC.Lts_proofs IW.CC.Cover.
Require IW.CC.Stw IW.CC.Tp IW.CC.Stw_proofs IW.CC.Tp_proofs.
Import ListNotations.

(* ---- edges: decidable membership ---- *)
Lemma edge_eqb_eq : forall a b, edge_eqb a b = true <-> a = b.
Proof.
  intros [[[[a1 a2] a3] a4] a5] [[[[b1 b2] b3] b4] b5]. unfold edge_eqb. rewrite !andb_true_iff, !Nat.eqb_eq.
  split; [intros [[[[-> ->] ->] ->] ->]; reflexivity|intros H; inversion H; auto].
Qed.

Lemma edge_mem_In : forall e l, edge_mem e l = true <-> In e l.
Proof.
  intros e l. unfold edge_mem. rewrite existsb_exists. split.
  - intros [x [Hx E]]. apply edge_eqb_eq in E. subst. exact Hx.
  - intros H. exists e. split; [exact H|apply edge_eqb_eq; reflexivity].
Qed.

Lemma edge_mem_false : forall e l, edge_mem e l = false <-> ~ In e l.
Proof. intros e l. rewrite <- edge_mem_In. destruct (edge_mem e l); split; congruence. Qed.

Lemma edge_nodup_In : forall e l, In e (edge_nodup l) <-> In e l.
Proof.
  intros e l. induction l as [|a l IH]; simpl; [tauto|].
  destruct (edge_mem a l) eqn:M; simpl; rewrite IH; [|tauto].
  apply edge_mem_In in M. split; [auto|intros [<-|H]; assumption].
Qed.

Lemma edge_nodup_NoDup : forall l, NoDup (edge_nodup l).
Proof.
  induction l as [|a l IH]; simpl; [constructor|].
  destruct (edge_mem a l) eqn:M; [exact IH|]. constructor; [|exact IH].
  rewrite edge_nodup_In. apply edge_mem_false. exact M.
Qed.

(* ---- every edge collected along a run from a reachable state is the edge of a transition from a reachable state ---- *)
Section Sound.
  Variable S : Type.
  Variable step : S -> tid -> ev -> option S.
  Variable edge_of : S -> tid -> ev -> S -> edge.

  Lemma edges_run_sound : forall init tr s0 e,
    reachable S step init s0 -> In e (edges_run S step edge_of s0 tr) ->
    exists s t ev s', reachable S step init s /\ step s t ev = Some s' /\ edge_of s t ev s' = e.
  Proof.
    intros init. induction tr as [|[t ev] tr IH]; intros s0 e Hr Hin; simpl in Hin; [contradiction|].
    destruct (step s0 t ev) as [s1|] eqn:E; [|contradiction]. destruct Hin as [<-|Hin].
    - exists s0, t, ev, s1. auto.
    - apply (IH s1 e); [eapply reachable_step; eauto|exact Hin].
  Qed.
End Sound.

(* ======================= iwstw ======================= *)
Module StwCover.
Import IW.CC.Stw IW.CC.Stw_proofs.

Definition stw_edge_set : list edge := Eval vm_compute in edge_nodup stw_edges.

Lemma stw_edge_set_eq : stw_edge_set = edge_nodup stw_edges.
Proof. vm_compute. reflexivity. Qed.

Lemma stw_edge_set_In : forall e, edge_mem e stw_edge_set = true -> In e stw_edges.
Proof. intros e H. apply edge_mem_In in H. rewrite stw_edge_set_eq in H. exact (proj1 (edge_nodup_In e stw_edges) H). Qed.

(* (a) *)
Theorem stw_witness_sound : forall e, In e stw_edges ->
  exists c s t ev s', R c s /\ step c s t ev = Some s' /\ stw_edge c s t ev s' = e.
Proof.
  intros e H. unfold stw_edges in H. apply in_flat_map in H. destruct H as [[c tr] [_ H]]. simpl in H.
  unfold stw_edges_of_run in H. apply (edges_run_sound st (step c) (stw_edge c) init) in H; [|apply reachable_init].
  destruct H as (s & t & ev & s' & A & B & C). exists c, s, t, ev, s'. auto.
Qed.

(* (b) case analysis over the branches of step; each case is closed by computing the edge and looking it up *)
Definition covered (e : edge) : bool := edge_mem e stw_edge_set || edge_mem e stw_dead_edges.

Ltac rw_bools :=
  repeat match goal with
  | H : ?x = true |- context [?x] => rewrite H
  | H : ?x = false |- context [?x] => rewrite H
  | H : queue _ = _ |- _ => rewrite H
  | H : cp (cl _ _) = _ |- _ => rewrite H
  | H : fn (cl _ _) = _ |- _ => rewrite H
  | H : wpc _ = _ |- _ => rewrite H
  end.
Ltac split_rest :=
  repeat match goal with
  | |- context [b2n ?b] => destruct b eqn:?; simpl
  | |- context [if ?b then _ else _] => destruct b eqn:?; simpl
  end.
Ltac enum_f :=
  try match goal with H : (?f <? 3) = _ |- _ => is_var f;
    destruct f as [|[|[|[|[|f]]]]]; simpl in *; try discriminate end.
Ltac fin :=
  enum_f; simpl; rw_bools; simpl; norm_hyps; try discriminate; try congruence; subst; simpl; rw_bools; simpl;
  rewrite ?Nat.eqb_refl; simpl; split_rest; try reflexivity.
Ltac edge_cases H :=
  unfold stw_edge, stw_aux, stw_fn; unfold step in H;
  match type of H with (if ?t =? W then _ else _) = _ =>
    let EW := fresh "EW" in destruct (t =? W) eqn:EW;
    [ unfold wstep in H; dcase H; inversion H; subst; clear H
    | unfold cstep, locked_step, loop_step, odisc_step, ddisc_step, unlock_ret in H; cbv zeta in H; cbv zeta;
      dcase H; inversion H; subst; clear H; unfold set_th, upd ]
  end.

Lemma stw_covered : forall c s t e s', step c s t e = Some s' -> covered (stw_edge c s t e s') = true.
Proof. intros c s t e s' H. edge_cases H; fin. Qed.

(* ---- the dead edges ---- *)
(* the pc's that are only entered under a configuration flag *)
Definition cfg_ok (c : cfg) (th : cthr) : bool :=
  match cp th with CWait | Woken => blocking c | ODisc | DDisc => has_cb c | _ => true end.
Definition Icfg (c : cfg) (s : st) : Prop := forall u, u <> W -> cfg_ok c (cl s u) = true.

Lemma Icfg_step : forall c s t e s', Icfg c s -> step c s t e = Some s' -> Icfg c s'.
Proof.
  intros c s t e s' I H. unfold Icfg in *. assert (It := I t).
  scases H t; intros u Hu; specialize (I u Hu); unfold cfg_ok in *; per_thread I u Hu; rw_facts; auto;
    try (specialize (It EW)); rw_facts; auto.
Qed.

Lemma Icfg_R : forall c s, R c s -> Icfg c s.
Proof.
  intros c s H. eapply invariant_reachable; [|apply Icfg_step|exact H]. intros u _. reflexivity.
Qed.

Lemma stw_dead_needs_bad_cfg : forall c s t e s', step c s t e = Some s' ->
  edge_mem (stw_edge c s t e s') stw_dead_edges = true -> t <> W /\ cfg_ok c (cl s t) = false.
Proof.
  intros c s t e s' H. unfold cfg_ok. edge_cases H; fin; intros X; try discriminate X;
    (split; [assumption|reflexivity]).
Qed.

Theorem stw_dead_edges_unreachable : forall c s t ev s', R c s -> step c s t ev = Some s' ->
  ~ In (stw_edge c s t ev s') stw_dead_edges.
Proof.
  intros c s t ev s' HR H Hin. apply edge_mem_In in Hin. destruct (stw_dead_needs_bad_cfg c s t ev s' H Hin) as [Ht Hc].
  rewrite (Icfg_R c s HR t Ht) in Hc. discriminate Hc.
Qed.

Lemma stw_dead_edges_disjoint : forall e, In e stw_dead_edges -> ~ In e stw_edges.
Proof.
  intros e Hd Hin. assert (X : forallb (fun d => negb (edge_mem d stw_edge_set)) stw_dead_edges = true) by (vm_compute; reflexivity).
  rewrite forallb_forall in X. specialize (X e Hd). apply negb_true_iff in X. apply edge_mem_false in X. apply X.
  rewrite stw_edge_set_eq. exact (proj2 (edge_nodup_In e stw_edges) Hin).
Qed.

(* they are transitions of the model: (unreachable) states that take them *)
Definition dead_state (p : cpcT) (q : list task) (n : nat) (sh : bool) : st :=
  set_th (set_shut (set_cnt (set_queue (set_owner init (Some 10)) q) n) sh) 10 (mkc p 0 7 false).

Theorem stw_dead_edges_syntactic : forall e, In e stw_dead_edges ->
  exists c s t ev s', step c s t ev = Some s' /\ stw_edge c s t ev s' = e.
Proof.
  intros e [<-|[<-|[<-|[<-|[]]]]].
  - exists (mkcfg 1 false false true), (dead_state Woken [1] 1 false), 10, EUnlock. eexists. split; vm_compute; reflexivity.
  - exists (mkcfg 1 false false true), (dead_state Woken [1] 1 true), 10, EUnlock. eexists. split; vm_compute; reflexivity.
  - exists (mkcfg 0 false false true), (dead_state ODisc [1] 1 false), 10, (EEnq 7). eexists. split; vm_compute; reflexivity.
  - exists (mkcfg 0 false false true), (dead_state DDisc [1] 1 false), 10, (EBcast 0). eexists. split; vm_compute; reflexivity.
Qed.

(* (b) *)
Theorem stw_edges_complete : forall c s t ev s', step c s t ev = Some s' ->
  In (stw_edge c s t ev s') stw_edges \/ In (stw_edge c s t ev s') stw_dead_edges.
Proof.
  intros c s t ev s' H. apply stw_covered in H. unfold covered in H. apply orb_true_iff in H.
  destruct H as [H|H]; [left; apply stw_edge_set_In; exact H|right; apply edge_mem_In; exact H].
Qed.

(* (c) *)
Theorem stw_no_dead_transition : forall c s t ev s', step c s t ev = Some s' ->
  ~ In (stw_edge c s t ev s') stw_dead_edges ->
  exists c0 s0 t0 ev0 s0', R c0 s0 /\ step c0 s0 t0 ev0 = Some s0' /\ stw_edge c0 s0 t0 ev0 s0' = stw_edge c s t ev s'.
Proof.
  intros c s t ev s' H Hd. destruct (stw_edges_complete c s t ev s' H) as [Hin|Hin]; [|contradiction].
  apply stw_witness_sound. exact Hin.
Qed.

(* (d) *)
Lemma stw_edge_count : length (edge_nodup stw_edges) = 63 /\ length stw_dead_edges = 4 /\ length stw_witness = 26.
Proof. vm_compute. repeat split; reflexivity. Qed.
End StwCover.

(* ======================= iwtp ======================= *)
Module TpCover.
Import IW.CC.Tp IW.CC.Tp_proofs.

Definition tp_edge_set : list edge := Eval vm_compute in edge_nodup tp_edges.

Lemma tp_edge_set_eq : tp_edge_set = edge_nodup tp_edges.
Proof. vm_compute. reflexivity. Qed.

Lemma tp_edge_set_In : forall e, edge_mem e tp_edge_set = true -> In e tp_edges.
Proof. intros e H. apply edge_mem_In in H. rewrite tp_edge_set_eq in H. exact (proj1 (edge_nodup_In e tp_edges) H). Qed.

Theorem tp_witness_sound : forall e, In e tp_edges ->
  exists c s t ev s', R c s /\ step c s t ev = Some s' /\ tp_edge c s t ev s' = e.
Proof.
  intros e H. unfold tp_edges in H. apply in_flat_map in H. destruct H as [[c tr] [_ H]]. simpl in H.
  unfold tp_edges_of_run in H. apply (edges_run_sound st (step c) (tp_edge c) (init c)) in H; [|apply reachable_init].
  destruct H as (s & t & ev & s' & A & B & C). exists c, s, t, ev, s'. auto.
Qed.

Ltac rw_bools :=
  repeat match goal with
  | H : ?x = true |- context [?x] => rewrite H
  | H : ?x = false |- context [?x] => rewrite H
  | H : queue _ = _ |- _ => rewrite H
  | H : pc (th _ _) = _ |- _ => rewrite H
  | H : fn (th _ _) = _ |- _ => rewrite H
  end.
Ltac split_rest :=
  repeat match goal with
  | |- context [b2n ?b] => destruct b eqn:?; simpl
  | |- context [if ?b then _ else _] => destruct b eqn:?; simpl
  end.
Ltac fin :=
  simpl; rw_bools; simpl; norm_hyps; try discriminate; try congruence; subst; simpl; rw_bools; simpl;
  rewrite ?Nat.eqb_refl; simpl; split_rest; try reflexivity.

Lemma tp_covered : forall c s t e s', step c s t e = Some s' -> edge_mem (tp_edge c s t e s') tp_edge_set = true.
Proof.
  intros c s t e s' H. unfold tp_edge, tp_aux, tp_fn.
  unfold step, unlock_to in H; cbv zeta in H; cbv zeta; dcase H; inversion H; subst; clear H; unfold set_thr, upd; fin.
Qed.

Theorem tp_edges_complete : forall c s t ev s', step c s t ev = Some s' -> In (tp_edge c s t ev s') tp_edges.
Proof. intros c s t ev s' H. apply tp_edge_set_In. eapply tp_covered; exact H. Qed.

Theorem tp_no_dead_transition : forall c s t ev s', step c s t ev = Some s' ->
  exists c0 s0 t0 ev0 s0', R c0 s0 /\ step c0 s0 t0 ev0 = Some s0' /\ tp_edge c0 s0 t0 ev0 s0' = tp_edge c s t ev s'.
Proof. intros c s t ev s' H. apply tp_witness_sound. eapply tp_edges_complete; exact H. Qed.

Lemma tp_edge_count : length (edge_nodup tp_edges) = 47 /\ length tp_witness = 15.
Proof. vm_compute. repeat split; reflexivity. Qed.
End TpCover.

(* ======================= summary ======================= *)
Definition stw_witness_sound := StwCover.stw_witness_sound.
Definition stw_edges_complete := StwCover.stw_edges_complete.
Definition stw_dead_edges_unreachable := StwCover.stw_dead_edges_unreachable.
Definition stw_dead_edges_syntactic := StwCover.stw_dead_edges_syntactic.
Definition stw_dead_edges_disjoint := StwCover.stw_dead_edges_disjoint.
Definition stw_no_dead_transition := StwCover.stw_no_dead_transition.
Definition stw_edge_count := StwCover.stw_edge_count.
Definition tp_witness_sound := TpCover.tp_witness_sound.
Definition tp_edges_complete := TpCover.tp_edges_complete.
Definition tp_no_dead_transition := TpCover.tp_no_dead_transition.
Definition tp_edge_count := TpCover.tp_edge_count.

Print Assumptions stw_witness_sound.
Print Assumptions stw_edges_complete.
Print Assumptions stw_dead_edges_unreachable.
Print Assumptions stw_dead_edges_syntactic.
Print Assumptions stw_dead_edges_disjoint.
Print Assumptions stw_no_dead_transition.
Print Assumptions stw_edge_count.
Print Assumptions tp_witness_sound.
Print Assumptions tp_edges_complete.
Print Assumptions tp_no_dead_transition.
Print Assumptions tp_edge_count.
