(* C20 - the two transition systems have no dead transition: every transition of Stw.step / Tp.step (from ANY state,
   reachable or not) has the same edge (Cover.stw_edge / Cover.tp_edge: source pc, function, event kind, target pc, the
   tests the branch reads) as a transition that is taken in a run from the initial state - except the four Stw edges of
   Cover.stw_dead_edges, which are transitions of the model (stw_dead_edges_syntactic) that no reachable state takes
   (stw_dead_edges_unreachable). *)
Require Import List Bool Arith Lia.
Require Import IW.CC.Lts IW.CC.Lts_proofs IW.CC.Cover.
Require IW.CC.Stw IW.CC.Tp.
Import ListNotations.

(* the kernel must unfold these names (not run the witness traces) when it compares them with their definitions *)
Local Strategy expand [stw_edges stw_edges_fixed tp_edges tp_edges_fixed].

(* The case-analysis tactics are those of Stw_proofs.v / Tp_proofs.v, repeated here so that this file depends on the
   models only; StwCover.R / TpCover.R are the same definitions as Stw_proofs.R / Tp_proofs.R (convertible). *)
Ltac dcase H :=
  repeat match type of H with
  | context [match ?x with _ => _ end] =>
      let E := fresh "E" in destruct x eqn:E; try discriminate H
  end.

Ltac norm_hyps :=
  repeat match goal with
  | H : owns _ _ = true |- _ => apply owns_true in H
  | H : free_mtx _ = true |- _ => apply free_true in H
  | H : is_nil _ = true |- _ => apply is_nil_true in H
  | H : is_nil _ = false |- _ => apply is_nil_false in H
  | H : (_ && _) = true |- _ => apply andb_true_iff in H; destruct H
  | H : (_ && _) = false |- _ => apply andb_false_iff in H; destruct H
  | H : (_ || _) = true |- _ => apply orb_true_iff in H; destruct H
  | H : (_ || _) = false |- _ => apply orb_false_iff in H; destruct H
  | H : (_ =? _) = true |- _ => apply Nat.eqb_eq in H
  | H : (_ =? _) = false |- _ => apply Nat.eqb_neq in H
  | H : (_ <? _) = true |- _ => apply Nat.ltb_lt in H
  | H : (_ <? _) = false |- _ => apply Nat.ltb_ge in H
  | H : (_ <=? _) = true |- _ => apply Nat.leb_le in H
  | H : (_ <=? _) = false |- _ => apply Nat.leb_gt in H
  | H : negb _ = true |- _ => apply negb_true_iff in H
  | H : negb _ = false |- _ => apply negb_false_iff in H
  | H : memb _ _ = false |- _ => apply memb_false in H
  | H : memb _ _ = true |- _ => apply memb_true in H
  end.

(* ---- edges: decidable membership ---- *)
Lemma edge_eqb_eq : forall a b, edge_eqb a b = true <-> a = b.
Proof.
  intros [[[[a1 a2] a3] a4] a5] [[[[b1 b2] b3] b4] b5]. unfold edge_eqb. rewrite !andb_true_iff, !Nat.eqb_eq.
  split; [intros [[[[-> ->] ->] ->] ->]; reflexivity|intros H; inversion H; auto].
Qed.

Lemma edge_mem_In : forall e l, edge_mem e l = true <-> In e l.
Proof.
  intros e l. unfold edge_mem. rewrite existsb_exists. split.
  - intros [x [Hx E]]. apply edge_eqb_eq in E. subst. exact Hx.
  - intros H. exists e. split; [exact H|apply edge_eqb_eq; reflexivity].
Qed.

Lemma edge_mem_false : forall e l, edge_mem e l = false <-> ~ In e l.
Proof. intros e l. rewrite <- edge_mem_In. destruct (edge_mem e l); split; congruence. Qed.

Lemma edge_nodup_In : forall e l, In e (edge_nodup l) <-> In e l.
Proof.
  intros e l. induction l as [|a l IH]; simpl; [tauto|].
  destruct (edge_mem a l) eqn:M; simpl; rewrite IH; [|tauto].
  apply edge_mem_In in M. split; [auto|intros [<-|H]; assumption].
Qed.

Lemma edge_nodup_NoDup : forall l, NoDup (edge_nodup l).
Proof.
  induction l as [|a l IH]; simpl; [constructor|].
  destruct (edge_mem a l) eqn:M; [exact IH|]. constructor; [|exact IH].
  rewrite edge_nodup_In. apply edge_mem_false. exact M.
Qed.

(* ---- every edge collected along a run from a reachable state is the edge of a transition from a reachable state ---- *)
Section Sound.
  Variable S : Type.
  Variable step : S -> tid -> ev -> option S.
  Variable edge_of : S -> tid -> ev -> S -> edge.

  Lemma edges_run_sound : forall init tr s0 e,
    reachable S step init s0 -> In e (edges_run S step edge_of s0 tr) ->
    exists s t ev s', reachable S step init s /\ step s t ev = Some s' /\ edge_of s t ev s' = e.
  Proof.
    intros init. induction tr as [|[t ev] tr IH]; intros s0 e Hr Hin; simpl in Hin; [contradiction|].
    destruct (step s0 t ev) as [s1|] eqn:E; [|contradiction]. destruct Hin as [<-|Hin].
    - exists s0, t, ev, s1. auto.
    - apply (IH s1 e); [eapply reachable_step; eauto|exact Hin].
  Qed.
End Sound.

(* ======================= iwstw ======================= *)
Module StwCover.
Import IW.CC.Stw.

Definition R (c : cfg) (s : st) : Prop := reachable st (step c) init s.

Ltac wcases H := unfold wstep in H; dcase H; norm_hyps; inversion H; subst; clear H.
Ltac ccases H :=
  unfold cstep, locked_step, loop_step, odisc_step, ddisc_step, unlock_ret in H; cbv zeta in H;
  dcase H; norm_hyps; inversion H; subst; clear H.
Ltac scases H t :=
  unfold step in H; destruct (Nat.eqb_spec t W) as [EW|EW]; [subst t; wcases H | ccases H].
Ltac rw_facts :=
  repeat match goal with
  | H : owner _ = _ |- _ => rewrite H in *
  | H : queue _ = _ |- _ => rewrite H in *
  | H : cp (cl _ _) = _ |- _ => rewrite H in *
  | H : wpc _ = _ |- _ => rewrite H in *
  end.
Ltac per_thread u :=
  simpl in *; unfold upd in *;
  try (match goal with |- context [u =? ?t] => destruct (Nat.eqb_spec u t); [subst u|] end);
  try (match goal with H : context [u =? ?t] |- _ => destruct (Nat.eqb_spec u t); [subst u|] end);
  simpl in *.

Definition stw_edge_set : list edge := Eval vm_compute in edge_nodup stw_edges.

Lemma stw_edge_set_eq : stw_edge_set = edge_nodup stw_edges.
Proof. vm_compute. reflexivity. Qed.

Lemma stw_edge_set_In : forall e, edge_mem e stw_edge_set = true -> In e stw_edges.
Proof. intros e H. apply edge_mem_In in H. rewrite stw_edge_set_eq in H. exact (proj1 (edge_nodup_In e stw_edges) H). Qed.

(* (a) *)
Theorem stw_witness_sound : forall e, In e stw_edges ->
  exists c s t ev s', R c s /\ step c s t ev = Some s' /\ stw_edge c s t ev s' = e.
Proof.
  intros e H. unfold stw_edges in H. apply in_flat_map in H. destruct H as [[c tr] [_ H]]. simpl in H.
  unfold stw_edges_of_run in H. apply (edges_run_sound st (step c) (stw_edge c) init) in H; [|apply reachable_init].
  destruct H as (s & t & ev & s' & A & B & C). exists c, s, t, ev, s'. auto.
Qed.

(* (b) case analysis over the branches of step; each case is closed by computing the edge and looking it up *)
Definition covered (e : edge) : bool := edge_mem e stw_edge_set || edge_mem e stw_dead_edges.

Ltac rw_bools :=
  repeat match goal with
  | H : ?x = true |- context [?x] => rewrite H
  | H : ?x = false |- context [?x] => rewrite H
  | H : queue _ = _ |- _ => rewrite H
  | H : cp (cl _ _) = _ |- _ => rewrite H
  | H : fn (cl _ _) = _ |- _ => rewrite H
  | H : wpc _ = _ |- _ => rewrite H
  end.
Ltac split_rest :=
  repeat match goal with
  | |- context [b2n ?b] => destruct b eqn:?; simpl
  | |- context [if ?b then _ else _] => destruct b eqn:?; simpl
  end.
Ltac enum_f :=
  try match goal with H : (?f <? 3) = _ |- _ => is_var f;
    destruct f as [|[|[|[|[|f]]]]]; simpl in *; try discriminate end.
Ltac fin :=
  enum_f; simpl; rw_bools; simpl; norm_hyps; try discriminate; try congruence; subst; simpl; rw_bools; simpl;
  rewrite ?Nat.eqb_refl; simpl; split_rest; try reflexivity.
Ltac edge_cases H :=
  unfold stw_edge, stw_aux, stw_fn; unfold step in H;
  match type of H with (if ?t =? W then _ else _) = _ =>
    let EW := fresh "EW" in destruct (t =? W) eqn:EW;
    [ unfold wstep in H; dcase H; inversion H; subst; clear H
    | unfold cstep, locked_step, loop_step, odisc_step, ddisc_step, unlock_ret in H; cbv zeta in H; cbv zeta;
      dcase H; inversion H; subst; clear H; unfold set_th, upd ]
  end.

Lemma stw_covered : forall c s t e s', step c s t e = Some s' -> covered (stw_edge c s t e s') = true.
Proof. intros c s t e s' H. edge_cases H; fin. Qed.

(* ---- the dead edges ---- *)
(* the pc's that are only entered under a configuration flag *)
Definition cfg_ok (c : cfg) (th : cthr) : bool :=
  match cp th with CWait | Woken => blocking c | ODisc | DDisc => has_cb c | _ => true end.
Definition Icfg (c : cfg) (s : st) : Prop := forall u, u <> W -> cfg_ok c (cl s u) = true.

Lemma Icfg_step : forall c s t e s', Icfg c s -> step c s t e = Some s' -> Icfg c s'.
Proof.
  intros c s t e s' I H. unfold Icfg in *. assert (It := I t).
  scases H t; intros u Hu; specialize (I u Hu); unfold cfg_ok in *; per_thread u; rw_facts; auto;
    try (specialize (It EW)); rw_facts; auto.
Qed.

Lemma Icfg_R : forall c s, R c s -> Icfg c s.
Proof.
  intros c s H. eapply invariant_reachable; [|apply Icfg_step|exact H]. intros u _. reflexivity.
Qed.

Lemma stw_dead_needs_bad_cfg : forall c s t e s', step c s t e = Some s' ->
  edge_mem (stw_edge c s t e s') stw_dead_edges = true -> t <> W /\ cfg_ok c (cl s t) = false.
Proof.
  intros c s t e s' H. unfold cfg_ok. edge_cases H; fin; intros X; try discriminate X;
    (split; [assumption|reflexivity]).
Qed.

Theorem stw_dead_edges_unreachable : forall c s t ev s', R c s -> step c s t ev = Some s' ->
  ~ In (stw_edge c s t ev s') stw_dead_edges.
Proof.
  intros c s t ev s' HR H Hin. apply edge_mem_In in Hin. destruct (stw_dead_needs_bad_cfg c s t ev s' H Hin) as [Ht Hc].
  rewrite (Icfg_R c s HR t Ht) in Hc. discriminate Hc.
Qed.

Lemma stw_dead_edges_disjoint : forall e, In e stw_dead_edges -> ~ In e stw_edges.
Proof.
  intros e Hd Hin. assert (X : forallb (fun d => negb (edge_mem d stw_edge_set)) stw_dead_edges = true) by (vm_compute; reflexivity).
  rewrite forallb_forall in X. specialize (X e Hd). apply negb_true_iff in X. apply edge_mem_false in X. apply X.
  rewrite stw_edge_set_eq. exact (proj2 (edge_nodup_In e stw_edges) Hin).
Qed.

(* they are transitions of the model: (unreachable) states that take them *)
Definition dead_state (p : cpcT) (q : list task) (n : nat) (sh : bool) : st :=
  set_th (set_shut (set_cnt (set_queue (set_owner init (Some 10)) q) n) sh) 10 (mkc p 0 7 false).

Theorem stw_dead_edges_syntactic : forall e, In e stw_dead_edges ->
  exists c s t ev s', step c s t ev = Some s' /\ stw_edge c s t ev s' = e.
Proof.
  intros e [<-|[<-|[<-|[<-|[]]]]].
  - exists (mkcfg 1 false false true true), (dead_state Woken [1] 1 false), 10, EUnlock. eexists. split; vm_compute; reflexivity.
  - exists (mkcfg 1 false false true true), (dead_state Woken [1] 1 true), 10, EUnlock. eexists. split; vm_compute; reflexivity.
  - exists (mkcfg 0 false false true true), (dead_state ODisc [1] 1 false), 10, (EEnq 7). eexists. split; vm_compute; reflexivity.
  - exists (mkcfg 0 false false true true), (dead_state DDisc [1] 1 false), 10, (EBcast 0). eexists. split; vm_compute; reflexivity.
Qed.

(* (b) *)
Theorem stw_edges_complete : forall c s t ev s', step c s t ev = Some s' ->
  In (stw_edge c s t ev s') stw_edges \/ In (stw_edge c s t ev s') stw_dead_edges.
Proof.
  intros c s t ev s' H. apply stw_covered in H. unfold covered in H. apply orb_true_iff in H.
  destruct H as [H|H]; [left; apply stw_edge_set_In; exact H|right; apply edge_mem_In; exact H].
Qed.

(* (c) *)
Theorem stw_no_dead_transition : forall c s t ev s', step c s t ev = Some s' ->
  ~ In (stw_edge c s t ev s') stw_dead_edges ->
  exists c0 s0 t0 ev0 s0', R c0 s0 /\ step c0 s0 t0 ev0 = Some s0' /\ stw_edge c0 s0 t0 ev0 s0' = stw_edge c s t ev s'.
Proof.
  intros c s t ev s' H Hd. destruct (stw_edges_complete c s t ev s' H) as [Hin|Hin]; [|contradiction].
  apply stw_witness_sound. exact Hin.
Qed.

(* ---- the current variant of the code (recheck = true) ---- *)
Lemma stw_fixed_sound : forall e, In e stw_edges_fixed ->
  exists c s t ev s', recheck c = true /\ R c s /\ step c s t ev = Some s' /\ stw_edge c s t ev s' = e.
Proof.
  intros e H. unfold stw_edges_fixed in H. apply in_flat_map in H. destruct H as [[c tr] [Hw H]]. simpl in H.
  apply filter_In in Hw. destruct Hw as [_ Hc]. simpl in Hc.
  unfold stw_edges_of_run in H. apply (edges_run_sound st (step c) (stw_edge c) init) in H; [|apply reachable_init].
  destruct H as (s & t & ev & s' & A & B & C). exists c, s, t, ev, s'. auto.
Qed.

Lemma stw_fixed_covers : forall e, In e stw_edges -> In e stw_edges_fixed \/ In e stw_variant_edges.
Proof.
  intros e H.
  assert (X : forallb (fun d => edge_mem d (edge_nodup stw_edges_fixed) || edge_mem d stw_variant_edges) stw_edge_set = true)
    by (vm_compute; reflexivity).
  rewrite forallb_forall in X. specialize (X e). rewrite stw_edge_set_eq in X.
  specialize (X (proj2 (edge_nodup_In e stw_edges) H)). apply orb_true_iff in X.
  destruct X as [X|X]; [left|right]; apply edge_mem_In in X; [exact (proj1 (edge_nodup_In e stw_edges_fixed) X)|exact X].
Qed.

(* no state at all takes them when the re-check is present *)
Theorem stw_variant_edges_unreachable : forall c s t ev s', recheck c = true -> step c s t ev = Some s' ->
  ~ In (stw_edge c s t ev s') stw_variant_edges.
Proof.
  intros c s t ev s' Hc H Hin. apply edge_mem_In in Hin. revert Hin.
  edge_cases H; fin; intros X; try discriminate X; rewrite Hc in *; simpl in *; congruence.
Qed.

Lemma stw_variant_edges_live : forall e, In e stw_variant_edges -> In e stw_edges /\ ~ In e stw_edges_fixed.
Proof.
  intros e H.
  assert (X : forallb (fun d => edge_mem d stw_edge_set && negb (edge_mem d (edge_nodup stw_edges_fixed))) stw_variant_edges = true)
    by (vm_compute; reflexivity).
  rewrite forallb_forall in X. specialize (X e H). apply andb_true_iff in X. destruct X as [X1 X2]. split.
  - apply stw_edge_set_In. exact X1.
  - apply negb_true_iff, edge_mem_false in X2. intros Hin. apply X2. exact (proj2 (edge_nodup_In e stw_edges_fixed) Hin).
Qed.

Theorem stw_no_dead_transition_fixed : forall c s t ev s', step c s t ev = Some s' ->
  ~ In (stw_edge c s t ev s') stw_dead_edges -> ~ In (stw_edge c s t ev s') stw_variant_edges ->
  exists c0 s0 t0 ev0 s0', recheck c0 = true /\ R c0 s0 /\ step c0 s0 t0 ev0 = Some s0' /\
    stw_edge c0 s0 t0 ev0 s0' = stw_edge c s t ev s'.
Proof.
  intros c s t ev s' H Hd Hv. destruct (stw_edges_complete c s t ev s' H) as [Hin|Hin]; [|contradiction].
  destruct (stw_fixed_covers _ Hin) as [Hf|Hf]; [|contradiction]. apply stw_fixed_sound. exact Hf.
Qed.

(* (d) *)
Lemma stw_edge_count : length (edge_nodup stw_edges) = 71 /\ length stw_dead_edges = 4 /\ length stw_witness = 32.
Proof. vm_compute. repeat split; reflexivity. Qed.
End StwCover.

(* ======================= iwtp ======================= *)
Module TpCover.
Import IW.CC.Tp.

Definition R (c : cfg) (s : st) : Prop := reachable st (step c) (init c) s.

Ltac tcases H := unfold step, unlock_to in H; cbv zeta in H; dcase H; norm_hyps; inversion H; subst; clear H.
Ltac rw_facts :=
  repeat match goal with
  | H : owner _ = _ |- _ => rewrite H in *
  | H : queue _ = _ |- _ => rewrite H in *
  | H : pc (th _ _) = _ |- _ => rewrite H in *
  end.
Ltac thr_cases u :=
  simpl in *; unfold upd in *;
  repeat match goal with
  | H : context [u =? ?a] |- _ => destruct (Nat.eqb_spec u a); [subst u|]
  | |- context [u =? ?a] => destruct (Nat.eqb_spec u a); [subst u|]
  end; simpl in *.

Definition tp_edge_set : list edge := Eval vm_compute in edge_nodup tp_edges.

Lemma tp_edge_set_eq : tp_edge_set = edge_nodup tp_edges.
Proof. vm_compute. reflexivity. Qed.

Lemma tp_edge_set_In : forall e, edge_mem e tp_edge_set = true -> In e tp_edges.
Proof. intros e H. apply edge_mem_In in H. rewrite tp_edge_set_eq in H. exact (proj1 (edge_nodup_In e tp_edges) H). Qed.

Theorem tp_witness_sound : forall e, In e tp_edges ->
  exists c s t ev s', R c s /\ step c s t ev = Some s' /\ tp_edge c s t ev s' = e.
Proof.
  intros e H. unfold tp_edges in H. apply in_flat_map in H. destruct H as [[c tr] [_ H]]. simpl in H.
  unfold tp_edges_of_run in H. apply (edges_run_sound st (step c) (tp_edge c) (init c)) in H; [|apply reachable_init].
  destruct H as (s & t & ev & s' & A & B & C). exists c, s, t, ev, s'. auto.
Qed.

Ltac rw_bools :=
  repeat match goal with
  | H : ?x = true |- context [?x] => rewrite H
  | H : ?x = false |- context [?x] => rewrite H
  | H : queue _ = _ |- _ => rewrite H
  | H : pc (th _ _) = _ |- _ => rewrite H
  | H : fn (th _ _) = _ |- _ => rewrite H
  end.
Ltac split_rest :=
  repeat match goal with
  | |- context [b2n ?b] => destruct b eqn:?; simpl
  | |- context [if ?b then _ else _] => destruct b eqn:?; simpl
  end.
Ltac fin :=
  simpl; rw_bools; simpl; norm_hyps; try discriminate; try congruence; subst; simpl; rw_bools; simpl;
  rewrite ?Nat.eqb_refl; simpl; split_rest; try reflexivity.

Lemma tp_covered : forall c s t e s', step c s t e = Some s' -> edge_mem (tp_edge c s t e s') tp_edge_set = true.
Proof.
  intros c s t e s' H. unfold tp_edge, tp_aux, tp_fn.
  unfold step, unlock_to in H; cbv zeta in H; cbv zeta; dcase H; inversion H; subst; clear H; unfold set_thr, upd; fin.
Qed.

Theorem tp_edges_complete : forall c s t ev s', step c s t ev = Some s' -> In (tp_edge c s t ev s') tp_edges.
Proof. intros c s t ev s' H. apply tp_edge_set_In. eapply tp_covered; exact H. Qed.

Theorem tp_no_dead_transition : forall c s t ev s', step c s t ev = Some s' ->
  exists c0 s0 t0 ev0 s0', R c0 s0 /\ step c0 s0 t0 ev0 = Some s0' /\ tp_edge c0 s0 t0 ev0 s0' = tp_edge c s t ev s'.
Proof. intros c s t ev s' H. apply tp_witness_sound. eapply tp_edges_complete; exact H. Qed.

(* ---- the current variant of the code (chk = true, reg = true) ---- *)
Lemma tp_fixed_sound : forall e, In e tp_edges_fixed ->
  exists c s t ev s', chk c = true /\ reg c = true /\ R c s /\ step c s t ev = Some s' /\ tp_edge c s t ev s' = e.
Proof.
  intros e H. unfold tp_edges_fixed in H. apply in_flat_map in H. destruct H as [[c tr] [Hw H]]. simpl in H.
  apply filter_In in Hw. destruct Hw as [_ Hc]. simpl in Hc. apply andb_true_iff in Hc. destruct Hc as [Hc1 Hc2].
  unfold tp_edges_of_run in H. apply (edges_run_sound st (step c) (tp_edge c) (init c)) in H; [|apply reachable_init].
  destruct H as (s & t & ev & s' & A & B & C). exists c, s, t, ev, s'. auto.
Qed.

Lemma tp_fixed_covers : forall e, In e tp_edges -> In e tp_edges_fixed \/ In e tp_variant_edges.
Proof.
  intros e H.
  assert (X : forallb (fun d => edge_mem d (edge_nodup tp_edges_fixed) || edge_mem d tp_variant_edges) tp_edge_set = true)
    by (vm_compute; reflexivity).
  rewrite forallb_forall in X. specialize (X e). rewrite tp_edge_set_eq in X.
  specialize (X (proj2 (edge_nodup_In e tp_edges) H)). apply orb_true_iff in X.
  destruct X as [X|X]; [left|right]; apply edge_mem_In in X; [exact (proj1 (edge_nodup_In e tp_edges_fixed) X)|exact X].
Qed.

Lemma tp_variant_edges_live : forall e, In e tp_variant_edges -> In e tp_edges /\ ~ In e tp_edges_fixed.
Proof.
  intros e H.
  assert (X : forallb (fun d => edge_mem d tp_edge_set && negb (edge_mem d (edge_nodup tp_edges_fixed))) tp_variant_edges = true)
    by (vm_compute; reflexivity).
  rewrite forallb_forall in X. specialize (X e H). apply andb_true_iff in X. destruct X as [X1 X2]. split.
  - apply tp_edge_set_In. exact X1.
  - apply negb_true_iff, edge_mem_false in X2. intros Hin. apply X2. exact (proj2 (edge_nodup_In e tp_edges_fixed) Hin).
Qed.

(* with the registration every thread created with _worker_fn that has not yet looked itself up is in tp->threads *)
Definition Ireg (c : cfg) (s : st) : Prop :=
  reg c = true -> forall u, pc (th s u) = TStart \/ pc (th s u) = TReg -> In u (regs s).

Lemma Ireg_step : forall c s t e s', Ireg c s -> step c s t e = Some s' -> Ireg c s'.
Proof.
  intros c s t e s' I H. unfold Ireg in *. intros Hr. specialize (I Hr).
  tcases H; intros u Hu; assert (Iu := I u); thr_cases u; rw_facts; auto;
    try (destruct Hu as [Hu|Hu]; discriminate Hu); try congruence;
    try (apply in_or_app; simpl; auto; fail);
    try (apply in_or_app; left; auto; fail).
  - apply remove_first_keeps; auto.
Qed.

Lemma Ireg_R : forall c s, R c s -> Ireg c s.
Proof.
  intros c s H. eapply invariant_reachable; [|apply Ireg_step|exact H].
  intros _ u Hu. simpl in *. destruct (Nat.ltb_spec u (nthreads c)) as [L|G].
  - apply in_seq. lia.
  - simpl in Hu. destruct Hu as [Hu|Hu]; discriminate Hu.
Qed.

Theorem tp_variant_edges_unreachable : forall c s t ev s', chk c = true -> reg c = true -> R c s ->
  step c s t ev = Some s' -> ~ In (tp_edge c s t ev s') tp_variant_edges.
Proof.
  intros c s t ev s' Hc Hg HR H Hin. apply edge_mem_In in Hin. revert Hin. assert (I := Ireg_R c s HR Hg t).
  unfold tp_edge, tp_aux, tp_fn.
  unfold step, unlock_to in H; cbv zeta in H; cbv zeta; dcase H; inversion H; subst; clear H; unfold set_thr, upd; fin;
    intros X; try discriminate X; rewrite ?Hc, ?Hg in *; simpl in *; try congruence.
  apply find_first_none in E2. apply E2, I. right. reflexivity.
Qed.

Theorem tp_no_dead_transition_fixed : forall c s t ev s', step c s t ev = Some s' ->
  ~ In (tp_edge c s t ev s') tp_variant_edges ->
  exists c0 s0 t0 ev0 s0', chk c0 = true /\ reg c0 = true /\ R c0 s0 /\ step c0 s0 t0 ev0 = Some s0' /\
    tp_edge c0 s0 t0 ev0 s0' = tp_edge c s t ev s'.
Proof.
  intros c s t ev s' H Hv. assert (Hin := tp_edges_complete c s t ev s' H).
  destruct (tp_fixed_covers _ Hin) as [Hf|Hf]; [|contradiction]. apply tp_fixed_sound. exact Hf.
Qed.

Lemma tp_edge_count : length (edge_nodup tp_edges) = 47 /\ length tp_witness = 16.
Proof. vm_compute. repeat split; reflexivity. Qed.
End TpCover.

(* ======================= summary ======================= *)
Definition stw_witness_sound := StwCover.stw_witness_sound.
Definition stw_edges_complete := StwCover.stw_edges_complete.
Definition stw_dead_edges_unreachable := StwCover.stw_dead_edges_unreachable.
Definition stw_dead_edges_syntactic := StwCover.stw_dead_edges_syntactic.
Definition stw_dead_edges_disjoint := StwCover.stw_dead_edges_disjoint.
Definition stw_no_dead_transition := StwCover.stw_no_dead_transition.
Definition stw_edge_count := StwCover.stw_edge_count.
Definition stw_variant_edges_unreachable := StwCover.stw_variant_edges_unreachable.
Definition stw_variant_edges_live := StwCover.stw_variant_edges_live.
Definition stw_no_dead_transition_fixed := StwCover.stw_no_dead_transition_fixed.
Definition tp_witness_sound := TpCover.tp_witness_sound.
Definition tp_edges_complete := TpCover.tp_edges_complete.
Definition tp_no_dead_transition := TpCover.tp_no_dead_transition.
Definition tp_edge_count := TpCover.tp_edge_count.
Definition tp_variant_edges_unreachable := TpCover.tp_variant_edges_unreachable.
Definition tp_variant_edges_live := TpCover.tp_variant_edges_live.
Definition tp_no_dead_transition_fixed := TpCover.tp_no_dead_transition_fixed.

Print Assumptions stw_witness_sound.
Print Assumptions stw_edges_complete.
Print Assumptions stw_dead_edges_unreachable.
Print Assumptions stw_dead_edges_syntactic.
Print Assumptions stw_dead_edges_disjoint.
Print Assumptions stw_no_dead_transition.
Print Assumptions stw_edge_count.
Print Assumptions tp_witness_sound.
Print Assumptions tp_edges_complete.
Print Assumptions tp_no_dead_transition.
Print Assumptions tp_edge_count.
Print Assumptions stw_variant_edges_unreachable.
Print Assumptions stw_variant_edges_live.
Print Assumptions stw_no_dead_transition_fixed.
Print Assumptions tp_variant_edges_unreachable.
Print Assumptions tp_variant_edges_live.
Print Assumptions tp_no_dead_transition_fixed.
