(* C07 - the lock skeleton of the KV API as a labelled transition system.
   Locks are reader/writer locks identified by (rank, instance): rank 1 = the store lock (iwkv->rwl), rank 2 = a
   database lock (db->rwl, one per database), rank 3 = the allocator control lock, rank 4 = the file (exfile)
   lock, rank 5 = the log mutex.  An API call is a list of lock requests taken in order, an atomic data step while
   all of them are held, and the releases.  Threads run one call at a time.  (Writer preference of the rwlocks and
   the worker-count/condition-variable handshake of exclusive sections are NOT in this model.) *)
Require Import List ZArith Bool Lia. Import ListNotations.

Definition lock := (nat * nat)%type.            (* rank, instance *)
Inductive mode := Rd | Wr.
Definition req := (lock * mode)%type.

Definition lock_eqb (a b : lock) : bool := Nat.eqb (fst a) (fst b) && Nat.eqb (snd a) (snd b).

Record thread := { held : list req; todo : list req }.
Definition state := list thread.

(* a request is compatible with what ANOTHER thread holds *)
Definition compat1 (r : req) (h : req) : bool :=
  if lock_eqb (fst r) (fst h) then match snd r, snd h with Rd, Rd => true | _, _ => false end else true.
Definition compat (r : req) (t : thread) : bool := forallb (compat1 r) (held t).

Fixpoint others_compat (r : req) (i : nat) (s : state) (j : nat) : bool :=
  match s with
  | [] => true
  | t :: s' => (if Nat.eqb i j then true else compat r t) && others_compat r i s' (S j)
  end.

(* thread i can step: acquire its next request when compatible with all other threads, or release (calls whose
   requests are exhausted release everything - the data step happens at that moment) *)
Definition can_step (s : state) (i : nat) : bool :=
  match nth_error s i with
  | None => false
  | Some t => match todo t with
              | r :: _ => others_compat r i s 0
              | [] => match held t with [] => false | _ => true end
              end
  end.

Definition step_thread (t : thread) : thread :=
  match todo t with
  | r :: rest => {| held := r :: held t; todo := rest |}
  | [] => {| held := []; todo := [] |}
  end.
Fixpoint upd_nth (s : state) (i : nat) (t : thread) : state :=
  match s, i with
  | [], _ => []
  | _ :: s', O => t :: s'
  | x :: s', S j => x :: upd_nth s' j t
  end.
Definition do_step (s : state) (i : nat) : state :=
  match nth_error s i with Some t => upd_nth s i (step_thread t) | None => s end.

(* reachable: any sequence of enabled steps *)
Inductive reach (s0 : state) : state -> Prop :=
| reach_refl : reach s0 s0
| reach_step s i : reach s0 s -> can_step s i = true -> reach s0 (do_step s i).

Definition rank (r : req) : nat := fst (fst r).
(* the discipline: a call requests locks in strictly increasing rank order *)
Fixpoint increasing (l : list req) : Prop :=
  match l with
  | a :: ((b :: _) as r) => rank a < rank b /\ increasing r
  | _ => True
  end.
Definition idle (t : thread) : Prop := held t = [].
Definition unfinished (t : thread) : Prop := held t <> [] \/ todo t <> [].

(* the lock skeletons of the API calls (what the code does; ranks as above) *)
Definition call_put (db : nat) : list req := [((1, 0), Rd); ((2, db), Wr); ((3, 0), Wr); ((4, 0), Rd); ((5, 0), Wr)].
Definition call_get (db : nat) : list req := [((1, 0), Rd); ((2, db), Rd); ((4, 0), Rd)].
Definition call_db_create : list req := [((1, 0), Wr); ((3, 0), Wr); ((4, 0), Wr); ((5, 0), Wr)].
Definition call_sync : list req := [((1, 0), Rd); ((3, 0), Wr); ((4, 0), Rd); ((5, 0), Wr)].
