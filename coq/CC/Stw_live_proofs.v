(* C20 - iwstw.c: liveness under the fairness hypothesis of CC/Fair.v (every enabled thread eventually steps; spurious
   wake-ups are allowed but only a signalled waiter is promised to wake): every linked task is eventually run or dropped,
   the worker terminates after shutdown, iwstw_shutdown returns.  Without the hypothesis the statements fail (refutations
   at the end of the file). *)
Require Import List Bool Arith Lia.
Require Import IW.CC.Lts IW.CC.Lts_proofs IW.CC.Fair IW.CC.Fair_proofs IW.CC.Stw IW.CC.Stw_proofs IW.CC.Stw_live.
Import ListNotations.

(* ---- ownership: the mutex is held exactly by the thread whose pc is inside a critical section ---- *)
Definition Iown (s : st) : Prop :=
  (forall t, owner s = Some t -> if t =? W then wlocked (wpc s) = true else clocked (cp (cl s t)) = true) /\
  (wlocked (wpc s) = true -> owner s = Some W) /\
  (forall t, t <> W -> clocked (cp (cl s t)) = true -> owner s = Some t).

Lemma Iown_step : forall c s t e s', selfunlock c = true -> Iown s -> step c s t e = Some s' -> Iown s'.
Proof.
  intros c s t e s' Hsu (I1 & I2 & I3) H. unfold Iown.
  scases H t; simpl in *; (split; [|split]);
    try (intros u Hu; try discriminate Hu; try (inversion Hu; subst u; clear Hu));
    try (intros Hw; try discriminate Hw);
    try (intros u Hn Hc);
    unfold upd in *; simpl in *; rw_facts; simpl in *; eqbs; simpl in *; rw_facts; auto; try congruence; try discriminate;
    try (specialize (I1 _ eq_refl); simpl in I1; eqbs; rw_facts; simpl in I1; congruence);
    try (assert (X := I3 _ Hn Hc); congruence);
    try (assert (X := I2 Hw); congruence);
    try (assert (X := I1 _ Hu); simpl in X; eqbs; rw_facts; auto; congruence);
    try (match goal with A : ?u <> W, B : clocked (cp (cl s ?u)) = true |- _ => assert (X := I3 _ A B); congruence end).
Qed.

(* ---- who waits where; the worker never parks once shutdown is set ---- *)
Definition Iwc (s : st) : Prop := forall v, In v (waitc s) -> v = W /\ wpc s = WWait.
Definition Iwq (s : st) : Prop := forall v, In v (waitq s) -> v <> W /\ cp (cl s v) = CWait.
Definition Iw2bs (s : st) : Prop := wpc s = WL2b -> shut s = false /\ owner s = Some W.
Definition Ishw (s : st) : Prop := shut s = true -> ~ In W (waitc s).
Definition Ifn (s : st) : Prop := forall t, fn (cl s t) < 5.
Definition sdpc (p : cpcT) : bool :=
  match p with Idle | Start | Locked | DDisc | DBc1 | DBc2 | DUnl | DJoined | DFreed | Ret _ _ => true | _ => false end.
Definition Ifn3 (s : st) : Prop := forall t, fn (cl s t) = 3 -> sdpc (cp (cl s t)) = true.

Lemma Iwc_step : forall c s t e s', Iwc s -> step c s t e = Some s' -> Iwc s'.
Proof.
  intros c s t e s' I H. unfold Iwc in *.
  scases H t; simpl in *; intros v Hv; try contradiction;
    try (apply remove1_In in Hv; destruct Hv as [Hv Hne]; destruct (I v Hv) as [A B]; congruence);
    try (destruct Hv as [<-|Hv]; [split; reflexivity|destruct (I v Hv) as [A B]; split; [exact A|congruence]]);
    try (destruct (I v Hv) as [A B]; split; [exact A|congruence]).
Qed.

Lemma Iwq_step : forall c s t e s', Iwq s -> step c s t e = Some s' -> Iwq s'.
Proof.
  intros c s t e s' I H. unfold Iwq in *.
  scases H t; simpl in *; intros v Hv; try contradiction;
    try (apply remove1_In in Hv; destruct Hv as [Hv Hne]);
    try (destruct Hv as [<-|Hv]; [split; [assumption|unfold upd; rewrite Nat.eqb_refl; reflexivity]|]);
    destruct (I v Hv) as [A B]; (split; [exact A|]); unfold upd; simpl;
    try (destruct (Nat.eqb_spec v t); [subst v; congruence|exact B]); try exact B.
Qed.

Lemma Iw2bs_step : forall c s t e s', Iw2bs s -> step c s t e = Some s' -> Iw2bs s'.
Proof.
  intros c s t e s' I H. unfold Iw2bs in *.
  scases H t; simpl in *; intros HW; try discriminate HW; try (specialize (I HW); destruct I as [I1 I2]);
    rw_facts; try congruence; auto;
    try (split; [|reflexivity]; destruct (shut s); [simpl in *; congruence|reflexivity]).
Qed.

Lemma Ishw_step : forall c s t e s', Iw2bs s -> Iwc s -> Ishw s -> step c s t e = Some s' -> Ishw s'.
Proof.
  intros c s t e s' I2 IC I H. unfold Ishw in *.
  scases H t; simpl in *; intros Hs Hin; try contradiction; try congruence;
    try (apply remove1_In in Hin; destruct Hin as [Hin Hne]; congruence);
    try (apply (I Hs Hin); fail); try (apply I; auto; fail);
    try (destruct (I2 eq_refl) as [X _]; congruence);
    try (destruct (I2 E) as [X _]; congruence).
Qed.

Lemma Ifn_step : forall c s t e s', Ifn s -> step c s t e = Some s' -> Ifn s'.
Proof.
  intros c s t e s' I H. unfold Ifn in *.
  scases H t; simpl in *; intros u; specialize (I u); unfold upd; simpl;
    try (destruct (Nat.eqb_spec u t); [subst u|]); simpl; auto; try lia.
Qed.

Lemma Ifn3_step : forall c s t e s', Ifn3 s -> step c s t e = Some s' -> Ifn3 s'.
Proof.
  intros c s t e s' I H. unfold Ifn3 in *.
  scases H t; simpl in *; intros u; assert (Iu := I u); unfold upd; simpl;
    try (destruct (Nat.eqb_spec u t); [subst u|]); simpl; auto; rw_facts; intros F3; try reflexivity; try congruence;
    try (specialize (Iu F3); discriminate Iu); try lia.
Qed.

Record LInv (c : cfg) (s : st) : Prop := mkLInv {
  l_su : selfunlock c = true; l_inv : Inv c s; l_own : Iown s; l_wc : Iwc s; l_wq : Iwq s; l_w2bs : Iw2bs s; l_shw : Ishw s; l_fn : Ifn s; l_fn3 : Ifn3 s }.

Lemma LInv_init : forall c, selfunlock c = true -> LInv c init.
Proof.
  intros c Hsu. constructor.
  - exact Hsu.
  - apply Inv_init.
  - split; [intros t H; discriminate H|]. split; [intros H; discriminate H|intros t _ H; discriminate H].
  - intros v [].
  - intros v [].
  - intros H. discriminate H.
  - intros H. discriminate H.
  - intros t. simpl. lia.
  - intros t _. reflexivity.
Qed.

Lemma LInv_step : forall c s t e s', LInv c s -> step c s t e = Some s' -> LInv c s'.
Proof.
  intros c s t e s' [] H. constructor.
  - assumption.
  - eapply Inv_step; eauto.
  - eapply Iown_step; eauto.
  - eapply Iwc_step; eauto.
  - eapply Iwq_step; eauto.
  - eapply Iw2bs_step; eauto.
  - eapply Ishw_step; eauto.
  - eapply Ifn_step; eauto.
  - eapply Ifn3_step; eauto.
Qed.

Lemma LInv_R : forall c s, selfunlock c = true -> R c s -> LInv c s.
Proof. intros c s Hsu H. eapply invariant_reachable; [apply LInv_init; exact Hsu|apply LInv_step|exact H]. Qed.

(* ---- a ready thread is obliged ---- *)
Ltac own_facts L :=
  let I1 := fresh "O1" in let I2 := fresh "O2" in let I3 := fresh "O3" in
  destruct (l_own _ _ L) as (I1 & I2 & I3).

Lemma ready_obliged : forall c s t, LInv c s -> ready s t -> obliged st (step c) must s t.
Proof.
  intros c s t L Hr. own_facts L. assert (F := l_fn _ _ L t). exists (next c s t). unfold ready, next, step in *.
  destruct (Nat.eqb_spec t W) as [->|Nw].
  - unfold wnext, wstep, must. destruct (wpc s) eqn:Ew; try contradiction; simpl;
      try (rewrite Hr); try (destruct Hr as [Hr Hn]; rewrite Hr);
      try (rewrite (O2 eq_refl)); simpl; rewrite ?Nat.eqb_refl; simpl;
      try (split; [reflexivity|discriminate]).
    + destruct (queue s); simpl; rewrite ?Nat.eqb_refl; split; try reflexivity; discriminate.
    + destruct (canunblock c s) eqn:Ec, (is_nil (queue s)) eqn:Eq, (shut s) eqn:Es; simpl;
        rewrite ?Ec, ?Eq, ?Es; simpl; split; try reflexivity; try discriminate.
    + split; [|discriminate]. apply negb_true_iff. apply memb_false. exact Hn.
    + rewrite (l_su _ _ L). destruct (shut s); split; try reflexivity; discriminate.
  - unfold cnext, cstep, must. destruct (cp (cl s t)) eqn:Ec; try contradiction; simpl;
      try (rewrite Hr); try (destruct Hr as [Hr Hn]; rewrite Hr); simpl;
      try (rewrite (O3 t Nw) by (rewrite Ec; reflexivity); simpl; rewrite ?Nat.eqb_refl; simpl);
      try (split; [reflexivity|discriminate]).
    + (* Locked *) unfold locked_next, locked_step, loop_next, loop_step, odisc_next, odisc_step, ddisc_next, ddisc_step, unlock_ret.
      destruct (fn (cl s t)) as [|[|[|[|[|n]]]]] eqn:Ef; [| | | | |lia];
        destruct (shut s), (full c s), (blocking c), (recheck c), (has_cb c), (wf (cl s t)), (queue s); simpl;
        rewrite ?Nat.eqb_refl; split; try reflexivity; try discriminate.
    + (* CWait *) split; [|discriminate]. destruct (Nat.eqb_spec t W); [contradiction|].
      apply negb_true_iff. apply memb_false. exact Hn.
    + (* Woken *) unfold loop_next, loop_step, unlock_ret.
      destruct (shut s), (full c s), (blocking c), (recheck c); simpl; rewrite ?Nat.eqb_refl; split; try reflexivity; discriminate.
    + (* ODisc *) unfold odisc_next, odisc_step. destruct (queue s), (has_cb c); simpl; rewrite ?Nat.eqb_refl; split; try reflexivity; discriminate.
    + (* DDisc *) unfold ddisc_next, ddisc_step. destruct (queue s), (has_cb c); simpl; rewrite ?Nat.eqb_refl; split; try reflexivity; discriminate.
    + (* DBc1 *) destruct (blocking c); simpl; split; try reflexivity; discriminate.
    + (* Ret *) rewrite Nat.eqb_refl, eqb_reflx. simpl. split; [reflexivity|discriminate].
Qed.

(* ---- the mutex: the owner is obliged, every transition of the owner shortens its critical section, nobody else can
        touch the owner's critical section ---- *)
Lemma owner_ready : forall c s a, LInv c s -> owner s = Some a -> ready s a.
Proof.
  intros c s a L Ho. own_facts L. specialize (O1 a Ho). unfold ready.
  destruct (Nat.eqb_spec a W) as [->|N].
  - destruct (wpc s); try discriminate O1; exact I.
  - destruct (cp (cl s a)); try discriminate O1; exact I.
Qed.

Lemma owner_step : forall c s a e s', LInv c s -> owner s = Some a -> step c s a e = Some s' ->
  owner s' = None \/ (owner s' = Some a /\ crank s' a < crank s a).
Proof.
  intros c s a e s' L Ho H. own_facts L. specialize (O1 a Ho). unfold crank.
  scases H a; simpl in *; rw_facts; try discriminate O1; try congruence; auto;
    right; (split; [reflexivity|]); unfold upd; simpl; rewrite ?Nat.eqb_refl; simpl; rw_facts; simpl;
    rewrite ?app_length; simpl; try lia.
Qed.

Lemma other_step : forall c s a u e s', LInv c s -> owner s = Some a -> u <> a -> step c s u e = Some s' ->
  owner s' = Some a /\ crank s' a = crank s a.
Proof.
  intros c s a u e s' L Ho Hu H. unfold crank.
  scases H u; simpl in *; rw_facts; try congruence; try discriminate;
    (split; [reflexivity|]); unfold upd; simpl;
    try (destruct (Nat.eqb_spec a W); [reflexivity|]);
    try (destruct (Nat.eqb_spec a u); [congruence|]); try reflexivity;
    try (destruct (Nat.eqb_spec a W); try congruence; reflexivity).
Qed.

(* ---- frame: only the worker changes its pc and its task, only thread t changes cl t ---- *)
Lemma frame_w : forall c s u e s', step c s u e = Some s' -> u <> W -> wpc s' = wpc s /\ wtk s' = wtk s.
Proof. intros c s u e s' H Hu. scases H u; try congruence; simpl; auto. Qed.

Lemma frame_c : forall c s u e s' t, step c s u e = Some s' -> u <> t -> cl s' t = cl s t.
Proof.
  intros c s u e s' t H Hu. scases H u; simpl; unfold upd; try reflexivity;
    destruct (Nat.eqb_spec t u); try congruence; reflexivity.
Qed.

Lemma active_ready : forall s t, active s t -> owner s = None -> ready s t.
Proof.
  intros s t Ha Ho. unfold active, ready in *. destruct (t =? W).
  - destruct (wpc s); auto.
  - destruct (cp (cl s t)); auto.
Qed.

Lemma active_stable : forall c s u e s' t, step c s u e = Some s' -> u <> t -> active s t -> active s' t.
Proof.
  intros c s u e s' t H Hu Ha. unfold active in *. destruct (Nat.eqb_spec t W) as [->|Nw].
  - destruct (frame_w c s u e s' H Hu) as [Ew _]. rewrite Ew. destruct (wpc s) eqn:Ep; auto.
    intros Hin. apply Ha. clear Ha. scases H u; simpl in *; try congruence; try contradiction; auto;
      try (apply remove1_In in Hin; destruct Hin; assumption).
  - rewrite (frame_c c s u e s' t H Hu). destruct (cp (cl s t)) eqn:Ep; auto.
    + intros Hin. apply Ha. clear Ha. scases H u; simpl in *; try congruence; try contradiction; auto;
        try (apply remove1_In in Hin; destruct Hin; assumption);
        try (destruct Hin as [Hin|Hin]; [congruence|assumption]).
    + scases H u; simpl in *; try congruence.
Qed.

(* ---- a queued task moves towards the head of the queue; the worker moves towards the next dequeue ---- *)
Lemma ahead_app : forall k q l, In k q -> ahead k (q ++ l) = ahead k q.
Proof.
  intros k q l. induction q as [|y q IH]; simpl; intros H; [contradiction|].
  destruct (Nat.eqb_spec y k); [reflexivity|]. destruct H as [H|H]; [congruence|]. rewrite IH; auto.
Qed.

Lemma queue_NoDup : forall c s, Inv c s -> NoDup (queue s).
Proof.
  intros c s V. apply cnt_le1_NoDup. intros z. assert (D := part_disj s (i_part c s V) z). lia.
Qed.

Lemma queued_in_enq : forall c s k, Inv c s -> In k (queue s) -> In k (enq s).
Proof.
  intros c s k V H. destruct (i_part c s V k) as [P _]. unfold parts in P. rewrite !cnt_app in P.
  apply cnt_pos_In. apply cnt_pos_In in H. lia.
Qed.

Lemma ahead_pop : forall k y q, NoDup (y :: q) -> In k (y :: q) -> ~ In k q \/ (In k q /\ S (ahead k q) = ahead k (y :: q)).
Proof.
  intros k y q ND H. inversion ND as [|? ? Hy _]; subst. simpl. destruct (Nat.eqb_spec y k) as [->|N].
  - left. exact Hy.
  - destruct H as [H|H]; [congruence|]. right. split; [exact H|reflexivity].
Qed.

Lemma ahead_step : forall c s u e s' k, Inv c s -> step c s u e = Some s' -> In k (queue s) ->
  ~ In k (queue s') \/ (In k (queue s') /\ ahead k (queue s') <= ahead k (queue s)).
Proof.
  intros c s u e s' k V H Hk. assert (ND := queue_NoDup c s V). assert (Q := step_qeff c s u e s' H).
  destruct Q as [H1 _ _ _ _ _ | y Ht Hy Hp H1 _ _ _ _ _ | y Ht Hy Hp H1 _ _ _ _ _
                | y H1 _ _ _ _ _ _ | y H1 _ _ _ _ _ _ | y H1 _ _ _ _ _ | y H1 _ _ _ _ _
                | H1 _ _ _ _ _].
  - rewrite H1. right. split; [exact Hk|lia].
  - rewrite H1. right. split; [apply in_or_app; left; exact Hk|]. rewrite ahead_app by exact Hk. lia.
  - rewrite H1. left. intros [E|[]]. subst y.
    destruct (i_fresh c s V u Ht Hp) as (_ & B & _). apply B. rewrite E. eapply queued_in_enq; eauto.
  - rewrite H1 in *. destruct (ahead_pop k y (queue s') ND Hk) as [A|[A B]]; [left; exact A|right; split; [exact A|lia]].
  - rewrite H1. right. split; [exact Hk|lia].
  - rewrite H1 in *. destruct (ahead_pop k y (queue s') ND Hk) as [A|[A B]]; [left; exact A|right; split; [exact A|lia]].
  - rewrite H1 in *. destruct (ahead_pop k y (queue s') ND Hk) as [A|[A B]]; [left; exact A|right; split; [exact A|lia]].
  - rewrite H1. left. intros [].
Qed.

Lemma mdeq_other : forall c s u e s' k, Inv c s -> step c s u e = Some s' -> u <> W -> In k (queue s) ->
  ~ In k (queue s') \/ mdeq k s' <= mdeq k s.
Proof.
  intros c s u e s' k V H Hu Hk. destruct (ahead_step c s u e s' k V H Hk) as [A|[A B]]; [left; exact A|right].
  unfold mdeq. destruct (frame_w c s u e s' H Hu) as [Ew _]. rewrite Ew. lia.
Qed.

Lemma mdeq_worker : forall c s e s' k, Inv c s -> step c s W e = Some s' -> is_call e = false -> In k (queue s) ->
  ~ In k (queue s') \/ mdeq k s' < mdeq k s.
Proof.
  intros c s e s' k V H Hnc Hk. assert (ND := queue_NoDup c s V). unfold mdeq.
  unfold step in H; change (W =? W) with true in H; cbv iota in H; wcases H; simpl in *; rw_facts; simpl in *; try contradiction;
    try discriminate Hnc; try (right; lia).
  destruct (ahead_pop k t l ND Hk) as [A|[A B]]; [left; exact A|right]. simpl in B. lia.
Qed.

Lemma mdeq_any : forall c s u e s' k, Inv c s -> step c s u e = Some s' -> (u = W -> is_call e = false) -> In k (queue s) ->
  ~ In k (queue s') \/ mdeq k s' <= mdeq k s.
Proof.
  intros c s u e s' k V H Hnc Hk. destruct (Nat.eq_dec u W) as [->|N].
  - destruct (mdeq_worker c s e s' k V H (Hnc eq_refl) Hk) as [A|A]; [left; exact A|right; lia].
  - eapply mdeq_other; eauto.
Qed.

(* ---- the worker finishes the task it holds ---- *)
Lemma held_step : forall c s e s' k, step c s W e = Some s' -> is_call e = false -> In k (held s) ->
  In k (done s') \/ (In k (held s') /\ hrank (wpc s') < hrank (wpc s)).
Proof.
  intros c s e s' k H Hnc Hk. unfold held in *.
  unfold step in H; change (W =? W) with true in H; cbv iota in H; wcases H; simpl in *; rw_facts; simpl in *;
    try contradiction; try discriminate Hnc; try (right; split; [assumption|lia]).
  left. apply in_or_app. right. destruct Hk as [<-|[]]. left. reflexivity.
Qed.

Lemma held_active : forall s k, In k (held s) -> active s W /\ wtk s = k /\ hrank (wpc s) > 0.
Proof.
  intros s k H. unfold held, active in *. simpl. destruct (wpc s); try contradiction; destruct H as [<-|[]]; repeat split; simpl; lia.
Qed.

Lemma held_or_done_stable : forall c s t e s' k, step c s t e = Some s' ->
  In k (held s) \/ In k (done s) -> In k (held s') \/ In k (done s').
Proof.
  intros c s t e s' k H [A|A]; destruct (status_monotone c s t e s' H k) as (M1 & _ & _ & M4 & _); auto.
Qed.

(* ---- after shutdown was set: nothing is linked any more, the worker drains the queue and leaves ---- *)
Lemma shut_stable : forall c s t e s', step c s t e = Some s' -> shut s = true -> shut s' = true.
Proof. intros c s t e s' H Hs. scases H t; simpl in *; auto; congruence. Qed.

Lemma exit_other : forall c s u e s', LInv c s -> recheck c = true -> shut s = true -> u <> W -> step c s u e = Some s' ->
  queue s' = queue s.
Proof.
  intros c s u e s' L Hre Hs Hu H. assert (IO := i_odisc _ _ (l_inv _ _ L)).
  scases H u; simpl in *; try reflexivity; try congruence;
    try (rewrite (IO u Hu E0 (or_introl E)) in Hs; discriminate Hs);
    try (rewrite (IO u Hu E0 (or_intror E)) in Hs; discriminate Hs);
    rewrite Hre in *; simpl in *; congruence.
Qed.

Lemma exit_worker : forall c s e s', LInv c s -> shut s = true -> step c s W e = Some s' -> is_call e = false ->
  mexit s' < mexit s.
Proof.
  intros c s e s' L Hs H Hnc. unfold mexit.
  unfold step in H; change (W =? W) with true in H; cbv iota in H; wcases H; simpl in *; rw_facts; simpl in *;
    try congruence; try discriminate Hnc; try lia;
    try (destruct (queue s); simpl; lia);
    try (destruct (queue s); [congruence|simpl; lia]);
    try (destruct l; simpl; lia).
Qed.

(* ---- a call of iwstw_shutdown ---- *)
Definition sdset (p : cpcT) : bool := match p with DBc1 | DBc2 | DUnl | DJoined | DFreed => true | _ => false end.
Definition Isd (s : st) : Prop := forall t, t <> W -> sdset (cp (cl s t)) = true -> shut s = true.

Lemma Isd_step : forall c s t e s', Isd s -> step c s t e = Some s' -> Isd s'.
Proof.
  intros c s t e s' I H. unfold Isd in *.
  scases H t; intros u Hu Hc; per_thread I u Hu; rw_facts; try discriminate Hc; try reflexivity;
    try assumption;
    try (apply (I u Hu); rw_facts; auto; fail); try (apply (I u Hu Hc)); try (apply (I t EW); rw_facts; reflexivity);
    try (assert (X := I u Hu Hc); congruence); try (assert (X := I t EW); rw_facts; specialize (X eq_refl); congruence).
Qed.

Lemma Isd_R : forall c s, R c s -> Isd s.
Proof.
  intros c s H. eapply invariant_reachable; [| |exact H].
  - intros t _ Hc. discriminate Hc.
  - intros s0 t e s1 I Hs. eapply Isd_step; eauto.
Qed.

(* the transitions of a thread inside an API call move it towards the return *)
Lemma own_step_rank : forall c s t e s', step c s t e = Some s' -> t <> W -> cp (cl s t) <> Idle -> cp (cl s t) <> CWait ->
  (cp (cl s' t) = CWait \/ callrank (cp (cl s' t)) <= callrank (cp (cl s t))) /\
  (clocked (cp (cl s t)) = false -> callrank (cp (cl s' t)) < callrank (cp (cl s t))) /\
  fn (cl s' t) = fn (cl s t).
Proof.
  intros c s t e s' H Ht Hc Hw.
  scases H t; simpl in *; try congruence; unfold upd; rewrite ?Nat.eqb_refl; simpl; rw_facts; simpl in *;
    try congruence; repeat split; auto; try lia; try discriminate; try (right; lia).
Qed.

Section Live.
  Variable c : cfg.
  Variable x : sexec.
  Hypothesis Hx : is_sexec c x.
  Hypothesis Hf : sfair c x.
  Hypothesis H0 : R c (st_at st x 0).
  (* the self-thread guard of iwstw_shutdown releases the mutex (fixes/exec-stw-self-shutdown-unlock.diff) *)
  Hypothesis Hsu : selfunlock c = true.
  (* task bodies terminate: they are opaque, in particular they do not keep calling iwstw_shutdown on their own executor *)
  Hypothesis Hns : forall i e, lab st x i = Some (W, e) -> is_call e = false.

  Notation "'S_' i" := (st_at st x i) (at level 9, i at level 9).

  Lemma LI : forall i, LInv c (S_ i).
  Proof. intros i. apply LInv_R; [exact Hsu|]. apply (exec_reachable st (step c) init x Hx H0). Qed.

  Lemma RI : forall i, R c (S_ i).
  Proof. intros i. apply (exec_reachable st (step c) init x Hx H0). Qed.

  Lemma released : forall i a, owner (S_ i) = Some a ->
    exists j, i <= j /\ owner (S_ j) = None /\ forall k, i <= k < j -> owner (S_ k) = Some a.
  Proof.
    apply (mutex_released st (step c) must (LInv c) owner crank); try exact Hx; try exact Hf; try exact LI.
    - intros s a L Ho. apply ready_obliged; [exact L|]. eapply owner_ready; eauto.
    - intros s a e s' L Ho H. eapply owner_step; eauto.
    - intros s a u e s' L Ho Hu H. eapply other_step; eauto.
  Qed.
  (* a thread whose next obligatory transition only needs the mutex eventually performs a transition *)
  Lemma will_step : forall i t, active (S_ i) t -> exists j, i <= j /\ steps_at st x j t.
  Proof.
    intros i t Ha. destruct (owner (S_ i)) as [a|] eqn:Eo.
    - destruct (released i a Eo) as (j & Hij & Rel & _).
      destruct (stepped_between_dec st x t i j) as [(k & Hk & Hs)|Hn].
      + exists k. split; [lia|exact Hs].
      + assert (Aj : active (S_ j) t).
        { apply (preserved_until st (step c) (LInv c) (fun s => active s t) t x i j Hx LI); auto.
          intros s u e s' _ Q Hs Hu. eapply active_stable; eauto. }
        destruct (Hf t j) as (j' & Hj' & Hs); [apply ready_obliged; [apply LI|apply active_ready; assumption]|].
        exists j'. split; [lia|exact Hs].
    - apply Hf. apply ready_obliged; [apply LI|apply active_ready; assumption].
  Qed.

  (* ... and we can take its first transition after i *)
  Lemma will_step_first : forall i t, active (S_ i) t ->
    exists j, i <= j /\ steps_at st x j t /\ forall k, i <= k < j -> ~ steps_at st x k t.
  Proof.
    intros i t Ha. destruct (will_step i t Ha) as (j & Hij & Hs).
    destruct (least_from (fun k => steps_at st x k t) (fun k => steps_at_dec st x k t) i j Hij Hs) as (j0 & A & _ & B & C).
    exists j0. auto.
  Qed.
  (* ---- current code (re-check of `shutdown` after the wait loop of iwstw_schedule) ---- *)
  Hypothesis Hre : recheck c = true.

  Lemma queued_worker_active : forall i k, In k (queue (S_ i)) -> owner (S_ i) = None -> active (S_ i) W.
  Proof.
    intros i k Hk Ho. assert (L := LI i). assert (V := l_inv _ _ L). unfold active. simpl.
    destruct (wpc (S_ i)) eqn:Ew; auto.
    - intros Hin. rewrite (no_lost_wakeup_inv _ (i_w2b _ _ V) (i_nlw _ _ V) Ho Hin) in Hk. contradiction.
    - destruct (i_dead _ _ V Hre (or_intror Ew)) as [_ Q]. rewrite Q in Hk. contradiction.
  Qed.

  Lemma mdeq_mono : forall k i j, i <= j ->
    (exists j', i <= j' <= j /\ ~ In k (queue (S_ j'))) \/ mdeq k (S_ j) <= mdeq k (S_ i).
  Proof.
    intros k. apply (measure_mono_lab st (step c) (LInv c) (fun s => ~ In k (queue s)) (mdeq k)
                       (fun t e => t = W -> is_call e = false) x Hx LI).
    - intros s. destruct (in_dec Nat.eq_dec k (queue s)); [right; tauto|left; assumption].
    - intros i t e Hl ->. eapply Hns; eauto.
    - intros s t e s' L Hng Hok Hs. apply (mdeq_any c s t e s' k (l_inv _ _ L) Hs Hok).
      destruct (in_dec Nat.eq_dec k (queue s)); [assumption|contradiction].
  Qed.

  (* a queued task eventually leaves the queue *)
  Lemma queued_leaves : forall k i, exists j, i <= j /\ ~ In k (queue (S_ j)).
  Proof.
    intros k. apply (rank_induction st x (fun s => ~ In k (queue s)) (mdeq k)). intros i.
    destruct (in_dec Nat.eq_dec k (queue (S_ i))) as [Hk|Hn]; [right|left; exact Hn].
    (* 1: a position i1 >= i at which the worker is active *)
    assert (A1 : exists i1, i <= i1 /\ ((exists j', i <= j' <= i1 /\ ~ In k (queue (S_ j'))) \/
                  (In k (queue (S_ i1)) /\ mdeq k (S_ i1) <= mdeq k (S_ i) /\ active (S_ i1) W))).
    { destruct (owner (S_ i)) as [a|] eqn:Eo.
      - destruct (released i a Eo) as (j & Hij & Rel & _). exists j. split; [exact Hij|].
        destruct (mdeq_mono k i j Hij) as [G|M]; [left; exact G|].
        destruct (in_dec Nat.eq_dec k (queue (S_ j))) as [Hkj|Hnj]; [|left; exists j; split; [lia|exact Hnj]].
        right. split; [exact Hkj|]. split; [exact M|]. eapply queued_worker_active; eauto.
      - exists i. split; [lia|]. right. split; [exact Hk|]. split; [lia|]. eapply queued_worker_active; eauto. }
    destruct A1 as (i1 & Hi1 & [(j' & Hj' & G)|(Hk1 & M1 & Act)]); [exists j'; split; [lia|left; exact G]|].
    (* 2: the next transition of the worker *)
    destruct (will_step_first i1 W Act) as (j2 & Hj2 & [e He] & _).
    destruct (mdeq_mono k i1 j2 Hj2) as [(j' & Hj' & G)|M2]; [exists j'; split; [lia|left; exact G]|].
    destruct (in_dec Nat.eq_dec k (queue (S_ j2))) as [Hk2|Hn2]; [|exists j2; split; [lia|left; exact Hn2]].
    assert (Hs := Hx j2). rewrite He in Hs.
    exists (S j2). split; [lia|].
    destruct (mdeq_worker c _ e _ k (l_inv _ _ (LI j2)) Hs (Hns j2 e He) Hk2) as [G|Lt]; [left; exact G|right; lia].
  Qed.
  Lemma held_done : forall k i, In k (held (S_ i)) -> exists j, i <= j /\ In k (done (S_ j)).
  Proof.
    intros k i Hi.
    assert (X : forall i, exists j, i <= j /\ (In k (done (S_ j)) \/ ~ In k (held (S_ j)))).
    { apply (rank_induction st x (fun s => In k (done s) \/ ~ In k (held s)) (fun s => hrank (wpc s))). intros i0.
      destruct (in_dec Nat.eq_dec k (held (S_ i0))) as [Hh|Hn]; [right|left; right; exact Hn].
      destruct (held_active _ _ Hh) as (Act & Et & _).
      destruct (will_step_first i0 W Act) as (j & Hj & [e He] & Hno).
      assert (Q : wpc (S_ j) = wpc (S_ i0) /\ wtk (S_ j) = wtk (S_ i0)).
      { apply (preserved_until st (step c) (LInv c) (fun s => wpc s = wpc (S_ i0) /\ wtk s = wtk (S_ i0)) W x i0 j Hx LI); auto.
        intros s u e0 s' _ [Q1 Q2] Hs Hu. destruct (frame_w c s u e0 s' Hs Hu) as [A B]. split; congruence. }
      destruct Q as [Q1 Q2].
      assert (Hhj : In k (held (S_ j))) by (unfold held in *; rewrite Q1, Q2; exact Hh).
      assert (Hs := Hx j). rewrite He in Hs.
      exists (S j). split; [lia|].
      destruct (held_step c _ e _ k Hs (Hns j e He) Hhj) as [D|[_ Lt]]; [left; left; exact D|right; rewrite Q1 in Lt; exact Lt]. }
    destruct (X i) as (j & Hij & [D|Nh]); [exists j; split; assumption|].
    assert (St : In k (held (S_ j)) \/ In k (done (S_ j))).
    { apply (stable_from st (step c) (LInv c) (fun s => In k (held s) \/ In k (done s)) x Hx LI) with (i := i); auto.
      intros s t e s' _ P Hs. eapply held_or_done_stable; eauto. }
    destruct St as [A|A]; [contradiction|]. exists j. split; assumption.
  Qed.

  (* enq only grows; a task that has left the queue is held, done or dropped *)
  Lemma enq_stable : forall k i j, i <= j -> In k (enq (S_ i)) -> In k (enq (S_ j)).
  Proof.
    intros k i j Hij. refine (stable_from st (step c) (LInv c) (fun s => In k (enq s)) x Hx LI _ i j Hij).
    intros s t e s' _ P Hs. assert (Q := step_qeff c s t e s' Hs).
    destruct Q as [_ _ _ _ _ E | y _ _ _ _ _ _ _ _ E | y _ _ _ _ _ _ _ _ E | y _ _ _ _ _ _ E | y _ _ _ _ _ _ E
                  | y _ _ _ _ _ E | y _ _ _ _ _ E | _ _ _ _ _ E]; rewrite E; auto; apply in_or_app; left; exact P.
  Qed.

  Definition settled (k : task) (s : st) : Prop := In k (done s) \/ In k (disc s) \/ In k (repl s).

  Lemma settled_stable : forall k i j, i <= j -> settled k (S_ i) -> settled k (S_ j).
  Proof.
    intros k i j Hij. refine (stable_from st (step c) (LInv c) (settled k) x Hx LI _ i j Hij).
    intros s t e s' _ P Hs. destruct (status_monotone c s t e s' Hs k) as (M1 & M2 & M3 & _). unfold settled in *. tauto.
  Qed.

  (* every task that was linked into the queue is eventually executed to the end, or dropped by iwstw_shutdown(false) /
     iwstw_schedule_only *)
  Theorem linked_eventually_settled : forall k i, In k (enq (S_ i)) -> exists j, i <= j /\ settled k (S_ j).
  Proof.
    intros k i He.
    destruct (queued_leaves k i) as (j & Hij & Hnq).
    assert (Hej := enq_stable k i j Hij He).
    destruct (accepted_partition c _ (RI j)) as (_ & P & _). apply P in Hej.
    rewrite !in_app_iff in Hej. destruct Hej as [A|[A|A]]; [contradiction| |exists j; split; [exact Hij|unfold settled; tauto]].
    destruct (held_done k j A) as (j' & Hj' & D). exists j'. split; [lia|left; exact D].
  Qed.

  Theorem accepted_eventually_fair : forall k i, In k (acc (S_ i)) -> exists j, i <= j /\ settled k (S_ j).
  Proof. intros k i Ha. apply linked_eventually_settled. apply (i_acc _ _ (l_inv _ _ (LI i))). exact Ha. Qed.
  (* once the shutdown flag is set the worker thread terminates *)
  Theorem worker_terminates : forall i, shut (S_ i) = true -> exists j, i <= j /\ wpc (S_ j) = WDead.
  Proof.
    intros i Hi.
    assert (X : forall i, exists j, i <= j /\ (wpc (S_ j) = WDead \/ shut (S_ j) = false)).
    { apply (rank_induction st x (fun s => wpc s = WDead \/ shut s = false) mexit). intros i0.
      destruct (shut (S_ i0)) eqn:Es; [|left; right; reflexivity].
      assert (Dw : wpc (S_ i0) = WDead \/ wpc (S_ i0) <> WDead) by (destruct (wpc (S_ i0)); auto; right; discriminate).
      destruct Dw as [Dw|Nd]; [left; left; exact Dw|right].
      assert (Act : active (S_ i0) W).
      { unfold active. simpl. destruct (wpc (S_ i0)) eqn:Ew; auto. apply (l_shw _ _ (LI i0) Es). }
      destruct (will_step_first i0 W Act) as (j & Hj & [e He] & Hno).
      assert (Q : mexit (S_ j) = mexit (S_ i0) /\ shut (S_ j) = true).
      { apply (preserved_until st (step c) (LInv c) (fun s => mexit s = mexit (S_ i0) /\ shut s = true) W x i0 j Hx LI); auto.
        intros s u e0 s' L [Q1 Q2] Hs Hu. split; [|eapply shut_stable; eauto].
        unfold mexit in *. rewrite (exit_other c s u e0 s' L Hre Q2 Hu Hs).
        destruct (frame_w c s u e0 s' Hs Hu) as [A _]. rewrite A. exact Q1. }
      destruct Q as [Q1 Q2]. assert (Hs := Hx j). rewrite He in Hs.
      exists (S j). split; [lia|]. right. rewrite <- Q1. apply (exit_worker c _ e _ (LI j) Q2 Hs (Hns j e He)). }
    destruct (X i) as (j & Hij & [D|Sf]); [exists j; split; assumption|].
    assert (St : shut (S_ j) = true).
    { refine (stable_from st (step c) (LInv c) (fun s => shut s = true) x Hx LI _ i j Hij Hi).
      intros s t e s' _ P Hs. eapply shut_stable; eauto. }
    congruence.
  Qed.

  Lemma wdead_stable : forall i j, i <= j -> wpc (S_ i) = WDead -> wpc (S_ j) = WDead.
  Proof.
    intros i j Hij. refine (stable_from st (step c) (LInv c) (fun s => wpc s = WDead) x Hx LI _ i j Hij).
    intros s t e s' _ P Hs. destruct (Nat.eq_dec t W) as [->|N].
    - unfold step in Hs; change (W =? W) with true in Hs; cbv iota in Hs; unfold wstep in Hs. rewrite P in Hs. discriminate Hs.
    - destruct (frame_w c s t e s' Hs N) as [A _]. congruence.
  Qed.

  (* no call deadlocks: every API call returns, or parks on cond_queue (iwstw_schedule on a full blocking queue) *)
  Theorem call_returns_or_parks : forall t i, t <> W ->
    exists j, i <= j /\ (cp (cl (S_ j) t) = Idle \/ cp (cl (S_ j) t) = CWait).
  Proof.
    intros t i Ht.
    set (G := fun s : st => cp (cl s t) = Idle \/ cp (cl s t) = CWait).
    set (m := fun s : st => callrank (cp (cl s t))).
    assert (Gdec : forall s, G s \/ ~ G s).
    { intros s. unfold G. destruct (cp (cl s t)); auto; right; intros [A|A]; discriminate A. }
    assert (Mono : forall i j, i <= j -> (exists j', i <= j' <= j /\ G (S_ j')) \/ m (S_ j) <= m (S_ i)).
    { apply (measure_mono st (step c) (LInv c) G m x Hx LI Gdec).
      intros s u e s' L Hng Hs. unfold m, G in *. destruct (Nat.eq_dec u t) as [->|Nu].
      - destruct (own_step_rank c s t e s' Hs Ht) as ([A|A] & _); auto.
      - rewrite (frame_c c s u e s' t Hs Nu). right. lia. }
    apply (rank_induction st x G m). intros i0. destruct (Gdec (S_ i0)) as [Hg|Hng]; [left; exact Hg|right].
    assert (Ni : cp (cl (S_ i0) t) <> Idle) by (intros E; apply Hng; left; exact E).
    assert (Nw : cp (cl (S_ i0) t) <> CWait) by (intros E; apply Hng; right; exact E).
    (* the step of t from a position i1 at which t is active and not inside the critical section *)
    assert (Go : forall i1, i0 <= i1 -> ~ G (S_ i1) -> m (S_ i1) <= m (S_ i0) -> active (S_ i1) t ->
                 clocked (cp (cl (S_ i1) t)) = false -> exists j, i0 <= j /\ (G (S_ j) \/ m (S_ j) < m (S_ i0))).
    { intros i1 Hi1 Hng1 Hm1 Act Hnc.
      destruct (will_step_first i1 t Act) as (j & Hj & [e He] & Hno).
      assert (Q : cl (S_ j) t = cl (S_ i1) t).
      { apply (preserved_until st (step c) (LInv c) (fun s => cl s t = cl (S_ i1) t) t x i1 j Hx LI); auto.
        intros s u e0 s' _ Q Hs Hu. rewrite (frame_c c s u e0 s' t Hs Hu). exact Q. }
      assert (N1 : cp (cl (S_ i1) t) <> Idle) by (intros E; apply Hng1; left; exact E).
      assert (N2 : cp (cl (S_ i1) t) <> CWait) by (intros E; apply Hng1; right; exact E).
      assert (Hs := Hx j). rewrite He in Hs.
      destruct (own_step_rank c _ t e _ Hs Ht) as (_ & A & _); rewrite ?Q; auto.
      exists (S j). split; [lia|]. right. unfold m. rewrite Q in A. specialize (A Hnc). unfold m in Hm1. lia. }
    destruct (clocked (cp (cl (S_ i0) t))) eqn:Ecl.
    - (* inside the critical section: the mutex is released *)
      destruct (l_own _ _ (LI i0)) as (_ & _ & O3). assert (Eo := O3 t Ht Ecl).
      destruct (released i0 t Eo) as (j & Hij & Rel & _).
      destruct (Mono i0 j Hij) as [(j' & Hj' & Hg)|Hm]; [exists j'; split; [lia|left; exact Hg]|].
      exists j. split; [exact Hij|].
      destruct (l_own _ _ (LI j)) as (_ & _ & O3j).
      assert (Ncl : clocked (cp (cl (S_ j) t)) = false).
      { destruct (clocked (cp (cl (S_ j) t))) eqn:E; [|reflexivity]. rewrite (O3j t Ht E) in Rel. discriminate Rel. }
      unfold m, G in *. destruct (cp (cl (S_ i0) t)); try discriminate Ecl;
        destruct (cp (cl (S_ j) t)); try discriminate Ncl; simpl in *; auto; try (right; lia); lia.
    - destruct (cp (cl (S_ i0) t)) eqn:Ec; try discriminate Ecl; try congruence.
      + (* Start *) apply (Go i0); auto; unfold active; destruct (Nat.eqb_spec t W); try contradiction; rewrite Ec; auto.
      + (* DUnl: wait for the worker to terminate *)
        assert (Sh : shut (S_ i0) = true) by (apply (Isd_R c _ (RI i0) t Ht); rewrite Ec; reflexivity).
        destruct (worker_terminates i0 Sh) as (j1 & Hj1 & Wd).
        destruct (Mono i0 j1 Hj1) as [(j' & Hj' & Hg)|Hm]; [exists j'; split; [lia|left; exact Hg]|].
        destruct (Gdec (S_ j1)) as [Hg|Hng1]; [exists j1; split; [lia|left; exact Hg]|].
        unfold m in Hm. rewrite Ec in Hm. simpl in Hm.
        destruct (cp (cl (S_ j1) t)) eqn:Ec1; simpl in Hm; try lia;
          try (exists j1; split; [lia|]; right; unfold m; rewrite Ec, Ec1; simpl; lia).
        apply (Go j1); auto; try (unfold m; rewrite Ec, Ec1; simpl; lia); try (rewrite Ec1; reflexivity).
        unfold active. destruct (Nat.eqb_spec t W); try contradiction. rewrite Ec1. exact Wd.
      + (* DJoined *) apply (Go i0); auto; unfold active; destruct (Nat.eqb_spec t W); try contradiction; rewrite Ec; auto.
      + (* DFreed *) apply (Go i0); auto; unfold active; destruct (Nat.eqb_spec t W); try contradiction; rewrite Ec; auto.
      + (* Ret *) apply (Go i0); auto; unfold active; destruct (Nat.eqb_spec t W); try contradiction; rewrite Ec; auto.
  Qed.

  (* iwstw_shutdown returns *)
  Theorem shutdown_returns : forall t i, t <> W -> fn (cl (S_ i) t) = 3 -> exists j, i <= j /\ cp (cl (S_ j) t) = Idle.
  Proof.
    intros t i Ht Hfn.
    destruct (call_returns_or_parks t i Ht) as (j & Hij & [A|B]); [exists j; split; assumption|].
    (* fn changes only at a new call, i.e. after the thread was Idle; a shutdown call never parks *)
    assert (Y : forall j, i <= j -> (exists j', i <= j' <= j /\ cp (cl (S_ j') t) = Idle) \/ fn (cl (S_ j) t) = 3).
    { intros j0 Hj0. induction j0 as [|j0 IH].
      - right. replace i with 0 in Hfn by lia. exact Hfn.
      - destruct (Nat.eq_dec i (S j0)) as [<-|Ne]; [right; exact Hfn|].
        destruct IH as [(j' & Hj' & E)|F]; [lia|left; exists j'; split; [lia|exact E]|].
        destruct (idle_dec (cp (cl (S_ j0) t))) as [E|Ni]; [left; exists j0; split; [lia|exact E]|].
        right. assert (Hs := Hx j0). destruct (lab st x j0) as [[u e]|]; [|rewrite Hs; exact F].
        destruct (Nat.eq_dec u t) as [->|Nu]; [|rewrite (frame_c c _ u e _ t Hs Nu); exact F].
        assert (Nw : cp (cl (S_ j0) t) <> CWait).
        { intros E. assert (X := l_fn3 _ _ (LI j0) t F). rewrite E in X. discriminate X. }
        destruct (own_step_rank c _ t e _ Hs Ht Ni Nw) as (_ & _ & A). congruence. }
    destruct (Y j Hij) as [(j' & Hj' & E)|F]; [exists j'; split; [lia|exact E]|].
    assert (X := l_fn3 _ _ (LI j) t F). rewrite B in X. discriminate X.
  Qed.
End Live.

(* ---- the hypothesis is satisfiable; it cannot be dropped ---- *)
Lemma obliged_active : forall c s t, obliged st (step c) must s t -> active s t.
Proof.
  intros c s t (e & Hm & He). unfold active. destruct (step c s t e) as [s'|] eqn:H; [clear He|congruence].
  destruct (Nat.eqb_spec t W) as [->|Nw].
  - unfold step in H; change (W =? W) with true in H; cbv iota in H.
    destruct (wpc s) eqn:Ew; auto; unfold wstep in H; rewrite Ew in H; try discriminate H.
    destruct e; try discriminate H. simpl in Hm. apply negb_true_iff in Hm. apply memb_false in Hm. exact Hm.
  - unfold step in H. destruct (Nat.eqb_spec t W); [contradiction|].
    destruct (cp (cl s t)) eqn:Ec; auto; unfold cstep in H; rewrite Ec in H.
    + destruct e; try discriminate H. discriminate Hm.
    + destruct e; try discriminate H. simpl in Hm. destruct (Nat.eqb_spec t W); [contradiction|].
      apply negb_true_iff in Hm. apply memb_false in Hm. exact Hm.
    + destruct e; try discriminate H. destruct (child =? W); [|discriminate H]. destruct (wpc s); try discriminate H. reflexivity.
Qed.

(* a finite run that ends in a state in which no thread is obliged, followed by stuttering, is a fair execution *)
Lemma quiescent_end_fair : forall c tr s1, selfunlock c = true -> run st (step c) init tr = Some s1 ->
  (forall t, ~ obliged st (step c) must s1 t) -> sfair c (finite_exec st (step c) init tr).
Proof.
  intros c tr s1 Hsu Hr Hq. set (x := finite_exec st (step c) init tr).
  assert (Hx : is_sexec c x) by (eapply finite_exec_is_exec; eauto).
  assert (HL : forall k, LInv c (st_at st x k)).
  { intros k. apply LInv_R; [exact Hsu|]. apply (exec_reachable st (step c) init x Hx). unfold x. rewrite finite_exec_start. apply reachable_init. }
  intros t i Ho.
  destruct (stepped_between_dec st x t i (i + length tr)) as [(k & Hk & Hs)|Hn]; [exists k; split; [lia|exact Hs]|].
  exfalso.
  assert (E : st_at st x (i + length tr) = s1) by (apply (state_after_end st (step c) tr init s1); [exact Hr|lia]).
  assert (A : active (st_at st x (i + length tr)) t).
  { apply (preserved_until st (step c) (LInv c) (fun s => active s t) t x i (i + length tr) Hx HL); auto; [|lia|eapply obliged_active; eauto].
    intros s u e s' _ Q Hs Hu. eapply active_stable; eauto. }
  rewrite E in A. destruct (owner s1) as [a|] eqn:Eo.
  - apply (Hq a). apply ready_obliged; [rewrite <- E; apply HL|]. eapply owner_ready; [rewrite <- E; apply HL|exact Eo].
  - apply (Hq t). apply ready_obliged; [rewrite <- E; apply HL|]. apply active_ready; assumption.
Qed.

Lemma idle_not_obliged : forall c s t, t <> W -> cp (cl s t) = Idle -> ~ obliged st (step c) must s t.
Proof. intros c s t Ht Hc Ho. apply obliged_active in Ho. unfold active in Ho. destruct (Nat.eqb_spec t W); [contradiction|]. rewrite Hc in Ho. exact Ho. Qed.

Lemma parked_not_obliged : forall c s, wpc s = WWait -> In W (waitc s) -> ~ obliged st (step c) must s W.
Proof. intros c s Hw Hin Ho. apply obliged_active in Ho. unfold active in Ho. simpl in Ho. rewrite Hw in Ho. contradiction. Qed.

Lemma dead_not_obliged : forall c s, wpc s = WDead -> ~ obliged st (step c) must s W.
Proof. intros c s Hw Ho. apply obliged_active in Ho. unfold active in Ho. simpl in Ho. rewrite Hw in Ho. exact Ho. Qed.

(* example: one task is submitted and run, the worker parks; then nothing happens any more *)
Definition live_cfg : cfg := mkcfg 1 true true true true.
Definition live_trace : list (tid * ev) :=
  [(10, ECall 0 0 false); (10, ELock); (10, EEnq 0); (10, EBcast 0); (10, EUnlock); (10, ERet 0 true);
   (0, ELock); (0, EDeq 0); (0, EUnlock); (0, ERun 0); (0, EDone 0); (0, ELock); (0, EWait 0)].

Lemma run_frame : forall c tr s s' t, run st (step c) s tr = Some s' -> (forall u e, In (u, e) tr -> u <> t) -> cl s' t = cl s t.
Proof.
  intros c tr. induction tr as [|[u e] tr IH]; intros s s' t Hr Hn; simpl in Hr.
  - inversion Hr; reflexivity.
  - destruct (step c s u e) as [s1|] eqn:Es; [|discriminate].
    rewrite (IH s1 s' t Hr); [|intros u0 e0 Hin; apply (Hn u0 e0); right; exact Hin].
    apply (frame_c c s u e s1 t Es). apply (Hn u e). left. reflexivity.
Qed.

Lemma fair_exec_example : exists x, is_sexec live_cfg x /\ sfair live_cfg x /\ R live_cfg (st_at st x 0) /\
  recheck live_cfg = true /\ selfunlock live_cfg = true /\ (forall i e, lab st x i = Some (W, e) -> is_call e = false) /\
  In 0 (acc (st_at st x 6)) /\ In 0 (done (st_at st x 11)).
Proof.
  destruct (run st (step live_cfg) init live_trace) as [s1|] eqn:Er; [|vm_compute in Er; discriminate].
  exists (finite_exec st (step live_cfg) init live_trace).
  split; [eapply finite_exec_is_exec; exact Er|]. split.
  - apply (quiescent_end_fair live_cfg live_trace s1 eq_refl Er). intros t.
    assert (F : wpc s1 = WWait /\ In W (waitc s1) /\ cp (cl s1 10) = Idle).
    { vm_compute in Er. inversion Er; subst. simpl. repeat split. left. reflexivity. }
    destruct F as (F1 & F2 & F3).
    destruct (Nat.eq_dec t W) as [->|Nw]; [apply parked_not_obliged; assumption|].
    apply idle_not_obliged; [exact Nw|]. destruct (Nat.eq_dec t 10) as [->|N10]; [exact F3|].
    rewrite (run_frame live_cfg live_trace init s1 t Er); [reflexivity|].
    intros u e Hin. simpl in Hin. repeat (destruct Hin as [Hin|Hin]; [inversion Hin; subst; auto|]). contradiction.
  - split; [rewrite finite_exec_start; apply reachable_init|]. split; [reflexivity|]. split; [reflexivity|]. split.
    + intros i e Hl. simpl in Hl. do 14 (destruct i as [|i]; [simpl in Hl; inversion Hl; subst; reflexivity|]).
      simpl in Hl. destruct i; discriminate Hl.
    + vm_compute. split; left; reflexivity.
Qed.

(* without the fairness hypothesis: the same task, accepted, then nothing happens - an execution of the model in which the
   accepted task is never run *)
Definition stuck_trace : list (tid * ev) := firstn 6 live_trace.

Theorem accepted_eventually_refuted_without_fairness : exists x, is_sexec live_cfg x /\ R live_cfg (st_at st x 0) /\
  recheck live_cfg = true /\ In 0 (acc (st_at st x 6)) /\
  forall j, 6 <= j -> queue (st_at st x j) = [0] /\ ~ In 0 (done (st_at st x j)) /\ ~ In 0 (disc (st_at st x j)) /\
                      ~ In 0 (repl (st_at st x j)).
Proof.
  destruct (run st (step live_cfg) init stuck_trace) as [s1|] eqn:Er; [|vm_compute in Er; discriminate].
  exists (finite_exec st (step live_cfg) init stuck_trace).
  split; [eapply finite_exec_is_exec; eauto|]. split; [rewrite finite_exec_start; apply reachable_init|]. split; [reflexivity|].
  split; [vm_compute; left; reflexivity|]. intros j Hj.
  assert (E : st_at st (finite_exec st (step live_cfg) init stuck_trace) j = s1)
    by (apply (state_after_end st (step live_cfg) stuck_trace init s1 j Er); simpl; lia).
  rewrite E. vm_compute in Er. inversion Er; subst. simpl. repeat split; auto.
Qed.

(* ---- the code as found (selfunlock = false): a task body that calls iwstw_shutdown on its own executor gets
        IW_ERROR_ASSERTION back with the mutex still locked; when the task has returned the worker blocks on its own mutex,
        and no continuation whatsoever releases it: every later call (here iwstw_schedule of task 1 by thread 10) hangs ---- *)
Definition selfsd_cfg : cfg := mkcfg 0 false false true false.
Definition selfsd_trace : list (tid * ev) :=
  [(10, ECall 0 0 false); (10, ELock); (10, EEnq 0); (10, EBcast 0); (10, EUnlock); (10, ERet 0 true);
   (0, ELock); (0, EDeq 0); (0, EUnlock); (0, ERun 0);
   (0, ECall 3 0 false); (0, ELock); (0, ERet RC_ASSERTION false); (0, EDone 0);
   (10, ECall 0 1 false)].

Definition self_deadlocked (s : st) : Prop :=
  owner s = Some W /\ wpc s = WU1 /\ cp (cl s 10) = Start /\ fn (cl s 10) = 0 /\ done s = [0] /\ queue s = [].

Lemma self_deadlocked_step : forall c s t e s', self_deadlocked s -> step c s t e = Some s' -> self_deadlocked s'.
Proof.
  intros c s t e s' (A & B & C & D & E & F) H. unfold self_deadlocked.
  destruct (Nat.eq_dec t 10) as [Et|N].
  - scases H t; simpl in *; try discriminate Et; subst; congruence.
  - rewrite (frame_c c s t e s' 10 H N).
    scases H t; simpl in *; try congruence; repeat split; auto; congruence.
Qed.

Theorem self_shutdown_deadlock : exists s,
  run st (step selfsd_cfg) init selfsd_trace = Some s /\ recheck selfsd_cfg = true /\ In 0 (acc s) /\ self_deadlocked s /\
  forall tr s', run st (step selfsd_cfg) s tr = Some s' -> self_deadlocked s'.
Proof.
  destruct (run st (step selfsd_cfg) init selfsd_trace) as [s|] eqn:Er; [|vm_compute in Er; discriminate].
  exists s. split; [reflexivity|]. split; [reflexivity|].
  assert (X : In 0 (acc s) /\ self_deadlocked s).
  { vm_compute in Er. inversion Er; subst. unfold self_deadlocked. simpl. repeat split. left. reflexivity. }
  destruct X as [X1 X2]. split; [exact X1|]. split; [exact X2|].
  intros tr s' Hr. eapply (invariant_run st (step selfsd_cfg) self_deadlocked); [|exact X2|exact Hr].
  intros s0 t e s1 P Hs. eapply self_deadlocked_step; eauto.
Qed.

(* with the fix the same call sequence is harmless: the task gets IW_ERROR_ASSERTION, the mutex is free again *)
Definition selfsd_fixed_cfg : cfg := mkcfg 0 false false true true.
Definition selfsd_fixed_trace : list (tid * ev) :=
  [(10, ECall 0 0 false); (10, ELock); (10, EEnq 0); (10, EBcast 0); (10, EUnlock); (10, ERet 0 true);
   (0, ELock); (0, EDeq 0); (0, EUnlock); (0, ERun 0);
   (0, ECall 3 0 false); (0, ELock); (0, EUnlock); (0, ERet RC_ASSERTION false); (0, EDone 0);
   (10, ECall 0 1 false); (10, ELock); (10, EEnq 1); (10, EBcast 0); (10, EUnlock); (10, ERet 0 true)].

Lemma self_shutdown_fixed_example : exists s,
  run st (step selfsd_fixed_cfg) init selfsd_fixed_trace = Some s /\ owner s = None /\ acc s = [0; 1] /\ done s = [0] /\
  queue s = [1] /\ shut s = false.
Proof.
  destruct (run st (step selfsd_fixed_cfg) init selfsd_fixed_trace) as [s|] eqn:Er; [|vm_compute in Er; discriminate].
  exists s. split; [reflexivity|]. vm_compute in Er. inversion Er; subst. simpl. repeat split.
Qed.

(* ---- the queries and iwstw_schedule_empty_only ---- *)
Theorem queue_size_exact : forall c s t s', R c s -> step c s t EUnlock = Some s' -> t <> W -> cp (cl s t) = Locked ->
  fn (cl s t) = 4 -> cp (cl s' t) = Ret (length (queue s)) false /\ queue s' = queue s.
Proof.
  intros c s t s' H Hs Ht Hp Hf. assert (V := Inv_R c s H). assert (IC := i_cnt _ _ V). unfold Icnt in IC.
  scases Hs t; try congruence; simpl; unfold upd; rewrite Nat.eqb_refl; simpl.
  rewrite E0 in IC. destruct (Nat.eqb_spec t W); [contradiction|]. rewrite E in IC. rewrite IC. auto.
Qed.

Theorem empty_only_step : forall c s t e s', step c s t e = Some s' -> t <> W -> cp (cl s t) = Locked -> fn (cl s t) = 2 ->
  shut s = false ->
  (queue s = [] -> e = EEnq (tk (cl s t)) /\ queue s' = [tk (cl s t)] /\ enq s' = enq s ++ [tk (cl s t)] /\ cp (cl s' t) = Enq) /\
  (queue s <> [] -> e = EUnlock /\ queue s' = queue s /\ enq s' = enq s /\ cp (cl s' t) = Ret RC_OK false).
Proof.
  intros c s t e s' H Ht Hp Hf Hs.
  scases H t; try congruence; simpl; unfold upd; rewrite Nat.eqb_refl; simpl; split; intros Q; try congruence; repeat split; auto.
Qed.
