(* C20 - generic facts about fair executions (CC/Fair.v): invariants along an execution, the first step of an obliged
   thread, frame reasoning between two steps of a thread, induction on a ranking function, release of a mutex. *)
Require Import List Arith Lia.
Require Import IW.CC.Lts IW.CC.Lts_proofs IW.CC.Fair.
Import ListNotations.

Section FairFacts.
  Variable S : Type.
  Variable step : S -> tid -> ev -> option S.
  Variable must : S -> tid -> ev -> bool.

  Notation exec := (exec S).
  Notation is_exec := (is_exec S step).
  Notation obliged := (obliged S step must).
  Notation fair := (fair S step must).
  Notation steps_at := (steps_at S).

  Lemma exec_inv : forall (P : S -> Prop) (x : exec), is_exec x ->
    (forall s t e s', P s -> step s t e = Some s' -> P s') -> P (st_at S x 0) -> forall i, P (st_at S x i).
  Proof.
    intros P x Hx Hs H0. induction i as [|i IH]; [exact H0|].
    specialize (Hx i). destruct (lab S x i) as [[t e]|]; [eapply Hs; eauto|rewrite Hx; exact IH].
  Qed.

  Lemma exec_reachable : forall init (x : exec), is_exec x -> reachable S step init (st_at S x 0) ->
    forall i, reachable S step init (st_at S x i).
  Proof.
    intros init x Hx H0. apply (exec_inv (reachable S step init) x Hx); [|exact H0].
    intros s t e s' Hr Hs. eapply reachable_step; eauto.
  Qed.

  Lemma steps_at_dec : forall (x : exec) i t, {steps_at x i t} + {~ steps_at x i t}.
  Proof.
    intros x i t. unfold Fair.steps_at. destruct (lab S x i) as [[u e]|].
    - destruct (Nat.eq_dec u t) as [->|N]; [left; exists e; reflexivity|right; intros [e' H]; inversion H; congruence].
    - right. intros [e' H]. discriminate H.
  Qed.

  (* the least position at or after i at which a decidable property holds *)
  Lemma least_from : forall (P : nat -> Prop), (forall k, {P k} + {~ P k}) ->
    forall i j, i <= j -> P j -> exists j0, i <= j0 /\ j0 <= j /\ P j0 /\ forall k, i <= k < j0 -> ~ P k.
  Proof.
    intros P Pdec i j Hij Hj.
    assert (G : forall d i0, i0 + d = j -> i <= i0 -> (forall k, i <= k < i0 -> ~ P k) ->
                exists j0, i <= j0 /\ j0 <= j /\ P j0 /\ forall k, i <= k < j0 -> ~ P k).
    { induction d as [|d IH]; intros i0 E Hi Hn.
      - exists j. replace i0 with j in * by lia. repeat split; auto.
      - destruct (Pdec i0) as [Y|N].
        + exists i0. repeat split; auto. lia.
        + apply (IH (Datatypes.S i0)); [lia|lia|]. intros k Hk. destruct (Nat.eq_dec k i0) as [->|Ne]; [exact N|apply Hn; lia]. }
    apply (G (j - i) i); [lia|lia|]. intros k Hk. lia.
  Qed.

  Lemma first_step : forall (x : exec) t i, fair x -> obliged (st_at S x i) t ->
    exists j, i <= j /\ steps_at x j t /\ forall k, i <= k < j -> ~ steps_at x k t.
  Proof.
    intros x t i Hf Ho. destruct (Hf t i Ho) as (j & Hij & Hj).
    destruct (least_from (fun k => steps_at x k t) (fun k => steps_at_dec x k t) i j Hij Hj) as (j0 & A & _ & B & C).
    exists j0. auto.
  Qed.

  Lemma stable_from : forall (I P : S -> Prop) (x : exec), is_exec x -> (forall k, I (st_at S x k)) ->
    (forall s t e s', I s -> P s -> step s t e = Some s' -> P s') ->
    forall i j, i <= j -> P (st_at S x i) -> P (st_at S x j).
  Proof.
    intros I P x Hx HI Hs i j Hij Hp. induction j as [|j IH]; [replace i with 0 in * by lia; exact Hp|].
    destruct (Nat.eq_dec i (Datatypes.S j)) as [<-|Ne]; [exact Hp|].
    assert (Pj : P (st_at S x j)) by (apply IH; lia).
    assert (H := Hx j). destruct (lab S x j) as [[t e]|]; [eapply Hs; [apply HI|exact Pj|exact H]|rewrite H; exact Pj].
  Qed.

  Lemma stepped_between_dec : forall (x : exec) t i j,
    (exists k, i <= k < j /\ steps_at x k t) \/ (forall k, i <= k < j -> ~ steps_at x k t).
  Proof.
    intros x t i j. induction j as [|j [(k & Hk & Hs)|IH]].
    - right. intros k Hk. lia.
    - left. exists k. split; [lia|exact Hs].
    - destruct (Nat.le_gt_cases i j) as [L|G].
      + destruct (steps_at_dec x j t) as [Y|N].
        * left. exists j. split; [lia|exact Y].
        * right. intros k Hk. destruct (Nat.eq_dec k j) as [->|Ne]; [exact N|apply IH; lia].
      + right. intros k Hk. lia.
  Qed.

  (* a property that only thread t can destroy holds until t steps *)
  Lemma preserved_until : forall (I Q : S -> Prop) t (x : exec) i j, is_exec x -> (forall k, I (st_at S x k)) ->
    (forall s u e s', I s -> Q s -> step s u e = Some s' -> u <> t -> Q s') ->
    i <= j -> (forall k, i <= k < j -> ~ steps_at x k t) -> Q (st_at S x i) -> Q (st_at S x j).
  Proof.
    intros I Q t x i j Hx HI Hfr Hij Hn Hq. induction j as [|j IH]; [replace i with 0 in * by lia; exact Hq|].
    destruct (Nat.eq_dec i (Datatypes.S j)) as [<-|Ne]; [exact Hq|].
    assert (Qj : Q (st_at S x j)) by (apply IH; [lia|intros k Hk; apply Hn; lia]).
    assert (Hs := Hx j). destruct (lab S x j) as [[u e]|] eqn:El; [|rewrite Hs; exact Qj].
    eapply Hfr; [apply HI|exact Qj|exact Hs|]. intros ->. apply (Hn j); [lia|]. exists e. exact El.
  Qed.

  (* a measure that no transition increases (as long as the goal is not reached) *)
  Lemma measure_mono : forall (I G : S -> Prop) (m : S -> nat) (x : exec), is_exec x -> (forall k, I (st_at S x k)) ->
    (forall s, G s \/ ~ G s) ->
    (forall s t e s', I s -> ~ G s -> step s t e = Some s' -> G s' \/ m s' <= m s) ->
    forall i j, i <= j -> (exists j', i <= j' <= j /\ G (st_at S x j')) \/ m (st_at S x j) <= m (st_at S x i).
  Proof.
    intros I G m x Hx HI Gdec Hstep i j Hij. induction j as [|j IH].
    - right. replace i with 0 by lia. lia.
    - destruct (Nat.eq_dec i (Datatypes.S j)) as [<-|Ne]; [right; lia|].
      destruct IH as [(j' & Hj' & Hg)|Hm]; [lia|left; exists j'; split; [lia|exact Hg]|].
      destruct (Gdec (st_at S x j)) as [Hg|Hng]; [left; exists j; split; [lia|exact Hg]|].
      assert (Hs := Hx j). destruct (lab S x j) as [[t e]|].
      + destruct (Hstep _ _ _ _ (HI j) Hng Hs) as [Hg|Hle]; [left; exists (Datatypes.S j); split; [lia|exact Hg]|right; lia].
      + right. rewrite Hs. exact Hm.
  Qed.

  (* the same when the labels of the execution are known to satisfy [ok] *)
  Lemma measure_mono_lab : forall (I G : S -> Prop) (m : S -> nat) (ok : tid -> ev -> Prop) (x : exec), is_exec x ->
    (forall k, I (st_at S x k)) -> (forall s, G s \/ ~ G s) ->
    (forall i t e, lab S x i = Some (t, e) -> ok t e) ->
    (forall s t e s', I s -> ~ G s -> ok t e -> step s t e = Some s' -> G s' \/ m s' <= m s) ->
    forall i j, i <= j -> (exists j', i <= j' <= j /\ G (st_at S x j')) \/ m (st_at S x j) <= m (st_at S x i).
  Proof.
    intros I G m ok x Hx HI Gdec Hok Hstep i j Hij. induction j as [|j IH].
    - right. replace i with 0 by lia. lia.
    - destruct (Nat.eq_dec i (Datatypes.S j)) as [<-|Ne]; [right; lia|].
      destruct IH as [(j' & Hj' & Hg)|Hm]; [lia|left; exists j'; split; [lia|exact Hg]|].
      destruct (Gdec (st_at S x j)) as [Hg|Hng]; [left; exists j; split; [lia|exact Hg]|].
      assert (Hs := Hx j). assert (Hl := Hok j). destruct (lab S x j) as [[t e]|].
      + destruct (Hstep _ _ _ _ (HI j) Hng (Hl t e eq_refl) Hs) as [Hg|Hle]; [left; exists (Datatypes.S j); split; [lia|exact Hg]|right; lia].
      + right. rewrite Hs. exact Hm.
  Qed.

  (* induction on a ranking function *)
  Lemma rank_induction : forall (x : exec) (G : S -> Prop) (m : S -> nat),
    (forall i, G (st_at S x i) \/ exists j, i <= j /\ (G (st_at S x j) \/ m (st_at S x j) < m (st_at S x i))) ->
    forall i, exists j, i <= j /\ G (st_at S x j).
  Proof.
    intros x G m H.
    assert (X : forall n i, m (st_at S x i) < n -> exists j, i <= j /\ G (st_at S x j)).
    { induction n as [|n IH]; intros i Hm; [lia|].
      destruct (H i) as [Hg|(j & Hij & [Hg|Hlt])].
      - exists i. split; [lia|exact Hg].
      - exists j. split; assumption.
      - destruct (IH j) as (j' & Hj' & Hg); [lia|]. exists j'. split; [lia|exact Hg]. }
    intros i. apply (X (Datatypes.S (m (st_at S x i))) i). lia.
  Qed.

  (* ---- a mutex whose critical sections are finite is released ---- *)
  Section Mutex.
    Variable I : S -> Prop.
    Variable owner : S -> option tid.
    Variable crank : S -> tid -> nat.
    Hypothesis owner_obliged : forall s a, I s -> owner s = Some a -> obliged s a.
    Hypothesis owner_step : forall s a e s', I s -> owner s = Some a -> step s a e = Some s' ->
      owner s' = None \/ (owner s' = Some a /\ crank s' a < crank s a).
    Hypothesis other_step : forall s a u e s', I s -> owner s = Some a -> u <> a -> step s u e = Some s' ->
      owner s' = Some a /\ crank s' a = crank s a.

    Lemma mutex_released : forall (x : exec), is_exec x -> fair x -> (forall k, I (st_at S x k)) ->
      forall i a, owner (st_at S x i) = Some a ->
      exists j, i <= j /\ owner (st_at S x j) = None /\ forall k, i <= k < j -> owner (st_at S x k) = Some a.
    Proof.
      intros x Hx Hf HI.
      assert (X : forall n i a, crank (st_at S x i) a < n -> owner (st_at S x i) = Some a ->
                  exists j, i <= j /\ owner (st_at S x j) = None /\ forall k, i <= k < j -> owner (st_at S x k) = Some a).
      { induction n as [|n IH]; intros i a Hm Ho; [lia|].
        destruct (first_step x a i Hf (owner_obliged _ _ (HI i) Ho)) as (j & Hij & [e He] & Hn).
        (* nothing changes for a until its step at j *)
        assert (Q : forall k, i <= k <= j -> owner (st_at S x k) = Some a /\ crank (st_at S x k) a = crank (st_at S x i) a).
        { intros k Hk.
          apply (preserved_until I (fun s => owner s = Some a /\ crank s a = crank (st_at S x i) a) a x i k Hx HI); [|lia| |auto].
          - intros s u e0 s' Is [Qo Qc] Hs Hu. destruct (other_step s a u e0 s' Is Qo Hu Hs) as [A B]. split; [exact A|lia].
          - intros k0 Hk0. apply Hn. lia. }
        destruct (Q j) as [Oj Cj]; [lia|].
        assert (Hs := Hx j). rewrite He in Hs.
        destruct (owner_step _ _ _ _ (HI j) Oj Hs) as [Rel|[Own Lt]].
        - exists (Datatypes.S j). split; [lia|]. split; [exact Rel|]. intros k Hk. apply Q. lia.
        - destruct (IH (Datatypes.S j) a) as (j' & Hj' & Rel & Bet); [lia|exact Own|].
          exists j'. split; [lia|]. split; [exact Rel|]. intros k Hk.
          destruct (Nat.le_gt_cases k j) as [L|G]; [apply Q; lia|apply Bet; lia]. }
      intros i a Ho. apply (X (Datatypes.S (crank (st_at S x i) a)) i a); [lia|exact Ho].
    Qed.
  End Mutex.

  (* ---- executions built from a finite trace ---- *)
  Lemma state_after_nil : forall s i, state_after S step s [] i = s.
  Proof. intros s [|i]; reflexivity. Qed.

  Lemma state_after_0 : forall s tr, state_after S step s tr 0 = s.
  Proof. intros s [|[t e] tr]; reflexivity. Qed.

  Lemma finite_exec_start : forall s tr, st_at S (finite_exec S step s tr) 0 = s.
  Proof. intros. simpl. apply state_after_0. Qed.

  Lemma finite_exec_is_exec : forall tr s0 s1, run S step s0 tr = Some s1 -> is_exec (finite_exec S step s0 tr).
  Proof.
    induction tr as [|[t e] tr IH]; intros s0 s1 Hr i; unfold Fair.is_exec in *; simpl.
    - destruct i; reflexivity.
    - simpl in Hr. destruct (step s0 t e) as [s'|] eqn:Es; [|discriminate].
      destruct i as [|i]; simpl.
      + rewrite Es. destruct tr as [|[t1 e1] tr]; reflexivity.
      + exact (IH s' s1 Hr i).
  Qed.

  Lemma state_after_end : forall tr s0 s1 i, run S step s0 tr = Some s1 -> length tr <= i -> state_after S step s0 tr i = s1.
  Proof.
    induction tr as [|[t e] tr IH]; intros s0 s1 i Hr Hl; simpl in *.
    - inversion Hr; subst. apply state_after_nil.
    - destruct (step s0 t e) as [s'|] eqn:Es; [|discriminate]. destruct i as [|i]; [lia|]. simpl; rewrite ?Es.
      apply IH; [exact Hr|lia].
  Qed.
End FairFacts.
