(* C20 - iwstw.c: the obligation predicate of the fairness hypothesis (CC/Fair.v) and the ranking functions of the
   liveness proofs.  Definitions only. *)
Require Import List Bool Arith.
Require Import IW.CC.Lts IW.CC.Fair IW.CC.Stw.
Import ListNotations.

(* obligatory transitions: everything except starting a new API call and waking up from a condition wait that nobody has
   signalled (W / t still listed in waitc / waitq = parked and not signalled) *)
Definition is_call (e : ev) : bool := match e with ECall _ _ _ => true | _ => false end.
Definition must (s : st) (t : tid) (e : ev) : bool :=
  match e with
  | ECall _ _ _ => false
  | EWake _ => if t =? W then negb (memb W (waitc s)) else negb (memb t (waitq s))
  | _ => true
  end.

Definition sexec := exec st.
Definition is_sexec (c : cfg) (x : sexec) : Prop := is_exec st (step c) x.
Definition sfair (c : cfg) (x : sexec) : Prop := fair st (step c) must x.
Definition sweakly_fair (c : cfg) (x : sexec) : Prop := weakly_fair st (step c) must x.

(* pc's inside the critical section *)
Definition wlocked (p : wpcT) : bool :=
  match p with WL1 | WDeq | WL2 | WL2a | WL2b | WWoken | WSdLocked => true | _ => false end.
Definition clocked (p : cpcT) : bool :=
  match p with Locked | Woken | ODisc | Enq | Bc | DDisc | DBc1 | DBc2 => true | _ => false end.

(* number of transitions (upper bound) until the owner releases the mutex *)
Definition wcrank (p : wpcT) : nat :=
  match p with WL1 | WL2 => 2 | WDeq | WL2a | WL2b | WWoken | WSdLocked => 1 | _ => 0 end.
Definition ccrank (p : cpcT) (n : nat) : nat :=
  match p with Locked | Woken => n + 5 | ODisc | DDisc => n + 4 | Enq | DBc1 => 2 | Bc | DBc2 => 1 | _ => 0 end.
Definition crank (s : st) (a : tid) : nat :=
  if a =? W then wcrank (wpc s) else ccrank (cp (cl s a)) (length (queue s)).

(* number of tasks in front of k in the queue *)
Fixpoint ahead (k : task) (q : list task) : nat :=
  match q with [] => 0 | y :: r => if y =? k then 0 else S (ahead k r) end.

(* worker: transitions until the next dequeue while the queue is non-empty *)
Definition wrank_deq (p : wpcT) : nat :=
  match p with
  | WL1 => 0 | WTop => 1 | WWoken | WL2a => 2 | WWait => 3 | WL2b => 4 | WL2 => 5 | WU1 => 6 | WRun => 7
  | WSdRet0 | WSdRetA => 8 | WSdLocked => 9 | WSdStart => 10 | WU1t => 11 | WDeq => 12 | WDead => 13 | WExit => 14
  end.
Definition mdeq (k : task) (s : st) : nat := 16 * ahead k (queue s) + wrank_deq (wpc s).

(* worker holding task k: transitions until fn returns *)
Definition hrank (p : wpcT) : nat :=
  match p with WDeq => 6 | WU1t => 5 | WSdStart => 4 | WSdLocked => 3 | WSdRet0 | WSdRetA => 2 | WRun => 1 | _ => 0 end.

(* worker after shutdown was set: transitions until the thread has finished *)
Definition wrank_exit (p : wpcT) (empty : bool) : nat :=
  if empty then
    match p with
    | WDead => 0 | WExit => 1 | WL2 => 2 | WU1 => 3 | WL1 | WRun => 4 | WSdRet0 | WSdRetA | WTop => 5
    | WSdLocked | WWoken | WL2a => 6 | WSdStart | WWait => 7 | WU1t | WL2b => 8 | WDeq => 9
    end
  else
    match p with
    | WDead => 0 | WExit => 1 | WL1 => 0 | WTop => 1 | WWoken | WL2a => 2 | WWait => 3 | WL2b => 4 | WL2 => 5 | WU1 => 6
    | WRun => 7 | WSdRet0 | WSdRetA => 8 | WSdLocked => 9 | WSdStart => 10 | WU1t => 11 | WDeq => 12
    end.
Definition mexit (s : st) : nat := 16 * length (queue s) + wrank_exit (wpc s) (is_nil (queue s)).

(* an API call: phases until the call has returned (or parks on cond_queue) *)
Definition callrank (p : cpcT) : nat :=
  match p with
  | Idle => 0 | Ret _ _ => 1 | DFreed => 2 | DJoined => 3 | DUnl => 4 | Bc | DBc2 => 5 | Enq | DBc1 => 6 | ODisc | DDisc => 7
  | Locked | Woken => 8 | Start => 9 | CWait => 10
  end.

(* ---- the obligatory transition of a thread (used to show that a thread is enabled) ---- *)
Definition wnext (c : cfg) (s : st) : ev :=
  match wpc s with
  | WTop | WU1 => ELock
  | WL1 => match queue s with x :: _ => EDeq x | [] => EUnlock end
  | WDeq | WL2a | WWoken => EUnlock
  | WU1t => ERun (wtk s)
  | WRun => EDone (wtk s)
  | WL2 => if canunblock c s && (negb (is_nil (queue s)) || negb (shut s)) then EBcast 1
           else if is_nil (queue s) then (if shut s then EUnlock else EWait 0) else EUnlock
  | WL2b => EWait 0
  | WWait => EWake 0
  | WExit | WDead => EExit
  | WSdStart => ELock
  | WSdLocked => EUnlock
  | WSdRet0 => ERet RC_OK false
  | WSdRetA => ERet RC_ASSERTION false
  end.

Definition loop_next (c : cfg) (s : st) (th : cthr) : ev :=
  if full c s then (if blocking c then (if shut s then EUnlock else EWait 1) else EUnlock)
  else if recheck c && shut s then EUnlock else EEnq (tk th).
Definition odisc_next (c : cfg) (s : st) (th : cthr) : ev :=
  match queue s with y :: _ => if has_cb c then EDiscard y else EEnq (tk th) | [] => EEnq (tk th) end.
Definition ddisc_next (c : cfg) (s : st) : ev :=
  match queue s, has_cb c with y :: _, true => EDiscard y | _, _ => EBcast 0 end.
Definition locked_next (c : cfg) (s : st) (th : cthr) : ev :=
  match fn th with
  | 0 => if shut s then EUnlock else loop_next c s th
  | 1 => if shut s then EUnlock else odisc_next c s th
  | 2 => if shut s then EUnlock else if is_nil (queue s) then EEnq (tk th) else EUnlock
  | 3 => if shut s then EUnlock else if wf th then EBcast 0 else ddisc_next c s
  | _ => EUnlock
  end.
Definition cnext (c : cfg) (s : st) (t : tid) : ev :=
  let th := cl s t in
  match cp th with
  | Idle => ECall 4 0 false
  | Start => ELock
  | CWait => EWake 1
  | DUnl => EJoin W
  | DJoined => EFree
  | DFreed => ERet 0 false
  | Ret rc sc => ERet rc sc
  | Locked => locked_next c s th
  | Woken => loop_next c s th
  | ODisc => odisc_next c s th
  | DDisc => ddisc_next c s
  | Enq => EBcast 0
  | Bc | DBc2 => EUnlock
  | DBc1 => if blocking c then EBcast 1 else EUnlock
  end.
Definition next (c : cfg) (s : st) (t : tid) : ev := if t =? W then wnext c s else cnext c s t.

(* thread t has an obligatory transition that is enabled *)
Definition ready (s : st) (t : tid) : Prop :=
  if t =? W then
    match wpc s with
    | WDead => False
    | WTop | WU1 | WSdStart => owner s = None
    | WWait => owner s = None /\ ~ In W (waitc s)
    | _ => True
    end
  else
    match cp (cl s t) with
    | Idle => False
    | Start => owner s = None
    | CWait => owner s = None /\ ~ In t (waitq s)
    | DUnl => wpc s = WDead
    | _ => True
    end.

(* thread t has an obligatory transition that is enabled as soon as the mutex is free *)
Definition active (s : st) (t : tid) : Prop :=
  if t =? W then
    match wpc s with WDead => False | WWait => ~ In W (waitc s) | _ => True end
  else
    match cp (cl s t) with Idle => False | CWait => ~ In t (waitq s) | DUnl => wpc s = WDead | _ => True end.
