(* C07 - operations as sequences of critical sections.
   An API call on the store is modelled as the list of its critical sections; a section runs atomically (the locks it
   holds exclude every conflicting section of another thread), a context switch can happen between two sections - that
   is the granularity of the preemption explorer (harness/h_preempt.c: thread B runs at the k-th lock release of A).

   Shared state.  `mp` is the memory mapping every reader and writer works on.  `dur` is what the file together with
   the write-ahead log holds (file contents with the log records applied).  `fsz` stands for the allocator / file size.
   In WAL mode (w = true) the mapping is private: a store into it (Sto) changes `mp` only, the log record (Log) changes
   `dur`; an allocation that makes the file grow (Grow) and a checkpoint (Ckpt) apply the log to the file and REPLACE the
   mapping (mp := dur) - this is _onresize -> _checkpoint_exl -> _rollforward_exl of src/kv/iwal.c, run by the growing
   thread under the file lock only.  Without WAL (w = false) the mapping is shared: a store goes to the file as well and
   log records do not exist.
   Locations are (database, address): the pages of a database are only touched under that database's lock.  The
   physical placement of blocks by the allocator is NOT modelled (fsz is a counter), the comparison with the
   implementation is on logical contents and on the mapping-equals-log invariant.
   No proofs in this file (CC/Sections_proofs.v). *)
Require Import List ZArith Bool Lia. Import ListNotations.
Require Import IW.CC.KvLocks.
Local Open Scope Z_scope.

Definition loc := (nat * nat)%type.
Definition loc_eqb (a b : loc) : bool := Nat.eqb (fst a) (fst b) && Nat.eqb (snd a) (snd b).
Definition upd (f : loc -> Z) (l : loc) (v : Z) : loc -> Z := fun x => if loc_eqb x l then v else f x.

Record store := { mp : loc -> Z; dur : loc -> Z; fsz : Z }.

Inductive action :=
| Sto (l : loc) (v : Z)     (* memcpy into the mapping *)
| Log (l : loc) (v : Z)     (* log record for that store (dlsnr->onwrite / onset) *)
| Get (l : loc)             (* read of the mapping; the value is returned to the caller *)
| Grow (n : Z)              (* allocation that makes the file grow *)
| Ckpt.                     (* checkpoint *)

Definition section := list action.
Definition prog := list section.

Definition remap (w : bool) (s : store) : store :=
  if w then {| mp := dur s; dur := dur s; fsz := fsz s |} else s.

Definition run_act (w : bool) (s : store) (a : action) : store * list Z :=
  match a with
  | Sto l v => ({| mp := upd (mp s) l v; dur := if w then dur s else upd (dur s) l v; fsz := fsz s |}, [])
  | Log l v => (if w then {| mp := mp s; dur := upd (dur s) l v; fsz := fsz s |} else s, [])
  | Get l => (s, [mp s l])
  | Grow n => ({| mp := mp (remap w s); dur := dur (remap w s); fsz := fsz s + n |}, [])
  | Ckpt => (remap w s, [])
  end.

Fixpoint run_sec (w : bool) (s : store) (x : section) : store * list Z :=
  match x with
  | [] => (s, [])
  | a :: r => let (s1, o1) := run_act w s a in let (s2, o2) := run_sec w s1 r in (s2, o1 ++ o2)
  end.

(* two threads: tag false = A, true = B; a configuration carries the values each thread has read *)
Record cfg := { cs : store; oa : list Z; ob : list Z }.

Definition step (w : bool) (c : cfg) (t : bool * section) : cfg :=
  let (s', o) := run_sec w (cs c) (snd t) in
  if fst t then {| cs := s'; oa := oa c; ob := ob c ++ o |} else {| cs := s'; oa := oa c ++ o; ob := ob c |}.

Definition exec (w : bool) (c : cfg) (l : list (bool * section)) : cfg := fold_left (step w) l c.

Definition start (s : store) : cfg := {| cs := s; oa := []; ob := [] |}.
Definition tag (b : bool) (p : prog) : list (bool * section) := map (pair b) p.

(* every way of taking the sections of A and of B in program order *)
Inductive Interleave : prog -> prog -> list (bool * section) -> Prop :=
| il_nil : Interleave [] [] []
| il_a x a b l : Interleave a b l -> Interleave (x :: a) b ((false, x) :: l)
| il_b y a b l : Interleave a b l -> Interleave a (y :: b) ((true, y) :: l).

(* the mapping at rest equals what the file and the log hold *)
Definition inv (s : store) : Prop := forall l, mp s l = dur s l.
(* observational equality of stores *)
Definition same (s t : store) : Prop := (forall l, mp s l = mp t l) /\ (forall l, dur s l = dur t l) /\ fsz s = fsz t.

(* PUBLICATION DISCIPLINE (WAL mode): inside a section every store into the mapping is followed at once by its log
   record, and no log record stands alone.  This is the pattern `memcpy(wp, ...); dlsnr->onwrite(dlsnr, wp - mm, ...)`
   between acquire_mmap and release_mmap. *)
Fixpoint pub_sec (x : section) : bool :=
  match x with
  | [] => true
  | Sto l v :: r =>
      match r with
      | Log l' v' :: r' => loc_eqb l l' && Z.eqb v v' && pub_sec r'
      | _ => false
      end
  | Log _ _ :: _ => false
  | _ :: r => pub_sec r
  end.
Definition good (w : bool) (x : section) : Prop := if w then pub_sec x = true else True.

(* footprints *)
Definition act_touches (l : loc) (a : action) : bool :=
  match a with Sto l' _ | Log l' _ | Get l' => loc_eqb l l' | _ => false end.
Definition act_writes (l : loc) (a : action) : bool :=
  match a with Sto l' _ => loc_eqb l l' | _ => false end.
Definition touches (p : prog) (l : loc) : bool := existsb (existsb (act_touches l)) p.
Definition writes (p : prog) (l : loc) : bool := existsb (existsb (act_writes l)) p.
Definition noconflict (a b : prog) : Prop :=
  forall l, (writes a l = true -> touches b l = false) /\ (writes b l = true -> touches a l = false).

(* the effect of a program run alone, as functions of the initial mapping *)
Fixpoint wr_sec (x : section) (l : loc) (d : Z) : Z :=
  match x with
  | [] => d
  | Sto l' v :: r => if loc_eqb l l' then wr_sec r l v else wr_sec r l d
  | _ :: r => wr_sec r l d
  end.
Fixpoint wr_prog (p : prog) (l : loc) (d : Z) : Z :=
  match p with [] => d | x :: r => wr_prog r l (wr_sec x l d) end.
Fixpoint rd_sec (x : section) (f : loc -> Z) : list Z :=
  match x with
  | [] => []
  | Sto l v :: r => rd_sec r (upd f l v)
  | Get l :: r => f l :: rd_sec r f
  | _ :: r => rd_sec r f
  end.
Fixpoint rd_prog (p : prog) (f : loc -> Z) : list Z :=
  match p with [] => [] | x :: r => rd_sec x f ++ rd_prog r (fun l => wr_sec x l (f l)) end.
Fixpoint gsum_sec (x : section) : Z :=
  match x with [] => 0 | Grow n :: r => n + gsum_sec r | _ :: r => gsum_sec r end.
Fixpoint gsum (p : prog) : Z := match p with [] => 0 | x :: r => gsum_sec x + gsum r end.

(* ---- locks: an operation holds its outer locks (store, database) from its first to its last section ---- *)
Record op := { outer : list req; body : prog }.
Definition dblock (d : nat) : lock := (2%nat, d).
Definition act_locked (o : list req) (a : action) : Prop :=
  match a with
  | Sto l _ | Log l _ => In (dblock (fst l), KvLocks.Wr) o
  | Get l => In (dblock (fst l), KvLocks.Rd) o \/ In (dblock (fst l), KvLocks.Wr) o
  | _ => True
  end.
Definition well_locked (o : op) : Prop := Forall (Forall (act_locked (outer o))) (body o).
Definition compatible (a b : list req) : bool := forallb (fun r => forallb (compat1 r) b) a.

(* ---- small-step system with the outer locks: a thread that has run its first section holds its outer locks until its
   last section is done; a thread may take a step when it already holds them, when the other thread holds nothing, or
   when the two lock sets are compatible ---- *)
Record thr := { started : bool; rest : prog }.
Definition is_nil {X : Type} (l : list X) : bool := match l with [] => true | _ => false end.
Definition holding (t : thr) : bool := started t && negb (is_nil (rest t)).
Definition may_run (cmp : bool) (me other : thr) : bool := started me || negb (holding other) || cmp.
Record lcfg := { lc : cfg; ta : thr; tb : thr }.
Definition lstep (w : bool) (cmp : bool) (s : lcfg) (who : bool) : option lcfg :=
  if who then
    match rest (tb s) with
    | y :: r => if may_run cmp (tb s) (ta s)
                then Some {| lc := step w (lc s) (true, y); ta := ta s; tb := {| started := true; rest := r |} |} else None
    | [] => None
    end
  else
    match rest (ta s) with
    | x :: r => if may_run cmp (ta s) (tb s)
                then Some {| lc := step w (lc s) (false, x); ta := {| started := true; rest := r |}; tb := tb s |} else None
    | [] => None
    end.
Fixpoint lrun (w : bool) (cmp : bool) (sched : list bool) (s : lcfg) : option lcfg :=
  match sched with
  | [] => Some s
  | who :: r => match lstep w cmp s who with Some s' => lrun w cmp r s' | None => None end
  end.
Definition fresh (p : prog) : thr := {| started := false; rest := p |}.
Definition finished (s : lcfg) : bool := is_nil (rest (ta s)) && is_nil (rest (tb s)).
Definition run_ops (w : bool) (A B : op) (sched : list bool) (s0 : store) : option lcfg :=
  lrun w (compatible (outer A) (outer B)) sched {| lc := start s0; ta := fresh (body A); tb := fresh (body B) |}.

(* ---- the seeded change as a model operation: the store in one section, its log record in the next ---- *)
Definition late_a : prog := [[Sto (0%nat, 0%nat) 7]; [Log (0%nat, 0%nat) 7]].
Definition late_b : prog := [[Grow 1]].
Definition late_sched : list (bool * section) := [(false, [Sto (0%nat, 0%nat) 7]); (true, [Grow 1]); (false, [Log (0%nat, 0%nat) 7])].
Definition zero_store : store := {| mp := fun _ => 0; dur := fun _ => 0; fsz := 0 |}.

(* ---- lock-event traces of the implementation (harness/h_preempt.c, line EV) -> model programs ----
   A remap by another thread (growth: allocator lock W + file lock W; checkpoint: store lock W) is excluded while the
   thread holds the file lock, the allocator lock or the store lock in write mode: such an interval is one critical
   section of the model.  A log record written inside it publishes a store of the same interval (Sto; Log).  A log record
   written with none of these locks held (`unguarded`) publishes a store made in the last interval in which the file
   lock was held: the model program then has the Sto at the end of that interval and the Log alone, later. *)
Inductive cls := CStore | CDb | CFsm | CExf | CWal | CWk | CSpin | COther.
Inductive ev := EA (c : cls) (wr : bool) | ER (c : cls).

Record guard := { g_exf : nat; g_fsm : nat; g_sw : nat }.
Definition guarded (g : guard) : bool := negb (Nat.eqb (g_exf g) 0) || negb (Nat.eqb (g_fsm g) 0) || negb (Nat.eqb (g_sw g) 0).
Definition g_acq (g : guard) (c : cls) (wr : bool) : guard :=
  match c with
  | CExf => {| g_exf := S (g_exf g); g_fsm := g_fsm g; g_sw := g_sw g |}
  | CFsm => {| g_exf := g_exf g; g_fsm := S (g_fsm g); g_sw := g_sw g |}
  | CStore => if wr then {| g_exf := g_exf g; g_fsm := g_fsm g; g_sw := S (g_sw g) |} else g
  | _ => g
  end.
(* the store lock: a release with the write count up releases the write hold (a thread never holds it in both modes) *)
Definition g_rel (g : guard) (c : cls) : guard :=
  match c with
  | CExf => {| g_exf := pred (g_exf g); g_fsm := g_fsm g; g_sw := g_sw g |}
  | CFsm => {| g_exf := g_exf g; g_fsm := pred (g_fsm g); g_sw := g_sw g |}
  | CStore => {| g_exf := g_exf g; g_fsm := g_fsm g; g_sw := pred (g_sw g) |}
  | _ => g
  end.
Definition g0 : guard := {| g_exf := 0; g_fsm := 0; g_sw := 0 |}.

(* pass 1: every event with "guarded before it" and, for a log acquisition, the number of the record *)
Fixpoint annotate (g : guard) (n : nat) (tr : list ev) : list (ev * bool * nat) :=
  match tr with
  | [] => []
  | EA c wr :: r => (EA c wr, guarded g, n) :: annotate (g_acq g c wr) (match c with CWal => S n | _ => n end) r
  | ER c :: r => (ER c, guarded g, n) :: annotate (g_rel g c) n r
  end.
Definition unguarded_logs (tr : list ev) : nat :=
  length (filter (fun e => match e with (EA CWal _, false, _) => true | _ => false end) (annotate g0 0 tr)).

(* the outer-lock hypothesis of the theorems (`well_locked`: stores and log records of a database only under its lock
   held for writing, or under the exclusive store lock) read off a trace: log records written with neither held *)
Record ohold := { o_dbw : nat; o_sw : nat }.
Fixpoint logs_outside_outer (h : ohold) (tr : list ev) : nat :=
  match tr with
  | [] => 0%nat
  | EA CDb true :: r => logs_outside_outer {| o_dbw := S (o_dbw h); o_sw := o_sw h |} r
  | EA CStore true :: r => logs_outside_outer {| o_dbw := o_dbw h; o_sw := S (o_sw h) |} r
  | ER CDb :: r => logs_outside_outer {| o_dbw := pred (o_dbw h); o_sw := o_sw h |} r
  | ER CStore :: r => logs_outside_outer {| o_dbw := o_dbw h; o_sw := pred (o_sw h) |} r
  | EA CWal _ :: r => ((if Nat.eqb (o_dbw h) 0 && Nat.eqb (o_sw h) 0 then 1 else 0) + logs_outside_outer h r)%nat
  | _ :: r => logs_outside_outer h r
  end.
Definition outer_violations (tr : list ev) : nat := logs_outside_outer {| o_dbw := 0; o_sw := 0 |} tr.

(* pass 2, from the end: the program of the thread at lock-release granularity.  Segment i (from 0) holds what the
   thread does between its i-th and (i+1)-th release; `cur` is the segment being built (in reverse order of time the
   list is consumed, so actions are consed in front), `pend` the records waiting for the place of their store. *)
Definition rec_loc (n : nat) : loc := (0%nat, n).
Definition stores_of (pend : list nat) : section := map (fun n => Sto (rec_loc n) 1) pend.
Fixpoint segments (tr : list (ev * bool * nat)) (cur : section) (pend : list nat) : prog :=
  match tr with
  | [] => [stores_of pend ++ cur]
  | (EA CWal _, true, n) :: r => segments r (Sto (rec_loc n) 1 :: Log (rec_loc n) 1 :: cur) pend
  | (EA CWal _, false, n) :: r => segments r (Log (rec_loc n) 1 :: cur) (n :: pend)
  | (EA _ _, _, _) :: r => segments r cur pend
  | (ER CExf, _, _) :: r => segments r (stores_of pend) [] ++ [cur]
  | (ER _, _, _) :: r => segments r [] pend ++ [cur]
  end.
Definition compile (tr : list ev) : prog := segments (rev (annotate g0 0 tr)) [] [].

(* prediction for the explorer: thread B (one allocation that makes the file grow) runs after the k-th release of A;
   is some byte of the mapping afterwards different from what the file and the log hold? *)
Fixpoint nlogs (tr : list ev) : nat :=
  match tr with [] => 0%nat | EA CWal _ :: r => S (nlogs r) | _ :: r => nlogs r end.
Definition preempt_sched (p : prog) (k : nat) : list (bool * section) :=
  tag false (firstn k p) ++ [(true, [Grow 1])] ++ tag false (skipn k p).
Definition stale_after (w : bool) (tr : list ev) (k : nat) : bool :=
  let c := exec w (start zero_store) (preempt_sched (compile tr) k) in
  existsb (fun n => negb (Z.eqb (mp (cs c) (rec_loc n)) (dur (cs c) (rec_loc n)))) (List.seq 0 (nlogs tr)).
