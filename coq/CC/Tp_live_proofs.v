(* C20 - iwtp.c: liveness under the fairness hypothesis of CC/Fair.v: every linked task is eventually run to the end or dropped by
   iwtp_shutdown(false); after shutdown every thread of the pool terminates; iwtp_shutdown returns. *)
Require Import List Bool Arith Lia.
Require Import IW.CC.Lts IW.CC.Lts_proofs IW.CC.Fair IW.CC.Fair_proofs IW.CC.Tp IW.CC.Tp_proofs IW.CC.Tp_reg_proofs IW.CC.Tp_live.
Import ListNotations.

(* ---- ownership; waiters; finitely many thread ids in use ---- *)
Definition Iown (s : st) : Prop :=
  (forall t, owner s = Some t -> locked (pc (th s t)) = true) /\ (forall t, locked (pc (th s t)) = true -> owner s = Some t).
Definition Iwcp (s : st) : Prop := forall v, In v (waitc s) -> pc (th s v) = TWait.
Definition Ishw (s : st) : Prop := shut s = true -> waitc s = [].
Definition Ifin (s : st) : Prop := exists B, forall t, B <= t -> pc (th s t) = Idle.
Definition Ifn (s : st) : Prop :=
  forall t, pc (th s t) = Start \/ pc (th s t) = Locked -> fn (th s t) = 0 \/ fn (th s t) = 3 \/ fn (th s t) = 4 \/ fn (th s t) = 5.

Lemma Iown_step : forall c s t e s', Iown s -> step c s t e = Some s' -> Iown s'.
Proof.
  intros c s t e s' (I1 & I2) H. unfold Iown.
  tcases H; simpl in *; (split; [intros u Hu; try discriminate Hu; try (inversion Hu; subst u; clear Hu)|intros u Hu]);
    unfold upd in *; simpl in *;
    repeat match goal with
           | H : context [?a =? ?b] |- _ => destruct (Nat.eqb_spec a b); [subst|]
           | |- context [?a =? ?b] => destruct (Nat.eqb_spec a b); [subst|]
           end; simpl in *; rw_facts; auto; try congruence; try discriminate;
    try (assert (X := I2 _ Hu); congruence);
    try (assert (X := I1 _ eq_refl); rw_facts; discriminate X);
    try (assert (X := I1 _ Hu); rw_facts; auto; congruence).
Qed.

Lemma Iwcp_step : forall c s t e s', Iwcp s -> step c s t e = Some s' -> Iwcp s'.
Proof.
  intros c s t e s' I H. unfold Iwcp in *.
  tcases H; simpl in *; intros v Hv; try contradiction;
    try (apply remove1_In in Hv; destruct Hv as [Hv Hne]);
    try (destruct Hv as [<-|Hv]; [unfold upd; rewrite Nat.eqb_refl; reflexivity|]);
    assert (X := I v Hv); unfold upd;
    repeat match goal with |- context [?a =? ?b] => destruct (Nat.eqb_spec a b); [subst|] end; simpl; try congruence; auto.
Qed.

Lemma Ishw_step : forall c s t e s', Ishw s -> step c s t e = Some s' -> Ishw s'.
Proof.
  intros c s t e s' I H. unfold Ishw in *.
  tcases H; simpl in *; intros Hs; auto; try congruence;
    try (rewrite (I Hs) in *; reflexivity); try (rewrite (I Hs); reflexivity);
    try (rewrite (I eq_refl) in *; simpl in *; try reflexivity; try contradiction).
Qed.

Lemma Ifin_step : forall c s t e s', Ifin s -> step c s t e = Some s' -> Ifin s'.
Proof.
  intros c s t e s' [B I] H. unfold Ifin.
  assert (G : forall ch, (forall u, u <> t -> u <> ch -> pc (th s' u) = pc (th s u)) -> exists B', forall u, B' <= u -> pc (th s' u) = Idle).
  { intros ch Hfr. exists (S (Nat.max B (Nat.max t ch))). intros u Hu. rewrite Hfr by lia. apply I. lia. }
  tcases H; try (apply (G t); intros u Hu1 Hu2; simpl; unfold upd; destruct (Nat.eqb_spec u t); [contradiction|reflexivity]);
    try (exists B; exact I).
  all: match goal with H : ?ch <> ?tt, H' : pc (th _ ?ch) = Idle |- _ =>
         apply (G ch); intros u Hu1 Hu2; simpl; unfold upd; destruct (Nat.eqb_spec u t); [contradiction|];
         destruct (Nat.eqb_spec u ch); [contradiction|reflexivity]
       end.
Qed.

Lemma Ifn_step : forall c s t e s', Ifn s -> step c s t e = Some s' -> Ifn s'.
Proof.
  intros c s t e s' I H. unfold Ifn in *.
  tcases H; intros u Hu; assert (Iu := I u); thr_cases u; rw_facts; try (destruct Hu as [Hu|Hu]; discriminate Hu); auto; norm_hyps; subst; auto.
Qed.

Record LInv (c : cfg) (s : st) : Prop := mkLInv {
  l_n : nthreads c > 0; l_inv2 : Inv2 c s; l_rinv : RInv c s; l_own : Iown s; l_wcp : Iwcp s; l_shw : Ishw s; l_fin : Ifin s;
  l_fn : Ifn s }.

Lemma LInv_R : forall c s, nthreads c > 0 -> R c s -> LInv c s.
Proof.
  intros c s Hn H. assert (A := Inv2_R c s Hn H). assert (B := RInv_R c s H).
  assert (X : Iown s /\ Iwcp s /\ Ishw s /\ Ifin s /\ Ifn s).
  { eapply (invariant_reachable st (step c) (fun s => Iown s /\ Iwcp s /\ Ishw s /\ Ifin s /\ Ifn s)); [| |exact H].
    - split; [split; [intros t Ht; discriminate Ht|intros t Ht; rewrite init_pc in Ht; destruct (t <? nthreads c); discriminate Ht]|].
      split; [intros v []|]. split; [intros Hs; discriminate Hs|]. split.
      + exists (nthreads c). intros t Ht. rewrite init_pc. destruct (Nat.ltb_spec t (nthreads c)); [lia|reflexivity].
      + intros t Ht. rewrite init_pc in Ht. destruct (t <? nthreads c); destruct Ht as [Ht|Ht]; discriminate Ht.
    - intros s0 t e s1 (I1 & I2 & I3 & I4 & I5) Hs.
      split; [eapply Iown_step; eauto|]. split; [eapply Iwcp_step; eauto|]. split; [eapply Ishw_step; eauto|].
      split; [eapply Ifin_step; eauto|eapply Ifn_step; eauto]. }
  destruct X as (I1 & I2 & I3 & I4 & I5). constructor; assumption.
Qed.

(* ---- a ready thread is obliged ---- *)
Lemma sig_next_enabled : forall s, match sig_next s with
  | ESignal 0 (Some v) => memb v (waitc s) = true
  | ESignal 0 None => is_nil (waitc s) = true
  | _ => False end.
Proof.
  intros s. unfold sig_next. destruct (waitc s) as [|v l]; simpl; [reflexivity|]. rewrite Nat.eqb_refl. reflexivity.
Qed.

Lemma ready_obliged : forall c s t, LInv c s -> ready s t -> obliged st (step c) must s t.
Proof.
  intros c s t L [Ha Hm]. destruct (l_own _ _ L) as (O1 & O2). destruct (l_fin _ _ L) as [B HB].
  set (fresh := S (Nat.max B (Nat.max (nthreads c) t))).
  assert (Fi : pc (th s fresh) = Idle) by (apply HB; unfold fresh; lia).
  assert (Fn : (nthreads c <=? fresh) = true) by (apply Nat.leb_le; unfold fresh; lia).
  assert (Ft : (fresh =? t) = false) by (apply Nat.eqb_neq; unfold fresh; lia).
  exists (next c s fresh t). unfold active, next, step in *.
  destruct (pc (th s t)) eqn:Ep; try contradiction; simpl in Hm;
    try (rewrite (Hm eq_refl)); try (rewrite (O2 t) by (rewrite Ep; reflexivity)); simpl; rewrite ?Nat.eqb_refl; simpl;
    try (split; [reflexivity|discriminate]).
  - (* Locked *)
    destruct (l_fn _ _ L t (or_intror Ep)) as [F|[F|[F|F]]]; rewrite F; simpl.
    + destruct (chk c && shut s); [split; [reflexivity|discriminate]|].
      destruct (full c s); [split; [reflexivity|discriminate]|]. rewrite Nat.eqb_refl. split; [reflexivity|discriminate].
    + destruct (shut s); split; try reflexivity; discriminate.
    + split; [reflexivity|discriminate].
    + split; [reflexivity|discriminate].
  - (* PEnq *)
    destruct (spawn_cond c s).
    + rewrite Fn, Ft, Fi. simpl. destruct (reg c); split; try reflexivity; discriminate.
    + unfold sig_next. destruct (waitc s) as [|v l]; simpl; rewrite ?Nat.eqb_refl; simpl; split; try reflexivity; discriminate.
  - (* PSp *)
    unfold sig_next. destruct (waitc s) as [|v l]; simpl; rewrite ?Nat.eqb_refl; simpl; split; try reflexivity; discriminate.
  - (* QJoin *)
    destruct (jl (th s t)) as [|k rest]; [split; [reflexivity|discriminate]|]. rewrite Nat.eqb_refl, Ha. split; [reflexivity|discriminate].
  - (* Ret *) rewrite eqb_reflx. simpl. split; [reflexivity|discriminate].
  - (* TReg *) unfold unlock_to. destruct (find_first t (regs s)); split; try reflexivity; discriminate.
  - (* TL1 *) destruct (queue s); simpl; rewrite ?Nat.eqb_refl; split; try reflexivity; discriminate.
  - (* TL2 *)
    destruct (nthreads c <=? ix (th s t)); [destruct (shut s); split; try reflexivity; discriminate|].
    destruct (is_nil (queue s)); simpl; [|split; [reflexivity|discriminate]].
    destruct (shut s); simpl; split; try reflexivity; discriminate.
  - (* TWait *) split; [|discriminate]. unfold must. apply negb_true_iff. apply memb_false. exact Ha.
Qed.

(* ---- the mutex ---- *)
Lemma owner_ready : forall c s a, LInv c s -> owner s = Some a -> ready s a.
Proof.
  intros c s a L Ho. destruct (l_own _ _ L) as (O1 & O2). specialize (O1 a Ho). unfold ready, active.
  destruct (pc (th s a)); try discriminate O1; split; auto; intros X; discriminate X.
Qed.

Lemma owner_step : forall c s a e s', LInv c s -> owner s = Some a -> step c s a e = Some s' ->
  owner s' = None \/ (owner s' = Some a /\ crank s' a < crank s a).
Proof.
  intros c s a e s' L Ho H. destruct (l_own _ _ L) as (O1 & O2). specialize (O1 a Ho). unfold crank.
  tcases H; simpl in *; rw_facts; try discriminate O1; try congruence; auto;
    right; (split; [reflexivity|]); unfold upd; simpl; rewrite ?Nat.eqb_refl; simpl; rw_facts; simpl; try lia.
Qed.

Lemma frame_th : forall c s u e s' t, step c s u e = Some s' -> u <> t -> pc (th s t) <> Idle -> th s' t = th s t.
Proof.
  intros c s u e s' t H Hu Hp. tcases H; simpl; unfold upd;
    repeat match goal with |- context [t =? ?a] => destruct (Nat.eqb_spec t a); [subst|] end; try congruence; reflexivity.
Qed.

Lemma other_step : forall c s a u e s', LInv c s -> owner s = Some a -> u <> a -> step c s u e = Some s' ->
  owner s' = Some a /\ crank s' a = crank s a.
Proof.
  intros c s a u e s' L Ho Hu H. destruct (l_own _ _ L) as (O1 & O2). specialize (O1 a Ho).
  assert (F : th s' a = th s a) by (apply (frame_th c s u e s' a H Hu); intros E; rewrite E in O1; discriminate O1).
  unfold crank. rewrite F. split; [|reflexivity].
  tcases H; simpl in *; rw_facts; try congruence; try discriminate.
Qed.

Lemma active_ready : forall s t, active s t -> owner s = None -> ready s t.
Proof. intros s t Ha Ho. split; [exact Ha|intros _; exact Ho]. Qed.

Lemma dead_no_step : forall c s k e s', pc (th s k) = TDead -> step c s k e = Some s' -> False.
Proof. intros c s k e s' Hp H. unfold step in H. rewrite Hp in H. discriminate H. Qed.

Lemma active_stable : forall c s u e s' t, step c s u e = Some s' -> u <> t -> active s t -> active s' t.
Proof.
  intros c s u e s' t H Hu Ha.
  assert (Ni : pc (th s t) <> Idle) by (intros E; unfold active in Ha; rewrite E in Ha; exact Ha).
  unfold active in *. rewrite (frame_th c s u e s' t H Hu Ni).
  destruct (pc (th s t)) eqn:Ep; auto.
  - (* QJoin *) destruct (jl (th s t)) as [|k rest]; auto.
    destruct (Nat.eq_dec u k) as [->|Nk]; [exfalso; eapply dead_no_step; eauto|].
    rewrite (frame_th c s u e s' k H Nk); [exact Ha|congruence].
  - (* TWait *) intros Hin. apply Ha. clear Ha. tcases H; simpl in *; try congruence; try contradiction; auto;
      try (apply remove1_In in Hin; destruct Hin; assumption);
      try (destruct Hin as [Hin|Hin]; [congruence|assumption]).
Qed.

(* ---- a queued task moves towards the head; the pool threads move towards their next dequeue ---- *)
Lemma ahead_app : forall k q l, In k q -> ahead k (q ++ l) = ahead k q.
Proof.
  intros k q l. induction q as [|y q IH]; simpl; intros H; [contradiction|].
  destruct (Nat.eqb_spec y k); [reflexivity|]. destruct H as [H|H]; [congruence|]. rewrite IH; auto.
Qed.

Lemma ahead_pop : forall k y q, NoDup (y :: q) -> In k (y :: q) -> ~ In k q \/ (In k q /\ S (ahead k q) = ahead k (y :: q)).
Proof.
  intros k y q ND H. inversion ND as [|? ? Hy _]; subst. simpl. destruct (Nat.eqb_spec y k) as [->|N].
  - left. exact Hy.
  - destruct H as [H|H]; [congruence|]. right. split; [exact H|reflexivity].
Qed.

Lemma queue_NoDup : forall c s, Inv c s -> NoDup (queue s).
Proof.
  intros c s V. apply cnt_le1_NoDup. intros z. destruct (i_part c s V z) as [P Q]. unfold parts in P. rewrite !cnt_app in P. lia.
Qed.

Lemma r1_le12 : forall s w, r1 s w <= 12.
Proof. intros s w. unfold r1. destruct (memb w (waitc s)); [lia|]. destruct (pc (th s w)); simpl; lia. Qed.

Lemma list_sum_le : forall (f g : nat -> nat) l, (forall w, In w l -> f w <= g w) -> list_sum (map f l) <= list_sum (map g l).
Proof.
  intros f g l. induction l as [|a l IH]; simpl; intros H; [lia|].
  assert (A := H a (or_introl eq_refl)). assert (B : list_sum (map f l) <= list_sum (map g l)) by (apply IH; intros w Hw; apply H; right; exact Hw). lia.
Qed.

Lemma list_sum_lt : forall (f g : nat -> nat) l u, (forall w, In w l -> f w <= g w) -> In u l -> f u < g u ->
  list_sum (map f l) < list_sum (map g l).
Proof.
  intros f g l u. induction l as [|a l IH]; simpl; intros H Hin Hlt; [contradiction|].
  assert (A := H a (or_introl eq_refl)).
  assert (B : list_sum (map f l) <= list_sum (map g l)) by (apply list_sum_le; intros w Hw; apply H; right; exact Hw).
  destruct Hin as [->|Hin]; [lia|]. assert (C : list_sum (map f l) < list_sum (map g l)) by (apply IH; auto). lia.
Qed.

Lemma rsum_bound : forall c s, rsum c s <= 12 * nthreads c.
Proof.
  intros c s. unfold rsum. assert (X := list_sum_le (r1 s) (fun _ => 12) (seq 0 (nthreads c)) (fun w _ => r1_le12 s w)).
  assert (Y : forall l : list nat, list_sum (map (fun _ => 12) l) = 12 * length l) by (induction l; simpl; lia).
  rewrite Y, seq_length in X. exact X.
Qed.

Definition is_deq (e : ev) : bool := match e with EDeq _ => true | _ => false end.

Lemma deq_step : forall c s u y s', step c s u (EDeq y) = Some s' -> queue s = y :: queue s'.
Proof. intros c s u y s' H. tcases H; simpl; congruence. Qed.

Lemma nodeq_queue : forall c s u e s' k, Inv c s -> step c s u e = Some s' -> is_deq e = false -> In k (queue s) ->
  ~ In k (queue s') \/ (In k (queue s') /\ ahead k (queue s') = ahead k (queue s)).
Proof.
  intros c s u e s' k V H Hd Hk.
  tcases H; simpl in *; try discriminate Hd; auto;
    try (right; split; [apply in_or_app; left; exact Hk|apply ahead_app; exact Hk]).
Qed.

Lemma memb_remove1 : forall w v l, memb w (remove1 v l) = memb w l && negb (w =? v).
Proof.
  intros w v l. destruct (memb w (remove1 v l)) eqn:E.
  - apply memb_true in E. apply remove1_In in E. destruct E as [A B]. apply memb_true in A. rewrite A.
    destruct (Nat.eqb_spec w v); [contradiction|reflexivity].
  - apply memb_false in E. destruct (memb w l) eqn:A; [|reflexivity]. apply memb_true in A.
    destruct (Nat.eqb_spec w v) as [->|N]; [reflexivity|]. exfalso. apply E. apply remove1_In. split; assumption.
Qed.

Lemma prank_le11 : forall p, prank p <= 11.
Proof. destruct p; simpl; lia. Qed.

(* a transition that is not a dequeue, with a non-empty queue: no pool thread moves away from its next dequeue, and a pool
   thread that moves gets closer *)
Lemma r1_step : forall c s u e s', LInv c s -> chk c = true -> step c s u e = Some s' -> queue s <> [] -> is_deq e = false ->
  (forall w, w < nthreads c -> r1 s' w <= r1 s w) /\ (u < nthreads c -> r1 s' u < r1 s u).
Proof.
  intros c s u e s' L Hc H Hq Hd.
  destruct (l_inv2 _ _ L) as (V & IC & IT & _ & _). assert (IX := i_ix _ _ V). assert (IRg := i_regs _ _ V).
  assert (ID := i_dead _ _ V Hc). assert (WP := l_wcp _ _ L).
  assert (Pu : u < nthreads c -> loop_pc (pc (th s u)) = true -> ix (th s u) < nthreads c) by (intros A B; apply (IX u B); exact A).
  split.
  - intros w Hw. assert (X := prank_le11 (pc (th s w))).
    tcases H; simpl in *; try discriminate Hd; try congruence; unfold r1; simpl; unfold upd;
      rewrite ?memb_remove1;
      repeat match goal with |- context [w =? ?a] => destruct (Nat.eqb_spec w a); [subst|] end; simpl;
      rw_facts; simpl; rewrite ?andb_false_r, ?andb_true_r;
      try (destruct (memb w (waitc s)); simpl; lia);
      try (destruct (memb u (waitc s)); simpl; lia);
      try lia;
      try (match goal with Hm : In ?t (waitc s) |- _ => apply memb_true in Hm; rewrite Hm; destruct (t =? u); simpl; lia end);
      try (exfalso; match goal with Hf : find_first _ (regs s) = None |- _ => apply find_first_none in Hf; apply Hf; apply IRg; assumption end).
  - intros Hu.
    assert (Wu : worker_pc (pc (th s u)) = true) by (apply (i_ww _ _ V), (i_rw _ _ V), IRg; exact Hu).
    tcases H; simpl in *; try discriminate Hd; try congruence; try discriminate Wu; unfold r1; simpl; unfold upd;
      rewrite ?memb_remove1, ?Nat.eqb_refl; simpl; rw_facts; simpl; rewrite ?andb_false_r, ?andb_true_r;
      try lia;
      try (exfalso; match goal with Hf : find_first _ (regs s) = None |- _ => apply find_first_none in Hf; apply Hf; apply IRg; assumption end);
      try (destruct (memb u (waitc s)); lia);
      try (exfalso; destruct (ID u Hu (or_introl E)) as [_ Q]; congruence);
      try (destruct (memb u (waitc s)) eqn:M; [apply memb_true in M; apply WP in M; congruence|lia]).
Qed.

Lemma mdeq_step : forall c s u e s' k, LInv c s -> chk c = true -> step c s u e = Some s' -> In k (queue s) ->
  ~ In k (queue s') \/ (mdeq c k s' <= mdeq c k s /\ (u < nthreads c -> mdeq c k s' < mdeq c k s)).
Proof.
  intros c s u e s' k L Hc H Hk. destruct (l_inv2 _ _ L) as (V & _). assert (ND := queue_NoDup c s V).
  assert (Hq : queue s <> []) by (intros E; rewrite E in Hk; exact Hk).
  unfold mdeq. destruct (is_deq e) eqn:Hd.
  - destruct e; try discriminate Hd. assert (Q := deq_step c s u x s' H). rewrite Q in *.
    destruct (ahead_pop k x (queue s') ND Hk) as [A|[A B]]; [left; exact A|right].
    assert (B1 := rsum_bound c s'). rewrite <- B.
    set (K := 12 * nthreads c + 1) in *. set (a := ahead k (queue s')) in *.
    replace (K * S a) with (K * a + K) by lia. unfold K. split; [lia|intros _; lia].
  - destruct (nodeq_queue c s u e s' k V H Hd Hk) as [A|[A B]]; [left; exact A|right]. rewrite B.
    destruct (r1_step c s u e s' L Hc H Hq Hd) as [R1 R2]. unfold rsum. split.
    + apply Nat.add_le_mono_l. apply list_sum_le. intros w Hw. apply R1. apply in_seq in Hw. lia.
    + intros Hu. apply Nat.add_lt_mono_l. apply (list_sum_lt _ _ _ u).
      * intros w Hw. apply R1. apply in_seq in Hw. lia.
      * apply in_seq. lia.
      * apply R2. exact Hu.
Qed.

(* a thread that holds a task finishes it *)
Lemma held1_step : forall c s w e s' k, step c s w e = Some s' -> held1 s w = [k] ->
  In k (done s') \/ (held1 s' w = [k] /\ hrank (pc (th s' w)) < hrank (pc (th s w))).
Proof.
  intros c s w e s' k H Hk. unfold held1 in *.
  tcases H; simpl in *; rw_facts; try discriminate Hk; unfold upd; rewrite ?Nat.eqb_refl; simpl;
    try (right; split; [assumption|lia]); try (inversion Hk; subst).
  - left. apply in_or_app. right. left. reflexivity.
Qed.

(* ---- after shutdown was set ---- *)
Lemma shut_stable : forall c s t e s', step c s t e = Some s' -> shut s = true -> shut s' = true.
Proof. intros c s t e s' H Hs. tcases H; simpl in *; auto; congruence. Qed.

Lemma worker_pc_stable : forall c s u e s' w, step c s u e = Some s' -> worker_pc (pc (th s w)) = true ->
  worker_pc (pc (th s' w)) = true.
Proof.
  intros c s u e s' w H Hw. destruct (Nat.eq_dec u w) as [->|Ne].
  - tcases H; simpl in *; rw_facts; try discriminate Hw; unfold upd; rewrite ?Nat.eqb_refl; simpl; auto;
      repeat match goal with |- context [?a =? ?b] => destruct (Nat.eqb_spec a b); [subst|] end; simpl; auto; congruence.
  - rewrite (frame_th c s u e s' w H Ne); [exact Hw|]. intros E. rewrite E in Hw. discriminate Hw.
Qed.

Lemma exit_step : forall c s u e s' w, LInv c s -> chk c = true -> shut s = true -> worker_pc (pc (th s w)) = true ->
  step c s u e = Some s' -> mexit s' w <= mexit s w /\ (u = w -> mexit s' w < mexit s w).
Proof.
  intros c s u e s' w L Hc Hs Hw H. destruct (l_inv2 _ _ L) as (V & _). assert (IP := i_penq _ _ V Hc).
  unfold mexit. destruct (Nat.eq_dec u w) as [->|Ne].
  - assert (X : 16 * length (queue s') + xrank (pc (th s' w)) (is_nil (queue s')) <
                16 * length (queue s) + xrank (pc (th s w)) (is_nil (queue s))).
    { tcases H; simpl in *; rw_facts; try discriminate Hw; try congruence; unfold upd; rewrite ?Nat.eqb_refl; simpl;
        rw_facts; simpl; try lia;
        try (destruct (queue s); simpl in *; try congruence; lia);
        try (match goal with |- context [is_nil ?q] => destruct q; simpl; lia end);
        try (destruct (find_first w (regs s)); destruct (queue s); simpl; lia). }
    split; [lia|intros _; exact X].
  - split; [|intros E; congruence].
    rewrite (frame_th c s u e s' w H Ne) by (intros E; rewrite E in Hw; discriminate Hw).
    tcases H; simpl in *; rw_facts; try congruence; try lia;
      try (exfalso; assert (X := IP _ E E0); congruence);
      try (match goal with |- context [is_nil ?q] => destruct q; destruct (pc (th s w)); simpl; lia end);
      try (destruct (pc (th s w)); simpl; lia).
Qed.

(* the join list of iwtp_shutdown holds threads that were started with _worker_fn *)
Definition Ijlw (s : st) : Prop :=
  forall t, match pc (th s t) with QB | QJoin => forall k, In k (jl (th s t)) -> In k (workers s) | _ => True end.

Lemma Ijlw_step : forall c s t e s', Irw s -> Ijlw s -> step c s t e = Some s' -> Ijlw s'.
Proof.
  intros c s t e s' IR I H. unfold Ijlw in *.
  tcases H; intros u; assert (Iu := I u); assert (It := I t); thr_cases u; rw_facts; auto;
    try (destruct (pc (th s u)); auto; intros k Hk; apply in_or_app; left; auto; fail);
    try (intros k Hk; apply in_or_app; left; auto; fail);
    try (intros k Hk; apply It; right; exact Hk);
    try (intros k Hk; apply It; rewrite E0; right; exact Hk).
Qed.

Lemma Ijlw_R : forall c s, R c s -> Ijlw s.
Proof.
  intros c s H. assert (X : Inv c s /\ Ijlw s).
  { eapply (invariant_reachable st (step c) (fun s => Inv c s /\ Ijlw s)); [| |exact H].
    - split; [apply Inv_init|]. intros t. rewrite init_pc. destruct (t <? nthreads c); exact I.
    - intros s0 t e s1 [V I] Hs. split; [eapply Inv_step; eauto|eapply Ijlw_step; eauto; apply (i_rw _ _ V)]. }
  apply X.
Qed.

(* the transitions of a thread inside an API call move it towards the return *)
Lemma own_step_rank : forall c s t e s', step c s t e = Some s' -> worker_pc (pc (th s t)) = false -> pc (th s t) <> Idle ->
  worker_pc (pc (th s' t)) = false /\ callrank (pc (th s' t)) <= callrank (pc (th s t)) /\
  (locked (pc (th s t)) = false -> pc (th s t) <> QJoin -> callrank (pc (th s' t)) < callrank (pc (th s t))).
Proof.
  intros c s t e s' H Hw Hi.
  tcases H; simpl in *; rw_facts; try discriminate Hw; try congruence; unfold upd; rewrite ?Nat.eqb_refl; simpl;
    repeat match goal with |- context [?a =? ?b] => destruct (Nat.eqb_spec a b); [subst|] end; simpl;
    repeat split; auto; try lia; try discriminate; try congruence.
Qed.

Section Live.
  Variable c : cfg.
  Variable x : texec.
  Hypothesis Hx : is_texec c x.
  Hypothesis Hf : tfair c x.
  Hypothesis H0 : R c (st_at st x 0).
  Hypothesis Hn : nthreads c > 0.

  Notation "'S_' i" := (st_at st x i) (at level 9, i at level 9).

  Lemma RI : forall i, R c (S_ i).
  Proof. intros i. apply (exec_reachable st (step c) (init c) x Hx H0). Qed.

  Lemma LI : forall i, LInv c (S_ i).
  Proof. intros i. apply LInv_R; [exact Hn|apply RI]. Qed.

  Lemma released : forall i a, owner (S_ i) = Some a ->
    exists j, i <= j /\ owner (S_ j) = None /\ forall k, i <= k < j -> owner (S_ k) = Some a.
  Proof.
    apply (mutex_released st (step c) must (LInv c) owner crank); try exact Hx; try exact Hf; try exact LI.
    - intros s a L Ho. apply ready_obliged; [exact L|]. eapply owner_ready; eauto.
    - intros s a e s' L Ho H. eapply owner_step; eauto.
    - intros s a u e s' L Ho Hu H. eapply other_step; eauto.
  Qed.

  Lemma will_step : forall i t, active (S_ i) t -> exists j, i <= j /\ steps_at st x j t.
  Proof.
    intros i t Ha. destruct (owner (S_ i)) as [a|] eqn:Eo.
    - destruct (released i a Eo) as (j & Hij & Rel & _).
      destruct (stepped_between_dec st x t i j) as [(k & Hk & Hs)|Hno].
      + exists k. split; [lia|exact Hs].
      + assert (Aj : active (S_ j) t).
        { apply (preserved_until st (step c) (LInv c) (fun s => active s t) t x i j Hx LI); auto.
          intros s u e s' _ Q Hs Hu. eapply active_stable; eauto. }
        destruct (Hf t j) as (j' & Hj' & Hs); [apply ready_obliged; [apply LI|apply active_ready; assumption]|].
        exists j'. split; [lia|exact Hs].
    - apply Hf. apply ready_obliged; [apply LI|apply active_ready; assumption].
  Qed.

  Lemma will_step_first : forall i t, active (S_ i) t ->
    exists j, i <= j /\ steps_at st x j t /\ forall k, i <= k < j -> ~ steps_at st x k t.
  Proof.
    intros i t Ha. destruct (will_step i t Ha) as (j & Hij & Hs).
    destruct (least_from (fun k => steps_at st x k t) (fun k => steps_at_dec st x k t) i j Hij Hs) as (j0 & A & _ & B & C).
    exists j0. auto.
  Qed.
  (* ---- current code: iwtp_schedule refuses tasks once shutdown is set ---- *)
  Hypothesis Hchk : chk c = true.

  Lemma mdeq_mono : forall k i j, i <= j ->
    (exists j', i <= j' <= j /\ ~ In k (queue (S_ j'))) \/ mdeq c k (S_ j) <= mdeq c k (S_ i).
  Proof.
    intros k. apply (measure_mono st (step c) (LInv c) (fun s => ~ In k (queue s)) (mdeq c k) x Hx LI).
    - intros s. destruct (in_dec Nat.eq_dec k (queue s)); [right; tauto|left; assumption].
    - intros s t e s' L Hng Hs.
      assert (Hk : In k (queue s)) by (destruct (in_dec Nat.eq_dec k (queue s)); [assumption|contradiction]).
      destruct (mdeq_step c s t e s' k L Hchk Hs Hk) as [A|[A _]]; [left; exact A|right; exact A].
  Qed.

  Lemma pool_thread_active : forall i w, w < nthreads c -> queue (S_ i) <> [] -> ~ In w (waitc (S_ i)) -> active (S_ i) w.
  Proof.
    intros i w Hw Hq Hnw. assert (L := LI i). destruct (l_inv2 _ _ L) as (V & _).
    assert (Wp : worker_pc (pc (th (S_ i) w)) = true) by (apply (i_ww _ _ V), (i_rw _ _ V), (i_regs _ _ V); exact Hw).
    unfold active. destruct (pc (th (S_ i) w)) eqn:Ep; try discriminate Wp; auto.
    destruct (i_dead _ _ V Hchk w Hw (or_intror Ep)) as [_ Q]. contradiction.
  Qed.

  (* a queued task eventually leaves the queue *)
  Lemma queued_leaves : forall k i, exists j, i <= j /\ ~ In k (queue (S_ j)).
  Proof.
    intros k. apply (rank_induction st x (fun s => ~ In k (queue s)) (mdeq c k)). intros i.
    destruct (in_dec Nat.eq_dec k (queue (S_ i))) as [Hk|Hnk]; [right|left; exact Hnk].
    (* 1: a position with the mutex free *)
    assert (A1 : exists i1, i <= i1 /\ ((exists j', i <= j' <= i1 /\ ~ In k (queue (S_ j'))) \/
                  (In k (queue (S_ i1)) /\ mdeq c k (S_ i1) <= mdeq c k (S_ i) /\ owner (S_ i1) = None))).
    { destruct (owner (S_ i)) as [a|] eqn:Eo.
      - destruct (released i a Eo) as (j & Hij & Rel & _). exists j. split; [exact Hij|].
        destruct (mdeq_mono k i j Hij) as [G|M]; [left; exact G|].
        destruct (in_dec Nat.eq_dec k (queue (S_ j))) as [Hkj|Hnj]; [|left; exists j; split; [lia|exact Hnj]].
        right. auto.
      - exists i. split; [lia|]. right. auto. }
    destruct A1 as (i1 & Hi1 & [(j' & Hj' & G)|(Hk1 & M1 & Ho1)]); [exists j'; split; [lia|left; exact G]|].
    (* 2: some pool thread is not parked; its next transition *)
    assert (Hq1 : queue (S_ i1) <> []) by (intros E; rewrite E in Hk1; exact Hk1).
    destruct (no_lost_wakeup c _ Hn (RI i1) Ho1 Hq1) as (w & Hw & Hnw).
    destruct (will_step_first i1 w (pool_thread_active i1 w Hw Hq1 Hnw)) as (j2 & Hj2 & [e He] & _).
    destruct (mdeq_mono k i1 j2 Hj2) as [(j' & Hj' & G)|M2]; [exists j'; split; [lia|left; exact G]|].
    destruct (in_dec Nat.eq_dec k (queue (S_ j2))) as [Hk2|Hn2]; [|exists j2; split; [lia|left; exact Hn2]].
    assert (Hs := Hx j2). rewrite He in Hs.
    exists (S j2). split; [lia|].
    destruct (mdeq_step c _ w e _ k (LI j2) Hchk Hs Hk2) as [G|[_ Lt]]; [left; exact G|right; specialize (Lt Hw); lia].
  Qed.

  (* held -> done *)
  Lemma held_or_done_stable : forall k i j, i <= j -> In k (held (S_ i)) \/ In k (done (S_ i)) ->
    In k (held (S_ j)) \/ In k (done (S_ j)) .
  Proof.
    intros k i j Hij. refine (stable_from st (step c) (LInv c) (fun s => In k (held s) \/ In k (done s)) x Hx LI _ i j Hij).
    intros s t e s' L P Hs. destruct (l_inv2 _ _ L) as (V & _). assert (Q := step_qeff c s t e s' Hs).
    destruct Q as [_ H2 H3 _ _ | y _ _ _ H2 H3 _ _ | y Hl _ Ha Hb Hw H2 H3 _ _ | y Hl _ Ha Hb Hw H2 H3 _ _ | _ H2 H3 _ _].
    - rewrite H2, H3. exact P.
    - rewrite H2, H3. exact P.
    - rewrite H3. destruct P as [P|P]; [left|right; exact P].
      unfold held in *. rewrite Hw. apply in_flat_map in P. destruct P as (u & Hu & Hku). apply in_flat_map. exists u. split; [exact Hu|].
      destruct (Nat.eq_dec u t) as [->|Ne]; [rewrite Ha in Hku; contradiction|rewrite (H2 u Ne); exact Hku].
    - rewrite H3. destruct P as [P|P]; [|right; apply in_or_app; left; exact P].
      unfold held in *. apply in_flat_map in P. destruct P as (u & Hu & Hku).
      destruct (Nat.eq_dec u t) as [->|Ne].
      + rewrite Ha in Hku. destruct Hku as [<-|[]]. right. apply in_or_app. right. left. reflexivity.
      + left. rewrite Hw. apply in_flat_map. exists u. split; [exact Hu|rewrite (H2 u Ne); exact Hku].
    - rewrite H2, H3. exact P.
  Qed.

  Lemma held_done : forall k i, In k (held (S_ i)) -> exists j, i <= j /\ In k (done (S_ j)).
  Proof.
    intros k i Hi. unfold held in Hi. apply in_flat_map in Hi. destruct Hi as (w & Hw & Hkw).
    assert (H1 : held1 (S_ i) w = [k]).
    { unfold held1 in *. destruct (pc (th (S_ i) w)); try contradiction; destruct Hkw as [<-|[]]; reflexivity. }
    clear Hkw.
    assert (X : forall i, exists j, i <= j /\ (In k (done (S_ j)) \/ held1 (S_ j) w <> [k])).
    { apply (rank_induction st x (fun s => In k (done s) \/ held1 s w <> [k]) (fun s => hrank (pc (th s w)))). intros i0.
      assert (D : held1 (S_ i0) w = [k] \/ held1 (S_ i0) w <> [k]).
      { destruct (list_eq_dec Nat.eq_dec (held1 (S_ i0) w) [k]); auto. }
      destruct D as [Hh|Hnh]; [right|left; right; exact Hnh].
      assert (Act : active (S_ i0) w /\ pc (th (S_ i0) w) <> Idle).
      { unfold held1, active in *. destruct (pc (th (S_ i0) w)); try discriminate Hh; split; auto; discriminate. }
      destruct Act as [Act Ni].
      destruct (will_step_first i0 w Act) as (j & Hj & [e He] & Hno).
      assert (Q : th (S_ j) w = th (S_ i0) w).
      { apply (preserved_until st (step c) (LInv c) (fun s => th s w = th (S_ i0) w) w x i0 j Hx LI); auto.
        intros s u e0 s' _ Q Hs Hu. rewrite (frame_th c s u e0 s' w Hs Hu); [exact Q|rewrite Q; exact Ni]. }
      assert (Hhj : held1 (S_ j) w = [k]) by (unfold held1 in *; rewrite Q; exact Hh).
      assert (Hs := Hx j). rewrite He in Hs.
      exists (S j). split; [lia|].
      destruct (held1_step c _ w e _ k Hs Hhj) as [D|[_ Lt]]; [left; left; exact D|right; rewrite Q in Lt; exact Lt]. }
    destruct (X i) as (j & Hij & [D|Nh]); [exists j; split; assumption|].
    (* the holder of a task does not change: w holds k until k is done *)
    assert (Keep : held1 (S_ j) w = [k] \/ In k (done (S_ j))).
    { refine (stable_from st (step c) (LInv c) (fun s => held1 s w = [k] \/ In k (done s)) x Hx LI _ i j Hij (or_introl H1)).
      intros s t e s' L P Hs. destruct P as [P|P].
      - destruct (Nat.eq_dec t w) as [->|Ne].
        + destruct (held1_step c s w e s' k Hs P) as [D|[B _]]; auto.
        + left. unfold held1 in *. rewrite (frame_th c s t e s' w Hs Ne); [exact P|].
          intros E. rewrite E in P. discriminate P.
      - right. assert (Q := step_qeff c s t e s' Hs).
        destruct Q as [_ _ H3 _ _ | y _ _ _ _ H3 _ _ | y _ _ _ _ _ _ H3 _ _ | y _ _ _ _ _ _ H3 _ _ | _ _ H3 _ _];
          rewrite H3; auto; apply in_or_app; left; exact P. }
    destruct Keep as [B|B]; [contradiction|exists j; split; assumption].
  Qed.

  Lemma enq_stable : forall k i j, i <= j -> In k (enq (S_ i)) -> In k (enq (S_ j)).
  Proof.
    intros k i j Hij. refine (stable_from st (step c) (LInv c) (fun s => In k (enq s)) x Hx LI _ i j Hij).
    intros s t e s' _ P Hs. assert (Q := step_qeff c s t e s' Hs).
    destruct Q as [_ _ _ _ E | y _ _ _ _ _ _ E | y _ _ _ _ _ _ _ _ E | y _ _ _ _ _ _ _ _ E | _ _ _ _ E]; rewrite E; auto;
      apply in_or_app; left; exact P.
  Qed.

  (* every task linked into the queue of the pool is eventually executed to the end, or dropped by iwtp_shutdown(false) *)
  Theorem linked_eventually_settled : forall k i, In k (enq (S_ i)) -> exists j, i <= j /\ (In k (done (S_ j)) \/ In k (disc (S_ j))).
  Proof.
    intros k i He. destruct (queued_leaves k i) as (j & Hij & Hnq).
    assert (Hej := enq_stable k i j Hij He).
    destruct (accepted_partition c _ (RI j)) as (_ & P & _). apply P in Hej.
    rewrite !in_app_iff in Hej. destruct Hej as [A|[A|A]]; [contradiction| |exists j; split; [exact Hij|tauto]].
    destruct (held_done k j A) as (j' & Hj' & D). exists j'. split; [lia|left; exact D].
  Qed.

  Theorem accepted_eventually_fair : forall k i, In k (acc (S_ i)) -> exists j, i <= j /\ (In k (done (S_ j)) \/ In k (disc (S_ j))).
  Proof.
    intros k i Ha. apply linked_eventually_settled. destruct (l_inv2 _ _ (LI i)) as (V & _). apply (i_acc _ _ V). exact Ha.
  Qed.

  (* once the shutdown flag is set every thread that runs _worker_fn terminates *)
  Theorem worker_terminates : forall w i, shut (S_ i) = true -> worker_pc (pc (th (S_ i) w)) = true ->
    exists j, i <= j /\ pc (th (S_ j) w) = TDead.
  Proof.
    intros w i Hs Hw.
    set (G := fun s : st => pc (th s w) = TDead \/ ~ (shut s = true /\ worker_pc (pc (th s w)) = true)).
    assert (X : forall i, exists j, i <= j /\ G (S_ j)).
    { apply (rank_induction st x G (fun s => mexit s w)). intros i0. unfold G.
      destruct (shut (S_ i0)) eqn:Es; [|left; right; intros [A _]; discriminate A].
      destruct (worker_pc (pc (th (S_ i0) w))) eqn:Ew; [|left; right; intros [_ A]; discriminate A].
      assert (Dw : pc (th (S_ i0) w) = TDead \/ pc (th (S_ i0) w) <> TDead) by (destruct (pc (th (S_ i0) w)); auto; right; discriminate).
      destruct Dw as [Dw|Nd]; [left; left; exact Dw|right].
      assert (Act : active (S_ i0) w).
      { unfold active. destruct (pc (th (S_ i0) w)) eqn:Ep; try discriminate Ew; auto. rewrite (l_shw _ _ (LI i0) Es). intros []. }
      destruct (will_step_first i0 w Act) as (j & Hj & [e He] & Hno).
      assert (Q : mexit (S_ j) w <= mexit (S_ i0) w /\ shut (S_ j) = true /\ worker_pc (pc (th (S_ j) w)) = true).
      { refine (stable_from st (step c) (LInv c)
                 (fun s => mexit s w <= mexit (S_ i0) w /\ shut s = true /\ worker_pc (pc (th s w)) = true) x Hx LI _ i0 j Hj _).
        - intros s u e0 s' L (Q1 & Q2 & Q3) Hstep. destruct (exit_step c s u e0 s' w L Hchk Q2 Q3 Hstep) as [A _].
          split; [lia|]. split; [eapply shut_stable; eauto|eapply worker_pc_stable; eauto].
        - split; [lia|]. split; assumption. }
      destruct Q as (Q1 & Q2 & Q3). assert (Hstep := Hx j). rewrite He in Hstep.
      destruct (exit_step c _ w e _ w (LI j) Hchk Q2 Q3 Hstep) as [_ B]. specialize (B eq_refl).
      exists (S j). split; [lia|]. right. lia. }
    destruct (X i) as (j & Hij & [D|N]); [exists j; split; assumption|].
    exfalso. apply N.
    refine (stable_from st (step c) (LInv c) (fun s => shut s = true /\ worker_pc (pc (th s w)) = true) x Hx LI _ i j Hij (conj Hs Hw)).
    intros s u e s' _ [A B] Hstep. split; [eapply shut_stable; eauto|eapply worker_pc_stable; eauto].
  Qed.

  Lemma dead_stable : forall w i j, i <= j -> pc (th (S_ i) w) = TDead -> pc (th (S_ j) w) = TDead.
  Proof.
    intros w i j Hij. refine (stable_from st (step c) (LInv c) (fun s => pc (th s w) = TDead) x Hx LI _ i j Hij).
    intros s u e s' _ P Hs. destruct (Nat.eq_dec u w) as [->|Ne]; [exfalso; eapply dead_no_step; eauto|].
    rewrite (frame_th c s u e s' w Hs Ne); [exact P|congruence].
  Qed.

  (* the join loop of iwtp_shutdown ends *)
  Lemma join_progress : forall n t i, pc (th (S_ i) t) = QJoin -> length (jl (th (S_ i) t)) = n ->
    exists j, i <= j /\ pc (th (S_ j) t) = QFreed.
  Proof.
    induction n as [|n IH]; intros t i Hp Hl.
    - (* jl = [] : free *)
      assert (Act : active (S_ i) t).
      { unfold active. rewrite Hp. destruct (jl (th (S_ i) t)); [exact I|discriminate Hl]. }
      destruct (will_step_first i t Act) as (j & Hj & [e He] & Hno).
      assert (Q : th (S_ j) t = th (S_ i) t).
      { apply (preserved_until st (step c) (LInv c) (fun s => th s t = th (S_ i) t) t x i j Hx LI); auto.
        intros s u e0 s' _ Q Hs Hu. rewrite (frame_th c s u e0 s' t Hs Hu); [exact Q|rewrite Q, Hp; discriminate]. }
      assert (Hs := Hx j). rewrite He in Hs. exists (S j). split; [lia|].
      unfold step in Hs. rewrite Q, Hp in Hs. destruct (jl (th (S_ i) t)); [|discriminate Hl].
      destruct e; try discriminate Hs. inversion Hs. simpl. rewrite upd_same. reflexivity.
    - destruct (jl (th (S_ i) t)) as [|k rest] eqn:Ej; [discriminate Hl|].
      (* the head of the list terminates *)
      assert (Sh : shut (S_ i) = true).
      { destruct (l_inv2 _ _ (LI i)) as (V & _). assert (X := i_shutq _ _ V t). rewrite Hp in X. exact X. }
      assert (Kw : worker_pc (pc (th (S_ i) k)) = true).
      { destruct (l_inv2 _ _ (LI i)) as (V & _). apply (i_ww _ _ V). assert (X := Ijlw_R c _ (RI i) t). rewrite Hp in X.
        apply X. rewrite Ej. left. reflexivity. }
      destruct (worker_terminates k i Sh Kw) as (j1 & Hj1 & Kd).
      (* t has not moved unless it has joined k already *)
      destruct (stepped_between_dec st x t i j1) as [(j0 & Hj0 & Hs0)|Hno].
      + (* first step of t after i *)
        destruct (least_from (fun q => steps_at st x q t) (fun q => steps_at_dec st x q t) i j0 (proj1 Hj0) Hs0)
          as (j & A & _ & [e He] & Cn).
        assert (Q : th (S_ j) t = th (S_ i) t).
        { apply (preserved_until st (step c) (LInv c) (fun s => th s t = th (S_ i) t) t x i j Hx LI); auto.
          intros s u e0 s' _ Q Hs Hu. rewrite (frame_th c s u e0 s' t Hs Hu); [exact Q|rewrite Q, Hp; discriminate]. }
        assert (Hs := Hx j). rewrite He in Hs. unfold step in Hs. rewrite Q, Hp, Ej in Hs.
        destruct e; try discriminate Hs. destruct (child =? k); [|discriminate Hs]. destruct (pc (th (S_ j) k)); try discriminate Hs.
        inversion Hs as [Hs']. destruct (IH t (S j)) as (j' & Hj' & F).
        * rewrite <- Hs'. simpl. rewrite upd_same. reflexivity.
        * rewrite <- Hs'. simpl. rewrite upd_same. simpl. simpl in Hl. lia.
        * exists j'. split; [lia|exact F].
      + assert (Q : th (S_ j1) t = th (S_ i) t).
        { apply (preserved_until st (step c) (LInv c) (fun s => th s t = th (S_ i) t) t x i j1 Hx LI); auto.
          intros s u e0 s' _ Q Hs Hu. rewrite (frame_th c s u e0 s' t Hs Hu); [exact Q|rewrite Q, Hp; discriminate]. }
        assert (Act : active (S_ j1) t) by (unfold active; rewrite Q, Hp, Ej; exact Kd).
        destruct (will_step_first j1 t Act) as (j & Hj & [e He] & Hno2).
        assert (Q2 : th (S_ j) t = th (S_ i) t).
        { rewrite <- Q. apply (preserved_until st (step c) (LInv c) (fun s => th s t = th (S_ j1) t) t x j1 j Hx LI); auto.
          intros s u e0 s' _ Q3 Hs Hu. rewrite (frame_th c s u e0 s' t Hs Hu); [exact Q3|rewrite Q3, Q, Hp; discriminate]. }
        assert (Hs := Hx j). rewrite He in Hs. unfold step in Hs. rewrite Q2, Hp, Ej in Hs.
        destruct e; try discriminate Hs. destruct (child =? k); [|discriminate Hs]. destruct (pc (th (S_ j) k)); try discriminate Hs.
        inversion Hs as [Hs']. destruct (IH t (S j)) as (j' & Hj' & F).
        * rewrite <- Hs'. simpl. rewrite upd_same. reflexivity.
        * rewrite <- Hs'. simpl. rewrite upd_same. simpl. simpl in Hl. lia.
        * exists j'. split; [lia|exact F].
  Qed.

  (* no call deadlocks: every call of iwtp_schedule, iwtp_shutdown, iwtp_queue_size, iwtp_threads_busy_num returns *)
  Theorem call_returns : forall t i, worker_pc (pc (th (S_ i) t)) = false -> exists j, i <= j /\ pc (th (S_ j) t) = Idle.
  Proof.
    intros t i Hw.
    set (G := fun s : st => pc (th s t) = Idle \/ worker_pc (pc (th s t)) = true).
    set (m := fun s : st => callrank (pc (th s t))).
    assert (Gdec : forall s, G s \/ ~ G s).
    { intros s. unfold G. destruct (pc (th s t)); simpl; auto; right; intros [A|A]; discriminate A. }
    assert (Mono : forall i j, i <= j -> (exists j', i <= j' <= j /\ G (S_ j')) \/ m (S_ j) <= m (S_ i)).
    { apply (measure_mono st (step c) (LInv c) G m x Hx LI Gdec).
      intros s u e s' L Hng Hs. unfold m, G in *. destruct (Nat.eq_dec u t) as [->|Nu].
      - assert (W : worker_pc (pc (th s t)) = false) by (destruct (worker_pc (pc (th s t))); [exfalso; apply Hng; right; reflexivity|reflexivity]).
        assert (Ni : pc (th s t) <> Idle) by (intros E; apply Hng; left; exact E).
        destruct (own_step_rank c s t e s' Hs W Ni) as (_ & A & _). right. exact A.
      - rewrite (frame_th c s u e s' t Hs Nu); [right; lia|]. intros E. apply Hng. left. exact E. }
    assert (X : forall i, exists j, i <= j /\ G (S_ j)).
    { apply (rank_induction st x G m). intros i0. destruct (Gdec (S_ i0)) as [Hg|Hng]; [left; exact Hg|right].
      assert (W : worker_pc (pc (th (S_ i0) t)) = false)
        by (destruct (worker_pc (pc (th (S_ i0) t))) eqn:E; [exfalso; apply Hng; right; exact E|reflexivity]).
      assert (Ni : pc (th (S_ i0) t) <> Idle) by (intros E; apply Hng; left; exact E).
      assert (Go : active (S_ i0) t -> locked (pc (th (S_ i0) t)) = false -> pc (th (S_ i0) t) <> QJoin ->
                   exists j, i0 <= j /\ (G (S_ j) \/ m (S_ j) < m (S_ i0))).
      { intros Act Hnl Hnj.
        destruct (will_step_first i0 t Act) as (j & Hj & [e He] & Hno).
        assert (Q : th (S_ j) t = th (S_ i0) t).
        { apply (preserved_until st (step c) (LInv c) (fun s => th s t = th (S_ i0) t) t x i0 j Hx LI); auto.
          intros s u e0 s' _ Q Hs Hu. rewrite (frame_th c s u e0 s' t Hs Hu); [exact Q|rewrite Q; exact Ni]. }
        assert (Hs := Hx j). rewrite He in Hs.
        destruct (own_step_rank c _ t e _ Hs) as (_ & _ & A); rewrite ?Q; auto.
        exists (S j). split; [lia|]. right. unfold m. rewrite Q in A. apply A; assumption. }
      destruct (locked (pc (th (S_ i0) t))) eqn:El.
      - destruct (l_own _ _ (LI i0)) as (_ & O2). assert (Eo := O2 t El).
        destruct (released i0 t Eo) as (j & Hij & Rel & _).
        destruct (Mono i0 j Hij) as [(j' & Hj' & Hg)|Hm]; [exists j'; split; [lia|left; exact Hg]|].
        exists j. split; [exact Hij|].
        destruct (l_own _ _ (LI j)) as (_ & O2j).
        assert (Ncl : locked (pc (th (S_ j) t)) = false).
        { destruct (locked (pc (th (S_ j) t))) eqn:E; [|reflexivity]. rewrite (O2j t E) in Rel. discriminate Rel. }
        unfold m, G in *. destruct (pc (th (S_ i0) t)); try discriminate El; try discriminate W;
          destruct (pc (th (S_ j) t)); try discriminate Ncl; simpl in *; auto; try (right; lia); lia.
      - destruct (pc (th (S_ i0) t)) eqn:Ec; try discriminate El; try discriminate W; try congruence.
        + (* Start *) apply Go; auto; [unfold active; rewrite Ec; exact I|discriminate].
        + (* QJoin *)
          destruct (join_progress _ t i0 Ec eq_refl) as (j & Hij & F). exists j. split; [exact Hij|]. right. unfold m. rewrite F, Ec. simpl. lia.
        + (* QFreed *) apply Go; auto; [unfold active; rewrite Ec; exact I|discriminate].
        + (* Ret *) apply Go; auto; [unfold active; rewrite Ec; exact I|discriminate]. }
    destruct (X i) as (j & Hij & [A|B]); [exists j; split; assumption|].
    (* a thread inside a call does not turn into a worker thread *)
    assert (Y : (exists j', i <= j' <= j /\ pc (th (S_ j') t) = Idle) \/ worker_pc (pc (th (S_ j) t)) = false).
    { clear B. induction j as [|j IH].
      - right. replace i with 0 in Hw by lia. exact Hw.
      - destruct (Nat.eq_dec i (S j)) as [<-|Ne]; [right; exact Hw|].
        destruct IH as [(j' & Hj' & E)|F]; [lia|left; exists j'; split; [lia|exact E]|].
        destruct (idle_dec (pc (th (S_ j) t))) as [E|Ni]; [left; exists j; split; [lia|exact E]|].
        right. assert (Hs := Hx j). destruct (lab st x j) as [[u e]|]; [|rewrite Hs; exact F].
        destruct (Nat.eq_dec u t) as [->|Nu]; [|rewrite (frame_th c _ u e _ t Hs Nu Ni); exact F].
        destruct (own_step_rank c _ t e _ Hs F Ni) as (A & _). exact A. }
    destruct Y as [(j' & Hj' & E)|F]; [exists j'; split; [lia|exact E]|congruence].
  Qed.
End Live.

(* ---- the hypothesis is satisfiable; it cannot be dropped ---- *)
Lemma obliged_active : forall c s t, obliged st (step c) must s t -> active s t.
Proof.
  intros c s t (e & Hm & He). unfold active. destruct (step c s t e) as [s'|] eqn:H; [clear He|congruence].
  unfold step in H. destruct (pc (th s t)) eqn:Ep; auto.
  - destruct e; try discriminate H. discriminate Hm.
  - destruct (jl (th s t)) as [|k rest]; auto. destruct e; try discriminate H. destruct (child =? k); [|discriminate H].
    destruct (pc (th s k)); try discriminate H. reflexivity.
  - destruct e; try discriminate H. simpl in Hm. apply negb_true_iff in Hm. apply memb_false in Hm. exact Hm.
  - discriminate H.
Qed.

Lemma quiescent_end_fair : forall c tr s1, nthreads c > 0 -> run st (step c) (init c) tr = Some s1 ->
  (forall t, ~ obliged st (step c) must s1 t) -> tfair c (finite_exec st (step c) (init c) tr).
Proof.
  intros c tr s1 Hn Hr Hq. set (x := finite_exec st (step c) (init c) tr).
  assert (Hx : is_texec c x) by (eapply finite_exec_is_exec; eauto).
  assert (HL : forall k, LInv c (st_at st x k)).
  { intros k. apply LInv_R; [exact Hn|]. apply (exec_reachable st (step c) (init c) x Hx). unfold x. rewrite finite_exec_start. apply reachable_init. }
  intros t i Ho.
  destruct (stepped_between_dec st x t i (i + length tr)) as [(k & Hk & Hs)|Hno]; [exists k; split; [lia|exact Hs]|].
  exfalso.
  assert (E : st_at st x (i + length tr) = s1) by (apply (state_after_end st (step c) tr (init c) s1); [exact Hr|lia]).
  assert (A : active (st_at st x (i + length tr)) t).
  { apply (preserved_until st (step c) (LInv c) (fun s => active s t) t x i (i + length tr) Hx HL); auto; [|lia|eapply obliged_active; eauto].
    intros s u e s' _ Q Hs Hu. eapply active_stable; eauto. }
  rewrite E in A. destruct (owner s1) as [a|] eqn:Eo.
  - apply (Hq a). apply ready_obliged; [rewrite <- E; apply HL|]. eapply owner_ready; [rewrite <- E; apply HL|exact Eo].
  - apply (Hq t). apply ready_obliged; [rewrite <- E; apply HL|]. apply active_ready; assumption.
Qed.

Lemma run_frame : forall c tr s s' t, run st (step c) s tr = Some s' -> (forall u e, In (u, e) tr -> u <> t /\ forall ch, e <> ESpawn ch) ->
  pc (th s t) = Idle -> pc (th s' t) = Idle.
Proof.
  intros c tr. induction tr as [|[u e] tr IH]; intros s s' t Hr Hn Hp; simpl in Hr.
  - inversion Hr; subst; exact Hp.
  - destruct (step c s u e) as [s1|] eqn:Es; [|discriminate].
    apply (IH s1 s' t Hr); [intros u0 e0 Hin; apply (Hn u0 e0); right; exact Hin|].
    destruct (Hn u e (or_introl eq_refl)) as [Hu Hsp].
    tcases Es; simpl; unfold upd; destruct (Nat.eqb_spec t u); try congruence; try exact Hp.
    all: exfalso; eapply Hsp; reflexivity.
Qed.

(* example: two pool threads, two tasks, a waiting shutdown that returns; then nothing happens any more *)
Definition live_cfg : cfg := mkcfg 2 3 1 true true.
Definition live_trace : list (tid * ev) :=
  [(0, ELock); (0, EUnlock); (1, ELock); (1, EUnlock);
   (10, ECall 0 5 false); (10, ELock); (10, EEnq 5); (10, ESignal 0 None); (10, EUnlock); (10, ERet 0 true);
   (0, ELock); (0, EDeq 5); (0, EUnlock); (0, ERun 5);
   (11, ECall 0 6 false); (11, ELock); (11, EEnq 6); (11, ESignal 0 None); (11, EUnlock); (11, ERet 0 true);
   (1, ELock); (1, EDeq 6); (1, EUnlock); (1, ERun 6); (1, EDone 6);
   (20, ECall 3 0 true); (20, ELock); (20, EBcast 0); (20, EUnlock);
   (1, ELock); (1, EUnlock); (1, EExit);
   (0, EDone 5); (0, ELock); (0, EUnlock); (0, EExit);
   (20, EJoin 0); (20, EJoin 1); (20, EFree); (20, ERet 0 false)].

Lemma fair_exec_example : exists x, is_texec live_cfg x /\ tfair live_cfg x /\ R live_cfg (st_at st x 0) /\
  nthreads live_cfg > 0 /\ chk live_cfg = true /\ In 5 (acc (st_at st x 10)) /\ In 5 (done (st_at st x 40)) /\
  pc (th (st_at st x 26) 20) = Start /\ pc (th (st_at st x 40) 20) = Idle.
Proof.
  destruct (run st (step live_cfg) (init live_cfg) live_trace) as [s1|] eqn:Er; [|vm_compute in Er; discriminate].
  exists (finite_exec st (step live_cfg) (init live_cfg) live_trace).
  split; [eapply finite_exec_is_exec; exact Er|]. split.
  - apply (quiescent_end_fair live_cfg live_trace s1 (le_n_S _ _ (le_S _ _ (le_n 0))) Er). intros t Ho. apply obliged_active in Ho. unfold active in Ho.
    assert (F : pc (th s1 0) = TDead /\ pc (th s1 1) = TDead /\ pc (th s1 10) = Idle /\ pc (th s1 11) = Idle /\ pc (th s1 20) = Idle).
    { vm_compute in Er. inversion Er; subst. simpl. repeat split. }
    destruct F as (F0 & F1 & F2 & F3 & F4).
    destruct (Nat.eq_dec t 0) as [->|N0]; [rewrite F0 in Ho; exact Ho|].
    destruct (Nat.eq_dec t 1) as [->|N1]; [rewrite F1 in Ho; exact Ho|].
    destruct (Nat.eq_dec t 10) as [->|N10]; [rewrite F2 in Ho; exact Ho|].
    destruct (Nat.eq_dec t 11) as [->|N11]; [rewrite F3 in Ho; exact Ho|].
    destruct (Nat.eq_dec t 20) as [->|N20]; [rewrite F4 in Ho; exact Ho|].
    rewrite (run_frame live_cfg live_trace (init live_cfg) s1 t Er) in Ho; [exact Ho| |].
    + intros u e Hin. simpl in Hin.
      repeat (destruct Hin as [Hin|Hin]; [inversion Hin; subst; split; [auto|intros ch; discriminate]|]). contradiction.
    + rewrite init_pc. destruct (Nat.ltb_spec t (nthreads live_cfg)) as [Lt|Ge]; [|reflexivity].
      change (nthreads live_cfg) with 2 in Lt. lia.
  - split; [rewrite finite_exec_start; apply reachable_init|]. split; [simpl; lia|]. split; [reflexivity|].
    vm_compute. repeat split; auto.
Qed.

(* without the fairness hypothesis: task 5 is accepted, then nothing happens - an execution of the model in which the accepted
   task is never run *)
Theorem accepted_eventually_refuted_without_fairness : exists x, is_texec live_cfg x /\ R live_cfg (st_at st x 0) /\
  chk live_cfg = true /\ In 5 (acc (st_at st x 10)) /\
  forall j, 10 <= j -> queue (st_at st x j) = [5] /\ ~ In 5 (done (st_at st x j)) /\ ~ In 5 (disc (st_at st x j)).
Proof.
  destruct (run st (step live_cfg) (init live_cfg) (firstn 10 live_trace)) as [s1|] eqn:Er; [|vm_compute in Er; discriminate].
  exists (finite_exec st (step live_cfg) (init live_cfg) (firstn 10 live_trace)).
  split; [eapply finite_exec_is_exec; eauto|]. split; [rewrite finite_exec_start; apply reachable_init|]. split; [reflexivity|].
  split; [vm_compute; left; reflexivity|]. intros j Hj.
  assert (E : st_at st (finite_exec st (step live_cfg) (init live_cfg) (firstn 10 live_trace)) j = s1)
    by (apply (state_after_end st (step live_cfg) (firstn 10 live_trace) (init live_cfg) s1 j Er); simpl; lia).
  rewrite E. vm_compute in Er. inversion Er; subst. simpl. repeat split; auto.
Qed.
