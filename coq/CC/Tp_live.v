(* C20 - iwtp.c: the obligation predicate of the fairness hypothesis (CC/Fair.v) and the ranking functions of the
   liveness proofs.  Definitions only. *)
Require Import List Bool Arith.
Require Import IW.CC.Lts IW.CC.Fair IW.CC.Tp.
Import ListNotations.

(* obligatory transitions: everything except starting a new API call and waking up from a condition wait that nobody has
   signalled (t still listed in waitc = parked and not signalled) *)
Definition must (s : st) (t : tid) (e : ev) : bool :=
  match e with
  | ECall _ _ _ => false
  | EWake _ => negb (memb t (waitc s))
  | _ => true
  end.

Definition texec := exec st.
Definition is_texec (c : cfg) (x : texec) : Prop := is_exec st (step c) x.
Definition tfair (c : cfg) (x : texec) : Prop := fair st (step c) must x.

(* pc's inside the critical section *)
Definition locked (p : pcT) : bool :=
  match p with Locked | PEnq | PSp | PSig | QB | TReg | TL1 | TDeq | TL2 | TWoken => true | _ => false end.

(* number of transitions (upper bound) until the owner releases the mutex *)
Definition crank (s : st) (a : tid) : nat :=
  match pc (th s a) with
  | Locked => 4 | PEnq => 3 | PSp | TL1 => 2 | PSig | QB | TReg | TDeq | TL2 | TWoken => 1 | _ => 0
  end.

(* the obligatory transition of a thread; [fresh] is a thread id that was never used *)
Definition sig_next (s : st) : ev := ESignal 0 (match waitc s with [] => None | v :: _ => Some v end).
Definition next (c : cfg) (s : st) (fresh : tid) (t : tid) : ev :=
  let x := th s t in
  match pc x with
  | Idle => ECall 4 0 false
  | Start | TStart | TTop | TU1 => ELock
  | TWait => EWake 0
  | TU1t => ERun (tk x)
  | TRun => EDone (tk x)
  | TExit | TDead => EExit
  | QJoin => match jl x with k :: _ => EJoin k | [] => EFree end
  | QFreed => ERet 0 false
  | Ret rc sc => ERet rc sc
  | Locked =>
      match fn x with
      | 0 => if chk c && shut s then EUnlock else if full c s then EUnlock else EEnq (tk x)
      | 3 => if shut s then EUnlock else EBcast 0
      | _ => EUnlock
      end
  | PEnq => if spawn_cond c s then ESpawn fresh else sig_next s
  | PSp => sig_next s
  | PSig | QB | TReg | TDeq | TWoken => EUnlock
  | TL1 => match queue s with y :: _ => EDeq y | [] => EUnlock end
  | TL2 => if nthreads c <=? ix x then EUnlock
           else if negb (is_nil (queue s)) then EUnlock else if shut s then EUnlock else EWait 0
  end.

(* thread t has an obligatory transition that is enabled as soon as the mutex is free *)
Definition active (s : st) (t : tid) : Prop :=
  match pc (th s t) with
  | Idle | TDead => False
  | TWait => ~ In t (waitc s)
  | QJoin => match jl (th s t) with k :: _ => pc (th s k) = TDead | [] => True end
  | _ => True
  end.
Definition needs_mutex (p : pcT) : bool := match p with Start | TStart | TTop | TU1 | TWait => true | _ => false end.
Definition ready (s : st) (t : tid) : Prop := active s t /\ (needs_mutex (pc (th s t)) = true -> owner s = None).

(* ---- ranking functions ---- *)
Fixpoint ahead (k : task) (q : list task) : nat :=
  match q with [] => 0 | y :: r => if y =? k then 0 else S (ahead k r) end.

(* a pool thread: transitions until its next dequeue while the queue is non-empty; 12 when parked and not signalled *)
Definition prank (p : pcT) : nat :=
  match p with
  | TL1 => 0 | TTop => 1 | TWoken => 2 | TWait => 3 | TL2 => 4 | TU1 => 5 | TRun => 6 | TU1t => 7 | TDeq => 8 | TReg => 9
  | TStart => 10 | _ => 11
  end.
Definition r1 (s : st) (w : tid) : nat := if memb w (waitc s) then 12 else prank (pc (th s w)).
Definition rsum (c : cfg) (s : st) : nat := list_sum (map (r1 s) (seq 0 (nthreads c))).
Definition mdeq (c : cfg) (k : task) (s : st) : nat := (12 * nthreads c + 1) * ahead k (queue s) + rsum c s.

(* a thread holding task k: transitions until fn returns *)
Definition hrank (p : pcT) : nat := match p with TDeq => 3 | TU1t => 2 | TRun => 1 | _ => 0 end.

(* a worker thread after shutdown was set: transitions until it has finished *)
Definition xrank (p : pcT) (empty : bool) : nat :=
  if empty then
    match p with
    | TDead => 0 | TExit => 1 | TL2 => 2 | TU1 => 3 | TL1 | TRun => 4 | TU1t | TTop => 5 | TDeq | TWoken | TReg => 6
    | TWait | TStart => 7 | _ => 0
    end
  else
    match p with
    | TDead => 0 | TExit => 1 | TL1 => 2 | TTop => 3 | TWoken | TReg => 4 | TWait | TStart => 5 | TL2 => 6 | TU1 => 7
    | TRun => 8 | TU1t => 9 | TDeq => 10 | _ => 0
    end.
Definition mexit (s : st) (w : tid) : nat := 16 * length (queue s) + xrank (pc (th s w)) (is_nil (queue s)).

(* a call of iwtp_shutdown / any API call: phases until the call has returned *)
Definition callrank (p : pcT) : nat :=
  match p with
  | Idle => 0 | Ret _ _ => 1 | QFreed => 2 | QJoin => 3 | QB | PSig => 4 | PSp => 5 | PEnq => 6 | Locked => 7 | Start => 8
  | _ => 9
  end.
