(* lemmas about the buffer discipline of Buf.v *)
Require Import ZArith List Bool Lia. Require Import IW.SAFE.Buf. Import ListNotations.
Local Open Scope Z_scope. Local Open Scope bool_scope.

Lemma inb_true : forall b i, inb b i = true <-> 0 <= i < zlen b.
Proof. intros b i. unfold inb. rewrite andb_true_iff, Z.leb_le, Z.ltb_lt. tauto. Qed.

Lemma zlen_app : forall a b, zlen (a ++ b) = zlen a + zlen b.
Proof. intros a b. unfold zlen. rewrite app_length. lia. Qed.

Lemma zlen_nonneg : forall a, 0 <= zlen a.
Proof. intros a. unfold zlen. lia. Qed.

Lemma rd_some_range : forall b i c, rd b i = Some c -> 0 <= i < zlen b.
Proof. intros b i c H. unfold rd in H. destruct (inb b i) eqn:E; [apply inb_true; auto | discriminate]. Qed.

Lemma rd_in_some : forall b i, 0 <= i < zlen b -> exists c, rd b i = Some c.
Proof.
  intros b i H. unfold rd. assert (E : inb b i = true) by (apply inb_true; auto). rewrite E.
  destruct (nth_error b (Z.to_nat i)) eqn:N; [eauto|]. apply nth_error_None in N. unfold zlen in H. lia.
Qed.

Lemma rd_app_lt : forall s t i, 0 <= i < zlen s -> rd (s ++ t) i = Some (nth (Z.to_nat i) s 0).
Proof.
  intros s t i H. unfold rd. assert (E : inb (s ++ t) i = true).
  { apply inb_true. rewrite zlen_app. pose proof (zlen_nonneg t). lia. }
  rewrite E. rewrite nth_error_app1 by (unfold zlen in H; lia).
  apply nth_error_nth'. unfold zlen in H. lia.
Qed.

Lemma rd_app_end : forall s x, rd (s ++ [x]) (zlen s) = Some x.
Proof.
  intros s x. unfold rd. assert (E : inb (s ++ [x]) (zlen s) = true).
  { apply inb_true. rewrite zlen_app. pose proof (zlen_nonneg s). replace (zlen [x]) with 1 by reflexivity. lia. }
  rewrite E. unfold zlen. rewrite Nat2Z.id. rewrite nth_error_app2 by lia. rewrite Nat.sub_diag. reflexivity.
Qed.

Lemma nz_nth : forall s i, nz s -> 0 <= i < zlen s -> nth (Z.to_nat i) s 0 <> 0.
Proof.
  intros s i H R. unfold nz in H. rewrite Forall_forall in H. apply H. apply nth_In. unfold zlen in R. lia.
Qed.

(* the central fact about a terminated buffer: every index up to the terminator can be read, and the byte read is 0
   exactly at the terminator - so "the byte at i is not 0" licenses reading i + 1 *)
Lemma rd_term : forall s i, nz s -> 0 <= i <= zlen s ->
  exists c, rd (s ++ [0]) i = Some c /\ (c = 0 <-> i = zlen s).
Proof.
  intros s i H R. destruct (Z.eq_dec i (zlen s)) as [E|E].
  - subst i. exists 0. rewrite rd_app_end. tauto.
  - exists (nth (Z.to_nat i) s 0). rewrite rd_app_lt by lia. split; auto.
    pose proof (nz_nth s i H). split; intros; [exfalso; apply H0; auto; lia | contradiction].
Qed.

Lemma rd_term_range : forall s i c, rd (s ++ [0]) i = Some c -> 0 <= i <= zlen s.
Proof. intros s i c H. apply rd_some_range in H. rewrite zlen_app in H. replace (zlen [0]) with 1 in H by reflexivity. lia. Qed.

(* ---- output cells *)
Lemma inbo_true : forall b i, inbo b i = true <-> 0 <= i < olen b.
Proof. intros b i. unfold inbo. rewrite andb_true_iff, Z.leb_le, Z.ltb_lt. tauto. Qed.

Lemma updo_length : forall l n x, length (updo l n x) = length l.
Proof. induction l as [|h t IH]; intros [|n] x; simpl; auto. Qed.

Lemma updo_same : forall l n x, (n < length l)%nat -> nth_error (updo l n x) n = Some (Some x).
Proof. induction l as [|h t IH]; intros [|n] x H; simpl in *; try lia; auto. apply IH. lia. Qed.

Lemma updo_other : forall l n m x, n <> m -> nth_error (updo l n x) m = nth_error l m.
Proof. induction l as [|h t IH]; intros [|n] [|m] x H; simpl; auto; try congruence. Qed.

Lemma wro_some : forall o i x, 0 <= i < olen o -> exists o', wro o i x = Some o'.
Proof. intros o i x H. unfold wro. assert (E : inbo o i = true) by (apply inbo_true; auto). rewrite E. eauto. Qed.

Lemma wro_spec : forall o i x o', wro o i x = Some o' ->
  0 <= i < olen o /\ olen o' = olen o /\ nth_error o' (Z.to_nat i) = Some (Some x) /\
  (forall q, 0 <= q -> q <> i -> nth_error o' (Z.to_nat q) = nth_error o (Z.to_nat q)).
Proof.
  intros o i x o' H. unfold wro in H. destruct (inbo o i) eqn:E; [|discriminate]. inversion H; subst o'; clear H.
  apply inbo_true in E. split; auto. split; [unfold olen; rewrite updo_length; auto|].
  split; [apply updo_same; unfold olen in E; lia|].
  intros q Hq Hne. apply updo_other. lia.
Qed.

Definition prefix_init (o : list (option Z)) (j : Z) : Prop :=
  forall q, 0 <= q < j -> exists x, nth_error o (Z.to_nat q) = Some (Some x).

Lemma prefix_init_wro : forall o j x o', prefix_init o j -> wro o j x = Some o' -> prefix_init o' (j + 1).
Proof.
  intros o j x o' P W. apply wro_spec in W. destruct W as (R & _ & S & O).
  intros q Hq. destruct (Z.eq_dec q j) as [->|N]; [eauto|]. rewrite O by lia. apply P. lia.
Qed.

Lemma prefix_init_weaken : forall o j j', prefix_init o j -> j' <= j -> prefix_init o j'.
Proof. intros o j j' P H q Hq. apply P. lia. Qed.

(* an observer that starts inside an initialised prefix which ends with a 0 byte sees a string *)
Lemma ocstr_ok : forall fuel o j off,
  prefix_init o j -> j <= olen o -> nth_error o (Z.to_nat (j - 1)) = Some (Some 0) ->
  0 <= off < j -> (Z.to_nat (j - off) <= fuel)%nat ->
  exists r, ocstr fuel o off = OStr r.
Proof.
  induction fuel as [|f IH]; intros o j off P L T R F; [lia|].
  simpl. assert (E : inbo o off = true) by (apply inbo_true; lia). rewrite E.
  destruct (P off R) as [x Hx]. rewrite Hx.
  destruct (x =? 0) eqn:X; [eauto|].
  destruct (Z.eq_dec off (j - 1)) as [->|N].
  - rewrite T in Hx. inversion Hx; subst x. discriminate.
  - destruct (IH o j (off + 1) P L T) as [r Hr]; [lia|lia|]. rewrite Hr. eauto.
Qed.
