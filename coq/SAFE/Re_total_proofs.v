(* C17: totality of the regex front end (Re.v): the parser never reads past the terminator of the pattern and ends
   within its fuel, whatever it accepts is compiled (no Oob, no Fuel), and a compiled program respects the instruction
   limit - for EVERY pattern. *)
Require Import ZArith List Bool Lia. Import ListNotations.
Require Import IW.SAFE.Buf IW.SAFE.Buf_proofs IW.SAFE.Re IW.SAFE.Re_proofs IW.Gen.Facts.
Local Open Scope Z_scope. Local Open Scope bool_scope.

Ltac stp := cbn [rbind fst snd].

(* a text that still has its terminator: something ++ [0] *)
Definition E (s : list Z) : Prop := exists a, s = a ++ [0].

Lemma E_pk : forall s, E s -> exists c, pk s = Ok c /\ s = c :: tl s.
Proof. intros s [[|x a] H]; subst; simpl; eauto. Qed.
Lemma E_tl : forall c r, E (c :: r) -> c <> 0 -> E r.
Proof.
  intros c r [[|x a] H] N; simpl in H; inversion H; subst; [contradiction|]. exists a. reflexivity.
Qed.
Lemma E_app0 : forall a, E (a ++ [0]). Proof. intros a. exists a. reflexivity. Qed.

(* one step: read the head; if it is not 0 the tail still has the terminator *)
Lemma E_step : forall s, E s -> Forall byte s -> exists c, pk s = Ok c /\ byte c /\ Forall byte (tl s) /\
  (length (tl s) < length s)%nat /\ (c <> 0 -> E (tl s)).
Proof.
  intros s He Hb. destruct (E_pk s He) as [c [Hp Hs]]. exists c. split; auto.
  split; [eapply pk_byte; eauto|]. split; [apply Forall_tl; auto|]. split.
  - rewrite Hs at 2. simpl. lia.
  - intros N. rewrite Hs in He. eapply E_tl; eauto.
Qed.

(* ---- parse_char_class *)
Lemma cls_scan_ok : forall f first s, E s -> Forall byte s -> (length s < f)%nat ->
  exists r, cls_scan f first s = Ok r /\
    match r with Some rest => E rest /\ Forall byte rest /\ (length rest < length s)%nat | None => True end.
Proof.
  induction f as [|f IH]; intros first s He Hb F; [lia|].
  rewrite cls_scan_eq. destruct (E_step s He Hb) as (ch & Hp & Bch & Hb1 & L1 & E1). rewrite Hp. stp. cbv zeta.
  destruct (ch =? 0) eqn:X0; [exists None; split; auto|]. apply Z.eqb_neq in X0. specialize (E1 X0).
  destruct ((ch =? 93) && negb first); [exists (Some (tl s)); split; auto|].
  destruct (E_step (tl s) E1 Hb1) as (c1 & Hp1 & Bc1 & Hb2 & L2 & E2).
  destruct (ch =? 92) eqn:X92.
  - rewrite Hp1. stp. cbn [andb]. destruct (c1 =? 0) eqn:C0; [exists None; split; auto|].
    apply Z.eqb_neq in C0. specialize (E2 C0).
    destruct (E_step (tl (tl s)) E2 Hb2) as (d & Hpd & Bd & Hb3 & L3 & E3). rewrite Hpd. stp.
    assert (REC : exists r, cls_scan f false (tl (tl s)) = Ok r /\
              match r with Some rest => E rest /\ Forall byte rest /\ (length rest < length s)%nat | None => True end).
    { destruct (IH false (tl (tl s)) E2 Hb2) as [r [Er Br]]; [lia|]. exists r. split; auto.
      destruct r as [rest|]; auto. destruct Br as (A & B & C). repeat split; auto. lia. }
    destruct (d =? 45) eqn:D; [|exact REC]. apply Z.eqb_eq in D. assert (Dn : d <> 0) by lia. specialize (E3 Dn).
    destruct (E_step _ E3 Hb3) as (e & Hpe & Be & Hb4 & L4 & E4). rewrite Hpe. stp.
    destruct (negb (e =? 93)); [|exact REC].
    destruct (e =? 0) eqn:Ez; [exists None; split; auto|]. cbn [orb]. destruct (e <? c1); [exists None; split; auto|].
    apply Z.eqb_neq in Ez. specialize (E4 Ez).
    destruct (IH false _ E4 Hb4) as [r [Er Br]]; [lia|]. exists r. split; auto.
    destruct r as [rest|]; auto. destruct Br as (A & B & C). repeat split; auto. lia.
  - stp. cbn [andb]. rewrite Hp1. stp.
    assert (REC : exists r, cls_scan f false (tl s) = Ok r /\
              match r with Some rest => E rest /\ Forall byte rest /\ (length rest < length s)%nat | None => True end).
    { destruct (IH false (tl s) E1 Hb1) as [r [Er Br]]; [lia|]. exists r. split; auto.
      destruct r as [rest|]; auto. destruct Br as (A & B & C). repeat split; auto. lia. }
    destruct (c1 =? 45) eqn:D; [|exact REC]. apply Z.eqb_eq in D. assert (Dn : c1 <> 0) by lia. specialize (E2 Dn).
    destruct (E_step _ E2 Hb2) as (e & Hpe & Be & Hb4 & L4 & E4). rewrite Hpe. stp.
    destruct (negb (e =? 93)); [|exact REC].
    destruct (e =? 0) eqn:Ez; [exists None; split; auto|]. cbn [orb]. destruct (e <? ch); [exists None; split; auto|].
    apply Z.eqb_neq in Ez. specialize (E4 Ez).
    destruct (IH false _ E4 Hb4) as [r [Er Br]]; [lia|]. exists r. split; auto.
    destruct r as [rest|]; auto. destruct Br as (A & B & C). repeat split; auto. lia.
Qed.

(* ---- parse_interval *)
Lemma digits_S : forall f acc s, digits (S f) acc s =
  rbind (pk s) (fun c =>
    if (48 <=? c) && (c <=? 57) then
      if (0 <=? re_max_interval) && (acc >? re_max_interval) then Ok None else digits f (acc * 10 + (c - 48)) (tl s)
    else Ok (Some (acc, s))).
Proof. reflexivity. Qed.

Lemma digits_ok : forall f acc s, E s -> Forall byte s -> 0 <= acc -> (length s < f)%nat ->
  exists r, digits f acc s = Ok r /\
    match r with Some (v, rest) => E rest /\ Forall byte rest /\ (length rest <= length s)%nat /\ acc <= v | None => True end.
Proof.
  induction f as [|f IH]; intros acc s He Hb A F; [lia|].
  rewrite digits_S. destruct (E_step s He Hb) as (c & Hp & Bc & Hb1 & L1 & E1). rewrite Hp. stp.
  destruct ((48 <=? c) && (c <=? 57)) eqn:D; [|exists (Some (acc, s)); split; auto; repeat split; auto; lia].
  apply andb_true_iff in D. destruct D as [D1 D2]. apply Z.leb_le in D1. apply Z.leb_le in D2.
  destruct ((0 <=? re_max_interval) && (acc >? re_max_interval)); [exists None; split; auto|].
  destruct (IH (acc * 10 + (c - 48)) (tl s)) as [r [Er Br]]; auto; try lia. { apply E1. lia. }
  exists r. split; auto. destruct r as [[v rest]|]; auto. destruct Br as (P & Q & R & S). repeat split; auto; lia.
Qed.

Definition iv_post (s : list Z) (r : option (Z * Z * bool * list Z)) : Prop :=
  match r with
  | Some (mn, mx, g, rest) => E rest /\ Forall byte rest /\ (length rest < length s)%nat /\ 0 <= mn
  | None => True
  end.

Lemma parse_interval_ok : forall s, E s -> Forall byte s -> exists r, parse_interval s = Ok r /\ iv_post s r.
Proof.
  intros s He Hb. unfold parse_interval.
  destruct (E_step s He Hb) as (f0 & Hp & Bf & Hb1 & L1 & E1). rewrite Hp. stp.
  destruct (digits_ok (S (length s)) 0 s He Hb) as [r1 [Er1 Br1]]; [lia|lia|]. rewrite Er1. stp.
  destruct r1 as [[nmin s1]|]; [|exists None; split; [reflexivity|exact I]].
  destruct Br1 as (Es1 & Bs1 & Ls1 & Nmin).
  destruct (E_step s1 Es1 Bs1) as (c & Hpc & Bc & Hbt & Lt & Et). rewrite Hpc. stp.
  (* whatever r2 is: Some (nmax, s4) has a closing brace at the head of s4 *)
  match goal with |- exists r, rbind ?X _ = Ok r /\ _ =>
    assert (R2 : exists r2, X = Ok r2 /\
     match r2 with Some (nmax, s4) => E s4 /\ Forall byte s4 /\ (length s4 <= length s)%nat /\ pk s4 = Ok 125 | None => True end) end.
  { destruct (c =? 44) eqn:C.
    - apply Z.eqb_eq in C. assert (Cn : c <> 0) by lia. specialize (Et Cn). cbv zeta.
      destruct (E_step (tl s1) Et Hbt) as (c2 & Hp2 & Bc2 & Hb2 & L2 & E2). rewrite Hp2. stp.
      destruct (negb (f0 =? 44) && (c2 =? 125)) eqn:G.
      + apply andb_true_iff in G. destruct G as [_ G]. apply Z.eqb_eq in G. subst c2.
        eexists; split; [reflexivity|]. repeat split; auto; try lia.
      + destruct (digits_ok (S (length (tl s1))) 0 (tl s1) Et Hbt) as [r [Er Br]]; [lia|lia|]. rewrite Er. stp.
        destruct r as [[nmax s3]|]; [|exists None; split; [reflexivity|exact I]].
        destruct Br as (Es3 & Bs3 & Ls3 & _).
        destruct (E_step s3 Es3 Bs3) as (c3 & Hp3 & _). rewrite Hp3. stp.
        destruct (Nat.eqb (length s3) (length (tl s1)) || negb (c3 =? 125) || (nmax <? nmin)) eqn:G2; [exists None; split; [reflexivity|exact I]|].
        apply orb_false_iff in G2. destruct G2 as [G2 _]. apply orb_false_iff in G2. destruct G2 as [_ G2].
        apply negb_false_iff in G2. apply Z.eqb_eq in G2. subst c3.
        eexists; split; [reflexivity|]. repeat split; auto; try lia.
    - destruct (negb (f0 =? 125) && (c =? 125)) eqn:G; [|exists None; split; [reflexivity|exact I]].
      apply andb_true_iff in G. destruct G as [_ G]. apply Z.eqb_eq in G. subst c.
      eexists; split; [reflexivity|]. repeat split; auto; try lia. }
  destruct R2 as [r2 [Er2 Br2]]. rewrite Er2. stp.
  destruct r2 as [[nmax s4]|]; [|exists None; split; [reflexivity|exact I]].
  destruct Br2 as (Es4 & Bs4 & Ls4 & P4).
  destruct (E_step s4 Es4 Bs4) as (c4 & Hp4 & _ & Hb5 & L5 & E5). rewrite P4 in Hp4. inversion Hp4; subst c4.
  assert (E5' : E (tl s4)) by (apply E5; lia).
  destruct (E_step (tl s4) E5' Hb5) as (c5 & Hp5 & _ & Hb6 & L6 & E6). rewrite Hp5. stp.
  destruct (c5 =? 63) eqn:Q.
  - apply Z.eqb_eq in Q. eexists; split; [reflexivity|]. simpl. repeat split; auto; try lia. apply E6; lia.
  - eexists; split; [reflexivity|]. simpl. repeat split; auto; try lia.
Qed.

(* ---- nodes the compiler can handle: every class text was accepted by parse_char_class; counts are not negative *)
Fixpoint WF (n : node) : Prop :=
  match n with
  | NCls _ from => Forall byte from /\ exists rest, cls_scan (S (length from)) true from = Ok (Some rest)
  | NCat l r | NAlt l r => WF l /\ WF r
  | NQuant mn mx _ q => 0 <= mn /\ WF q
  | NCap c => WF c
  | _ => True
  end.

Lemma WF_concat_rev : forall st acc, WF acc -> Forall WF st -> WF (concat_rev acc st).
Proof.
  induction st as [|n r IH]; intros acc A F; simpl; auto. inversion F; subst. apply IH; auto. simpl. auto.
Qed.
Lemma WF_concat_stack : forall st, Forall WF st -> WF (concat_stack st).
Proof. intros [|t r] F; simpl; auto. inversion F; subst. apply WF_concat_rev; auto. Qed.
Lemma WF_alt : forall l r, WF l -> WF r -> WF (alt_node l r).
Proof.
  intros l r A B. unfold alt_node. destruct (is_eps l && is_eps r); simpl; auto.
  destruct (is_eps l); simpl; [split; [lia|auto]|]. destruct (is_eps r); simpl; [split; [lia|auto]|auto].
Qed.

(* ---- parse_context *)
Lemma parse_ctx_S : forall f depth stack s, parse_ctx (S f) depth stack s =
    rbind (pk s) (fun ch =>
    let s1 := tl s in
    let quant (mn mx : Z) :=
      match stack with
      | [] => parse_ctx f depth [NChr ch] s1
      | top :: st =>
        rbind (pk s1) (fun g =>
        if g =? 63 then parse_ctx f depth (NQuant mn mx false top :: st) (tl s1)
        else parse_ctx f depth (NQuant mn mx true top :: st) s1)
      end in
    if ch =? 92 then
      rbind (pk s1) (fun c2 =>
      if c2 =? 0 then Ok None else parse_ctx f depth (NChr c2 :: stack) (tl s1))
    else if ch =? 46 then parse_ctx f depth (NAny :: stack) s1
    else if ch =? 91 then
      rbind (pk s1) (fun h =>
      let neg := h =? 94 in
      let from := if neg then tl s1 else s1 in
      rbind (cls_scan (S (length from)) true from) (fun r =>
      match r with None => Ok None | Some rest => parse_ctx f depth (NCls neg from :: stack) rest end))
    else if ch =? 124 then
      let lhs := concat_stack stack in
      rbind (parse_ctx f depth [] s1) (fun r =>
      match r with None => Ok None | Some (rhs, rest) => Ok (Some (alt_node lhs rhs, rest)) end)
    else if ch =? 63 then quant 0 1
    else if ch =? 42 then quant 0 (-1)
    else if ch =? 43 then quant 1 (-1)
    else if ch =? 123 then
      match stack with
      | [] => parse_ctx f depth [NChr ch] s1
      | top :: st =>
        rbind (parse_interval s1) (fun r =>
        match r with
        | None => parse_ctx f depth (NChr ch :: stack) s1
        | Some (mn, mx, g, rest) => parse_ctx f depth (NQuant mn mx g top :: st) rest
        end)
      end
    else if ch =? 94 then parse_ctx f depth (NBeg :: stack) s1
    else if ch =? 36 then parse_ctx f depth (NEnd :: stack) s1
    else if ch =? 40 then
      rbind (parse_ctx f (depth + 1) [] s1) (fun r =>
      match r with None => Ok None | Some (inner, rest) => parse_ctx f depth (NCap inner :: stack) rest end)
    else if ch =? 41 then (if depth >? 0 then Ok (Some (concat_stack stack, s1)) else Ok None)
    else if ch =? 0 then (if depth =? 0 then Ok (Some (concat_stack stack, s1)) else Ok None)
    else parse_ctx f depth (NChr ch :: stack) s1).
Proof. reflexivity. Qed.

Definition ctx_post (depth : Z) (s : list Z) (r : option (node * list Z)) : Prop :=
  match r with
  | Some (n, rest) => WF n /\ (depth > 0 -> E rest /\ Forall byte rest /\ (length rest < length s)%nat)
  | None => True
  end.

Lemma parse_ctx_ok : forall f depth stack s, E s -> Forall byte s -> 0 <= depth -> Forall WF stack -> (length s < f)%nat ->
  exists r, parse_ctx f depth stack s = Ok r /\ ctx_post depth s r.
Proof.
  induction f as [|f IH]; intros depth stack s He Hb Dp Ws F; [lia|].
  rewrite parse_ctx_S. destruct (E_step s He Hb) as (ch & Hp & Bch & Hb1 & L1 & E1). rewrite Hp. stp. cbv zeta.
  (* continuing on a shorter text that still has its terminator *)
  assert (GO : forall st' t, E t -> Forall byte t -> Forall WF st' -> (length t < length s)%nat ->
            exists r, parse_ctx f depth st' t = Ok r /\ ctx_post depth s r).
  { intros st' t Et Bt Wt Lt. destruct (IH depth st' t Et Bt Dp Wt) as [r [Er Br]]; [lia|]. exists r. split; auto.
    destruct r as [[n rest]|]; auto. destruct Br as [Wn Br]. split; auto. intros G. destruct (Br G) as (A & B & C). repeat split; auto. lia. }
  assert (NONE : exists r, @Ok (option (node * list Z)) None = Ok r /\ ctx_post depth s r) by (exists None; split; [reflexivity|exact I]).
  assert (QUANT : forall mn mx, 0 <= mn -> ch <> 0 -> exists r,
     match stack with
      | [] => parse_ctx f depth [NChr ch] (tl s)
      | top :: st =>
        rbind (pk (tl s)) (fun g =>
        if g =? 63 then parse_ctx f depth (NQuant mn mx false top :: st) (tl (tl s))
        else parse_ctx f depth (NQuant mn mx true top :: st) (tl s))
      end = Ok r /\ ctx_post depth s r).
  { intros mn mx Mn C0. specialize (E1 C0). destruct stack as [|top st].
    - apply GO; auto. repeat constructor.
    - inversion Ws; subst. destruct (E_step (tl s) E1 Hb1) as (g & Hg & _ & Hb2 & L2 & E2). rewrite Hg. stp.
      destruct (g =? 63) eqn:G.
      + apply Z.eqb_eq in G. apply GO; auto; [apply E2; lia| |lia]. constructor; auto. simpl. auto.
      + apply GO; auto. constructor; auto. simpl. auto. }
  destruct (ch =? 92) eqn:X1.
  { apply Z.eqb_eq in X1. assert (C0 : ch <> 0) by lia. specialize (E1 C0).
    destruct (E_step (tl s) E1 Hb1) as (c2 & Hc2 & _ & Hb2 & L2 & E2). rewrite Hc2. stp.
    destruct (c2 =? 0) eqn:Z2; [exact NONE|]. apply Z.eqb_neq in Z2. apply GO; auto; [|lia]. constructor; auto. exact I. }
  destruct (ch =? 46) eqn:X2.
  { apply Z.eqb_eq in X2. apply GO; auto; [apply E1; lia|]. constructor; auto. exact I. }
  destruct (ch =? 91) eqn:X3.
  { apply Z.eqb_eq in X3. assert (C0 : ch <> 0) by lia. specialize (E1 C0).
    destruct (E_step (tl s) E1 Hb1) as (h & Hh & _ & Hb2 & L2 & E2). rewrite Hh. stp.
    set (from := if h =? 94 then tl (tl s) else tl s).
    assert (Ef : E from) by (unfold from; destruct (h =? 94) eqn:H4; [apply E2; apply Z.eqb_eq in H4; lia|exact E1]).
    assert (Bf : Forall byte from) by (unfold from; destruct (h =? 94); auto).
    assert (Lf : (length from < length s)%nat) by (unfold from; destruct (h =? 94); lia).
    destruct (cls_scan_ok (S (length from)) true from Ef Bf) as [r [Er Br]]; [lia|]. rewrite Er. stp.
    destruct r as [rest|]; [|exact NONE]. destruct Br as (A & B & C).
    apply GO; auto; [|lia]. constructor; auto. simpl. split; auto. exists rest. exact Er. }
  destruct (ch =? 124) eqn:X4.
  { apply Z.eqb_eq in X4. assert (C0 : ch <> 0) by lia. specialize (E1 C0).
    destruct (GO [] (tl s) E1 Hb1) as [r [Er Br]]; auto. rewrite Er. stp.
    destruct r as [[rhs rest]|]; [|exact NONE]. destruct Br as [Wr Br].
    eexists; split; [reflexivity|]. split; auto. apply WF_alt; auto. apply WF_concat_stack; auto. }
  destruct (ch =? 63) eqn:X5; [apply QUANT; [lia|apply Z.eqb_eq in X5; lia]|].
  destruct (ch =? 42) eqn:X6; [apply QUANT; [lia|apply Z.eqb_eq in X6; lia]|].
  destruct (ch =? 43) eqn:X7; [apply QUANT; [lia|apply Z.eqb_eq in X7; lia]|].
  destruct (ch =? 123) eqn:X8.
  { apply Z.eqb_eq in X8. assert (C0 : ch <> 0) by lia. specialize (E1 C0). destruct stack as [|top st].
    - apply GO; auto. repeat constructor.
    - inversion Ws; subst. destruct (parse_interval_ok (tl s) E1 Hb1) as [r [Er Br]]. rewrite Er. stp.
      destruct r as [[[[mn mx] g] rest]|].
      + destruct Br as (A & B & C & D). apply GO; auto; [|lia]. constructor; auto. simpl. auto.
      + apply GO; auto. }
  destruct (ch =? 94) eqn:X9.
  { apply Z.eqb_eq in X9. apply GO; auto; [apply E1; lia|]. constructor; auto. exact I. }
  destruct (ch =? 36) eqn:X10.
  { apply Z.eqb_eq in X10. apply GO; auto; [apply E1; lia|]. constructor; auto. exact I. }
  destruct (ch =? 40) eqn:X11.
  { apply Z.eqb_eq in X11. assert (C0 : ch <> 0) by lia. specialize (E1 C0).
    destruct (IH (depth + 1) [] (tl s) E1 Hb1) as [r [Er Br]]; [lia|constructor|lia|]. rewrite Er. stp.
    destruct r as [[inner rest]|]; [|exact NONE]. destruct Br as [Wi Br]. destruct Br as (A & B & C); [lia|].
    apply GO; auto; try lia. }
  destruct (ch =? 41) eqn:X12.
  { apply Z.eqb_eq in X12. assert (C0 : ch <> 0) by lia. specialize (E1 C0).
    destruct (depth >? 0); [|exact NONE]. eexists; split; [reflexivity|]. split; [apply WF_concat_stack; auto|]. intros _. auto. }
  destruct (ch =? 0) eqn:X13.
  { destruct (depth =? 0) eqn:D0; [|exact NONE]. apply Z.eqb_eq in D0.
    eexists; split; [reflexivity|]. split; [apply WF_concat_stack; auto|]. intros G. lia. }
  apply Z.eqb_neq in X13. apply GO; auto. constructor; auto. exact I.
Qed.

Lemma length_app0 : forall pat : list Z, length (pat ++ [0]) = S (length pat).
Proof. intros. rewrite app_length. simpl. lia. Qed.

Lemma Forall_byte_app0 : forall pat, Forall byte pat -> Forall byte (pat ++ [0]).
Proof. intros pat H. apply Forall_app. split; auto. repeat constructor; unfold byte; lia. Qed.

Theorem re_parse_total : forall pat, Forall byte pat ->
  exists r, re_parse pat = Ok r /\ match r with Some root => WF root | None => True end.
Proof.
  intros pat Hb. unfold re_parse. destruct ((0 <=? re_max_pattern) && (zlen pat >? re_max_pattern)); [exists None; split; auto|].
  destruct (parse_ctx_ok (S (S (length pat))) 0 [] (pat ++ [0])) as [r [Er Br]];
    [apply E_app0|apply Forall_byte_app0; auto|lia|constructor|rewrite length_app0; lia|].
  rewrite Er. stp. destruct r as [[root rest]|]; [|exists None; split; auto]. destruct Br as [W _]. exists (Some root). split; auto.
Qed.

(* ---- compile_context: structural; the only loops are the class expansion (cls_set_total_top) *)
Lemma rep_min_total : forall cq, (forall p, exists r, cq p = Ok r) -> forall k p last nc, exists r, rep_min cq k p last nc = Ok r.
Proof.
  intros cq H. induction k as [|k IH]; intros p last nc; simpl; [eauto|].
  destruct (H p) as [a Ea]. rewrite Ea. stp. destruct (IH (p + ilen (fst a)) p (snd a)) as [b0 Eb]. rewrite Eb. stp. eauto.
Qed.
Lemma rep_opt_total : forall cq lazy, (forall p, exists r, cq p = Ok r) -> forall k p nc, exists r, rep_opt cq lazy k p nc = Ok r.
Proof.
  intros cq lazy H. induction k as [|k IH]; intros p nc; simpl; [eauto|].
  destruct (H (p + 1)) as [a Ea]. rewrite Ea. stp. destruct (IH (p + 1 + ilen (fst a)) (snd a)) as [b0 Eb]. rewrite Eb. stp. eauto.
Qed.

Lemma comp_total : forall n, WF n -> forall pc ncap, exists r, comp n pc ncap = Ok r.
Proof.
  induction n as [| | |neg from|l IHl r IHr|l IHl r IHr|mn mx g q IHq| | |c IHc]; intros W pc ncap; cbn [comp]; try (match goal with |- exists r, Ok _ = Ok r => eexists; reflexivity end).
  - destruct W as [Hb [rest Hs]]. destruct (cls_set_total_top from rest Hb Hs) as [set Es]. rewrite Es. stp. eauto.
  - destruct W as [Wl Wr]. destruct (IHl Wl pc ncap) as [a Ea]. rewrite Ea. stp.
    destruct (IHr Wr (pc + ilen (fst a)) (snd a)) as [b0 Eb]. rewrite Eb. stp. eauto.
  - destruct W as [Wl Wr]. destruct (IHl Wl (pc + 1) ncap) as [a Ea]. rewrite Ea. stp.
    destruct (IHr Wr (pc + 1 + ilen (fst a) + 1) (snd a)) as [b0 Eb]. rewrite Eb. stp. eauto.
  - destruct W as [_ Wq].
    assert (CQ : forall p, exists r, comp q p ncap = Ok r) by (intros p; apply IHq; auto).
    destruct (rep_min_total _ CQ (Z.to_nat mn) pc (-1) ncap) as [m Em]. rewrite Em. stp.
    destruct (mx >? mn).
    + destruct (rep_opt_total _ (negb g) CQ (Z.to_nat (mx - mn)) (pc + ilen (fst (fst m))) (snd m)) as [o Eo]. rewrite Eo. stp. eauto.
    + destruct (mx =? -1); [|eauto]. destruct (mn =? 0); [|eauto].
      destruct (CQ (pc + ilen (fst (fst m)) + 1)) as [a Ea]. rewrite Ea. stp. eauto.
  - destruct (IHc W (pc + 1) (ncap + 1)) as [a Ea]. rewrite Ea. stp. eauto.
Qed.

Theorem re_create_total : forall pat, Forall byte pat -> exists r, re_create pat = Ok r.
Proof.
  intros pat Hb. unfold re_create. destruct pat as [|c r]; [eauto|].
  destruct (re_parse_total (c :: r) Hb) as [p [Ep Wp]]. rewrite Ep. stp.
  destruct p as [root|]; [|eauto]. unfold re_compile.
  destruct ((0 <=? re_max_instructions) && (count root + (if anchored root then 0 else 3) + 2 + 1 >? re_max_instructions)); [eauto|].
  set (r2 := if anchored (NCap root) then NCap root else NCat (NQuant 0 (-1) false NAny) (NCap root)).
  assert (W2 : WF r2) by (unfold r2; destruct (anchored (NCap root)); simpl; auto; repeat split; auto; lia).
  destruct (comp_total r2 W2 0 0) as [a Ea]. rewrite Ea. stp. eauto.
Qed.

(* ---- the size of the program: clen = the number of instructions compile_context emits (independent of pc / ncaptures);
   `count` (the estimate the allocation is made from) is an upper bound as long as it does not saturate *)
Fixpoint clen (n : node) : Z :=
  match n with
  | NEps => 0
  | NChr _ | NAny | NCls _ _ | NBeg | NEnd => 1
  | NCat l r => clen l + clen r
  | NAlt l r => 2 + clen l + clen r
  | NQuant mn mx _ q =>
    Z.of_nat (Z.to_nat mn) * clen q +
    (if mx >? mn then Z.of_nat (Z.to_nat (mx - mn)) * (clen q + 1)
     else if mx =? -1 then (if mn =? 0 then clen q + 2 else 1) else 0)
  | NCap c => 2 + clen c
  end.

Lemma ilen_app : forall a b, ilen (a ++ b) = ilen a + ilen b.
Proof. intros. unfold ilen. rewrite app_length. lia. Qed.
Lemma ilen_cons : forall (i : instr) l, ilen (i :: l) = 1 + ilen l.
Proof. intros. unfold ilen. simpl length. lia. Qed.
Lemma ilen_nil : ilen [] = 0. Proof. reflexivity. Qed.

Lemma rep_min_len : forall cq k0, (forall p a, cq p = Ok a -> ilen (fst a) = k0) ->
  forall k p last nc r, rep_min cq k p last nc = Ok r -> ilen (fst (fst r)) = Z.of_nat k * k0.
Proof.
  intros cq k0 H. induction k as [|k IH]; intros p last nc r R; simpl in R.
  - inversion R; subst. simpl. reflexivity.
  - destruct (cq p) as [a| |] eqn:Ea; try discriminate. stp. cbn [rbind] in R.
    destruct (rep_min cq k (p + ilen (fst a)) p (snd a)) as [b0| |] eqn:Eb; try discriminate. cbn [rbind] in R.
    inversion R; subst. cbn [fst]. rewrite ilen_app, (H _ _ Ea), (IH _ _ _ _ Eb). lia.
Qed.
Lemma rep_opt_len : forall cq lazy k0, (forall p a, cq p = Ok a -> ilen (fst a) = k0) ->
  forall k p nc r, rep_opt cq lazy k p nc = Ok r -> ilen (fst r) = Z.of_nat k * (k0 + 1).
Proof.
  intros cq lazy k0 H. induction k as [|k IH]; intros p nc r R; simpl in R.
  - inversion R; subst. simpl. reflexivity.
  - destruct (cq (p + 1)) as [a| |] eqn:Ea; try discriminate. cbn [rbind] in R.
    destruct (rep_opt cq lazy k (p + 1 + ilen (fst a)) (snd a)) as [b0| |] eqn:Eb; try discriminate. cbn [rbind] in R.
    inversion R; subst. cbn [fst]. rewrite ilen_cons, ilen_app, (H _ _ Ea), (IH _ _ _ Eb). lia.
Qed.

Lemma comp_len : forall n pc ncap a, comp n pc ncap = Ok a -> ilen (fst a) = clen n.
Proof.
  induction n as [| | |neg from|l IHl r IHr|l IHl r IHr|mn mx g q IHq| | |c IHc]; intros pc ncap a R; cbn [comp] in R;
    try (match type of R with Ok _ = Ok _ => inversion R; subst; reflexivity end).
  - destruct (cls_set _ _ _) as [set| |]; try discriminate. cbn [rbind] in R. inversion R; subst. reflexivity.
  - destruct (comp l pc ncap) as [x| |] eqn:Ex; try discriminate. cbn [rbind] in R.
    destruct (comp r _ _) as [y| |] eqn:Ey; try discriminate. cbn [rbind] in R. inversion R; subst. cbn [fst clen].
    rewrite ilen_app, (IHl _ _ _ Ex), (IHr _ _ _ Ey). reflexivity.
  - destruct (comp l (pc + 1) ncap) as [x| |] eqn:Ex; try discriminate. cbn [rbind] in R.
    destruct (comp r _ _) as [y| |] eqn:Ey; try discriminate. cbn [rbind] in R. inversion R; subst. cbn [fst clen].
    rewrite ilen_cons, ilen_app, ilen_cons, (IHl _ _ _ Ex), (IHr _ _ _ Ey). lia.
  - assert (CQ : forall p x, comp q p ncap = Ok x -> ilen (fst x) = clen q) by (intros p x Hx; eapply IHq; eauto).
    destruct (rep_min _ _ _ _ _) as [m| |] eqn:Em; try discriminate. cbn [rbind] in R.
    pose proof (rep_min_len _ _ CQ _ _ _ _ _ Em) as Lm. cbn [clen].
    destruct (mx >? mn).
    + destruct (rep_opt _ _ _ _ _) as [o| |] eqn:Eo; try discriminate. cbn [rbind] in R. inversion R; subst. cbn [fst].
      rewrite ilen_app, Lm, (rep_opt_len _ _ _ CQ _ _ _ _ Eo). reflexivity.
    + destruct (mx =? -1).
      * destruct (mn =? 0).
        -- destruct (comp q _ ncap) as [x| |] eqn:Ex; try discriminate. cbn [rbind] in R. inversion R; subst. cbn [fst].
           rewrite ilen_app, ilen_cons, ilen_app, Lm, (CQ _ _ Ex). rewrite ilen_cons, ilen_nil. lia.
        -- inversion R; subst. cbn [fst]. rewrite ilen_app, Lm, ilen_cons, ilen_nil. lia.
      * inversion R; subst. cbn [fst]. rewrite Lm. lia.
  - destruct (comp c (pc + 1) (ncap + 1)) as [x| |] eqn:Ex; try discriminate. cbn [rbind] in R. inversion R; subst. cbn [fst clen].
    rewrite ilen_cons, ilen_app, (IHc _ _ _ Ex), ilen_cons, ilen_nil. lia.
Qed.

Lemma clen_nonneg : forall n, 0 <= clen n.
Proof.
  induction n as [| | |neg from|l IHl r IHr|l IHl r IHr|mn mx g q IHq| | |c IHc]; cbn [clen]; try lia.
  destruct (mx >? mn); [nia|]. destruct (mx =? -1); [destruct (mn =? 0); nia|nia].
Qed.

Section Limit.
Hypothesis HM : 0 <= re_max_instructions.
Local Notation M := re_max_instructions.

Lemma sat_le : forall x, sat x <= M -> sat x = x.
Proof.
  intros x H. unfold sat in *. destruct ((0 <=? M) && (x >? M)) eqn:G; [lia|reflexivity].
Qed.
Lemma sat_big : forall x, M < x -> M < sat x.
Proof.
  intros x H. unfold sat. assert (G : (0 <=? M) && (x >? M) = true).
  { apply andb_true_iff. split; [apply Z.leb_le; exact HM|apply Z.gtb_lt; lia]. }
  rewrite G. lia.
Qed.
Lemma sat_nonneg : forall x, 0 <= x -> 0 <= sat x.
Proof. intros x H. unfold sat. destruct ((0 <=? M) && (x >? M)); lia. Qed.

Lemma count_nonneg : forall n, WF n -> 0 <= count n.
Proof.
  induction n as [| | |neg from|l IHl r IHr|l IHl r IHr|mn mx g q IHq| | |c IHc]; intros W; cbn [count]; try lia.
  - destruct W. apply sat_nonneg. specialize (IHl H). specialize (IHr H0). lia.
  - destruct W. apply sat_nonneg. specialize (IHl H). specialize (IHr H0). lia.
  - destruct W as [Mn Wq]. specialize (IHq Wq). destruct (mx >=? mn) eqn:G.
    + apply Z.geb_le in G. apply sat_nonneg. nia.
    + apply sat_nonneg. destruct (mn =? 0); nia.
  - apply sat_nonneg. specialize (IHc W). lia.
Qed.

(* the estimate is an upper bound of the real size whenever it has not saturated *)
Lemma clen_le_count : forall n, WF n -> count n <= M -> clen n <= count n.
Proof.
  induction n as [| | |neg from|l IHl r IHr|l IHl r IHr|mn mx g q IHq| | |c IHc]; intros W C; cbn [count clen] in *; try lia.
  - destruct W as [Wl Wr]. pose proof (sat_le _ C) as SC; rewrite SC in C |- *. pose proof (count_nonneg l Wl). pose proof (count_nonneg r Wr).
    assert (Cl : count l <= M) by lia. assert (Cr : count r <= M) by lia. specialize (IHl Wl Cl). specialize (IHr Wr Cr). lia.
  - destruct W as [Wl Wr]. pose proof (sat_le _ C) as SC; rewrite SC in C |- *. pose proof (count_nonneg l Wl). pose proof (count_nonneg r Wr).
    assert (Cl : count l <= M) by lia. assert (Cr : count r <= M) by lia. specialize (IHl Wl Cl). specialize (IHr Wr Cr). lia.
  - destruct W as [Mn Wq]. pose proof (count_nonneg q Wq) as Nq. pose proof (clen_nonneg q) as Nc.
    rewrite Z2Nat.id by lia.
    destruct (mx >=? mn) eqn:G.
    + apply Z.geb_le in G. pose proof (sat_le _ C) as SC; rewrite SC in C |- *. rewrite Z2Nat.id by lia.
      destruct (Z_le_gt_dec (count q) M) as [Q|Q].
      * specialize (IHq Wq Q). destruct (mx >? mn) eqn:G2; [nia|].
        assert (mx = mn) by lia. subst mx. destruct (mn =? -1) eqn:G3; [apply Z.eqb_eq in G3; lia|]. nia.
      * (* the inner estimate saturated: the product can only stay below the limit when both factors are 0 *)
        assert (mn = 0 /\ mx = 0) as [-> ->] by nia. simpl. lia.
    + rewrite Z.geb_leb in G. apply Z.leb_gt in G. assert (G2 : (mx >? mn) = false) by (rewrite Z.gtb_ltb; apply Z.ltb_ge; lia). rewrite G2.
      pose proof (sat_le _ C) as SC; rewrite SC in C |- *.
      destruct (Z_le_gt_dec (count q) M) as [Q|Q].
      * specialize (IHq Wq Q). destruct (mx =? -1); destruct (mn =? 0) eqn:G3; try (apply Z.eqb_eq in G3; subst mn); nia.
      * exfalso. destruct (mn =? 0) eqn:G3; [lia|]. apply Z.eqb_neq in G3. nia.
  - pose proof (sat_le _ C) as SC; rewrite SC in C |- *. pose proof (count_nonneg c W). assert (Cc : count c <= M) by lia. specialize (IHc W Cc). lia.
Qed.
End Limit.

(* bounded program size: whatever iwre_create accepts has at most REGEX_MAX_INSTRUCTIONS instructions *)
Theorem re_program_bounded : forall pat code, Forall byte pat -> 0 <= re_max_instructions ->
  re_create pat = Ok (Some code) -> 1 <= ilen code <= re_max_instructions.
Proof.
  intros pat code Hb HM R. unfold re_create in R. destruct pat as [|c r]; [discriminate|].
  destruct (re_parse_total (c :: r) Hb) as [p [Ep Wp]]. rewrite Ep in R. cbn [rbind] in R.
  destruct p as [root|]; [|discriminate]. unfold re_compile in R.
  destruct ((0 <=? re_max_instructions) && (count root + (if anchored root then 0 else 3) + 2 + 1 >? re_max_instructions)) eqn:G; [discriminate|].
  assert (G' : count root + (if anchored root then 0 else 3) + 2 + 1 <= re_max_instructions).
  { apply andb_false_iff in G. destruct G as [G|G]; [apply Z.leb_gt in G; lia|rewrite Z.gtb_ltb in G; apply Z.ltb_ge in G; lia]. }
  destruct (comp _ 0 0) as [a| |] eqn:Ea; try discriminate. cbn [rbind] in R. inversion R; subst code.
  rewrite ilen_app, ilen_cons, ilen_nil. rewrite (comp_len _ _ _ _ Ea).
  assert (CR : clen root <= count root).
  { apply clen_le_count; auto. destruct (anchored root); lia. }
  pose proof (clen_nonneg root). change (anchored (NCap root)) with (anchored root).
  destruct (anchored root); cbn [clen]; [lia|].
  change (Z.of_nat (Z.to_nat 0)) with 0. change (-1 >? 0) with false. change (-1 =? -1) with true. change (0 =? 0) with true.
  cbv iota. lia.
Qed.
