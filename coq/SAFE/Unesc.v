(* src/json/iwjser.c: _jbl_unescape_json_string at index level.  `p` is the caller's buffer (content ++ [0]), `i` the index
   right after the opening quote, `q` the quote byte.  The measuring pass runs with dlen = 0 (no cell is written), the fill
   pass with the `len` cells the measuring pass asked for; a store happens only when d < dlen (`if (d < de) *d = ...`). *)
Require Import ZArith List Bool. Require Import IW.SAFE.Buf IW.Gen.Facts. Import ListNotations.
Local Open Scope Z_scope. Local Open Scope bool_scope.

Inductive ures := UErrCp | UErrUnq | UOk (count endidx : Z) (out : list (option Z)).

Definition jhex (c : Z) : Z :=
  if (48 <=? c) && (c <=? 57) then c - 48
  else if (97 <=? c) && (c <=? 102) then c - 87
  else if (65 <=? c) && (c <=? 70) then c - 55
  else -1.

Definition put (out : list (option Z)) (dlen d x : Z) : res (list (option Z)) :=
  if d <? dlen then match wro out d x with None => Oob d | Some o => Ok o end else Ok out.

Fixpoint put_list (out : list (option Z)) (dlen d : Z) (l : list Z) : res (list (option Z)) :=
  match l with
  | [] => Ok out
  | x :: r => match put out dlen d x with Ok o => put_list o dlen (d + 1) r | e => e end
  end.

(* ((h1 = hex(p[1])) < 0) || ((h2 = hex(p[2])) < 0) || ... with i = index of the 'u': short-circuit evaluation *)
Definition hex4 (p : list Z) (i : Z) : res (option Z) :=
  match rd p (i + 1) with None => Oob (i + 1) | Some c1 => if jhex c1 <? 0 then Ok None else
  match rd p (i + 2) with None => Oob (i + 2) | Some c2 => if jhex c2 <? 0 then Ok None else
  match rd p (i + 3) with None => Oob (i + 3) | Some c3 => if jhex c3 <? 0 then Ok None else
  match rd p (i + 4) with None => Oob (i + 4) | Some c4 => if jhex c4 <? 0 then Ok None else
  Ok (Some (jhex c1 * 4096 + jhex c2 * 256 + jhex c3 * 16 + jhex c4)) end end end end.

Definition cp_valid (cp : Z) : bool := negb ((55296 <=? cp) && (cp <=? 57343)) && (0 <=? cp) && (cp <? 1114112).
Definition utf8_enc (cp : Z) : list Z :=
  if cp <? 128 then [cp]
  else if cp <? 2048 then [192 + Z.shiftr cp 6; 128 + Z.land cp 63]
  else if cp <? 65536 then [224 + Z.shiftr cp 12; 128 + Z.land (Z.shiftr cp 6) 63; 128 + Z.land cp 63]
  else [240 + Z.shiftr cp 18; 128 + Z.land (Z.shiftr cp 12) 63; 128 + Z.land (Z.shiftr cp 6) 63; 128 + Z.land cp 63].

(* the second half of a surrogate pair: after `p += 6`, p[-1] must be '\\', *p 'u', then 4 digits; i = index of the first 'u' *)
Definition unesc_lo (p : list Z) (i cp : Z) : res (option (Z * Z)) :=
  match rd p (i + 5) with None => Oob (i + 5) | Some b5 => if negb (b5 =? 92) then Ok None else
  match rd p (i + 6) with None => Oob (i + 6) | Some b6 => if negb (b6 =? 117) then Ok None else
  match hex4 p (i + 6) with
  | Fuel => Fuel | Oob x => Oob x
  | Ok None => Ok None
  | Ok (Some cp2) =>
    if negb (Z.land cp2 64512 =? 56320) then Ok None
    else Ok (Some (65536 + Z.shiftl (cp - 55296) 10 + (cp2 - 56320), i + 6))
  end end end.

(* the \u branch: i = index of the 'u'.  Ok None = invalid code point; Ok (Some (cp, i')) = code point and the index of the
   'u' whose 4 digits were consumed last (p += 5 follows) *)
Definition unesc_u (p : list Z) (i : Z) : res (option (Z * Z)) :=
  match hex4 p i with
  | Fuel => Fuel | Oob x => Oob x
  | Ok None => Ok None
  | Ok (Some cp) => if Z.land cp 64512 =? 55296 then unesc_lo p i cp else Ok (Some (cp, i))
  end.

(* the one-byte escapes (backslash, slash, double quote, b f n r t); what the escape r stores is read off the
   current tree: Facts.unesc_cr_byte *)
Definition esc_simple (e : Z) : option Z :=
  if (e =? 92) || (e =? 47) || (e =? 34) then Some e
  else if e =? 98 then Some 8
  else if e =? 102 then Some 12
  else if e =? 110 then Some 10
  else if e =? 114 then Some unesc_cr_byte
  else if e =? 116 then Some 9
  else None.

Fixpoint unesc_loop (fuel : nat) (q : Z) (p : list Z) (out : list (option Z)) (dlen i d : Z) : res ures :=
  match fuel with O => Fuel | S f =>
    match rd p i with
    | None => Oob i
    | Some c =>                                   (* c = *p++ *)
      let i := i + 1 in
      if c =? 0 then Ok UErrUnq
      else if c =? q then Ok (UOk d i out)
      else if c =? 92 then
        match rd p i with
        | None => Oob i
        | Some e =>
          match esc_simple e with
          | Some x => match put out dlen d x with Ok o => unesc_loop f q p o dlen (i + 1) (d + 1) | Oob z => Oob z | Fuel => Fuel end
          | None =>
          if e =? 117 then
            match unesc_u p i with
            | Fuel => Fuel | Oob x => Oob x
            | Ok None => Ok UErrCp
            | Ok (Some (cp, i')) =>
              if negb (cp_valid cp) then Ok UErrCp
              else match put_list out dlen d (utf8_enc cp) with
                   | Ok o => unesc_loop f q p o dlen (i' + 5) (d + Z.of_nat (length (utf8_enc cp)))
                   | Oob z => Oob z | Fuel => Fuel
                   end
            end
          else match put out dlen d c with Ok o => unesc_loop f q p o dlen i (d + 1) | Oob z => Oob z | Fuel => Fuel end
          end
        end
      else match put out dlen d c with Ok o => unesc_loop f q p o dlen i (d + 1) | Oob z => Oob z | Fuel => Fuel end
    end
  end.

Definition unesc (q : Z) (p : list Z) (out : list (option Z)) (dlen i : Z) : res ures :=
  unesc_loop (length p) q p out dlen i 0.

(* both passes as the callers run them: measure, allocate exactly `len` cells, fill *)
Definition unesc2 (q : Z) (p : list Z) (i : Z) : res (ures * ures) :=
  match unesc q p [] 0 i with
  | Fuel => Fuel | Oob x => Oob x
  | Ok (UOk len e o) =>
    match unesc q p (repeat None (Z.to_nat len)) len i with
    | Ok r2 => Ok (UOk len e o, r2) | Oob x => Oob x | Fuel => Fuel
    end
  | Ok r => Ok (r, r)
  end.
