(* C17: the ini scanner model never leaves its three fixed arrays and always terminates (Ini.v) *)
Require Import ZArith List Bool Lia. Import ListNotations.
Require Import IW.SAFE.Buf IW.SAFE.Buf_proofs IW.SAFE.Txt IW.SAFE.Txt_proofs IW.SAFE.Ini IW.Gen.Facts.
Local Open Scope Z_scope. Local Open Scope bool_scope.

Lemma tbind_ok : forall A B (r : res A) (f : A -> res B) a, r = Ok a -> tbind r f = f a.
Proof. intros. subst. reflexivity. Qed.

Ltac stp := cbn [tbind i_section i_prev i_error fst snd].

Lemma olen_lfuel : forall b : cells, Z.of_nat (lfuel b) = olen b + 1.
Proof. intros b. unfold lfuel, olen. lia. Qed.

(* ---- the reader *)
Lemma reader_loop_S : forall f line strp num rest, reader_loop (S f) line strp num rest =
  if num >? 1 then
    match rest with
    | [] => Ok (line, strp, rest)
    | c :: r => tbind (wrc line strp c) (fun l1 => if c =? 10 then Ok (l1, strp + 1, r) else reader_loop f l1 (strp + 1) (num - 1) r)
    end
  else Ok (line, strp, rest).
Proof. reflexivity. Qed.

Definition pinit (b : cells) (j : Z) : Prop := forall k, 0 <= k < j -> exists c, cell_is b k c.

Lemma reader_loop_ok : forall fuel line strp num rest, 0 <= strp -> 1 <= num -> strp + num <= olen line -> pinit line strp ->
  (Z.to_nat num <= fuel)%nat ->
  exists l1 strp' rest', reader_loop fuel line strp num rest = Ok (l1, strp', rest') /\ olen l1 = olen line /\
    strp <= strp' <= strp + num - 1 /\ pinit l1 strp' /\ (length rest' <= length rest)%nat /\
    (rest <> [] -> 2 <= num -> (length rest' < length rest)%nat).
Proof.
  induction fuel as [|f IH]; intros line strp num rest P N C I F; [lia|].
  rewrite reader_loop_S. destruct (num >? 1) eqn:G.
  - apply Z.gtb_lt in G. destruct rest as [|c r].
    + exists line, strp, []. repeat split; auto; try lia; try (intros X; contradiction).
    + destruct (wrc_ok line strp c) as [l1 (W & L & S & O)]; [lia|]. rewrite W. stp.
      assert (I1 : pinit l1 (strp + 1)).
      { intros k Rk. destruct (Z.eq_dec k strp) as [->|Ne]; [eauto|]. destruct (I k) as [x X]; [lia|]. exists x. apply O; auto. }
      destruct (c =? 10).
      * exists l1, (strp + 1), r. repeat split; auto; simpl; lia.
      * destruct (IH l1 (strp + 1) (num - 1) r) as (l2 & s2 & r2 & E & L2 & R2 & I2 & Len & _); try lia; auto.
        exists l2, s2, r2. rewrite E. repeat split; auto; simpl; try lia.
  - exists line, strp, rest. repeat split; auto; try lia.
Qed.

Lemma reader_ok : forall line num rest, 2 <= num -> num = olen line ->
  (rest = [] /\ reader line num rest = Ok None) \/
  (exists l2 rest' Z, reader line num rest = Ok (Some (l2, rest')) /\ olen l2 = olen line /\ linv l2 Z /\
     (length rest' < length rest)%nat).
Proof.
  intros line num rest N E. destruct rest as [|c r]; [left; auto|]. right. unfold reader.
  assert (X : (num <? 2) = false) by (apply Z.ltb_ge; lia). rewrite X.
  destruct (reader_loop_ok (lfuel line) line 0 num (c :: r)) as (l1 & sp & r' & EL & L1 & R & I & _ & Len); try lia.
  { intros k Rk. lia. }
  { unfold lfuel, olen in *. lia. }
  rewrite EL. stp. destruct (wrc_ok l1 sp 0) as [l2 (W & L2 & S & O)]; [lia|]. rewrite W. stp.
  exists l2, r', sp. split; auto. split; [lia|]. split.
  - split; [lia|]. split; auto. intros k Rk. destruct (Z.eq_dec k sp) as [->|Ne]; [eauto|].
    destruct (I k) as [x Hx]; [lia|]. exists x. apply O; auto.
  - apply Len; [discriminate|lia].
Qed.

(* ---- the in-place helpers: they stay inside [s, Z] of a line with linv *)
Lemma rstrip_loop_S : forall f b s p, rstrip_loop (S f) b s p =
  if p >? s then tbind (rdc b (p - 1)) (fun c => if is_space c then tbind (wrc b (p - 1) 0) (fun b1 => rstrip_loop f b1 s (p - 1)) else Ok b)
  else Ok b.
Proof. reflexivity. Qed.

Lemma rstrip_loop_ok : forall fuel b Z s p, linv b Z -> 0 <= s -> p <= Z -> (Z.to_nat (p - s) < fuel)%nat ->
  exists b', rstrip_loop fuel b s p = Ok b' /\ linv b' Z /\ olen b' = olen b.
Proof.
  induction fuel as [|f IH]; intros b Z s p I S P F; [lia|].
  rewrite rstrip_loop_S. destruct (p >? s) eqn:G; [|eauto].
  apply Z.gtb_lt in G. destruct (linv_rd b Z (p - 1) I) as [c (E & _)]; [lia|]. rewrite E. stp.
  destruct (is_space c); [|eauto].
  destruct (linv_wr0_ok b Z (p - 1) I) as [b1 (W & I1 & L1 & _)]; [lia|]. rewrite W. stp.
  destruct (IH b1 Z s (p - 1) I1) as [b2 (E2 & I2 & L2)]; try lia. exists b2. rewrite E2. repeat split; auto; try apply I2. lia.
Qed.

Lemma rstrip_ok : forall b Z s, linv b Z -> 0 <= s <= Z -> exists b', rstrip b s = Ok b' /\ linv b' Z /\ olen b' = olen b.
Proof.
  intros b Z s I R. unfold rstrip. destruct (cnul_ok (lfuel b) b Z s I R) as [z (E & Rz & _)]; [apply linv_fuel; auto; lia|].
  rewrite E. stp. apply rstrip_loop_ok; auto; try lia. destruct I as (RZ & _). unfold lfuel, olen in *. lia.
Qed.

Lemma lskip_S : forall f b s, lskip (S f) b s = tbind (rdc b s) (fun c => if negb (c =? 0) && is_space c then lskip f b (s + 1) else Ok s).
Proof. reflexivity. Qed.
Lemma lskip_ok : forall fuel b Z s, linv b Z -> 0 <= s <= Z -> (Z.to_nat (Z - s) < fuel)%nat ->
  exists s', lskip fuel b s = Ok s' /\ s <= s' <= Z.
Proof.
  induction fuel as [|f IH]; intros b Z s I R F; [lia|].
  rewrite lskip_S. destruct (linv_rd b Z s I R) as [c (E & _ & N)]. rewrite E. stp.
  destruct (c =? 0) eqn:X; cbn [negb andb]; [exists s; split; auto; lia|].
  apply Z.eqb_neq in X. specialize (N X). destruct (is_space c); [|exists s; split; auto; lia].
  destruct (IH b Z (s + 1) I) as [s' [E' R']]; try lia. exists s'. split; auto. lia.
Qed.

Lemma find_coc_S : forall f b chars ws s, find_coc (S f) b chars ws s =
  tbind (rdc b s) (fun c =>
    if negb (c =? 0) && negb (in_chars chars c)
       && negb (ini_allow_inline_comments && ws && existsb (Z.eqb c) ini_inline_comment_prefixes)
    then find_coc f b chars (is_space c) (s + 1) else Ok s).
Proof. reflexivity. Qed.
Lemma find_coc_ok : forall fuel b Z chars ws s, linv b Z -> 0 <= s <= Z -> (Z.to_nat (Z - s) < fuel)%nat ->
  exists e, find_coc fuel b chars ws s = Ok e /\ s <= e <= Z.
Proof.
  induction fuel as [|f IH]; intros b Z chars ws s I R F; [lia|].
  rewrite find_coc_S. destruct (linv_rd b Z s I R) as [c (E & _ & N)]. rewrite E. stp.
  destruct (c =? 0) eqn:X; cbn [negb andb]; [exists s; split; auto; lia|].
  apply Z.eqb_neq in X. specialize (N X).
  destruct (negb (in_chars chars c) && negb (ini_allow_inline_comments && ws && existsb (Z.eqb c) ini_inline_comment_prefixes));
    [|exists s; split; auto; lia].
  destruct (IH b Z chars (is_space c) (s + 1) I) as [e [E' R']]; try lia. exists e. split; auto. lia.
Qed.

(* ---- the two small arrays: every cell holds a byte and one of them is 0 *)
Definition dinv (d : cells) (n : Z) : Prop :=
  olen d = n /\ pinit d n /\ exists Zd, 0 <= Zd < n /\ cell_is d Zd 0.

Lemma dinv_linv : forall d n, dinv d n -> exists Zd, linv d Zd.
Proof.
  intros d n (L & P & Zd & R & C). exists Zd. split; [lia|]. split; auto. intros k Rk. apply P. lia.
Qed.

Lemma dinv_zeros : forall n, 1 <= n -> dinv (zeros n) n.
Proof.
  intros n N. unfold zeros.
  assert (A : forall k, 0 <= k < n -> cell_is (repeat (Some 0) (Z.to_nat n)) k 0).
  { intros k Rk. split; [lia|]. rewrite nth_error_repeat; auto. lia. }
  split; [unfold olen; rewrite repeat_length; lia|]. split.
  - intros k Rk. exists 0. auto.
  - exists 0. split; [lia|]. apply A. lia.
Qed.

Lemma dinv_ccstr : forall d n, dinv d n -> exists r, ccstr (lfuel d) d 0 = Ok r /\ zlen r < n.
Proof.
  intros d n D. destruct (dinv_linv d n D) as [Zd I]. destruct (ccstr_ok (lfuel d) d Zd 0 I) as [r [E L]].
  - destruct I; lia.
  - apply linv_fuel; auto; lia.
  - exists r. split; auto. destruct D as (Ld & _). destruct I as (RZ & _). lia.
Qed.

Lemma strncpy0_loop_S : forall f dest line s size i, strncpy0_loop (S f) dest line s size i =
  if i <? size - 1 then
    tbind (rdc line (s + i)) (fun c => if c =? 0 then wrc dest i 0 else tbind (wrc dest i c) (fun d1 => strncpy0_loop f d1 line s size (i + 1)))
  else wrc dest i 0.
Proof. reflexivity. Qed.

Lemma pinit_wr : forall d n i x d', pinit d n -> wrc d i x = Ok d' -> pinit d' n.
Proof.
  intros d n i x d' P W. apply wrc_inv in W. destruct W as (_ & _ & S & O).
  intros k Rk. destruct (Z.eq_dec k i) as [->|Ne]; [eauto|]. destruct (P k Rk) as [c C]. exists c. apply O; auto.
Qed.

Lemma strncpy0_loop_ok : forall fuel dest line Z s size i, linv line Z -> 0 <= s -> s + i <= Z ->
  olen dest = size -> pinit dest size -> 0 <= i <= size - 1 -> (Z.to_nat (size - i) <= fuel)%nat ->
  exists d', strncpy0_loop fuel dest line s size i = Ok d' /\ dinv d' size.
Proof.
  induction fuel as [|f IH]; intros dest line Z s size i I S SI L P R F; [lia|].
  rewrite strncpy0_loop_S.
  assert (Fin : exists d', wrc dest i 0 = Ok d' /\ dinv d' size).
  { destruct (wrc_ok dest i 0) as [d' (W & L' & C & O)]; [lia|]. exists d'. split; auto.
    split; [lia|]. split; [eapply pinit_wr; eauto|]. exists i. split; [lia|auto]. }
  destruct (i <? size - 1) eqn:G; [|exact Fin].
  apply Z.ltb_lt in G. destruct (linv_rd line Z (s + i) I) as [c (E & _ & N)]; [lia|]. rewrite E. stp.
  destruct (c =? 0) eqn:X; [exact Fin|].
  apply Z.eqb_neq in X. specialize (N X).
  destruct (wrc_ok dest i c) as [d1 (W & L1 & C1 & O1)]; [lia|]. rewrite W. stp.
  apply (IH d1 line Z s size (i + 1)); auto; try lia. eapply pinit_wr; eauto.
Qed.

Lemma strncpy0_ok : forall dest line Z s size, linv line Z -> 0 <= s <= Z -> dinv dest size -> 1 <= size ->
  exists d', strncpy0 dest line s size = Ok d' /\ dinv d' size.
Proof.
  intros dest line Z s size I R (L & P & _) N. unfold strncpy0.
  apply (strncpy0_loop_ok (lfuel dest) dest line Z s size 0); auto; try lia. unfold lfuel, olen in *. lia.
Qed.

(* ---- one line *)
Definition sinv (st : ist) : Prop := dinv (i_section st) ini_max_section /\ dinv (i_prev st) ini_max_name.

Lemma sinv_call : forall h st lineno e, sinv st -> sinv (call h st lineno e).
Proof. intros h st lineno e S. unfold call. destruct (negb (h e) && (i_error st =? 0)); auto. Qed.
Lemma sinv_set_error : forall st lineno, sinv st -> sinv (set_error st lineno).
Proof. intros st lineno S. unfold set_error. destruct (i_error st =? 0); auto. Qed.

Lemma max_section_pos : 1 <= ini_max_section. Proof. unfold ini_max_section. lia. Qed.
Lemma max_name_pos : 1 <= ini_max_name. Proof. unfold ini_max_name. lia. Qed.
Lemma max_line_ge2 : 2 <= ini_max_line. Proof. unfold ini_max_line. lia. Qed.

Definition lres_ok (r : lres) (n : Z) : Prop :=
  exists l' st' evs, r = Ok (l', st', evs) /\ olen l' = n /\ sinv st'.

Lemma bom_start_ok : forall line Z lineno, linv line Z -> exists s0, bom_start line lineno = Ok s0 /\ 0 <= s0 <= Z.
Proof.
  intros line Z lineno I. unfold bom_start. assert (Z0 : 0 <= Z) by (destruct I; lia).
  destruct (ini_allow_bom && (lineno =? 1)); [|exists 0; split; auto; lia].
  destruct (linv_rd line Z 0 I) as [c0 (E0 & _ & N0)]; [lia|]. rewrite E0. stp.
  destruct (c0 =? 239) eqn:X0; [|exists 0; split; auto; lia].
  assert (P0 : 0 < Z) by (apply N0; apply Z.eqb_eq in X0; lia).
  destruct (linv_rd line Z 1 I) as [c1 (E1 & _ & N1)]; [lia|]. rewrite E1. stp.
  destruct (c1 =? 187) eqn:X1; [|exists 0; split; auto; lia].
  assert (P1 : 1 < Z) by (apply N1; apply Z.eqb_eq in X1; lia).
  destruct (linv_rd line Z 2 I) as [c2 (E2 & _ & N2)]; [lia|]. rewrite E2. stp.
  destruct (c2 =? 191) eqn:X2; [|exists 0; split; auto; lia].
  assert (P2 : 2 < Z) by (apply N2; apply Z.eqb_eq in X2; lia).
  exists 3. split; auto. lia.
Qed.

Lemma do_multiline_ok : forall h l1 Z lineno st start, linv l1 Z -> sinv st -> 0 <= start <= Z ->
  lres_ok (do_multiline h l1 lineno st start) (olen l1).
Proof.
  intros h l1 Z lineno st start I (DS & DP) R. unfold do_multiline.
  destruct (dinv_ccstr _ _ DS) as [sec [E1 _]]. rewrite E1. stp.
  destruct (dinv_ccstr _ _ DP) as [nm [E2 _]]. rewrite E2. stp.
  destruct (ccstr_ok (lfuel l1) l1 Z start I R) as [v [E3 _]]; [apply linv_fuel; auto; lia|]. rewrite E3. stp.
  do 3 eexists. split; [reflexivity|]. split; auto. apply sinv_call. split; auto.
Qed.

Lemma do_section_ok : forall h l1 Z lineno st start, linv l1 Z -> sinv st -> 0 <= start < Z ->
  lres_ok (do_section h l1 lineno st start) (olen l1).
Proof.
  intros h l1 Z lineno st start I (DS & DP) R. unfold do_section.
  destruct (find_coc_ok (lfuel l1) l1 Z (Some [93]) false (start + 1) I) as [e [E Re]]; [lia|apply linv_fuel; auto; lia|].
  rewrite E. stp. destruct (linv_rd l1 Z e I) as [ce (Ec & _)]; [lia|]. rewrite Ec. stp.
  destruct (ce =? 93).
  - destruct (linv_wr0_ok l1 Z e I) as [l2 (W & I2 & L2 & _)]; [lia|]. rewrite W. stp.
    destruct (strncpy0_ok (i_section st) l2 Z (start + 1) ini_max_section I2) as [sec [Es Ds]]; auto; [lia|apply max_section_pos|].
    rewrite Es. stp.
    destruct DP as (LP & PP & ZP).
    destruct (wrc_ok (i_prev st) 0 0) as [prev (Wp & Lp & Cp & Op)]; [pose proof max_name_pos; lia|]. rewrite Wp. stp.
    assert (DP' : dinv prev ini_max_name).
    { split; [lia|]. split; [eapply pinit_wr; eauto|]. exists 0. split; [pose proof max_name_pos; lia|auto]. }
    destruct ini_call_handler_on_new_section.
    + destruct (dinv_ccstr _ _ Ds) as [s0 [E0 _]]. rewrite E0. stp.
      do 3 eexists. split; [reflexivity|]. split; auto. apply sinv_call. split; auto.
    + do 3 eexists. split; [reflexivity|]. split; auto. split; auto.
  - do 3 eexists. split; [reflexivity|]. split; auto. apply sinv_set_error. split; auto.
Qed.

Lemma do_pair_ok : forall h l1 Z lineno st start, linv l1 Z -> sinv st -> 0 <= start <= Z ->
  lres_ok (do_pair h l1 lineno st start) (olen l1).
Proof.
  intros h l1 Z lineno st start I (DS & DP) R. unfold do_pair.
  destruct (find_coc_ok (lfuel l1) l1 Z (Some [61; 58]) false start I) as [e [E Re]]; [lia|apply linv_fuel; auto; lia|].
  rewrite E. stp. destruct (linv_rd l1 Z e I) as [ce (Ec & _ & Nc)]; [lia|]. rewrite Ec. stp.
  destruct ((ce =? 61) || (ce =? 58)) eqn:X.
  - assert (eZ : e < Z).
    { apply Nc. apply orb_true_iff in X. destruct X as [X|X]; apply Z.eqb_eq in X; lia. }
    destruct (linv_wr0_ok l1 Z e I) as [l2 (W & I2 & L2 & _)]; [lia|]. rewrite W. stp.
    destruct (rstrip_ok l2 Z start I2) as [l3 (E3 & I3 & L3)]; [lia|]. rewrite E3. stp.
    assert (S4 : exists l4, (if ini_allow_inline_comments then
                tbind (find_coc (lfuel l3) l3 None false (e + 1)) (fun e2 =>
                tbind (rdc l3 e2) (fun c2 => if negb (c2 =? 0) then wrc l3 e2 0 else Ok l3))
              else Ok l3) = Ok l4 /\ linv l4 Z /\ olen l4 = olen l3).
    { destruct ini_allow_inline_comments; [|eauto].
      destruct (find_coc_ok (lfuel l3) l3 Z None false (e + 1) I3) as [e2 [E2 R2]]; [lia|apply linv_fuel; auto; lia|].
      rewrite E2. stp. destruct (linv_rd l3 Z e2 I3) as [c2 (Ec2 & _)]; [lia|]. rewrite Ec2. stp.
      destruct (negb (c2 =? 0)); [|eauto].
      destruct (linv_wr0_ok l3 Z e2 I3) as [l4 (W4 & I4 & L4 & _)]; [lia|]. eauto. }
    destruct S4 as [l4 (E4 & I4 & L4)]. rewrite E4. stp.
    destruct (lskip_ok (lfuel l4) l4 Z (e + 1) I4) as [value [Ev Rv]]; [lia|apply linv_fuel; auto; lia|]. rewrite Ev. stp.
    destruct (rstrip_ok l4 Z value I4) as [l5 (E5 & I5 & L5)]; [lia|]. rewrite E5. stp.
    destruct (strncpy0_ok (i_prev st) l5 Z start ini_max_name I5) as [prev [Ep Dp]]; auto; [apply max_name_pos|]. rewrite Ep. stp.
    destruct (dinv_ccstr _ _ DS) as [sec [Es _]]. rewrite Es. stp.
    destruct (ccstr_ok (lfuel l5) l5 Z start I5) as [nm [En _]]; [lia|apply linv_fuel; auto; lia|]. rewrite En. stp.
    destruct (ccstr_ok (lfuel l5) l5 Z value I5) as [v [Evv _]]; [lia|apply linv_fuel; auto; lia|]. rewrite Evv. stp.
    do 3 eexists. split; [reflexivity|]. split; [lia|]. apply sinv_call. split; auto.
  - destruct (i_error st =? 0).
    + destruct ini_allow_no_value.
      * destruct (linv_wr0_ok l1 Z e I) as [l2 (W & I2 & L2 & _)]; [lia|]. rewrite W. stp.
        destruct (rstrip_ok l2 Z start I2) as [l3 (E3 & I3 & L3)]; [lia|]. rewrite E3. stp.
        destruct (dinv_ccstr _ _ DS) as [sec [Es _]]. rewrite Es. stp.
        destruct (ccstr_ok (lfuel l3) l3 Z start I3) as [nm [En _]]; [lia|apply linv_fuel; auto; lia|]. rewrite En. stp.
        do 3 eexists. split; [reflexivity|]. split; [lia|]. apply sinv_call. split; auto.
      * do 3 eexists. split; [reflexivity|]. split; auto. apply sinv_set_error. split; auto.
    + do 3 eexists. split; [reflexivity|]. split; auto. split; auto.
Qed.

Lemma process_line_ok : forall h line Z lineno st, linv line Z -> sinv st -> lres_ok (process_line h line lineno st) (olen line).
Proof.
  intros h line Z lineno st I S. unfold process_line.
  destruct (bom_start_ok line Z lineno I) as [s0 [E0 R0]]. rewrite E0. stp.
  destruct (rstrip_ok line Z s0 I R0) as [l1 (E1 & I1 & L1)]. rewrite E1. stp.
  destruct (lskip_ok (lfuel l1) l1 Z s0 I1 R0) as [start [Es Rs]]; [apply linv_fuel; auto; lia|]. rewrite Es. stp.
  destruct (linv_rd l1 Z start I1) as [c (Ec & _ & Nc)]; [lia|]. rewrite Ec. stp.
  rewrite <- L1.
  destruct (strchr_lit ini_start_comment_prefixes c); [do 3 eexists; split; [reflexivity|]; split; auto|].
  destruct S as (DS & DP). destruct (dinv_linv _ _ DP) as [Zp Ip].
  destruct (linv_rd (i_prev st) Zp 0 Ip) as [p0 (Ep & _)]; [destruct Ip; lia|]. rewrite Ep. stp.
  destruct (ini_allow_multiline && negb (p0 =? 0) && negb (c =? 0) && (start >? 0)).
  - apply (do_multiline_ok h l1 Z); auto; [split; auto|lia].
  - destruct (c =? 91) eqn:X.
    + apply (do_section_ok h l1 Z); auto; [split; auto|]. split; [lia|]. apply Nc. apply Z.eqb_eq in X. lia.
    + destruct (negb (c =? 0)).
      * apply (do_pair_ok h l1 Z); auto; [split; auto|lia].
      * do 3 eexists. split; [reflexivity|]. split; auto. split; auto.
Qed.

(* ---- all lines *)
Lemma ini_loop_S : forall f h line lineno st rest acc, ini_loop (S f) h line lineno st rest acc =
  tbind (reader line ini_max_line rest) (fun r =>
    match r with
    | None => Ok (i_error st, acc)
    | Some (l1, rest1) =>
      tbind (process_line h l1 (lineno + 1) st) (fun q =>
        let '(l2, st2, evs) := q in
        if ini_stop_on_first_error && negb (i_error st2 =? 0) then Ok (i_error st2, acc ++ evs)
        else ini_loop f h l2 (lineno + 1) st2 rest1 (acc ++ evs))
    end).
Proof. reflexivity. Qed.

Lemma ini_loop_ok : forall fuel h line lineno st rest acc, olen line = ini_max_line -> sinv st -> (length rest < fuel)%nat ->
  exists rc evs, ini_loop fuel h line lineno st rest acc = Ok (rc, evs).
Proof.
  induction fuel as [|f IH]; intros h line lineno st rest acc L S F; [lia|].
  rewrite ini_loop_S.
  destruct (reader_ok line ini_max_line rest max_line_ge2 (eq_sym L)) as [[_ E]|(l2 & rest' & Z & E & L2 & I2 & Len)]; rewrite E; stp; [eauto|].
  destruct (process_line_ok h l2 Z (lineno + 1) st I2 S) as (l3 & st3 & evs & E3 & L3 & S3). rewrite E3. stp.
  destruct (ini_stop_on_first_error && negb (i_error st3 =? 0)); [eauto|].
  apply IH; auto; lia.
Qed.

(* no access outside the three arrays, no read of a cell nobody has written, termination within S (length s) lines:
   for every handler and every input *)
Theorem ini_parse_total : forall h s, exists rc evs, ini_parse h s = Ok (rc, evs).
Proof.
  intros h s. unfold ini_parse. apply ini_loop_ok; [| |lia].
  - unfold fresh, olen. rewrite repeat_length. pose proof max_line_ge2. lia.
  - split; apply dinv_zeros; [apply max_section_pos|apply max_name_pos].
Qed.
