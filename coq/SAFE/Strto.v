(* C17: the checked conversion wrappers of src/utils/iwconv.c, iw_strtoll(v, 10, &rc) as their representative
   (iw_strtol / iw_strtoul / iw_strtoull / iw_strtod / iw_strtold have the same shape):
       ret = strtoll(v, &ep, base);  if ( *ep != 0 || errno == ERANGE) { *rcp = IW_ERROR_INVALID_ARGS; return 0; }
   strtoll is modelled by its ISO C contract (value, end index, sets errno = ERANGE on overflow and leaves errno alone
   otherwise); errno - the ambient state the wrapper consults - is an explicit argument.
   clears = the wrapper sets errno = 0 before the conversion (Facts.fact_strto_clears_errno, fixes/safety-strto-errno.diff).
   No proofs here. *)
Require Import ZArith List Bool. Import ListNotations.
Require Import IW.SAFE.Buf IW.SAFE.Num IW.Gen.Facts.
Local Open Scope Z_scope. Local Open Scope bool_scope.

(* strtoll(p, &ep, 10): (value, end index, ERANGE was set) *)
Definition strtoll10 (p : list Z) : res (Z * Z * bool) :=
  match sll_spaces (length p) p 0 with
  | Fuel => Fuel | Oob x => Oob x
  | Ok i =>
    match rd p i with
    | None => Oob i
    | Some c =>
      let neg := c =? 45 in
      let i1 := if (c =? 45) || (c =? 43) then i + 1 else i in
      match sll_digits (length p) p 10 i1 0 false with
      | Fuel => Fuel | Oob x => Oob x
      | Ok (acc, e, any) =>
        if negb any then Ok (0, 0, false)
        else if neg then (if acc >? 2 ^ 63 then Ok (- 2 ^ 63, e, true) else Ok (- acc, e, false))
        else (if acc >? 2 ^ 63 - 1 then Ok (2 ^ 63 - 1, e, true) else Ok (acc, e, false))
      end
    end
  end.

Inductive wres := WErr | WVal (v : Z).        (* WErr: *rcp = IW_ERROR_INVALID_ARGS, return 0 *)

Definition iw_strtoll (clears : bool) (errno : Z) (p : list Z) : res wres :=
  let e0 := if clears then 0 else errno in
  match strtoll10 p with
  | Fuel => Fuel | Oob x => Oob x
  | Ok (v, ep, er) =>
    let e1 := if er then ERANGE else e0 in
    match rd p ep with
    | None => Oob ep
    | Some c => if negb (c =? 0) || (e1 =? ERANGE) then Ok WErr else Ok (WVal v)
    end
  end.

Definition iw_strtoll_current := iw_strtoll fact_strto_clears_errno.
