(* C17: split / uuid / csv models never leave their buffers and terminate (Str.v) *)
Require Import ZArith List Bool Lia. Import ListNotations.
Require Import IW.SAFE.Buf IW.SAFE.Buf_proofs IW.SAFE.Txt IW.SAFE.Txt_proofs IW.SAFE.Str IW.Gen.Facts.
Local Open Scope Z_scope. Local Open Scope bool_scope.

Ltac stp := cbn [tbind fst snd].

(* ---- strlen / strchr on a terminated buffer *)
Lemma bnul_S : forall f b i, bnul (S f) b i = tbind (rdb b i) (fun c => if c =? 0 then Ok i else bnul f b (i + 1)).
Proof. reflexivity. Qed.

Lemma bnul_ok : forall fuel s i, nz s -> 0 <= i <= zlen s -> (Z.to_nat (zlen s - i) < fuel)%nat ->
  bnul fuel (s ++ [0]) i = Ok (zlen s).
Proof.
  induction fuel as [|f IH]; intros s i H R F; [lia|].
  rewrite bnul_S. destruct (rdb_term s i H R) as [c [E Z0]]. rewrite E. stp.
  destruct (c =? 0) eqn:X.
  - apply Z.eqb_eq in X. f_equal. apply Z0. exact X.
  - apply Z.eqb_neq in X. apply IH; auto; [|lia]. assert (i <> zlen s) by (intro Y; apply X; apply Z0; exact Y). lia.
Qed.

Lemma length_term : forall s : list Z, length (s ++ [0]) = S (length s).
Proof. intros s. rewrite app_length. simpl. lia. Qed.

Lemma strlen_ok : forall s, nz s -> strlen (s ++ [0]) = Ok (zlen s).
Proof.
  intros s H. unfold strlen. apply bnul_ok; auto; [pose proof (zlen_nonneg s); lia|].
  rewrite length_term. unfold zlen. lia.
Qed.

Lemma strchr_buf_S : forall f cs c k, strchr_buf (S f) cs c k =
  tbind (rdb cs k) (fun x => if x =? c then Ok true else if x =? 0 then Ok false else strchr_buf f cs c (k + 1)).
Proof. reflexivity. Qed.

Lemma strchr_buf_ok : forall fuel s c k, nz s -> 0 <= k <= zlen s -> (Z.to_nat (zlen s - k) < fuel)%nat ->
  exists r, strchr_buf fuel (s ++ [0]) c k = Ok r.
Proof.
  induction fuel as [|f IH]; intros s c k H R F; [lia|].
  rewrite strchr_buf_S. destruct (rdb_term s k H R) as [x [E Z0]]. rewrite E. stp.
  destruct (x =? c); [eauto|]. destruct (x =? 0) eqn:X; [eauto|].
  apply Z.eqb_neq in X. apply IH; auto; [|lia]. assert (k <> zlen s) by (intro Y; apply X; apply Z0; exact Y). lia.
Qed.

(* ---- split *)
Lemma slice_rd_ok : forall n b i, 0 <= i -> i + Z.of_nat n <= zlen b -> exists r, slice_rd n b i = Ok r.
Proof.
  induction n as [|k IH]; intros b i P R; [simpl; eauto|].
  simpl slice_rd. destruct (rdb_in b i) as [c E]; [lia|]. rewrite E. stp.
  destruct (IH b (i + 1)) as [r Er]; [lia|lia|]. rewrite Er. stp. eauto.
Qed.

Lemma trim_l_S : forall f b sp ep, trim_l (S f) b sp ep =
  if sp <? ep then tbind (rdb b sp) (fun c => if is_space c then trim_l f b (sp + 1) ep else Ok sp) else Ok sp.
Proof. reflexivity. Qed.
Lemma trim_l_ok : forall fuel b sp ep, 0 <= sp -> ep <= zlen b -> (Z.to_nat (ep - sp) < fuel)%nat ->
  exists sp', trim_l fuel b sp ep = Ok sp' /\ sp <= sp' /\ (sp <= ep -> sp' <= ep).
Proof.
  induction fuel as [|f IH]; intros b sp ep P R F; [lia|].
  rewrite trim_l_S. destruct (sp <? ep) eqn:G; [|exists sp; split; auto; lia].
  apply Z.ltb_lt in G. destruct (rdb_in b sp) as [c E]; [lia|]. rewrite E. stp.
  destruct (is_space c); [|exists sp; split; auto; lia].
  destruct (IH b (sp + 1) ep) as [sp' (E' & A & B)]; try lia. exists sp'. split; auto. lia.
Qed.

Lemma trim_r_S : forall f b sp ep, trim_r (S f) b sp ep =
  if ep >? sp then tbind (rdb b (ep - 1)) (fun c => if is_space c then trim_r f b sp (ep - 1) else Ok ep) else Ok ep.
Proof. reflexivity. Qed.
Lemma trim_r_ok : forall fuel b sp ep, 0 <= sp -> ep <= zlen b -> (Z.to_nat (ep - sp) < fuel)%nat ->
  exists ep', trim_r fuel b sp ep = Ok ep' /\ ep' <= ep /\ (sp <= ep -> sp <= ep').
Proof.
  induction fuel as [|f IH]; intros b sp ep P R F; [lia|].
  rewrite trim_r_S. destruct (ep >? sp) eqn:G; [|exists ep; split; auto; lia].
  apply Z.gtb_lt in G. destruct (rdb_in b (ep - 1)) as [c E]; [lia|]. rewrite E. stp.
  destruct (is_space c); [|exists ep; split; auto; lia].
  destruct (IH b sp (ep - 1)) as [ep' (E' & A & B)]; try lia. exists ep'. split; auto. lia.
Qed.

Lemma split_loop_S : forall f b cs ws cap sp ep i j acc, split_loop (S f) b cs ws cap sp ep i j acc =
    tbind (rdb b ep) (fun c =>
    if c =? 0 then (if (0 <=? j) && (j <? cap) then Ok (rev acc) else Oob j) else
    tbind (rdb b i) (fun ch =>
    tbind (strchr_buf (S (length cs)) cs ch 0) (fun sch =>
    tbind (if ep >=? sp then (if sch then Ok true else tbind (rdb b (ep + 1)) (fun n => Ok (n =? 0))) else Ok false) (fun hit =>
    if hit then
      tbind (if negb sch then tbind (rdb b (ep + 1)) (fun n => Ok (if n =? 0 then ep + 1 else ep)) else Ok ep) (fun ep1 =>
      tbind (if ws then trim_l (S (length b)) b sp ep1 else Ok sp) (fun sp2 =>
      tbind (if ws then trim_r (S (length b)) b sp2 ep1 else Ok ep1) (fun ep2 =>
      if ep2 >=? sp2 then
        tbind (slice_rd (Z.to_nat (ep2 - sp2)) b sp2) (fun tok =>
        if (0 <=? j) && (j <? cap) then split_loop f b cs ws cap (i + 1) (i + 1) (i + 1) (j + 1) (tok :: acc)
        else Oob j)
      else split_loop f b cs ws cap (i + 1) (ep2 + 1) (i + 1) j acc)))
    else split_loop f b cs ws cap sp (ep + 1) (i + 1) j acc)))).
Proof. reflexivity. Qed.

Section Split.
Variables (s cs : list Z) (ws : bool).
Hypothesis Hs : nz s.
Hypothesis Hc : nz cs.
Let b := s ++ [0].
Let L := zlen s.

Lemma split_loop_ok : forall fuel sp i j acc, 0 <= sp <= i -> i <= L -> 0 <= j <= i -> (Z.to_nat (L - i) < fuel)%nat ->
  exists r, split_loop fuel b (cs ++ [0]) ws (L + 1) sp i i j acc = Ok r.
Proof.
  assert (ZL : zlen b = L + 1) by (unfold b; rewrite zlen_app; reflexivity).
  assert (LB : Z.of_nat (S (length b)) = L + 2) by (unfold b, L, zlen; rewrite length_term; lia).
  induction fuel as [|f IH]; intros sp i j acc Rs Ri Rj F; [lia|].
  rewrite split_loop_S. destruct (rdb_term s i Hs) as [c [E Z0]]; [lia|]. fold b in E. rewrite E. stp.
  destruct (c =? 0) eqn:X.
  - assert (T : (0 <=? j) && (j <? L + 1) = true) by (apply andb_true_iff; split; [apply Z.leb_le|apply Z.ltb_lt]; lia).
    rewrite T. eauto.
  - apply Z.eqb_neq in X. assert (iL : i < L) by (assert (i <> L) by (intro Y; apply X; apply Z0; exact Y); lia).
    destruct (strchr_buf_ok (S (length (cs ++ [0]))) cs c 0 Hc) as [sch Esch]; [pose proof (zlen_nonneg cs); lia|rewrite length_term; unfold zlen; lia|].
    rewrite Esch. stp.
    destruct (rdb_term s (i + 1) Hs) as [n [En _]]; [lia|]. fold b in En.
    assert (G : (i >=? sp) = true) by (apply Z.geb_le; lia). rewrite G.
    assert (Hit : exists hit, (if sch then Ok true else tbind (rdb b (i + 1)) (fun n0 => Ok (n0 =? 0))) = Ok hit).
    { destruct sch; [eauto|]. rewrite En. stp. eauto. }
    destruct Hit as [hit Eh]. rewrite Eh. stp.
    destruct hit.
    + assert (E1 : exists ep1, (if negb sch then tbind (rdb b (i + 1)) (fun n0 => Ok (if n0 =? 0 then i + 1 else i)) else Ok i) = Ok ep1 /\ i <= ep1 <= L).
      { destruct sch; cbn [negb]; [exists i; split; auto; lia|]. rewrite En. stp. destruct (n =? 0); eexists; split; eauto; lia. }
      destruct E1 as [ep1 [Ee1 R1]]. rewrite Ee1. stp.
      assert (E2 : exists sp2, (if ws then trim_l (S (length b)) b sp ep1 else Ok sp) = Ok sp2 /\ sp <= sp2 <= ep1).
      { destruct ws; [|exists sp; split; auto; lia].
        destruct (trim_l_ok (S (length b)) b sp ep1) as [sp2 (Et & A & B)]; try lia. exists sp2. split; auto. lia. }
      destruct E2 as [sp2 [Ee2 R2]]. rewrite Ee2. stp.
      assert (E3 : exists ep2, (if ws then trim_r (S (length b)) b sp2 ep1 else Ok ep1) = Ok ep2 /\ sp2 <= ep2 <= ep1).
      { destruct ws; [|exists ep1; split; auto; lia].
        destruct (trim_r_ok (S (length b)) b sp2 ep1) as [ep2 (Et & A & B)]; try lia. exists ep2. split; auto. lia. }
      destruct E3 as [ep2 [Ee3 R3]]. rewrite Ee3. stp.
      assert (G2 : (ep2 >=? sp2) = true) by (apply Z.geb_le; lia). rewrite G2.
      destruct (slice_rd_ok (Z.to_nat (ep2 - sp2)) b sp2) as [tok Et]; [lia|lia|]. rewrite Et. stp.
      assert (T : (0 <=? j) && (j <? L + 1) = true) by (apply andb_true_iff; split; [apply Z.leb_le|apply Z.ltb_lt]; lia).
      rewrite T. apply IH; lia.
    + apply IH; lia.
Qed.

Theorem split_total : exists r, split b (cs ++ [0]) ws = Ok r.
Proof.
  unfold split. unfold b. rewrite (strlen_ok s Hs). stp. fold b. fold L.
  apply split_loop_ok; try lia; pose proof (zlen_nonneg s); fold L in H; try lia.
  unfold b, L, zlen. rewrite length_term. lia.
Qed.
End Split.

(* ---- uuid *)
Lemma uuid_run_ok : forall n b i, 0 <= i -> i + Z.of_nat n <= zlen b -> exists r, uuid_run n b i = Ok r.
Proof.
  induction n as [|k IH]; intros b i P R; [simpl; eauto|].
  simpl uuid_run. destruct (rdb_in b i) as [c E]; [lia|]. rewrite E. stp.
  destruct (is_uuid_char c); [|eauto]. apply IH; lia.
Qed.

Lemma uuid_groups_S : forall n b base, uuid_groups (S n) b base =
  tbind (uuid_run 4 b base) (fun ok => if negb ok then Ok (false, base) else
  tbind (rdb b (base + 4)) (fun d => if negb (d =? 45) then Ok (false, base) else uuid_groups n b (base + 5))).
Proof. reflexivity. Qed.

Lemma uuid_groups_ok : forall n b base, 0 <= base -> base + 5 * Z.of_nat n <= zlen b ->
  exists ok base', uuid_groups n b base = Ok (ok, base') /\ (ok = true -> base' = base + 5 * Z.of_nat n).
Proof.
  induction n as [|k IH]; intros b base P R; [simpl; exists true, base; split; auto; lia|].
  rewrite uuid_groups_S. destruct (uuid_run_ok 4 b base) as [ok E]; [lia|simpl; lia|]. rewrite E. stp.
  destruct ok; cbn [negb]; [|exists false, base; split; auto; discriminate].
  destruct (rdb_in b (base + 4)) as [d Ed]; [lia|]. rewrite Ed. stp.
  destruct (negb (d =? 45)); [exists false, base; split; auto; discriminate|].
  destruct (IH b (base + 5)) as (ok & base' & E' & B); [lia|lia|]. exists ok, base'. split; auto. intros T. rewrite (B T). lia.
Qed.

Theorem uuid_valid_total : forall s, nz s -> exists r, uuid_valid (s ++ [0]) = Ok r.
Proof.
  intros s H. unfold uuid_valid. rewrite (strlen_ok s H). stp.
  destruct (negb (zlen s =? uuid_str_len)) eqn:X; [eauto|].
  apply negb_false_iff in X. apply Z.eqb_eq in X. unfold uuid_str_len in X.
  assert (ZL : zlen (s ++ [0]) = 37) by (rewrite zlen_app; replace (zlen [0]) with 1 by reflexivity; lia).
  destruct (uuid_run_ok 8 (s ++ [0]) 0) as [ok E]; [lia|simpl; lia|]. rewrite E. stp.
  destruct ok; cbn [negb]; [|eauto].
  destruct (rdb_in (s ++ [0]) 8) as [d Ed]; [lia|]. rewrite Ed. stp.
  destruct (negb (d =? 45)); [eauto|].
  destruct (uuid_groups_ok 3 (s ++ [0]) 9) as (ok & base' & Eg & B); [lia|simpl; lia|]. rewrite Eg. stp.
  destruct ok; cbn [negb]; [|eauto].
  rewrite (B eq_refl). apply uuid_run_ok; simpl; lia.
Qed.

(* ---- csv *)
Definition cinv (w : csv) : Prop :=
  0 <= c_wp w <= c_ep w /\ (forall k, 0 <= k < c_wp w -> exists c, cell_is (c_buf w) k c).

Lemma ww2_ok : forall w ok c, cinv w -> exists w' ok', ww2 (w, ok) c = Ok (w', ok') /\ cinv w' /\ olen (c_buf w') = olen (c_buf w).
Proof.
  intros w ok c (R & P). unfold ww2. destruct ok; cbn [negb]; [|exists w, false; repeat split; auto; lia].
  destruct (c_wp w =? c_ep w) eqn:X; [exists w, false; repeat split; auto; lia|].
  apply Z.eqb_neq in X. unfold c_ep in *.
  destruct (wrc_ok (c_buf w) (c_wp w) c) as [b1 (W & L1 & C1 & O1)]; [lia|]. rewrite W. stp.
  eexists; eexists. split; [reflexivity|]. split; [|exact L1]. unfold cinv, c_ep. cbn [c_buf c_wp c_ncol]. split; [lia|].
  intros k Rk. destruct (Z.eq_dec k (c_wp w)) as [->|N]; [eauto|]. destruct (P k) as [x Hx]; [lia|]. exists x. apply O1; auto.
Qed.

Lemma csv_body2_cons : forall st c r, csv_body2 st (c :: r) =
  tbind (if c =? 34 then ww2 st 34 else Ok st) (fun s1 => tbind (ww2 s1 c) (fun s2 => csv_body2 s2 r)).
Proof. reflexivity. Qed.
Lemma csv_cols_cons : forall w c r acc, csv_cols w (c :: r) acc = tbind (csv_add w c) (fun a => csv_cols (fst a) r (snd a :: acc)).
Proof. reflexivity. Qed.

Lemma csv_body2_ok : forall s w ok, cinv w ->
  exists w' ok', csv_body2 (w, ok) s = Ok (w', ok') /\ cinv w' /\ olen (c_buf w') = olen (c_buf w).
Proof.
  induction s as [|c r IH]; intros w ok I; [simpl; exists w, ok; auto|].
  rewrite csv_body2_cons.
  assert (S1 : exists w1 ok1, (if c =? 34 then ww2 (w, ok) 34 else Ok (w, ok)) = Ok (w1, ok1) /\ cinv w1 /\ olen (c_buf w1) = olen (c_buf w)).
  { destruct (c =? 34); [apply ww2_ok; auto|exists w, ok; auto]. }
  destruct S1 as (w1 & ok1 & E1 & I1 & L1). rewrite E1. stp.
  destruct (ww2_ok w1 ok1 c I1) as (w2 & ok2 & E2 & I2 & L2). rewrite E2. stp.
  destruct (IH w2 ok2 I2) as (w3 & ok3 & E3 & I3 & L3). exists w3, ok3. split; auto. split; auto. lia.
Qed.

Lemma csv_add_ok : forall w s, cinv w -> exists w' ok, csv_add w s = Ok (w', ok) /\ cinv w' /\ olen (c_buf w') = olen (c_buf w).
Proof.
  intros w s I. unfold csv_add.
  set (w0 := mkCsv (c_buf w) (c_wp w) (c_ncol w + 1)).
  assert (I0 : cinv w0) by exact I.
  assert (S1 : exists w1 ok1, (if negb (c_ncol w =? 0) then ww2 (w0, true) 44 else Ok (w0, true)) = Ok (w1, ok1) /\ cinv w1 /\ olen (c_buf w1) = olen (c_buf w)).
  { destruct (negb (c_ncol w =? 0)); [apply (ww2_ok w0 true 44 I0)|exists w0, true; auto]. }
  destruct S1 as (w1 & ok1 & E1 & I1 & L1). rewrite E1. stp.
  assert (S2 : exists w2 ok2, (if existsb needs_quote s then ww2 (w1, ok1) 34 else Ok (w1, ok1)) = Ok (w2, ok2) /\ cinv w2 /\ olen (c_buf w2) = olen (c_buf w)).
  { destruct (existsb needs_quote s); [destruct (ww2_ok w1 ok1 34 I1) as (a & b0 & Ea & Ia & La); exists a, b0; repeat split; auto; try apply Ia; lia|exists w1, ok1; auto]. }
  destruct S2 as (w2 & ok2 & E2 & I2 & L2). rewrite E2. stp.
  destruct (csv_body2_ok s w2 ok2 I2) as (w3 & ok3 & E3 & I3 & L3). rewrite E3. stp.
  destruct (existsb needs_quote s); [|exists w3, ok3; repeat split; auto; try apply I3; lia].
  destruct (ww2_ok w3 ok3 34 I3) as (a & b0 & Ea & Ia & La). exists a, b0. repeat split; auto; try apply Ia. lia.
Qed.

Lemma cslice_ok : forall n b i, 0 <= i -> (forall k, i <= k < i + Z.of_nat n -> exists c, cell_is b k c) -> exists r, cslice n b i = Ok r.
Proof.
  induction n as [|k IH]; intros b i P A; [simpl; eauto|].
  simpl cslice. destruct (A i) as [c C]; [lia|]. rewrite (rdc_cell _ _ _ C). stp.
  destruct (IH b (i + 1)) as [r Er]; [lia|intros q Rq; apply A; lia|]. rewrite Er. stp. eauto.
Qed.

Lemma csv_flush_ok : forall w, cinv w -> exists r, csv_flush w = Ok r.
Proof.
  intros w I. unfold csv_flush.
  destruct (ww2_ok w true 13 I) as (w1 & ok1 & E1 & I1 & L1). rewrite E1. stp.
  destruct (ww2_ok w1 ok1 10 I1) as (w2 & ok2 & E2 & I2 & L2). rewrite E2. stp.
  destruct ok2; cbn [negb]; [|eauto].
  destruct I2 as (R2 & P2). unfold c_ep in R2.
  destruct (wrc_ok (c_buf w2) (c_wp w2) 0) as [b1 (W & Lb & C & O)]; [lia|]. rewrite W. stp.
  destruct (cslice_ok (Z.to_nat (c_wp w2)) b1 0) as [line El]; [lia| |rewrite El; stp; eauto].
  intros k Rk. destruct (P2 k) as [x Hx]; [lia|]. exists x. apply O; auto. lia.
Qed.

Lemma csv_cols_ok : forall cols w acc, cinv w -> exists w' l, csv_cols w cols acc = Ok (w', l) /\ cinv w'.
Proof.
  induction cols as [|c r IH]; intros w acc I; [simpl; eauto|].
  rewrite csv_cols_cons. destruct (csv_add_ok w c I) as (w1 & ok & E & I1 & _). rewrite E. stp. apply IH; auto.
Qed.

(* whatever the length of the caller's buffer and whatever the columns: every store is inside the data area *)
Theorem csv_query_total : forall len cols, exists r, csv_query len cols = Ok r.
Proof.
  intros len cols. unfold csv_query, csv_wrap.
  destruct ((len <? sizeof_struct_iwcsv + 2) || negb (Z.land len 7 =? 0)) eqn:X; [stp; eauto|].
  apply orb_false_iff in X. destruct X as [X _]. apply Z.ltb_ge in X.
  assert (SP : 0 <= sizeof_struct_iwcsv) by (unfold sizeof_struct_iwcsv; lia).
  set (buf := repeat None (Z.to_nat (len - sizeof_struct_iwcsv))).
  assert (LB : olen buf = len - sizeof_struct_iwcsv) by (unfold buf, olen; rewrite repeat_length; lia).
  destruct (wrc_ok buf (len - sizeof_struct_iwcsv - 1) 0) as [b1 (W & L1 & _)]; [lia|]. rewrite W. stp.
  assert (I0 : cinv (mkCsv b1 0 0)).
  { unfold cinv, c_ep. cbn [c_buf c_wp]. split; [lia|]. intros k Rk. lia. }
  destruct (csv_cols_ok cols (mkCsv b1 0 0) [] I0) as (w1 & l & E & I1). rewrite E. stp.
  destruct (csv_flush_ok w1 I1) as [r Er]. rewrite Er. stp. eauto.
Qed.
