(* C17: the index-level buffer discipline shared by the SAFE models.
   A C buffer handed to a function is a `list Z` of its bytes (a C string = content ++ [0]).
   Every read is `rd b i`, every write `wr o i x`; an index outside [0, length) gives None and the
   model turns that into `Oob i`.  `Fuel` = the loop bound (a stated function of the input length)
   did not suffice.  No proofs here. *)
Require Import ZArith List Bool. Import ListNotations.
Local Open Scope Z_scope. Local Open Scope bool_scope.

Inductive res (A : Type) : Type := Ok (a : A) | Oob (i : Z) | Fuel.
Arguments Ok {A} a. Arguments Oob {A} i. Arguments Fuel {A}.

Definition zlen (b : list Z) : Z := Z.of_nat (length b).
Definition inb (b : list Z) (i : Z) : bool := (0 <=? i) && (i <? zlen b).
Definition rd (b : list Z) (i : Z) : option Z := if inb b i then nth_error b (Z.to_nat i) else None.

Fixpoint upd (l : list Z) (n : nat) (x : Z) : list Z :=
  match l, n with
  | [], _ => []
  | _ :: t, O => x :: t
  | h :: t, S k => h :: upd t k x
  end.
Definition wr (o : list Z) (i x : Z) : option (list Z) := if inb o i then Some (upd o (Z.to_nat i) x) else None.

(* the C string starting at offset i of a buffer (up to the first 0 or the end of the buffer) *)
Fixpoint cstr_from (fuel : nat) (b : list Z) (i : Z) : list Z :=
  match fuel with O => [] | S f =>
    match rd b i with Some c => if c =? 0 then [] else c :: cstr_from f b (i + 1) | None => [] end end.

(* a C string's content: no 0 byte *)
Definition nz (s : list Z) : Prop := Forall (fun c => c <> 0) s.
(* bytes as `char` (signed, -fsigned-char) *)
Definition schar (c : Z) : Z := if c >=? 128 then c - 256 else c.

(* output cells: None = never written (malloc'ed, uninitialised) *)
Fixpoint updo (l : list (option Z)) (n : nat) (x : Z) : list (option Z) :=
  match l, n with
  | [], _ => []
  | _ :: t, O => Some x :: t
  | h :: t, S k => h :: updo t k x
  end.
Definition olen (b : list (option Z)) : Z := Z.of_nat (length b).
Definition inbo (b : list (option Z)) (i : Z) : bool := (0 <=? i) && (i <? olen b).
Definition wro (o : list (option Z)) (i x : Z) : option (list (option Z)) :=
  if inbo o i then Some (updo o (Z.to_nat i) x) else None.

(* what an observer that prints the C string at offset i sees: the bytes, or Uninit when it runs into a cell that was
   never written (its answer would depend on the previous contents of the heap), or Oob *)
Inductive obs := OStr (s : list Z) | OUninit | OOob.
Fixpoint ocstr (fuel : nat) (b : list (option Z)) (i : Z) : obs :=
  match fuel with O => OOob | S f =>
    if inbo b i then
      match nth_error b (Z.to_nat i) with
      | Some (Some c) => if c =? 0 then OStr [] else
                          match ocstr f b (i + 1) with OStr r => OStr (c :: r) | e => e end
      | _ => OUninit
      end
    else OOob
  end.
