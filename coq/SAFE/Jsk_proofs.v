(* C17: the JSON / JS parser skeleton (Jsk.v): no access outside the buffer, termination within jfuel, recursion depth
   bounded by JBL_MAX_NESTING_LEVEL + 1 - for every input, both modes, every verdict of the floating point range test *)
Require Import ZArith List Bool Lia. Import ListNotations.
Require Import IW.SAFE.Buf IW.SAFE.Buf_proofs IW.SAFE.Txt IW.SAFE.Txt_proofs IW.SAFE.Unesc IW.SAFE.Unesc_proofs
  IW.SAFE.Num IW.SAFE.Num_proofs IW.SAFE.Jsk IW.Gen.Facts.
Local Open Scope Z_scope. Local Open Scope bool_scope.

Ltac stp := cbn [tbind fst snd].

Lemma skipn_term : forall (s : list Z) n, (n <= length s)%nat -> skipn n (s ++ [0]) = skipn n s ++ [0].
Proof. intros s n H. rewrite skipn_app. replace (n - length s)%nat with O by lia. reflexivity. Qed.
Lemma nz_skipn : forall s n, nz s -> nz (skipn n s).
Proof.
  intros s n. revert s. induction n as [|k IH]; intros [|x r] H; simpl; auto. apply IH. inversion H; auto.
Qed.
Lemma zlen_skipn : forall (s : list Z) n, (n <= length s)%nat -> zlen (skipn n s) = zlen s - Z.of_nat n.
Proof. intros s n H. unfold zlen. rewrite skipn_length. lia. Qed.

Section WithInput.
Variable s : list Z.
Hypothesis Hnz : nz s.
Let b := s ++ [0].
Let L := zlen s.
Variable bf : nat.
Hypothesis Hbf : (Z.to_nat L < bf)%nat.

Lemma L0 : 0 <= L. Proof. apply zlen_nonneg. Qed.

Lemma rdq : forall i, 0 <= i <= L -> exists c, rdb b i = Ok c /\ (c <> 0 -> i < L).
Proof.
  intros i R. destruct (rdb_term s i Hnz R) as [c [E Z0]]. exists c. split; auto. intros N.
  assert (i <> L) by (intro X; apply N; apply Z0; exact X). lia.
Qed.
Lemma rd_rdb : forall i c, rd b i = Some c -> rdb b i = Ok c.
Proof. intros i c H. rewrite rdb_rd, H. reflexivity. Qed.

(* ---- the scanning loops: each stops at the terminator at the latest *)
Lemma skip_ws32_S : forall f i, skip_ws32 (S f) b i = tbind (rdb b i) (fun c => if negb (c =? 0) && is_ws32 c then skip_ws32 f b (i + 1) else Ok i).
Proof. reflexivity. Qed.
Lemma skip_ws32_ok : forall fuel i, 0 <= i <= L -> (Z.to_nat (L - i) < fuel)%nat -> exists p, skip_ws32 fuel b i = Ok p /\ i <= p <= L.
Proof.
  induction fuel as [|f IH]; intros i R F; [lia|]. rewrite skip_ws32_S. destruct (rdq i R) as [c [E N]]. rewrite E. stp.
  destruct (c =? 0) eqn:X; cbn [negb andb]; [exists i; split; auto; lia|]. apply Z.eqb_neq in X. specialize (N X).
  destruct (is_ws32 c); [|exists i; split; auto; lia]. destruct (IH (i + 1)) as [p [Ep Rp]]; try lia. exists p. split; auto. lia.
Qed.

Lemma skip_alnum_S : forall f i, skip_alnum (S f) b i = tbind (rdb b i) (fun c => if negb (c =? 0) && is_alnum c then skip_alnum f b (i + 1) else Ok i).
Proof. reflexivity. Qed.
Lemma skip_alnum_ok : forall fuel i, 0 <= i <= L -> (Z.to_nat (L - i) < fuel)%nat -> exists p, skip_alnum fuel b i = Ok p /\ i <= p <= L.
Proof.
  induction fuel as [|f IH]; intros i R F; [lia|]. rewrite skip_alnum_S. destruct (rdq i R) as [c [E N]]. rewrite E. stp.
  destruct (c =? 0) eqn:X; cbn [negb andb]; [exists i; split; auto; lia|]. apply Z.eqb_neq in X. specialize (N X).
  destruct (is_alnum c); [|exists i; split; auto; lia]. destruct (IH (i + 1)) as [p [Ep Rp]]; try lia. exists p. split; auto. lia.
Qed.

Lemma skip_digits_S : forall f i, skip_digits (S f) b i = tbind (rdb b i) (fun c => if negb (c =? 0) && is_digit c then skip_digits f b (i + 1) else Ok i).
Proof. reflexivity. Qed.
Lemma skip_digits_ok : forall fuel i, 0 <= i <= L -> (Z.to_nat (L - i) < fuel)%nat -> exists p, skip_digits fuel b i = Ok p /\ i <= p <= L.
Proof.
  induction fuel as [|f IH]; intros i R F; [lia|]. rewrite skip_digits_S. destruct (rdq i R) as [c [E N]]. rewrite E. stp.
  destruct (c =? 0) eqn:X; cbn [negb andb]; [exists i; split; auto; lia|]. apply Z.eqb_neq in X. specialize (N X).
  destruct (is_digit c); [|exists i; split; auto; lia]. destruct (IH (i + 1)) as [p [Ep Rp]]; try lia. exists p. split; auto. lia.
Qed.

Lemma is_space_nz : forall c, Txt.is_space c = true -> c <> 0.
Proof. intros c H X. subst c. discriminate. Qed.
Lemma is_digit_nz : forall c, is_digit c = true -> c <> 0.
Proof. intros c H X. subst c. discriminate. Qed.
Lemma is_vws_nz : forall c, is_vws c = true -> c <> 0.
Proof. intros c H X. subst c. discriminate. Qed.

Lemma skip_space_S : forall f i, skip_space (S f) b i = tbind (rdb b i) (fun c => if Txt.is_space c then skip_space f b (i + 1) else Ok i).
Proof. reflexivity. Qed.
Lemma skip_space_ok : forall fuel i, 0 <= i <= L -> (Z.to_nat (L - i) < fuel)%nat -> exists p, skip_space fuel b i = Ok p /\ i <= p <= L.
Proof.
  induction fuel as [|f IH]; intros i R F; [lia|]. rewrite skip_space_S. destruct (rdq i R) as [c [E N]]. rewrite E. stp.
  destruct (Txt.is_space c) eqn:X; [|exists i; split; auto; lia]. specialize (N (is_space_nz c X)).
  destruct (IH (i + 1)) as [p [Ep Rp]]; try lia. exists p. split; auto. lia.
Qed.

Lemma skip_vws_S : forall f i, skip_vws (S f) b i = tbind (rdb b i) (fun c => if is_vws c then skip_vws f b (i + 1) else Ok i).
Proof. reflexivity. Qed.
Lemma skip_vws_ok : forall fuel i, 0 <= i <= L -> (Z.to_nat (L - i) < fuel)%nat -> exists p, skip_vws fuel b i = Ok p /\ i <= p <= L.
Proof.
  induction fuel as [|f IH]; intros i R F; [lia|]. rewrite skip_vws_S. destruct (rdq i R) as [c [E N]]. rewrite E. stp.
  destruct (is_vws c) eqn:X; [|exists i; split; auto; lia]. specialize (N (is_vws_nz c X)).
  destruct (IH (i + 1)) as [p [Ep Rp]]; try lia. exists p. split; auto. lia.
Qed.

Lemma skip_exp_zeros_S : forall f i, skip_exp_zeros (S f) b i =
  tbind (rdb b i) (fun c => if c =? 48 then tbind (rdb b (i + 1)) (fun n => if is_digit n then skip_exp_zeros f b (i + 1) else Ok i) else Ok i).
Proof. reflexivity. Qed.
Lemma skip_exp_zeros_ok : forall fuel i, 0 <= i <= L -> (Z.to_nat (L - i) < fuel)%nat ->
  exists p, skip_exp_zeros fuel b i = Ok p /\ i <= p <= L /\ (i < L -> p < L).
Proof.
  induction fuel as [|f IH]; intros i R F; [lia|]. rewrite skip_exp_zeros_S. destruct (rdq i R) as [c [E N]]. rewrite E. stp.
  destruct (c =? 48) eqn:X; [|exists i; split; auto; lia]. apply Z.eqb_eq in X. assert (iL : i < L) by (apply N; lia).
  destruct (rdq (i + 1)) as [n [En Nn]]; [lia|]. rewrite En. stp.
  destruct (is_digit n) eqn:D; [|exists i; split; auto; lia]. specialize (Nn (is_digit_nz n D)).
  destruct (IH (i + 1)) as [p (Ep & Rp & Pp)]; try lia. exists p. split; auto. split; [lia|]. intros _. apply Pp. lia.
Qed.

(* ---- literals *)
Lemma starts_ok : forall lit i, 0 <= i <= L -> Forall (fun x => x <> 0) lit ->
  exists m, starts b i lit = Ok m /\ (m = true -> i + zlen lit <= L).
Proof.
  induction lit as [|x r IH]; intros i R NZ; [simpl; exists true; split; auto; unfold zlen; simpl; lia|].
  simpl starts. destruct (rdq i R) as [c [E N]]. rewrite E. stp. inversion NZ as [|? ? Nx Nr]; subst.
  destruct (c =? x) eqn:X; [|exists false; split; auto; discriminate].
  apply Z.eqb_eq in X. subst c. specialize (N Nx).
  destruct (IH (i + 1)) as [m [Em Bm]]; [lia|auto|]. exists m. split; auto. intros T. specialize (Bm T).
  unfold zlen in *. simpl length. lia.
Qed.

(* ---- strings: where the closing quote is *)
Lemma unesc_loop_end : forall fuel q out dlen i d,
  0 <= i <= L -> 0 <= d -> dlen <= olen out -> (Z.to_nat (L - i) < fuel)%nat ->
  exists r, unesc_loop fuel q b out dlen i d = Ok r /\ match r with UOk _ e _ => i < e <= L | _ => True end.
Proof.
  induction fuel as [|f IH]; intros q out dlen i d R D OL F; [lia|].
  rewrite unesc_loop_S. destruct (rdp s Hnz i R) as [c [E N]]. fold b. fold b in E. rewrite E. cbv zeta.
  destruct (c =? 0) eqn:C0; [eexists; split; [reflexivity|exact I]|]. apply Z.eqb_neq in C0. specialize (N C0). fold L in N.
  destruct (c =? q); [eexists; split; [reflexivity|]; simpl; lia|].
  assert (Plain : forall x j, j <= L -> i < j -> exists r,
            match put out dlen d x with Ok o => unesc_loop f q b o dlen j (d + 1) | Oob z => Oob z | Fuel => Fuel end = Ok r /\
            match r with UOk _ e _ => i < e <= L | _ => True end).
  { intros x j J1 J2. destruct (put_ok out dlen d x D OL) as [o [P OL']]. rewrite P.
    destruct (IH q o dlen j (d + 1)) as [r [Er Br]]; try lia. exists r. split; auto. destruct r; auto. lia. }
  destruct (c =? 92); [|apply Plain; lia].
  destruct (rdp s Hnz (i + 1)) as [e [E1 N1]]; [fold L; lia|]. fold b in E1. fold L in N1. rewrite E1.
  destruct (esc_simple e) as [x|] eqn:Es.
  { assert (Ne : e <> 0) by (intro X; subst e; vm_compute in Es; discriminate).
    apply Plain; [specialize (N1 Ne); lia|lia]. }
  destruct (e =? 117) eqn:S7; [|apply Plain; lia].
  assert (I1 : i + 1 < L) by (apply N1; intro X; subst e; discriminate).
  destruct (unesc_u_ok s Hnz (i + 1)) as [r [H Hr]]; [fold L; lia|]. fold b in H. rewrite H.
  destruct r as [[cp i']|]; [|eexists; split; [reflexivity|exact I]]. destruct Hr as [I2 I3]. fold L in I3.
  destruct (negb (cp_valid cp)); [eexists; split; [reflexivity|exact I]|].
  destruct (put_list_ok (utf8_enc cp) out dlen d D OL) as [o [P OL']]. rewrite P.
  destruct (IH q o dlen (i' + 5) (d + Z.of_nat (length (utf8_enc cp)))) as [r [Er Br]]; try lia. exists r. split; auto. destruct r; auto. lia.
Qed.

Lemma unesc_end : forall q out dlen i, 0 <= i <= L -> dlen <= olen out ->
  exists r, unesc q b out dlen i = Ok r /\ match r with UOk _ e _ => i < e <= L | _ => True end.
Proof.
  intros q out dlen i R OL. unfold unesc. apply unesc_loop_end; auto; try lia.
  unfold b. rewrite app_length. simpl. unfold L, zlen. lia.
Qed.

Definition at_after (i : Z) (o : jout) : Prop := match o with JAt p => i < p <= L | JErr _ => True end.

Lemma jstring_ok : forall q i, 0 <= i <= L -> exists r, jstring q b i = Ok r /\ at_after i r.
Proof.
  intros q i R. unfold jstring, unesc2.
  destruct (unesc_end q [] 0 i R) as [r1 [E1 B1]]; [unfold olen; simpl; lia|]. rewrite E1.
  destruct r1 as [| |len e o]; [eexists; split; [reflexivity|exact I]..|].
  destruct (unesc_end q (repeat None (Z.to_nat len)) len i R) as [r2 [E2 B2]]; [unfold olen; rewrite repeat_length; lia|]. rewrite E2.
  destruct (len =? 0); [eexists; split; [reflexivity|exact B1]|].
  destruct r2 as [| |len2 e2 o2]; [eexists; split; [reflexivity|exact I]..|].
  destruct (len2 =? len); [eexists; split; [reflexivity|exact B2]|eexists; split; [reflexivity|exact I]].
Qed.

(* ---- keys *)
Lemma key_colon_ok : forall i, 0 <= i <= L -> exists r, key_colon bf b i = Ok r /\ at_after i r.
Proof.
  intros i R. unfold key_colon. destruct (skip_ws32_ok bf i R) as [p [E Rp]]; [lia|]. rewrite E. stp.
  destruct (rdq p) as [c [Ec N]]; [lia|]. rewrite Ec. stp.
  destruct (c =? 58) eqn:X; [|eexists; split; [reflexivity|exact I]].
  apply Z.eqb_eq in X. assert (p < L) by (apply N; lia). eexists; split; [reflexivity|]. simpl. lia.
Qed.

(* a key parser hands back the index of a closing brace, or an index beyond where it started *)
Definition key_post (i : Z) (o : jout) : Prop :=
  match o with JAt p => i <= p <= L /\ (rdb b p = Ok 125 \/ i < p) | JErr _ => True end.

Lemma json_key_S : forall f i, json_key (S f) bf b i =
  tbind (rdb b i) (fun c =>
    if c =? 0 then Ok (JErr EJson)
    else if c =? 34 then tbind (jstring 34 b (i + 1)) (fun r => match r with JErr e => Ok (JErr e) | JAt p => key_colon bf b p end)
    else if c =? 125 then Ok (JAt i)
    else if is_ws32 c || (c =? 44) then json_key f bf b (i + 1)
    else Ok (JErr EJson)).
Proof. reflexivity. Qed.

Lemma json_key_ok : forall fuel i, 0 <= i <= L -> (Z.to_nat (L - i) < fuel)%nat -> exists r, json_key fuel bf b i = Ok r /\ key_post i r.
Proof.
  induction fuel as [|f IH]; intros i R F; [lia|]. rewrite json_key_S. destruct (rdq i R) as [c [E N]]. rewrite E. stp.
  destruct (c =? 0) eqn:X0; [eexists; split; [reflexivity|exact I]|]. apply Z.eqb_neq in X0. specialize (N X0).
  destruct (c =? 34).
  { destruct (jstring_ok 34 (i + 1)) as [r [Er Br]]; [lia|]. rewrite Er. stp.
    destruct r as [e|p]; [eexists; split; [reflexivity|exact I]|]. simpl in Br.
    destruct (key_colon_ok p) as [r2 [E2 B2]]; [lia|]. exists r2. split; auto.
    destruct r2 as [e|p2]; [exact I|]. simpl in B2. simpl. split; [lia|right; lia]. }
  destruct (c =? 125) eqn:X1.
  { apply Z.eqb_eq in X1. subst c. eexists; split; [reflexivity|]. simpl. split; [lia|left; exact E]. }
  destruct (is_ws32 c || (c =? 44)); [|eexists; split; [reflexivity|exact I]].
  destruct (IH (i + 1)) as [r [Er Br]]; try lia. exists r. split; auto.
  destruct r as [e|p]; [exact I|]. simpl in *. destruct Br as [Rp [A|A]]; (split; [lia|]); [left; auto|right; lia].
Qed.

Lemma js_key_S : forall f i, js_key (S f) bf b i =
  tbind (rdb b i) (fun c =>
    if c =? 0 then Ok (JErr EJson) else
    let quoted := (c =? 39) || (c =? 34) in
    if quoted || is_alpha c then
      let sp := if quoted then i + 1 else i in
      tbind (skip_alnum bf b sp) (fun p =>
      tbind (rdb b p) (fun c2 =>
      if quoted && negb (c2 =? c) then Ok (JErr EJson)
      else key_colon bf b (if quoted then p + 1 else p)))
    else if c =? 125 then Ok (JAt i)
    else if is_ws32 c || (c =? 44) then js_key f bf b (i + 1)
    else Ok (JErr EJson)).
Proof. reflexivity. Qed.

Lemma is_alpha_alnum : forall c, is_alpha c = true -> is_alnum c = true.
Proof. intros c H. unfold is_alnum. rewrite H. reflexivity. Qed.

Lemma js_key_ok : forall fuel i, 0 <= i <= L -> (Z.to_nat (L - i) < fuel)%nat -> exists r, js_key fuel bf b i = Ok r /\ key_post i r.
Proof.
  induction fuel as [|f IH]; intros i R F; [lia|]. rewrite js_key_S. destruct (rdq i R) as [c [E N]]. rewrite E. stp.
  destruct (c =? 0) eqn:X0; [eexists; split; [reflexivity|exact I]|]. apply Z.eqb_neq in X0. specialize (N X0). cbv zeta.
  destruct ((c =? 39) || (c =? 34)) eqn:Q.
  { cbn [orb andb]. destruct (skip_alnum_ok bf (i + 1)) as [p [Ep Rp]]; [lia|lia|]. rewrite Ep. stp.
    destruct (rdq p) as [c2 [E2 N2]]; [lia|]. rewrite E2. stp.
    destruct (negb (c2 =? c)) eqn:X2; [eexists; split; [reflexivity|exact I]|].
    apply negb_false_iff in X2. apply Z.eqb_eq in X2. subst c2. specialize (N2 X0).
    destruct (key_colon_ok (p + 1)) as [r [Er Br]]; [lia|]. exists r. split; auto.
    destruct r as [e|p2]; [exact I|]. simpl in *. split; [lia|right; lia]. }
  cbn [orb andb]. destruct (is_alpha c) eqn:A.
  { destruct (skip_alnum_ok bf i R) as [p [Ep Rp]]; [lia|]. rewrite Ep. stp.
    destruct (rdq p) as [c2 [E2 N2]]; [lia|]. rewrite E2. stp.
    destruct (key_colon_ok p) as [r [Er Br]]; [lia|]. exists r. split; auto.
    destruct r as [e|p2]; [exact I|]. simpl in *. split; [lia|right; lia]. }
  destruct (c =? 125) eqn:X1.
  { apply Z.eqb_eq in X1. subst c. eexists; split; [reflexivity|]. simpl. split; [lia|left; exact E]. }
  destruct (is_ws32 c || (c =? 44)); [|eexists; split; [reflexivity|exact I]].
  destruct (IH (i + 1)) as [r [Er Br]]; try lia. exists r. split; auto.
  destruct r as [e|p]; [exact I|]. simpl in *. destruct Br as [Rp [B|B]]; (split; [lia|]); [left; auto|right; lia].
Qed.

(* ---- numbers *)
Lemma strtod_end_ok : forall str, 0 <= str <= L -> exists e, strtod_end bf b str = Ok e /\ str <= e <= L.
Proof.
  intros str R. unfold strtod_end.
  destruct (skip_space_ok bf str R) as [p0 [E0 R0]]; [lia|]. rewrite E0. stp.
  destruct (rdq p0) as [c0 [Ec0 N0]]; [lia|]. rewrite Ec0. stp.
  set (p1 := if (c0 =? 45) || (c0 =? 43) then p0 + 1 else p0).
  assert (R1 : p0 <= p1 <= L).
  { unfold p1. destruct ((c0 =? 45) || (c0 =? 43)) eqn:X; [|lia].
    assert (c0 <> 0) by (apply orb_true_iff in X; destruct X as [X|X]; apply Z.eqb_eq in X; lia). specialize (N0 H). lia. }
  destruct (rdq p1) as [c1 [Ec1 N1]]; [lia|]. rewrite Ec1. stp.
  destruct (negb (is_digit c1) && negb (c1 =? 46)) eqn:G; [exists str; split; auto; lia|].
  assert (C1 : c1 <> 0).
  { intro X. subst c1. discriminate. }
  specialize (N1 C1).
  assert (S2 : exists p2, (if is_digit c1 then skip_digits bf b (p1 + 1) else Ok p1) = Ok p2 /\ p1 <= p2 <= L /\ (is_digit c1 = true -> p1 < p2)
                          /\ (is_digit c1 = false -> p2 = p1)).
  { destruct (is_digit c1); [|exists p1; repeat split; auto; try lia; try discriminate].
    destruct (skip_digits_ok bf (p1 + 1)) as [p2 [E2 R2]]; [lia|lia|]. exists p2. repeat split; auto; try lia; try discriminate. }
  destruct S2 as [p2 (E2 & R2 & D2 & D2')]. rewrite E2. stp.
  destruct (rdq p2) as [c2 [Ec2 N2]]; [lia|]. rewrite Ec2. stp.
  assert (S3 : exists p3, (if c2 =? 46 then tbind (rdb b (p2 + 1)) (fun f0 => if is_digit f0 then skip_digits bf b (p2 + 1) else Ok (p2 + 1)) else Ok p2) = Ok p3
                          /\ p2 <= p3 <= L /\ p1 < p3).
  { destruct (c2 =? 46) eqn:X.
    - apply Z.eqb_eq in X. assert (p2 < L) by (apply N2; lia).
      destruct (rdq (p2 + 1)) as [f0 [Ef Nf]]; [lia|]. rewrite Ef. stp.
      destruct (is_digit f0); [|exists (p2 + 1); repeat split; auto; lia].
      destruct (skip_digits_ok bf (p2 + 1)) as [p3 [E3 R3]]; [lia|lia|]. exists p3. repeat split; auto; lia.
    - exists p2. repeat split; auto; try lia.
      destruct (is_digit c1) eqn:Dg; [apply D2; auto|].
      (* c1 is the dot, so p2 = p1 and c2 = c1 = 46: contradiction *)
      exfalso. rewrite (D2' eq_refl) in Ec2. rewrite Ec1 in Ec2. inversion Ec2; subst c2.
      simpl in G. rewrite X in G. discriminate. }
  destruct S3 as [p3 (E3 & R3 & P13)]. rewrite E3. stp. cbv zeta.
  destruct (rdq p3) as [c3 [Ec3 N3]]; [lia|]. rewrite Ec3. stp.
  destruct ((c3 =? 69) || (c3 =? 101)) eqn:X3.
  - assert (p3 < L).
    { apply N3. apply orb_true_iff in X3. destruct X3 as [X|X]; apply Z.eqb_eq in X; lia. }
    destruct (rdq (p3 + 1)) as [sg [Es Ns]]; [lia|]. rewrite Es. stp.
    set (p5 := if (sg =? 45) || (sg =? 43) then p3 + 2 else p3 + 1).
    assert (R5 : p3 < p5 <= L).
    { unfold p5. destruct ((sg =? 45) || (sg =? 43)) eqn:X; [|lia].
      assert (sg <> 0) by (apply orb_true_iff in X; destruct X as [X|X]; apply Z.eqb_eq in X; lia). specialize (Ns H0). lia. }
    destruct (rdq p5) as [d [Ed Nd]]; [lia|]. rewrite Ed. stp.
    destruct (is_digit d) eqn:Dd.
    + specialize (Nd (is_digit_nz d Dd)).
      destruct (skip_exp_zeros_ok bf p5) as [p6 (E6 & R6 & P6)]; [lia|lia|]. rewrite E6. stp. specialize (P6 Nd).
      destruct (skip_digits_ok bf (p6 + 1)) as [e [Ee Re]]; [lia|lia|]. exists e. split; auto. lia.
    + destruct (rdq (p3 - 1)) as [prev [Ep _]]; [lia|]. rewrite Ep. stp.
      destruct (negb (is_digit prev)); [exists str; split; auto; lia|].
      destruct (d =? 0); [exists p3; split; auto; lia|exists p5; split; auto; lia].
  - destruct (p3 >? str) eqn:G3.
    + destruct (rdq (p3 - 1)) as [prev [Ep _]]; [lia|]. rewrite Ep. stp.
      destruct (negb (is_digit prev)); [exists str; split; auto; lia|exists p3; split; auto; lia].
    + exists p3. split; auto. lia.
Qed.

Lemma jnumber_ok : forall js rng i, 0 <= i <= L -> exists r, jnumber bf js rng b i = Ok r /\ at_after i r.
Proof.
  intros js rng i R. unfold jnumber. destruct (rdq i R) as [c0 [E0 N0]]. rewrite E0. stp.
  destruct ((c0 =? 46) && negb js); [eexists; split; [reflexivity|exact I]|].
  assert (Hn : (Z.to_nat i <= length s)%nat) by (unfold L, zlen in R; lia).
  unfold b. rewrite (skipn_term s _ Hn).
  destruct (strtoll0_ok (skipn (Z.to_nat i) s) (nz_skipn s _ Hnz)) as (v & k & er & Ek & Rk). rewrite Ek.
  rewrite (zlen_skipn s _ Hn) in Rk. rewrite Z2Nat.id in Rk by lia. fold L in Rk. fold b.
  assert (Sb : exists bad, (if k =? 0 then if c0 =? 46 then Ok false
                 else if (c0 =? 45) || (c0 =? 43) then tbind (rdb b (i + 1)) (fun c1 => Ok (negb (c1 =? 46))) else Ok true
               else Ok false) = Ok bad /\ (bad = false -> k = 0 -> (c0 = 46 \/ c0 = 45 \/ c0 = 43))).
  { destruct (k =? 0) eqn:K; [|exists false; split; auto; intros _ X; apply Z.eqb_neq in K; lia].
    destruct (c0 =? 46) eqn:X; [exists false; split; auto; intros; left; apply Z.eqb_eq; auto|].
    destruct ((c0 =? 45) || (c0 =? 43)) eqn:Y.
    - assert (c0 <> 0) by (apply orb_true_iff in Y; destruct Y as [Y|Y]; apply Z.eqb_eq in Y; lia). specialize (N0 H).
      destruct (rdq (i + 1)) as [c1 [E1 _]]; [lia|]. rewrite E1. stp. eexists; split; [reflexivity|].
      intros _ _. right. apply orb_true_iff in Y. destruct Y as [Y|Y]; apply Z.eqb_eq in Y; auto.
    - exists true. split; auto. discriminate. }
  destruct Sb as [bad [Eb Bb]]. rewrite Eb. stp.
  destruct bad; [eexists; split; [reflexivity|exact I]|]. specialize (Bb eq_refl).
  destruct (rdq (i + k)) as [c [Ec _]]; [lia|]. rewrite Ec. stp.
  destruct (negb (k =? 0) && er || (c =? 46) || (c =? 101) || (c =? 69) || (c =? 45) || (c =? 43)) eqn:Fl.
  - destruct (strtod_end_ok i R) as [e [Ee Re]]. rewrite Ee. stp.
    destruct ((e =? i) || rng i) eqn:X; [eexists; split; [reflexivity|exact I]|].
    apply orb_false_iff in X. destruct X as [X _]. apply Z.eqb_neq in X. eexists; split; [reflexivity|]. simpl. lia.
  - eexists; split; [reflexivity|]. simpl. split; [|lia].
    destruct (Z.eq_dec k 0) as [K0|]; [|lia]. exfalso. specialize (Bb K0). subst k. replace (i + 0) with i in Ec by lia.
    rewrite E0 in Ec. inversion Ec; subst c.
    repeat (apply orb_false_iff in Fl; destruct Fl as [Fl ?]).
    destruct Bb as [B|[B|B]]; subst c0; discriminate.
Qed.

(* ---- the recursion: counters and levels *)
Definition jinv (st : jst) : Prop := j_deep st <= JBL_MAX_NESTING_LEVEL /\ j_frames st <= JBL_MAX_NESTING_LEVEL + 1.
Lemma jinv_enter : forall st lvl, jinv st -> lvl <= JBL_MAX_NESTING_LEVEL + 1 -> jinv (enter st lvl).
Proof. intros st lvl [A B] H. unfold jinv, enter. cbn [j_deep j_frames]. lia. Qed.
Lemma jinv_node : forall st lvl, jinv st -> lvl <= JBL_MAX_NESTING_LEVEL -> jinv (node_at st lvl).
Proof. intros st lvl [A B] H. unfold jinv, node_at. cbn [j_deep j_frames]. lia. Qed.

(* a value ends beyond where it started, or exactly at a closing bracket that it leaves to its caller *)
Definition val_post (i : Z) (r : jout * jst) : Prop :=
  jinv (snd r) /\ match fst r with JAt p => i <= p <= L /\ (rdb b p = Ok 93 \/ i < p) | JErr _ => True end.
Definition seq_post (i : Z) (r : jout * jst) : Prop :=
  jinv (snd r) /\ match fst r with JAt p => i <= p <= L | JErr _ => True end.

Lemma jscalar_ok : forall js rng lvl p c st, 0 <= p <= L -> rdb b p = Ok c -> jinv st -> lvl <= JBL_MAX_NESTING_LEVEL ->
  exists r, jscalar bf js rng b lvl p c st = Ok r /\ val_post p r.
Proof.
  intros js rng lvl p c st R E J Lv. unfold jscalar.
  assert (Err : forall e, exists r, Ok (JErr e, st) = Ok r /\ val_post p r).
  { intros e. eexists; split; [reflexivity|]. split; [exact J|exact I]. }
  assert (Lit : forall lit n, Forall (fun x => x <> 0) lit -> zlen lit = n -> 0 < n -> exists r,
            tbind (starts b p lit) (fun m => if m then Ok (JAt (p + n), node_at st lvl) else Ok (JErr EJson, st)) = Ok r /\ val_post p r).
  { intros lit n NZ Ln Pn. destruct (starts_ok lit p R NZ) as [m [Em Bm]]. rewrite Em. stp.
    destruct m; [|apply Err]. specialize (Bm eq_refl). eexists; split; [reflexivity|].
    split; [apply jinv_node; auto|]. simpl. split; [lia|right; lia]. }
  destruct (c =? 0); [apply Err|].
  destruct (c =? 110); [apply Lit; [repeat constructor; discriminate|reflexivity|lia]|].
  destruct (c =? 116); [apply Lit; [repeat constructor; discriminate|reflexivity|lia]|].
  destruct (c =? 102); [apply Lit; [repeat constructor; discriminate|reflexivity|lia]|].
  assert (pL : c <> 0 -> p < L).
  { destruct (rdq p R) as [c' [E' N']]. rewrite E in E'. inversion E'; subst c'. exact N'. }
  destruct ((c =? 39) || (c =? 34)) eqn:Q.
  { assert (c <> 0) by (apply orb_true_iff in Q; destruct Q as [Q|Q]; apply Z.eqb_eq in Q; lia). specialize (pL H).
    destruct ((c =? 39) && negb js); [apply Err|].
    destruct (unesc_end c [] 0 (p + 1)) as [r1 [E1 _]]; [lia|unfold olen; simpl; lia|]. rewrite E1.
    destruct r1 as [| |len e o]; [apply Err..|].
    destruct (jstring_ok c (p + 1)) as [r [Er Br]]; [lia|]. rewrite Er. stp. eexists; split; [reflexivity|].
    split; [apply jinv_node; auto|]. cbn [fst]. destruct r as [e0|q]; [exact I|]. simpl in Br. split; [lia|right; lia]. }
  destruct (c =? 93) eqn:X.
  { apply Z.eqb_eq in X. subst c. eexists; split; [reflexivity|]. split; [exact J|]. simpl. split; [lia|left; exact E]. }
  destruct (is_num_start c); [|apply Err].
  destruct ((c =? 46) && negb js); [apply Err|].
  destruct (jnumber_ok js rng p R) as [r [Er Br]]. rewrite Er. stp. eexists; split; [reflexivity|].
  split; [apply jinv_node; auto|]. cbn [fst]. destruct r as [e0|q]; [exact I|]. simpl in Br. split; [lia|right; lia].
Qed.

Lemma jvalue_S : forall f js rng lvl i st, jvalue (S f) bf js rng b lvl i st =
  let st := enter st lvl in
  if lvl >? JBL_MAX_NESTING_LEVEL then Ok (JErr ENest, st) else
  tbind (skip_vws bf b i) (fun p =>
  tbind (rdb b p) (fun c =>
  if c =? 123 then jobject f bf js rng b lvl (p + 1) (node_at st lvl)
  else if c =? 91 then jarray f bf js rng b lvl (p + 1) (node_at st lvl)
  else jscalar bf js rng b lvl p c st)).
Proof. reflexivity. Qed.
Lemma jarray_S : forall f js rng lvl i st, jarray (S f) bf js rng b lvl i st =
  tbind (jvalue f bf js rng b (lvl + 1) i st) (fun r =>
    match fst r with
    | JErr e => Ok r
    | JAt p => tbind (rdb b p) (fun c => if c =? 93 then Ok (JAt (p + 1), snd r) else jarray f bf js rng b lvl p (snd r))
    end).
Proof. reflexivity. Qed.
Lemma jobject_S : forall f js rng lvl i st, jobject (S f) bf js rng b lvl i st =
  tbind (if js then js_key bf bf b i else json_key bf bf b i) (fun k =>
    match k with
    | JErr e => Ok (JErr e, st)
    | JAt p =>
      tbind (rdb b p) (fun c =>
      if c =? 125 then Ok (JAt (p + 1), st) else
      tbind (jvalue f bf js rng b (lvl + 1) p st) (fun r =>
      match fst r with
      | JErr e => Ok r
      | JAt p2 => jobject f bf js rng b lvl p2 (snd r)
      end))
    end).
Proof. reflexivity. Qed.

(* fuel: a value that starts r bytes before the terminator needs 2r + 1 nested calls at most, a sequence 2r + 2 *)
Lemma jparse_rec : forall fuel js rng,
  (forall lvl i st, 0 <= i <= L -> jinv st -> lvl <= JBL_MAX_NESTING_LEVEL + 1 -> (Z.to_nat (2 * (L - i) + 1) <= fuel)%nat ->
     exists r, jvalue fuel bf js rng b lvl i st = Ok r /\ val_post i r) /\
  (forall lvl i st, 0 <= i <= L -> jinv st -> lvl <= JBL_MAX_NESTING_LEVEL -> (Z.to_nat (2 * (L - i) + 2) <= fuel)%nat ->
     exists r, jarray fuel bf js rng b lvl i st = Ok r /\ seq_post i r) /\
  (forall lvl i st, 0 <= i <= L -> jinv st -> lvl <= JBL_MAX_NESTING_LEVEL -> (Z.to_nat (2 * (L - i) + 2) <= fuel)%nat ->
     exists r, jobject fuel bf js rng b lvl i st = Ok r /\ seq_post i r).
Proof.
  induction fuel as [|f IH]; intros js rng.
  { repeat split; intros; lia. }
  destruct (IH js rng) as (IHv & IHa & IHo). split; [|split].
  - (* value *)
    intros lvl i st R J Lv F. rewrite jvalue_S. cbv zeta.
    pose proof (jinv_enter st lvl J Lv) as J1.
    destruct (lvl >? JBL_MAX_NESTING_LEVEL) eqn:G; [eexists; split; [reflexivity|]; split; [exact J1|exact I]|].
    assert (Lv2 : lvl <= JBL_MAX_NESTING_LEVEL) by lia.
    destruct (skip_vws_ok bf i R) as [p [Ep Rp]]; [lia|]. rewrite Ep. stp.
    destruct (rdq p) as [c [Ec Nc]]; [lia|]. rewrite Ec. stp.
    assert (Seq : forall (g : nat -> nat -> bool -> (Z -> bool) -> list Z -> Z -> Z -> jst -> res (jout * jst)),
              c <> 0 ->
              (forall lvl i st, 0 <= i <= L -> jinv st -> lvl <= JBL_MAX_NESTING_LEVEL -> (Z.to_nat (2 * (L - i) + 2) <= f)%nat ->
                 exists r, g f bf js rng b lvl i st = Ok r /\ seq_post i r) ->
              exists r, g f bf js rng b lvl (p + 1) (node_at (enter st lvl) lvl) = Ok r /\ val_post i r).
    { intros g C0 Hg. specialize (Nc C0). destruct (Hg lvl (p + 1) (node_at (enter st lvl) lvl)) as [r [Er [Jr Br]]]; try lia.
      - apply jinv_node; auto.
      - exists r. split; auto. split; auto. destruct (fst r) as [e|q]; [exact I|]. split; [lia|right; lia]. }
    destruct (c =? 123) eqn:X1; [apply (Seq jobject); [apply Z.eqb_eq in X1; lia|exact IHo]|].
    destruct (c =? 91) eqn:X2; [apply (Seq jarray); [apply Z.eqb_eq in X2; lia|exact IHa]|].
    destruct (jscalar_ok js rng lvl p c (enter st lvl)) as [r [Er [Jr Br]]]; auto; [lia|].
    exists r. split; auto. split; auto. destruct (fst r) as [e|q]; [exact I|].
    destruct Br as [Rq [A|A]]; (split; [lia|]); [|right; lia].
    destruct (Z.eq_dec q i) as [->|]; [left; exact A|right; lia].
  - (* array *)
    intros lvl i st R J Lv F. rewrite jarray_S.
    destruct (IHv (lvl + 1) i st R J) as [r [Er [Jr Br]]]; try lia. rewrite Er. stp.
    destruct (fst r) as [e|p] eqn:Fr.
    { eexists; split; [reflexivity|]. split; auto. rewrite Fr. exact I. }
    destruct Br as [Rp Pr]. destruct (rdq p) as [c [Ec Nc]]; [lia|]. rewrite Ec. stp.
    destruct (c =? 93) eqn:X.
    + apply Z.eqb_eq in X. assert (p < L) by (apply Nc; lia).
      eexists; split; [reflexivity|]. split; [exact Jr|]. simpl. lia.
    + assert (ip : i < p).
      { destruct Pr as [A|A]; [|exact A]. rewrite Ec in A. inversion A; subst c. discriminate. }
      destruct (IHa lvl p (snd r)) as [r2 [E2 [J2 B2]]]; auto; try lia.
      exists r2. split; auto. split; auto. destruct (fst r2) as [e|q]; [exact I|]. lia.
  - (* object *)
    intros lvl i st R J Lv F. rewrite jobject_S.
    assert (K : exists k, (if js then js_key bf bf b i else json_key bf bf b i) = Ok k /\ key_post i k).
    { destruct js; [apply js_key_ok|apply json_key_ok]; auto; lia. }
    destruct K as [k [Ek Bk]]. rewrite Ek. stp.
    destruct k as [e|p]; [eexists; split; [reflexivity|]; split; [exact J|exact I]|].
    destruct Bk as [Rp Pk]. destruct (rdq p) as [c [Ec Nc]]; [lia|]. rewrite Ec. stp.
    destruct (c =? 125) eqn:X.
    + apply Z.eqb_eq in X. assert (p < L) by (apply Nc; lia).
      eexists; split; [reflexivity|]. split; [exact J|]. simpl. lia.
    + assert (ip : i < p).
      { destruct Pk as [A|A]; [|exact A]. rewrite Ec in A. inversion A; subst c. discriminate. }
      destruct (IHv (lvl + 1) p st) as [r [Er [Jr Br]]]; auto; try lia. rewrite Er. stp.
      destruct (fst r) as [e|p2] eqn:Fr.
      { eexists; split; [reflexivity|]. split; auto. rewrite Fr. exact I. }
      destruct Br as [Rp2 _].
      destruct (IHo lvl p2 (snd r)) as [r2 [E2 [J2 B2]]]; auto; try lia.
      exists r2. split; auto. split; auto. destruct (fst r2) as [e|q]; [exact I|]. lia.
Qed.

Lemma skip_bom_ok : exists i0, skip_bom b = Ok i0 /\ 0 <= i0 <= L.
Proof.
  unfold skip_bom. pose proof L0 as P0.
  destruct (rdq 0) as [c0 [E0 N0]]; [lia|]. rewrite E0. stp.
  destruct (c0 =? 239) eqn:X0; [|exists 0; split; auto; lia].
  assert (P1 : 0 < L) by (apply N0; apply Z.eqb_eq in X0; lia).
  destruct (rdq 1) as [c1 [E1 N1]]; [lia|]. rewrite E1. stp.
  destruct (c1 =? 187) eqn:X1; [|exists 0; split; auto; lia].
  assert (P2 : 1 < L) by (apply N1; apply Z.eqb_eq in X1; lia).
  destruct (rdq 2) as [c2 [E2 N2]]; [lia|]. rewrite E2. stp.
  destruct (c2 =? 191) eqn:X2; [|exists 0; split; auto; lia].
  assert (P3 : 2 < L) by (apply N2; apply Z.eqb_eq in X2; lia).
  exists 3. split; auto. lia.
Qed.
End WithInput.

(* every read inside the buffer, termination, at most JBL_MAX_NESTING_LEVEL + 1 nested calls (the last one only to
   refuse), no node deeper than JBL_MAX_NESTING_LEVEL; the returned pointer stays inside the text *)
Theorem jparse_total : forall js rng s, nz s ->
  exists out st, jparse js rng (s ++ [0]) = Ok (out, st) /\
    j_frames st <= JBL_MAX_NESTING_LEVEL + 1 /\ j_deep st <= JBL_MAX_NESTING_LEVEL /\
    match out with JAt p => 0 <= p <= zlen s | JErr _ => True end.
Proof.
  intros js rng s H. unfold jparse.
  assert (Hbf : (Z.to_nat (zlen s) < S (length (s ++ [0%Z])))%nat) by (rewrite app_length; simpl; unfold zlen; lia).
  destruct (skip_bom_ok s H _ Hbf) as [i0 [E0 R0]]. rewrite E0. stp.
  destruct (jparse_rec s H (S (length (s ++ [0]))) Hbf (jfuel (s ++ [0])) js rng) as (V & _ & _).
  destruct (V 0 i0 j0) as [[out st] [E [[J1 J2] B]]]; auto.
  - split; unfold j0; cbn [j_deep j_frames]; unfold JBL_MAX_NESTING_LEVEL; lia.
  - unfold JBL_MAX_NESTING_LEVEL; lia.
  - unfold jfuel. rewrite app_length. cbn [length]. unfold zlen in *. lia.
  - exists out, st. split; auto. split; auto. split; auto. cbn [fst] in B. destruct out; auto. lia.
Qed.

(* the scanner of iwstrtod on its own: `end` points into the text *)
Theorem sde_total : forall s, nz s -> exists e, sde_query (s ++ [0]) = Ok e /\ 0 <= e <= zlen s.
Proof.
  intros s H. unfold sde_query.
  assert (Hbf : (Z.to_nat (zlen s) < S (length (s ++ [0%Z])))%nat) by (rewrite app_length; simpl; unfold zlen; lia).
  pose proof (zlen_nonneg s).
  destruct (strtod_end_ok s H _ Hbf 0) as [e [E R]]; [lia|]. exists e. split; auto.
Qed.

(* every int64 has at most IWNUMBUF_SIZE - 2 decimal digits *)
Lemma numbuf_holds_int64 : forall v, - 2 ^ 63 <= v < 2 ^ 63 -> Z.abs v < 10 ^ (IWNUMBUF_SIZE - 2).
Proof.
  intros v H. unfold IWNUMBUF_SIZE. change (2 ^ 63) with 9223372036854775808 in H.
  change (10 ^ (32 - 2)) with 1000000000000000000000000000000. lia.
Qed.

(* ---- jbn_from_json / jbn_from_js as their callers see them *)
Theorem jdoc_total : forall strict js rng s, nz s -> exists out st, jdoc strict js rng (s ++ [0]) = Ok (out, st).
Proof.
  intros strict js rng s H. unfold jdoc. destruct (jparse_total js rng s H) as (out & st & E & _). rewrite E. stp.
  destruct out; [eauto|]. destruct (strict && (j_nodes st =? 0)); eauto.
Qed.
(* once rootless texts are refused, a success always comes with a node *)
Theorem jdoc_has_root : forall js rng b p st, jdoc true js rng b = Ok (JAt p, st) -> j_nodes st <> 0.
Proof.
  intros js rng b p st H. unfold jdoc in H. destruct (jparse js rng b) as [[o s1]| |]; try discriminate. cbn [tbind fst snd] in H.
  destruct o; [discriminate|]. cbn [andb] in H. destruct (j_nodes s1 =? 0) eqn:X; [discriminate|].
  inversion H; subst. apply Z.eqb_neq in X. exact X.
Qed.
(* the code as it is: a lone closing bracket is a success without any node *)
Theorem jdoc_rootless_refuted : exists s, nz s /\ jdoc false false (fun _ => false) (s ++ [0]) = Ok (JAt 0, mkJ 0 (-1) 0).
Proof. exists [93]. split; [repeat constructor; discriminate|vm_compute; reflexivity]. Qed.

(* the tree as it is (T1: Facts.fact_json_rejects_rootless, observed by running jbn_from_json on a lone closing bracket) *)
Lemma json_rejects_rootless_now : fact_json_rejects_rootless = true. Proof. reflexivity. Qed.
Theorem jdoc_current_has_root : forall js rng b p st, jdoc_current js rng b = Ok (JAt p, st) -> j_nodes st <> 0.
Proof. unfold jdoc_current. rewrite json_rejects_rootless_now. exact jdoc_has_root. Qed.
Theorem jdoc_current_total : forall js rng s, nz s -> exists out st, jdoc_current js rng (s ++ [0]) = Ok (out, st).
Proof. intros. apply jdoc_total. assumption. Qed.
