(* C17: totality of the regex matcher (Re.v: vm_add / vm_step / vm_loop / vm_run / re_match) on every program that
   iwre_create hands out and EVERY subject text: no fetch outside the program, no abort(), termination within the fuel
   (vm_add: every call first marks a program counter that was not marked; the outer loop: one round per text byte). *)
Require Import ZArith List Bool Lia. Import ListNotations.
Require Import IW.SAFE.Buf IW.SAFE.Buf_proofs IW.SAFE.Re IW.SAFE.Re_proofs IW.SAFE.Re_total_proofs IW.Gen.Facts.
Local Open Scope Z_scope. Local Open Scope bool_scope.

Ltac stp := cbn [rbind fst snd].

(* ---- A. where the jumps of a compiled fragment go *)
Definition jump_ok (lo hi : Z) (i : instr) : Prop :=
  match i with
  | ISplit a b => lo <= a <= hi /\ lo <= b <= hi
  | IJmp t => lo <= t <= hi
  | IMatch => False                      (* compile_context never emits MATCH: it is appended once, at the end *)
  | _ => True
  end.
Definition jumps (lo hi : Z) (code : list instr) : Prop := forall i, In i code -> jump_ok lo hi i.

Lemma jumps_nil : forall lo hi, jumps lo hi []. Proof. intros lo hi i []. Qed.
Lemma jumps_app : forall lo hi a b, jumps lo hi a -> jumps lo hi b -> jumps lo hi (a ++ b).
Proof. intros lo hi a b A B i H. apply in_app_or in H. destruct H; auto. Qed.
Lemma jumps_cons : forall lo hi i l, jump_ok lo hi i -> jumps lo hi l -> jumps lo hi (i :: l).
Proof. intros lo hi i l A B j [H|H]; [subst; auto|auto]. Qed.
Lemma jump_ok_mono : forall lo hi lo' hi' i, lo' <= lo -> hi <= hi' -> jump_ok lo hi i -> jump_ok lo' hi' i.
Proof. intros lo hi lo' hi' i A B H. destruct i; simpl in *; auto; lia. Qed.
Lemma jumps_mono : forall lo hi lo' hi' l, lo' <= lo -> hi <= hi' -> jumps lo hi l -> jumps lo' hi' l.
Proof. intros lo hi lo' hi' l A B H i Hi. eapply jump_ok_mono; eauto. Qed.
Lemma swap_if_ok : forall lo hi b x y, lo <= x <= hi -> lo <= y <= hi -> jump_ok lo hi (swap_if b x y).
Proof. intros lo hi b x y A B. destruct b; simpl; auto. Qed.

Lemma ilen_nonneg : forall l, 0 <= ilen l. Proof. intros. unfold ilen. lia. Qed.

Definition cqj (cq : Z -> res (list instr * Z)) : Prop :=
  forall p a, cq p = Ok a -> jumps p (p + ilen (fst a)) (fst a).

Lemma rep_min_jumps : forall cq, cqj cq -> forall k p last nc r, rep_min cq k p last nc = Ok r ->
  jumps p (p + ilen (fst (fst r))) (fst (fst r)) /\
  (k = O -> snd (fst r) = last) /\ ((0 < k)%nat -> p <= snd (fst r) <= p + ilen (fst (fst r))).
Proof.
  intros cq H. induction k as [|k IH]; intros p last nc r R; simpl in R.
  - inversion R; subst. simpl. split; [apply jumps_nil|]. split; [auto|lia].
  - destruct (cq p) as [a| |] eqn:Ea; try discriminate. cbn [rbind] in R.
    destruct (rep_min cq k (p + ilen (fst a)) p (snd a)) as [b0| |] eqn:Eb; try discriminate. cbn [rbind] in R.
    inversion R; subst. cbn [fst snd]. rewrite ilen_app. pose proof (ilen_nonneg (fst a)). pose proof (ilen_nonneg (fst (fst b0))).
    destruct (IH _ _ _ _ Eb) as (J & K0 & K1). split; [|split; [discriminate|]].
    + apply jumps_app; [eapply jumps_mono; [| |apply (H _ _ Ea)]; lia|eapply jumps_mono; [| |exact J]; lia].
    + intros _. destruct k as [|k']; [rewrite K0 by reflexivity; lia|]. specialize (K1 ltac:(lia)). lia.
Qed.

Lemma rep_opt_jumps : forall cq lazy, cqj cq -> forall k p nc r, rep_opt cq lazy k p nc = Ok r ->
  jumps p (p + ilen (fst r)) (fst r).
Proof.
  intros cq lazy H. induction k as [|k IH]; intros p nc r R; simpl in R.
  - inversion R; subst. simpl. apply jumps_nil.
  - destruct (cq (p + 1)) as [a| |] eqn:Ea; try discriminate. cbn [rbind] in R.
    destruct (rep_opt cq lazy k (p + 1 + ilen (fst a)) (snd a)) as [b0| |] eqn:Eb; try discriminate. cbn [rbind] in R.
    inversion R; subst. cbn [fst]. rewrite ilen_cons, ilen_app. pose proof (ilen_nonneg (fst a)). pose proof (ilen_nonneg (fst b0)).
    apply jumps_cons; [apply swap_if_ok; lia|].
    apply jumps_app; [eapply jumps_mono; [| |apply (H _ _ Ea)]; lia|eapply jumps_mono; [| |apply (IH _ _ _ Eb)]; lia].
Qed.

Lemma comp_jumps : forall n, WF n -> forall pc ncap a, comp n pc ncap = Ok a -> jumps pc (pc + ilen (fst a)) (fst a).
Proof.
  induction n as [| | |neg from|l IHl r IHr|l IHl r IHr|mn mx g q IHq| | |c IHc]; intros W pc ncap a R; cbn [comp] in R;
    try (match type of R with Ok _ = Ok _ => inversion R; subst; cbn [fst]; intros i [Hi|[]]; subst; exact I end).
  - inversion R; subst. apply jumps_nil.
  - destruct (cls_set _ _ _) as [set| |]; try discriminate. cbn [rbind] in R. inversion R; subst. intros i [Hi|[]]; subst; exact I.
  - destruct W as [Wl Wr]. destruct (comp l pc ncap) as [x| |] eqn:Ex; try discriminate. cbn [rbind] in R.
    destruct (comp r _ _) as [y| |] eqn:Ey; try discriminate. cbn [rbind] in R. inversion R; subst. cbn [fst].
    rewrite ilen_app. pose proof (ilen_nonneg (fst x)). pose proof (ilen_nonneg (fst y)).
    apply jumps_app; [eapply jumps_mono; [| |apply (IHl Wl _ _ _ Ex)]; lia|eapply jumps_mono; [| |apply (IHr Wr _ _ _ Ey)]; lia].
  - destruct W as [Wl Wr]. destruct (comp l (pc + 1) ncap) as [x| |] eqn:Ex; try discriminate. cbn [rbind] in R.
    destruct (comp r _ _) as [y| |] eqn:Ey; try discriminate. cbn [rbind] in R. inversion R; subst. cbn [fst].
    rewrite ilen_cons, ilen_app, ilen_cons. pose proof (ilen_nonneg (fst x)). pose proof (ilen_nonneg (fst y)).
    apply jumps_cons; [cbn [jump_ok]; lia|]. apply jumps_app; [eapply jumps_mono; [| |apply (IHl Wl _ _ _ Ex)]; lia|].
    apply jumps_cons; [cbn [jump_ok]; lia|]. eapply jumps_mono; [| |apply (IHr Wr _ _ _ Ey)]; lia.
  - destruct W as [Mn Wq].
    assert (CQ : cqj (fun p => comp q p ncap)) by (intros p x Hx; eapply IHq; eauto).
    destruct (rep_min _ _ _ _ _) as [m| |] eqn:Em; try discriminate. cbn [rbind] in R.
    destruct (rep_min_jumps _ CQ _ _ _ _ _ Em) as (Jm & K0 & K1). pose proof (ilen_nonneg (fst (fst m))) as Nm.
    destruct (mx >? mn).
    + destruct (rep_opt _ _ _ _ _) as [o| |] eqn:Eo; try discriminate. cbn [rbind] in R. inversion R; subst. cbn [fst].
      rewrite ilen_app. pose proof (ilen_nonneg (fst o)).
      apply jumps_app; [eapply jumps_mono; [| |exact Jm]; lia|eapply jumps_mono; [| |apply (rep_opt_jumps _ _ CQ _ _ _ _ Eo)]; lia].
    + destruct (mx =? -1).
      * destruct (mn =? 0) eqn:M0.
        -- destruct (comp q _ ncap) as [x| |] eqn:Ex; try discriminate. cbn [rbind] in R. inversion R; subst. cbn [fst].
           rewrite ilen_app, ilen_cons, ilen_app, ilen_cons, ilen_nil. pose proof (ilen_nonneg (fst x)).
           apply jumps_app; [eapply jumps_mono; [| |exact Jm]; lia|].
           apply jumps_cons; [apply swap_if_ok; lia|].
           apply jumps_app; [eapply jumps_mono; [| |apply (CQ _ _ Ex)]; lia|].
           apply jumps_cons; [cbn [jump_ok]; lia|apply jumps_nil].
        -- apply Z.eqb_neq in M0. assert (Kp : (0 < Z.to_nat mn)%nat) by lia. specialize (K1 Kp).
           inversion R; subst. cbn [fst]. rewrite ilen_app, ilen_cons, ilen_nil.
           apply jumps_app; [eapply jumps_mono; [| |exact Jm]; lia|].
           apply jumps_cons; [apply swap_if_ok; lia|apply jumps_nil].
      * inversion R; subst. cbn [fst]. exact Jm.
  - destruct (comp c (pc + 1) (ncap + 1)) as [x| |] eqn:Ex; try discriminate. cbn [rbind] in R. inversion R; subst. cbn [fst].
    rewrite ilen_cons, ilen_app, ilen_cons, ilen_nil. pose proof (ilen_nonneg (fst x)).
    apply jumps_cons; [exact I|]. apply jumps_app; [eapply jumps_mono; [| |apply (IHc W _ _ _ Ex)]; lia|].
    apply jumps_cons; [exact I|apply jumps_nil].
Qed.

(* ---- B. the program as the VM sees it *)
Lemma key_inj : forall a b, 0 <= a -> 0 <= b -> key a = key b -> a = b.
Proof. intros a b A B H. unfold key in H. apply (f_equal Z.pos) in H. rewrite !Z2Pos.id in H by lia. lia. Qed.

Lemma fetch_load_nth : forall code pc0 t pc, 0 <= pc0 ->
  fetch (load code pc0 t) pc =
    if (pc0 <=? pc) && (pc <? pc0 + ilen code) then nth_error code (Z.to_nat (pc - pc0)) else fetch t pc.
Proof.
  induction code as [|i r IH]; intros pc0 t pc P; cbn [load].
  - rewrite ilen_nil. destruct ((pc0 <=? pc) && (pc <? pc0 + 0)) eqn:G; [|reflexivity].
    apply andb_true_iff in G. destruct G as [G1 G2]. apply Z.leb_le in G1. apply Z.ltb_lt in G2. lia.
  - rewrite IH by lia. rewrite ilen_cons. pose proof (ilen_nonneg r) as Nr.
    destruct ((pc0 + 1 <=? pc) && (pc <? pc0 + 1 + ilen r)) eqn:G.
    + apply andb_true_iff in G. destruct G as [G1 G2]. apply Z.leb_le in G1. apply Z.ltb_lt in G2.
      assert (G' : (pc0 <=? pc) && (pc <? pc0 + (1 + ilen r)) = true) by (apply andb_true_iff; split; [apply Z.leb_le|apply Z.ltb_lt]; lia).
      rewrite G'. replace (Z.to_nat (pc - pc0)) with (S (Z.to_nat (pc - (pc0 + 1)))) by lia. reflexivity.
    + unfold fetch at 1. destruct (pc <? 0) eqn:N.
      * apply Z.ltb_lt in N. assert (G' : (pc0 <=? pc) && (pc <? pc0 + (1 + ilen r)) = false).
        { apply andb_false_iff. left. apply Z.leb_gt. lia. }
        rewrite G'. unfold fetch. rewrite (proj2 (Z.ltb_lt _ _) N). reflexivity.
      * apply Z.ltb_ge in N. destruct (Z.eq_dec pc pc0) as [->|Ne].
        -- rewrite pget_pput_same. assert (G' : (pc0 <=? pc0) && (pc0 <? pc0 + (1 + ilen r)) = true).
           { apply andb_true_iff; split; [apply Z.leb_le|apply Z.ltb_lt]; lia. }
           rewrite G'. replace (pc0 - pc0) with 0 by lia. reflexivity.
        -- rewrite pget_pput_other by (intro K; apply Ne; symmetry; apply key_inj; auto).
           assert (G' : (pc0 <=? pc) && (pc <? pc0 + (1 + ilen r)) = false).
           { apply andb_false_iff in G. apply andb_false_iff. destruct G as [G|G]; [left; apply Z.leb_gt; apply Z.leb_gt in G; lia|right; apply Z.ltb_ge; apply Z.ltb_ge in G; lia]. }
           rewrite G'. unfold fetch. rewrite (proj2 (Z.ltb_ge _ _) N). reflexivity.
Qed.

Lemma fetch_prog : forall code pc, fetch (load code 0 PL) pc =
  if (0 <=? pc) && (pc <? ilen code) then nth_error code (Z.to_nat pc) else None.
Proof.
  intros code pc. rewrite fetch_load_nth by lia. replace (pc - 0) with pc by lia. replace (0 + ilen code) with (ilen code) by lia.
  destruct ((0 <=? pc) && (pc <? ilen code)); [reflexivity|]. unfold fetch. destruct (pc <? 0); [reflexivity|apply pget_PL].
Qed.

(* what the VM needs of a program of N instructions *)
Definition succ_in (N pc : Z) (i : instr) : Prop :=
  match i with
  | IMatch => True
  | ISplit a b => 0 <= a < N /\ 0 <= b < N
  | IJmp t => 0 <= t < N
  | _ => pc + 1 < N
  end.
Record pwf (prog : ptree instr) (N : Z) : Prop := mkP {
  p_in : forall pc i, fetch prog pc = Some i -> 0 <= pc < N;
  p_all : forall pc, 0 <= pc < N -> exists i, fetch prog pc = Some i;
  p_succ : forall pc i, fetch prog pc = Some i -> succ_in N pc i }.

Lemma pwf_compiled : forall body, jumps 0 (ilen body) body -> pwf (load (body ++ [IMatch]) 0 PL) (ilen body + 1).
Proof.
  intros body J. pose proof (ilen_nonneg body) as Nb.
  assert (LN : ilen (body ++ [IMatch]) = ilen body + 1) by (rewrite ilen_app, ilen_cons, ilen_nil; lia).
  split.
  - intros pc i H. rewrite fetch_prog, LN in H. destruct ((0 <=? pc) && (pc <? ilen body + 1)) eqn:G; [|discriminate].
    apply andb_true_iff in G. destruct G as [G1 G2]. apply Z.leb_le in G1. apply Z.ltb_lt in G2. lia.
  - intros pc R. rewrite fetch_prog, LN.
    assert (G : (0 <=? pc) && (pc <? ilen body + 1) = true) by (apply andb_true_iff; split; [apply Z.leb_le|apply Z.ltb_lt]; lia).
    rewrite G. destruct (nth_error (body ++ [IMatch]) (Z.to_nat pc)) as [i|] eqn:E; [eauto|].
    apply nth_error_None in E. rewrite app_length in E. simpl in E. unfold ilen in R. lia.
  - intros pc i H. rewrite fetch_prog, LN in H. destruct ((0 <=? pc) && (pc <? ilen body + 1)) eqn:G; [|discriminate].
    apply andb_true_iff in G. destruct G as [G1 G2]. apply Z.leb_le in G1. apply Z.ltb_lt in G2.
    destruct (Z_lt_ge_dec pc (ilen body)) as [Lt|Ge].
    + rewrite nth_error_app1 in H by (unfold ilen in Lt; lia). apply nth_error_In in H. specialize (J i H).
      destruct i; simpl in *; try lia; contradiction.
    + assert (pc = ilen body) by lia. subst pc. rewrite nth_error_app2 in H by (unfold ilen; lia).
      unfold ilen in H. rewrite Nat2Z.id, Nat.sub_diag in H. simpl in H. inversion H; subst. exact I.
Qed.

(* ---- C. the VM on a well-formed program *)
Section VM.
Variable prog : ptree instr.
Variable N : Z.
Hypothesis PW : pwf prog N.
Variables tlen nm : Z.

Definition unmarked (v : ptree unit) (k : nat) : bool := match pget (key (Z.of_nat k)) v with None => true | Some _ => false end.
Definition unv (v : ptree unit) : nat := length (filter (unmarked v) (seq 0 (Z.to_nat N))).
Definition grows (v v' : ptree unit) : Prop := forall p, pget p v <> None -> pget p v' <> None.

Lemma filter_le : forall (f g : nat -> bool) l, (forall x, g x = true -> f x = true) -> (length (filter g l) <= length (filter f l))%nat.
Proof.
  intros f g l H. induction l as [|x r IH]; simpl; [lia|].
  destruct (g x) eqn:G; [rewrite (H x G); simpl; lia|destruct (f x); simpl; lia].
Qed.
Lemma filter_lt : forall (f g : nat -> bool) l x, (forall y, g y = true -> f y = true) -> In x l -> f x = true -> g x = false ->
  (length (filter g l) < length (filter f l))%nat.
Proof.
  intros f g l x H. induction l as [|y r IH]; intros I Fx Gx; [destruct I|]. simpl.
  destruct I as [->|I].
  - rewrite Fx, Gx. simpl. pose proof (filter_le f g r H). lia.
  - specialize (IH I Fx Gx). destruct (g y) eqn:G; [rewrite (H y G); simpl; lia|destruct (f y); simpl; lia].
Qed.

Lemma unv_grows : forall v v', grows v v' -> (unv v' <= unv v)%nat.
Proof.
  intros v v' G. unfold unv. apply filter_le. intros k H. unfold unmarked in *.
  destruct (pget (key (Z.of_nat k)) v) eqn:E; [|reflexivity].
  exfalso. assert (X : pget (key (Z.of_nat k)) v' <> None) by (apply G; congruence).
  destruct (pget (key (Z.of_nat k)) v'); [discriminate|contradiction].
Qed.
Lemma filter_len : forall (f : nat -> bool) l, (length (filter f l) <= length l)%nat.
Proof. intros f l. induction l as [|x r IH]; simpl; [lia|]. destruct (f x); simpl; lia. Qed.
Lemma unv_le_N : forall v, (unv v <= Z.to_nat N)%nat.
Proof. intros v. unfold unv. rewrite <- (seq_length (Z.to_nat N) 0) at 2. apply filter_len. Qed.

Lemma grows_refl : forall v, grows v v. Proof. intros v p H. exact H. Qed.
Lemma grows_trans : forall a b c, grows a b -> grows b c -> grows a c. Proof. intros a b c A B p H. auto. Qed.
Lemma grows_mark : forall v pc, grows v (pput (key pc) tt v).
Proof.
  intros v pc p H. destruct (Pos.eq_dec (key pc) p) as [<-|Ne]; [rewrite pget_pput_same; discriminate|].
  rewrite pget_pput_other by exact Ne. exact H.
Qed.
Lemma unv_mark : forall v pc, 0 <= pc < N -> pget (key pc) v = None -> (unv (pput (key pc) tt v) < unv v)%nat.
Proof.
  intros v pc R H. unfold unv. apply (filter_lt _ _ _ (Z.to_nat pc)).
  - intros k G. unfold unmarked in *. destruct (pget (key (Z.of_nat k)) v) eqn:E; [|reflexivity].
    exfalso. assert (X : pget (key (Z.of_nat k)) (pput (key pc) tt v) <> None) by (apply grows_mark; congruence).
    destruct (pget (key (Z.of_nat k)) (pput (key pc) tt v)); [discriminate|contradiction].
  - apply in_seq. lia.
  - unfold unmarked. rewrite Z2Nat.id by lia. rewrite H. reflexivity.
  - unfold unmarked. rewrite Z2Nat.id by lia. rewrite pget_pput_same. reflexivity.
Qed.

Definition consuming (i : instr) : bool := match i with IMatch | IChr _ | IAny | ICls _ _ => true | _ => false end.
Definition entry_ok (e : Z * list cell) : Prop := exists i, fetch prog (fst e) = Some i /\ consuming i = true.
Definition entries_ok (l : list (Z * list cell)) : Prop := Forall entry_ok l.

Lemma vm_add_ok : forall fuel st pc sp m, 0 <= pc < N -> (unv (visited st) < fuel)%nat -> entries_ok (entries st) ->
  exists st', vm_add fuel prog tlen nm st pc sp m = Ok st' /\ grows (visited st) (visited st') /\ entries_ok (entries st').
Proof.
  induction fuel as [|f IH]; intros st pc sp m R F EO; [lia|].
  rewrite vm_add_eq. destruct (pget (key pc) (visited st)) eqn:V.
  { exists st. split; auto. split; [apply grows_refl|auto]. }
  cbv zeta. cbn [visited entries].
  pose proof (unv_mark (visited st) pc R V) as UM. pose proof (grows_mark (visited st) pc) as GM.
  set (st1 := mkT (pput (key pc) tt (visited st)) (entries st)) in *.
  assert (F1 : (unv (visited st1) < f)%nat) by (unfold st1; cbn [visited]; lia).
  assert (EO1 : entries_ok (entries st1)) by exact EO.
  destruct (p_all _ _ PW pc R) as [i Ei]. rewrite Ei. pose proof (p_succ _ _ PW pc i Ei) as SU.
  assert (GO : forall pc' m', 0 <= pc' < N -> exists st', vm_add f prog tlen nm st1 pc' sp m' = Ok st' /\
            grows (visited st) (visited st') /\ entries_ok (entries st')).
  { intros pc' m' R'. destruct (IH st1 pc' sp m' R' F1 EO1) as (st' & E & G & O). exists st'. split; auto. split; auto.
    eapply grows_trans; [exact GM|exact G]. }
  assert (STOP : exists st', Ok st1 = Ok st' /\ grows (visited st) (visited st') /\ entries_ok (entries st')).
  { exists st1. split; auto. }
  assert (KEEP : consuming i = true -> exists st', Ok (mkT (pput (key pc) tt (visited st)) ((pc, m) :: entries st)) = Ok st' /\
            grows (visited st) (visited st') /\ entries_ok (entries st') ).
  { intros Ci. eexists. split; [reflexivity|]. split; [exact GM|]. cbn [entries]. constructor; auto. exists i. split; auto. }
  destruct i; simpl in SU.
  - apply KEEP; reflexivity.
  - apply KEEP; reflexivity.
  - apply KEEP; reflexivity.
  - apply KEEP; reflexivity.
  - destruct SU as [Ra Rb]. destruct (IH st1 a sp m Ra F1 EO1) as (s2 & E2 & G2 & O2). rewrite E2. stp.
    assert (F2 : (unv (visited s2) < f)%nat) by (pose proof (unv_grows _ _ G2); lia).
    destruct (IH s2 b sp m Rb F2 O2) as (s3 & E3 & G3 & O3). exists s3. split; auto. split; auto.
    eapply grows_trans; [exact GM|]. eapply grows_trans; [exact G2|exact G3].
  - apply GO. exact SU.
  - destruct (sp =? 0); [apply GO; lia|exact STOP].
  - destruct (sp =? tlen); [apply GO; lia|exact STOP].
  - destruct ((k <? nm) && (k <? re_max_matches)); apply GO; lia.
Qed.

Variable afuel : nat.
Hypothesis AF : (Z.to_nat N < afuel)%nat.

Lemma vm_step_ok : forall cur c sp nxt best, entries_ok cur -> entries_ok (entries nxt) ->
  exists r, vm_step afuel prog tlen nm cur c sp nxt best = Ok r /\ entries_ok (entries (fst r)).
Proof.
  induction cur as [|[pc m] r IH]; intros c sp nxt best EC EN; simpl vm_step.
  - eexists. split; [reflexivity|]. exact EN.
  - inversion EC as [|e0 l0 He Er]; subst. destruct He as [i [Ei Ci]]. cbn [fst] in Ei. rewrite Ei.
    pose proof (p_in _ _ PW pc i Ei) as Rp. pose proof (p_succ _ _ PW pc i Ei) as SU.
    assert (ADV : forall ok : bool, i <> IMatch -> exists r0 : tlist * option (list cell),
              (if ok then rbind (vm_add afuel prog tlen nm nxt (pc + 1) (sp + 1) m) (fun n2 => vm_step afuel prog tlen nm r c sp n2 best)
               else vm_step afuel prog tlen nm r c sp nxt best) = Ok r0 /\ entries_ok (entries (fst r0))).
    { intros ok NM. destruct ok; [|apply IH; auto].
      assert (R1 : 0 <= pc + 1 < N) by (destruct i; simpl in *; try discriminate; try lia; congruence).
      destruct (vm_add_ok afuel nxt (pc + 1) (sp + 1) m R1) as (n2 & E2 & _ & O2); auto.
      { pose proof (unv_le_N (visited nxt)). lia. }
      rewrite E2. stp. apply IH; auto. }
    destruct i; simpl in Ci; try discriminate.
    + eexists. split; [reflexivity|]. exact EN.
    + apply ADV. discriminate.
    + apply ADV. discriminate.
    + apply ADV. discriminate.
Qed.

Lemma entries_ok_rev : forall l, entries_ok l -> entries_ok (rev l).
Proof. intros l H. apply Forall_rev. exact H. Qed.

Lemma vm_loop_ok : forall fuel rest sp cur best, E rest -> (length rest <= fuel)%nat -> entries_ok cur ->
  exists r, vm_loop fuel afuel prog tlen nm rest sp cur best = Ok r.
Proof.
  induction fuel as [|f IH]; intros rest sp cur best He F EO.
  { destruct (E_pk rest He) as [c [_ Hs]]. rewrite Hs in F. simpl in F. lia. }
  rewrite vm_loop_eq. destruct (E_pk rest He) as [c [Hp Hs]]. rewrite Hp. stp.
  destruct (vm_step_ok cur c sp tempty best EO) as [r [Er Or]]; [constructor|]. rewrite Er. stp. cbv zeta.
  destruct (rev (entries (fst r))) as [|e l] eqn:Rv; [eauto|].
  destruct (c =? 0) eqn:C0; [eauto|]. apply Z.eqb_neq in C0.
  apply IH.
  - rewrite Hs in He. eapply E_tl; eauto.
  - rewrite Hs in F. simpl in F. lia.
  - rewrite <- Rv. apply entries_ok_rev. exact Or.
Qed.
End VM.

(* ---- D. iwre_match on whatever iwre_create hands out *)
Lemma re_create_pwf : forall pat code, Forall byte pat -> re_create pat = Ok (Some code) ->
  pwf (load code 0 PL) (ilen code) /\ 1 <= ilen code.
Proof.
  intros pat code Hb R. unfold re_create in R. destruct pat as [|c r]; [discriminate|].
  destruct (re_parse_total (c :: r) Hb) as [p [Ep Wp]]. rewrite Ep in R. cbn [rbind] in R.
  destruct p as [root|]; [|discriminate]. unfold re_compile in R.
  destruct ((0 <=? re_max_instructions) && _); [discriminate|].
  set (r2 := if anchored (NCap root) then NCap root else NCat (NQuant 0 (-1) false NAny) (NCap root)) in *.
  assert (W2 : WF r2) by (unfold r2; destruct (anchored (NCap root)); simpl; auto; repeat split; auto; lia).
  destruct (comp r2 0 0) as [a| |] eqn:Ea; try discriminate. cbn [rbind] in R. inversion R; subst code.
  rewrite ilen_app, ilen_cons, ilen_nil. pose proof (ilen_nonneg (fst a)). split; [|lia].
  apply pwf_compiled. apply (comp_jumps r2 W2 0 0 a Ea).
Qed.

Theorem vm_run_total : forall code text arr nm, pwf (load code 0 PL) (ilen code) -> 1 <= ilen code ->
  exists r, vm_run code text arr nm = Ok r.
Proof.
  intros code text arr nm PW Z0. unfold vm_run.
  assert (AF : (Z.to_nat (ilen code) < S (S (length code)))%nat) by (unfold ilen; lia).
  destruct (vm_add_ok _ _ PW (zlen text) nm (S (S (length code))) tempty 0 0 (firstn (Z.to_nat (Z.min nm re_max_matches)) arr)) as (st0 & E0 & _ & O0);
    [lia| |constructor|].
  { pose proof (unv_le_N (ilen code) PL). simpl in *. lia. }
  rewrite E0. stp.
  destruct (vm_loop_ok _ _ PW (zlen text) nm _ AF (S (length text)) (text ++ [0]) 0 (rev (entries st0)) None) as [best Eb].
  - apply E_app0.
  - rewrite length_app0. lia.
  - apply entries_ok_rev. exact O0.
  - rewrite Eb. stp. destruct best; eauto.
Qed.

Theorem re_match_total : forall pat code text prior, Forall byte pat -> re_create pat = Ok (Some code) ->
  exists r, re_match code text prior = Ok r.
Proof.
  intros pat code text prior Hb R. destruct (re_create_pwf pat code Hb R) as [PW Z0]. unfold re_match.
  destruct (Z.odd (Z.of_nat (length prior))); [eauto|].
  destruct (vm_run_total code text (map (fun _ => CNull) prior) (Z.of_nat (length prior)) PW Z0) as [r Er]. rewrite Er. stp.
  destruct (fst r); eauto.
Qed.

(* iwre_create + iwre_match: no Oob, no Fuel - for every pattern, every subject text, every array length *)
Theorem re_query_total : forall pat text len, Forall byte pat -> exists r, re_query pat text len = Ok r.
Proof.
  intros pat text len Hb. unfold re_query. destruct (re_create_total pat Hb) as [p Ep]. rewrite Ep. stp.
  destruct p as [code|]; [|eauto].
  destruct (re_match_total pat code text (repeat CNull (Z.to_nat len)) Hb Ep) as [r Er]. rewrite Er. stp. eauto.
Qed.
Theorem re_query_prior_total : forall pat text prior, Forall byte pat -> exists r, re_query_prior pat text prior = Ok r.
Proof.
  intros pat text prior Hb. unfold re_query_prior. destruct (re_create_total pat Hb) as [p Ep]. rewrite Ep. stp.
  destruct p as [code|]; [|eauto].
  destruct (re_match_total pat code text prior Hb Ep) as [r Er]. rewrite Er. stp. eauto.
Qed.
