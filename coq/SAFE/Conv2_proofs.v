(* proofs about SAFE/Conv2.v *)
Require Import ZArith List Bool Lia. Require Import IW.Lib.CInt IW.SAFE.Buf IW.SAFE.Buf_proofs IW.SAFE.Conv2 IW.Gen.Facts.
Import ListNotations. Local Open Scope Z_scope. Local Open Scope bool_scope.
Ltac Zify.zify_post_hook ::= Z.div_mod_to_equations.

Lemma hex2bin_loop_S : forall f hex out max pos vpos, hex2bin_loop (S f) hex out max pos vpos =
    if pos <? zlen hex then
      let first := (pos =? 0) && Z.odd (zlen hex) in
      match (if first then Some 48 else rd hex pos) with
      | None => Oob pos
      | Some i0 =>
        let i1pos := if first then 0 else pos + 1 in
        match rd hex i1pos with
        | None => Oob i1pos
        | Some i1 =>
          let v := uw 8 (Z.lor (uw 8 (Z.shiftl (a2h i0) 4)) (a2h i1)) in
          match wro out vpos v with
          | None => Oob vpos
          | Some o => if vpos + 1 >=? max then Ok (vpos + 1, o)
                      else hex2bin_loop f hex o max (if first then pos + 1 else pos + 2) (vpos + 1)
          end
        end
      end
    else Ok (vpos, out).
Proof. reflexivity. Qed.

Lemma hex2bin_loop_ok : forall fuel hex out max pos vpos,
  0 <= pos <= zlen hex -> (pos = 0 \/ (zlen hex - pos) mod 2 = 0) -> 0 <= vpos < max -> olen out = max ->
  (Z.to_nat (zlen hex - pos) < fuel)%nat ->
  exists r, hex2bin_loop fuel hex out max pos vpos = Ok r.
Proof.
  induction fuel as [|f IH]; intros hex out max pos vpos R Par V OL F; [lia|].
  rewrite hex2bin_loop_S. destruct (pos <? zlen hex) eqn:Lt; [|eauto]. apply Z.ltb_lt in Lt.
  pose proof (Zmod_odd (zlen hex)) as Od.
  destruct ((pos =? 0) && Z.odd (zlen hex)) eqn:First; cbv zeta.
  - apply andb_true_iff in First. destruct First as [P0 O1]. apply Z.eqb_eq in P0. subst pos. rewrite O1 in Od.
    destruct (rd_in_some hex 0) as [c1 E1]; [lia|]. rewrite E1.
    destruct (wro_some out vpos (uw 8 (Z.lor (uw 8 (Z.shiftl (a2h 48) 4)) (a2h c1)))) as [o W]; [lia|]. rewrite W.
    destruct (vpos + 1 >=? max) eqn:Ge; [eauto|]. rewrite Z.geb_leb in Ge. apply Z.leb_gt in Ge.
    pose proof (wro_spec _ _ _ _ W) as (_ & OL' & _ & _).
    apply IH; lia.
  - assert (Pe : (zlen hex - pos) mod 2 = 0).
    { apply andb_false_iff in First. destruct Par as [P0|Pe]; [|exact Pe].
      subst pos. destruct First as [Ff|Ff]; [discriminate|]. rewrite Ff in Od. lia. }
    assert (P2 : pos + 1 < zlen hex) by lia.
    destruct (rd_in_some hex pos) as [c0 E0]; [lia|]. rewrite E0.
    destruct (rd_in_some hex (pos + 1)) as [c1 E1]; [lia|]. rewrite E1.
    destruct (wro_some out vpos (uw 8 (Z.lor (uw 8 (Z.shiftl (a2h c0) 4)) (a2h c1)))) as [o W]; [lia|]. rewrite W.
    destruct (vpos + 1 >=? max) eqn:Ge; [eauto|]. rewrite Z.geb_leb in Ge. apply Z.leb_gt in Ge.
    pose proof (wro_spec _ _ _ _ W) as (_ & OL' & _ & _).
    apply IH; lia.
Qed.

(* no access outside hex[0, hexlen) / out[0, max), termination within hexlen + 1 iterations *)
Theorem hex2bin_safe : forall checked hex out max, olen out = Z.max max 0 -> checked = true \/ 1 <= max ->
  exists r, hex2bin checked hex out max = Ok r.
Proof.
  intros checked hex out max OL G. unfold hex2bin.
  destruct (checked && ((zlen hex <? 1) || (max <? 1))) eqn:C; [eauto|].
  assert (M : 1 <= max).
  { destruct G as [->|G]; [|exact G]. simpl in C. apply orb_false_iff in C. destruct C as [_ C]. apply Z.ltb_ge in C. exact C. }
  apply hex2bin_loop_ok; try lia. pose proof (zlen_nonneg hex). lia. unfold zlen. lia.
Qed.

Theorem hex2bin_refuted : exists hex out max, olen out = Z.max max 0 /\ hex2bin false hex out max = Oob 0.
Proof. exists [98], [], 0. split; reflexivity. Qed.

(* ---- iwatoi2 *)
Lemma atoi2_ws_S : forall f b i, atoi2_ws (S f) b i =
    if i <? zlen b then
      match rd b i with None => Oob i | Some c => if (1 <=? c) && (c <=? 32) then atoi2_ws f b (i + 1) else Ok i end
    else Ok i.
Proof. reflexivity. Qed.

Lemma atoi2_digits_S : forall wrap f b i num, atoi2_digits wrap (S f) b i num =
    if i <? zlen b then
      match rd b i with
      | None => Oob i
      | Some c =>
        if c =? 0 then Ok (AVal num)
        else if (c <? 48) || (c >? 57) then Ok (AVal num)
        else if wrap then atoi2_digits wrap f b (i + 1) (uw 64 (num * 10 + (c - 48)))
        else if fits64 (num * 10) && fits64 (num * 10 + c) then atoi2_digits wrap f b (i + 1) (num * 10 + c - 48)
        else Ok AUB
      end
    else Ok (AVal num).
Proof. reflexivity. Qed.

Lemma atoi2_ws_ok : forall fuel b i, 0 <= i <= zlen b -> (Z.to_nat (zlen b - i) < fuel)%nat ->
  exists i', atoi2_ws fuel b i = Ok i' /\ i <= i' <= zlen b.
Proof.
  induction fuel as [|f IH]; intros b i R F; [lia|].
  rewrite atoi2_ws_S. destruct (i <? zlen b) eqn:Lt; [|exists i; split; [reflexivity|lia]]. apply Z.ltb_lt in Lt.
  destruct (rd_in_some b i) as [c E]; [lia|]. rewrite E.
  destruct ((1 <=? c) && (c <=? 32)); [|exists i; split; [reflexivity|lia]].
  destruct (IH b (i + 1)) as [i' [H1 H2]]; try lia. exists i'. split; [exact H1|lia].
Qed.

Lemma atoi2_digits_ok : forall wrap fuel b i num, 0 <= i <= zlen b -> (Z.to_nat (zlen b - i) < fuel)%nat ->
  exists r, atoi2_digits wrap fuel b i num = Ok r.
Proof.
  induction fuel as [|f IH]; intros b i num R F; [lia|].
  rewrite atoi2_digits_S. destruct (i <? zlen b) eqn:Lt; [|eauto]. apply Z.ltb_lt in Lt.
  destruct (rd_in_some b i) as [c E]; [lia|]. rewrite E.
  destruct (c =? 0); [eauto|]. destruct ((c <? 48) || (c >? 57)); [eauto|].
  destruct wrap; [apply IH; lia|].
  destruct (fits64 (num * 10) && fits64 (num * 10 + c)); [apply IH; lia|eauto].
Qed.

Lemma bounded_inf_ok : forall b i, 0 <= i -> exists r, bounded_inf b i = Ok r.
Proof.
  intros b i I. unfold bounded_inf. destruct (zlen b - i >=? 3) eqn:G3; [|eauto].
  rewrite Z.geb_leb in G3. apply Z.leb_le in G3.
  destruct (rd_in_some b i) as [c0 E0]; [lia|]. destruct (rd_in_some b (i + 1)) as [c1 E1]; [lia|].
  destruct (rd_in_some b (i + 2)) as [c2 E2]; [lia|]. rewrite E0, E1, E2.
  destruct ((c0 =? 105) && (c1 =? 110) && (c2 =? 102)); [|eauto].
  destruct (zlen b - i =? 3) eqn:E3; [eauto|]. apply Z.eqb_neq in E3.
  destruct (rd_in_some b (i + 3)) as [c3 E4]; [lia|]. rewrite E4. eauto.
Qed.

Lemma atoi2_tail_ok : forall bounded b i (sign : Z) (c : res bool), 0 <= i <= zlen b ->
  (exists r, c = Ok r) ->
  exists r, match c with
      | Fuel => Fuel | Oob x => Oob x
      | Ok true => Ok (AVal ((2 ^ 63 - 1) * sign))
      | Ok false =>
        match atoi2_digits bounded (S (length b)) b i 0 with
        | Ok (AVal num) => Ok (AVal (if bounded then sw 64 (if sign <? 0 then uw 64 (0 - num) else num) else num * sign))
        | r => r
        end
      end = Ok r.
Proof.
  intros bounded b i sign c R [r ->]. destruct r; [eauto|].
  destruct (atoi2_digits_ok bounded (S (length b)) b i 0) as [r Hr]; [lia|unfold zlen; lia|].
  rewrite Hr. destruct r; eauto.
Qed.

(* the length delimited entry point never looks at str[len], whatever the bytes are *)
Theorem atoi2_safe : forall b, exists r, atoi2 true b = Ok r.
Proof.
  intros b. unfold atoi2. pose proof (zlen_nonneg b) as ZN.
  destruct (atoi2_ws_ok (S (length b)) b 0) as [i [H1 H2]]; [lia|unfold zlen; lia|]. rewrite H1.
  destruct (zlen b - i =? 0) eqn:E0; [eauto|]. apply Z.eqb_neq in E0.
  destruct (rd_in_some b i) as [c E]; [lia|]. rewrite E.
  destruct (c =? 45); [|destruct (c =? 43)]; cbv beta iota zeta;
    (apply atoi2_tail_ok; [lia|apply bounded_inf_ok; lia]).
Qed.

(* the old code: safe only when the caller's buffer happens to contain a 0 byte before its end *)
Lemma strcmp_lit_ok : forall s lit i, nz s -> Forall (fun x => x <> 0) lit -> 0 <= i <= zlen s ->
  exists r, strcmp_lit (s ++ [0]) i lit = Ok r.
Proof.
  intros s lit. induction lit as [|x r IH]; intros i Hnz Hl R; simpl.
  - destruct (rd_term s i Hnz R) as [c [E _]]. rewrite E. eauto.
  - destruct (rd_term s i Hnz R) as [c [E Z0]]. rewrite E.
    destruct (c =? x) eqn:Cx; [|eauto]. apply Z.eqb_eq in Cx. subst c. inversion Hl as [|? ? X0 Hr]; subst.
    apply IH; auto. assert (i <> zlen s) by (intro; apply X0; apply Z0; auto). lia.
Qed.

Theorem atoi2_safe_partial : forall s, nz s -> exists r, atoi2 false (s ++ [0]) = Ok r.
Proof.
  intros s Hnz. unfold atoi2. set (b := s ++ [0]). pose proof (zlen_nonneg b) as ZN.
  assert (ZB : zlen b = zlen s + 1) by (unfold b; rewrite zlen_app; reflexivity).
  destruct (atoi2_ws_ok (S (length b)) b 0) as [i [H1 H2]]; [lia|unfold zlen; lia|]. rewrite H1.
  destruct (zlen b - i =? 0) eqn:E0; [eauto|]. apply Z.eqb_neq in E0.
  destruct (rd_term s i Hnz) as [c [E Z0]]; [lia|]. fold b in E. rewrite E.
  assert (L3 : Forall (fun x => x <> 0) [105; 110; 102]) by (repeat constructor; discriminate).
  destruct (c =? 45) eqn:C45; [|destruct (c =? 43) eqn:C43]; cbv beta iota zeta.
  - apply Z.eqb_eq in C45. apply atoi2_tail_ok; [lia|]. apply strcmp_lit_ok; auto.
    assert (i <> zlen s) by (intro Hx; apply Z0 in Hx; lia). lia.
  - apply Z.eqb_eq in C43. apply atoi2_tail_ok; [lia|]. apply strcmp_lit_ok; auto.
    assert (i <> zlen s) by (intro Hx; apply Z0 in Hx; lia). lia.
  - apply atoi2_tail_ok; [lia|]. apply strcmp_lit_ok; auto. lia.
Qed.

Theorem atoi2_current_safe : forall b, fact_atoi2_inf_bounded = true \/ (exists s, nz s /\ b = s ++ [0]) ->
  exists r, atoi2_current b = Ok r.
Proof.
  intros b [H|[s [Hs ->]]]; unfold atoi2_current.
  - rewrite H. apply atoi2_safe.
  - destruct fact_atoi2_inf_bounded; [apply atoi2_safe|apply atoi2_safe_partial; auto].
Qed.

Theorem hex2bin_current_safe : forall hex out max, olen out = Z.max max 0 -> fact_hex2bin_checks_max = true \/ 1 <= max ->
  exists r, hex2bin_current hex out max = Ok r.
Proof. intros. apply hex2bin_safe; auto. Qed.

(* "-" in a one byte buffer: strcmp reads str[1]; "9223372036854775807": signed overflow *)
Theorem atoi2_refuted_oob : atoi2 false [45] = Oob 1.
Proof. reflexivity. Qed.
Theorem atoi2_refuted_ub : atoi2 false [57;50;50;51;51;55;50;48;51;54;56;53;52;55;55;53;56;48;55] = Ok AUB.
Proof. vm_compute. reflexivity. Qed.
Theorem atoi2_fixed_int64_max : atoi2 true [57;50;50;51;51;55;50;48;51;54;56;53;52;55;55;53;56;48;55] = Ok (AVal (2 ^ 63 - 1)).
Proof. vm_compute. reflexivity. Qed.
