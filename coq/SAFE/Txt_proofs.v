(* lemmas about the shared text helpers of Txt.v *)
Require Import ZArith List Bool Lia. Import ListNotations.
Require Import IW.SAFE.Buf IW.SAFE.Buf_proofs IW.SAFE.Txt.
Local Open Scope Z_scope. Local Open Scope bool_scope.

(* ---- read-only buffers *)
Lemma rdb_rd : forall b i, rdb b i = match rd b i with Some c => Ok c | None => Oob i end.
Proof.
  intros b i. unfold rdb, rd, inb. destruct (i <? 0) eqn:N.
  - apply Z.ltb_lt in N. assert (E : (0 <=? i) = false) by (apply Z.leb_gt; lia). rewrite E. reflexivity.
  - apply Z.ltb_ge in N. assert (E : (0 <=? i) = true) by (apply Z.leb_le; lia). rewrite E. simpl.
    destruct (i <? zlen b) eqn:L.
    + reflexivity.
    + apply Z.ltb_ge in L. assert (X : nth_error b (Z.to_nat i) = None) by (apply nth_error_None; unfold zlen in L; lia).
      rewrite X. reflexivity.
Qed.

(* a terminated buffer: every index up to the terminator can be read; the byte is 0 exactly at the terminator *)
Lemma rdb_term : forall s i, nz s -> 0 <= i <= zlen s ->
  exists c, rdb (s ++ [0]) i = Ok c /\ (c = 0 <-> i = zlen s).
Proof. intros s i H R. destruct (rd_term s i H R) as [c [E Z0]]. exists c. rewrite rdb_rd, E. auto. Qed.

Lemma rdb_ok_range : forall b i c, rdb b i = Ok c -> 0 <= i < zlen b.
Proof. intros b i c H. rewrite rdb_rd in H. destruct (rd b i) eqn:E; [|discriminate]. eapply rd_some_range; eauto. Qed.

Lemma rdb_in : forall b i, 0 <= i < zlen b -> exists c, rdb b i = Ok c.
Proof. intros b i H. rewrite rdb_rd. destruct (rd_in_some b i H) as [c E]. rewrite E. eauto. Qed.

(* ---- cell arrays *)
Definition cell_is (b : list (option Z)) (i c : Z) : Prop := 0 <= i /\ nth_error b (Z.to_nat i) = Some (Some c).

Lemma rdc_cell : forall b i c, cell_is b i c -> rdc b i = Ok c.
Proof.
  intros b i c [P N]. unfold rdc. assert (E : (i <? 0) = false) by (apply Z.ltb_ge; lia). rewrite E, N. reflexivity.
Qed.

Lemma cell_in : forall b i c, cell_is b i c -> 0 <= i < olen b.
Proof.
  intros b i c [P N]. split; auto. assert (X : nth_error b (Z.to_nat i) <> None) by congruence.
  apply nth_error_Some in X. unfold olen. lia.
Qed.

Lemma wrc_ok : forall b i x, 0 <= i < olen b -> exists b', wrc b i x = Ok b' /\ olen b' = olen b /\ cell_is b' i x /\
  (forall q c, q <> i -> cell_is b q c -> cell_is b' q c).
Proof.
  intros b i x R. unfold wrc. destruct (wro_some b i x R) as [b' W]. rewrite W. exists b'. split; auto.
  apply wro_spec in W. destruct W as (_ & L & S & O). split; auto. split; [split; [lia|auto]|].
  intros q c N [P C]. split; auto. rewrite O; auto.
Qed.

Lemma wrc_inv : forall b i x b', wrc b i x = Ok b' -> 0 <= i < olen b /\ olen b' = olen b /\ cell_is b' i x /\
  (forall q c, q <> i -> cell_is b q c -> cell_is b' q c).
Proof.
  intros b i x b' H. unfold wrc in H. destruct (wro b i x) eqn:W; [|discriminate]. inversion H; subst; clear H.
  pose proof (wro_spec _ _ _ _ W) as (R & _). split; auto.
  destruct (wrc_ok b i x R) as [b2 (E & A)]. unfold wrc in E. rewrite W in E. inversion E; subst. exact A.
Qed.

(* every cell of [0, Z] holds a byte and cell Z holds 0: any C string that starts at or before Z ends at or before Z *)
Definition linv (b : list (option Z)) (Z : Z) : Prop :=
  0 <= Z < olen b /\ (forall k, 0 <= k <= Z -> exists c, cell_is b k c) /\ cell_is b Z 0.

Lemma linv_wr0 : forall b Z i b', linv b Z -> 0 <= i <= Z -> wrc b i 0 = Ok b' -> linv b' Z.
Proof.
  intros b Z i b' (R & P & T) Ri W. apply wrc_inv in W. destruct W as (_ & L & S & O).
  split; [lia|]. split.
  - intros k Rk. destruct (Z.eq_dec k i) as [->|N]; [eauto|]. destruct (P k Rk) as [c C]. exists c. apply O; auto.
  - destruct (Z.eq_dec Z i) as [->|N]; [auto|]. apply O; auto.
Qed.

Lemma linv_wr0_ok : forall b Z i, linv b Z -> 0 <= i <= Z -> exists b', wrc b i 0 = Ok b' /\ linv b' Z /\ olen b' = olen b /\ cell_is b' i 0.
Proof.
  intros b Z i I Ri. destruct I as (R & P & T). destruct (wrc_ok b i 0) as [b' (W & L & S & O)]; [lia|].
  exists b'. split; auto. split; [|split; auto].
  eapply (linv_wr0 b Z i b'); eauto. split; [lia|]. split; auto.
Qed.

Lemma linv_rd : forall b Z i, linv b Z -> 0 <= i <= Z -> exists c, rdc b i = Ok c /\ cell_is b i c /\ (c <> 0 -> i < Z).
Proof.
  intros b Z i (R & P & T) Ri. destruct (P i Ri) as [c C]. exists c. split; [apply rdc_cell; auto|]. split; auto.
  intros N. destruct (Z.eq_dec i Z) as [->|]; [|lia]. destruct C as [_ C], T as [_ T]. rewrite C in T. congruence.
Qed.

Lemma cnul_S : forall f b i, cnul (S f) b i = tbind (rdc b i) (fun c => if c =? 0 then Ok i else cnul f b (i + 1)).
Proof. reflexivity. Qed.
Lemma ccstr_S : forall f b i, ccstr (S f) b i =
  tbind (rdc b i) (fun c => if c =? 0 then Ok [] else tbind (ccstr f b (i + 1)) (fun r => Ok (c :: r))).
Proof. reflexivity. Qed.

Lemma cnul_ok : forall fuel b Z i, linv b Z -> 0 <= i <= Z -> (Z.to_nat (Z - i) < fuel)%nat ->
  exists z, cnul fuel b i = Ok z /\ i <= z <= Z /\ cell_is b z 0.
Proof.
  induction fuel as [|f IH]; intros b Z i I R F; [lia|].
  rewrite cnul_S. destruct (linv_rd b Z i I R) as [c (E & C & N)]. rewrite E. simpl.
  destruct (c =? 0) eqn:X.
  - apply Z.eqb_eq in X. subst c. exists i. split; auto. split; [lia|auto].
  - apply Z.eqb_neq in X. specialize (N X). destruct (IH b Z (i + 1) I) as [z (Ez & Rz & Cz)]; [lia|lia|].
    exists z. split; auto. split; [lia|auto].
Qed.

Lemma ccstr_ok : forall fuel b Z i, linv b Z -> 0 <= i <= Z -> (Z.to_nat (Z - i) < fuel)%nat ->
  exists r, ccstr fuel b i = Ok r /\ zlen r <= Z - i.
Proof.
  induction fuel as [|f IH]; intros b Z i I R F; [lia|].
  rewrite ccstr_S. destruct (linv_rd b Z i I R) as [c (E & C & N)]. rewrite E. simpl.
  destruct (c =? 0) eqn:X.
  - exists []. split; auto. unfold zlen; simpl; lia.
  - apply Z.eqb_neq in X. specialize (N X). destruct (IH b Z (i + 1) I) as [r [Er Lr]]; [lia|lia|].
    rewrite Er. simpl. exists (c :: r). split; auto. unfold zlen in *. simpl length. lia.
Qed.

Lemma linv_fuel : forall b Z i, linv b Z -> 0 <= i -> (Z.to_nat (Z - i) < S (length b))%nat.
Proof. intros b Z i (R & _) P. unfold olen in R. lia. Qed.
