(* C17: the small string consumers at index level:
     split       iwpool_split_string (src/utils/iwpool.c): haystack and split_chars are C strings (content ++ [0]); the
                 result array has (strlen(haystack) + 1) slots, every store ret[j] is checked against that capacity
     uuid_valid  iwu_uuid_valid (src/utils/iwuuid.c)
     csv_*       iwcsv_wrap_line_buffer / iwcsv_column_add / iwcsv_line_flush (src/utils/iwcsv.h): the caller's line
                 buffer of `len` bytes, whose tail holds the struct iwcsv itself (sizeof_struct_iwcsv, T1)
   No proofs here. *)
Require Import ZArith List Bool. Import ListNotations.
Require Import IW.SAFE.Buf IW.SAFE.Txt IW.Gen.Facts.
Local Open Scope Z_scope. Local Open Scope bool_scope.

(* strlen(b) *)
Fixpoint bnul (fuel : nat) (b : list Z) (i : Z) : res Z :=
  match fuel with O => Fuel | S f => do c <- rdb b i; if c =? 0 then Ok i else bnul f b (i + 1) end.
Definition strlen (b : list Z) : res Z := bnul (S (length b)) b 0.

(* strchr(cs, c) != NULL, cs a C string in a buffer: the scan stops at the match or at the terminator *)
Fixpoint strchr_buf (fuel : nat) (cs : list Z) (c k : Z) : res bool :=
  match fuel with O => Fuel | S f =>
    do x <- rdb cs k; if x =? c then Ok true else if x =? 0 then Ok false else strchr_buf f cs c (k + 1) end.

(* memcpy(s, haystack + sp, ep - sp): the bytes [sp, ep), each read checked *)
Fixpoint slice_rd (n : nat) (b : list Z) (i : Z) : res (list Z) :=
  match n with O => Ok [] | S k => do c <- rdb b i; do r <- slice_rd k b (i + 1); Ok (c :: r) end.

(* while (sp < ep && is_space( *sp)) ++sp *)
Fixpoint trim_l (fuel : nat) (b : list Z) (sp ep : Z) : res Z :=
  match fuel with O => Fuel | S f =>
    if sp <? ep then (do c <- rdb b sp; if is_space c then trim_l f b (sp + 1) ep else Ok sp) else Ok sp end.
(* while (ep > sp && is_space( *(ep - 1))) --ep *)
Fixpoint trim_r (fuel : nat) (b : list Z) (sp ep : Z) : res Z :=
  match fuel with O => Fuel | S f =>
    if ep >? sp then (do c <- rdb b (ep - 1); if is_space c then trim_r f b sp (ep - 1) else Ok ep) else Ok ep end.

(* for (i = 0; *ep; ++i, ++ep) { ... }  ret[j] = 0;   cap = number of slots of ret;  acc = the tokens stored so far (newest first) *)
Fixpoint split_loop (fuel : nat) (b cs : list Z) (ws : bool) (cap sp ep i j : Z) (acc : list (list Z)) : res (list (list Z)) :=
  match fuel with O => Fuel | S f =>
    do c <- rdb b ep;
    if c =? 0 then (if (0 <=? j) && (j <? cap) then Ok (rev acc) else Oob j) else
    do ch <- rdb b i;
    do sch <- strchr_buf (S (length cs)) cs ch 0;
    do hit <- (if ep >=? sp then (if sch then Ok true else (do n <- rdb b (ep + 1); Ok (n =? 0))) else Ok false);
    if hit then
      do ep1 <- (if negb sch then (do n <- rdb b (ep + 1); Ok (if n =? 0 then ep + 1 else ep)) else Ok ep);
      do sp2 <- (if ws then trim_l (S (length b)) b sp ep1 else Ok sp);
      do ep2 <- (if ws then trim_r (S (length b)) b sp2 ep1 else Ok ep1);
      if ep2 >=? sp2 then
        do tok <- slice_rd (Z.to_nat (ep2 - sp2)) b sp2;
        if (0 <=? j) && (j <? cap) then split_loop f b cs ws cap (i + 1) (i + 1) (i + 1) (j + 1) (tok :: acc)
        else Oob j
      else split_loop f b cs ws cap (i + 1) (ep2 + 1) (i + 1) j acc
    else split_loop f b cs ws cap sp (ep + 1) (i + 1) j acc
  end.

Definition split (b cs : list Z) (ws : bool) : res (list (list Z)) :=
  do hsz <- strlen b;
  split_loop (S (length b)) b cs ws (hsz + 1) 0 0 0 0 [].

(* ---- iwu_uuid_valid *)
Definition is_uuid_char (c : Z) : bool := is_alpha c || is_digit c.
(* for (i = 0; i < n; ++i) if (!_is_uuid_char(uuid[base + i])) return false *)
Fixpoint uuid_run (n : nat) (b : list Z) (i : Z) : res bool :=
  match n with O => Ok true | S k => do c <- rdb b i; if is_uuid_char c then uuid_run k b (i + 1) else Ok false end.
(* for (j = 0; j < 3; ++j) { 4 chars; uuid[4] == '-'; uuid += 5 } *)
Fixpoint uuid_groups (n : nat) (b : list Z) (base : Z) : res (bool * Z) :=
  match n with O => Ok (true, base) | S k =>
    do ok <- uuid_run 4 b base;
    if negb ok then Ok (false, base) else
    do d <- rdb b (base + 4);
    if negb (d =? 45) then Ok (false, base) else uuid_groups k b (base + 5)
  end.
Definition uuid_valid (b : list Z) : res bool :=
  do n <- strlen b;
  if negb (n =? uuid_str_len) then Ok false else
  do ok <- uuid_run 8 b 0;
  if negb ok then Ok false else
  do d <- rdb b 8;
  if negb (d =? 45) then Ok false else
  do g <- uuid_groups 3 b 9;
  if negb (fst g) then Ok false else uuid_run 12 b (snd g).

(* ---- iwcsv: buf = the first len - sizeof(struct iwcsv) bytes of the caller's buffer; ep = its last cell (holds 0) *)
Record csv := mkCsv { c_buf : list (option Z); c_wp : Z; c_ncol : Z }.
Definition c_ep (w : csv) : Z := olen (c_buf w) - 1.

(* iwcsv_wrap_line_buffer(linebuf, len): None = IW_ERROR_INVALID_ARGS *)
Definition csv_wrap (len : Z) : res (option csv) :=
  if (len <? sizeof_struct_iwcsv + 2) || negb (Z.land len 7 =? 0) then Ok None else
  let buf := repeat None (Z.to_nat (len - sizeof_struct_iwcsv)) in
  do b1 <- wrc buf (len - sizeof_struct_iwcsv - 1) 0;
  Ok (Some (mkCsv b1 0 0)).

Definition needs_quote (c : Z) : bool := (c =? 32) || (c =? 44) || (c =? 9) || (c =? 10) || (c =? 13).
(* WW(c): if (w->wp == w->ep) return 0; *w->wp = c; ++w->wp.   A failing WW returns from the whole function: what was
   written before stays (wp advanced, ncol incremented).  State = (struct, no WW has failed yet). *)
Definition ww2 (st : csv * bool) (c : Z) : res (csv * bool) :=
  let '(w, ok) := st in
  if negb ok then Ok st else
  if c_wp w =? c_ep w then Ok (w, false) else
  do b1 <- wrc (c_buf w) (c_wp w) c; Ok (mkCsv b1 (c_wp w + 1) (c_ncol w), true).
(* for (ep = s + slen; s < ep; ++s) { if ( *s == quote) WW(quote); WW( *s); }   s = exactly slen bytes *)
Fixpoint csv_body2 (st : csv * bool) (s : list Z) : res (csv * bool) :=
  match s with
  | [] => Ok st
  | c :: r =>
    do s1 <- (if c =? 34 then ww2 st 34 else Ok st);
    do s2 <- ww2 s1 c;
    csv_body2 s2 r
  end.
(* iwcsv_column_add(w, s, slen): (the struct afterwards - it is modified even when the call fails -, return value) *)
Definition csv_add (w : csv) (s : list Z) : res (csv * bool) :=
  let q := existsb needs_quote s in
  let w0 := mkCsv (c_buf w) (c_wp w) (c_ncol w + 1) in
  do s1 <- (if negb (c_ncol w =? 0) then ww2 (w0, true) 44 else Ok (w0, true));
  do s2 <- (if q then ww2 s1 34 else Ok s1);
  do s3 <- csv_body2 s2 s;
  (if q then ww2 s3 34 else Ok s3).

Fixpoint cslice (n : nat) (b : list (option Z)) (i : Z) : res (list Z) :=
  match n with O => Ok [] | S k => do c <- rdc b i; do r <- cslice k b (i + 1); Ok (c :: r) end.
(* iwcsv_line_flush: (struct afterwards, Some (line bytes) or None = NULL) *)
Definition csv_flush (w : csv) : res (csv * option (list Z)) :=
  do s1 <- ww2 (w, true) 13;
  do s2 <- ww2 s1 10;
  let '(w2, ok) := s2 in
  if negb ok then Ok (w2, None) else
  do b1 <- wrc (c_buf w2) (c_wp w2) 0;
  do line <- cslice (Z.to_nat (c_wp w2)) b1 0;            (* the out_len bytes the caller gets *)
  Ok (mkCsv b1 0 0, Some line).

(* wrap a buffer of len bytes, add the columns, flush: (result of every column_add, the line or NULL); None = wrap refused *)
Fixpoint csv_cols (w : csv) (cols : list (list Z)) (acc : list bool) : res (csv * list bool) :=
  match cols with
  | [] => Ok (w, rev acc)
  | c :: r => do a <- csv_add w c; csv_cols (fst a) r (snd a :: acc)
  end.
Definition csv_query (len : Z) (cols : list (list Z)) : res (option (list bool * option (list Z))) :=
  do w <- csv_wrap len;
  match w with
  | None => Ok None
  | Some w0 =>
    do a <- csv_cols w0 cols [];
    do f <- csv_flush (fst a);
    Ok (Some (snd a, snd f))
  end.
