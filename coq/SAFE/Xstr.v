(* src/utils/iwxstr.c: the size arithmetic of cat / unshift / shift / pop / insert at index level.
   The string owns `buf` (asize = its length, cells of a fresh or grown allocation are uninitialised) and `size`.
   memcpy / memmove are `blit` (destination range must lie inside buf) of a `slice` (source range must lie inside buf). *)
Require Import ZArith List Bool. Require Import IW.SAFE.Buf. Import ListNotations.
Local Open Scope Z_scope. Local Open Scope bool_scope.

Record xs := { x_buf : list (option Z); x_size : Z }.
Definition asize (x : xs) : Z := olen (x_buf x).

Definition slice (o : list (option Z)) (src n : Z) : option (list (option Z)) :=
  if (0 <=? src) && (0 <=? n) && (src + n <=? olen o) then Some (firstn (Z.to_nat n) (skipn (Z.to_nat src) o)) else None.
Definition blit (o : list (option Z)) (dst : Z) (l : list (option Z)) : option (list (option Z)) :=
  if (0 <=? dst) && (dst + olen l <=? olen o) then Some (firstn (Z.to_nat dst) o ++ l ++ skipn (Z.to_nat (dst + olen l)) o) else None.

(* realloc(ptr, n): the first min(old, n) cells survive, the rest is uninitialised *)
Definition realloc (o : list (option Z)) (n : Z) : list (option Z) :=
  firstn (Z.to_nat n) o ++ repeat None (Z.to_nat n - length o).

(* while (asize < nsize) { asize <<= 1; if (asize < nsize) asize = nsize; }   (one round always suffices) *)
Definition grow (a nsize : Z) : Z := if a <? nsize then (if 2 * a <? nsize then nsize else 2 * a) else a.
Definition ensure (x : xs) (nsize : Z) : list (option Z) :=
  if asize x <? nsize then realloc (x_buf x) (grow (asize x) nsize) else x_buf x.

Definition bytes (l : list Z) : list (option Z) := map Some l.

Definition xcreate (siz : Z) : res xs :=
  let siz := if siz =? 0 then 16 else siz in
  match wro (repeat None (Z.to_nat siz)) 0 0 with None => Oob 0 | Some b => Ok {| x_buf := b; x_size := 0 |} end.

Definition xcat (x : xs) (data : list Z) : res xs :=
  let n := zlen data in
  let b := ensure x (x_size x + n + 1) in
  match blit b (x_size x) (bytes data) with
  | None => Oob (x_size x)
  | Some b1 => match wro b1 (x_size x + n) 0 with None => Oob (x_size x + n) | Some b2 => Ok {| x_buf := b2; x_size := x_size x + n |} end
  end.

Definition xunshift (x : xs) (data : list Z) : res xs :=
  let n := zlen data in
  let b := ensure x (x_size x + n + 1) in
  match (if 0 <? x_size x then match slice b 0 (x_size x) with None => None | Some s => blit b n s end else Some b) with
  | None => Oob n
  | Some b1 =>
    match blit b1 0 (bytes data) with
    | None => Oob 0
    | Some b2 => match wro b2 (x_size x + n) 0 with None => Oob (x_size x + n) | Some b3 => Ok {| x_buf := b3; x_size := x_size x + n |} end
    end
  end.

Definition xshift (x : xs) (n : Z) : res xs :=
  if n =? 0 then Ok x else
  let n := if n >? x_size x then x_size x else n in
  match (if x_size x >? n then match slice (x_buf x) n (x_size x - n) with None => None | Some s => blit (x_buf x) 0 s end
         else Some (x_buf x)) with
  | None => Oob n
  | Some b1 => match wro b1 (x_size x - n) 0 with None => Oob (x_size x - n) | Some b2 => Ok {| x_buf := b2; x_size := x_size x - n |} end
  end.

Definition xpop (x : xs) (n : Z) : res xs :=
  if n =? 0 then Ok x else
  let n := if n >? x_size x then x_size x else n in
  match wro (x_buf x) (x_size x - n) 0 with None => Oob (x_size x - n) | Some b => Ok {| x_buf := b; x_size := x_size x - n |} end.

(* Ok None = IW_ERROR_OUT_OF_BOUNDS (pos > size) *)
Definition xinsert (x : xs) (pos : Z) (data : list Z) : res (option xs) :=
  if pos >? x_size x then Ok None
  else if zlen data =? 0 then Ok (Some x)
  else
    let n := zlen data in
    let b := ensure x (x_size x + n + 1) in
    match slice b pos (x_size x - pos + 1) with
    | None => Oob pos
    | Some s =>
      match blit b (pos + n) s with
      | None => Oob (pos + n)
      | Some b1 => match blit b1 pos (bytes data) with
                   | None => Oob pos
                   | Some b2 => Ok (Some {| x_buf := b2; x_size := x_size x + n |})
                   end
      end
    end.

(* iwxstr_clone: ret->asize = xstr->asize; ret->ptr = malloc(xstr->asize) (fresh, uninitialised); memcpy(size); ptr[size] = 0.
   The clone replaces the original in the histories (the original is destroyed). *)
Definition xclone (x : xs) : res xs :=
  let b := repeat None (Z.to_nat (asize x)) in
  match (if 0 <? x_size x then match slice (x_buf x) 0 (x_size x) with None => None | Some s => blit b 0 s end else Some b) with
  | None => Oob 0
  | Some b1 => match wro b1 (x_size x) 0 with None => Oob (x_size x) | Some b2 => Ok {| x_buf := b2; x_size := x_size x |} end
  end.

Inductive xop := XCat (d : list Z) | XUnshift (d : list Z) | XShift (n : Z) | XPop (n : Z) | XInsert (pos : Z) (d : list Z) | XClone.
Definition xapply (x : xs) (op : xop) : res xs :=
  match op with
  | XCat d => xcat x d
  | XUnshift d => xunshift x d
  | XShift n => xshift x n
  | XPop n => xpop x n
  | XInsert pos d => match xinsert x pos d with Ok (Some x') => Ok x' | Ok None => Ok x | Oob i => Oob i | Fuel => Fuel end
  | XClone => xclone x
  end.
Fixpoint xrun (x : xs) (ops : list xop) : res xs :=
  match ops with [] => Ok x | op :: r => match xapply x op with Ok x' => xrun x' r | e => e end end.

(* what iwxstr_ptr / iwxstr_size show: the first `size` cells *)
Definition xcontent (x : xs) : list (option Z) := firstn (Z.to_nat (x_size x)) (x_buf x).
