(* C17: the regular expression matcher behind iwre_create / iwre_match (src/re: parse.c, compile.c, vm.c, iwre.c).
   The whole pipeline is modelled, so that the answer to a query is a FUNCTION of (pattern, text, number of slots of the
   caller's array) - `re_query` - and nothing else:
     parse_ctx    = parse_context (shunting yard over one parenthesis level; the node stack of the level is a list)
     comp         = compile_context (same code layout, absolute instruction indices, capture numbering incl. the reset
                    inside repeated groups), re_compile = cregex_compile_node (size estimate, implicit group 0, `.*?`)
     vm_add / vm_step / vm_loop / vm_run = vm_add_thread / the two loops of vm_run_with_threads (Pike VM, priorities,
                    `visited` marks, at most re_max_matches saved positions)
     re_match     = iwre_match: parity check, memset of the caller's array, VM run, count of the leading non-null slots.
   The caller's array is explicit: `prior` = what it held BEFORE the call (CNull / CStale = a non-null leftover); the
   theorems say that the result does not depend on it.  Bytes are 0..255; a C string is content ++ [0].
   No proofs here. *)
Require Import ZArith List Bool. Import ListNotations.
Require Import IW.SAFE.Buf IW.Gen.Facts.
Local Open Scope Z_scope. Local Open Scope bool_scope.

Definition rbind {A B} (r : res A) (f : A -> res B) : res B :=
  match r with Ok a => f a | Oob i => Oob i | Fuel => Fuel end.
Notation "'do' x <- r ; k" := (rbind r (fun x => k)) (at level 200, x name, right associativity).

(* *sp of a pattern / text pointer: the list is what is left of the C string, terminator included *)
Definition pk (s : list Z) : res Z := match s with c :: _ => Ok c | [] => Oob 0 end.

(* ---- cregex_node_t *)
Inductive node :=
| NEps | NChr (c : Z) | NAny
| NCls (neg : bool) (from : list Z)          (* from = the pattern text right after `[` / `[^` (compile.c scans it again) *)
| NCat (l r : node) | NAlt (l r : node)
| NQuant (nmin nmax : Z) (greedy : bool) (q : node)
| NBeg | NEnd | NCap (c : node).

(* ---- parse.c *)
(* parse_char_class after the optional ^ : Some rest = the text after the closing ], None = NULL *)
Fixpoint cls_scan (fuel : nat) (first : bool) (s : list Z) : res (option (list Z)) :=
  match fuel with O => Fuel | S f =>
    do ch <- pk s;
    let s1 := tl s in
    if ch =? 0 then Ok None
    else if (ch =? 93) && negb first then Ok (Some s1)
    else
      do c <- (if ch =? 92 then pk s1 else Ok ch);
      let s2 := if ch =? 92 then tl s1 else s1 in
      if (ch =? 92) && (c =? 0) then Ok None else
      do d <- pk s2;
      if d =? 45 then
        do e <- pk (tl s2);
        if negb (e =? 93) then
          if (e =? 0) || (e <? c) then Ok None else cls_scan f false (tl (tl s2))
        else cls_scan f false s2
      else cls_scan f false s2
  end.

Fixpoint digits (fuel : nat) (acc : Z) (s : list Z) : res (option (Z * list Z)) :=
  match fuel with O => Fuel | S f =>
    do c <- pk s;
    if (48 <=? c) && (c <=? 57) then
      if (0 <=? re_max_interval) && (acc >? re_max_interval) then Ok None else digits f (acc * 10 + (c - 48)) (tl s)
    else Ok (Some (acc, s))
  end.

(* parse_interval, s = the text after `{` : Some (nmin, nmax, greedy, rest) or None (sp is reset, `{` is a literal) *)
Definition parse_interval (s : list Z) : res (option (Z * Z * bool * list Z)) :=
  do f0 <- pk s;
  do r1 <- digits (S (length s)) 0 s;
  match r1 with None => Ok None | Some (nmin, s1) =>
    do c <- pk s1;
    do r2 <-
      (if c =? 44 then
         let s2 := tl s1 in
         do c2 <- pk s2;
         if negb (f0 =? 44) && (c2 =? 125) then Ok (Some (-1, s2))
         else
           do r <- digits (S (length s2)) 0 s2;
           match r with None => Ok None | Some (nmax, s3) =>
             do c3 <- pk s3;
             if Nat.eqb (length s3) (length s2) || negb (c3 =? 125) || (nmax <? nmin) then Ok None
             else Ok (Some (nmax, s3))
           end
       else if negb (f0 =? 125) && (c =? 125) then Ok (Some (nmin, s1))
       else Ok None);
    match r2 with None => Ok None | Some (nmax, s4) =>
      let s5 := tl s4 in
      do c5 <- pk s5;
      if c5 =? 63 then Ok (Some (nmin, nmax, false, tl s5)) else Ok (Some (nmin, nmax, true, s5))
    end
  end.

(* concatenate(): the stack of the level (top first) becomes one right-nested concatenation *)
Fixpoint concat_rev (acc : node) (st : list node) : node :=
  match st with [] => acc | n :: r => concat_rev (NCat n acc) r end.
Definition concat_stack (st : list node) : node :=
  match st with [] => NEps | top :: r => concat_rev top r end.

Definition is_eps (n : node) : bool := match n with NEps => true | _ => false end.
Definition alt_node (l r : node) : node :=
  if is_eps l && is_eps r then NEps
  else if is_eps l then NQuant 0 1 true r
  else if is_eps r then NQuant 0 1 true l
  else NAlt l r.

(* parse_context: Some (node of the level, text after its `)` or terminator), None = NULL *)
Fixpoint parse_ctx (fuel : nat) (depth : Z) (stack : list node) (s : list Z) : res (option (node * list Z)) :=
  match fuel with O => Fuel | S f =>
    do ch <- pk s;
    let s1 := tl s in
    let quant (mn mx : Z) :=
      match stack with
      | [] => parse_ctx f depth [NChr ch] s1
      | top :: st =>
        do g <- pk s1;
        if g =? 63 then parse_ctx f depth (NQuant mn mx false top :: st) (tl s1)
        else parse_ctx f depth (NQuant mn mx true top :: st) s1
      end in
    if ch =? 92 then
      do c2 <- pk s1;
      if c2 =? 0 then Ok None else parse_ctx f depth (NChr c2 :: stack) (tl s1)
    else if ch =? 46 then parse_ctx f depth (NAny :: stack) s1
    else if ch =? 91 then
      do h <- pk s1;
      let neg := h =? 94 in
      let from := if neg then tl s1 else s1 in
      do r <- cls_scan (S (length from)) true from;
      match r with None => Ok None | Some rest => parse_ctx f depth (NCls neg from :: stack) rest end
    else if ch =? 124 then
      let lhs := concat_stack stack in
      do r <- parse_ctx f depth [] s1;
      match r with None => Ok None | Some (rhs, rest) => Ok (Some (alt_node lhs rhs, rest)) end
    else if ch =? 63 then quant 0 1
    else if ch =? 42 then quant 0 (-1)
    else if ch =? 43 then quant 1 (-1)
    else if ch =? 123 then
      match stack with
      | [] => parse_ctx f depth [NChr ch] s1
      | top :: st =>
        do r <- parse_interval s1;
        match r with
        | None => parse_ctx f depth (NChr ch :: stack) s1
        | Some (mn, mx, g, rest) => parse_ctx f depth (NQuant mn mx g top :: st) rest
        end
      end
    else if ch =? 94 then parse_ctx f depth (NBeg :: stack) s1
    else if ch =? 36 then parse_ctx f depth (NEnd :: stack) s1
    else if ch =? 40 then
      do r <- parse_ctx f (depth + 1) [] s1;
      match r with None => Ok None | Some (inner, rest) => parse_ctx f depth (NCap inner :: stack) rest end
    else if ch =? 41 then (if depth >? 0 then Ok (Some (concat_stack stack, s1)) else Ok None)
    else if ch =? 0 then (if depth =? 0 then Ok (Some (concat_stack stack, s1)) else Ok None)
    else parse_ctx f depth (NChr ch :: stack) s1
  end.

(* cregex_parse; pat = the pattern WITHOUT its terminator *)
Definition re_parse (pat : list Z) : res (option node) :=
  if (0 <=? re_max_pattern) && (zlen pat >? re_max_pattern) then Ok None else
  do r <- parse_ctx (S (S (length pat))) 0 [] (pat ++ [0]);
  match r with None => Ok None | Some (root, _) => Ok (Some root) end.

(* ---- compile.c *)
Inductive instr :=
| IMatch | IChr (c : Z) | IAny | ICls (neg : bool) (set : list Z)      (* set = the members of klass, in the order they are added *)
| ISplit (a b : Z) | IJmp (t : Z) | IBeg | IEnd | ISave (k : Z).

Definition sat (n : Z) : Z := if (0 <=? re_max_instructions) && (n >? re_max_instructions) then re_max_instructions + 1 else n.

Fixpoint count (n : node) : Z :=
  match n with
  | NEps => 0
  | NChr _ | NAny | NCls _ _ => 1
  | NCat l r => sat (count l + count r)
  | NAlt l r => sat (2 + count l + count r)
  | NQuant mn mx _ q =>
    let num := count q in
    if mx >=? mn then sat (mn * num + (mx - mn) * (num + 1))
    else sat (1 + (if mn =? 0 then num + 1 else mn * num))
  | NBeg | NEnd => 1
  | NCap c => sat (2 + count c)
  end.

(* node_is_anchored: the program needs no implicit `.*?` search prefix.  minq = a quantifier counts as anchored only when it
   cannot repeat zero times (Facts.fact_re_anchor_needs_min, observed by matching `(^a)?b` against `xb`; the code without
   that test - fixes/safety-regex-anchored-optional.diff - misses matches that start later; a matching-semantics defect,
   outside C17) *)
Fixpoint anchored_v (minq : bool) (n : node) : bool :=
  match n with
  | NCat l _ => anchored_v minq l
  | NAlt l r => anchored_v minq l && anchored_v minq r
  | NQuant mn _ _ q => (if minq then mn >? 0 else true) && anchored_v minq q
  | NBeg => true
  | NCap c => anchored_v minq c
  | _ => false
  end.
Definition anchored (n : node) : bool := anchored_v fact_re_anchor_needs_min n.

(* the loop that expands a range lo-hi of a class:  for ( ; ch <= hi; ++ch) cregex_char_class_add(klass, ch);
   ctr = the type of the counter: `int ch` in the code (no wrap-around below 2^31), an 8 bit counter would be ctr_u8.
   fuel 257 = 256 members + the final test *)
Fixpoint range_expand (ctr : Z -> Z) (fuel : nat) (ch hi : Z) : res (list Z) :=
  match fuel with O => Fuel | S f =>
    if ch <=? hi then (do r <- range_expand ctr f (ctr (ch + 1)) hi; Ok (ch :: r)) else Ok []
  end.
Definition ctr_int (x : Z) : Z := x.
Definition ctr_u8 (x : Z) : Z := x mod 256.
Definition range_fuel : nat := 257.

(* compile_char_class: the members of the class *)
Fixpoint cls_set (fuel : nat) (first : bool) (s : list Z) : res (list Z) :=
  match fuel with O => Fuel | S f =>
    do ch <- pk s;
    let s1 := tl s in
    if (ch =? 93) && negb first then Ok []
    else
      do c <- (if ch =? 92 then pk s1 else Ok ch);
      let s2 := if ch =? 92 then tl s1 else s1 in
      do d <- pk s2;
      if d =? 45 then
        do e <- pk (tl s2);
        if negb (e =? 93) then
          (do m <- range_expand ctr_int range_fuel c e; do r <- cls_set f false (tl (tl s2)); Ok (m ++ r))
        else (do r <- cls_set f false s2; Ok (c :: r))
      else (do r <- cls_set f false s2; Ok (c :: r))
  end.

Definition in_set (c : Z) (set : list Z) : bool := existsb (Z.eqb c) set.

Definition ilen (l : list instr) : Z := Z.of_nat (length l).
Definition swap_if (b : bool) (x y : Z) : instr := if b then ISplit y x else ISplit x y.

(* the two loops of the QUANTIFIER case; cq p = compile_context(quantified) at program counter p with ncaptures reset
   for (i < nmin) { ncaptures = saved; last = compile(quantified); }   ->  (code, last, ncaptures afterwards) *)
Fixpoint rep_min (cq : Z -> res (list instr * Z)) (k : nat) (p last nc : Z) : res (list instr * Z * Z) :=
  match k with
  | O => Ok ([], last, nc)
  | S k' =>
    do a <- cq p;
    do b <- rep_min cq k' (p + ilen (fst a)) p (snd a);
    Ok (fst a ++ fst (fst b), snd (fst b), snd b)
  end.
(* for (i < nmax - nmin) { ncaptures = saved; split; split->first = compile(quantified); split->second = pc; swap if lazy } *)
Fixpoint rep_opt (cq : Z -> res (list instr * Z)) (lazy : bool) (k : nat) (p nc : Z) : res (list instr * Z) :=
  match k with
  | O => Ok ([], nc)
  | S k' =>
    do a <- cq (p + 1);
    let after := p + 1 + ilen (fst a) in
    do b <- rep_opt cq lazy k' after (snd a);
    Ok (swap_if lazy (p + 1) after :: fst a ++ fst b, snd b)
  end.

(* compile_context at program counter pc with context->ncaptures = ncap: (code, ncaptures afterwards) *)
Fixpoint comp (n : node) (pc ncap : Z) : res (list instr * Z) :=
  match n with
  | NEps => Ok ([], ncap)
  | NChr c => Ok ([IChr c], ncap)
  | NAny => Ok ([IAny], ncap)
  | NCls neg from => do set <- cls_set (S (length from)) true from; Ok ([ICls neg set], ncap)
  | NCat l r =>
    do a <- comp l pc ncap;
    do b <- comp r (pc + ilen (fst a)) (snd a);
    Ok (fst a ++ fst b, snd b)
  | NAlt l r =>
    do a <- comp l (pc + 1) ncap;
    let pj := pc + 1 + ilen (fst a) in
    do b <- comp r (pj + 1) (snd a);
    Ok (ISplit (pc + 1) (pj + 1) :: fst a ++ IJmp (pj + 1 + ilen (fst b)) :: fst b, snd b)
  | NQuant mn mx greedy q =>
    let cq := fun p => comp q p ncap in
    do m <- rep_min cq (Z.to_nat mn) pc (-1) ncap;
    let code1 := fst (fst m) in
    let last := snd (fst m) in
    let nc1 := snd m in
    let p1 := pc + ilen code1 in
    if mx >? mn then
      do o <- rep_opt cq (negb greedy) (Z.to_nat (mx - mn)) p1 nc1;
      Ok (code1 ++ fst o, snd o)
    else if mx =? -1 then
      if mn =? 0 then
        do a <- cq (p1 + 1);
        let pj := p1 + 1 + ilen (fst a) in
        Ok (code1 ++ swap_if (negb greedy) (p1 + 1) (pj + 1) :: fst a ++ [IJmp p1], snd a)
      else Ok (code1 ++ [swap_if (negb greedy) last (p1 + 1)], nc1)
    else Ok (code1, nc1)
  | NBeg => Ok ([IBeg], ncap)
  | NEnd => Ok ([IEnd], ncap)
  | NCap c =>
    do a <- comp c (pc + 1) (ncap + 1);
    Ok (ISave (ncap * 2) :: fst a ++ [ISave (ncap * 2 + 1)], snd a)
  end.

(* number of capture groups written in the pattern *)
Fixpoint ncaps (n : node) : Z :=
  match n with
  | NCat l r | NAlt l r => ncaps l + ncaps r
  | NQuant _ _ _ q => ncaps q
  | NCap c => 1 + ncaps c
  | _ => 0
  end.

(* cregex_compile_node: None = NULL (program too large) *)
Definition re_compile (root : node) : res (option (list instr)) :=
  let est := count root + (if anchored root then 0 else 3) + 2 + 1 in
  if (0 <=? re_max_instructions) && (est >? re_max_instructions) then Ok None else
  let r1 := NCap root in
  let r2 := if anchored r1 then r1 else NCat (NQuant 0 (-1) false NAny) r1 in
  do a <- comp r2 0 0;
  Ok (Some (fst a ++ [IMatch])).

(* iwre_create *)
Definition re_create (pat : list Z) : res (option (list instr)) :=
  match pat with
  | [] => Ok None
  | _ => do r <- re_parse pat; match r with None => Ok None | Some root => re_compile root end
  end.

(* ---- vm.c *)
(* binary tries over positive: the program (pc -> instruction) and the `visited` marks of one thread list *)
Inductive ptree (A : Type) : Type := PL | PN (l : ptree A) (v : option A) (r : ptree A).
Arguments PL {A}. Arguments PN {A} l v r.
Fixpoint pget {A} (p : positive) (t : ptree A) : option A :=
  match t with
  | PL => None
  | PN l v r => match p with xH => v | xO q => pget q l | xI q => pget q r end
  end.
Fixpoint pput {A} (p : positive) (x : A) (t : ptree A) : ptree A :=
  match p with
  | xH => match t with PL => PN PL (Some x) PL | PN l _ r => PN l (Some x) r end
  | xO q => match t with PL => PN (pput q x PL) None PL | PN l v r => PN (pput q x l) v r end
  | xI q => match t with PL => PN PL None (pput q x PL) | PN l v r => PN l v (pput q x r) end
  end.
Definition key (pc : Z) : positive := Z.to_pos (pc + 1).
Fixpoint load (l : list instr) (pc : Z) (t : ptree instr) : ptree instr :=
  match l with [] => t | i :: r => load r (pc + 1) (pput (key pc) i t) end.
Definition fetch (prog : ptree instr) (pc : Z) : option instr := if pc <? 0 then None else pget (key pc) prog.

(* one slot of a match array *)
Inductive cell := CNull | COff (o : Z) | CStale.
Definition is_null (c : cell) : bool := match c with CNull => true | _ => false end.
Fixpoint setcell (l : list cell) (n : nat) (x : cell) : list cell :=
  match l, n with
  | [], _ => []
  | _ :: t, O => x :: t
  | h :: t, S k => h :: setcell t k x
  end.

(* a thread list: visited marks (by pc) and the threads in the order they were added (newest first) *)
Record tlist := mkT { visited : ptree unit; entries : list (Z * list cell) }.
Definition tempty : tlist := mkT PL [].

(* vm_add_thread(list, program, pc, string, sp, matches, nmatches); tl = strlen(string), m = the first
   min(nmatches, re_max_matches) slots of `matches` (no other slot is ever read or written) *)
Fixpoint vm_add (fuel : nat) (prog : ptree instr) (tlen nm : Z) (st : tlist) (pc sp : Z) (m : list cell) : res tlist :=
  match fuel with O => Fuel | S f =>
    match pget (key pc) (visited st) with
    | Some _ => Ok st
    | None =>
      let st1 := mkT (pput (key pc) tt (visited st)) (entries st) in
      match fetch prog pc with
      | None => Oob pc
      | Some i =>
        match i with
        | IMatch | IChr _ | IAny | ICls _ _ => Ok (mkT (visited st1) ((pc, m) :: entries st1))
        | ISplit a b => do s2 <- vm_add f prog tlen nm st1 a sp m; vm_add f prog tlen nm s2 b sp m
        | IJmp t => vm_add f prog tlen nm st1 t sp m
        | IBeg => if sp =? 0 then vm_add f prog tlen nm st1 (pc + 1) sp m else Ok st1
        | IEnd => if sp =? tlen then vm_add f prog tlen nm st1 (pc + 1) sp m else Ok st1
        | ISave k =>
          if (k <? nm) && (k <? re_max_matches) then vm_add f prog tlen nm st1 (pc + 1) sp (setcell m (Z.to_nat k) (COff sp))
          else vm_add f prog tlen nm st1 (pc + 1) sp m
        end
      end
    end
  end.

(* the inner loop of vm_run_with_threads over the current list at text position sp (c = *sp):
   (next list, matches of the thread that reached MATCH, if any) *)
Fixpoint vm_step (afuel : nat) (prog : ptree instr) (tlen nm : Z) (cur : list (Z * list cell)) (c sp : Z)
                 (nxt : tlist) (best : option (list cell)) : res (tlist * option (list cell)) :=
  match cur with
  | [] => Ok (nxt, best)
  | (pc, m) :: r =>
    match fetch prog pc with
    | None => Oob pc
    | Some i =>
      let advance (ok : bool) :=
        if ok then (do n2 <- vm_add afuel prog tlen nm nxt (pc + 1) (sp + 1) m; vm_step afuel prog tlen nm r c sp n2 best)
        else vm_step afuel prog tlen nm r c sp nxt best in
      match i with
      | IMatch => Ok (nxt, Some m)                       (* current->nthreads = 0: threads of lower priority are dropped *)
      | IChr ch => advance (c =? ch)
      | IAny => advance (negb (c =? 0))
      | ICls neg set => advance (negb (c =? 0) && xorb neg (in_set c set))
      | _ => Oob pc                                      (* abort() *)
      end
    end
  end.

(* the outer loop: rest = the text from sp on, terminator included *)
Fixpoint vm_loop (fuel afuel : nat) (prog : ptree instr) (tlen nm : Z) (rest : list Z) (sp : Z)
                 (cur : list (Z * list cell)) (best : option (list cell)) : res (option (list cell)) :=
  match fuel with O => Fuel | S f =>
    do c <- pk rest;
    do r <- vm_step afuel prog tlen nm cur c sp tempty best;
    let nxt := rev (entries (fst r)) in
    match nxt with
    | [] => Ok (snd r)
    | _ => if c =? 0 then Ok (snd r) else vm_loop f afuel prog tlen nm (tl rest) (sp + 1) nxt (snd r)
    end
  end.

(* cregex_program_run(program, text, matches, nmatches): (matched, matches afterwards) *)
Definition vm_run (code : list instr) (text : list Z) (arr : list cell) (nm : Z) : res (bool * list cell) :=
  let prog := load code 0 PL in
  let afuel := S (S (length code)) in
  let tlen := zlen text in
  let m0 := firstn (Z.to_nat (Z.min nm re_max_matches)) arr in
  do st0 <- vm_add afuel prog tlen nm tempty 0 0 m0;
  do best <- vm_loop (S (length text)) afuel prog tlen nm (text ++ [0]) 0 (rev (entries st0)) None;
  match best with
  | None => Ok (false, arr)
  | Some m => Ok (true, m ++ skipn (length m) arr)       (* memcpy of min(nmatches, re_max_matches) slots *)
  end.

(* ---- iwre.c *)
Fixpoint count_set (l : list cell) : Z :=
  match l with [] => 0 | c :: r => if is_null c then 0 else 1 + count_set r end.

(* iwre_match(re, text, mpairs, mpairs_len) with mpairs holding `prior` on entry (mpairs_len = its length):
   (return value, mpairs afterwards); -1 = errno EINVAL *)
Definition re_match (code : list instr) (text : list Z) (prior : list cell) : res (Z * list cell) :=
  let len := Z.of_nat (length prior) in
  if Z.odd len then Ok (-1, prior) else
  let arr := map (fun _ => CNull) prior in               (* memset(mpairs, 0, sizeof(mpairs[0]) * mpairs_len) *)
  do r <- vm_run code text arr len;
  if fst r then Ok (count_set (snd r) / 2, snd r) else Ok (0, snd r).

(* the observable result of  re = iwre_create(pat); iwre_match(re, text, array of len slots)  *)
Inductive reans := RNoCompile | RMatch (ret : Z) (slots : list cell).
Definition re_query (pat text : list Z) (len : Z) : res reans :=
  do p <- re_create pat;
  match p with
  | None => Ok RNoCompile
  | Some code => do r <- re_match code text (repeat CNull (Z.to_nat len)); Ok (RMatch (fst r) (snd r))
  end.
(* the same, with the array holding arbitrary leftovers before the call *)
Definition re_query_prior (pat text : list Z) (prior : list cell) : res reans :=
  do p <- re_create pat;
  match p with
  | None => Ok RNoCompile
  | Some code => do r <- re_match code text prior; Ok (RMatch (fst r) (snd r))
  end.
(* number of capture groups of a pattern (0 when it does not parse) *)
Definition re_groups (pat : list Z) : Z :=
  match re_parse pat with Ok (Some root) => ncaps root | _ => 0 end.
(* size of the program, for drivers that want to skip huge ones *)
Definition re_size (pat : list Z) : Z :=
  match re_parse pat with Ok (Some root) => count root | _ => -1 end.

(* iwre_create refuses the pattern because the size estimate exceeds the instruction limit (decided without compiling):
   lets a driver answer `nocompile` for the huge estimates it would otherwise skip *)
Definition re_refused (pat : list Z) : bool :=
  match re_parse pat with
  | Ok (Some root) => (0 <=? re_max_instructions) && (count root + (if anchored root then 0 else 3) + 2 + 1 >? re_max_instructions)
  | _ => false
  end.
