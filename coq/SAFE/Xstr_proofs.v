(* proofs about SAFE/Xstr.v: every operation keeps  size < asize, buf[size] = 0, buf[0, size) initialised  and never
   touches a cell outside the allocation - for every sequence of operations *)
Require Import ZArith List Bool Lia. Require Import IW.SAFE.Buf IW.SAFE.Buf_proofs IW.SAFE.Xstr.
Import ListNotations. Local Open Scope Z_scope. Local Open Scope bool_scope.

Definition cell (o : list (option Z)) (q : Z) : option (option Z) := nth_error o (Z.to_nat q).

Lemma ne_firstn : forall (A : Type) (l : list A) n i, (i < n)%nat -> nth_error (firstn n l) i = nth_error l i.
Proof. induction l as [|h t IH]; intros [|n] [|i] H; simpl; auto; try lia. apply IH. lia. Qed.
Lemma ne_skipn : forall (A : Type) (l : list A) n i, nth_error (skipn n l) i = nth_error l (n + i).
Proof. induction l as [|h t IH]; intros [|n] i; simpl; auto. destruct i; reflexivity. Qed.

Lemma olen_nonneg : forall o, 0 <= olen o.
Proof. intros. unfold olen. lia. Qed.

Lemma blit_spec : forall o dst l, 0 <= dst -> dst + olen l <= olen o ->
  exists o', blit o dst l = Some o' /\ olen o' = olen o /\
    (forall q, 0 <= q < dst -> cell o' q = cell o q) /\
    (forall q, 0 <= q < olen l -> cell o' (dst + q) = cell l q) /\
    (forall q, dst + olen l <= q -> cell o' q = cell o q).
Proof.
  intros o dst l D B. unfold blit.
  assert (C : (0 <=? dst) && (dst + olen l <=? olen o) = true) by (apply andb_true_iff; split; [apply Z.leb_le|apply Z.leb_le]; lia).
  rewrite C. eexists; split; [reflexivity|]. unfold olen in *. unfold cell.
  assert (LF : length (firstn (Z.to_nat dst) o) = Z.to_nat dst) by (rewrite firstn_length; lia).
  repeat split.
  - rewrite !app_length, LF, skipn_length. lia.
  - intros q Q. rewrite nth_error_app1 by lia. apply ne_firstn. lia.
  - intros q Q. rewrite nth_error_app2 by lia. rewrite LF. rewrite nth_error_app1 by lia. f_equal. lia.
  - intros q Q. rewrite nth_error_app2 by lia. rewrite LF. rewrite nth_error_app2 by lia. rewrite ne_skipn. f_equal. lia.
Qed.

Lemma slice_spec : forall o src n, 0 <= src -> 0 <= n -> src + n <= olen o ->
  exists s, slice o src n = Some s /\ olen s = n /\ (forall q, 0 <= q < n -> cell s q = cell o (src + q)).
Proof.
  intros o src n S N B. unfold slice.
  assert (C : (0 <=? src) && (0 <=? n) && (src + n <=? olen o) = true).
  { rewrite !andb_true_iff. repeat split; apply Z.leb_le; lia. }
  rewrite C. eexists; split; [reflexivity|]. unfold olen in *. unfold cell. split.
  - rewrite firstn_length, skipn_length. lia.
  - intros q Q. rewrite ne_firstn by lia. rewrite ne_skipn. f_equal. lia.
Qed.

Lemma realloc_spec : forall o n, 0 <= n ->
  olen (realloc o n) = n /\ (forall q, 0 <= q < olen o -> q < n -> cell (realloc o n) q = cell o q).
Proof.
  intros o n N. unfold realloc, olen, cell. split.
  - rewrite app_length, firstn_length, repeat_length. lia.
  - intros q Q1 Q2. rewrite nth_error_app1 by (rewrite firstn_length; lia). apply ne_firstn. lia.
Qed.

Lemma ensure_spec : forall x ns, 0 <= ns ->
  ns <= olen (ensure x ns) /\ asize x <= olen (ensure x ns) /\ (forall q, 0 <= q < asize x -> cell (ensure x ns) q = cell (x_buf x) q).
Proof.
  intros x ns N. unfold ensure, asize. pose proof (olen_nonneg (x_buf x)) as P.
  destruct (olen (x_buf x) <? ns) eqn:Lt.
  - apply Z.ltb_lt in Lt. unfold grow. rewrite (proj2 (Z.ltb_lt _ _) Lt).
    destruct (2 * olen (x_buf x) <? ns) eqn:L2.
    + destruct (realloc_spec (x_buf x) ns N) as [R1 R2]. rewrite R1. repeat split; try lia. intros q Q. apply R2; lia.
    + apply Z.ltb_ge in L2. destruct (realloc_spec (x_buf x) (2 * olen (x_buf x))) as [R1 R2]; [lia|]. rewrite R1.
      repeat split; try lia. intros q Q. apply R2; lia.
  - apply Z.ltb_ge in Lt. repeat split; try lia.
Qed.

Lemma cell_bytes : forall d q, 0 <= q < zlen d -> exists v, cell (bytes d) q = Some (Some v).
Proof.
  intros d q Q. unfold cell, bytes. rewrite nth_error_map.
  destruct (nth_error d (Z.to_nat q)) eqn:E; [simpl; eauto|]. apply nth_error_None in E. unfold zlen in Q. lia.
Qed.
Lemma olen_bytes : forall d, olen (bytes d) = zlen d.
Proof. intros. unfold olen, bytes, zlen. rewrite map_length. reflexivity. Qed.

Definition xinv (x : xs) : Prop :=
  0 <= x_size x < asize x /\ cell (x_buf x) (x_size x) = Some (Some 0) /\ prefix_init (x_buf x) (x_size x).

Lemma wro_cell : forall o i v o', wro o i v = Some o' ->
  olen o' = olen o /\ cell o' i = Some (Some v) /\ (forall q, 0 <= q -> q <> i -> cell o' q = cell o q).
Proof. intros o i v o' W. apply wro_spec in W. destruct W as (_ & A & B & C). unfold cell. auto. Qed.

Lemma xcreate_ok : forall siz, 0 <= siz -> exists x, xcreate siz = Ok x /\ xinv x.
Proof.
  intros siz S. unfold xcreate. set (n := if siz =? 0 then 16 else siz).
  assert (N : 1 <= n) by (unfold n; destruct (siz =? 0) eqn:E; [lia|apply Z.eqb_neq in E; lia]).
  destruct (wro_some (repeat None (Z.to_nat n)) 0 0) as [b W]; [unfold olen; rewrite repeat_length; lia|].
  rewrite W. eexists; split; [reflexivity|]. destruct (wro_cell _ _ _ _ W) as (OL & C0 & _).
  unfold xinv, asize; simpl. rewrite OL. unfold olen at 1. rewrite repeat_length. repeat split; try lia; auto.
  intros q Q. lia.
Qed.

(* finishing step shared by cat / unshift / shift / pop: store the terminator at the new size *)
Lemma finish_ok : forall b ns, 0 <= ns < olen b -> prefix_init b ns ->
  exists b', wro b ns 0 = Some b' /\ xinv {| x_buf := b'; x_size := ns |}.
Proof.
  intros b ns R P. destruct (wro_some b ns 0 R) as [b' W]. exists b'. split; auto.
  destruct (wro_cell _ _ _ _ W) as (OL & C0 & Oth). unfold xinv, asize; simpl. rewrite OL. repeat split; try lia; auto.
  intros q Q. unfold cell in Oth. rewrite Oth by lia. apply P. lia.
Qed.

Lemma xcat_ok : forall x d, xinv x -> exists x', xcat x d = Ok x' /\ xinv x'.
Proof.
  intros x d (S & T & P). unfold xcat. pose proof (zlen_nonneg d) as ZD.
  destruct (ensure_spec x (x_size x + zlen d + 1)) as (E1 & E2 & E3); [lia|].
  set (b := ensure x (x_size x + zlen d + 1)) in *.
  destruct (blit_spec b (x_size x) (bytes d)) as (b1 & B & OL1 & Lo & Mid & Hi); [lia|rewrite olen_bytes; lia|].
  rewrite B. rewrite olen_bytes in *.
  destruct (finish_ok b1 (x_size x + zlen d)) as (b2 & W & I); [lia| |rewrite W; eauto].
  intros q Q. destruct (Z_lt_ge_dec q (x_size x)) as [L|G].
  - unfold cell in Lo, E3. rewrite Lo by lia. rewrite E3 by lia. apply P. lia.
  - replace q with (x_size x + (q - x_size x)) by lia. unfold cell in Mid. rewrite Mid by lia. apply cell_bytes. lia.
Qed.

Lemma xpop_ok : forall x n, xinv x -> 0 <= n -> exists x', xpop x n = Ok x' /\ xinv x'.
Proof.
  intros x n (S & T & P) N. unfold xpop. destruct (n =? 0); [exists x; split; [reflexivity|repeat split; auto; lia]|].
  set (m := if n >? x_size x then x_size x else n).
  assert (M : 0 <= m <= x_size x) by (unfold m; destruct (n >? x_size x) eqn:G; [lia|rewrite Z.gtb_ltb in G; apply Z.ltb_ge in G; lia]).
  destruct (finish_ok (x_buf x) (x_size x - m)) as (b2 & W & I); [unfold asize in S; lia| |rewrite W; eauto].
  intros q Q. apply P. lia.
Qed.

Lemma xshift_ok : forall x n, xinv x -> 0 <= n -> exists x', xshift x n = Ok x' /\ xinv x'.
Proof.
  intros x n (S & T & P) N. unfold xshift. destruct (n =? 0); [exists x; split; [reflexivity|repeat split; auto; lia]|].
  set (m := if n >? x_size x then x_size x else n).
  assert (M : 0 <= m <= x_size x) by (unfold m; destruct (n >? x_size x) eqn:G; [lia|rewrite Z.gtb_ltb in G; apply Z.ltb_ge in G; lia]).
  unfold asize in S. destruct (x_size x >? m) eqn:G.
  - apply Z.gtb_lt in G.
    destruct (slice_spec (x_buf x) m (x_size x - m)) as (s & Sl & OLs & Cs); try lia. rewrite Sl.
    destruct (blit_spec (x_buf x) 0 s) as (b1 & B & OL1 & Lo & Mid & Hi); try lia. rewrite B.
    destruct (finish_ok b1 (x_size x - m)) as (b2 & W & I); [lia| |rewrite W; eauto].
    intros q Q. replace q with (0 + q) by lia. unfold cell in Mid, Cs. rewrite Mid by lia. rewrite Cs by lia. apply P. lia.
  - assert (m = x_size x) by (rewrite Z.gtb_ltb in G; apply Z.ltb_ge in G; lia).
    destruct (finish_ok (x_buf x) (x_size x - m)) as (b2 & W & I); [lia| |rewrite W; eauto].
    intros q Q. lia.
Qed.

Lemma xunshift_ok : forall x d, xinv x -> exists x', xunshift x d = Ok x' /\ xinv x'.
Proof.
  intros x d (S & T & P). unfold xunshift. pose proof (zlen_nonneg d) as ZD.
  destruct (ensure_spec x (x_size x + zlen d + 1)) as (E1 & E2 & E3); [lia|].
  set (b := ensure x (x_size x + zlen d + 1)) in *.
  assert (Mv : exists b1, (if 0 <? x_size x then match slice b 0 (x_size x) with None => None | Some s => blit b (zlen d) s end else Some b) = Some b1 /\
            olen b1 = olen b /\ (forall q, zlen d <= q < zlen d + x_size x -> exists v, cell b1 q = Some (Some v))).
  { destruct (0 <? x_size x) eqn:G.
    - destruct (slice_spec b 0 (x_size x)) as (s & Sl & OLs & Cs); try lia. rewrite Sl.
      destruct (blit_spec b (zlen d) s) as (b1 & B & OL1 & Lo & Mid & Hi); try lia.
      exists b1. repeat split; auto. intros q Q. replace q with (zlen d + (q - zlen d)) by lia.
      rewrite Mid by lia. rewrite Cs by lia. replace (0 + (q - zlen d)) with (q - zlen d) by lia.
      rewrite E3 by lia. apply P. lia.
    - apply Z.ltb_ge in G. exists b. repeat split; auto. intros q Q. lia. }
  destruct Mv as (b1 & Hm & OL1 & In1). rewrite Hm.
  destruct (blit_spec b1 0 (bytes d)) as (b2 & B & OL2 & Lo & Mid & Hi); [lia|rewrite olen_bytes; lia|].
  rewrite B. rewrite olen_bytes in *.
  destruct (finish_ok b2 (x_size x + zlen d)) as (b3 & W & I); [lia| |rewrite W; eauto].
  intros q Q. destruct (Z_lt_ge_dec q (zlen d)) as [L|G].
  - replace q with (0 + q) by lia. unfold cell in Mid. rewrite Mid by lia. apply cell_bytes. lia.
  - unfold cell in Hi, In1. rewrite Hi by lia. apply In1. lia.
Qed.

Lemma xinsert_ok : forall x pos d, xinv x -> 0 <= pos ->
  xinsert x pos d = Ok None \/ exists x', xinsert x pos d = Ok (Some x') /\ xinv x'.
Proof.
  intros x pos d (S & T & P) Ps. unfold xinsert. pose proof (zlen_nonneg d) as ZD.
  destruct (pos >? x_size x) eqn:G; [left; reflexivity|]. right. rewrite Z.gtb_ltb in G. apply Z.ltb_ge in G.
  destruct (zlen d =? 0) eqn:Z0; [exists x; split; [reflexivity|repeat split; auto; lia]|]. apply Z.eqb_neq in Z0.
  destruct (ensure_spec x (x_size x + zlen d + 1)) as (E1 & E2 & E3); [lia|].
  set (b := ensure x (x_size x + zlen d + 1)) in *.
  destruct (slice_spec b pos (x_size x - pos + 1)) as (s & Sl & OLs & Cs); try lia. rewrite Sl.
  destruct (blit_spec b (pos + zlen d) s) as (b1 & B1 & OL1 & Lo1 & Mid1 & Hi1); try lia. rewrite B1.
  destruct (blit_spec b1 pos (bytes d)) as (b2 & B2 & OL2 & Lo2 & Mid2 & Hi2); [lia|rewrite olen_bytes; lia|]. rewrite B2.
  rewrite olen_bytes in *. eexists; split; [reflexivity|]. unfold xinv, asize; simpl. unfold cell in *.
  split; [lia|]. split.
  - (* the terminator travelled with the tail *)
    rewrite Hi2 by lia. replace (x_size x + zlen d) with (pos + zlen d + (x_size x - pos)) by lia.
    rewrite Mid1 by lia. rewrite Cs by lia. replace (pos + (x_size x - pos)) with (x_size x) by lia. rewrite E3 by lia. exact T.
  - intros q Q. destruct (Z_lt_ge_dec q pos) as [L|Ge].
    + rewrite Lo2 by lia. rewrite Lo1 by lia. rewrite E3 by lia. apply P. lia.
    + destruct (Z_lt_ge_dec q (pos + zlen d)) as [L2|G2].
      * replace q with (pos + (q - pos)) by lia. rewrite Mid2 by lia. apply cell_bytes. lia.
      * rewrite Hi2 by lia. replace q with (pos + zlen d + (q - pos - zlen d)) by lia. rewrite Mid1 by lia. rewrite Cs by lia.
        rewrite E3 by lia. apply P. lia.
Qed.

(* the clone owns asize cells of its own, holds the same bytes and is terminated *)
Lemma xclone_ok : forall x, xinv x -> exists x', xclone x = Ok x' /\ xinv x' /\ asize x' = asize x /\ x_size x' = x_size x.
Proof.
  intros x (S & T & P). unfold xclone. pose proof (olen_nonneg (x_buf x)) as ON. unfold asize in *.
  set (b := repeat None (Z.to_nat (olen (x_buf x)))).
  assert (OB : olen b = olen (x_buf x)) by (unfold b, olen; rewrite repeat_length; lia).
  assert (M : exists b1, (if 0 <? x_size x then match slice (x_buf x) 0 (x_size x) with None => None | Some s => blit b 0 s end else Some b) = Some b1
              /\ olen b1 = olen (x_buf x) /\ prefix_init b1 (x_size x)).
  { destruct (0 <? x_size x) eqn:G.
    - destruct (slice_spec (x_buf x) 0 (x_size x)) as (s & Es & Ls & Cs); try lia. rewrite Es.
      destruct (blit_spec b 0 s) as (b1 & Eb & L1 & _ & Mid & _); [lia|lia|]. exists b1. split; auto. split; [lia|].
      intros q Q. replace q with (0 + q) by lia. unfold cell in Mid, Cs. rewrite Mid by lia. rewrite Cs by lia. apply P. lia.
    - apply Z.ltb_ge in G. exists b. split; auto. split; auto. intros q Q. lia. }
  destruct M as (b1 & E1 & L1 & P1). rewrite E1.
  destruct (finish_ok b1 (x_size x)) as (b2 & W & I); [lia|auto|]. rewrite W. eexists; split; [reflexivity|]. split; auto.
  destruct (wro_cell _ _ _ _ W) as (OL & _). unfold asize; simpl. split; [lia|reflexivity].
Qed.

Definition xop_wf (op : xop) : Prop :=
  match op with XShift n | XPop n => 0 <= n | XInsert pos _ => 0 <= pos | _ => True end.

Theorem xapply_ok : forall x op, xinv x -> xop_wf op -> exists x', xapply x op = Ok x' /\ xinv x'.
Proof.
  intros x op I W. destruct op as [d|d|n|n|pos d|]; simpl in *.
  - apply xcat_ok; auto.
  - apply xunshift_ok; auto.
  - apply xshift_ok; auto.
  - apply xpop_ok; auto.
  - destruct (xinsert_ok x pos d I W) as [E|(x' & E & I')]; rewrite E; eauto.
  - destruct (xclone_ok x I) as (x' & E & I' & _). eauto.
Qed.

Theorem xrun_ok : forall ops x, xinv x -> Forall xop_wf ops -> exists x', xrun x ops = Ok x' /\ xinv x'.
Proof.
  induction ops as [|op r IH]; intros x I W; simpl; [eauto|].
  inversion W as [|? ? W1 W2]; subst. destruct (xapply_ok x op I W1) as (x1 & E & I1). rewrite E. apply IH; auto.
Qed.

Theorem xstr_safe : forall siz ops, 0 <= siz -> Forall xop_wf ops ->
  exists x0 x', xcreate siz = Ok x0 /\ xrun x0 ops = Ok x' /\ xinv x'.
Proof.
  intros siz ops S W. destruct (xcreate_ok siz S) as (x0 & E & I). destruct (xrun_ok ops x0 I W) as (x' & R & I').
  exists x0, x'. auto.
Qed.
