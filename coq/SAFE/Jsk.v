(* C17: the JSON / JS-object parser of src/json/iwjser.c as a whole, at index level ("skeleton": positions, recursion
   depth, nodes created - not the values): _jbl_parse_value with its two inner loops, _jbl_parse_json_key,
   _jbl_parse_js_key, the string case (both passes of _jbl_unescape_json_string: Unesc.v), the number case (strtoll by
   its ISO contract: Num.v; the scanner of iwstrtod: strtod_end below), _jbl_skip_bom.
   b = the caller's buffer (content ++ [0]); every *p is rdb b i (outside the buffer -> Oob i); bf = S (length b), the bound
   of every scanning loop (computed once).
   The parser has no fixed-size text buffer: strings and keys are allocated with the measured length.  Its one fixed
   resource is the C stack: a frame per nesting level, limited by JBL_MAX_NESTING_LEVEL (T1).  The model carries the level
   explicitly and records (j_frames) the deepest level any invocation of _jbl_parse_value was entered with.
   rng : Z -> bool = "iwstrtod on the number that starts at index i reports ERANGE" (a floating point verdict: an
   arbitrary function as far as the theorems are concerned).  No proofs here. *)
Require Import ZArith List Bool. Import ListNotations.
Require Import IW.SAFE.Buf IW.SAFE.Txt IW.SAFE.Unesc IW.SAFE.Num IW.Gen.Facts.
Local Open Scope Z_scope. Local Open Scope bool_scope.

Inductive jerr := EJson | ENest | ECp | EUnq.
(* counters of one run: nodes created, deepest level of a created node (-1: none), deepest level a call was entered with *)
Record jst := mkJ { j_nodes : Z; j_deep : Z; j_frames : Z }.
Definition node_at (st : jst) (lvl : Z) : jst := mkJ (j_nodes st + 1) (Z.max (j_deep st) lvl) (j_frames st).
Definition enter (st : jst) (lvl : Z) : jst := mkJ (j_nodes st) (j_deep st) (Z.max (j_frames st) lvl).
(* what a (sub)parser hands back: ctx->rc set, or the pointer it returns *)
Inductive jout := JErr (e : jerr) | JAt (i : Z).

Definition is_ws32 (c : Z) : bool := c <=? 32.                      (* IS_WHITESPACE: (unsigned char) c <= ' ' *)
Definition is_alnum (c : Z) : bool := is_alpha c || is_digit c.

(* while ( *p && IS_WHITESPACE( *p)) p++ *)
Fixpoint skip_ws32 (fuel : nat) (b : list Z) (i : Z) : res Z :=
  match fuel with O => Fuel | S f =>
    do c <- rdb b i; if negb (c =? 0) && is_ws32 c then skip_ws32 f b (i + 1) else Ok i end.

(* !strncmp(p, lit, strlen(lit)): byte by byte, stops at the first difference (a terminator differs from every literal byte) *)
Fixpoint starts (b : list Z) (i : Z) (lit : list Z) : res bool :=
  match lit with
  | [] => Ok true
  | x :: r => do c <- rdb b i; if c =? x then starts b (i + 1) r else Ok false
  end.

(* the string case and quoted keys: measuring pass, then (len > 0) the fill pass into exactly len cells; i = index after the
   opening quote.  -> rc or the index after the closing quote *)
Definition jstring (q : Z) (b : list Z) (i : Z) : res jout :=
  match unesc2 q b i with
  | Fuel => Fuel | Oob x => Oob x
  | Ok (UErrCp, _) => Ok (JErr ECp)
  | Ok (UErrUnq, _) => Ok (JErr EUnq)
  | Ok (UOk len e _, r2) =>
    if len =? 0 then Ok (JAt e) else
    match r2 with
    | UErrCp => Ok (JErr ECp)
    | UErrUnq => Ok (JErr EUnq)
    | UOk len2 e2 _ => if len2 =? len then Ok (JAt e2) else Ok (JErr EJson)
    end
  end.

(* after a key: while ( *p && IS_WHITESPACE( *p)) p++; if ( *p == ':') return p + 1; error *)
Definition key_colon (bf : nat) (b : list Z) (i : Z) : res jout :=
  do p <- skip_ws32 bf b i;
  do c <- rdb b p;
  if c =? 58 then Ok (JAt (p + 1)) else Ok (JErr EJson).

(* _jbl_parse_json_key(&key, &klen, p, ctx) *)
Fixpoint json_key (fuel bf : nat) (b : list Z) (i : Z) : res jout :=
  match fuel with O => Fuel | S f =>
    do c <- rdb b i;
    if c =? 0 then Ok (JErr EJson)
    else if c =? 34 then
      do r <- jstring 34 b (i + 1);
      match r with JErr e => Ok (JErr e) | JAt p => key_colon bf b p end
    else if c =? 125 then Ok (JAt i)                                 (* return p - 1: the index of the brace *)
    else if is_ws32 c || (c =? 44) then json_key f bf b (i + 1)
    else Ok (JErr EJson)
  end.

(* while ((c = *p) && alnum(c)) ++p *)
Fixpoint skip_alnum (fuel : nat) (b : list Z) (i : Z) : res Z :=
  match fuel with O => Fuel | S f =>
    do c <- rdb b i; if negb (c =? 0) && is_alnum c then skip_alnum f b (i + 1) else Ok i end.

(* _jbl_parse_js_key(&key, p, ctx) *)
Fixpoint js_key (fuel bf : nat) (b : list Z) (i : Z) : res jout :=
  match fuel with O => Fuel | S f =>
    do c <- rdb b i;
    if c =? 0 then Ok (JErr EJson) else
    let quoted := (c =? 39) || (c =? 34) in
    if quoted || is_alpha c then
      let sp := if quoted then i + 1 else i in
      do p <- skip_alnum bf b sp;
      do c2 <- rdb b p;
      if quoted && negb (c2 =? c) then Ok (JErr EJson)
      else key_colon bf b (if quoted then p + 1 else p)
    else if c =? 125 then Ok (JAt i)
    else if is_ws32 c || (c =? 44) then js_key f bf b (i + 1)
    else Ok (JErr EJson)
  end.

(* ---- the scanner of iwstrtod(str = b + i, &end): the index `end` points to *)
(* while ( *p && iwchars_is_digit( *p)) ++p *)
Fixpoint skip_digits (fuel : nat) (b : list Z) (i : Z) : res Z :=
  match fuel with O => Fuel | S f =>
    do c <- rdb b i; if negb (c =? 0) && is_digit c then skip_digits f b (i + 1) else Ok i end.
(* skipwhite: while (iwchars_is_space( *p)) ++p *)
Fixpoint skip_space (fuel : nat) (b : list Z) (i : Z) : res Z :=
  match fuel with O => Fuel | S f =>
    do c <- rdb b i; if Txt.is_space c then skip_space f b (i + 1) else Ok i end.
(* while ( *p == '0' && iwchars_is_digit( *(p + 1))) ++p *)
Fixpoint skip_exp_zeros (fuel : nat) (b : list Z) (i : Z) : res Z :=
  match fuel with O => Fuel | S f =>
    do c <- rdb b i;
    if c =? 48 then (do n <- rdb b (i + 1); if is_digit n then skip_exp_zeros f b (i + 1) else Ok i) else Ok i end.

Definition strtod_end (fu : nat) (b : list Z) (str : Z) : res Z :=
  do p0 <- skip_space fu b str;
  do c0 <- rdb b p0;
  let p1 := if (c0 =? 45) || (c0 =? 43) then p0 + 1 else p0 in
  do c1 <- rdb b p1;
  if negb (is_digit c1) && negb (c1 =? 46) then Ok str else              (* goto done with a == str *)
  do p2 <- (if is_digit c1 then skip_digits fu b (p1 + 1) else Ok p1);     (* a = p *)
  do c2 <- rdb b p2;
  do p3 <- (if c2 =? 46 then
              do f0 <- rdb b (p2 + 1);
              if is_digit f0 then skip_digits fu b (p2 + 1) else Ok (p2 + 1)
            else Ok p2);                                                    (* a = p *)
  let a := p3 in
  do c3 <- rdb b p3;
  if (c3 =? 69) || (c3 =? 101) then
    do s <- rdb b (p3 + 1);
    let p5 := if (s =? 45) || (s =? 43) then p3 + 2 else p3 + 1 in
    do d <- rdb b p5;
    if is_digit d then
      do p6 <- skip_exp_zeros fu b p5;
      skip_digits fu b (p6 + 1)                                            (* e = *p++ - '0'; while digits; a = p *)
    else
      do prev <- rdb b (a - 1);
      if negb (is_digit prev) then Ok str                                  (* a = str *)
      else if d =? 0 then Ok a
      else Ok p5
  else
    if p3 >? str then (do prev <- rdb b (p3 - 1); if negb (is_digit prev) then Ok str else Ok a)
    else Ok a.

(* the number case of _jbl_parse_value, p = i at the first character: strtoll(p, &pe, 0) on the text from i on *)
Definition jnumber (bf : nat) (js : bool) (rng : Z -> bool) (b : list Z) (i : Z) : res jout :=
  do c0 <- rdb b i;
  if (c0 =? 46) && negb js then Ok (JErr EJson) else
  match strtoll0 (skipn (Z.to_nat i) b) with
  | Fuel => Fuel | Oob x => Oob (i + x)
  | Ok (_, k, er) =>
    let big := negb (k =? 0) && er in
    do bad <- (if k =? 0 then
                 if c0 =? 46 then Ok false
                 else if (c0 =? 45) || (c0 =? 43) then (do c1 <- rdb b (i + 1); Ok (negb (c1 =? 46)))
                 else Ok true
               else Ok false);
    if bad then Ok (JErr EJson) else
    do c <- rdb b (i + k);
    if big || (c =? 46) || (c =? 101) || (c =? 69) || (c =? 45) || (c =? 43) then
      do e <- strtod_end bf b i;
      if (e =? i) || rng i then Ok (JErr EJson) else Ok (JAt e)
    else Ok (JAt (i + k))
  end.

(* the leading loop of _jbl_parse_value over ' ' \t \n \r ',' *)
Definition is_vws (c : Z) : bool := (c =? 32) || (c =? 9) || (c =? 10) || (c =? 13) || (c =? 44).
Fixpoint skip_vws (fuel : nat) (b : list Z) (i : Z) : res Z :=
  match fuel with O => Fuel | S f => do c <- rdb b i; if is_vws c then skip_vws f b (i + 1) else Ok i end.

Definition is_num_start (c : Z) : bool := (c =? 46) || (c =? 45) || is_digit c.

(* the cases of the switch that do not recurse; c = *p (already read), st = the counters after `enter` *)
Definition jscalar (bf : nat) (js : bool) (rng : Z -> bool) (b : list Z) (lvl p c : Z) (st : jst) : res (jout * jst) :=
  if c =? 0 then Ok (JErr EJson, st)
  else if c =? 110 then (do m <- starts b p [110; 117; 108; 108]; if m then Ok (JAt (p + 4), node_at st lvl) else Ok (JErr EJson, st))
  else if c =? 116 then (do m <- starts b p [116; 114; 117; 101]; if m then Ok (JAt (p + 4), node_at st lvl) else Ok (JErr EJson, st))
  else if c =? 102 then (do m <- starts b p [102; 97; 108; 115; 101]; if m then Ok (JAt (p + 5), node_at st lvl) else Ok (JErr EJson, st))
  else if (c =? 39) || (c =? 34) then
    if (c =? 39) && negb js then Ok (JErr EJson, st) else
    (* measuring pass first: an error there leaves no node; the node exists before the fill pass *)
    match unesc c b [] 0 (p + 1) with
    | Fuel => Fuel | Oob x => Oob x
    | Ok UErrCp => Ok (JErr ECp, st)
    | Ok UErrUnq => Ok (JErr EUnq, st)
    | Ok (UOk _ _ _) => do r <- jstring c b (p + 1); Ok (r, node_at st lvl)
    end
  else if c =? 93 then Ok (JAt p, st)
  else if is_num_start c then
    if (c =? 46) && negb js then Ok (JErr EJson, st) else
    (do r <- jnumber bf js rng b p; Ok (r, node_at st lvl))
  else Ok (JErr EJson, st).

(* _jbl_parse_value(ctx, lvl, parent, key, klidx, p = b + i) *)
Fixpoint jvalue (fuel bf : nat) (js : bool) (rng : Z -> bool) (b : list Z) (lvl i : Z) (st : jst) {struct fuel} : res (jout * jst) :=
  match fuel with O => Fuel | S f =>
    let st := enter st lvl in
    if lvl >? JBL_MAX_NESTING_LEVEL then Ok (JErr ENest, st) else
    do p <- skip_vws bf b i;
    do c <- rdb b p;
    if c =? 123 then jobject f bf js rng b lvl (p + 1) (node_at st lvl)
    else if c =? 91 then jarray f bf js rng b lvl (p + 1) (node_at st lvl)
    else jscalar bf js rng b lvl p c st
  end
(* for (i = 0; ; ++i) { p = _jbl_parse_value(lvl + 1, ...); if (rc) return 0; if ( *p == ']') return p + 1; } *)
with jarray (fuel bf : nat) (js : bool) (rng : Z -> bool) (b : list Z) (lvl i : Z) (st : jst) {struct fuel} : res (jout * jst) :=
  match fuel with O => Fuel | S f =>
    do r <- jvalue f bf js rng b (lvl + 1) i st;
    match fst r with
    | JErr e => Ok r
    | JAt p => do c <- rdb b p; if c =? 93 then Ok (JAt (p + 1), snd r) else jarray f bf js rng b lvl p (snd r)
    end
  end
(* while (1) { p = key(p); if (rc) return 0; if ( *p == '}') return p + 1; p = _jbl_parse_value(lvl + 1, ...); if (rc) return 0; } *)
with jobject (fuel bf : nat) (js : bool) (rng : Z -> bool) (b : list Z) (lvl i : Z) (st : jst) {struct fuel} : res (jout * jst) :=
  match fuel with O => Fuel | S f =>
    do k <- (if js then js_key bf bf b i else json_key bf bf b i);
    match k with
    | JErr e => Ok (JErr e, st)
    | JAt p =>
      do c <- rdb b p;
      if c =? 125 then Ok (JAt (p + 1), st) else
      do r <- jvalue f bf js rng b (lvl + 1) p st;
      match fst r with
      | JErr e => Ok r
      | JAt p2 => jobject f bf js rng b lvl p2 (snd r)
      end
    end
  end.

(* _jbl_skip_bom *)
Definition skip_bom (b : list Z) : res Z :=
  do c0 <- rdb b 0;
  if c0 =? 239 then
    do c1 <- rdb b 1;
    if c1 =? 187 then (do c2 <- rdb b 2; Ok (if c2 =? 191 then 3 else 0)) else Ok 0
  else Ok 0.

Definition jfuel (b : list Z) : nat := (2 * length b + 4)%nat.
Definition j0 : jst := mkJ 0 (-1) (-1).

(* jbn_from_json (js = false) / jbn_from_js (js = true) on the buffer b: what the top call returns and the counters *)
Definition jparse (js : bool) (rng : Z -> bool) (b : list Z) : res (jout * jst) :=
  do i0 <- skip_bom b;
  jvalue (jfuel b) (S (length b)) js rng b 0 i0 j0.

(* iwstrtod(b, &end) from the start of the buffer: where `end` points to *)
Definition sde_query (b : list Z) : res Z := strtod_end (S (length b)) b 0.

(* jbn_from_json / jbn_from_js as their callers see them: rc and *node.  strict = a text without any value (a lone closing
   bracket: the value parser returns it to a caller that does not exist) is refused (Facts.fact_json_rejects_rootless,
   fixes/safety-json-rootless.diff); otherwise the call reports success with *node == NULL, which jbl_from_json,
   jbl_patch_from_json, jbn_merge_patch_from_json and iwjsreg dereference. *)
Definition jdoc (strict js : bool) (rng : Z -> bool) (b : list Z) : res (jout * jst) :=
  do r <- jparse js rng b;
  match fst r with
  | JAt _ => if strict && (j_nodes (snd r) =? 0) then Ok (JErr EJson, snd r) else Ok r
  | JErr _ => Ok r
  end.
Definition jdoc_current := jdoc fact_json_rejects_rootless.
