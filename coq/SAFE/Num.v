(* src/json/iwjser.c: the number branch of _jbl_parse_value at index level, with the ambient state it consults - errno -
   as an explicit argument.  strtoll(p, &pe, 0) is modelled by its ISO C contract (value, end index, "sets ERANGE");
   iwstrtod is NOT modelled: when the branch hands over to it the model answers NF64 with the errno value iwstrtod starts
   from (the branch's verdict is then a function of the text and of that value only).
   clears = the current tree sets errno = 0 before strtoll (Facts.fact_num_clears_errno, fixes/safety-errno.diff);
   big    = integers beyond int64 are re-read as doubles (Facts.fact_num_big_as_double, fixes/jtext-bigint.diff). *)
Require Import ZArith List Bool. Require Import IW.SAFE.Buf IW.Gen.Facts. Import ListNotations.
Local Open Scope Z_scope. Local Open Scope bool_scope.

Definition ERANGE : Z := 34.
Definition is_space (c : Z) : bool := ((9 <=? c) && (c <=? 13)) || (c =? 32).
Definition digit_val (c : Z) : Z :=
  if (48 <=? c) && (c <=? 57) then c - 48
  else if (97 <=? c) && (c <=? 122) then c - 87
  else if (65 <=? c) && (c <=? 90) then c - 55
  else 99.

Fixpoint sll_spaces (fuel : nat) (p : list Z) (i : Z) : res Z :=
  match fuel with O => Fuel | S f =>
    match rd p i with None => Oob i | Some c => if is_space c then sll_spaces f p (i + 1) else Ok i end end.

(* digits in `base` from index i: exact value, end index, "at least one digit" *)
Fixpoint sll_digits (fuel : nat) (p : list Z) (base i acc : Z) (any : bool) : res (Z * Z * bool) :=
  match fuel with O => Fuel | S f =>
    match rd p i with
    | None => Oob i
    | Some c => if digit_val c <? base then sll_digits f p base (i + 1) (acc * base + digit_val c) true else Ok (acc, i, any)
    end
  end.

(* -> (value, end index, ERANGE was set) *)
Definition strtoll0 (p : list Z) : res (Z * Z * bool) :=
  match sll_spaces (length p) p 0 with
  | Fuel => Fuel | Oob x => Oob x
  | Ok i =>
    match rd p i with
    | None => Oob i
    | Some c =>
      let neg := c =? 45 in
      let i := if (c =? 45) || (c =? 43) then i + 1 else i in
      match rd p i with
      | None => Oob i
      | Some d0 =>
        let pick :=
          if d0 =? 48 then
            match rd p (i + 1) with
            | None => Oob (i + 1)
            | Some x => if (x =? 120) || (x =? 88) then
                          match rd p (i + 2) with
                          | None => Oob (i + 2)
                          | Some h => if digit_val h <? 16 then Ok (16, i + 2) else Ok (8, i)
                          end
                        else Ok (8, i)
            end
          else Ok (10, i) in
        match pick with
        | Fuel => Fuel | Oob x => Oob x
        | Ok (base, i1) =>
          match sll_digits (length p) p base i1 0 false with
          | Fuel => Fuel | Oob x => Oob x
          | Ok (acc, e, any) =>
            if negb any then Ok (0, 0, false)
            else if neg then (if acc >? 2 ^ 63 then Ok (- 2 ^ 63, e, true) else Ok (- acc, e, false))
            else (if acc >? 2 ^ 63 - 1 then Ok (2 ^ 63 - 1, e, true) else Ok (acc, e, false))
          end
        end
      end
    end
  end.

Inductive num_res := NErr | NI64 (v e : Z) | NF64 (errno_in : Z).

Definition num_branch (clears big : bool) (errno : Z) (p : list Z) : res num_res :=
  match rd p 0 with
  | None => Oob 0
  | Some c0 =>
    if c0 =? 46 then Ok NErr                         (* '.' is accepted in js mode only *)
    else
      let e0 := if clears then 0 else errno in
      match strtoll0 p with
      | Fuel => Fuel | Oob x => Oob x
      | Ok (v, pe, er) =>
        let e1 := if er then ERANGE else e0 in
        let isbig := big && negb (pe =? 0) && (e1 =? ERANGE) in
        let fail := if big then (pe =? 0) else (pe =? 0) || (e1 =? ERANGE) in
        let cont :=
          match rd p pe with
          | None => Oob pe
          | Some c => if isbig || (c =? 46) || (c =? 101) || (c =? 69) || (c =? 45) || (c =? 43)
                      then Ok (NF64 (if big then 0 else e1)) else Ok (NI64 v pe)
          end in
        if fail then
          if (c0 =? 45) || (c0 =? 43) then
            match rd p 1 with None => Oob 1 | Some c1 => if c1 =? 46 then cont else Ok NErr end
          else Ok NErr
        else cont
      end
  end.

Definition num_current := num_branch fact_num_clears_errno fact_num_big_as_double.
