(* proofs about SAFE/Num.v: no access beyond the terminator, and the verdict of the number branch is a function of the
   text alone once errno is cleared before the conversion *)
Require Import ZArith List Bool Lia. Require Import IW.SAFE.Buf IW.SAFE.Buf_proofs IW.SAFE.Num IW.Gen.Facts.
Import ListNotations. Local Open Scope Z_scope. Local Open Scope bool_scope.

Lemma sll_spaces_S : forall f p i, sll_spaces (S f) p i =
    match rd p i with None => Oob i | Some c => if is_space c then sll_spaces f p (i + 1) else Ok i end.
Proof. reflexivity. Qed.
Lemma sll_digits_S : forall f p base i acc any, sll_digits (S f) p base i acc any =
    match rd p i with
    | None => Oob i
    | Some c => if digit_val c <? base then sll_digits f p base (i + 1) (acc * base + digit_val c) true else Ok (acc, i, any)
    end.
Proof. reflexivity. Qed.

Lemma digit_val_0 : digit_val 0 = 99.
Proof. reflexivity. Qed.

Section WithInput.
Variable s : list Z.
Hypothesis Hnz : nz s.
Let p := s ++ [0].
Let L := zlen s.

Lemma rdq : forall i, 0 <= i <= L -> exists c, rd p i = Some c /\ (c <> 0 -> i < L).
Proof.
  intros i R. destruct (rd_term s i Hnz R) as [c [E Z0]]. exists c. split; auto. intros N.
  assert (i <> L) by (intro X; apply N; apply Z0; exact X). lia.
Qed.

Lemma sll_spaces_ok : forall fuel i, 0 <= i <= L -> (Z.to_nat (L - i) < fuel)%nat ->
  exists i', sll_spaces fuel p i = Ok i' /\ i <= i' <= L.
Proof.
  induction fuel as [|f IH]; intros i R F; [lia|].
  rewrite sll_spaces_S. destruct (rdq i R) as [c [E N]]. rewrite E.
  destruct (is_space c) eqn:Sp; [|exists i; split; [reflexivity|lia]].
  assert (c <> 0) by (intro X; subst c; discriminate).
  destruct (IH (i + 1)) as [i' [H1 H2]]; [specialize (N H); lia|specialize (N H); lia|].
  exists i'. split; [exact H1|lia].
Qed.

Lemma sll_digits_ok : forall fuel base i acc any, 0 <= i <= L -> base <= 16 -> (Z.to_nat (L - i) < fuel)%nat ->
  exists a e b, sll_digits fuel p base i acc any = Ok (a, e, b) /\ i <= e <= L.
Proof.
  induction fuel as [|f IH]; intros base i acc any R B F; [lia|].
  rewrite sll_digits_S. destruct (rdq i R) as [c [E N]]. rewrite E.
  destruct (digit_val c <? base) eqn:D; [|exists acc, i, any; split; [reflexivity|lia]].
  apply Z.ltb_lt in D. assert (c <> 0) by (intro X; subst c; rewrite digit_val_0 in D; lia).
  specialize (N H).
  destruct (IH base (i + 1) (acc * base + digit_val c) true) as (a & e & b & H1 & H2); try lia.
  exists a, e, b. split; [exact H1|lia].
Qed.

Lemma strtoll0_ok : exists v pe er, strtoll0 p = Ok (v, pe, er) /\ 0 <= pe <= L.
Proof.
  unfold strtoll0. pose proof (zlen_nonneg s) as ZN. fold L in ZN.
  assert (Lp : length p = S (length s)) by (unfold p; rewrite app_length; simpl; lia).
  destruct (sll_spaces_ok (length p) 0) as [i [H1 H2]]; [lia|rewrite Lp; unfold L, zlen; lia|]. rewrite H1.
  destruct (rdq i) as [c [E N]]; [lia|]. rewrite E.
  set (i1 := if (c =? 45) || (c =? 43) then i + 1 else i).
  assert (R1 : i <= i1 <= L).
  { unfold i1. destruct ((c =? 45) || (c =? 43)) eqn:Sg; [|lia].
    assert (c <> 0) by (intro X; subst c; discriminate). specialize (N H). lia. }
  destruct (rdq i1) as [d0 [E0 N0]]; [lia|]. rewrite E0.
  assert (Pick : exists base i2, (if d0 =? 48 then
            match rd p (i1 + 1) with
            | None => Oob (i1 + 1)
            | Some x => if (x =? 120) || (x =? 88) then
                          match rd p (i1 + 2) with
                          | None => Oob (i1 + 2)
                          | Some h => if digit_val h <? 16 then Ok (16, i1 + 2) else Ok (8, i1)
                          end
                        else Ok (8, i1)
            end
          else Ok (10, i1)) = Ok (base, i2) /\ base <= 16 /\ i1 <= i2 <= L).
  { destruct (d0 =? 48) eqn:D0; [|exists 10, i1; split; [reflexivity|lia]].
    apply Z.eqb_eq in D0. assert (I1 : i1 < L) by (apply N0; lia).
    destruct (rdq (i1 + 1)) as [x [Ex Nx]]; [lia|]. rewrite Ex.
    destruct ((x =? 120) || (x =? 88)) eqn:X; [|exists 8, i1; split; [reflexivity|lia]].
    assert (x <> 0) by (intro Y; subst x; discriminate). specialize (Nx H).
    destruct (rdq (i1 + 2)) as [h [Eh Nh]]; [lia|]. rewrite Eh.
    destruct (digit_val h <? 16); [exists 16, (i1 + 2)|exists 8, i1]; (split; [reflexivity|lia]). }
  destruct Pick as (base & i2 & Pk & B & R2). rewrite Pk.
  destruct (sll_digits_ok (length p) base i2 0 false) as (a & e & b & Hd & Re); [lia|lia|rewrite Lp; unfold L, zlen; lia|].
  rewrite Hd. destruct (negb b); [exists 0, 0, false; split; [reflexivity|lia]|].
  destruct (c =? 45).
  - destruct (a >? 2 ^ 63); eexists _, e, _; (split; [reflexivity|lia]).
  - destruct (a >? 2 ^ 63 - 1); eexists _, e, _; (split; [reflexivity|lia]).
Qed.

Theorem num_safe : forall clears big errno, exists r, num_branch clears big errno p = Ok r.
Proof.
  intros clears big errno. unfold num_branch. pose proof (zlen_nonneg s) as ZN. fold L in ZN.
  destruct (rdq 0) as [c0 [E0 N0]]; [lia|]. rewrite E0.
  destruct (c0 =? 46); [eauto|].
  destruct strtoll0_ok as (v & pe & er & H & R). rewrite H. cbv zeta.
  destruct (rdq pe R) as [c [E _]]. rewrite E.
  assert (Cont : exists r, (if (big && negb (pe =? 0) && ((if er then ERANGE else if clears then 0 else errno) =? ERANGE))
                                || (c =? 46) || (c =? 101) || (c =? 69) || (c =? 45) || (c =? 43)
                            then Ok (NF64 (if big then 0 else if er then ERANGE else if clears then 0 else errno))
                            else Ok (NI64 v pe)) = Ok r).
  { match goal with |- exists r, (if ?b then _ else _) = _ => destruct b end; eauto. }
  destruct (if big then pe =? 0 else (pe =? 0) || ((if er then ERANGE else if clears then 0 else errno) =? ERANGE)); [|exact Cont].
  destruct ((c0 =? 45) || (c0 =? 43)) eqn:Sg; [|eauto].
  assert (c0 <> 0) by (intro X; subst c0; discriminate). specialize (N0 H0).
  destruct (rdq 1) as [c1 [E1 _]]; [lia|]. rewrite E1. destruct (c1 =? 46); [exact Cont|eauto].
Qed.
End WithInput.

Theorem num_safe_all : forall s clears big errno, nz s -> exists r, num_branch clears big errno (s ++ [0]) = Ok r.
Proof. intros. apply num_safe; auto. Qed.

(* depends only on the input: with errno cleared, the stale value is never consulted *)
Theorem num_errno_indep : forall big e1 e2 p, num_branch true big e1 p = num_branch true big e2 p.
Proof. intros. reflexivity. Qed.

Theorem num_errno_current : fact_num_clears_errno = true -> forall e1 e2 p, num_current e1 p = num_current e2 p.
Proof. intros H e1 e2 p. unfold num_current. rewrite H. reflexivity. Qed.

(* the code before fixes/safety-errno.diff: "123" is an integer in a fresh thread and an error after an earlier ERANGE *)
Theorem num_errno_refuted : exists p, num_branch false false 0 p = Ok (NI64 123 3) /\ num_branch false false ERANGE p = Ok NErr.
Proof. exists [49; 50; 51; 0]. split; vm_compute; reflexivity. Qed.
(* ... and with jtext-bigint alone it silently becomes a double *)
Theorem num_errno_refuted_big : exists p, num_branch false true 0 p = Ok (NI64 123 3) /\ num_branch false true ERANGE p = Ok (NF64 0).
Proof. exists [49; 50; 51; 0]. split; vm_compute; reflexivity. Qed.
