(* proofs about SAFE/Ptr.v: the JSON pointer parser never leaves its buffers, terminates within the stated fuel and
   hands out only initialised, terminated segments - for every input when '~' is checked (strict), and for inputs
   whose every '~' is followed by '0'/'1' otherwise. *)
Require Import ZArith List Bool Lia. Require Import IW.SAFE.Buf IW.SAFE.Buf_proofs IW.SAFE.Ptr IW.Gen.Facts.
Import ListNotations. Local Open Scope Z_scope. Local Open Scope bool_scope.

(* one-step unfoldings *)
Lemma ptr_count_S : forall f p i cnt, ptr_count (S f) p i cnt =
  match rd p i with
  | None => Oob i
  | Some c => if c =? 0 then Ok (i, cnt) else ptr_count f p (i + 1) (if c =? 47 then cnt + 1 else cnt)
  end.
Proof. reflexivity. Qed.

Lemma ptr_seg_S : forall strict f p out base i k, ptr_seg strict (S f) p out base i k =
    match rd p i with
    | None => Oob i
    | Some c =>
      if (c =? 0) || (c =? 47) then
        match wro out (base + k) 0 with None => Oob (base + k) | Some o => Ok (Some (i, k, o)) end
      else if c =? 126 then
        match rd p (i + 1) with
        | None => Oob (i + 1)
        | Some d =>
          if d =? 48 then
            match wro out (base + k) 126 with None => Oob (base + k) | Some o => ptr_seg strict f p o base (i + 2) (k + 1) end
          else if d =? 49 then
            match wro out (base + k) 47 with None => Oob (base + k) | Some o => ptr_seg strict f p o base (i + 2) (k + 1) end
          else if strict then Ok None
          else ptr_seg strict f p out base (i + 2) (k + 1)
        end
      else
        match wro out (base + k) c with None => Oob (base + k) | Some o => ptr_seg strict f p o base (i + 1) (k + 1) end
    end.
Proof. reflexivity. Qed.

Lemma ptr_outer_S : forall strict f p out n i j cnt jpcnt, ptr_outer strict (S f) p out n i j cnt jpcnt =
    match rd p i with
    | None => Oob i
    | Some c =>
      if (c =? 0) || negb (cnt <? jpcnt) then Ok (PDone jpcnt n out)
      else if c =? 47 then
        match wr n cnt j with
        | None => Oob cnt
        | Some n' =>
          match ptr_seg strict (length p) p out j (i + 1) 0 with
          | Fuel => Fuel
          | Oob x => Oob x
          | Ok None => Ok PErr
          | Ok (Some (i', k, out')) => ptr_outer strict f p out' n' i' (j + k + 1) (cnt + 1) jpcnt
          end
        end
      else ptr_outer strict f p out n (i + 2) (j + 1) cnt jpcnt
    end.
Proof. reflexivity. Qed.

(* ---- lists of Z: upd *)
Lemma upd_length : forall l n x, length (upd l n x) = length l.
Proof. induction l as [|h t IH]; intros [|n] x; simpl; auto. Qed.
Lemma upd_same : forall l n x, (n < length l)%nat -> nth n (upd l n x) 0 = x.
Proof. induction l as [|h t IH]; intros [|n] x H; simpl in *; try lia; auto. apply IH. lia. Qed.
Lemma upd_other : forall l n m x, n <> m -> nth m (upd l n x) 0 = nth m l 0.
Proof. induction l as [|h t IH]; intros [|n] [|m] x H; simpl; auto; try congruence. Qed.

Lemma wr_spec : forall o i x, 0 <= i < zlen o -> exists o', wr o i x = Some o' /\ zlen o' = zlen o /\
  nth (Z.to_nat i) o' 0 = x /\ (forall q, 0 <= q -> q <> i -> nth (Z.to_nat q) o' 0 = nth (Z.to_nat q) o 0).
Proof.
  intros o i x H. unfold wr. assert (E : inb o i = true) by (apply inb_true; auto). rewrite E.
  eexists; split; [reflexivity|]. split; [unfold zlen; rewrite upd_length; auto|].
  split; [apply upd_same; unfold zlen in H; lia|]. intros q Hq N. apply upd_other. lia.
Qed.

(* ---- number of '/' from index i on *)
Fixpoint nsl (l : list Z) : Z := match l with [] => 0 | c :: r => (if c =? 47 then 1 else 0) + nsl r end.
Lemma nsl_nonneg : forall l, 0 <= nsl l.
Proof. induction l as [|c r IH]; simpl; [lia|]. destruct (c =? 47); lia. Qed.
Lemma skipn_nth_cons : forall (l : list Z) n, (n < length l)%nat -> skipn n l = nth n l 0 :: skipn (S n) l.
Proof. induction l as [|h t IH]; intros [|n] H; simpl in *; try lia; auto. apply IH. lia. Qed.

(* every '~' is followed by '0' or '1' *)
Definition tilde_ok (s : list Z) : Prop :=
  forall i, 0 <= i < zlen s -> nth (Z.to_nat i) s 0 = 126 ->
    i + 1 < zlen s /\ (nth (Z.to_nat (i + 1)) s 0 = 48 \/ nth (Z.to_nat (i + 1)) s 0 = 49).

Definition all_str (l : list obs) : Prop := Forall (fun o => exists t, o = OStr t) l.
(* the result is not Oob, not Fuel, and everything the caller can look at is an initialised, terminated string *)
Definition ptr_good (r : res ptr_res) : Prop :=
  exists q, r = Ok q /\ match ptr_observe q with QErr => True | QSegs l => all_str l end.

Section WithInput.
Variable s : list Z.
Hypothesis Hnz : nz s.
Variable strict : bool.
Hypothesis G : strict = true \/ tilde_ok s.
Let p := s ++ [0].
Let L := zlen s.

Definition slf (i : Z) : Z := nsl (skipn (Z.to_nat i) s).
Lemma slf_end : slf L = 0.
Proof. unfold slf, L, zlen. rewrite Nat2Z.id. rewrite skipn_all. reflexivity. Qed.
Lemma slf_step : forall i, 0 <= i < L -> slf i = (if nth (Z.to_nat i) s 0 =? 47 then 1 else 0) + slf (i + 1).
Proof.
  intros i H. unfold slf. rewrite (skipn_nth_cons s (Z.to_nat i)) by (unfold L, zlen in H; lia).
  replace (Z.to_nat (i + 1)) with (S (Z.to_nat i)) by lia. reflexivity.
Qed.
Lemma slf_nonneg : forall i, 0 <= slf i.
Proof. intros i. apply nsl_nonneg. Qed.

Lemma rd_lt : forall i, 0 <= i < L -> rd p i = Some (nth (Z.to_nat i) s 0) /\ nth (Z.to_nat i) s 0 <> 0.
Proof. intros i H. split; [apply rd_app_lt; auto | apply nz_nth; auto]. Qed.
Lemma rd_L : rd p L = Some 0.
Proof. apply rd_app_end. Qed.

Lemma count_ok : forall fuel i cnt, 0 <= i <= L -> (Z.to_nat (L - i) < fuel)%nat ->
  ptr_count fuel p i cnt = Ok (L, cnt + slf i).
Proof.
  induction fuel as [|f IH]; intros i cnt R F; [lia|].
  rewrite ptr_count_S. destruct (Z.eq_dec i L) as [->|N].
  - rewrite rd_L. simpl. rewrite slf_end. f_equal. f_equal. lia.
  - destruct (rd_lt i) as [E Z0]; [lia|]. rewrite E.
    destruct (nth (Z.to_nat i) s 0 =? 0) eqn:Z1; [apply Z.eqb_eq in Z1; contradiction|].
    rewrite IH by lia. rewrite (slf_step i) by lia. destruct (nth (Z.to_nat i) s 0 =? 47); f_equal; f_equal; lia.
Qed.

Definition at_sep (i : Z) : Prop := i = L \/ nth (Z.to_nat i) s 0 = 47.

Lemma seg_ok : forall fuel out base i k,
  0 <= i <= L -> 0 <= base -> 0 <= k -> base + k + (L - i) < olen out -> (Z.to_nat (L - i) < fuel)%nat ->
  prefix_init out (base + k) ->
  ptr_seg strict fuel p out base i k = Ok None \/
  exists i' k' out', ptr_seg strict fuel p out base i k = Ok (Some (i', k', out')) /\
    i <= i' <= L /\ at_sep i' /\ k <= k' /\ k' - k <= i' - i /\ olen out' = olen out /\
    prefix_init out' (base + k' + 1) /\ nth_error out' (Z.to_nat (base + k')) = Some (Some 0) /\ slf i' = slf i.
Proof.
  induction fuel as [|f IH]; intros out base i k R B K Room F P; [lia|].
  rewrite ptr_seg_S. destruct (Z.eq_dec i L) as [->|N].
  - (* at the terminator *)
    rewrite rd_L. simpl. destruct (wro_some out (base + k) 0) as [o W]; [lia|]. rewrite W. right.
    exists L, k, o. split; [reflexivity|]. pose proof (wro_spec _ _ _ _ W) as (_ & OL & S0 & _).
    repeat split; try lia; auto. left; reflexivity. apply (prefix_init_wro out (base + k) 0); auto.
  - destruct (rd_lt i) as [E Z0]; [lia|]. rewrite E. set (c := nth (Z.to_nat i) s 0) in *.
    destruct (c =? 0) eqn:C0; [apply Z.eqb_eq in C0; contradiction|]. simpl.
    destruct (c =? 47) eqn:C47.
    + (* '/' ends the segment *)
      destruct (wro_some out (base + k) 0) as [o W]; [lia|]. rewrite W. right.
      exists i, k, o. split; [reflexivity|]. pose proof (wro_spec _ _ _ _ W) as (_ & OL & S0 & _).
      repeat split; try lia; auto. right; apply Z.eqb_eq; auto. apply (prefix_init_wro out (base + k) 0); auto.
    + destruct (c =? 126) eqn:C126.
      * (* '~' : c <> 0, so i + 1 <= L is inside the buffer *)
        apply Z.eqb_eq in C126.
        assert (Hd : exists d, rd p (i + 1) = Some d /\ ((strict = true) \/ (i + 1 < L /\ d = nth (Z.to_nat (i + 1)) s 0 /\ (d = 48 \/ d = 49)))).
        { destruct G as [Gs|Gt].
          - destruct (rd_term s (i + 1) Hnz) as [d [Hd _]]; [fold L; lia|]. exists d. split; auto.
          - destruct (Gt i) as [Lt D]; [fold L; lia|exact C126|]. fold L in Lt. destruct (rd_lt (i + 1)) as [E1 _]; [lia|].
            eexists; split; [exact E1|]. right. auto. }
        destruct Hd as [d [Ed Hd]]. rewrite Ed.
        assert (Next : forall x o, wro out (base + k) x = Some o -> (d = 48 \/ d = 49) ->
                  ptr_seg strict f p o base (i + 2) (k + 1) = Ok None \/
                  exists i' k' out', ptr_seg strict f p o base (i + 2) (k + 1) = Ok (Some (i', k', out')) /\
                    i <= i' <= L /\ at_sep i' /\ k <= k' /\ k' - k <= i' - i /\ olen out' = olen out /\
                    prefix_init out' (base + k' + 1) /\ nth_error out' (Z.to_nat (base + k')) = Some (Some 0) /\ slf i' = slf i).
        { intros x o W D.
          assert (I1 : i + 1 < L).
          { destruct (Z.eq_dec (i + 1) L) as [EL|NL]; [|lia]. rewrite EL in Ed. rewrite rd_L in Ed. inversion Ed. lia. }
          destruct (rd_lt (i + 1)) as [E1 _]; [lia|]. rewrite E1 in Ed. inversion Ed as [Dn].
          pose proof (wro_spec _ _ _ _ W) as (_ & OL & _ & _).
          destruct (IH o base (i + 2) (k + 1)) as [Hn|(i' & k' & o' & He & Ri & As & Kk & Kd & OL' & P' & T' & Sl)]; try lia.
          { replace (base + (k + 1)) with (base + k + 1) by lia. apply (prefix_init_wro out (base + k) x); auto. }
          { left; auto. }
          right. exists i', k', o'. split; [exact He|]. repeat split; try lia; auto.
          rewrite Sl. rewrite (slf_step i) by lia. rewrite (slf_step (i + 1)) by lia.
          replace (i + 1 + 1) with (i + 2) by lia. fold c. rewrite C47. rewrite Dn.
          destruct D as [->| ->]; simpl; lia. }
        destruct (d =? 48) eqn:D48.
        { apply Z.eqb_eq in D48. destruct (wro_some out (base + k) 126) as [o W]; [lia|]. rewrite W. apply (Next 126 o W). auto. }
        destruct (d =? 49) eqn:D49.
        { apply Z.eqb_eq in D49. destruct (wro_some out (base + k) 47) as [o W]; [lia|]. rewrite W. apply (Next 47 o W). auto. }
        destruct Hd as [Hs|(_ & _ & [D|D])].
        { rewrite Hs. left; reflexivity. }
        { apply Z.eqb_neq in D48. contradiction. }
        { apply Z.eqb_neq in D49. contradiction. }
      * (* ordinary byte *)
        destruct (wro_some out (base + k) c) as [o W]; [lia|]. rewrite W.
        pose proof (wro_spec _ _ _ _ W) as (_ & OL & _ & _).
        destruct (IH o base (i + 1) (k + 1)) as [Hn|(i' & k' & o' & He & Ri & As & Kk & Kd & OL' & P' & T' & Sl)]; try lia.
        { replace (base + (k + 1)) with (base + k + 1) by lia. apply (prefix_init_wro out (base + k) c); auto. }
        { left; auto. }
        right. exists i', k', o'. split; [exact He|]. repeat split; try lia; auto.
        rewrite Sl. rewrite (slf_step i) by lia. fold c. rewrite C47. lia.
Qed.

Definition entries_ok (n : list Z) (cnt j : Z) : Prop := forall c, 0 <= c < cnt -> 0 <= nth (Z.to_nat c) n 0 < j.

Lemma slack_nonneg : 0 <= jbl_ptr_slack.
Proof. unfold jbl_ptr_slack. lia. Qed.

Lemma outer_ok : forall fuel out n i j cnt jpcnt,
  0 <= i <= L -> at_sep i -> 0 <= j <= i -> 0 <= cnt -> cnt + slf i = jpcnt -> zlen n = jpcnt ->
  olen out = L + jbl_ptr_slack -> prefix_init out j -> (0 < j -> nth_error out (Z.to_nat (j - 1)) = Some (Some 0)) ->
  entries_ok n cnt j -> (Z.to_nat (L - i) < fuel)%nat ->
  ptr_outer strict fuel p out n i j cnt jpcnt = Ok PErr \/
  exists n' out' j', ptr_outer strict fuel p out n i j cnt jpcnt = Ok (PDone jpcnt n' out') /\
    zlen n' = jpcnt /\ prefix_init out' j' /\ j' <= olen out' /\
    (0 < j' -> nth_error out' (Z.to_nat (j' - 1)) = Some (Some 0)) /\ entries_ok n' jpcnt j'.
Proof.
  induction fuel as [|f IH]; intros out n i j cnt jpcnt R A J C Cnt Zn OL P T En F; [lia|].
  pose proof slack_nonneg as SN.
  assert (Done : cnt = jpcnt ->
    exists n' out' j', Ok (PDone jpcnt n out) = Ok (PDone jpcnt n' out') /\
    zlen n' = jpcnt /\ prefix_init out' j' /\ j' <= olen out' /\
    (0 < j' -> nth_error out' (Z.to_nat (j' - 1)) = Some (Some 0)) /\ entries_ok n' jpcnt j').
  { intros Ec. exists n, out, j. split; [reflexivity|]. split; [exact Zn|]. split; [exact P|]. split; [lia|]. split; [exact T|].
    rewrite <- Ec. exact En. }
  rewrite ptr_outer_S. destruct (Z.eq_dec i L) as [->|N].
  - rewrite rd_L. simpl. right. apply Done. rewrite slf_end in Cnt. lia.
  - destruct (rd_lt i) as [E Z0]; [lia|]. rewrite E. set (c := nth (Z.to_nat i) s 0) in *.
    destruct (c =? 0) eqn:C0; [apply Z.eqb_eq in C0; contradiction|]. simpl.
    destruct (cnt <? jpcnt) eqn:CJ; simpl.
    2:{ right. apply Done. apply Z.ltb_ge in CJ. pose proof (slf_nonneg i). lia. }
    apply Z.ltb_lt in CJ.
    assert (C47 : c = 47) by (destruct A as [A|A]; [lia|exact A]).
    rewrite C47. simpl.
    destruct (wr_spec n cnt j) as (n' & W & Zn' & Sn & On); [lia|]. rewrite W.
    assert (Lp : length p = S (length s)) by (unfold p; rewrite app_length; simpl; lia).
    destruct (seg_ok (length p) out j (i + 1) 0) as [Hn|(i' & k' & o' & He & Ri & As & Kk & Kd & OL' & P' & T' & Sl)]; try lia.
    { rewrite Lp. unfold L, zlen. lia. }
    { replace (j + 0) with j by lia. exact P. }
    { rewrite Hn. left; reflexivity. }
    rewrite He.
    assert (Cnt' : cnt + 1 + slf i' = jpcnt).
    { rewrite Sl. rewrite (slf_step i) in Cnt by lia. fold c in Cnt. rewrite C47 in Cnt. change (47 =? 47) with true in Cnt. cbv iota in Cnt. lia. }
    assert (T'' : 0 < j + k' + 1 -> nth_error o' (Z.to_nat (j + k' + 1 - 1)) = Some (Some 0)).
    { intros _. replace (j + k' + 1 - 1) with (j + k') by lia. exact T'. }
    assert (En' : entries_ok n' (cnt + 1) (j + k' + 1)).
    { intros q Hq. destruct (Z.eq_dec q cnt) as [->|Nq].
      - rewrite Sn. lia.
      - rewrite On by lia. specialize (En q). lia. }
    apply (IH o' n' i' (j + k' + 1) (cnt + 1) jpcnt); auto; lia.
Qed.

Theorem ptr_parse_good : ptr_good (ptr_parse strict p).
Proof.
  unfold ptr_good, ptr_parse. pose proof slack_nonneg as SN.
  destruct (Z.eq_dec 0 L) as [E0|N0].
  - (* empty path *)
    pose proof rd_L as R0. rewrite <- E0 in R0. rewrite R0. simpl. eexists; split; [reflexivity|]. simpl. constructor.
  - assert (L0 : 0 < L) by (pose proof (zlen_nonneg s); fold L in H; lia).
    destruct (rd_lt 0) as [E Z0]; [lia|]. rewrite E. set (c0 := nth (Z.to_nat 0) s 0) in *.
    destruct (c0 =? 0) eqn:C0; [apply Z.eqb_eq in C0; contradiction|].
    destruct (c0 =? 47) eqn:C47; simpl.
    2:{ eexists; split; [reflexivity|]. simpl. exact I. }
    assert (Lp : length p = S (length s)) by (unfold p; rewrite app_length; simpl; lia).
    rewrite count_ok; [|lia|rewrite Lp; unfold L, zlen; lia].
    replace (0 + slf 0) with (slf 0) by lia.
    assert (Hcl : exists cl, (if L >? 1 then rd p (L - 1) else Some 0) = Some cl).
    { destruct (L >? 1) eqn:G1; [|eauto]. apply Z.gtb_lt in G1. destruct (rd_lt (L - 1)) as [E1 _]; [lia|]. eauto. }
    destruct Hcl as [cl Hcl]. rewrite Hcl.
    destruct ((L >? 1) && (cl =? 47)); [eexists; split; [reflexivity|]; simpl; exact I|].
    pose proof (slf_nonneg 0) as S0.
    destruct (outer_ok (length p) (repeat None (Z.to_nat (L + jbl_ptr_slack))) (repeat (-1) (Z.to_nat (slf 0))) 0 0 0 (slf 0))
      as [He|(n' & o' & j' & He & Zn & P & Jl & T & En)]; try lia.
    + right. apply Z.eqb_eq. exact C47.
    + unfold zlen. rewrite repeat_length. lia.
    + unfold olen. rewrite repeat_length. lia.
    + intros q Hq. lia.
    + intros q Hq. lia.
    + rewrite Lp. unfold L, zlen. lia.
    + rewrite He. eexists; split; [reflexivity|]. simpl. exact I.
    + rewrite He. eexists; split; [reflexivity|]. simpl. unfold all_str. rewrite Forall_forall. intros o Ho.
      apply in_map_iff in Ho. destruct Ho as [off [Ho In]].
      apply (In_nth _ _ 0) in In. destruct In as [m [Hm Hn]].
      specialize (En (Z.of_nat m)). rewrite Nat2Z.id in En. rewrite Hn in En.
      destruct En as [E1 E2]; [unfold zlen in Zn; lia|].
      assert (Lt : off <? 0 = false) by (apply Z.ltb_ge; lia). rewrite Lt in Ho. subst o.
      assert (J0 : 0 < j') by lia.
      apply (ocstr_ok (S (length o')) o' j' off P Jl (T J0)); [lia|]. unfold olen in Jl. lia.
Qed.
End WithInput.

Theorem ptr_safe_strict : forall s, nz s -> ptr_good (ptr_parse true (s ++ [0])).
Proof. intros s H. apply ptr_parse_good; auto. Qed.

Theorem ptr_safe_partial : forall s, nz s -> tilde_ok s -> ptr_good (ptr_parse false (s ++ [0])).
Proof. intros s H T. apply ptr_parse_good; auto. Qed.

Theorem ptr_safe_current : forall s, nz s -> fact_ptr_tilde_strict = true \/ tilde_ok s -> ptr_good (ptr_current (s ++ [0])).
Proof. intros s H T. unfold ptr_current. apply ptr_parse_good; auto. Qed.

(* the unchecked '~': dangling before the terminator it reads path[len+1]; before another byte it leaves a cell of the
   result uninitialised; before '/' it leaves the last entry of n[] uninitialised *)
Theorem ptr_refuted_oob : exists s, nz s /\ ptr_parse false (s ++ [0]) = Oob (zlen s + 1).
Proof. exists [47; 126]. split; [repeat constructor; discriminate|]. vm_compute. reflexivity. Qed.

Theorem ptr_refuted_uninit : exists s q, nz s /\ ptr_parse false (s ++ [0]) = Ok q /\ ptr_observe q = QSegs [OUninit].
Proof. exists [47; 97; 126; 120]. eexists. split; [repeat constructor; discriminate|]. vm_compute. split; reflexivity. Qed.

Theorem ptr_refuted_uninit_entry : exists s cnt n out, nz s /\ ptr_parse false (s ++ [0]) = Ok (PDone cnt n out) /\ In (-1) n.
Proof. exists [47; 126; 47; 98]. do 3 eexists. split; [repeat constructor; discriminate|]. vm_compute. split; [reflexivity|]. right; left; reflexivity. Qed.
