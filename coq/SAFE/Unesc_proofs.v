(* proofs about SAFE/Unesc.v: the string unescaper never reads beyond the terminator (the look-aheads p[1..4], p[-1], *p
   after `p += 6` included), never stores outside the destination, and terminates within strlen+1 iterations *)
Require Import ZArith List Bool Lia. Require Import IW.SAFE.Buf IW.SAFE.Buf_proofs IW.SAFE.Unesc IW.Gen.Facts.
Import ListNotations. Local Open Scope Z_scope. Local Open Scope bool_scope.

Lemma unesc_loop_S : forall f q p out dlen i d, unesc_loop (S f) q p out dlen i d =
    match rd p i with
    | None => Oob i
    | Some c =>
      let i := i + 1 in
      if c =? 0 then Ok UErrUnq
      else if c =? q then Ok (UOk d i out)
      else if c =? 92 then
        match rd p i with
        | None => Oob i
        | Some e =>
          match esc_simple e with
          | Some x => match put out dlen d x with Ok o => unesc_loop f q p o dlen (i + 1) (d + 1) | Oob z => Oob z | Fuel => Fuel end
          | None =>
          if e =? 117 then
            match unesc_u p i with
            | Fuel => Fuel | Oob x => Oob x
            | Ok None => Ok UErrCp
            | Ok (Some (cp, i')) =>
              if negb (cp_valid cp) then Ok UErrCp
              else match put_list out dlen d (utf8_enc cp) with
                   | Ok o => unesc_loop f q p o dlen (i' + 5) (d + Z.of_nat (length (utf8_enc cp)))
                   | Oob z => Oob z | Fuel => Fuel
                   end
            end
          else match put out dlen d c with Ok o => unesc_loop f q p o dlen i (d + 1) | Oob z => Oob z | Fuel => Fuel end
          end
        end
      else match put out dlen d c with Ok o => unesc_loop f q p o dlen i (d + 1) | Oob z => Oob z | Fuel => Fuel end
    end.
Proof. reflexivity. Qed.

Lemma put_ok : forall out dlen d x, 0 <= d -> dlen <= olen out -> exists o, put out dlen d x = Ok o /\ dlen <= olen o.
Proof.
  intros out dlen d x D OL. unfold put. destruct (d <? dlen) eqn:Lt; [|eauto]. apply Z.ltb_lt in Lt.
  destruct (wro_some out d x) as [o W]; [lia|]. rewrite W. exists o. split; auto.
  apply wro_spec in W. destruct W as (_ & OL' & _). lia.
Qed.

Lemma put_list_ok : forall l out dlen d, 0 <= d -> dlen <= olen out -> exists o, put_list out dlen d l = Ok o /\ dlen <= olen o.
Proof.
  induction l as [|x r IH]; intros out dlen d D OL; simpl; [eauto|].
  destruct (put_ok out dlen d x D OL) as [o [P OL']]. rewrite P. apply IH; [lia|auto].
Qed.

Lemma jhex_nz : forall c, jhex c <? 0 = false -> c <> 0.
Proof. intros c H E. subst c. discriminate. Qed.

Section WithInput.
Variable s : list Z.
Hypothesis Hnz : nz s.
Let p := s ++ [0].
Let L := zlen s.

Lemma rdp : forall i, 0 <= i <= L -> exists c, rd p i = Some c /\ (c <> 0 -> i < L).
Proof.
  intros i R. destruct (rd_term s i Hnz R) as [c [E Z0]]. exists c. split; auto. intros N.
  assert (i <> L) by (intro X; apply N; apply Z0; exact X). lia.
Qed.

(* i = index of a byte known to be non-zero *)
Lemma hex4_ok : forall i, 0 <= i < L -> exists r, hex4 p i = Ok r /\ match r with Some _ => i + 4 < L | None => True end.
Proof.
  intros i R. unfold hex4.
  destruct (rdp (i + 1)) as [c1 [E1 N1]]; [lia|]. rewrite E1. destruct (jhex c1 <? 0) eqn:H1; [exists None; split; [reflexivity|exact I]|].
  specialize (N1 (jhex_nz c1 H1)).
  destruct (rdp (i + 2)) as [c2 [E2 N2]]; [lia|]. rewrite E2. destruct (jhex c2 <? 0) eqn:H2; [exists None; split; [reflexivity|exact I]|].
  specialize (N2 (jhex_nz c2 H2)).
  destruct (rdp (i + 3)) as [c3 [E3 N3]]; [lia|]. rewrite E3. destruct (jhex c3 <? 0) eqn:H3; [exists None; split; [reflexivity|exact I]|].
  specialize (N3 (jhex_nz c3 H3)).
  destruct (rdp (i + 4)) as [c4 [E4 N4]]; [lia|]. rewrite E4. destruct (jhex c4 <? 0) eqn:H4; [exists None; split; [reflexivity|exact I]|].
  specialize (N4 (jhex_nz c4 H4)).
  eexists (Some _); split; [reflexivity|]. lia.
Qed.

Lemma unesc_lo_ok : forall i cp, 0 <= i -> i + 4 < L ->
  exists r, unesc_lo p i cp = Ok r /\ match r with Some (_, i') => i <= i' /\ i' + 4 < L | None => True end.
Proof.
  intros i cp R R4. unfold unesc_lo.
  destruct (rdp (i + 5)) as [b5 [E5 N5]]; [lia|]. rewrite E5.
  destruct (b5 =? 92) eqn:B5; cbn [negb]; [|exists None; split; [reflexivity|exact I]].
  apply Z.eqb_eq in B5. assert (I5 : i + 5 < L) by (apply N5; lia).
  destruct (rdp (i + 6)) as [b6 [E6 N6]]; [lia|]. rewrite E6.
  destruct (b6 =? 117) eqn:B6; cbn [negb]; [|exists None; split; [reflexivity|exact I]].
  apply Z.eqb_eq in B6. assert (I6 : i + 6 < L) by (apply N6; lia).
  destruct (hex4_ok (i + 6)) as [r2 [H2 Hr2]]; [lia|]. rewrite H2.
  destruct r2 as [cp2|]; [|exists None; split; [reflexivity|exact I]].
  destruct (negb (Z.land cp2 64512 =? 56320)); [exists None; split; [reflexivity|exact I]|].
  eexists (Some (_, i + 6)); split; [reflexivity|]. lia.
Qed.

Lemma unesc_u_ok : forall i, 0 <= i < L ->
  exists r, unesc_u p i = Ok r /\ match r with Some (_, i') => i <= i' /\ i' + 4 < L | None => True end.
Proof.
  intros i R. unfold unesc_u. destruct (hex4_ok i R) as [r [H Hr]]. rewrite H.
  destruct r as [cp|]; [|exists None; split; [reflexivity|exact I]].
  destruct (Z.land cp 64512 =? 55296).
  - apply unesc_lo_ok; lia.
  - exists (Some (cp, i)); split; [reflexivity|]. lia.
Qed.

Lemma unesc_loop_ok : forall fuel q out dlen i d,
  0 <= i <= L -> 0 <= d -> dlen <= olen out -> (Z.to_nat (L - i) < fuel)%nat ->
  exists r, unesc_loop fuel q p out dlen i d = Ok r.
Proof.
  induction fuel as [|f IH]; intros q out dlen i d R D OL F; [lia|].
  rewrite unesc_loop_S. destruct (rdp i R) as [c [E N]]. rewrite E. cbv zeta.
  destruct (c =? 0) eqn:C0; [eauto|]. apply Z.eqb_neq in C0. specialize (N C0).
  destruct (c =? q); [eauto|].
  assert (Plain : forall x j, j <= L -> i < j -> exists r,
            match put out dlen d x with Ok o => unesc_loop f q p o dlen j (d + 1) | Oob z => Oob z | Fuel => Fuel end = Ok r).
  { intros x j J1 J2. destruct (put_ok out dlen d x D OL) as [o [P OL']]. rewrite P. apply IH; lia. }
  destruct (c =? 92); [|apply Plain; lia].
  destruct (rdp (i + 1)) as [e [E1 N1]]; [lia|]. rewrite E1.
  destruct (esc_simple e) as [x|] eqn:Es.
  { assert (Ne : e <> 0) by (intro X; subst e; vm_compute in Es; discriminate).
    apply Plain; [specialize (N1 Ne); lia|lia]. }
  destruct (e =? 117) eqn:S7; [|apply Plain; lia].
  assert (I1 : i + 1 < L) by (apply N1; intro X; subst e; discriminate).
  destruct (unesc_u_ok (i + 1)) as [r [H Hr]]; [lia|]. rewrite H.
  destruct r as [[cp i']|]; [|eauto]. destruct Hr as [I2 I3].
  destruct (negb (cp_valid cp)); [eauto|].
  destruct (put_list_ok (utf8_enc cp) out dlen d D OL) as [o [P OL']]. rewrite P.
  apply IH; lia.
Qed.

Theorem unesc_safe : forall q out dlen i, 0 <= i <= L -> dlen <= olen out -> exists r, unesc q p out dlen i = Ok r.
Proof.
  intros q out dlen i R OL. unfold unesc. apply unesc_loop_ok; auto; try lia.
  unfold p. rewrite app_length. simpl. unfold L, zlen. lia.
Qed.

Theorem unesc2_safe : forall q i, 0 <= i <= L -> exists r, unesc2 q p i = Ok r.
Proof.
  intros q i R. unfold unesc2. destruct (unesc_safe q [] 0 i R) as [r1 H1]; [unfold olen; simpl; lia|]. rewrite H1.
  destruct r1 as [| |len e o]; [eauto|eauto|].
  destruct (unesc_safe q (repeat None (Z.to_nat len)) len i R) as [r2 H2].
  - unfold olen. rewrite repeat_length. lia.
  - rewrite H2. eauto.
Qed.
End WithInput.

Theorem unesc_safe_all : forall s q out dlen i, nz s -> 0 <= i <= zlen s -> dlen <= olen out ->
  exists r, unesc q (s ++ [0]) out dlen i = Ok r.
Proof. intros. apply unesc_safe; auto. Qed.
Theorem unesc2_safe_all : forall s q i, nz s -> 0 <= i <= zlen s -> exists r, unesc2 q (s ++ [0]) i = Ok r.
Proof. intros. apply unesc2_safe; auto. Qed.
