(* src/utils/iwconv.c at index level: iwhex2bin (hex buffer of exactly hexlen bytes, out buffer of max bytes) and
   iwatoi2 (length delimited: the buffer has exactly len bytes and NO terminator).
   `checked` / `bounded` = the variant of the current tree (Facts.fact_hex2bin_checks_max / fact_atoi2_inf_bounded). *)
Require Import ZArith List Bool. Require Import IW.Lib.CInt IW.SAFE.Buf IW.Gen.Facts. Import ListNotations.
Local Open Scope Z_scope. Local Open Scope bool_scope.

Definition a2h (c : Z) : Z := nth (Z.to_nat c) ascii2hex_tbl 0.

(* while (pos < hexlen) { ... out[vpos++] = ...; if (vpos >= max) return vpos; } return vpos; *)
Fixpoint hex2bin_loop (fuel : nat) (hex : list Z) (out : list (option Z)) (max pos vpos : Z) : res (Z * list (option Z)) :=
  match fuel with O => Fuel | S f =>
    if pos <? zlen hex then
      let first := (pos =? 0) && Z.odd (zlen hex) in
      match (if first then Some 48 else rd hex pos) with
      | None => Oob pos
      | Some i0 =>
        let i1pos := if first then 0 else pos + 1 in
        match rd hex i1pos with
        | None => Oob i1pos
        | Some i1 =>
          let v := uw 8 (Z.lor (uw 8 (Z.shiftl (a2h i0) 4)) (a2h i1)) in
          match wro out vpos v with
          | None => Oob vpos
          | Some o => if vpos + 1 >=? max then Ok (vpos + 1, o)
                      else hex2bin_loop f hex o max (if first then pos + 1 else pos + 2) (vpos + 1)
          end
        end
      end
    else Ok (vpos, out)
  end.

Definition hex2bin (checked : bool) (hex : list Z) (out : list (option Z)) (max : Z) : res (Z * list (option Z)) :=
  if checked && ((zlen hex <? 1) || (max <? 1)) then Ok (0, out)
  else hex2bin_loop (S (length hex)) hex out max 0 0.

(* ---- iwatoi2 *)
Fixpoint atoi2_ws (fuel : nat) (b : list Z) (i : Z) : res Z :=      (* while (len > 0 && *str > '\0' && *str <= ' ') *)
  match fuel with O => Fuel | S f =>
    if i <? zlen b then
      match rd b i with None => Oob i | Some c => if (1 <=? c) && (c <=? 32) then atoi2_ws f b (i + 1) else Ok i end
    else Ok i
  end.

(* strcmp(str, "inf") == 0, byte by byte (stops at the first difference) *)
Fixpoint strcmp_lit (b : list Z) (i : Z) (lit : list Z) : res bool :=
  match lit with
  | [] => match rd b i with None => Oob i | Some c => Ok (c =? 0) end
  | x :: r => match rd b i with None => Oob i | Some c => if c =? x then strcmp_lit b (i + 1) r else Ok false end
  end.

(* len >= 3 && !memcmp(str, "inf", 3) && (len == 3 || str[3] == 0) *)
Definition bounded_inf (b : list Z) (i : Z) : res bool :=
  if zlen b - i >=? 3 then
    match rd b i, rd b (i + 1), rd b (i + 2) with
    | Some c0, Some c1, Some c2 =>
      if (c0 =? 105) && (c1 =? 110) && (c2 =? 102) then
        if zlen b - i =? 3 then Ok true
        else match rd b (i + 3) with None => Oob (i + 3) | Some c3 => Ok (c3 =? 0) end
      else Ok false
    | _, _, _ => Oob i
    end
  else Ok false.

Inductive a2res := AVal (v : Z) | AUB.      (* AUB: signed overflow (undefined behaviour) in the int64_t accumulator *)
Definition fits64 (v : Z) : bool := (- 2 ^ 63 <=? v) && (v <? 2 ^ 63).

(* digits loop; wrap = unsigned accumulator (defined), otherwise the signed arithmetic of the old code *)
Fixpoint atoi2_digits (wrap : bool) (fuel : nat) (b : list Z) (i num : Z) : res a2res :=
  match fuel with O => Fuel | S f =>
    if i <? zlen b then
      match rd b i with
      | None => Oob i
      | Some c =>
        if c =? 0 then Ok (AVal num)
        else if (c <? 48) || (c >? 57) then Ok (AVal num)
        else if wrap then atoi2_digits wrap f b (i + 1) (uw 64 (num * 10 + (c - 48)))
        else if fits64 (num * 10) && fits64 (num * 10 + c) then atoi2_digits wrap f b (i + 1) (num * 10 + c - 48)
        else Ok AUB
      end
    else Ok (AVal num)
  end.

Definition atoi2 (bounded : bool) (b : list Z) : res a2res :=
  match atoi2_ws (S (length b)) b 0 with
  | Fuel => Fuel | Oob x => Oob x
  | Ok i =>
    if zlen b - i =? 0 then Ok (AVal 0)
    else match rd b i with
    | None => Oob i
    | Some c =>
      let '(sign, i) := if c =? 45 then (-1, i + 1) else if c =? 43 then (1, i + 1) else (1, i) in
      match (if bounded then bounded_inf b i else strcmp_lit b i [105; 110; 102]) with
      | Fuel => Fuel | Oob x => Oob x
      | Ok true => Ok (AVal ((2 ^ 63 - 1) * sign))
      | Ok false =>
        match atoi2_digits bounded (S (length b)) b i 0 with
        | Ok (AVal num) => Ok (AVal (if bounded then sw 64 (if sign <? 0 then uw 64 (0 - num) else num) else num * sign))
        | r => r
        end
      end
    end
  end.

Definition hex2bin_current := hex2bin fact_hex2bin_checks_max.
Definition atoi2_current := atoi2 fact_atoi2_inf_bounded.
