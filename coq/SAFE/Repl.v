(* C17: iwu_replace (src/utils/iwutils.c): for every key in turn, every occurrence of the key in the current text is
   replaced by mapper(key) (or by the key itself when the mapper returns NULL); the output of one key is the input of the
   next.  Text level model (the growable buffers are iwxstr: Xstr.v): cur = the bytes at `start` (datalen = strlen(data), as
   every caller in the tree passes it), off = ptr - start, bbuf = the output being assembled.  strstr(ptr, key) is
   `find_from`: an EMPTY key is found at ptr itself.
   skips = the current tree skips empty keys (Facts.fact_replace_skips_empty_key, fixes/safety-replace-empty-key.diff);
   without that an empty key never advances ptr: the loop does not end (Fuel for every fuel, see Repl_proofs.v).
   No proofs here. *)
Require Import ZArith List Bool. Import ListNotations.
Require Import IW.SAFE.Buf IW.Gen.Facts.
Local Open Scope Z_scope. Local Open Scope bool_scope.

Fixpoint prefixb (k s : list Z) : bool :=
  match k, s with
  | [], _ => true
  | x :: k', y :: s' => (x =? y) && prefixb k' s'
  | _ :: _, [] => false
  end.
(* strstr(s, k) where s = the text from position p on: the position of the first occurrence *)
Fixpoint find_from (k s : list Z) (p : Z) : option Z :=
  match s with
  | [] => if prefixb k [] then Some p else None
  | _ :: r => if prefixb k s then Some p else find_from k r (p + 1)
  end.
Definition sub (l : list Z) (a b : Z) : list Z := firstn (Z.to_nat (b - a)) (skipn (Z.to_nat a) l).

(* the inner while (true) for one key; repl = what is appended for an occurrence *)
Fixpoint repl_key (fuel : nat) (key repl cur : list Z) (off : Z) (bbuf : list Z) : res (Z * list Z) :=
  match fuel with O => Fuel | S f =>
    match find_from key (skipn (Z.to_nat off) cur) off with
    | None => Ok (off, if off =? 0 then bbuf else bbuf ++ skipn (Z.to_nat off) cur)
    | Some p =>
      let bbuf' := bbuf ++ sub cur off p ++ repl in
      let off' := p + zlen key in
      if off' >=? zlen cur then Ok (off', bbuf') else repl_key f key repl cur off' bbuf'
    end
  end.

(* for (i < keysz): keys with the mapper's answer for each (None = the mapper returned NULL) *)
Fixpoint repl_keys (skips : bool) (keys : list (list Z * option (list Z))) (cur : list Z) : res (list Z) :=
  match keys with
  | [] => Ok cur
  | (key, m) :: r =>
    if skips && (zlen key =? 0) then repl_keys skips r cur else
    match repl_key (S (length cur)) key (match m with Some v => v | None => key end) cur 0 [] with
    | Fuel => Fuel | Oob i => Oob i
    | Ok (off, bbuf) => repl_keys skips r (if off =? 0 then cur else bbuf)
    end
  end.

(* iwu_replace(&result, data, strlen(data), keys, keysz, mapper, op): the bytes of *result *)
Definition replace (skips : bool) (data : list Z) (keys : list (list Z * option (list Z))) : res (list Z) :=
  match data, keys with
  | [], _ | _, [] => Ok data               (* datalen < 1 || keysz < 1 *)
  | _, _ => repl_keys skips keys data
  end.
Definition replace_current := replace fact_replace_skips_empty_key.
