(* C17: the checked conversion wrappers (Strto.v): memory safety, and the result as a function of the text alone
   exactly when errno is cleared before the conversion *)
Require Import ZArith List Bool Lia. Import ListNotations.
Require Import IW.SAFE.Buf IW.SAFE.Buf_proofs IW.SAFE.Num IW.SAFE.Num_proofs IW.SAFE.Strto IW.Gen.Facts.
Local Open Scope Z_scope. Local Open Scope bool_scope.

Lemma strtoll10_ok : forall s, nz s -> exists v pe er, strtoll10 (s ++ [0]) = Ok (v, pe, er) /\ 0 <= pe <= zlen s.
Proof.
  intros s H. unfold strtoll10. pose proof (zlen_nonneg s) as ZN.
  assert (Lp : length (s ++ [0]) = S (length s)) by (rewrite app_length; simpl; lia).
  destruct (sll_spaces_ok s H (length (s ++ [0])) 0) as [i [E R]]; [lia|rewrite Lp; unfold zlen; lia|]. rewrite E.
  destruct (rdq s H i) as [c [Ec Nc]]; [lia|]. rewrite Ec.
  set (i1 := if (c =? 45) || (c =? 43) then i + 1 else i).
  assert (R1 : 0 <= i1 <= zlen s).
  { unfold i1. destruct ((c =? 45) || (c =? 43)) eqn:X; [|lia].
    assert (c <> 0) by (apply orb_true_iff in X; destruct X as [X|X]; apply Z.eqb_eq in X; lia). specialize (Nc H0). lia. }
  destruct (sll_digits_ok s H (length (s ++ [0])) 10 i1 0 false) as (a & e & b & Ed & Re); [lia|lia|rewrite Lp; unfold zlen; lia|].
  rewrite Ed. destruct (negb b); [exists 0, 0, false; split; auto; lia|].
  destruct (c =? 45); [destruct (a >? 2 ^ 63)|destruct (a >? 2 ^ 63 - 1)]; do 3 eexists; split; eauto; lia.
Qed.

Theorem iw_strtoll_safe : forall s clears errno, nz s -> exists r, iw_strtoll clears errno (s ++ [0]) = Ok r.
Proof.
  intros s clears errno H. unfold iw_strtoll. destruct (strtoll10_ok s H) as (v & pe & er & E & R). rewrite E.
  destruct (rdq s H pe R) as [c [Ec _]]. rewrite Ec. destruct (negb (c =? 0) || _); eauto.
Qed.

(* depends only on the text: with errno cleared the stale value is never consulted *)
Theorem iw_strtoll_errno_indep : forall e1 e2 p, iw_strtoll true e1 p = iw_strtoll true e2 p.
Proof. intros. reflexivity. Qed.

Theorem iw_strtoll_errno_current : fact_strto_clears_errno = true -> forall e1 e2 p, iw_strtoll_current e1 p = iw_strtoll_current e2 p.
Proof. intros H e1 e2 p. unfold iw_strtoll_current. rewrite H. reflexivity. Qed.

(* the wrappers as they are (no errno = 0 before the conversion): a well-formed number converts in a fresh thread and is
   refused after any earlier call that left ERANGE behind *)
Theorem iw_strtoll_errno_refuted : exists p, iw_strtoll false 0 p = Ok (WVal 123) /\ iw_strtoll false ERANGE p = Ok WErr.
Proof. exists [49; 50; 51; 0]. split; vm_compute; reflexivity. Qed.

(* the tree as it is (T1: Facts.fact_strto_clears_errno, observed by running iw_strtoll after errno = ERANGE) *)
Lemma strto_clears_errno_now : fact_strto_clears_errno = true. Proof. reflexivity. Qed.
Theorem iw_strtoll_current_errno_indep : forall e1 e2 p, iw_strtoll_current e1 p = iw_strtoll_current e2 p.
Proof. exact (iw_strtoll_errno_current strto_clears_errno_now). Qed.
