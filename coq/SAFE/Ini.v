(* C17: src/utils/iwini.c at index level: iwini_parse_string = iwini_parse_stream over ini_reader_string.
   Buffers with their fixed sizes (T1: Gen/Facts.v, probe_safety_txt.c):
     line      char line[IWINI_MAX_LINE]   on the stack, NOT initialised, reused for every line
     section   char section[MAX_SECTION] = ""      prev_name  char prev_name[MAX_NAME] = ""   (zero filled)
   Every read and write of the three arrays goes through rdc / wrc (Txt.v): outside the array or a cell that nobody has
   written -> Oob.  The handler is a parameter h : event -> bool (false = the callback returned 0); it is handed C
   strings inside `line` / `section` / `prev_name`, which the model reads the way the callee would (ccstr).
   Compile time options come from Facts (ini_allow_multiline, ..._bom, ..._inline_comments, ..._no_value,
   ini_stop_on_first_error, ini_call_handler_on_new_section); the model is the IWINI_USE_STACK variant.  No proofs here. *)
Require Import ZArith List Bool. Import ListNotations.
Require Import IW.SAFE.Buf IW.SAFE.Txt IW.Gen.Facts.
Local Open Scope Z_scope. Local Open Scope bool_scope.

Definition cells := list (option Z).
Definition lfuel (b : cells) : nat := S (length b).

(* ini_reader_string(str = line, num, ctx): copies up to num - 1 bytes of what is left of the input, through the first \n *)
Fixpoint reader_loop (fuel : nat) (line : cells) (strp num : Z) (rest : list Z) : res (cells * Z * list Z) :=
  match fuel with O => Fuel | S f =>
    if num >? 1 then
      match rest with
      | [] => Ok (line, strp, rest)
      | c :: r =>
        do l1 <- wrc line strp c;
        if c =? 10 then Ok (l1, strp + 1, r) else reader_loop f l1 (strp + 1) (num - 1) r
      end
    else Ok (line, strp, rest)
  end.
Definition reader (line : cells) (num : Z) (rest : list Z) : res (option (cells * list Z)) :=
  match rest with
  | [] => Ok None
  | _ => if num <? 2 then Ok None else
         do r <- reader_loop (lfuel line) line 0 num rest;
         let '(l1, strp, rest') := r in
         do l2 <- wrc l1 strp 0;
         Ok (Some (l2, rest'))
  end.

(* rstrip(s): p = s + strlen(s); while (p > s && is_space( *--p)) *p = 0 *)
Fixpoint rstrip_loop (fuel : nat) (b : cells) (s p : Z) : res cells :=
  match fuel with O => Fuel | S f =>
    if p >? s then
      do c <- rdc b (p - 1);
      if is_space c then (do b1 <- wrc b (p - 1) 0; rstrip_loop f b1 s (p - 1)) else Ok b
    else Ok b
  end.
Definition rstrip (b : cells) (s : Z) : res cells :=
  do p <- cnul (lfuel b) b s; rstrip_loop (lfuel b) b s p.

(* lskip(s): while ( *s && is_space( *s)) s++ *)
Fixpoint lskip (fuel : nat) (b : cells) (s : Z) : res Z :=
  match fuel with O => Fuel | S f =>
    do c <- rdc b s; if negb (c =? 0) && is_space c then lskip f b (s + 1) else Ok s end.

(* find_chars_or_comment(s, chars); chars = None is the NULL argument *)
Definition in_chars (chars : option (list Z)) (c : Z) : bool :=
  match chars with None => false | Some l => existsb (Z.eqb c) l end.
Fixpoint find_coc (fuel : nat) (b : cells) (chars : option (list Z)) (was_space : bool) (s : Z) : res Z :=
  match fuel with O => Fuel | S f =>
    do c <- rdc b s;
    if negb (c =? 0) && negb (in_chars chars c)
       && negb (ini_allow_inline_comments && was_space && existsb (Z.eqb c) ini_inline_comment_prefixes)
    then find_coc f b chars (is_space c) (s + 1) else Ok s
  end.

(* strncpy0(dest, src = line + s, size): for (i = 0; i < size - 1 && src[i]; i++) dest[i] = src[i]; dest[i] = 0 *)
Fixpoint strncpy0_loop (fuel : nat) (dest line : cells) (s size i : Z) : res cells :=
  match fuel with O => Fuel | S f =>
    if i <? size - 1 then
      do c <- rdc line (s + i);
      if c =? 0 then wrc dest i 0 else (do d1 <- wrc dest i c; strncpy0_loop f d1 line s size (i + 1))
    else wrc dest i 0
  end.
Definition strncpy0 (dest line : cells) (s size : Z) : res cells := strncpy0_loop (lfuel dest) dest line s size 0.

(* one call of the handler: (section, name or NULL, value or NULL) as the callee reads them *)
Inductive event := Ev (section : list Z) (name value : option (list Z)).

Record ist := mkI { i_section : cells; i_prev : cells; i_error : Z }.

Definition call (h : event -> bool) (st : ist) (lineno : Z) (e : event) : ist :=       (* if (!HANDLER(...) && !error) error = lineno *)
  if negb (h e) && (i_error st =? 0) then mkI (i_section st) (i_prev st) lineno else st.
Definition set_error (st : ist) (lineno : Z) : ist :=                                    (* if (!error) error = lineno *)
  if i_error st =? 0 then mkI (i_section st) (i_prev st) lineno else st.

(* lineno == 1 && line[0..2] == EF BB BF (short-circuit): where the line starts *)
Definition bom_start (line : cells) (lineno : Z) : res Z :=
  if ini_allow_bom && (lineno =? 1) then
    do c0 <- rdc line 0;
    if c0 =? 239 then
      do c1 <- rdc line 1;
      if c1 =? 187 then (do c2 <- rdc line 2; Ok (if c2 =? 191 then 3 else 0)) else Ok 0
    else Ok 0
  else Ok 0.

Definition lres := res (cells * ist * list event).

(* non-blank line with leading whitespace while a name is remembered: HANDLER(user, section, prev_name, start) *)
Definition do_multiline (h : event -> bool) (l1 : cells) (lineno : Z) (st : ist) (start : Z) : lres :=
  do sec <- ccstr (lfuel (i_section st)) (i_section st) 0;
  do nm <- ccstr (lfuel (i_prev st)) (i_prev st) 0;
  do v <- ccstr (lfuel l1) l1 start;
  let e := Ev sec (Some nm) (Some v) in
  Ok (l1, call h st lineno e, [e]).

(* a "[section]" line; start = the index of the bracket *)
Definition do_section (h : event -> bool) (l1 : cells) (lineno : Z) (st : ist) (start : Z) : lres :=
  do e <- find_coc (lfuel l1) l1 (Some [93]) false (start + 1);
  do ce <- rdc l1 e;
  if ce =? 93 then
    do l2 <- wrc l1 e 0;
    do sec <- strncpy0 (i_section st) l2 (start + 1) ini_max_section;
    do prev <- wrc (i_prev st) 0 0;
    let st1 := mkI sec prev (i_error st) in
    if ini_call_handler_on_new_section then
      do s <- ccstr (lfuel sec) sec 0;
      let ev := Ev s None None in
      Ok (l2, call h st1 lineno ev, [ev])
    else Ok (l2, st1, [])
  else Ok (l1, set_error st lineno, []).

(* a name[=:]value line; start = the index of the first byte of the name *)
Definition do_pair (h : event -> bool) (l1 : cells) (lineno : Z) (st : ist) (start : Z) : lres :=
  do e <- find_coc (lfuel l1) l1 (Some [61; 58]) false start;
  do ce <- rdc l1 e;
  if (ce =? 61) || (ce =? 58) then
    do l2 <- wrc l1 e 0;
    do l3 <- rstrip l2 start;
    let value0 := e + 1 in
    do l4 <- (if ini_allow_inline_comments then
                do e2 <- find_coc (lfuel l3) l3 None false value0;
                do c2 <- rdc l3 e2;
                if negb (c2 =? 0) then wrc l3 e2 0 else Ok l3
              else Ok l3);
    do value <- lskip (lfuel l4) l4 value0;
    do l5 <- rstrip l4 value;
    do prev <- strncpy0 (i_prev st) l5 start ini_max_name;
    let st1 := mkI (i_section st) prev (i_error st) in
    do sec <- ccstr (lfuel (i_section st1)) (i_section st1) 0;
    do nm <- ccstr (lfuel l5) l5 start;
    do v <- ccstr (lfuel l5) l5 value;
    let ev := Ev sec (Some nm) (Some v) in
    Ok (l5, call h st1 lineno ev, [ev])
  else if i_error st =? 0 then
    if ini_allow_no_value then
      do l2 <- wrc l1 e 0;
      do l3 <- rstrip l2 start;
      do sec <- ccstr (lfuel (i_section st)) (i_section st) 0;
      do nm <- ccstr (lfuel l3) l3 start;
      let ev := Ev sec (Some nm) None in
      Ok (l3, call h st lineno ev, [ev])
    else Ok (l1, set_error st lineno, [])
  else Ok (l1, st, []).

(* the body of the while loop for one line already in `line` *)
Definition process_line (h : event -> bool) (line : cells) (lineno : Z) (st : ist) : lres :=
  do start0 <- bom_start line lineno;
  do l1 <- rstrip line start0;
  do start <- lskip (lfuel l1) l1 start0;
  do c <- rdc l1 start;
  if strchr_lit ini_start_comment_prefixes c then Ok (l1, st, []) else
  do p0 <- rdc (i_prev st) 0;
  if ini_allow_multiline && negb (p0 =? 0) && negb (c =? 0) && (start >? 0) then do_multiline h l1 lineno st start
  else if c =? 91 then do_section h l1 lineno st start
  else if negb (c =? 0) then do_pair h l1 lineno st start
  else Ok (l1, st, []).

(* while (reader(line, max_line, stream) != NULL) { lineno++; ... } *)
Fixpoint ini_loop (fuel : nat) (h : event -> bool) (line : cells) (lineno : Z) (st : ist) (rest : list Z)
                  (acc : list event) : res (Z * list event) :=
  match fuel with O => Fuel | S f =>
    do r <- reader line ini_max_line rest;
    match r with
    | None => Ok (i_error st, acc)
    | Some (l1, rest1) =>
      do q <- process_line h l1 (lineno + 1) st;
      let '(l2, st2, evs) := q in
      if ini_stop_on_first_error && negb (i_error st2 =? 0) then Ok (i_error st2, acc ++ evs)
      else ini_loop f h l2 (lineno + 1) st2 rest1 (acc ++ evs)
    end
  end.

Definition zeros (n : Z) : cells := repeat (Some 0) (Z.to_nat n).
Definition fresh (n : Z) : cells := repeat None (Z.to_nat n).

(* iwini_parse_string(string = s ++ [0], handler, user): s = the strlen(string) bytes the reader will hand out.
   -> (return value = number of the first line in error or 0, the handler calls in order) *)
Definition ini_parse (h : event -> bool) (s : list Z) : res (Z * list event) :=
  ini_loop (S (length s)) h (fresh ini_max_line) 0 (mkI (zeros ini_max_section) (zeros ini_max_name) 0) s [].

(* the handler of harness/h_safety.c: refuses (returns 0) a value that starts with `!` and a name that starts with `!` *)
Definition h_bang (e : event) : bool :=
  match e with
  | Ev _ n v =>
    negb (match v with Some (33 :: _) => true | _ => false end) &&
    negb (match n with Some (33 :: _) => true | _ => false end)
  end.
Definition ini_query (s : list Z) : res (Z * list event) := ini_parse h_bang s.
