(* C17, regex matcher: the result of iwre_match is a function of (program, text, array length) - never of what the caller's
   array held before - and the reported group count is bounded by the capacity and by the number of groups + 1. *)
Require Import ZArith List Bool Lia.
Require Import IW.SAFE.Buf IW.SAFE.Re IW.Gen.Facts.
Import ListNotations. Local Open Scope Z_scope.

(* ---- tries *)
Lemma pget_pput_same : forall A (p : positive) (x : A) t, pget p (pput p x t) = Some x.
Proof. induction p; intros x t; destruct t; simpl; auto. Qed.

Lemma pget_PL : forall A (p : positive), pget p (@PL A) = None.
Proof. intros; destruct p; reflexivity. Qed.

Lemma pget_pput_other : forall A (p q : positive) (x : A) t, p <> q -> pget q (pput p x t) = pget q t.
Proof.
  induction p; intros q x t H; destruct q; destruct t; simpl; try rewrite pget_PL; try reflexivity; try congruence;
    try (rewrite IHp by congruence; try rewrite pget_PL; reflexivity).
Qed.

Lemma fetch_load : forall code pc0 t pc i, fetch (load code pc0 t) pc = Some i -> In i code \/ fetch t pc = Some i.
Proof.
  induction code as [|i0 r IH]; intros pc0 t pc i H; simpl in H; [right; exact H|].
  apply IH in H. destruct H as [H|H]; [left; right; exact H|].
  unfold fetch in *. destruct (pc <? 0); [discriminate|].
  destruct (Pos.eq_dec (key pc0) (key pc)) as [E|E].
  - rewrite <- E, pget_pput_same in H. inversion H; subst. left; left; reflexivity.
  - rewrite pget_pput_other in H by exact E. right; exact H.
Qed.

Lemma fetch_load_in : forall code pc i, fetch (load code 0 PL) pc = Some i -> In i code.
Proof.
  intros code pc i H. apply fetch_load in H. destruct H as [H|H]; [exact H|].
  unfold fetch in H. destruct (pc <? 0); [discriminate|]. rewrite pget_PL in H. discriminate.
Qed.

(* ---- cells *)
Lemma setcell_length : forall l n x, length (setcell l n x) = length l.
Proof. induction l; intros [|n] x; simpl; auto. Qed.

Lemma setcell_nth_other : forall l n x i, i <> n -> nth i (setcell l n x) CNull = nth i l CNull.
Proof.
  induction l as [|h t IH]; intros [|n] x [|i] H; simpl; try reflexivity; try congruence.
  apply IH. congruence.
Qed.

Lemma count_set_bounds : forall l, 0 <= count_set l <= Z.of_nat (length l).
Proof.
  induction l as [|c r IH]; [simpl; lia|].
  cbn [count_set length]. destruct (is_null c); lia.
Qed.

(* every slot from index n on is null => at most n leading non-null slots *)
Lemma count_set_le : forall l n, (forall i, (n <= i)%nat -> nth i l CNull = CNull) -> count_set l <= Z.of_nat n.
Proof.
  induction l as [|c r IH]; intros n H; [simpl; lia|].
  cbn [count_set]. destruct (is_null c) eqn:E; [lia|].
  destruct n as [|n].
  - specialize (H O (le_n _)). simpl in H. subst c. discriminate.
  - assert (count_set r <= Z.of_nat n).
    { apply IH. intros i Hi. apply (H (S i)). lia. }
    lia.
Qed.

(* ---- one-step unfoldings of the fuelled functions *)
Lemma vm_add_eq : forall f prog tlen nm st pc sp m,
  vm_add (S f) prog tlen nm st pc sp m =
    match pget (key pc) (visited st) with
    | Some _ => Ok st
    | None =>
      let st1 := mkT (pput (key pc) tt (visited st)) (entries st) in
      match fetch prog pc with
      | None => Oob pc
      | Some i =>
        match i with
        | IMatch | IChr _ | IAny | ICls _ _ => Ok (mkT (visited st1) ((pc, m) :: entries st1))
        | ISplit a b => rbind (vm_add f prog tlen nm st1 a sp m) (fun s2 => vm_add f prog tlen nm s2 b sp m)
        | IJmp t => vm_add f prog tlen nm st1 t sp m
        | IBeg => if sp =? 0 then vm_add f prog tlen nm st1 (pc + 1) sp m else Ok st1
        | IEnd => if sp =? tlen then vm_add f prog tlen nm st1 (pc + 1) sp m else Ok st1
        | ISave k =>
          if (k <? nm) && (k <? re_max_matches) then vm_add f prog tlen nm st1 (pc + 1) sp (setcell m (Z.to_nat k) (COff sp))
          else vm_add f prog tlen nm st1 (pc + 1) sp m
        end
      end
    end.
Proof. reflexivity. Qed.

Lemma vm_loop_eq : forall f afuel prog tlen nm rest sp cur best,
  vm_loop (S f) afuel prog tlen nm rest sp cur best =
    rbind (pk rest) (fun c =>
    rbind (vm_step afuel prog tlen nm cur c sp tempty best) (fun r =>
    let nxt := rev (entries (fst r)) in
    match nxt with
    | [] => Ok (snd r)
    | _ => if c =? 0 then Ok (snd r) else vm_loop f afuel prog tlen nm (tl rest) (sp + 1) nxt (snd r)
    end)).
Proof. reflexivity. Qed.

(* ---- an invariant of the match arrays of all threads *)
Section Inv.
Variable P : list cell -> Prop.
Variable prog : ptree instr.
Variables tlen nm : Z.
Hypothesis Psave : forall pc k m sp, fetch prog pc = Some (ISave k) -> (k <? nm) && (k <? re_max_matches) = true ->
  P m -> P (setcell m (Z.to_nat k) (COff sp)).

Definition allP (l : list (Z * list cell)) : Prop := Forall (fun e => P (snd e)) l.

Lemma vm_add_inv : forall fuel st pc sp m st', allP (entries st) -> P m ->
  vm_add fuel prog tlen nm st pc sp m = Ok st' -> allP (entries st').
Proof.
  induction fuel as [|f IH]; intros st pc sp m st' Hst Hm H; [discriminate|].
  rewrite vm_add_eq in H.
  destruct (pget (key pc) (visited st)); [inversion H; subst; exact Hst|].
  cbv zeta in H.
  destruct (fetch prog pc) as [i|] eqn:Ef; [|discriminate].
  assert (Hst1 : allP (entries (mkT (pput (key pc) tt (visited st)) (entries st)))) by exact Hst.
  destruct i.
  - inversion H; subst. simpl. constructor; [exact Hm|exact Hst].
  - inversion H; subst. simpl. constructor; [exact Hm|exact Hst].
  - inversion H; subst. simpl. constructor; [exact Hm|exact Hst].
  - inversion H; subst. simpl. constructor; [exact Hm|exact Hst].
  - destruct (vm_add f prog tlen nm _ a sp m) as [s2| |] eqn:E1; try discriminate. simpl in H.
    eapply IH; [|exact Hm|exact H]. eapply IH; [exact Hst1|exact Hm|exact E1].
  - eapply IH; [exact Hst1|exact Hm|exact H].
  - destruct (sp =? 0); [eapply IH; [exact Hst1|exact Hm|exact H]|inversion H; subst; exact Hst].
  - destruct (sp =? tlen); [eapply IH; [exact Hst1|exact Hm|exact H]|inversion H; subst; exact Hst].
  - destruct ((k <? nm) && (k <? re_max_matches)) eqn:Ek.
    + eapply IH; [exact Hst1| |exact H]. eapply Psave; eauto.
    + eapply IH; [exact Hst1|exact Hm|exact H].
Qed.

Definition bestP (b : option (list cell)) : Prop := forall m, b = Some m -> P m.

Lemma vm_step_inv : forall afuel cur c sp nxt best r, allP cur -> allP (entries nxt) -> bestP best ->
  vm_step afuel prog tlen nm cur c sp nxt best = Ok r -> allP (entries (fst r)) /\ bestP (snd r).
Proof.
  intros afuel. induction cur as [|[pc m] rest IH]; intros c sp nxt best r Hc Hn Hb H.
  - simpl in H. inversion H; subst. simpl. split; assumption.
  - cbn [vm_step] in H. inversion Hc as [|x l Hm Hrest]; subst. simpl in Hm.
    destruct (fetch prog pc) as [i|]; [|discriminate].
    assert (ADV : forall ok : bool,
      (if ok then rbind (vm_add afuel prog tlen nm nxt (pc + 1) (sp + 1) m)
                        (fun n2 => vm_step afuel prog tlen nm rest c sp n2 best)
       else vm_step afuel prog tlen nm rest c sp nxt best) = Ok r -> allP (entries (fst r)) /\ bestP (snd r)).
    { intros [|] HH.
      - destruct (vm_add afuel prog tlen nm nxt (pc + 1) (sp + 1) m) as [n2| |] eqn:E; try discriminate. simpl in HH.
        eapply IH; [exact Hrest| |exact Hb|exact HH]. eapply vm_add_inv; [exact Hn|exact Hm|exact E].
      - eapply IH; [exact Hrest|exact Hn|exact Hb|exact HH]. }
    destruct i; try discriminate; try (eapply ADV; exact H).
    inversion H; subst. simpl. split; [exact Hn|]. intros m' E. inversion E; subst. exact Hm.
Qed.

Lemma allP_rev : forall l, allP l -> allP (rev l).
Proof. intros l H. unfold allP in *. apply Forall_rev. exact H. Qed.

Lemma vm_loop_inv : forall fuel afuel rest sp cur best b, allP cur -> bestP best ->
  vm_loop fuel afuel prog tlen nm rest sp cur best = Ok b -> bestP b.
Proof.
  induction fuel as [|f IH]; intros afuel rest sp cur best b Hc Hb H; [discriminate|].
  rewrite vm_loop_eq in H.
  destruct (pk rest) as [c| |]; try discriminate. simpl in H.
  destruct (vm_step afuel prog tlen nm cur c sp tempty best) as [r| |] eqn:E; try discriminate. simpl in H.
  apply vm_step_inv in E; [|exact Hc|constructor|exact Hb]. destruct E as [E1 E2].
  apply allP_rev in E1.
  destruct (rev (entries (fst r))) as [|e l] eqn:Er; [inversion H; subst; exact E2|].
  destruct (c =? 0); [inversion H; subst; exact E2|].
  eapply IH; [exact E1|exact E2|exact H].
Qed.
End Inv.

(* cregex_program_run: either nothing matched and the array is what it was, or its first slots are the match array m of
   a thread, which satisfies every invariant P of the thread arrays *)
Lemma vm_run_inv : forall (P : list cell -> Prop) code text arr nm b a,
  (forall k m sp, In (ISave k) code -> (k <? nm) && (k <? re_max_matches) = true -> P m -> P (setcell m (Z.to_nat k) (COff sp))) ->
  P (firstn (Z.to_nat (Z.min nm re_max_matches)) arr) ->
  vm_run code text arr nm = Ok (b, a) ->
  (b = false /\ a = arr) \/ (exists m, b = true /\ a = m ++ skipn (length m) arr /\ P m).
Proof.
  intros P code text arr nm b a Hs H0 H. unfold vm_run in H.
  set (prog := load code 0 PL) in *.
  assert (PS : forall pc k m sp, fetch prog pc = Some (ISave k) -> (k <? nm) && (k <? re_max_matches) = true ->
                                 P m -> P (setcell m (Z.to_nat k) (COff sp))).
  { intros pc k m sp Hf. apply Hs. eapply fetch_load_in. exact Hf. }
  destruct (vm_add _ prog (zlen text) nm tempty 0 0 _) as [st0| |] eqn:E0; try discriminate. cbn [rbind] in H.
  destruct (vm_loop _ _ prog (zlen text) nm _ 0 _ None) as [best| |] eqn:E1; try discriminate. cbn [rbind] in H.
  assert (B : bestP P best).
  { eapply vm_loop_inv; [exact PS| | |exact E1].
    - apply allP_rev. eapply vm_add_inv; [exact PS| |exact H0|exact E0]. constructor.
    - intros m Hm. discriminate. }
  destruct best as [m|]; inversion H; subst.
  - right. exists m. repeat split. apply B. reflexivity.
  - left. split; reflexivity.
Qed.

(* ---- iwre_match *)
Lemma map_null_repeat : forall prior : list cell, map (fun _ => CNull) prior = repeat CNull (length prior).
Proof. induction prior; simpl; congruence. Qed.

(* odd length: refused, the array is not touched *)
Lemma re_match_odd : forall code text prior, Z.odd (Z.of_nat (length prior)) = true ->
  re_match code text prior = Ok (-1, prior).
Proof. intros code text prior H. unfold re_match. rewrite H. reflexivity. Qed.

(* even length: the complete result (return value and every slot) is a function of (program, text, length) *)
Lemma re_match_even : forall code text prior, Z.odd (Z.of_nat (length prior)) = false ->
  re_match code text prior = re_match code text (repeat CNull (length prior)).
Proof.
  intros code text prior H. unfold re_match. rewrite repeat_length, H, !map_null_repeat, repeat_length. reflexivity.
Qed.

Theorem re_match_prior_indep : forall code text prior prior', length prior = length prior' ->
  Z.odd (Z.of_nat (length prior)) = false -> re_match code text prior = re_match code text prior'.
Proof.
  intros code text prior prior' L H. rewrite (re_match_even code text prior H).
  rewrite L in H. rewrite (re_match_even code text prior' H). rewrite L. reflexivity.
Qed.

(* the return value alone never depends on the prior contents, for any length *)
Definition rfst (r : res (Z * list cell)) : res Z := rbind r (fun x => Ok (fst x)).
Theorem re_match_ret_indep : forall code text prior prior', length prior = length prior' ->
  rfst (re_match code text prior) = rfst (re_match code text prior').
Proof.
  intros code text prior prior' L. destruct (Z.odd (Z.of_nat (length prior))) eqn:H.
  - rewrite (re_match_odd _ _ prior H). rewrite L in H. rewrite (re_match_odd _ _ prior' H). reflexivity.
  - rewrite (re_match_prior_indep code text prior prior' L H). reflexivity.
Qed.

Theorem re_query_prior_indep : forall pat text prior, Z.odd (Z.of_nat (length prior)) = false ->
  re_query_prior pat text prior = re_query pat text (Z.of_nat (length prior)).
Proof.
  intros pat text prior H. unfold re_query_prior, re_query.
  destruct (re_create pat) as [[code|]| |]; simpl; try reflexivity.
  rewrite Nat2Z.id. rewrite (re_match_even code text prior H). reflexivity.
Qed.

Lemma nth_skipn_c : forall k (l : list cell) i, nth i (skipn k l) CNull = nth (k + i) l CNull.
Proof. induction k; intros [|h t] i; simpl; auto. destruct i; reflexivity. Qed.

Lemma nth_firstn_null : forall k (l : list cell) i, (forall j, nth j l CNull = CNull) -> nth i (firstn k l) CNull = CNull.
Proof.
  induction k; intros [|h t] i H; simpl; try (destruct i; reflexivity).
  destruct i; [exact (H O)|]. apply IHk. intro j. exact (H (S j)).
Qed.

Lemma all_null_nth : forall n i, nth i (repeat CNull n) CNull = CNull.
Proof. induction n; intros [|i]; simpl; auto. Qed.

(* capacity: the array keeps its length, and 2 * ret slots fit into it *)
Theorem re_match_capacity : forall code text prior r a, re_match code text prior = Ok (r, a) ->
  length a = length prior /\ -1 <= r /\ 2 * r <= Z.of_nat (length prior).
Proof.
  intros code text prior r a H. unfold re_match in H.
  destruct (Z.odd (Z.of_nat (length prior))) eqn:Eo.
  - inversion H; subst. repeat split; lia.
  - rewrite map_null_repeat in H. set (arr := repeat CNull (length prior)) in *.
    destruct (vm_run code text arr (Z.of_nat (length prior))) as [[b a']| |] eqn:E; try discriminate. cbn [rbind] in H.
    assert (LA : length arr = length prior) by apply repeat_length.
    apply (vm_run_inv (fun m => (length m <= length arr)%nat)) in E.
    + assert (La : length a' = length prior).
      { destruct E as [[_ ->]|[m [_ [-> Hm]]]]; [exact LA|].
        rewrite app_length, skipn_length. lia. }
      pose proof (count_set_bounds a') as CB. rewrite La in CB.
      destruct b; inversion H; subst.
      * split; [exact La|]. split; [apply Z.le_trans with 0; [lia|apply Z.div_pos; lia]|].
        pose proof (Z.mul_div_le (count_set a) 2). lia.
      * split; [exact La|]. lia.
    + intros k m sp _ _ Hm. rewrite setcell_length. exact Hm.
    + rewrite firstn_length. lia.
Qed.

(* groups: when every SAVE slot of the program is below 2 * g, at most g groups are reported *)
Theorem re_match_groups : forall code text prior g r a, 0 <= g ->
  (forall k, In (ISave k) code -> 0 <= k < 2 * g) ->
  re_match code text prior = Ok (r, a) -> r <= g.
Proof.
  intros code text prior g r a Hg Hs H. unfold re_match in H.
  destruct (Z.odd (Z.of_nat (length prior))) eqn:Eo; [inversion H; subst; lia|].
  rewrite map_null_repeat in H. set (arr := repeat CNull (length prior)) in *.
  destruct (vm_run code text arr (Z.of_nat (length prior))) as [[b a']| |] eqn:E; try discriminate. cbn [rbind] in H.
  destruct b; [|inversion H; subst; lia].
  inversion H; subst. clear H.
  set (n := Z.to_nat (2 * g)).
  apply (vm_run_inv (fun m => forall i, (n <= i)%nat -> nth i m CNull = CNull)) in E.
  - assert (N : forall i, (n <= i)%nat -> nth i a CNull = CNull).
    { destruct E as [[Hb _]|[m [_ [-> Hm]]]]; [discriminate|].
      intros i Hi. destruct (Nat.lt_ge_cases i (length m)) as [L|L].
      - rewrite app_nth1 by exact L. apply Hm; exact Hi.
      - rewrite app_nth2 by exact L. rewrite nth_skipn_c. unfold arr. apply all_null_nth. }
    apply count_set_le in N. unfold n in N. rewrite Z2Nat.id in N by lia.
    apply Z.div_le_upper_bound; lia.
  - intros k m sp Hin Hk Hm i Hi. rewrite setcell_nth_other; [apply Hm; exact Hi|].
    apply Hs in Hin. unfold n in Hi. intro Eq. subst i. apply Z2Nat.inj_le in Hi; lia.
  - intros i Hi. apply nth_firstn_null. intro j. apply all_null_nth.
Qed.

(* ---- the compiler numbers the SAVE slots of a pattern with g groups below 2 * (g + 1) *)
Definition saves (code : list instr) (B : Z) : Prop := forall k, In (ISave k) code -> 0 <= k < B.

Lemma saves_nil : forall B, saves [] B.
Proof. intros B k []. Qed.
Lemma saves_app : forall a b B, saves a B -> saves b B -> saves (a ++ b) B.
Proof. intros a b B Ha Hb k H. apply in_app_or in H. destruct H; auto. Qed.
Lemma saves_cons_other : forall i l B, (forall k, i <> ISave k) -> saves l B -> saves (i :: l) B.
Proof. intros i l B Hi Hl k [H|H]; [exfalso; eapply Hi; exact H|auto]. Qed.
Lemma saves_cons_save : forall j l B, 0 <= j < B -> saves l B -> saves (ISave j :: l) B.
Proof. intros j l B Hj Hl k [H|H]; [inversion H; subst; exact Hj|auto]. Qed.
Lemma saves_mono : forall l B B', B <= B' -> saves l B -> saves l B'.
Proof. intros l B B' H Hl k Hk. apply Hl in Hk. lia. Qed.
Lemma swap_if_not_save : forall b x y k, swap_if b x y <> ISave k.
Proof. intros [|] x y k; discriminate. Qed.

Lemma ncaps_nonneg : forall n, 0 <= ncaps n.
Proof. induction n; cbn [ncaps]; lia. Qed.

Definition cq_ok (cq : Z -> res (list instr * Z)) (nc0 c : Z) : Prop :=
  forall p code n', cq p = Ok (code, n') -> nc0 <= n' <= nc0 + c /\ saves code (2 * (nc0 + c)).

Lemma rep_min_saves : forall cq nc0 c, cq_ok cq nc0 c -> forall k p last nc code l nc',
  nc0 <= nc <= nc0 + c -> rep_min cq k p last nc = Ok (code, l, nc') ->
  nc0 <= nc' <= nc0 + c /\ saves code (2 * (nc0 + c)).
Proof.
  intros cq nc0 c Hq. induction k as [|k IH]; intros p last nc code l nc' Hn H.
  - simpl in H. inversion H; subst. split; [exact Hn|apply saves_nil].
  - cbn [rep_min] in H. destruct (cq p) as [[ca na]| |] eqn:Ea; try discriminate. cbn [rbind fst snd] in H.
    destruct (rep_min cq k (p + ilen ca) p na) as [[[cb lb] nb]| |] eqn:Eb; try discriminate. cbn [rbind fst snd] in H.
    inversion H; subst. apply Hq in Ea. destruct Ea as [Ea1 Ea2].
    apply IH in Eb; [|exact Ea1]. destruct Eb as [Eb1 Eb2].
    split; [exact Eb1|apply saves_app; assumption].
Qed.

Lemma rep_opt_saves : forall cq nc0 c lazy, cq_ok cq nc0 c -> forall k p nc code nc',
  nc0 <= nc <= nc0 + c -> rep_opt cq lazy k p nc = Ok (code, nc') ->
  nc0 <= nc' <= nc0 + c /\ saves code (2 * (nc0 + c)).
Proof.
  intros cq nc0 c lazy Hq. induction k as [|k IH]; intros p nc code nc' Hn H.
  - simpl in H. inversion H; subst. split; [exact Hn|apply saves_nil].
  - cbn [rep_opt] in H. destruct (cq (p + 1)) as [[ca na]| |] eqn:Ea; try discriminate. cbn [rbind fst snd] in H.
    destruct (rep_opt cq lazy k (p + 1 + ilen ca) na) as [[cb nb]| |] eqn:Eb; try discriminate. cbn [rbind fst snd] in H.
    inversion H; subst. apply Hq in Ea. destruct Ea as [Ea1 Ea2].
    apply IH in Eb; [|exact Ea1]. destruct Eb as [Eb1 Eb2].
    split; [exact Eb1|]. apply saves_cons_other; [intro; apply swap_if_not_save|apply saves_app; assumption].
Qed.

Lemma comp_saves : forall n pc nc code nc', 0 <= nc -> comp n pc nc = Ok (code, nc') ->
  nc <= nc' <= nc + ncaps n /\ saves code (2 * (nc + ncaps n)).
Proof.
  induction n as [|c| |neg from|l IHl r IHr|l IHl r IHr|mn mx greedy q IHq| | |c IHc]; intros pc nc code nc' Hnc H;
    cbn [comp ncaps] in H |- *.
  - inversion H; subst. split; [lia|apply saves_nil].
  - inversion H; subst. split; [lia|]. apply saves_cons_other; [discriminate|apply saves_nil].
  - inversion H; subst. split; [lia|]. apply saves_cons_other; [discriminate|apply saves_nil].
  - destruct (cls_set _ true from); try discriminate. cbn [rbind] in H. inversion H; subst.
    split; [lia|]. apply saves_cons_other; [discriminate|apply saves_nil].
  - destruct (comp l pc nc) as [[ca na]| |] eqn:Ea; try discriminate. cbn [rbind fst snd] in H.
    destruct (comp r (pc + ilen ca) na) as [[cb nb]| |] eqn:Eb; try discriminate. cbn [rbind fst snd] in H.
    inversion H; subst. apply IHl in Ea; [|exact Hnc]. destruct Ea as [Ea1 Ea2].
    apply IHr in Eb; [|lia]. destruct Eb as [Eb1 Eb2].
    pose proof (ncaps_nonneg l). pose proof (ncaps_nonneg r).
    split; [lia|]. apply saves_app; eapply saves_mono; try eassumption; lia.
  - destruct (comp l (pc + 1) nc) as [[ca na]| |] eqn:Ea; try discriminate. cbn [rbind fst snd] in H.
    destruct (comp r (pc + 1 + ilen ca + 1) na) as [[cb nb]| |] eqn:Eb; try discriminate. cbn [rbind fst snd] in H.
    inversion H; subst. apply IHl in Ea; [|exact Hnc]. destruct Ea as [Ea1 Ea2].
    apply IHr in Eb; [|lia]. destruct Eb as [Eb1 Eb2].
    pose proof (ncaps_nonneg l). pose proof (ncaps_nonneg r).
    split; [lia|]. apply saves_cons_other; [discriminate|]. apply saves_app; [eapply saves_mono; try eassumption; lia|].
    apply saves_cons_other; [discriminate|]. eapply saves_mono; try eassumption; lia.
  - pose proof (ncaps_nonneg q) as Hq0.
    assert (CQ : cq_ok (fun p => comp q p nc) nc (ncaps q)).
    { intros p cd n' E. apply IHq in E; [exact E|exact Hnc]. }
    cbv zeta in H.
    destruct (rep_min _ (Z.to_nat mn) pc (-1) nc) as [[[c1 last] n1]| |] eqn:E1; try discriminate. cbn [rbind fst snd] in H.
    apply (rep_min_saves _ _ _ CQ) in E1; [|lia]. destruct E1 as [E1a E1b].
    destruct (mx >? mn).
    + destruct (rep_opt _ (negb greedy) _ _ n1) as [[c2 n2]| |] eqn:E2; try discriminate. cbn [rbind fst snd] in H.
      apply (rep_opt_saves _ _ _ _ CQ) in E2; [|exact E1a]. destruct E2 as [E2a E2b].
      inversion H; subst. split; [exact E2a|apply saves_app; assumption].
    + destruct (mx =? -1).
      * destruct (mn =? 0).
        -- destruct (comp q (pc + ilen c1 + 1) nc) as [[ca na]| |] eqn:Ea; try discriminate. cbn [rbind fst snd] in H.
           inversion H; subst. apply IHq in Ea; [|exact Hnc]. destruct Ea as [Ea1 Ea2].
           split; [exact Ea1|]. apply saves_app; [exact E1b|]. apply saves_cons_other; [intro; apply swap_if_not_save|].
           apply saves_app; [exact Ea2|]. apply saves_cons_other; [discriminate|apply saves_nil].
        -- inversion H; subst. split; [exact E1a|]. apply saves_app; [exact E1b|].
           apply saves_cons_other; [intro; apply swap_if_not_save|apply saves_nil].
      * inversion H; subst. split; assumption.
  - inversion H; subst. split; [lia|]. apply saves_cons_other; [discriminate|apply saves_nil].
  - inversion H; subst. split; [lia|]. apply saves_cons_other; [discriminate|apply saves_nil].
  - destruct (comp c (pc + 1) (nc + 1)) as [[ca na]| |] eqn:Ea; try discriminate. cbn [rbind fst snd] in H.
    inversion H; subst. apply IHc in Ea; [|lia]. destruct Ea as [Ea1 Ea2].
    pose proof (ncaps_nonneg c).
    split; [lia|]. apply saves_cons_save; [lia|]. apply saves_app; [eapply saves_mono; try eassumption; lia|].
    apply saves_cons_save; [lia|apply saves_nil].
Qed.

Lemma re_compile_saves : forall root code, re_compile root = Ok (Some code) -> saves code (2 * (ncaps root + 1)).
Proof.
  intros root code H. unfold re_compile in H.
  destruct ((0 <=? re_max_instructions) && _); [discriminate|].
  set (r2 := if anchored (NCap root) then NCap root else NCat (NQuant 0 (-1) false NAny) (NCap root)) in *.
  destruct (comp r2 0 0) as [[c n]| |] eqn:E; try discriminate. cbn [rbind fst snd] in H. inversion H; subst.
  apply comp_saves in E; [|lia]. destruct E as [_ E].
  assert (N : ncaps r2 = 1 + ncaps root) by (unfold r2; destruct (anchored (NCap root)); reflexivity).
  rewrite N in E. apply saves_app; [eapply saves_mono; [|exact E]; lia|].
  apply saves_cons_other; [discriminate|apply saves_nil].
Qed.

Lemma re_create_saves : forall pat code, re_create pat = Ok (Some code) -> saves code (2 * (re_groups pat + 1)).
Proof.
  intros pat code H. unfold re_create in H. destruct pat as [|c0 pat']; [discriminate|].
  unfold re_groups. destruct (re_parse (c0 :: pat')) as [[root|]| |]; try discriminate. cbn [rbind] in H.
  apply re_compile_saves. exact H.
Qed.

Lemma re_groups_nonneg : forall pat, 0 <= re_groups pat.
Proof. intros pat. unfold re_groups. destruct (re_parse pat) as [[root|]| |]; try lia. apply ncaps_nonneg. Qed.

(* the statement on the whole interface: for any prior contents of the caller's array of even length, the answer is the
   answer for a zeroed array, and the reported count is within min(capacity, groups + 1) *)
Theorem re_query_bounds : forall pat text prior r a, re_query_prior pat text prior = Ok (RMatch r a) ->
  length a = length prior /\ -1 <= r /\ 2 * r <= Z.of_nat (length prior) /\ r <= re_groups pat + 1.
Proof.
  intros pat text prior r a H. unfold re_query_prior in H.
  destruct (re_create pat) as [[code|]| |] eqn:Ec; try discriminate. cbn [rbind] in H.
  destruct (re_match code text prior) as [[r' a']| |] eqn:Em; try discriminate. cbn [rbind fst snd] in H.
  inversion H; subst.
  pose proof (re_match_capacity _ _ _ _ _ Em) as [C1 [C2 C3]].
  repeat split; try assumption.
  eapply re_match_groups; [|apply re_create_saves; exact Ec|exact Em].
  pose proof (re_groups_nonneg pat). lia.
Qed.

(* ---- termination of compile_char_class: the expansion of a range, and the whole class of any pattern the parser accepts *)
Definition byte (c : Z) : Prop := 0 <= c <= 255.

Lemma range_expand_eq : forall ctr f ch hi,
  range_expand ctr (S f) ch hi =
    if ch <=? hi then rbind (range_expand ctr f (ctr (ch + 1)) hi) (fun r => Ok (ch :: r)) else Ok [].
Proof. reflexivity. Qed.

(* `int` counter: hi + 1 - ch members and one more test; the members are exactly ch..hi *)
Lemma range_expand_int : forall f ch hi, (Z.to_nat (hi + 1 - ch) < f)%nat ->
  exists l, range_expand ctr_int f ch hi = Ok l /\ forall x, In x l <-> ch <= x <= hi.
Proof.
  induction f as [|f IH]; intros ch hi H; [lia|].
  rewrite range_expand_eq. destruct (ch <=? hi) eqn:E.
  - apply Z.leb_le in E. change (ctr_int (ch + 1)) with (ch + 1).
    destruct (IH (ch + 1) hi) as [l [Hl Hm]]; [lia|].
    rewrite Hl. cbn [rbind]. exists (ch :: l). split; [reflexivity|].
    intro x. cbn [In]. rewrite Hm. lia.
  - apply Z.leb_gt in E. exists []. split; [reflexivity|]. intro x. cbn [In]. lia.
Qed.

Lemma range_expand_total : forall c e, 0 <= c -> e <= 255 ->
  exists l, range_expand ctr_int range_fuel c e = Ok l /\ forall x, In x l <-> c <= x <= e.
Proof. intros c e Hc He. apply range_expand_int. unfold range_fuel. lia. Qed.

(* an 8 bit counter never gets past an upper bound of 255: no fuel suffices (the loop does not terminate) *)
Lemma range_expand_u8_loops : forall f c, byte c -> range_expand ctr_u8 f c 255 = Fuel.
Proof.
  induction f as [|f IH]; intros c Hc; [reflexivity|].
  rewrite range_expand_eq. unfold byte in Hc. destruct (c <=? 255) eqn:E; [|apply Z.leb_gt in E; lia].
  rewrite IH; [reflexivity|]. unfold ctr_u8, byte. pose proof (Z.mod_pos_bound (c + 1) 256). lia.
Qed.

Lemma cls_scan_eq : forall f first s,
  cls_scan (S f) first s =
    rbind (pk s) (fun ch =>
    let s1 := tl s in
    if ch =? 0 then Ok None
    else if (ch =? 93) && negb first then Ok (Some s1)
    else
      rbind (if ch =? 92 then pk s1 else Ok ch) (fun c =>
      let s2 := if ch =? 92 then tl s1 else s1 in
      if (ch =? 92) && (c =? 0) then Ok None else
      rbind (pk s2) (fun d =>
      if d =? 45 then
        rbind (pk (tl s2)) (fun e =>
        if negb (e =? 93) then
          if (e =? 0) || (e <? c) then Ok None else cls_scan f false (tl (tl s2))
        else cls_scan f false s2)
      else cls_scan f false s2))).
Proof. reflexivity. Qed.

Lemma cls_set_eq : forall f first s,
  cls_set (S f) first s =
    rbind (pk s) (fun ch =>
    let s1 := tl s in
    if (ch =? 93) && negb first then Ok []
    else
      rbind (if ch =? 92 then pk s1 else Ok ch) (fun c =>
      let s2 := if ch =? 92 then tl s1 else s1 in
      rbind (pk s2) (fun d =>
      if d =? 45 then
        rbind (pk (tl s2)) (fun e =>
        if negb (e =? 93) then
          rbind (range_expand ctr_int range_fuel c e) (fun m => rbind (cls_set f false (tl (tl s2))) (fun r => Ok (m ++ r)))
        else rbind (cls_set f false s2) (fun r => Ok (c :: r)))
      else rbind (cls_set f false s2) (fun r => Ok (c :: r))))).
Proof. reflexivity. Qed.

Lemma pk_byte : forall s c, Forall byte s -> pk s = Ok c -> byte c.
Proof. intros [|h t] c H E; [discriminate|]. inversion E; subst. inversion H; assumption. Qed.
Lemma Forall_tl : forall (s : list Z), Forall byte s -> Forall byte (tl s).
Proof. intros [|h t] H; [constructor|inversion H; assumption]. Qed.

(* whatever bracket expression parse_char_class accepts, compile_char_class walks it to its closing ] and expands every
   range within the loop bound: it terminates (with the same fuel = length of the text + 1) and yields a member list *)
Lemma cls_set_total : forall f first s rest, Forall byte s ->
  cls_scan f first s = Ok (Some rest) -> exists set, cls_set f first s = Ok set.
Proof.
  induction f as [|f IH]; intros first s rest Hb H; [discriminate|].
  rewrite cls_scan_eq in H. rewrite cls_set_eq.
  destruct (pk s) as [ch| |] eqn:Ech; try discriminate. cbn [rbind] in H |- *. cbv zeta in H |- *.
  destruct (ch =? 0); [discriminate|].
  destruct ((ch =? 93) && negb first); [eexists; reflexivity|].
  assert (Hb1 : Forall byte (tl s)) by (apply Forall_tl; exact Hb).
  destruct (if ch =? 92 then pk (tl s) else Ok ch) as [c| |] eqn:Ec; try discriminate. cbn [rbind] in H |- *.
  assert (Bc : byte c).
  { destruct (ch =? 92); [eapply pk_byte; [exact Hb1|exact Ec]|inversion Ec; subst; eapply pk_byte; [exact Hb|exact Ech]]. }
  set (s2 := if ch =? 92 then tl (tl s) else tl s) in *.
  assert (Hb2 : Forall byte s2) by (unfold s2; destruct (ch =? 92); [apply Forall_tl|]; exact Hb1).
  destruct ((ch =? 92) && (c =? 0)); [discriminate|].
  destruct (pk s2) as [d| |]; try discriminate. cbn [rbind] in H |- *.
  assert (REC : forall t, Forall byte t -> cls_scan f false t = Ok (Some rest) ->
                exists set, rbind (cls_set f false t) (fun r => Ok (c :: r)) = Ok set).
  { intros t Ht Hs. destruct (IH false t rest Ht Hs) as [r Hr]. rewrite Hr. eexists; reflexivity. }
  destruct (d =? 45); [|apply REC; assumption].
  destruct (pk (tl s2)) as [e| |] eqn:Ee; try discriminate. cbn [rbind] in H |- *.
  assert (Be : byte e) by (eapply pk_byte; [apply Forall_tl; exact Hb2|exact Ee]).
  destruct (negb (e =? 93)); [|apply REC; assumption].
  destruct ((e =? 0) || (e <? c)); [discriminate|].
  destruct (range_expand_total c e) as [m [Hm _]]; [unfold byte in Bc; lia|unfold byte in Be; lia|].
  rewrite Hm. cbn [rbind].
  destruct (IH false (tl (tl s2)) rest) as [r Hr]; [apply Forall_tl, Forall_tl; exact Hb2|exact H|].
  rewrite Hr. eexists; reflexivity.
Qed.

Lemma cls_set_total_top : forall from rest, Forall byte from ->
  cls_scan (S (length from)) true from = Ok (Some rest) -> exists set, cls_set (S (length from)) true from = Ok set.
Proof. intros from rest Hb H. eapply cls_set_total; eassumption. Qed.
