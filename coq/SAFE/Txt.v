(* C17: what the models of the text utilities share (ini scanner, split/replace, uuid, csv, JSON skeleton).
   A writable C array is a `list (option Z)` (None = a cell nobody has written yet: stack or heap garbage).
   `rdc b i` reads cell i: outside the array -> Oob i; never written -> Oob (-1 - i) (the answer would depend on what the
   memory held before: the models treat that like an out-of-bounds access, so that `Ok` also means "the result does not
   depend on the previous contents of the buffer").  No proofs here. *)
Require Import ZArith List Bool. Import ListNotations.
Require Import IW.SAFE.Buf.
Local Open Scope Z_scope. Local Open Scope bool_scope.

Definition tbind {A B} (r : res A) (f : A -> res B) : res B :=
  match r with Ok a => f a | Oob i => Oob i | Fuel => Fuel end.
Notation "'do' x <- r ; k" := (tbind r (fun x => k)) (at level 200, x name, right associativity).

(* read-only C buffer (list Z): *p *)
Definition rdb (b : list Z) (i : Z) : res Z :=
  if i <? 0 then Oob i else match nth_error b (Z.to_nat i) with Some c => Ok c | None => Oob i end.

Definition rdc (b : list (option Z)) (i : Z) : res Z :=
  if i <? 0 then Oob i else
  match nth_error b (Z.to_nat i) with Some (Some c) => Ok c | Some None => Oob (-1 - i) | None => Oob i end.
Definition wrc (b : list (option Z)) (i x : Z) : res (list (option Z)) :=
  match wro b i x with Some b' => Ok b' | None => Oob i end.

(* iwchars_is_space: c == 32 || (c >= 9 && c <= 13)   (bytes 128..255 are negative chars: never a space) *)
Definition is_space (c : Z) : bool := (c =? 32) || ((9 <=? c) && (c <=? 13)).
Definition is_digit (c : Z) : bool := (48 <=? c) && (c <=? 57).
Definition is_alpha (c : Z) : bool := ((97 <=? c) && (c <=? 122)) || ((65 <=? c) && (c <=? 90)).

(* strchr(chars, c) != NULL for a literal `chars`; c = 0 finds the terminator of the literal *)
Definition strchr_lit (chars : list Z) (c : Z) : bool := (c =? 0) || existsb (Z.eqb c) chars.

(* index of the terminator of the C string at offset i of an array: s + strlen(s) *)
Fixpoint cnul (fuel : nat) (b : list (option Z)) (i : Z) : res Z :=
  match fuel with O => Fuel | S f =>
    do c <- rdc b i; if c =? 0 then Ok i else cnul f b (i + 1) end.
(* the C string at offset i of an array, as a callee that is handed the pointer reads it *)
Fixpoint ccstr (fuel : nat) (b : list (option Z)) (i : Z) : res (list Z) :=
  match fuel with O => Fuel | S f =>
    do c <- rdc b i; if c =? 0 then Ok [] else (do r <- ccstr f b (i + 1); Ok (c :: r)) end.
