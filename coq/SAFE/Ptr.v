(* src/json/iwjson.c: _jbl_ptr_pool (jbl_ptr_alloc / jbl_ptr_alloc_pool), the JSON pointer parser, at index level.
   `path` is the caller's buffer (content ++ [0]); the data area of the allocated jbl_ptr is `out`
   (len + jbl_ptr_slack cells, uninitialised); `n` holds the offsets of the segments inside the data area
   (-1 = entry never written).  `strict` = the current tree rejects a '~' that is not followed by '0'/'1'
   (Facts.fact_ptr_tilde_strict); strict = false is the code before fixes/safety-ptr-tilde.diff. *)
Require Import ZArith List Bool. Require Import IW.SAFE.Buf IW.Gen.Facts. Import ListNotations.
Local Open Scope Z_scope. Local Open Scope bool_scope.

Inductive ptr_res := PErr | PDone (cnt : Z) (n : list Z) (out : list (option Z)).

(* for (i = 0; path[i]; ++i) if (path[i] == '/') ++cnt;   -> (len, cnt) *)
Fixpoint ptr_count (fuel : nat) (p : list Z) (i cnt : Z) : res (Z * Z) :=
  match fuel with O => Fuel | S f =>
    match rd p i with
    | None => Oob i
    | Some c => if c =? 0 then Ok (i, cnt) else ptr_count f p (i + 1) (if c =? 47 then cnt + 1 else cnt)
    end
  end.

(* for (k = 0; ; ++i, ++k) { ... }  of one segment; data area offset of the segment = base.
   Ok None = return JBL_ERROR_JSON_POINTER (strict only); Ok (Some (i, k, out)) = state at the `break` (before --i) *)
Fixpoint ptr_seg (strict : bool) (fuel : nat) (p : list Z) (out : list (option Z)) (base i k : Z)
  : res (option (Z * Z * list (option Z))) :=
  match fuel with O => Fuel | S f =>
    match rd p i with
    | None => Oob i
    | Some c =>
      if (c =? 0) || (c =? 47) then
        match wro out (base + k) 0 with None => Oob (base + k) | Some o => Ok (Some (i, k, o)) end
      else if c =? 126 then
        match rd p (i + 1) with
        | None => Oob (i + 1)
        | Some d =>
          if d =? 48 then
            match wro out (base + k) 126 with None => Oob (base + k) | Some o => ptr_seg strict f p o base (i + 2) (k + 1) end
          else if d =? 49 then
            match wro out (base + k) 47 with None => Oob (base + k) | Some o => ptr_seg strict f p o base (i + 2) (k + 1) end
          else if strict then Ok None
          else ptr_seg strict f p out base (i + 2) (k + 1)          (* nothing stored, both bytes skipped *)
        end
      else
        match wro out (base + k) c with None => Oob (base + k) | Some o => ptr_seg strict f p o base (i + 1) (k + 1) end
    end
  end.

(* for (i = 0, j = 0, cnt = 0; path[i] && cnt < jp->cnt; ++i, ++j) { if (path[i++] == '/') { ... } } *)
Fixpoint ptr_outer (strict : bool) (fuel : nat) (p : list Z) (out : list (option Z)) (n : list Z) (i j cnt jpcnt : Z)
  : res ptr_res :=
  match fuel with O => Fuel | S f =>
    match rd p i with
    | None => Oob i
    | Some c =>
      if (c =? 0) || negb (cnt <? jpcnt) then Ok (PDone jpcnt n out)
      else if c =? 47 then
        match wr n cnt j with
        | None => Oob cnt
        | Some n' =>
          match ptr_seg strict (length p) p out j (i + 1) 0 with
          | Fuel => Fuel
          | Oob x => Oob x
          | Ok None => Ok PErr
          | Ok (Some (i', k, out')) => ptr_outer strict f p out' n' i' (j + k + 1) (cnt + 1) jpcnt   (* --i; j += k; ++cnt; ++i, ++j *)
          end
        end
      else ptr_outer strict f p out n (i + 2) (j + 1) cnt jpcnt
    end
  end.

Definition ptr_parse (strict : bool) (p : list Z) : res ptr_res :=
  match rd p 0 with
  | None => Oob 0
  | Some c0 =>
    if c0 =? 0 then Ok (PDone 0 [] (repeat None (Z.to_nat jbl_ptr_slack)))
    else if negb (c0 =? 47) then Ok PErr
    else
      match ptr_count (length p) p 0 0 with
      | Fuel => Fuel
      | Oob x => Oob x
      | Ok (len, cnt) =>
        match (if len >? 1 then rd p (len - 1) else Some 0) with
        | None => Oob (len - 1)
        | Some cl =>
          if (len >? 1) && (cl =? 47) then Ok PErr
          else ptr_outer strict (length p) p (repeat None (Z.to_nat (len + jbl_ptr_slack))) (repeat (-1) (Z.to_nat cnt)) 0 0 0 cnt
        end
      end
  end.

(* what the caller sees: the segments as C strings (the harness prints exactly these) *)
Inductive ptr_obs := QErr | QSegs (l : list obs).
Definition ptr_observe (r : ptr_res) : ptr_obs :=
  match r with
  | PErr => QErr
  | PDone cnt n out => QSegs (map (fun off => if off <? 0 then OUninit else ocstr (S (length out)) out off) n)
  end.

Definition ptr_current := ptr_parse fact_ptr_tilde_strict.
