(* C17: iwu_replace (Repl.v) terminates for every text when no key is empty; an empty key makes the loop of the
   unfixed code spin forever *)
Require Import ZArith List Bool Lia. Import ListNotations.
Require Import IW.SAFE.Buf IW.SAFE.Buf_proofs IW.SAFE.Repl IW.Gen.Facts.
Local Open Scope Z_scope. Local Open Scope bool_scope.

Lemma prefixb_len : forall k s, prefixb k s = true -> (length k <= length s)%nat.
Proof.
  induction k as [|x k IH]; intros [|y s] H; simpl in *; try lia; try discriminate.
  apply andb_true_iff in H. destruct H as [_ H]. specialize (IH s H). lia.
Qed.

(* an occurrence found in the text from position p on lies inside it *)
Lemma find_from_range : forall k s p q, find_from k s p = Some q -> p <= q /\ q + zlen k <= p + zlen s.
Proof.
  intros k s. induction s as [|y r IH]; intros p q H; simpl in H.
  - destruct k as [|x k]; simpl in H; [|discriminate]. inversion H; subst. unfold zlen; simpl. lia.
  - destruct (prefixb k (y :: r)) eqn:P.
    + inversion H; subst. apply prefixb_len in P. unfold zlen. lia.
    + destruct (IH (p + 1) q H) as [A B]. unfold zlen in *. simpl length. lia.
Qed.

Lemma repl_key_S : forall f key repl cur off bbuf, repl_key (S f) key repl cur off bbuf =
    match find_from key (skipn (Z.to_nat off) cur) off with
    | None => Ok (off, if off =? 0 then bbuf else bbuf ++ skipn (Z.to_nat off) cur)
    | Some p =>
      let bbuf' := bbuf ++ sub cur off p ++ repl in
      let off' := p + zlen key in
      if off' >=? zlen cur then Ok (off', bbuf') else repl_key f key repl cur off' bbuf'
    end.
Proof. reflexivity. Qed.

Lemma zlen_skipn_z : forall (l : list Z) off, 0 <= off <= zlen l -> zlen (skipn (Z.to_nat off) l) = zlen l - off.
Proof. intros l off H. unfold zlen in *. rewrite skipn_length. lia. Qed.

(* every round moves ptr forward by the key length at least: zlen cur - off rounds suffice *)
Lemma repl_key_ok : forall fuel key repl cur off bbuf, 1 <= zlen key -> 0 <= off <= zlen cur ->
  (Z.to_nat (zlen cur - off) < fuel)%nat -> exists r, repl_key fuel key repl cur off bbuf = Ok r.
Proof.
  induction fuel as [|f IH]; intros key repl cur off bbuf K R F; [lia|].
  rewrite repl_key_S. destruct (find_from key (skipn (Z.to_nat off) cur) off) as [p|] eqn:E; [|eauto].
  apply find_from_range in E. rewrite zlen_skipn_z in E by lia. cbv zeta.
  destruct (p + zlen key >=? zlen cur) eqn:G; [eauto|].
  rewrite Z.geb_leb in G. apply Z.leb_gt in G. apply IH; auto; lia.
Qed.

Definition keys_nonempty (keys : list (list Z * option (list Z))) : Prop := Forall (fun k => 1 <= zlen (fst k)) keys.

Lemma repl_keys_cons : forall skips key m r cur, repl_keys skips ((key, m) :: r) cur =
    if skips && (zlen key =? 0) then repl_keys skips r cur else
    match repl_key (S (length cur)) key (match m with Some v => v | None => key end) cur 0 [] with
    | Fuel => Fuel | Oob i => Oob i
    | Ok (off, bbuf) => repl_keys skips r (if off =? 0 then cur else bbuf)
    end.
Proof. reflexivity. Qed.

Lemma repl_keys_ok : forall skips keys cur, keys_nonempty keys \/ skips = true -> exists r, repl_keys skips keys cur = Ok r.
Proof.
  intros skips keys. induction keys as [|[key m] r IH]; intros cur H; [simpl; eauto|rewrite repl_keys_cons].
  assert (Hr : keys_nonempty r \/ skips = true).
  { destruct H as [H|H]; [left; inversion H; auto|right; auto]. }
  destruct (skips && (zlen key =? 0)) eqn:Sk; [apply IH; auto|].
  assert (K : 1 <= zlen key).
  { destruct H as [H|H].
    - inversion H; subst. auto.
    - subst skips. simpl in Sk. apply Z.eqb_neq in Sk. pose proof (zlen_nonneg key). lia. }
  destruct (repl_key_ok (S (length cur)) key (match m with Some v => v | None => key end) cur 0 [] K) as [[off bbuf] E].
  - pose proof (zlen_nonneg cur). lia.
  - unfold zlen. lia.
  - rewrite E. apply IH; auto.
Qed.

(* the call returns for every text and every list of non-empty keys - and for ANY keys once empty keys are skipped *)
Theorem replace_terminates : forall skips data keys, keys_nonempty keys \/ skips = true -> exists r, replace skips data keys = Ok r.
Proof.
  intros skips data keys H. unfold replace. destruct data as [|c d]; [eauto|]. destruct keys as [|k r]; [eauto|].
  apply repl_keys_ok; auto.
Qed.

(* the code as it is: with an empty key ptr never advances - no fuel is enough, whatever the mapper returns *)
Lemma repl_key_empty_loops : forall fuel repl c cur bbuf, repl_key fuel [] repl (c :: cur) 0 bbuf = Fuel.
Proof.
  induction fuel as [|f IH]; intros repl c cur bbuf; [reflexivity|].
  rewrite repl_key_S. cbn [Z.to_nat skipn find_from prefixb]. change (0 + zlen []) with 0.
  assert (G : (0 >=? zlen (c :: cur)) = false).
  { rewrite Z.geb_leb. apply Z.leb_gt. unfold zlen. simpl length. lia. }
  rewrite G. apply IH.
Qed.
Theorem replace_empty_key_refuted : forall c data m rest, replace false (c :: data) (([], m) :: rest) = Fuel.
Proof.
  intros c data m rest. unfold replace. rewrite repl_keys_cons. cbn [andb]. rewrite repl_key_empty_loops. reflexivity.
Qed.

(* the tree as it is (T1: Facts.fact_replace_skips_empty_key, observed by running iwu_replace with an empty key under an alarm) *)
Lemma replace_skips_empty_key_now : fact_replace_skips_empty_key = true. Proof. reflexivity. Qed.
Theorem replace_current_terminates : forall data keys, exists r, replace_current data keys = Ok r.
Proof. intros data keys. unfold replace_current. apply replace_terminates. right. exact replace_skips_empty_key_now. Qed.
