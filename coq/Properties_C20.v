(* C20 - statements only (under construction). *)
Require Import List Bool Arith.
Require Import IW.CC.Lts IW.CC.Stw.
Import ListNotations.

Theorem C20_stub : forall c, Stw.step c Stw.init Stw.W ELock <> None.
Proof. intros c. discriminate. Qed.
Print Assumptions C20_stub.
