(* C20 - task executors (iwstw.c single-thread worker, iwtp.c thread pool): statements only.
   Models: CC/Stw.v, CC/Tp.v (labelled transition systems, one transition per lock/unlock/wait/wake/signal/queue
   edit/callback; any number of client threads; waits may return spuriously).  R c s = "s is reachable from the
   initial state by some interleaving"; every theorem below quantifies over ALL reachable states / transitions.
   Stw.recheck / Tp.chk select the code variant: true = current code (with fixes exec-stw-recheck / exec-tp-shutdown),
   false = the code as found, for which the liveness half is refuted by the real event traces below.  Tp.reg: false =
   overflow threads are not pushed to tp->threads (code as found: they leave at once and are never joined), true = with
   fixes/exec-tp-overflow-register.diff; the tp theorems hold for both values. *)
Require Import List Bool Arith Lia.
Require Import IW.CC.Lts IW.CC.Lts_proofs IW.CC.Stw IW.CC.Stw_proofs IW.CC.Tp IW.CC.Tp_proofs.
Require Import IW.CC.Fair IW.CC.Stw_live IW.CC.Stw_live_proofs IW.CC.Tp_live IW.CC.Tp_live_proofs IW.CC.Tp_reg_proofs.
Require Import IW.CC.Cover IW.CC.Cover_proofs.
Import ListNotations.

(* ---------------- single-thread worker ---------------- *)

(* every accepted task was linked; every linked task is in exactly one of queued / held by the worker (running) / done /
   dropped by shutdown / dropped by schedule_only *)
Theorem C20_stw_accepted_partition : forall c s, Stw_proofs.R c s ->
  (forall x, In x (Stw.acc s) -> In x (Stw.enq s)) /\
  (forall x, In x (Stw.enq s) <-> In x (Stw.queue s ++ Stw.held s ++ Stw.done s ++ Stw.disc s ++ Stw.repl s)) /\
  NoDup (Stw.queue s ++ Stw.held s ++ Stw.done s ++ Stw.disc s ++ Stw.repl s) /\ NoDup (Stw.enq s).
Proof. exact Stw_proofs.accepted_partition. Qed.
Print Assumptions C20_stw_accepted_partition.

(* ... and never moves backwards: queued -> held -> done, queued -> dropped; done and dropped are final *)
Theorem C20_stw_status_monotone : forall c s t e s', Stw.step c s t e = Some s' -> forall x,
  (In x (Stw.done s) -> In x (Stw.done s')) /\ (In x (Stw.disc s) -> In x (Stw.disc s')) /\
  (In x (Stw.repl s) -> In x (Stw.repl s')) /\
  (In x (Stw.held s) -> In x (Stw.held s') \/ In x (Stw.done s')) /\
  (In x (Stw.queue s) -> In x (Stw.queue s') \/ In x (Stw.held s') \/ In x (Stw.disc s') \/ In x (Stw.repl s')).
Proof. exact Stw_proofs.status_monotone. Qed.
Print Assumptions C20_stw_status_monotone.

Theorem C20_stw_executed_at_most_once : forall c s, Stw_proofs.R c s -> NoDup (Stw.started s).
Proof. exact Stw_proofs.executed_at_most_once. Qed.
Print Assumptions C20_stw_executed_at_most_once.

(* FIFO: the sequence of tasks whose fn was entered is a prefix of the linked tasks minus the dropped ones, in link order;
   a dropped task never starts *)
Theorem C20_stw_fifo : forall c s, Stw_proofs.R c s ->
  (exists rest, filter (Stw_proofs.keep (Stw.disc s ++ Stw.repl s)) (Stw.enq s) = Stw.started s ++ rest) /\
  (forall x, In x (Stw.started s) -> ~ In x (Stw.disc s ++ Stw.repl s)).
Proof. exact Stw_proofs.stw_fifo. Qed.
Print Assumptions C20_stw_fifo.

Theorem C20_stw_limit_respected : forall c s, Stw_proofs.R c s -> Stw.limit c > 0 -> length (Stw.queue s) <= Stw.limit c.
Proof. exact Stw_proofs.limit_respected. Qed.
Print Assumptions C20_stw_limit_respected.

Theorem C20_stw_full_queue_rejects_or_blocks : forall c s t e s', Stw.step c s t e = Some s' -> t <> Stw.W ->
  Stw.fn (Stw.cl s t) = 0 -> Stw.cp (Stw.cl s t) = Stw.Locked \/ Stw.cp (Stw.cl s t) = Stw.Woken ->
  Stw.shut s = false -> Stw.full c s = true ->
  (Stw.blocking c = false ->
     e = EUnlock /\ Stw.cp (Stw.cl s' t) = Stw.Ret RC_OVERFLOW false /\ Stw.enq s' = Stw.enq s) /\
  (Stw.blocking c = true ->
     e = EWait 1 /\ Stw.cp (Stw.cl s' t) = Stw.CWait /\ In t (Stw.waitq s') /\ Stw.blocked s' = true /\ Stw.enq s' = Stw.enq s).
Proof. exact Stw_proofs.full_queue_rejects_or_blocks. Qed.
Print Assumptions C20_stw_full_queue_rejects_or_blocks.

(* the worker is never parked on `cond` while the queue is non-empty and nobody is about to broadcast *)
Theorem C20_stw_no_lost_wakeup : forall c s, Stw_proofs.R c s -> Stw.owner s = None -> In Stw.W (Stw.waitc s) -> Stw.queue s = [].
Proof. exact Stw_proofs.no_lost_wakeup. Qed.
Print Assumptions C20_stw_no_lost_wakeup.

(* discard: a dropped task is reported/dropped once, was linked, and never started, ran, or stayed queued *)
Theorem C20_stw_discarded_never_started : forall c s, Stw_proofs.R c s ->
  NoDup (Stw.disc s ++ Stw.repl s) /\
  forall x, In x (Stw.disc s ++ Stw.repl s) ->
    In x (Stw.enq s) /\ ~ In x (Stw.started s) /\ ~ In x (Stw.done s) /\ ~ In x (Stw.queue s) /\ ~ In x (Stw.held s).
Proof. exact Stw_proofs.discarded_never_started. Qed.
Print Assumptions C20_stw_discarded_never_started.

(* iwstw_shutdown(false): each discard-callback transition reports the head of the queue; the flag is set only when the
   whole queue has been dropped (and, with a callback, reported) *)
Theorem C20_stw_shutdown_discard_step : forall c s t x s', Stw.step c s t (EDiscard x) = Some s' -> Stw.fn (Stw.cl s t) = 3 ->
  Stw.cp (Stw.cl s t) = Stw.Locked \/ Stw.cp (Stw.cl s t) = Stw.DDisc ->
  t <> Stw.W /\ Stw.has_cb c = true /\ Stw.queue s = x :: Stw.queue s' /\ Stw.disc s' = Stw.disc s ++ [x] /\
  Stw.shut s' = Stw.shut s.
Proof. exact Stw_proofs.shutdown_discard_step. Qed.
Print Assumptions C20_stw_shutdown_discard_step.

Theorem C20_stw_shutdown_nowait_discards : forall c s t s', Stw.step c s t (EBcast 0) = Some s' -> t <> Stw.W ->
  Stw.fn (Stw.cl s t) = 3 ->
  (Stw.cp (Stw.cl s t) = Stw.Locked /\ Stw.wf (Stw.cl s t) = false /\ Stw.shut s = false) \/ Stw.cp (Stw.cl s t) = Stw.DDisc ->
  Stw.queue s' = [] /\ Stw.disc s' = Stw.disc s ++ Stw.queue s /\ Stw.shut s' = true /\ Stw.shut_wait s' = false /\
  (Stw.has_cb c = true -> Stw.queue s = []).
Proof. exact Stw_proofs.shutdown_nowait_flag_step. Qed.
Print Assumptions C20_stw_shutdown_nowait_discards.

(* current code (re-check after the wait loop): once the worker has left its loop nothing is queued any more, and when
   iwstw_shutdown has joined the worker every accepted task has run or was dropped; a waiting shutdown drops nothing *)
Theorem C20_stw_worker_gone_all_settled : forall c s, Stw_proofs.R c s -> Stw.recheck c = true ->
  Stw.wpc s = Stw.WExit \/ Stw.wpc s = Stw.WDead ->
  Stw.shut s = true /\ Stw.queue s = [] /\
  forall x, In x (Stw.enq s) -> In x (Stw.done s) \/ In x (Stw.disc s) \/ In x (Stw.repl s).
Proof. exact Stw_proofs.worker_gone_all_settled. Qed.
Print Assumptions C20_stw_worker_gone_all_settled.

Theorem C20_stw_shutdown_wait_drains : forall c s t, Stw_proofs.R c s -> Stw.recheck c = true -> t <> Stw.W ->
  Stw.cp (Stw.cl s t) = Stw.DJoined \/ Stw.cp (Stw.cl s t) = Stw.DFreed ->
  (forall x, In x (Stw.acc s) -> In x (Stw.done s) \/ In x (Stw.disc s) \/ In x (Stw.repl s)) /\
  (Stw.shut_wait s = true -> Stw.disc s = [] /\ forall x, In x (Stw.acc s) -> In x (Stw.done s) \/ In x (Stw.repl s)).
Proof. exact Stw_proofs.shutdown_wait_drains. Qed.
Print Assumptions C20_stw_shutdown_wait_drains.

(* liveness half of accepted_partition, as a statement about terminal states *)
Theorem C20_stw_accepted_eventually : forall c s, Stw_proofs.R c s -> Stw.recheck c = true -> Stw.w_dead s = true ->
  forall x, In x (Stw.acc s) -> In x (Stw.done s) \/ In x (Stw.disc s) \/ In x (Stw.repl s).
Proof. exact Stw_proofs.accepted_eventually. Qed.
Print Assumptions C20_stw_accepted_eventually.

(* the code as found (recheck = false) does NOT have it: the statement
     forall c s, R c s -> w_dead s = true -> forall x, In x (acc s) -> In x (done s) \/ In x (disc s) \/ In x (repl s)
   is refuted by the event trace recorded from the unfixed implementation (directed scenario
   stw-blocked-submitter-after-shutdown of checks/C20.py) *)
Theorem C20_stw_accepted_eventually_refuted_without_recheck : exists s,
  run Stw.st (Stw.step Stw_proofs.lost_cfg) Stw.init Stw_proofs.lost_trace = Some s /\ Stw.w_dead s = true /\
  Stw.cl_idle s 10 = true /\ Stw.cl_idle s 20 = true /\
  In 2 (Stw.acc s) /\ ~ In 2 (Stw.done s) /\ ~ In 2 (Stw.disc s) /\ ~ In 2 (Stw.repl s) /\ Stw.queue s = [2] /\ Stw.freed s = true.
Proof. exact Stw_proofs.accepted_eventually_refuted. Qed.
Print Assumptions C20_stw_accepted_eventually_refuted_without_recheck.

(* ---------------- thread pool ---------------- *)

Theorem C20_tp_accepted_partition : forall c s, Tp_proofs.R c s ->
  (forall x, In x (Tp.acc s) -> In x (Tp.enq s)) /\
  (forall x, In x (Tp.enq s) <-> In x (Tp.queue s ++ Tp.held s ++ Tp.done s ++ Tp.disc s)) /\
  NoDup (Tp.queue s ++ Tp.held s ++ Tp.done s ++ Tp.disc s) /\ NoDup (Tp.enq s).
Proof. exact Tp_proofs.accepted_partition. Qed.
Print Assumptions C20_tp_accepted_partition.

Theorem C20_tp_limit_respected : forall c s, Tp_proofs.R c s -> Tp.limit c > 0 ->
  length (Tp.queue s) <= Tp.limit c /\ Tp.qsize s = length (Tp.queue s).
Proof. exact Tp_proofs.limit_respected. Qed.
Print Assumptions C20_tp_limit_respected.

(* while the queue is non-empty and the mutex is free, some pool thread is not parked *)
Theorem C20_tp_no_lost_wakeup : forall c s, Tp.nthreads c > 0 -> Tp_proofs.R c s -> Tp.owner s = None -> Tp.queue s <> [] ->
  exists w, w < Tp.nthreads c /\ ~ In w (Tp.waitc s).
Proof. exact Tp_proofs.no_lost_wakeup. Qed.
Print Assumptions C20_tp_no_lost_wakeup.

(* current code (shutdown check in iwtp_schedule): when iwtp_shutdown has joined the threads of its list, no thread holds a
   task, every linked task has run or was dropped by a non-waiting shutdown; a waiting shutdown returns with every
   accepted task done *)
Theorem C20_tp_shutdown_wait_drains : forall c s t, Tp_proofs.R c s -> Tp.chk c = true -> Tp.nthreads c > 0 ->
  Tp.pc (Tp.th s t) = Tp.QFreed ->
  Tp.shut s = true /\ Tp.queue s = [] /\ Tp.held s = [] /\
  (forall x, In x (Tp.enq s) -> In x (Tp.done s) \/ In x (Tp.disc s)) /\
  (Tp.shut_wait s = true -> Tp.disc s = [] /\ forall x, In x (Tp.acc s) -> In x (Tp.done s)).
Proof. exact Tp_proofs.shutdown_wait_drains_thm. Qed.
Print Assumptions C20_tp_shutdown_wait_drains.

(* the code as found (chk = false) does not: real event trace of directed scenario tp-schedule-during-shutdown *)
Theorem C20_tp_shutdown_wait_drains_refuted_without_check : exists s,
  run Tp.st (Tp.step Tp_proofs.lost_cfg) (Tp.init Tp_proofs.lost_cfg) Tp_proofs.lost_trace = Some s /\
  Tp.pc (Tp.th s 0) = Tp.TDead /\ Tp.pc (Tp.th s 10) = Tp.Idle /\ Tp.pc (Tp.th s 20) = Tp.Idle /\ Tp.shut_wait s = true /\
  In 0 (Tp.acc s) /\ ~ In 0 (Tp.done s) /\ ~ In 0 (Tp.disc s) /\ Tp.queue s = [0].
Proof. exact Tp_proofs.shutdown_wait_drains_refuted. Qed.
Print Assumptions C20_tp_shutdown_wait_drains_refuted_without_check.

(* ---------------- the hypotheses are satisfiable by non-trivial states ---------------- *)
Definition ex_cfg : Stw.cfg := Stw.mkcfg 1 true true true true.
(* one task running, one queued, a third submitter call blocked on the full queue, then iwstw_shutdown(false) with the
   re-check: the woken call is refused, the worker is joined *)
Definition ex_trace : list (tid * ev) :=
  [(10, ECall 0 0 false); (10, ELock); (10, EEnq 0); (10, EBcast 0); (10, EUnlock); (10, ERet 0 true);
   (0, ELock); (0, EDeq 0); (0, EUnlock); (0, ERun 0);
   (10, ECall 0 1 false); (10, ELock); (10, EEnq 1); (10, EBcast 0); (10, EUnlock); (10, ERet 0 true);
   (10, ECall 0 2 false); (10, ELock); (10, EWait 1);
   (20, ECall 3 0 false); (20, ELock); (20, EDiscard 1); (20, EBcast 0); (20, EBcast 1); (20, EUnlock);
   (0, EDone 0); (0, ELock); (0, EUnlock); (0, EExit);
   (10, EWake 1); (10, EUnlock); (10, ERet 1 false);
   (20, EJoin 0)].

Lemma ex_reach : forall c tr s, run Stw.st (Stw.step c) Stw.init tr = Some s -> Stw_proofs.R c s.
Proof. intros c tr s H. exists tr. exact H. Qed.

Example C20_ex_stw_final : exists s, Stw_proofs.R ex_cfg s /\ Stw.recheck ex_cfg = true /\ Stw.cp (Stw.cl s 20) = Stw.DJoined /\
  Stw.w_dead s = true /\ Stw.acc s = [0; 1] /\ Stw.done s = [0] /\ Stw.disc s = [1] /\ Stw.started s = [0] /\ Stw.enq s = [0; 1] /\
  Stw.shut_wait s = false.
Proof.
  destruct (run Stw.st (Stw.step ex_cfg) Stw.init ex_trace) as [s|] eqn:E; [|vm_compute in E; discriminate].
  exists s. split; [eapply ex_reach; exact E|]. vm_compute in E. inversion E; subst. vm_compute. repeat split.
Qed.

(* in the middle: task 0 running, task 1 queued (limit 1 reached), submitter 10 parked on cond_queue, mutex free *)
Example C20_ex_stw_blocked : exists s, Stw_proofs.R ex_cfg s /\ Stw.limit ex_cfg > 0 /\ Stw.queue s = [1] /\ Stw.held s = [0] /\
  Stw.waitq s = [10] /\ Stw.owner s = None /\ Stw.full ex_cfg s = true /\ Stw.blocked s = true.
Proof.
  destruct (run Stw.st (Stw.step ex_cfg) Stw.init (firstn 19 ex_trace)) as [s|] eqn:E; [|vm_compute in E; discriminate].
  exists s. split; [eapply ex_reach; exact E|]. vm_compute in E. inversion E; subst. vm_compute. repeat split; lia.
Qed.

(* the worker parked on `cond` with the mutex free *)
Example C20_ex_stw_parked : exists s, Stw_proofs.R ex_cfg s /\ Stw.owner s = None /\ In Stw.W (Stw.waitc s) /\ Stw.wpc s = Stw.WWait.
Proof.
  destruct (run Stw.st (Stw.step ex_cfg) Stw.init [(0, ELock); (0, EUnlock); (0, ELock); (0, EWait 0)]) as [s|] eqn:E;
    [|vm_compute in E; discriminate].
  exists s. split; [eapply ex_reach; exact E|]. vm_compute in E. inversion E; subst. vm_compute. repeat split. left. reflexivity.
Qed.

(* the transitions named in the step-level theorems exist: discard-callback step and flag step of the non-waiting shutdown *)
Example C20_ex_stw_discard_steps : exists s s1 s2, Stw_proofs.R ex_cfg s /\
  Stw.step ex_cfg s 20 (EDiscard 1) = Some s1 /\ Stw.fn (Stw.cl s 20) = 3 /\ Stw.cp (Stw.cl s 20) = Stw.Locked /\
  Stw.step ex_cfg s1 20 (EBcast 0) = Some s2 /\ Stw.cp (Stw.cl s1 20) = Stw.DDisc /\ Stw.disc s2 = [1] /\ Stw.queue s2 = [].
Proof.
  destruct (run Stw.st (Stw.step ex_cfg) Stw.init (firstn 21 ex_trace)) as [s|] eqn:E; [|vm_compute in E; discriminate].
  destruct (Stw.step ex_cfg s 20 (EDiscard 1)) as [s1|] eqn:E1; [|vm_compute in E; inversion E; subst; vm_compute in E1; discriminate].
  destruct (Stw.step ex_cfg s1 20 (EBcast 0)) as [s2|] eqn:E2;
    [|vm_compute in E; inversion E; subst; vm_compute in E1; inversion E1; subst; vm_compute in E2; discriminate].
  exists s, s1, s2. split; [eapply ex_reach; exact E|].
  vm_compute in E; inversion E; subst. vm_compute in E1; inversion E1; subst. vm_compute in E2; inversion E2; subst.
  vm_compute. repeat split.
Qed.

Definition ex_tp : Tp.cfg := Tp.mkcfg 2 3 1 true true.
Definition ex_tp_trace : list (tid * ev) :=
  [(0, ELock); (0, EUnlock); (1, ELock); (1, EUnlock);
   (10, ECall 0 5 false); (10, ELock); (10, EEnq 5); (10, ESignal 0 None); (10, EUnlock); (10, ERet 0 true);
   (0, ELock); (0, EDeq 5); (0, EUnlock); (0, ERun 5);
   (11, ECall 0 6 false); (11, ELock); (11, EEnq 6); (11, ESignal 0 None); (11, EUnlock); (11, ERet 0 true);
   (1, ELock); (1, EDeq 6); (1, EUnlock); (1, ERun 6); (1, EDone 6);
   (20, ECall 3 0 true); (20, ELock); (20, EBcast 0); (20, EUnlock);
   (1, ELock); (1, EUnlock); (1, EExit);
   (0, EDone 5); (0, ELock); (0, EUnlock); (0, EExit);
   (20, EJoin 0); (20, EJoin 1); (20, EFree)].

Example C20_ex_tp_final : exists s, Tp_proofs.R ex_tp s /\ Tp.chk ex_tp = true /\ Tp.nthreads ex_tp > 0 /\ Tp.limit ex_tp > 0 /\
  Tp.pc (Tp.th s 20) = Tp.QFreed /\ Tp.shut_wait s = true /\ Tp.acc s = [5; 6] /\ Tp.done s = [6; 5] /\ Tp.enq s = [5; 6].
Proof.
  destruct (run Tp.st (Tp.step ex_tp) (Tp.init ex_tp) ex_tp_trace) as [s|] eqn:E; [|vm_compute in E; discriminate].
  exists s. split; [exists ex_tp_trace; exact E|]. vm_compute in E. inversion E; subst. vm_compute. repeat split; lia.
Qed.

(* queue non-empty with the mutex free: worker 0 busy, worker 1 not parked *)
Example C20_ex_tp_queued : exists s, Tp_proofs.R ex_tp s /\ Tp.owner s = None /\ Tp.queue s = [6] /\ Tp.held s = [5].
Proof.
  destruct (run Tp.st (Tp.step ex_tp) (Tp.init ex_tp) (firstn 20 ex_tp_trace)) as [s|] eqn:E; [|vm_compute in E; discriminate].
  exists s. split; [exists (firstn 20 ex_tp_trace); exact E|]. vm_compute in E. inversion E; subst. vm_compute. repeat split.
Qed.

(* overflow thread (variant reg = true): real event trace of the implementation with fixes/exec-tp-overflow-register.diff; thread 30
   is created by the third iwtp_schedule, runs task 1, unregisters itself and leaves before the shutdown *)
Definition ex_ovf : Tp.cfg := Tp.mkcfg 1 0 1 true true.
Definition ex_ovf_trace : list (tid * ev) :=
  [(0, ELock); (0, EUnlock); (0, ELock); (0, EUnlock); (0, ELock); (0, EWait 0);
   (10, ECall 0 0 false); (10, ELock); (10, EEnq 0); (10, ESignal 0 (Some 0)); (10, EUnlock); (10, ERet 0 true);
   (0, EWake 0); (0, EUnlock); (0, ELock); (0, EDeq 0); (0, EUnlock); (0, ERun 0);
   (10, ECall 0 1 false); (10, ELock); (10, EEnq 1); (10, ESignal 0 None); (10, EUnlock); (10, ERet 0 true);
   (10, ECall 0 2 false); (10, ELock); (10, EEnq 2); (10, ESpawn 30); (10, ESignal 0 None); (10, EUnlock); (10, ERet 0 true);
   (30, ELock); (30, EUnlock); (30, ELock); (30, EDeq 1); (30, EUnlock); (30, ERun 1); (30, EDone 1); (30, ELock); (30, EUnlock);
   (30, EExit);
   (20, ECall 3 0 true); (20, ELock); (20, EBcast 0); (20, EUnlock);
   (0, EDone 0); (0, ELock); (0, EUnlock); (0, ELock); (0, EDeq 2); (0, EUnlock); (0, ERun 2); (0, EDone 2); (0, ELock);
   (0, EUnlock); (0, EExit);
   (20, EJoin 0); (20, EFree)].

Example C20_ex_tp_overflow : exists s, Tp_proofs.R ex_ovf s /\ Tp.pc (Tp.th s 20) = Tp.QFreed /\ Tp.done s = [1; 0; 2] /\
  Tp.acc s = [0; 1; 2] /\ Tp.regs s = [0] /\ Tp.workers s = [0; 30] /\ Tp.pc (Tp.th s 30) = Tp.TDead /\ Tp.uaf s = false.
Proof.
  destruct (run Tp.st (Tp.step ex_ovf) (Tp.init ex_ovf) ex_ovf_trace) as [s|] eqn:E; [|vm_compute in E; discriminate].
  exists s. split; [exists ex_ovf_trace; exact E|]. vm_compute in E. inversion E; subst. vm_compute. repeat split.
Qed.

(* ======================================================================================================================
   Deepening round: liveness over fair infinite executions (CC/Fair.v), the registry of iwtp, the queries, iwstw_shutdown
   called from a task, and "the model has no dead transition".

   An execution x is an infinite sequence of states with optional labels (None = nothing happens); [Fair.fair] = whenever a
   thread has an enabled OBLIGATORY transition, that thread performs a transition at that or a later position.  Obligatory =
   everything except starting a new API call and waking up from a condition wait that nobody has signalled
   (Stw_live.must / Tp_live.must): spurious wake-ups are possible at any time but never promised; a signalled waiter, a
   thread that finds the mutex free, a running task body, a join of a finished thread are eventually scheduled.
   ====================================================================================================================== *)

(* ---------------- single-thread worker: liveness ---------------- *)

(* every task linked into the queue is eventually run to the end, or dropped by iwstw_shutdown(false) / iwstw_schedule_only.
   Assumptions besides fairness: current code (recheck; self-thread guard releases the mutex), and task bodies are opaque (they
   do not keep calling iwstw_shutdown on their own executor) *)
Theorem C20_stw_linked_eventually_settled : forall c (x : Stw_live.sexec),
  Stw_live.is_sexec c x -> Stw_live.sfair c x -> Stw_proofs.R c (st_at Stw.st x 0) -> Stw.selfunlock c = true ->
  (forall i e, lab Stw.st x i = Some (Stw.W, e) -> Stw_live.is_call e = false) -> Stw.recheck c = true ->
  forall k i, In k (Stw.enq (st_at Stw.st x i)) ->
  exists j, i <= j /\ (In k (Stw.done (st_at Stw.st x j)) \/ In k (Stw.disc (st_at Stw.st x j)) \/ In k (Stw.repl (st_at Stw.st x j))).
Proof. exact Stw_live_proofs.linked_eventually_settled. Qed.
Print Assumptions C20_stw_linked_eventually_settled.

Theorem C20_stw_accepted_eventually_fair : forall c (x : Stw_live.sexec),
  Stw_live.is_sexec c x -> Stw_live.sfair c x -> Stw_proofs.R c (st_at Stw.st x 0) -> Stw.selfunlock c = true ->
  (forall i e, lab Stw.st x i = Some (Stw.W, e) -> Stw_live.is_call e = false) -> Stw.recheck c = true ->
  forall k i, In k (Stw.acc (st_at Stw.st x i)) ->
  exists j, i <= j /\ (In k (Stw.done (st_at Stw.st x j)) \/ In k (Stw.disc (st_at Stw.st x j)) \/ In k (Stw.repl (st_at Stw.st x j))).
Proof. exact Stw_live_proofs.accepted_eventually_fair. Qed.
Print Assumptions C20_stw_accepted_eventually_fair.

(* after the shutdown flag was set the worker drains the queue and its thread terminates ... *)
Theorem C20_stw_worker_terminates : forall c (x : Stw_live.sexec),
  Stw_live.is_sexec c x -> Stw_live.sfair c x -> Stw_proofs.R c (st_at Stw.st x 0) -> Stw.selfunlock c = true ->
  (forall i e, lab Stw.st x i = Some (Stw.W, e) -> Stw_live.is_call e = false) -> Stw.recheck c = true ->
  forall i, Stw.shut (st_at Stw.st x i) = true -> exists j, i <= j /\ Stw.wpc (st_at Stw.st x j) = Stw.WDead.
Proof. exact Stw_live_proofs.worker_terminates. Qed.
Print Assumptions C20_stw_worker_terminates.

(* ... and iwstw_shutdown returns (liveness half of shutdown_wait_drains: C20_stw_shutdown_wait_drains says what holds then) *)
Theorem C20_stw_shutdown_returns : forall c (x : Stw_live.sexec),
  Stw_live.is_sexec c x -> Stw_live.sfair c x -> Stw_proofs.R c (st_at Stw.st x 0) -> Stw.selfunlock c = true ->
  (forall i e, lab Stw.st x i = Some (Stw.W, e) -> Stw_live.is_call e = false) -> Stw.recheck c = true ->
  forall t i, t <> Stw.W -> Stw.fn (Stw.cl (st_at Stw.st x i) t) = 3 ->
  exists j, i <= j /\ Stw.cp (Stw.cl (st_at Stw.st x j) t) = Stw.Idle.
Proof. exact Stw_live_proofs.shutdown_returns. Qed.
Print Assumptions C20_stw_shutdown_returns.

(* no call deadlocks: every API call returns or parks on cond_queue (iwstw_schedule on a full blocking queue; that wait ends when
   the worker has made room - C20_stw_full_queue_rejects_or_blocks - or at shutdown) *)
Theorem C20_stw_call_returns_or_parks : forall c (x : Stw_live.sexec),
  Stw_live.is_sexec c x -> Stw_live.sfair c x -> Stw_proofs.R c (st_at Stw.st x 0) -> Stw.selfunlock c = true ->
  (forall i e, lab Stw.st x i = Some (Stw.W, e) -> Stw_live.is_call e = false) -> Stw.recheck c = true ->
  forall t i, t <> Stw.W ->
  exists j, i <= j /\ (Stw.cp (Stw.cl (st_at Stw.st x j) t) = Stw.Idle \/ Stw.cp (Stw.cl (st_at Stw.st x j) t) = Stw.CWait).
Proof. exact Stw_live_proofs.call_returns_or_parks. Qed.
Print Assumptions C20_stw_call_returns_or_parks.

(* the fairness hypothesis cannot be dropped: an execution of the model in which an accepted task is never run *)
Theorem C20_stw_accepted_eventually_refuted_without_fairness : exists x : Stw_live.sexec,
  Stw_live.is_sexec Stw_live_proofs.live_cfg x /\ Stw_proofs.R Stw_live_proofs.live_cfg (st_at Stw.st x 0) /\
  Stw.recheck Stw_live_proofs.live_cfg = true /\ In 0 (Stw.acc (st_at Stw.st x 6)) /\
  forall j, 6 <= j -> Stw.queue (st_at Stw.st x j) = [0] /\ ~ In 0 (Stw.done (st_at Stw.st x j)) /\
                      ~ In 0 (Stw.disc (st_at Stw.st x j)) /\ ~ In 0 (Stw.repl (st_at Stw.st x j)).
Proof. exact Stw_live_proofs.accepted_eventually_refuted_without_fairness. Qed.
Print Assumptions C20_stw_accepted_eventually_refuted_without_fairness.

(* GENUINE DEFECT of the code as found (selfunlock = false): iwstw_shutdown called from a task returns IW_ERROR_ASSERTION with
   stw->mtx still locked; after the task has returned the worker waits for its own mutex and NO continuation of the run
   releases it: the iwstw_schedule call of thread 10 never returns ("no call deadlocks" is false).  The trace is the real event
   trace of the directed scenario stw-shutdown-from-task.  Fix: fixes/exec-stw-self-shutdown-unlock.diff *)
Theorem C20_stw_self_shutdown_deadlock_refuted : exists s,
  run Stw.st (Stw.step Stw_live_proofs.selfsd_cfg) Stw.init Stw_live_proofs.selfsd_trace = Some s /\
  Stw.recheck Stw_live_proofs.selfsd_cfg = true /\ In 0 (Stw.acc s) /\ Stw_live_proofs.self_deadlocked s /\
  forall tr s', run Stw.st (Stw.step Stw_live_proofs.selfsd_cfg) s tr = Some s' -> Stw_live_proofs.self_deadlocked s'.
Proof. exact Stw_live_proofs.self_shutdown_deadlock. Qed.
Print Assumptions C20_stw_self_shutdown_deadlock_refuted.

(* the queries and iwstw_schedule_empty_only *)
Theorem C20_stw_queue_size_exact : forall c s t s', Stw_proofs.R c s -> Stw.step c s t EUnlock = Some s' -> t <> Stw.W ->
  Stw.cp (Stw.cl s t) = Stw.Locked -> Stw.fn (Stw.cl s t) = 4 ->
  Stw.cp (Stw.cl s' t) = Stw.Ret (length (Stw.queue s)) false /\ Stw.queue s' = Stw.queue s.
Proof. exact Stw_live_proofs.queue_size_exact. Qed.
Print Assumptions C20_stw_queue_size_exact.

Theorem C20_stw_empty_only_step : forall c s t e s', Stw.step c s t e = Some s' -> t <> Stw.W ->
  Stw.cp (Stw.cl s t) = Stw.Locked -> Stw.fn (Stw.cl s t) = 2 -> Stw.shut s = false ->
  (Stw.queue s = [] -> e = EEnq (Stw.tk (Stw.cl s t)) /\ Stw.queue s' = [Stw.tk (Stw.cl s t)] /\
                       Stw.enq s' = Stw.enq s ++ [Stw.tk (Stw.cl s t)] /\ Stw.cp (Stw.cl s' t) = Stw.Enq) /\
  (Stw.queue s <> [] -> e = EUnlock /\ Stw.queue s' = Stw.queue s /\ Stw.enq s' = Stw.enq s /\
                        Stw.cp (Stw.cl s' t) = Stw.Ret RC_OK false).
Proof. exact Stw_live_proofs.empty_only_step. Qed.
Print Assumptions C20_stw_empty_only_step.

(* ---------------- thread pool: registry ---------------- *)

(* tp->threads is exactly the list of the threads started with _worker_fn, in creation order, minus the overflow threads that
   have unregistered + detached themselves (those are past the loop); the threads of iwtp_start stay at the front *)
Theorem C20_tp_registry_exact : forall c s, Tp_proofs.R c s -> Tp.reg c = true ->
  Tp.regs s = filter (Tp_reg_proofs.live s) (Tp.workers s) /\ NoDup (Tp.regs s) /\
  (forall t, In t (Tp.regs s) <-> In t (Tp.workers s) /\ Tp.det (Tp.th s t) = false) /\
  (forall t, Tp.det (Tp.th s t) = true ->
     In t (Tp.workers s) /\ Tp.nthreads c <= t /\ (Tp.pc (Tp.th s t) = Tp.TExit \/ Tp.pc (Tp.th s t) = Tp.TDead)) /\
  (forall t, Tp_proofs.loop_pc (Tp.pc (Tp.th s t)) = true -> In t (Tp.regs s)) /\
  (exists rest, Tp.regs s = seq 0 (Tp.nthreads c) ++ rest /\ forall r, In r rest -> Tp.nthreads c <= r).
Proof. exact Tp_reg_proofs.registry_exact. Qed.
Print Assumptions C20_tp_registry_exact.

(* the index cached by _worker_fn may be stale, but `idx >= tp->num_threads` still means "overflow thread" *)
Theorem C20_tp_cached_index_classifies : forall c s t, Tp_proofs.R c s -> Tp_proofs.loop_pc (Tp.pc (Tp.th s t)) = true ->
  (Tp.nthreads c <=? Tp.ix (Tp.th s t)) = (Tp.nthreads c <=? t) /\ (t < Tp.nthreads c -> Tp.ix (Tp.th s t) = t).
Proof. exact Tp_reg_proofs.cached_index_classifies. Qed.
Print Assumptions C20_tp_cached_index_classifies.

(* removal through the cached index (the seeded regression) is refuted: reachable state where it would unregister the live
   thread 32 and keep the leaving thread 31 *)
Theorem C20_tp_cached_index_removal_refuted : exists s,
  run Tp.st (Tp.step Tp_reg_proofs.stale_cfg) (Tp.init Tp_reg_proofs.stale_cfg) Tp_reg_proofs.stale_trace = Some s /\
  Tp.reg Tp_reg_proofs.stale_cfg = true /\
  Tp.pc (Tp.th s 31) = Tp.TL2 /\ Tp.owner s = Some 31 /\ Tp.shut s = false /\
  Tp.nthreads Tp_reg_proofs.stale_cfg <= Tp.ix (Tp.th s 31) /\
  Tp.regs s = [0; 31; 32] /\ Tp.ix (Tp.th s 31) = 2 /\ find_first 31 (Tp.regs s) = Some 1 /\
  nth_error (Tp.regs s) (Tp.ix (Tp.th s 31)) = Some 32 /\ Tp.pc (Tp.th s 32) = Tp.TStart /\ Tp.det (Tp.th s 32) = false /\
  remove_first 31 (Tp.regs s) = [0; 32] /\ Tp_reg_proofs.remove_at (Tp.ix (Tp.th s 31)) (Tp.regs s) = [0; 31].
Proof. exact Tp_reg_proofs.cached_index_removal_refuted. Qed.
Print Assumptions C20_tp_cached_index_removal_refuted.

(* iwtp_shutdown joins exactly the registry ... *)
Theorem C20_tp_shutdown_joins_registry : forall c s t s', Tp.step c s t (EBcast 0) = Some s' -> Tp.pc (Tp.th s t) = Tp.Locked ->
  Tp.fn (Tp.th s t) = 3 /\ Tp.shut s = false /\ Tp.shut s' = true /\ Tp.pc (Tp.th s' t) = Tp.QB /\
  Tp.jl (Tp.th s' t) = Tp.regs s /\ Tp.regs s' = Tp.regs s.
Proof. exact Tp_reg_proofs.shutdown_joins_registry. Qed.
Print Assumptions C20_tp_shutdown_joins_registry.

(* ... so that at free(tp) every thread ever started has finished, or has detached itself and left the loop ... *)
Theorem C20_tp_shutdown_joined_all : forall c s t, Tp_proofs.R c s -> Tp.chk c = true -> Tp.reg c = true ->
  Tp.pc (Tp.th s t) = Tp.QFreed -> forall w, In w (Tp.workers s) ->
  (Tp.det (Tp.th s w) = false -> Tp.pc (Tp.th s w) = Tp.TDead) /\
  (Tp.det (Tp.th s w) = true -> Tp.pc (Tp.th s w) = Tp.TExit \/ Tp.pc (Tp.th s w) = Tp.TDead).
Proof. exact Tp_reg_proofs.shutdown_joined_all. Qed.
Print Assumptions C20_tp_shutdown_joined_all.

(* ... and after free(tp) no thread of the pool is, or can get, inside the worker loop *)
Theorem C20_tp_freed_no_worker_alive : forall c s, Tp_proofs.R c s -> Tp.chk c = true -> Tp.reg c = true -> Tp.freed s = true ->
  forall w, In w (Tp.workers s) -> Tp.pc (Tp.th s w) = Tp.TExit \/ Tp.pc (Tp.th s w) = Tp.TDead.
Proof. exact Tp_reg_proofs.freed_no_worker_alive. Qed.
Print Assumptions C20_tp_freed_no_worker_alive.

(* the code before b174074 (reg = false) does not have it: the unregistered overflow thread takes the mutex after free(tp) *)
Theorem C20_tp_freed_no_worker_alive_refuted_without_register : exists s,
  run Tp.st (Tp.step Tp_reg_proofs.unreg_cfg) (Tp.init Tp_reg_proofs.unreg_cfg) Tp_reg_proofs.unreg_trace = Some s /\
  Tp.chk Tp_reg_proofs.unreg_cfg = true /\ Tp.reg Tp_reg_proofs.unreg_cfg = false /\
  Tp.freed s = true /\ In 30 (Tp.workers s) /\ ~ In 30 (Tp.regs s) /\ Tp.pc (Tp.th s 30) = Tp.TReg /\
  Tp.owner s = Some 30 /\ Tp.uaf s = true.
Proof. exact Tp_reg_proofs.freed_no_worker_alive_refuted_without_register. Qed.
Print Assumptions C20_tp_freed_no_worker_alive_refuted_without_register.

(* ---------------- thread pool: queries, rejection ---------------- *)
Theorem C20_tp_queue_size_exact : forall c s t s', Tp_proofs.R c s -> Tp.step c s t EUnlock = Some s' ->
  Tp.pc (Tp.th s t) = Tp.Locked -> Tp.fn (Tp.th s t) = 4 ->
  Tp.pc (Tp.th s' t) = Tp.Ret (length (Tp.queue s)) false /\ Tp.queue s' = Tp.queue s.
Proof. exact Tp_reg_proofs.queue_size_exact. Qed.
Print Assumptions C20_tp_queue_size_exact.

(* IW_ERROR_OVERFLOW only when the queue really holds queue_limit tasks; a call that finds room is accepted (the seeded change
   C20/r6 - counter incremented before the test and not rolled back - breaks exactly this) *)
Theorem C20_tp_overflow_only_when_full : forall c s t e s', Tp_proofs.R c s -> Tp.step c s t e = Some s' ->
  Tp.pc (Tp.th s t) = Tp.Locked -> Tp.fn (Tp.th s t) = 0 -> Tp.pc (Tp.th s' t) = Tp.Ret RC_OVERFLOW false ->
  Tp.limit c > 0 /\ length (Tp.queue s) >= Tp.limit c /\ Tp.enq s' = Tp.enq s /\ Tp.queue s' = Tp.queue s.
Proof. exact Tp_reg_proofs.overflow_only_when_full. Qed.
Print Assumptions C20_tp_overflow_only_when_full.

Theorem C20_tp_accepts_when_not_full : forall c s t, Tp_proofs.R c s -> Tp.pc (Tp.th s t) = Tp.Locked -> Tp.fn (Tp.th s t) = 0 ->
  Tp.owner s = Some t -> Tp.shut s = false -> (Tp.limit c = 0 \/ length (Tp.queue s) < Tp.limit c) ->
  Tp.step c s t (EEnq (Tp.tk (Tp.th s t))) <> None.
Proof. exact Tp_reg_proofs.accepts_when_not_full. Qed.
Print Assumptions C20_tp_accepts_when_not_full.

(* iwtp_threads_busy_num = number of threads between ++num_threads_busy and --num_threads_busy <= registered threads <=
   num_threads * (1 + overflow_threads_factor) *)
Theorem C20_tp_busy_num_exact : forall c s t s', Tp_proofs.R c s -> Tp.step c s t EUnlock = Some s' ->
  Tp.pc (Tp.th s t) = Tp.Locked -> Tp.fn (Tp.th s t) = 5 ->
  Tp.pc (Tp.th s' t) = Tp.Ret (Tp.busy s) false /\
  Tp.busy s = length (filter (fun u => Tp_reg_proofs.busy_pc (Tp.pc (Tp.th s u))) (Tp.workers s)) /\
  Tp.busy s <= length (Tp.regs s) /\ length (Tp.regs s) <= Tp.nthreads c * (1 + Tp.ovf c).
Proof. exact Tp_reg_proofs.busy_num_exact. Qed.
Print Assumptions C20_tp_busy_num_exact.

(* ---------------- thread pool: liveness ---------------- *)
Theorem C20_tp_accepted_eventually_fair : forall c (x : Tp_live.texec),
  Tp_live.is_texec c x -> Tp_live.tfair c x -> Tp_proofs.R c (st_at Tp.st x 0) -> Tp.nthreads c > 0 -> Tp.chk c = true ->
  forall k i, In k (Tp.acc (st_at Tp.st x i)) ->
  exists j, i <= j /\ (In k (Tp.done (st_at Tp.st x j)) \/ In k (Tp.disc (st_at Tp.st x j))).
Proof. exact Tp_live_proofs.accepted_eventually_fair. Qed.
Print Assumptions C20_tp_accepted_eventually_fair.

Theorem C20_tp_worker_terminates : forall c (x : Tp_live.texec),
  Tp_live.is_texec c x -> Tp_live.tfair c x -> Tp_proofs.R c (st_at Tp.st x 0) -> Tp.nthreads c > 0 -> Tp.chk c = true ->
  forall w i, Tp.shut (st_at Tp.st x i) = true -> Tp_proofs.worker_pc (Tp.pc (Tp.th (st_at Tp.st x i) w)) = true ->
  exists j, i <= j /\ Tp.pc (Tp.th (st_at Tp.st x j) w) = Tp.TDead.
Proof. exact Tp_live_proofs.worker_terminates. Qed.
Print Assumptions C20_tp_worker_terminates.

(* no call deadlocks: every call of iwtp_schedule / iwtp_shutdown / iwtp_queue_size / iwtp_threads_busy_num returns (for
   iwtp_shutdown this is the liveness half of C20_tp_shutdown_wait_drains) *)
Theorem C20_tp_call_returns : forall c (x : Tp_live.texec),
  Tp_live.is_texec c x -> Tp_live.tfair c x -> Tp_proofs.R c (st_at Tp.st x 0) -> Tp.nthreads c > 0 -> Tp.chk c = true ->
  forall t i, Tp_proofs.worker_pc (Tp.pc (Tp.th (st_at Tp.st x i) t)) = false ->
  exists j, i <= j /\ Tp.pc (Tp.th (st_at Tp.st x j) t) = Tp.Idle.
Proof. exact Tp_live_proofs.call_returns. Qed.
Print Assumptions C20_tp_call_returns.

Theorem C20_tp_accepted_eventually_refuted_without_fairness : exists x : Tp_live.texec,
  Tp_live.is_texec Tp_live_proofs.live_cfg x /\ Tp_proofs.R Tp_live_proofs.live_cfg (st_at Tp.st x 0) /\
  Tp.chk Tp_live_proofs.live_cfg = true /\ In 5 (Tp.acc (st_at Tp.st x 10)) /\
  forall j, 10 <= j -> Tp.queue (st_at Tp.st x j) = [5] /\ ~ In 5 (Tp.done (st_at Tp.st x j)) /\ ~ In 5 (Tp.disc (st_at Tp.st x j)).
Proof. exact Tp_live_proofs.accepted_eventually_refuted_without_fairness. Qed.
Print Assumptions C20_tp_accepted_eventually_refuted_without_fairness.

(* ---------------- the models have no dead transition (missing direction of trace conformance) ----------------
   Cover.stw_edge / tp_edge abstract one transition to (source pc, API function, event kind, target pc, guards read).  Every
   transition of the model - in ANY state - has the edge of a transition taken in a REACHABLE state (witness runs in
   CC/Cover.v; the first ones are real traces of the implementation), except four edges of iwstw that are artefacts of sharing
   the loop functions between first visit and re-entry, and those are never taken in a reachable state. *)
Theorem C20_stw_no_dead_transition : forall c s t ev s', Stw.step c s t ev = Some s' ->
  ~ In (Cover.stw_edge c s t ev s') Cover.stw_dead_edges ->
  exists c0 s0 t0 ev0 s0', Stw_proofs.R c0 s0 /\ Stw.step c0 s0 t0 ev0 = Some s0' /\
                           Cover.stw_edge c0 s0 t0 ev0 s0' = Cover.stw_edge c s t ev s'.
Proof. exact Cover_proofs.stw_no_dead_transition. Qed.
Print Assumptions C20_stw_no_dead_transition.

Theorem C20_stw_dead_edges_unreachable : forall c s t ev s', Stw_proofs.R c s -> Stw.step c s t ev = Some s' ->
  ~ In (Cover.stw_edge c s t ev s') Cover.stw_dead_edges.
Proof. exact Cover_proofs.stw_dead_edges_unreachable. Qed.
Print Assumptions C20_stw_dead_edges_unreachable.

Theorem C20_tp_no_dead_transition : forall c s t ev s', Tp.step c s t ev = Some s' ->
  exists c0 s0 t0 ev0 s0', Tp_proofs.R c0 s0 /\ Tp.step c0 s0 t0 ev0 = Some s0' /\
                           Cover.tp_edge c0 s0 t0 ev0 s0' = Cover.tp_edge c s t ev s'.
Proof. exact Cover_proofs.tp_no_dead_transition. Qed.
Print Assumptions C20_tp_no_dead_transition.

(* ---------------- satisfiability of the new hypotheses ---------------- *)
(* a fair execution exists (and all other hypotheses of the stw liveness theorems hold for it) *)
Example C20_ex_stw_fair_exec : exists x : Stw_live.sexec,
  Stw_live.is_sexec Stw_live_proofs.live_cfg x /\ Stw_live.sfair Stw_live_proofs.live_cfg x /\
  Stw_proofs.R Stw_live_proofs.live_cfg (st_at Stw.st x 0) /\
  Stw.recheck Stw_live_proofs.live_cfg = true /\ Stw.selfunlock Stw_live_proofs.live_cfg = true /\
  (forall i e, lab Stw.st x i = Some (Stw.W, e) -> Stw_live.is_call e = false) /\
  In 0 (Stw.acc (st_at Stw.st x 6)) /\ In 0 (Stw.done (st_at Stw.st x 11)).
Proof. exact Stw_live_proofs.fair_exec_example. Qed.

Example C20_ex_tp_fair_exec : exists x : Tp_live.texec,
  Tp_live.is_texec Tp_live_proofs.live_cfg x /\ Tp_live.tfair Tp_live_proofs.live_cfg x /\
  Tp_proofs.R Tp_live_proofs.live_cfg (st_at Tp.st x 0) /\ Tp.nthreads Tp_live_proofs.live_cfg > 0 /\
  Tp.chk Tp_live_proofs.live_cfg = true /\ In 5 (Tp.acc (st_at Tp.st x 10)) /\ In 5 (Tp.done (st_at Tp.st x 40)) /\
  Tp.pc (Tp.th (st_at Tp.st x 26) 20) = Tp.Start /\ Tp.pc (Tp.th (st_at Tp.st x 40) 20) = Tp.Idle.
Proof. exact Tp_live_proofs.fair_exec_example. Qed.

(* with the fix the call sequence of the self-shutdown defect is harmless *)
Example C20_ex_stw_self_shutdown_fixed : exists s,
  run Stw.st (Stw.step Stw_live_proofs.selfsd_fixed_cfg) Stw.init Stw_live_proofs.selfsd_fixed_trace = Some s /\
  Stw.owner s = None /\ Stw.acc s = [0; 1] /\ Stw.done s = [0] /\ Stw.queue s = [1] /\ Stw.shut s = false.
Proof. exact Stw_live_proofs.self_shutdown_fixed_example. Qed.

(* number of distinct transitions on record: iwstw 71 live + 4 dead edges (32 witness runs), iwtp 47 (16 witness runs) *)
Example C20_ex_edge_counts :
  (length (Cover.edge_nodup Cover.stw_edges) = 71 /\ length Cover.stw_dead_edges = 4 /\ length Cover.stw_witness = 32) /\
  (length (Cover.edge_nodup Cover.tp_edges) = 47 /\ length Cover.tp_witness = 16).
Proof. split; [exact Cover_proofs.stw_edge_count|exact Cover_proofs.tp_edge_count]. Qed.
