(* C20 - task executors (iwstw.c single-thread worker, iwtp.c thread pool): statements only.
   Models: CC/Stw.v, CC/Tp.v (labelled transition systems, one transition per lock/unlock/wait/wake/signal/queue
   edit/callback; any number of client threads; waits may return spuriously).  R c s = "s is reachable from the
   initial state by some interleaving"; every theorem below quantifies over ALL reachable states / transitions.
   Stw.recheck / Tp.chk select the code variant: true = current code (with fixes exec-stw-recheck / exec-tp-shutdown),
   false = the code as found, for which the liveness half is refuted by the real event traces below.  Tp.reg: false =
   overflow threads are not pushed to tp->threads (code as found: they leave at once and are never joined), true = with
   fixes/exec-tp-overflow-register.diff; the tp theorems hold for both values. *)
Require Import List Bool Arith Lia.
Require Import IW.CC.Lts IW.CC.Lts_proofs IW.CC.Stw IW.CC.Stw_proofs IW.CC.Tp IW.CC.Tp_proofs.
Import ListNotations.

(* ---------------- single-thread worker ---------------- *)

(* every accepted task was linked; every linked task is in exactly one of queued / held by the worker (running) / done /
   dropped by shutdown / dropped by schedule_only *)
Theorem C20_stw_accepted_partition : forall c s, Stw_proofs.R c s ->
  (forall x, In x (Stw.acc s) -> In x (Stw.enq s)) /\
  (forall x, In x (Stw.enq s) <-> In x (Stw.queue s ++ Stw.held s ++ Stw.done s ++ Stw.disc s ++ Stw.repl s)) /\
  NoDup (Stw.queue s ++ Stw.held s ++ Stw.done s ++ Stw.disc s ++ Stw.repl s) /\ NoDup (Stw.enq s).
Proof. exact Stw_proofs.accepted_partition. Qed.
Print Assumptions C20_stw_accepted_partition.

(* ... and never moves backwards: queued -> held -> done, queued -> dropped; done and dropped are final *)
Theorem C20_stw_status_monotone : forall c s t e s', Stw.step c s t e = Some s' -> forall x,
  (In x (Stw.done s) -> In x (Stw.done s')) /\ (In x (Stw.disc s) -> In x (Stw.disc s')) /\
  (In x (Stw.repl s) -> In x (Stw.repl s')) /\
  (In x (Stw.held s) -> In x (Stw.held s') \/ In x (Stw.done s')) /\
  (In x (Stw.queue s) -> In x (Stw.queue s') \/ In x (Stw.held s') \/ In x (Stw.disc s') \/ In x (Stw.repl s')).
Proof. exact Stw_proofs.status_monotone. Qed.
Print Assumptions C20_stw_status_monotone.

Theorem C20_stw_executed_at_most_once : forall c s, Stw_proofs.R c s -> NoDup (Stw.started s).
Proof. exact Stw_proofs.executed_at_most_once. Qed.
Print Assumptions C20_stw_executed_at_most_once.

(* FIFO: the sequence of tasks whose fn was entered is a prefix of the linked tasks minus the dropped ones, in link order;
   a dropped task never starts *)
Theorem C20_stw_fifo : forall c s, Stw_proofs.R c s ->
  (exists rest, filter (Stw_proofs.keep (Stw.disc s ++ Stw.repl s)) (Stw.enq s) = Stw.started s ++ rest) /\
  (forall x, In x (Stw.started s) -> ~ In x (Stw.disc s ++ Stw.repl s)).
Proof. exact Stw_proofs.stw_fifo. Qed.
Print Assumptions C20_stw_fifo.

Theorem C20_stw_limit_respected : forall c s, Stw_proofs.R c s -> Stw.limit c > 0 -> length (Stw.queue s) <= Stw.limit c.
Proof. exact Stw_proofs.limit_respected. Qed.
Print Assumptions C20_stw_limit_respected.

Theorem C20_stw_full_queue_rejects_or_blocks : forall c s t e s', Stw.step c s t e = Some s' -> t <> Stw.W ->
  Stw.fn (Stw.cl s t) = 0 -> Stw.cp (Stw.cl s t) = Stw.Locked \/ Stw.cp (Stw.cl s t) = Stw.Woken ->
  Stw.shut s = false -> Stw.full c s = true ->
  (Stw.blocking c = false ->
     e = EUnlock /\ Stw.cp (Stw.cl s' t) = Stw.Ret RC_OVERFLOW false /\ Stw.enq s' = Stw.enq s) /\
  (Stw.blocking c = true ->
     e = EWait 1 /\ Stw.cp (Stw.cl s' t) = Stw.CWait /\ In t (Stw.waitq s') /\ Stw.blocked s' = true /\ Stw.enq s' = Stw.enq s).
Proof. exact Stw_proofs.full_queue_rejects_or_blocks. Qed.
Print Assumptions C20_stw_full_queue_rejects_or_blocks.

(* the worker is never parked on `cond` while the queue is non-empty and nobody is about to broadcast *)
Theorem C20_stw_no_lost_wakeup : forall c s, Stw_proofs.R c s -> Stw.owner s = None -> In Stw.W (Stw.waitc s) -> Stw.queue s = [].
Proof. exact Stw_proofs.no_lost_wakeup. Qed.
Print Assumptions C20_stw_no_lost_wakeup.

(* discard: a dropped task is reported/dropped once, was linked, and never started, ran, or stayed queued *)
Theorem C20_stw_discarded_never_started : forall c s, Stw_proofs.R c s ->
  NoDup (Stw.disc s ++ Stw.repl s) /\
  forall x, In x (Stw.disc s ++ Stw.repl s) ->
    In x (Stw.enq s) /\ ~ In x (Stw.started s) /\ ~ In x (Stw.done s) /\ ~ In x (Stw.queue s) /\ ~ In x (Stw.held s).
Proof. exact Stw_proofs.discarded_never_started. Qed.
Print Assumptions C20_stw_discarded_never_started.

(* iwstw_shutdown(false): each discard-callback transition reports the head of the queue; the flag is set only when the
   whole queue has been dropped (and, with a callback, reported) *)
Theorem C20_stw_shutdown_discard_step : forall c s t x s', Stw.step c s t (EDiscard x) = Some s' -> Stw.fn (Stw.cl s t) = 3 ->
  Stw.cp (Stw.cl s t) = Stw.Locked \/ Stw.cp (Stw.cl s t) = Stw.DDisc ->
  t <> Stw.W /\ Stw.has_cb c = true /\ Stw.queue s = x :: Stw.queue s' /\ Stw.disc s' = Stw.disc s ++ [x] /\
  Stw.shut s' = Stw.shut s.
Proof. exact Stw_proofs.shutdown_discard_step. Qed.
Print Assumptions C20_stw_shutdown_discard_step.

Theorem C20_stw_shutdown_nowait_discards : forall c s t s', Stw.step c s t (EBcast 0) = Some s' -> t <> Stw.W ->
  Stw.fn (Stw.cl s t) = 3 ->
  (Stw.cp (Stw.cl s t) = Stw.Locked /\ Stw.wf (Stw.cl s t) = false /\ Stw.shut s = false) \/ Stw.cp (Stw.cl s t) = Stw.DDisc ->
  Stw.queue s' = [] /\ Stw.disc s' = Stw.disc s ++ Stw.queue s /\ Stw.shut s' = true /\ Stw.shut_wait s' = false /\
  (Stw.has_cb c = true -> Stw.queue s = []).
Proof. exact Stw_proofs.shutdown_nowait_flag_step. Qed.
Print Assumptions C20_stw_shutdown_nowait_discards.

(* current code (re-check after the wait loop): once the worker has left its loop nothing is queued any more, and when
   iwstw_shutdown has joined the worker every accepted task has run or was dropped; a waiting shutdown drops nothing *)
Theorem C20_stw_worker_gone_all_settled : forall c s, Stw_proofs.R c s -> Stw.recheck c = true ->
  Stw.wpc s = Stw.WExit \/ Stw.wpc s = Stw.WDead ->
  Stw.shut s = true /\ Stw.queue s = [] /\
  forall x, In x (Stw.enq s) -> In x (Stw.done s) \/ In x (Stw.disc s) \/ In x (Stw.repl s).
Proof. exact Stw_proofs.worker_gone_all_settled. Qed.
Print Assumptions C20_stw_worker_gone_all_settled.

Theorem C20_stw_shutdown_wait_drains : forall c s t, Stw_proofs.R c s -> Stw.recheck c = true -> t <> Stw.W ->
  Stw.cp (Stw.cl s t) = Stw.DJoined \/ Stw.cp (Stw.cl s t) = Stw.DFreed ->
  (forall x, In x (Stw.acc s) -> In x (Stw.done s) \/ In x (Stw.disc s) \/ In x (Stw.repl s)) /\
  (Stw.shut_wait s = true -> Stw.disc s = [] /\ forall x, In x (Stw.acc s) -> In x (Stw.done s) \/ In x (Stw.repl s)).
Proof. exact Stw_proofs.shutdown_wait_drains. Qed.
Print Assumptions C20_stw_shutdown_wait_drains.

(* liveness half of accepted_partition, as a statement about terminal states *)
Theorem C20_stw_accepted_eventually : forall c s, Stw_proofs.R c s -> Stw.recheck c = true -> Stw.w_dead s = true ->
  forall x, In x (Stw.acc s) -> In x (Stw.done s) \/ In x (Stw.disc s) \/ In x (Stw.repl s).
Proof. exact Stw_proofs.accepted_eventually. Qed.
Print Assumptions C20_stw_accepted_eventually.

(* the code as found (recheck = false) does NOT have it: the statement
     forall c s, R c s -> w_dead s = true -> forall x, In x (acc s) -> In x (done s) \/ In x (disc s) \/ In x (repl s)
   is refuted by the event trace recorded from the unfixed implementation (directed scenario
   stw-blocked-submitter-after-shutdown of checks/C20.py) *)
Theorem C20_stw_accepted_eventually_refuted_without_recheck : exists s,
  run Stw.st (Stw.step Stw_proofs.lost_cfg) Stw.init Stw_proofs.lost_trace = Some s /\ Stw.w_dead s = true /\
  Stw.cl_idle s 10 = true /\ Stw.cl_idle s 20 = true /\
  In 2 (Stw.acc s) /\ ~ In 2 (Stw.done s) /\ ~ In 2 (Stw.disc s) /\ ~ In 2 (Stw.repl s) /\ Stw.queue s = [2] /\ Stw.freed s = true.
Proof. exact Stw_proofs.accepted_eventually_refuted. Qed.
Print Assumptions C20_stw_accepted_eventually_refuted_without_recheck.

(* ---------------- thread pool ---------------- *)

Theorem C20_tp_accepted_partition : forall c s, Tp_proofs.R c s ->
  (forall x, In x (Tp.acc s) -> In x (Tp.enq s)) /\
  (forall x, In x (Tp.enq s) <-> In x (Tp.queue s ++ Tp.held s ++ Tp.done s ++ Tp.disc s)) /\
  NoDup (Tp.queue s ++ Tp.held s ++ Tp.done s ++ Tp.disc s) /\ NoDup (Tp.enq s).
Proof. exact Tp_proofs.accepted_partition. Qed.
Print Assumptions C20_tp_accepted_partition.

Theorem C20_tp_limit_respected : forall c s, Tp_proofs.R c s -> Tp.limit c > 0 ->
  length (Tp.queue s) <= Tp.limit c /\ Tp.qsize s = length (Tp.queue s).
Proof. exact Tp_proofs.limit_respected. Qed.
Print Assumptions C20_tp_limit_respected.

(* while the queue is non-empty and the mutex is free, some pool thread is not parked *)
Theorem C20_tp_no_lost_wakeup : forall c s, Tp.nthreads c > 0 -> Tp_proofs.R c s -> Tp.owner s = None -> Tp.queue s <> [] ->
  exists w, w < Tp.nthreads c /\ ~ In w (Tp.waitc s).
Proof. exact Tp_proofs.no_lost_wakeup. Qed.
Print Assumptions C20_tp_no_lost_wakeup.

(* current code (shutdown check in iwtp_schedule): when iwtp_shutdown has joined the threads of its list, no thread holds a
   task, every linked task has run or was dropped by a non-waiting shutdown; a waiting shutdown returns with every
   accepted task done *)
Theorem C20_tp_shutdown_wait_drains : forall c s t, Tp_proofs.R c s -> Tp.chk c = true -> Tp.nthreads c > 0 ->
  Tp.pc (Tp.th s t) = Tp.QFreed ->
  Tp.shut s = true /\ Tp.queue s = [] /\ Tp.held s = [] /\
  (forall x, In x (Tp.enq s) -> In x (Tp.done s) \/ In x (Tp.disc s)) /\
  (Tp.shut_wait s = true -> Tp.disc s = [] /\ forall x, In x (Tp.acc s) -> In x (Tp.done s)).
Proof. exact Tp_proofs.shutdown_wait_drains_thm. Qed.
Print Assumptions C20_tp_shutdown_wait_drains.

(* the code as found (chk = false) does not: real event trace of directed scenario tp-schedule-during-shutdown *)
Theorem C20_tp_shutdown_wait_drains_refuted_without_check : exists s,
  run Tp.st (Tp.step Tp_proofs.lost_cfg) (Tp.init Tp_proofs.lost_cfg) Tp_proofs.lost_trace = Some s /\
  Tp.pc (Tp.th s 0) = Tp.TDead /\ Tp.pc (Tp.th s 10) = Tp.Idle /\ Tp.pc (Tp.th s 20) = Tp.Idle /\ Tp.shut_wait s = true /\
  In 0 (Tp.acc s) /\ ~ In 0 (Tp.done s) /\ ~ In 0 (Tp.disc s) /\ Tp.queue s = [0].
Proof. exact Tp_proofs.shutdown_wait_drains_refuted. Qed.
Print Assumptions C20_tp_shutdown_wait_drains_refuted_without_check.

(* ---------------- the hypotheses are satisfiable by non-trivial states ---------------- *)
Definition ex_cfg : Stw.cfg := Stw.mkcfg 1 true true true true.
(* one task running, one queued, a third submitter call blocked on the full queue, then iwstw_shutdown(false) with the
   re-check: the woken call is refused, the worker is joined *)
Definition ex_trace : list (tid * ev) :=
  [(10, ECall 0 0 false); (10, ELock); (10, EEnq 0); (10, EBcast 0); (10, EUnlock); (10, ERet 0 true);
   (0, ELock); (0, EDeq 0); (0, EUnlock); (0, ERun 0);
   (10, ECall 0 1 false); (10, ELock); (10, EEnq 1); (10, EBcast 0); (10, EUnlock); (10, ERet 0 true);
   (10, ECall 0 2 false); (10, ELock); (10, EWait 1);
   (20, ECall 3 0 false); (20, ELock); (20, EDiscard 1); (20, EBcast 0); (20, EBcast 1); (20, EUnlock);
   (0, EDone 0); (0, ELock); (0, EUnlock); (0, EExit);
   (10, EWake 1); (10, EUnlock); (10, ERet 1 false);
   (20, EJoin 0)].

Lemma ex_reach : forall c tr s, run Stw.st (Stw.step c) Stw.init tr = Some s -> Stw_proofs.R c s.
Proof. intros c tr s H. exists tr. exact H. Qed.

Example C20_ex_stw_final : exists s, Stw_proofs.R ex_cfg s /\ Stw.recheck ex_cfg = true /\ Stw.cp (Stw.cl s 20) = Stw.DJoined /\
  Stw.w_dead s = true /\ Stw.acc s = [0; 1] /\ Stw.done s = [0] /\ Stw.disc s = [1] /\ Stw.started s = [0] /\ Stw.enq s = [0; 1] /\
  Stw.shut_wait s = false.
Proof.
  destruct (run Stw.st (Stw.step ex_cfg) Stw.init ex_trace) as [s|] eqn:E; [|vm_compute in E; discriminate].
  exists s. split; [eapply ex_reach; exact E|]. vm_compute in E. inversion E; subst. vm_compute. repeat split.
Qed.

(* in the middle: task 0 running, task 1 queued (limit 1 reached), submitter 10 parked on cond_queue, mutex free *)
Example C20_ex_stw_blocked : exists s, Stw_proofs.R ex_cfg s /\ Stw.limit ex_cfg > 0 /\ Stw.queue s = [1] /\ Stw.held s = [0] /\
  Stw.waitq s = [10] /\ Stw.owner s = None /\ Stw.full ex_cfg s = true /\ Stw.blocked s = true.
Proof.
  destruct (run Stw.st (Stw.step ex_cfg) Stw.init (firstn 19 ex_trace)) as [s|] eqn:E; [|vm_compute in E; discriminate].
  exists s. split; [eapply ex_reach; exact E|]. vm_compute in E. inversion E; subst. vm_compute. repeat split; lia.
Qed.

(* the worker parked on `cond` with the mutex free *)
Example C20_ex_stw_parked : exists s, Stw_proofs.R ex_cfg s /\ Stw.owner s = None /\ In Stw.W (Stw.waitc s) /\ Stw.wpc s = Stw.WWait.
Proof.
  destruct (run Stw.st (Stw.step ex_cfg) Stw.init [(0, ELock); (0, EUnlock); (0, ELock); (0, EWait 0)]) as [s|] eqn:E;
    [|vm_compute in E; discriminate].
  exists s. split; [eapply ex_reach; exact E|]. vm_compute in E. inversion E; subst. vm_compute. repeat split. left. reflexivity.
Qed.

(* the transitions named in the step-level theorems exist: discard-callback step and flag step of the non-waiting shutdown *)
Example C20_ex_stw_discard_steps : exists s s1 s2, Stw_proofs.R ex_cfg s /\
  Stw.step ex_cfg s 20 (EDiscard 1) = Some s1 /\ Stw.fn (Stw.cl s 20) = 3 /\ Stw.cp (Stw.cl s 20) = Stw.Locked /\
  Stw.step ex_cfg s1 20 (EBcast 0) = Some s2 /\ Stw.cp (Stw.cl s1 20) = Stw.DDisc /\ Stw.disc s2 = [1] /\ Stw.queue s2 = [].
Proof.
  destruct (run Stw.st (Stw.step ex_cfg) Stw.init (firstn 21 ex_trace)) as [s|] eqn:E; [|vm_compute in E; discriminate].
  destruct (Stw.step ex_cfg s 20 (EDiscard 1)) as [s1|] eqn:E1; [|vm_compute in E; inversion E; subst; vm_compute in E1; discriminate].
  destruct (Stw.step ex_cfg s1 20 (EBcast 0)) as [s2|] eqn:E2;
    [|vm_compute in E; inversion E; subst; vm_compute in E1; inversion E1; subst; vm_compute in E2; discriminate].
  exists s, s1, s2. split; [eapply ex_reach; exact E|].
  vm_compute in E; inversion E; subst. vm_compute in E1; inversion E1; subst. vm_compute in E2; inversion E2; subst.
  vm_compute. repeat split.
Qed.

Definition ex_tp : Tp.cfg := Tp.mkcfg 2 3 1 true true.
Definition ex_tp_trace : list (tid * ev) :=
  [(0, ELock); (0, EUnlock); (1, ELock); (1, EUnlock);
   (10, ECall 0 5 false); (10, ELock); (10, EEnq 5); (10, ESignal 0 None); (10, EUnlock); (10, ERet 0 true);
   (0, ELock); (0, EDeq 5); (0, EUnlock); (0, ERun 5);
   (11, ECall 0 6 false); (11, ELock); (11, EEnq 6); (11, ESignal 0 None); (11, EUnlock); (11, ERet 0 true);
   (1, ELock); (1, EDeq 6); (1, EUnlock); (1, ERun 6); (1, EDone 6);
   (20, ECall 3 0 true); (20, ELock); (20, EBcast 0); (20, EUnlock);
   (1, ELock); (1, EUnlock); (1, EExit);
   (0, EDone 5); (0, ELock); (0, EUnlock); (0, EExit);
   (20, EJoin 0); (20, EJoin 1); (20, EFree)].

Example C20_ex_tp_final : exists s, Tp_proofs.R ex_tp s /\ Tp.chk ex_tp = true /\ Tp.nthreads ex_tp > 0 /\ Tp.limit ex_tp > 0 /\
  Tp.pc (Tp.th s 20) = Tp.QFreed /\ Tp.shut_wait s = true /\ Tp.acc s = [5; 6] /\ Tp.done s = [6; 5] /\ Tp.enq s = [5; 6].
Proof.
  destruct (run Tp.st (Tp.step ex_tp) (Tp.init ex_tp) ex_tp_trace) as [s|] eqn:E; [|vm_compute in E; discriminate].
  exists s. split; [exists ex_tp_trace; exact E|]. vm_compute in E. inversion E; subst. vm_compute. repeat split; lia.
Qed.

(* queue non-empty with the mutex free: worker 0 busy, worker 1 not parked *)
Example C20_ex_tp_queued : exists s, Tp_proofs.R ex_tp s /\ Tp.owner s = None /\ Tp.queue s = [6] /\ Tp.held s = [5].
Proof.
  destruct (run Tp.st (Tp.step ex_tp) (Tp.init ex_tp) (firstn 20 ex_tp_trace)) as [s|] eqn:E; [|vm_compute in E; discriminate].
  exists s. split; [exists (firstn 20 ex_tp_trace); exact E|]. vm_compute in E. inversion E; subst. vm_compute. repeat split.
Qed.

(* overflow thread (variant reg = true): real event trace of the implementation with fixes/exec-tp-overflow-register.diff; thread 30
   is created by the third iwtp_schedule, runs task 1, unregisters itself and leaves before the shutdown *)
Definition ex_ovf : Tp.cfg := Tp.mkcfg 1 0 1 true true.
Definition ex_ovf_trace : list (tid * ev) :=
  [(0, ELock); (0, EUnlock); (0, ELock); (0, EUnlock); (0, ELock); (0, EWait 0);
   (10, ECall 0 0 false); (10, ELock); (10, EEnq 0); (10, ESignal 0 (Some 0)); (10, EUnlock); (10, ERet 0 true);
   (0, EWake 0); (0, EUnlock); (0, ELock); (0, EDeq 0); (0, EUnlock); (0, ERun 0);
   (10, ECall 0 1 false); (10, ELock); (10, EEnq 1); (10, ESignal 0 None); (10, EUnlock); (10, ERet 0 true);
   (10, ECall 0 2 false); (10, ELock); (10, EEnq 2); (10, ESpawn 30); (10, ESignal 0 None); (10, EUnlock); (10, ERet 0 true);
   (30, ELock); (30, EUnlock); (30, ELock); (30, EDeq 1); (30, EUnlock); (30, ERun 1); (30, EDone 1); (30, ELock); (30, EUnlock);
   (30, EExit);
   (20, ECall 3 0 true); (20, ELock); (20, EBcast 0); (20, EUnlock);
   (0, EDone 0); (0, ELock); (0, EUnlock); (0, ELock); (0, EDeq 2); (0, EUnlock); (0, ERun 2); (0, EDone 2); (0, ELock);
   (0, EUnlock); (0, EExit);
   (20, EJoin 0); (20, EFree)].

Example C20_ex_tp_overflow : exists s, Tp_proofs.R ex_ovf s /\ Tp.pc (Tp.th s 20) = Tp.QFreed /\ Tp.done s = [1; 0; 2] /\
  Tp.acc s = [0; 1; 2] /\ Tp.regs s = [0] /\ Tp.workers s = [0; 30] /\ Tp.pc (Tp.th s 30) = Tp.TDead /\ Tp.uaf s = false.
Proof.
  destruct (run Tp.st (Tp.step ex_ovf) (Tp.init ex_ovf) ex_ovf_trace) as [s|] eqn:E; [|vm_compute in E; discriminate].
  exists s. split; [exists ex_ovf_trace; exact E|]. vm_compute in E. inversion E; subst. vm_compute. repeat split.
Qed.
