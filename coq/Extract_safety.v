Require Import ZArith List. Require Extraction. Require Import ExtrOcamlBasic.
Require Import IW.Lib.CInt IW.SAFE.Buf IW.SAFE.Ptr IW.SAFE.Conv2 IW.SAFE.Unesc IW.SAFE.Num IW.SAFE.Xstr IW.SAFE.Re IW.SAFE.Txt IW.SAFE.Ini IW.SAFE.Str IW.SAFE.Strto IW.SAFE.Jsk IW.SAFE.Repl IW.Gen.Facts.
Extraction "m.ml" Z.add Z.mul Z.sub Z.div_eucl Z.compare Z.of_nat Z.to_nat Z.opp
  ptr_current ptr_observe hex2bin_current atoi2_current unesc2 num_current xcreate xcat xunshift xshift xpop xinsert xclone re_query re_query_prior re_size re_refused ini_query split uuid_valid csv_query iw_strtoll_current sde_query jparse jdoc_current replace_current fact_strto_clears_errno fact_json_rejects_rootless fact_replace_skips_empty_key
  fact_ptr_tilde_strict fact_hex2bin_checks_max fact_atoi2_inf_bounded fact_num_clears_errno fact_num_big_as_double.
