(* C15 - JSON Patch gives the RFC 6902 result and a failed patch changes nothing.  Statements only.
   Model: IW.JSON.Patch (the code with fixes/jpatch-*.diff and fixes/safety-patch-nofrom.diff applied);
   specification: IW.JSON.PatchSpec (rfc6902 over pure values; `strict` = the RFC, `lenient` = the library's reading). *)
Require Import ZArith List Bool.
Require Import IW.Lib.CInt IW.UT.Conv IW.JSON.Val IW.JSON.Patch IW.JSON.PatchSpec IW.JSON.Patch_proofs IW.Gen.Facts.
Require Import IW.JSON.Binn IW.JSON.Merge IW.JSON.WriteBack IW.JSON.WriteBack_proofs IW.JSON.PatchExt_proofs IW.JSON.PatchDecode_proofs
               IW.JSON.PatchId IW.JSON.PatchId_proofs IW.JSON.PatchIdTree_proofs IW.JSON.PatchIdPar_proofs.
Import ListNotations. Local Open Scope Z_scope.

(* trees built by jbn_from_json / _jbl_node_from_binn (`of_val`) satisfy "cached index = position, cached key length =
   length of the name" and denote the value they were built from *)
Theorem C15_klidx_inv_initial : forall v kl key, klidx_inv (of_val kl key v) /\ val (of_val kl key v) = v.
Proof. exact of_val_inv. Qed.
Print Assumptions C15_klidx_inv_initial.

(* Each single rfc6902 operation that the RFC applies to the document denoted by a tree satisfying klidx_inv succeeds,
   yields the RFC result, and re-establishes klidx_inv.
   The full statement (without `no_root_alias`) is false of the model and of the code - C15_patch_single_op_rfc_refuted:
   the library reads the pointer "/" (one empty segment) as the root.  (Until 22df63c it also ignored move / copy onto the
   root; now the value at `from` becomes the document: C15_root_move_copy, the old code: C15_root_move_copy_ignored_refuted.) *)
Theorem C15_patch_single_op_rfc_partial : forall fo t o d',
  rfc_kind (p_op o) -> klidx_inv t -> op_good o -> no_root_alias (sop_of o) ->
  rfc_op strict (f_eq fo) (doc_val t) (sop_of o) = Some d' ->
  fst (apply_op fo t o) = RcOk /\ doc_val (snd (apply_op fo t o)) = d' /\ klidx_inv (snd (apply_op fo t o)).
Proof. exact patch_single_op_rfc. Qed.
Print Assumptions C15_patch_single_op_rfc_partial.

Definition ex_fo : fops := {| f_add := Z.add; f_of_i := fun x => x; f_to_i := fun x => x; f_eq := Z.eqb; f_fits := fun _ => true |}.

Theorem C15_patch_single_op_rfc_refuted : exists fo t o d',
  rfc_kind (p_op o) /\ klidx_inv t /\ op_good o /\
  rfc_op strict (f_eq fo) (doc_val t) (sop_of o) = Some d' /\ doc_val (snd (apply_op fo t o)) <> d'.
Proof.
  exists ex_fo, (of_val 0 [] (JObj [])),
         {| p_op := OAdd; p_path := [[]]; p_from := None; p_val := Some (of_val 5 [118;97;108;117;101] (JI64 5)) |},
         (Some (JObj [([], JI64 5)])).
  split; [left; reflexivity|]. split; [apply of_val_inv1|]. split.
  - intros v H. injection H as <-. exact (of_val_good (JI64 5) 5 [118;97;108;117;101]).
  - split; [reflexivity | vm_compute; discriminate].
Qed.
Print Assumptions C15_patch_single_op_rfc_refuted.

(* Any sequence of operations (several operations on the same array included): by induction from the single step *)
Theorem C15_patch_program_rfc_partial : forall fo l t d',
  ops_ok l -> Forall no_root_alias (map sop_of l) -> klidx_inv t ->
  rfc_program strict (f_eq fo) (doc_val t) (map sop_of l) = Some d' ->
  fst (apply_ops fo t l) = RcOk /\ doc_val (snd (apply_ops fo t l)) = d' /\ klidx_inv (snd (apply_ops fo t l)).
Proof. exact patch_program_rfc. Qed.
Print Assumptions C15_patch_program_rfc_partial.

(* Against the library's own (lenient) reading of pointers the model is exact in both directions:
   success with that result and klidx_inv, or an error *)
Theorem C15_patch_single_op_lenient : forall fo t o, rfc_kind (p_op o) -> klidx_inv t -> op_good o ->
  match rfc_op lenient (f_eq fo) (doc_val t) (sop_of o) with
  | Some d' => fst (apply_op fo t o) = RcOk /\ doc_val (snd (apply_op fo t o)) = d' /\ klidx_inv (snd (apply_op fo t o))
  | None => fst (apply_op fo t o) <> RcOk /\ klidx_inv (snd (apply_op fo t o))
  end.
Proof. exact apply_op_lenient. Qed.
Print Assumptions C15_patch_single_op_lenient.

(* "cached index = position" (and cached key length = length of the name) holds after every rfc6902 program,
   successful or not.  (False of the unfixed code: [1,2,3,4] with remove /0 leaves the indices 1,2,3.) *)
Theorem C15_klidx_inv : forall fo l t, ops_ok l -> klidx_inv t -> klidx_inv (snd (apply_ops fo t l)).
Proof. exact klidx_inv_preserved. Qed.
Print Assumptions C15_klidx_inv.

Theorem C15_strict_implies_lenient : forall feq d o d', no_root_alias o ->
  rfc_op strict feq d o = Some d' -> rfc_op lenient feq d o = Some d'.
Proof. exact rfc_op_strict_lenient. Qed.
Print Assumptions C15_strict_implies_lenient.

(* an operation that fails (test mismatch, missing target, ...) makes the call report an error *)
Theorem C15_patch_program_error_reported : forall fo l t,
  ops_ok l -> klidx_inv t ->
  rfc_program lenient (f_eq fo) (doc_val t) (map sop_of l) = None -> fst (apply_ops fo t l) <> RcOk.
Proof. exact patch_program_error_reported. Qed.
Print Assumptions C15_patch_program_error_reported.

Theorem C15_missing_target_reported : forall fo t o,
  (p_op o = ORemove \/ p_op o = OReplace) -> is_root (p_path o) = false -> m_find t (p_path o) = None ->
  apply_op fo t o = (RcNotFound, t).
Proof. exact missing_target_reported. Qed.
Print Assumptions C15_missing_target_reported.

(* `test` is rfc6902 4.6 equality (objects as unordered member sets) *)
Theorem C15_test_is_rfc_equality : forall fo a, good a -> forall b, good b ->
  nodes_eq fo a b = jeq (f_eq fo) (val a) (val b).
Proof. exact nodes_eq_spec. Qed.
Print Assumptions C15_test_is_rfc_equality.

(* ... and that equality is the mathematical one, clause by clause: integers are equal iff they are the same integer (Z, no
   modulus - 2 and 8589934594 = 2 + 2*2^32 differ), strings iff they are the same bytes, arrays item by item, objects as sets
   of members; doubles through the comparison `feq` supplied for them *)
Theorem C15_rfc_equality_characterised : forall feq,
  (forall x b, jeq feq (JI64 x) b = true <-> b = JI64 x) /\
  (forall s b, jeq feq (JStr s) b = true <-> b = JStr s) /\
  (forall x b, jeq feq (JBool x) b = true <-> b = JBool x) /\
  (forall b, jeq feq JNull b = true <-> b = JNull) /\
  (forall x b, jeq feq (JF64 x) b = true <-> exists y, b = JF64 y /\ feq x y = true) /\
  (forall l b, jeq feq (JArr l) b = true <-> exists m, b = JArr m /\ Forall2 (fun x y => jeq feq x y = true) l m) /\
  (forall xs b, jeq feq (JObj xs) b = true <->
     exists ys, b = JObj ys /\ length xs = length ys /\
                Forall (fun m => exists y, lookup (fst m) ys = Some y /\ jeq feq (snd m) y = true) xs).
Proof.
  intro feq.
  split; [exact (jeq_int_iff feq)|]. split; [exact (jeq_str_iff feq)|]. split; [exact (jeq_bool_iff feq)|].
  split; [exact (jeq_null_iff feq)|]. split; [exact (jeq_f64_iff feq)|]. split; [exact (jeq_arr_iff feq) | exact (jeq_obj_iff feq)].
Qed.
Print Assumptions C15_rfc_equality_characterised.

(* A `test` operation succeeds iff the addressed value exists and is equal (in that sense) to the operand; otherwise the
   call fails with JBL_ERROR_PATCH_TEST_FAILED; in every case the tree is exactly the one passed in. *)
Theorem C15_test_succeeds_iff_equal : forall fo t o v,
  klidx_inv t -> n_ty t <> TNone -> p_op o = OTest -> p_val o = Some v -> good v ->
  snd (apply_op fo t o) = t /\
  (fst (apply_op fo t o) = RcOk <->
   exists x, (if is_root (p_path o) then Some (val t) else jget lenient (val t) (p_path o)) = Some x /\
             jeq (f_eq fo) x (val v) = true) /\
  (fst (apply_op fo t o) <> RcOk -> fst (apply_op fo t o) = RcTestFailed).
Proof. exact test_iff_equal. Qed.
Print Assumptions C15_test_succeeds_iff_equal.

(* the integer leaf on trees: two integer nodes compare equal iff they hold the same integer, for all of Z *)
Theorem C15_test_int_exact : forall fo kl k kl' k' x y,
  nodes_eq fo (of_val kl k (JI64 x)) (of_val kl' k' (JI64 y)) = true <-> x = y.
Proof. exact test_int_exact. Qed.
Print Assumptions C15_test_int_exact.

(* `copy`: the copied tree (jbn_clone in the model: structural recursion, any depth) denotes the value of its source and
   satisfies the invariant ... *)
Theorem C15_clone_is_value_copy : forall n, klidx_inv n ->
  klidx_inv (clone n) /\ val (clone n) = val n /\ n_ty (clone n) = n_ty n.
Proof. intros n H. destruct (clone_spec n H) as [A [B [C _]]]. auto. Qed.
Print Assumptions C15_clone_is_value_copy.

(* ... and after a `copy` that the RFC applies, reading `path` (rfc6901, strict) in the resulting document gives exactly the
   value that was at `from` before.  Hypothesis `last segment is not "-"`: the appended position has no pointer of its own.
   Not stated here: "the source is unchanged" in general (false when `path` is a prefix of `from` or shifts array items in
   front of it); the whole-document result, source included, is the RFC one by C15_patch_single_op_rfc_partial. *)
Theorem C15_copy_value_partial : forall fo t o f dv x d',
  klidx_inv t -> op_good o -> no_root_alias (sop_of o) -> p_op o = OCopy -> p_from o = Some f ->
  doc_val t = Some dv -> jget strict dv f = Some x ->
  rfc_op strict (f_eq fo) (doc_val t) (sop_of o) = Some d' ->
  s_is_dash (last (p_path o) []) = false ->
  fst (apply_op fo t o) = RcOk /\ klidx_inv (snd (apply_op fo t o)) /\
  exists v', doc_val (snd (apply_op fo t o)) = Some v' /\ jget strict v' (p_path o) = Some x.
Proof. exact copy_value. Qed.
Print Assumptions C15_copy_value_partial.

(* any error => the binary document is exactly the one passed in (for every conversion pair dec/enc) *)
Theorem C15_failed_patch_leaves_binary :
  forall (B : Type) (dec : B -> node) (enc : node -> option B) (empty : B) fo b l,
  fst (patch_binary B dec enc empty fo b l) <> RcOk -> snd (patch_binary B dec enc empty fo b l) = b.
Proof. exact failed_patch_leaves_binary. Qed.
Print Assumptions C15_failed_patch_leaves_binary.

(* and a successful jbl_patch holds the RFC result, for conversions that are inverse on values *)
Theorem C15_patch_binary_rfc_partial :
  forall (B : Type) (dec : B -> node) (enc : node -> option B) (empty : B) fo b raw ops d',
  (forall b0, klidx_inv (dec b0)) ->
  (forall n, klidx_inv n -> n_ty n <> TNone -> exists b', enc n = Some b' /\ val (dec b') = val n /\ n_ty (dec b') <> TNone) ->
  raw <> [] -> parse_ops raw = inr ops -> ops_ok ops -> Forall no_root_alias (map sop_of ops) ->
  rfc_program strict (f_eq fo) (doc_val (dec b)) (map sop_of ops) = Some d' ->
  fst (patch_binary B dec enc empty fo b raw) = RcOk /\
  match d' with
  | Some v => doc_val (dec (snd (patch_binary B dec enc empty fo b raw))) = Some v
  | None => snd (patch_binary B dec enc empty fo b raw) = empty
  end.
Proof. exact patch_binary_rfc. Qed.
Print Assumptions C15_patch_binary_rfc_partial.

(* ---- the hypotheses are satisfiable by non-trivial states *)
Definition ex_doc : node := of_val 0 [] (JArr [JI64 1; JI64 2; JI64 3; JI64 4]).
Definition ex_rm0 : pop := {| p_op := ORemove; p_path := [[48]]; p_from := None; p_val := None |}.
Definition ex_vnode (v : jval) : node := of_val 5 [118;97;108;117;101] v.

(* [1,2,3,4] with remove /0; remove /0 is [3,4] (the unfixed code gives [2,3,4], notes/jpatch.md) *)
Example C15_ex_program :
  ops_ok [ex_rm0; ex_rm0] /\ Forall no_root_alias (map sop_of [ex_rm0; ex_rm0]) /\ klidx_inv ex_doc /\
  rfc_program strict (f_eq ex_fo) (doc_val ex_doc) (map sop_of [ex_rm0; ex_rm0]) = Some (Some (JArr [JI64 3; JI64 4])) /\
  doc_val (snd (apply_ops ex_fo ex_doc [ex_rm0; ex_rm0])) = Some (JArr [JI64 3; JI64 4]).
Proof.
  split; [|split; [|split; [apply of_val_inv1 | split; reflexivity]]].
  - assert (A : rfc_kind (p_op ex_rm0) /\ op_good ex_rm0) by (split; [right; left; reflexivity | intros v H; discriminate]).
    constructor; [exact A | constructor; [exact A | constructor]].
  - assert (B : no_root_alias (sop_of ex_rm0)) by discriminate.
    constructor; [exact B | constructor; [exact B | constructor]].
Qed.

(* replace /1 (9); remove /2 on [1,2,3,4] is [1,9,4] *)
Example C15_ex_replace_remove :
  let ops := [{| p_op := OReplace; p_path := [[49]]; p_from := None; p_val := Some (ex_vnode (JI64 9)) |};
              {| p_op := ORemove; p_path := [[50]]; p_from := None; p_val := None |}] in
  ops_ok ops /\ rfc_program strict (f_eq ex_fo) (doc_val ex_doc) (map sop_of ops) = Some (Some (JArr [JI64 1; JI64 9; JI64 4])) /\
  apply_ops ex_fo ex_doc ops = (RcOk, snd (apply_ops ex_fo ex_doc ops)) /\
  doc_val (snd (apply_ops ex_fo ex_doc ops)) = Some (JArr [JI64 1; JI64 9; JI64 4]).
Proof.
  cbv zeta. split; [|split; [reflexivity | split; reflexivity]].
  constructor; [split; [right; right; left; reflexivity|] | constructor; [split; [right; left; reflexivity|] | constructor]].
  - intros v H. injection H as <-. exact (of_val_good (JI64 9) 5 [118;97;108;117;101]).
  - intros v H. discriminate.
Qed.

(* remove /zz on {"a":1}: missing target => JBL_ERROR_PATH_NOTFOUND, tree unchanged *)
Example C15_ex_missing_target :
  let t := of_val 0 [] (JObj [([97], JI64 1)]) in
  let o := {| p_op := ORemove; p_path := [[122;122]]; p_from := None; p_val := None |} in
  is_root (p_path o) = false /\ m_find t (p_path o) = None /\ apply_op ex_fo t o = (RcNotFound, t).
Proof. cbv zeta. repeat split; reflexivity. Qed.

(* failing test midway through a binary patch: the document is returned as it was *)
Example C15_ex_failed_binary :
  let raw := [{| r_op := ORemove; r_path := Some [47;48]; r_from := None; r_val := None |};
              {| r_op := OTest; r_path := Some [47;48]; r_from := None; r_val := Some (ex_vnode (JI64 7)) |}] in
  patch_binary node (fun b => b) (fun n => Some n) zero_node ex_fo ex_doc raw = (RcTestFailed, ex_doc).
Proof. reflexivity. Qed.

Example C15_ex_test_unordered :
  let a := of_val 0 [] (JObj [([97], JI64 1); ([98], JArr [JNull])]) in
  let b := of_val 0 [] (JObj [([98], JArr [JNull]); ([97], JI64 1)]) in
  good a /\ good b /\ nodes_eq ex_fo a b = true.
Proof. cbv zeta. split; [apply of_val_good | split; [apply of_val_good | reflexivity]]. Qed.

(* integers that differ by a multiple of 2^32, nested in the compared object: the test fails, the following `remove` is not
   applied, the binary document is returned as it was (seeded change round2/C15 made this call succeed) *)
Example C15_ex_test_2pow32 :
  let doc := of_val 0 [] (JObj [([105;100], JArr [JI64 0; JI64 (-4294967296)]); ([110], JI64 8589934594)]) in
  let t1 := {| r_op := OTest; r_path := Some [47;105;100]; r_from := None; r_val := Some (ex_vnode (JArr [JI64 0; JI64 0])) |} in
  let t2 := {| r_op := OTest; r_path := Some [47;110]; r_from := None; r_val := Some (ex_vnode (JI64 2)) |} in
  let rm := {| r_op := ORemove; r_path := Some [47;110]; r_from := None; r_val := None |} in
  klidx_inv doc /\ good (ex_vnode (JI64 2)) /\
  patch_binary node (fun b => b) (fun n => Some n) zero_node ex_fo doc [t1; rm] = (RcTestFailed, doc) /\
  patch_binary node (fun b => b) (fun n => Some n) zero_node ex_fo doc [t2; rm] = (RcTestFailed, doc) /\
  jeq Z.eqb (JI64 8589934594) (JI64 2) = false.
Proof. cbv zeta. split; [apply of_val_inv1 | split; [apply of_val_good | repeat split; reflexivity]]. Qed.

(* copy of {"a":{"b":{"c":1}},"d":2} (two levels close before "d"): /dst reads the source value, /src still does
   (seeded change round3/C15 gave dst = {"a":{"b":{"c":1},"d":2}}) *)
Example C15_ex_copy_deep :
  let sv := JObj [([97], JObj [([98], JObj [([99], JI64 1)])]); ([100], JI64 2)] in
  let t := of_val 0 [] (JObj [([115;114;99], sv)]) in
  let o := {| p_op := OCopy; p_path := [[100;115;116]]; p_from := Some [[115;114;99]]; p_val := None |} in
  klidx_inv t /\ op_good o /\ no_root_alias (sop_of o) /\ jget strict (val t) [[115;114;99]] = Some sv /\
  fst (apply_op ex_fo t o) = RcOk /\
  doc_val (snd (apply_op ex_fo t o)) = Some (JObj [([115;114;99], sv); ([100;115;116], sv)]).
Proof.
  cbv zeta. split; [apply of_val_inv1|]. split; [intros v H; discriminate|].
  split; [discriminate|]. repeat split; reflexivity.
Qed.

(* ================================================================== the write-back step of the binary-form API modes
   (added after seeded change round5/C15: _jbl_patch went on after a failed _jbl_from_node_impl and swapped a half-built value
   in).  C15_failed_patch_leaves_binary above holds for EVERY writer `enc`, also one that fails; what was missing is the writer
   itself: WriteBack.v models _jbl_from_node_impl with the member rule of the binn object (name <= JP_BINN_KEY_MAX bytes, no
   name equal to an earlier one up to ASCII letter case), jbl_patch_model = patch_binary with that writer. *)

(* SearchForKey refuses a name because of a stored one iff same length and same C string up to ASCII letter case *)
Theorem C15_binn_name_clash_is_case_fold : forall stored key,
  key_clash stored key = true <-> length stored = length key /\ map tolower (cstr stored) = map tolower (cstr key).
Proof. exact key_clash_spec. Qed.
Print Assumptions C15_binn_name_clash_is_case_fold.

(* the names an object of the binary form can hold: none too long, no two clashing *)
Theorem C15_representable_names : forall ks, keys_ok ks = true <->
  Forall (fun k => zlen k <= JP_BINN_KEY_MAX) ks /\ ForallOrdPairs (fun a b => key_clash a b = false) ks.
Proof. exact keys_ok_spec. Qed.
Print Assumptions C15_representable_names.

(* _jbl_from_node_impl stores exactly the value of the tree when the binary form can hold it, and fails otherwise *)
Theorem C15_writeback_stores_value_or_fails : forall n, good n ->
  wb_enc n = if representable (val n) then Some (val n) else None.
Proof. exact wb_enc_spec. Qed.
Print Assumptions C15_writeback_stores_value_or_fails.

Theorem C15_stored_document_reads_back : forall n b', good n -> wb_store n = Some b' ->
  val b' = val n /\ good b' /\ representable (val b') = true /\ wb_store b' = Some b'.
Proof. exact wb_store_reads_back. Qed.
Print Assumptions C15_stored_document_reads_back.

(* jbl_patch / jbl_patch_from_json, every operation applicable per RFC 6902: success with exactly the RFC document when the
   binary form can hold it; otherwise JBL_ERROR_CREATION and the document is the one passed in.  (This replaces the second
   hypothesis of C15_patch_binary_rfc_partial - "the writer never fails" - which the real writer does not satisfy.) *)
Theorem C15_patch_writeback_partial : forall fo b raw ops d',
  klidx_inv b -> raw <> [] -> parse_ops raw = inr ops -> ops_ok ops -> Forall no_root_alias (map sop_of ops) ->
  rfc_program strict (f_eq fo) (doc_val b) (map sop_of ops) = Some d' ->
  jbl_patch_model fo b raw =
  match d' with
  | None => (RcOk, zero_node)
  | Some v => if representable v then (RcOk, of_val 0 [] v) else (RcCreation, b)
  end.
Proof. exact patch_writeback. Qed.
Print Assumptions C15_patch_writeback_partial.

(* whatever fails - an operation or the write-back - the document is the one passed in: all programs, all documents *)
Theorem C15_patch_failure_unchanged : forall fo b raw,
  fst (jbl_patch_model fo b raw) <> RcOk -> snd (jbl_patch_model fo b raw) = b.
Proof. exact patch_failure_unchanged. Qed.
Print Assumptions C15_patch_failure_unchanged.

(* a successful call never leaves a document the binary form cannot hold *)
Theorem C15_patch_success_storable : forall fo b raw ops b',
  klidx_inv b -> wb_store b = Some b -> parse_ops raw = inr ops -> ops_ok ops ->
  jbl_patch_model fo b raw = (RcOk, b') -> b' = zero_node \/ wb_store b' = Some b'.
Proof. exact patch_success_storable. Qed.
Print Assumptions C15_patch_success_storable.

(* the name rule the model states is the one probed from the library on this run (tools/probes/probe_jpatch.c) *)
Example C15_ex_binn_rule_probed : JP_BINN_KEY_NOCASE = 1 /\ 0 < JP_BINN_KEY_MAX.
Proof. split; reflexivity. Qed.

Definition ex_wb_doc : node :=
  of_val 0 [] (JObj [([97], JI64 1); ([98], JObj [([120], JI64 1)]); ([99], JArr [JI64 1; JI64 2; JI64 3]); ([100], JStr [116;97;105;108])]).
(* {"a":1,"b":{"x":1},"c":[1,2,3],"d":"tail"} with add /b/X 2 (the seeder's first scenario): the tree API gives the RFC document,
   the binary form cannot hold it ("X" next to "x" in an object that is not the last member), JBL_ERROR_CREATION, document as
   before - and with add /b/y instead the call succeeds *)
Example C15_ex_writeback_twin :
  let add k := {| r_op := OAdd; r_path := Some [47;98;47;k]; r_from := None; r_val := Some (ex_vnode (JI64 2)) |} in
  let res k := JObj [([97], JI64 1); ([98], JObj [([120], JI64 1); ([k], JI64 2)]); ([99], JArr [JI64 1; JI64 2; JI64 3]);
                     ([100], JStr [116;97;105;108])] in
  klidx_inv ex_wb_doc /\ wb_store ex_wb_doc = Some ex_wb_doc /\
  doc_val (snd (patch_node ex_fo ex_wb_doc [add 88])) = Some (res 88) /\ representable (res 88) = false /\
  jbl_patch_model ex_fo ex_wb_doc [add 88] = (RcCreation, ex_wb_doc) /\
  representable (res 121) = true /\ jbl_patch_model ex_fo ex_wb_doc [add 121] = (RcOk, of_val 0 [] (res 121)).
Proof. cbv zeta. split; [apply of_val_inv1 | repeat split; vm_compute; reflexivity]. Qed.

(* earlier operations of the same patch succeed, the last one renames a member to a case-only twin ("KEY" next to "key"):
   nothing of the earlier operations stays; names of 255 bytes are stored, 256 bytes are not *)
Example C15_ex_writeback_after_ops :
  let doc := of_val 0 [] (JObj [([97;114;114], JArr [JI64 10; JI64 20; JI64 30; JI64 40]); ([107;101;121], JStr [118]); ([110], JI64 5)]) in
  let raw := [{| r_op := ORemove; r_path := Some [47;97;114;114;47;48]; r_from := None; r_val := None |};
              {| r_op := OAdd; r_path := Some [47;97;114;114;47;45]; r_from := None; r_val := Some (ex_vnode (JI64 50)) |};
              {| r_op := OMove; r_path := Some [47;75;69;89]; r_from := Some [47;110]; r_val := None |}] in
  fst (patch_node ex_fo doc raw) = RcOk /\ jbl_patch_model ex_fo doc raw = (RcCreation, doc) /\
  representable (JObj [(repeat 107 255%nat, JNull)]) = true /\ representable (JObj [(repeat 107 256%nat, JNull)]) = false /\
  representable (JArr [JObj [([110;97;109;101], JNull); ([120], JNull); ([78;97;109;69], JNull)]]) = false /\
  representable (JObj [([110;97;109;101], JNull); ([78;97;109;101;115], JNull); ([195;169], JNull); ([195;137], JNull)]) = true.
Proof. cbv zeta. repeat split; vm_compute; reflexivity. Qed.

(* ================================================================== deepening round: ALL operation kinds, ALL documents, ALL
   operation lists.  What made C15_patch_program_rfc_partial partial, named and removed or refuted:
     (1) `ops_ok` restricted the kinds to the six of rfc6902: the kinds are now unrestricted (C15_patch_any_program_exact states
         the outcome of every program of add/remove/replace/move/copy/test/increment/add_create/swap and of operation objects
         without "op"); for the RFC direction the restriction is not a hypothesis but a consequence (C15_patch_program_rfc);
     (2) only one direction ("the RFC applies it => the library gives that result"): the converse "otherwise an error" is FALSE
         (C15_rfc_error_otherwise_refuted: the library reads array indices with iwatoi, "-" as the last element, ...); what holds
         instead is exactness against lib_program in both directions;
     (3) pointers were taken as parsed: C15_patch_text_total starts from the pointer TEXT (_jbl_ptr_pool = rfc6901 except that a
         pointer ending in "/" is rejected; any unacceptable pointer => JBL_ERROR_JSON_POINTER with nothing applied);
     (4) `no_root_alias` stays as the one hypothesis of the RFC direction; it is necessary (C15_patch_single_op_rfc_refuted);
     (5) the tree after a failing call was not stated: C15_failed_op_leaves_tree (atomic kinds), C15_failed_program_is_prefix,
         C15_failed_move_loses_source_refuted (move and value-less replace are NOT atomic on the tree; the binary form is
         untouched by any failure: C15_patch_failure_unchanged). *)

Definition lib_program_of (fo : fops) := lib_program lenient (f_eq fo) (f_add fo) (f_of_i fo) (f_to_i fo) (f_fits fo).

(* one operation of ANY kind on ANY document: exact against the library's complete reading, invariant re-established *)
Theorem C15_patch_any_op_exact : forall fo t o, klidx_inv t -> op_good o ->
  match lib_op lenient (f_eq fo) (f_add fo) (f_of_i fo) (f_to_i fo) (f_fits fo) (doc_val t) (sop_of o) with
  | Some d' => fst (apply_op fo t o) = RcOk /\ doc_val (snd (apply_op fo t o)) = d' /\ klidx_inv (snd (apply_op fo t o))
  | None => fst (apply_op fo t o) <> RcOk /\ klidx_inv (snd (apply_op fo t o))
  end.
Proof. exact apply_op_lib. Qed.
Print Assumptions C15_patch_any_op_exact.

Theorem C15_patch_any_program_exact : forall fo l t, Forall op_good l -> klidx_inv t ->
  match lib_program_of fo (doc_val t) (map sop_of l) with
  | Some d' => fst (apply_ops fo t l) = RcOk /\ doc_val (snd (apply_ops fo t l)) = d' /\ klidx_inv (snd (apply_ops fo t l))
  | None => fst (apply_ops fo t l) <> RcOk /\ klidx_inv (snd (apply_ops fo t l))
  end.
Proof. exact apply_ops_lib. Qed.
Print Assumptions C15_patch_any_program_exact.

(* the RFC direction for every operation list: no restriction on the kinds (an RFC result exists only for rfc6902 kinds) *)
Theorem C15_patch_program_rfc : forall fo l t d',
  Forall op_good l -> Forall no_root_alias (map sop_of l) -> klidx_inv t ->
  rfc_program strict (f_eq fo) (doc_val t) (map sop_of l) = Some d' ->
  fst (apply_ops fo t l) = RcOk /\ doc_val (snd (apply_ops fo t l)) = d' /\ klidx_inv (snd (apply_ops fo t l)).
Proof. exact patch_program_rfc_all. Qed.
Print Assumptions C15_patch_program_rfc.

(* "... and an error otherwise": since eca2cba array indices are read as rfc6901 reads them, since 22df63c move / copy onto the root
   "" are the RFC's, and the library's reading differs from the RFC only for "/" as the root, for a move into one's own child and
   for the removed document moved / copied onto itself.  For every program of operations that stay clear of these (`rfc_shaped`):
   the RFC result when the RFC defines one, AN ERROR OTHERWISE - both directions against the RFC itself. *)
Theorem C15_rfc_error_otherwise : forall fo l t, ops_ok l -> Forall rfc_shaped (map sop_of l) -> klidx_inv t ->
  match rfc_program strict (f_eq fo) (doc_val t) (map sop_of l) with
  | Some d' => fst (apply_ops fo t l) = RcOk /\ doc_val (snd (apply_ops fo t l)) = d' /\ klidx_inv (snd (apply_ops fo t l))
  | None => fst (apply_ops fo t l) <> RcOk /\ klidx_inv (snd (apply_ops fo t l))
  end.
Proof. exact patch_program_rfc_exact. Qed.
Print Assumptions C15_rfc_error_otherwise.

(* [1,2,3,4] with remove "/01", remove "/-", replace "/1x": no rfc6901 index / no such element - JBL_ERROR_PATH_NOTFOUND, tree as it was *)
Example C15_ex_rfc_error_otherwise :
  let op k seg v := {| p_op := k; p_path := [seg]; p_from := None; p_val := v |} in
  klidx_inv ex_doc /\
  (forall k seg v, In (k, seg, v) [(ORemove, [48; 49], None); (ORemove, [45], None); (OReplace, [49; 120], Some (of_val 5 [118;97;108;117;101] (JI64 9)));
                                   (OTest, [43; 49], Some (of_val 5 [118;97;108;117;101] (JI64 2)))] ->
     rfc_shaped (sop_of (op k seg v)) /\ rfc_op strict Z.eqb (doc_val ex_doc) (sop_of (op k seg v)) = None /\
     fst (apply_op ex_fo ex_doc (op k seg v)) <> RcOk /\ snd (apply_op ex_fo ex_doc (op k seg v)) = ex_doc).
Proof.
  cbv zeta. split; [apply of_val_inv1|]. intros k seg v I. cbn [In] in I.
  repeat (destruct I as [I|I]; [inversion I; subst; split; [split; [discriminate | split; [intros E; discriminate | intros [E|E]; discriminate]]|];
                                split; [reflexivity|]; split; [discriminate | reflexivity]|]).
  contradiction.
Qed.

(* without `rfc_shaped` it stays false for "/" read as the root: {"a":1} with remove "/" - rfc6902: there is no member named "",
   an error; the library removes the document and answers 0 (kept as its reading of pointers, notes/jpatch.md).  Move / copy onto
   the root "", the witness until 22df63c, are the RFC's now: C15_root_move_copy. *)
Theorem C15_rfc_error_otherwise_refuted : exists fo t o,
  rfc_kind (p_op o) /\ klidx_inv t /\ op_good o /\
  rfc_op strict (f_eq fo) (doc_val t) (sop_of o) = None /\ fst (apply_op fo t o) = RcOk.
Proof.
  exists ex_fo, (of_val 0 [] (JObj [([97], JI64 1)])), {| p_op := ORemove; p_path := [[]]; p_from := None; p_val := None |}.
  split; [right; left; reflexivity|]. split; [apply of_val_inv1|]. split; [intros v H; discriminate|].
  split; reflexivity.
Qed.
Print Assumptions C15_rfc_error_otherwise_refuted.

(* move / copy onto the root "" (22df63c): the value at `from` becomes the document, as rfc6902 4.4 / 4.5 with 4.1 ("the specified
   value becomes the entire content of the target document") say; a missing `from` location is JBL_ERROR_PATH_NOTFOUND and the
   tree is untouched.  For every document and every `from`. *)
Theorem C15_root_move_copy : forall fo t o f, klidx_inv t -> (p_op o = OMove \/ p_op o = OCopy) -> p_path o = [] -> p_from o = Some f ->
  n_ty t <> TNone ->
  match jget strict (val t) f with
  | Some x => fst (apply_op fo t o) = RcOk /\ doc_val (snd (apply_op fo t o)) = Some x /\ klidx_inv (snd (apply_op fo t o))
  | None => fst (apply_op fo t o) <> RcOk /\ snd (apply_op fo t o) = t
  end.
Proof. exact root_move_copy. Qed.
Print Assumptions C15_root_move_copy.

(* the code before 22df63c (apply_op_v true) answered 0 and left the document as it was: {"a":{"b":1}} with copy /a -> "" stayed
   {"a":{"b":1}} (rfc6902: {"b":1}), and copy from the missing /zz onto the root answered 0 as well *)
Theorem C15_root_move_copy_ignored_refuted :
  let t := of_val 0 [] (JObj [([97], JObj [([98], JI64 1)])]) in
  let o := {| p_op := OCopy; p_path := []; p_from := Some [[97]]; p_val := None |} in
  let o2 := {| p_op := OMove; p_path := []; p_from := Some [[122; 122]]; p_val := None |} in
  klidx_inv t /\ rfc_op strict Z.eqb (doc_val t) (sop_of o) = Some (Some (JObj [([98], JI64 1)])) /\
  apply_op_v true ex_fo t o = (RcOk, t) /\
  fst (apply_op ex_fo t o) = RcOk /\ doc_val (snd (apply_op ex_fo t o)) = Some (JObj [([98], JI64 1)]) /\
  rfc_op strict Z.eqb (doc_val t) (sop_of o2) = None /\ apply_op_v true ex_fo t o2 = (RcOk, t) /\ apply_op ex_fo t o2 = (RcNotFound, t).
Proof. cbv zeta. split; [apply of_val_inv1|]. repeat split; reflexivity. Qed.
Print Assumptions C15_root_move_copy_ignored_refuted.

(* the invariant holds after every program of any operations, successful or not *)
Theorem C15_klidx_inv_all_ops : forall fo l t, Forall op_good l -> klidx_inv t -> klidx_inv (snd (apply_ops fo t l)).
Proof. exact klidx_inv_all_ops. Qed.
Print Assumptions C15_klidx_inv_all_ops.

(* pointers as text: _jbl_ptr_pool accepts exactly the rfc6901 pointers that do not end in "/" (more than one character),
   reads them as rfc6901 does, and answers JBL_ERROR_JSON_POINTER otherwise *)
Theorem C15_pointer_text_is_rfc6901 : forall s,
  ptr_parse s = match lib_ptr s with Some l => PtrOk l | None => PtrErr end /\
  (forall l, lib_ptr s = Some l -> rfc6901 s = Some l).
Proof. intro s. split; [apply ptr_parse_spec | apply lib_ptr_rfc6901]. Qed.
Print Assumptions C15_pointer_text_is_rfc6901.

Theorem C15_pointer_trailing_slash_refuted : exists s l, rfc6901 s = Some l /\ ptr_parse s = PtrErr.
Proof. exists [47; 97; 47], [[97]; []]. split; reflexivity. Qed.
Print Assumptions C15_pointer_trailing_slash_refuted.

(* jbn_patch on pointer text, every document, every operation list: all pointers are parsed before anything is applied *)
Theorem C15_patch_text_total : forall fo t raw, klidx_inv t -> Forall raw_good raw ->
  match lib_parse raw with
  | None => patch_node fo t raw = (RcPtr, t)
  | Some sops =>
    match lib_program_of fo (doc_val t) sops with
    | Some d' => fst (patch_node fo t raw) = RcOk /\ doc_val (snd (patch_node fo t raw)) = d' /\ klidx_inv (snd (patch_node fo t raw))
    | None => fst (patch_node fo t raw) <> RcOk /\ klidx_inv (snd (patch_node fo t raw))
    end
  end.
Proof. exact patch_node_total. Qed.
Print Assumptions C15_patch_text_total.

(* the tree after a failing operation: unchanged for add, remove, copy, test, increment, add_create, swap and op-less objects *)
Theorem C15_failed_op_leaves_tree : forall fo t o, klidx_inv t -> op_good o -> atomic_kind (p_op o) ->
  fst (apply_op fo t o) <> RcOk -> snd (apply_op fo t o) = t.
Proof. exact op_failure_atomic. Qed.
Print Assumptions C15_failed_op_leaves_tree.

(* ... but NOT for move (the source is unlinked before the target's parent is looked up) and for replace without a value (the
   target is unlinked before the value is asked for): {"a":1} with move /a -> /x/y reports JBL_ERROR_PATCH_TARGET_INVALID and
   leaves {} (replayed on the library: rc=tinvalid doc={}); {"a":1,"b":2} with a value-less replace /a leaves {"b":2} *)
Theorem C15_failed_move_loses_source_refuted : exists fo t o1 o2,
  klidx_inv t /\ op_good o1 /\ op_good o2 /\ p_op o1 = OMove /\ p_op o2 = OReplace /\
  fst (apply_op fo t o1) = RcTargetInvalid /\ doc_val (snd (apply_op fo t o1)) = Some (JObj [([98], JI64 2)]) /\
  fst (apply_op fo t o2) = RcNoValue /\ doc_val (snd (apply_op fo t o2)) = Some (JObj [([98], JI64 2)]) /\
  doc_val t = Some (JObj [([97], JI64 1); ([98], JI64 2)]).
Proof.
  exists ex_fo, (of_val 0 [] (JObj [([97], JI64 1); ([98], JI64 2)])),
         {| p_op := OMove; p_path := [[120]; [121]]; p_from := Some [[97]]; p_val := None |},
         {| p_op := OReplace; p_path := [[97]]; p_from := None; p_val := None |}.
  split; [apply of_val_inv1|]. split; [intros v H; discriminate|]. split; [intros v H; discriminate|].
  repeat split; reflexivity.
Qed.
Print Assumptions C15_failed_move_loses_source_refuted.

(* a failing program: the operations before the failing one are applied (tree API), then the failing operation's own outcome *)
Theorem C15_failed_program_is_prefix : forall fo l t, fst (apply_ops fo t l) <> RcOk ->
  exists l1 o l2 t1, l = l1 ++ o :: l2 /\ apply_ops fo t l1 = (RcOk, t1) /\ apply_op fo t1 o = apply_ops fo t l /\
                     fst (apply_op fo t1 o) <> RcOk.
Proof. exact failed_program_prefix. Qed.
Print Assumptions C15_failed_program_is_prefix.

(* ================================================================== the patch decoder (_jbl_create_patch: jbn_patch_auto,
   jbl_patch_from_json), for EVERY patch document the parsers can build.  The decoded operation is a function of the members
   alone: a field without a member is 0 / NULL, whatever memory the array was carved from (the memset of _jbl_create_patch). *)
(* the decoder of the library as it is (63ac2d6): for EVERY patch document - an element that is no object makes the document
   JBL_ERROR_PATCH_INVALID before anything is decoded; otherwise the exact rfc6902 reading: "op", "path", "from", "value" by their
   full names, every other member ignored (rfc6902 4), operation names exact (plus the three extension names) *)
Theorem C15_decoder_exact : forall p,
  create_patch p = if forallb (fun n => ty_eqb (n_ty n) TObj) (n_ch p) then decode_ops_exact (n_ch p) else inl RcPatchInvalid.
Proof. exact create_patch_exact. Qed.
Print Assumptions C15_decoder_exact.

Definition ex_patch_doc (v : jval) : node := of_val 0 [] v.
Definition str (s : list Z) := JStr s.
(* [{"op":"move","from":"/a","path":"/b","note":1}] is canonical and decodes to move /a -> /b; the unknown member is ignored *)
Example C15_ex_decoder_canonical :
  let p := ex_patch_doc (JArr [JObj [(lit_op, str [109;111;118;101]); (lit_from, str [47;97]); (lit_path, str [47;98]);
                                     ([110;111;116;101], JI64 1)]]) in
  klidx_inv p /\ Forall (fun n => n_ty n = TObj /\ Forall canon_member (n_ch n)) (n_ch p) /\
  create_patch p = inr [{| r_op := OMove; r_path := Some [47;98]; r_from := Some [47;97]; r_val := None |}] /\
  create_patch_prefix p = create_patch p.
Proof.
  cbv zeta. split; [apply of_val_inv1|]. split; [|split; reflexivity].
  constructor; [|constructor]. split; [reflexivity|].
  repeat (constructor; [split; [reflexivity | split; [reflexivity | intros T B; vm_compute in T, B; first [discriminate | reflexivity]]]|]). constructor.
Qed.

(* "accepts exactly the rfc6902 operation objects (plus the extensions)" was FALSE of the decoder before 63ac2d6
   (create_patch_prefix: strncmp over the length of the member's name / of the value, so every prefix matched):
   {"o":"re","p":"/a"} was decoded as remove /a (rfc6902: no "op" member, no "path" member);
   {"op":"add","path":"/a","value":1,"p":"/b"}: the member "p" (rfc6902 4: MUST be ignored) replaced the path: add /b.
   The decoder the library has now reads both as rfc6902 does.  Still accepted (by both, recorded in notes/jpatch.md as outside the
   statement): {"path":"/a","value":1} without "op", operation code 0, applied like add. *)
Theorem C15_decoder_accepts_more_refuted :
  let p1 := ex_patch_doc (JArr [JObj [([111], str [114;101]); ([112], str [47;97])]]) in
  let p2 := ex_patch_doc (JArr [JObj [(lit_path, str [47;97]); (lit_value, JI64 1)]]) in
  let p3 := ex_patch_doc (JArr [JObj [(lit_op, str [97;100;100]); (lit_path, str [47;97]); (lit_value, JI64 1); ([112], str [47;98])]]) in
  klidx_inv p1 /\ klidx_inv p2 /\ klidx_inv p3 /\
  create_patch_prefix p1 = inr [{| r_op := ORemove; r_path := Some [47;97]; r_from := None; r_val := None |}] /\
  decode_ops_exact (n_ch p1) = inr [empty_rawop] /\
  (exists v, create_patch_prefix p2 = inr [{| r_op := ONone; r_path := Some [47;97]; r_from := None; r_val := Some v |}]) /\
  (exists v, create_patch_prefix p3 = inr [{| r_op := OAdd; r_path := Some [47;98]; r_from := None; r_val := Some v |}] /\
             decode_ops_exact (n_ch p3) = inr [{| r_op := OAdd; r_path := Some [47;97]; r_from := None; r_val := Some v |}] /\
             create_patch p3 = decode_ops_exact (n_ch p3)) /\
  create_patch p1 = inr [empty_rawop].
Proof.
  cbv zeta. split; [apply of_val_inv1|]. split; [apply of_val_inv1|]. split; [apply of_val_inv1|].
  split; [reflexivity|]. split; [reflexivity|]. split; [eexists; reflexivity|]. split; [|reflexivity].
  eexists. split; [reflexivity | split; reflexivity].
Qed.
Print Assumptions C15_decoder_accepts_more_refuted.

(* ================================================================== the documented extensions *)
(* "Value increment" (iwjson.h), integers, ALL of them (since 9a2bde2): when a + b is an int64 the call succeeds and the pointer then
   reads exactly a + b; otherwise JBL_ERROR_PATCH_INVALID_VALUE and the tree is untouched.  (Doubles - and double operands that cannot
   be cast to int64: refused - are covered by C15_patch_any_op_exact / lib_op: ext_increment.) *)
Theorem C15_increment_int_exact : forall fo t o v a b,
  klidx_inv t -> p_op o = OIncrement -> is_root (p_path o) = false -> p_val o = Some v -> good v -> val v = JI64 b ->
  jget lenient (val t) (p_path o) = Some (JI64 a) ->
  (i64_fits (a + b) = true ->
     fst (apply_op fo t o) = RcOk /\ klidx_inv (snd (apply_op fo t o)) /\
     jget lenient (val (snd (apply_op fo t o))) (p_path o) = Some (JI64 (a + b))) /\
  (i64_fits (a + b) = false -> fst (apply_op fo t o) <> RcOk /\ snd (apply_op fo t o) = t).
Proof. exact increment_int_exact. Qed.
Print Assumptions C15_increment_int_exact.

(* {"arr":[5,6]} with increment /arr/1 by 2 is {"arr":[5,8]} *)
Example C15_ex_increment_array :
  let t := of_val 0 [] (JObj [([97;114;114], JArr [JI64 5; JI64 6])]) in
  let o := {| p_op := OIncrement; p_path := [[97;114;114]; [49]]; p_from := None; p_val := Some (ex_vnode (JI64 2)) |} in
  klidx_inv t /\ good (ex_vnode (JI64 2)) /\ jget lenient (val t) (p_path o) = Some (JI64 6) /\
  doc_val (snd (apply_op ex_fo t o)) = Some (JObj [([97;114;114], JArr [JI64 5; JI64 8])]).
Proof. cbv zeta. split; [apply of_val_inv1 | split; [apply of_val_good | split; reflexivity]]. Qed.

(* {"n":9223372036854775807} with increment /n by 1: refused, document as it was; the code before 9a2bde2 (increment_v true:
   `target->vi64 += value->vi64`, a signed overflow in C, UBSan aborted) answered 0 with INT64_MIN *)
Theorem C15_increment_wraps_refuted :
  (let t := of_val 0 [] (JObj [([110], JI64 9223372036854775807)]) in
   let o := {| p_op := OIncrement; p_path := [[110]]; p_from := None; p_val := Some (ex_vnode (JI64 1)) |} in
   apply_op ex_fo t o = (RcInvalidValue, t)) /\
  increment_v true ex_fo (Node 0 [] TI64 9223372036854775807 [] []) (Node 0 [] TI64 1 [] []) =
    (RcOk, Node 0 [] TI64 (- 9223372036854775808) [] []).
Proof. split; reflexivity. Qed.
Print Assumptions C15_increment_wraps_refuted.

(* "Swap values of two nodes" when one location contains the other: no exchange exists.  Since da6f72b the library refuses it
   (JBL_ERROR_PATCH_INVALID, the tree untouched) - for every document and every such pair of pointers: *)
Theorem C15_swap_nested_refused : forall fo t o f, p_op o = OSwap -> p_from o = Some f -> f <> [] -> is_root (p_path o) = false ->
  seg_nested f (p_path o) = true -> apply_op fo t o = (RcPatchInvalid, t).
Proof. exact swap_nested_refused. Qed.
Print Assumptions C15_swap_nested_refused.

(* the code before da6f72b (apply_op_v true) answered 0 and the OUTER location took the inner value, the rest of the outer value
   was gone: {"a":{"b":{"x":1},"k":2}} with swap /a <-> /a/b was {"a":{"x":1}} (replayed on the library at 0c2e1d6; the node
   holding the old outer value - it listed itself among its children - was unreachable). *)
Theorem C15_swap_nested_refuted : exists fo t o f,
  klidx_inv t /\ p_op o = OSwap /\ p_from o = Some f /\
  jget strict (val t) f <> None /\ jget strict (val t) (p_path o) <> None /\ seg_prefix f (p_path o) = true /\
  fst (apply_op_v true fo t o) = RcOk /\
  doc_val t = Some (JObj [([97], JObj [([98], JObj [([120], JI64 1)]); ([107], JI64 2)])]) /\
  doc_val (snd (apply_op_v true fo t o)) = Some (JObj [([97], JObj [([120], JI64 1)])]) /\
  apply_op fo t o = (RcPatchInvalid, t).
Proof.
  exists ex_fo, (of_val 0 [] (JObj [([97], JObj [([98], JObj [([120], JI64 1)]); ([107], JI64 2)])])),
         {| p_op := OSwap; p_path := [[97]; [98]]; p_from := Some [[97]]; p_val := None |}, [[97]].
  split; [apply of_val_inv1|]. split; [reflexivity|]. split; [reflexivity|].
  split; [discriminate|]. split; [discriminate|]. repeat split; reflexivity.
Qed.
Print Assumptions C15_swap_nested_refuted.

(* The index reader before eca2cba (arr_index_v true: iwatoi on any text, cast to int) accepted reference tokens that are no rfc6901
   array index - "foo" as 0, "01" / "1x" / "+1" as 1, "4294967296" as 0 - so add /arr/foo, replace /arr/1x, test /arr/+1 ...
   succeeded; the reader the library has now (arr_index = arr_index_v false = rfc6901: C15_rfc_error_otherwise) refuses them all. *)
Theorem C15_array_index_leniency_refuted :
  forall s, In s [[102;111;111]; [48;49]; [49;120]; [43;49]; [52;50;57;52;57;54;55;50;57;54]; [45]] ->
  strict_idx s = None /\ arr_index s = None /\ exists i, arr_index_v true s = Some i.
Proof.
  intros s I. cbn [In] in I.
  repeat (destruct I as [I|I]; [subst s; split; [reflexivity|]; split; [reflexivity|]; eexists; vm_compute; reflexivity|]). contradiction.
Qed.
Print Assumptions C15_array_index_leniency_refuted.

(* ================================================================== node identity (IW.JSON.PatchId): which node is linked where.
   Every node carries an id (its address) and the id its `parent` field holds.  `add` links the operand node OF THE PATCH DOCUMENT
   itself (so the result shares nodes with the patch document - that is how the library works, nothing is freed in pool mode),
   `copy` links fresh nodes, `move` re-links the detached node, _jbl_copy_node_data makes a node take over another node's children.
   Tied to the library on every run by the `idpatch` queries (own= / dup= / par= of harness and extracted model agree). *)
Theorem C15_identity_model_refines : forall rp fo l next t,
  (fst (snd (i_apply_ops rp fo next t l)), iforget (snd (snd (i_apply_ops rp fo next t l)))) =
  apply_ops fo (iforget t) (map pop_of l).
Proof. exact i_apply_ops_refines. Qed.
Print Assumptions C15_identity_model_refines.

(* `parent` pointers: with the _jbl_copy_node_data of before 61c2a75 (reparent = false) "every child's parent is the
   node that lists it" is FALSE after an `add` over an existing member holding a container - the children point at the operand node
   of the patch document (replayed: idpatch ... par=bad; with iwjsreg_merge + iwjsreg_replace: heap-use-after-free);
   with the repaired copy (reparent = true, fixes/jpatch-parent-pointers.diff) the same patch leaves them consistent. *)
Theorem C15_parent_pointers_refuted : exists fo t o next,
  i_parents_ok t = true /\ (forall v, ip_val o = Some v -> i_parents_ok v = true) /\
  fst (snd (i_apply_op false fo next t o)) = RcOk /\ i_parents_ok (snd (snd (i_apply_op false fo next t o))) = false /\
  i_parents_ok (snd (snd (i_apply_op true fo next t o))) = true.
Proof.
  exists ex_fo, (snd (i_of_node 0 0 (of_val 0 [] (JObj [([97], JObj [([120], JI64 1)])])))),
         {| ip_op := OAdd; ip_path := [[97]]; ip_from := None;
            ip_val := Some (snd (i_of_node 1000 0 (of_val 5 [118;97;108;117;101] (JObj [([107], JArr [JI64 7])])))) |}, 2000.
  split; [reflexivity|]. split; [intros v H; inversion H; reflexivity|]. repeat split; reflexivity.
Qed.
Print Assumptions C15_parent_pointers_refuted.

(* "the tree is a tree": for every document whose nodes are distinct and every list of operations OF ANY KIND whose operand values
   are distinct nodes (distinct from one another and from the document's: every parsed patch document), after the call -
   successful or not - no node is listed twice, and every node of the result is a node of the document, a node of an operand
   value, or a node allocated by the call (jbn_clone for copy, created parents for add_create). *)
Theorem C15_tree_is_a_tree : forall rp fo l next t,
  NoDup (i_ids t ++ flat_map vids l) -> (forall x, In x (i_ids t ++ flat_map vids l) -> x < next) ->
  NoDup (i_ids (snd (snd (i_apply_ops rp fo next t l)))) /\
  (forall x, In x (i_ids (snd (snd (i_apply_ops rp fo next t l)))) ->
             In x (i_ids t) \/ In x (flat_map vids l) \/ next <= x < fst (i_apply_ops rp fo next t l)).
Proof. exact tree_is_a_tree. Qed.
Print Assumptions C15_tree_is_a_tree.

(* {"a":{"x":[1,2]},"b":{"y":{"z":1}}} with copy /a -> /c, move /b/y -> /a/x/0, add_create /q/r/s [1], swap /c <-> /a/x:
   the hypotheses hold for the numbered document and operand, the result lists 16 distinct nodes *)
Example C15_ex_tree_is_a_tree :
  let t := snd (i_of_node 0 0 (of_val 0 [] (JObj [([97], JObj [([120], JArr [JI64 1; JI64 2])]); ([98], JObj [([121], JObj [([122], JI64 1)])])]))) in
  let v := snd (i_of_node 1000 0 (ex_vnode (JArr [JI64 1]))) in
  let l := [{| ip_op := OCopy; ip_path := [[99]]; ip_from := Some [[97]]; ip_val := None |};
            {| ip_op := OMove; ip_path := [[97]; [120]; [48]]; ip_from := Some [[98]; [121]]; ip_val := None |};
            {| ip_op := OAddCreate; ip_path := [[113]; [114]; [115]]; ip_from := None; ip_val := Some v |};
            {| ip_op := OSwap; ip_path := [[97]; [120]]; ip_from := Some [[99]]; ip_val := None |}] in
  NoDup (i_ids t ++ flat_map vids l) /\ (forall x, In x (i_ids t ++ flat_map vids l) -> x < 2000) /\
  fst (snd (i_apply_ops false ex_fo 2000 t l)) = RcOk /\ length (i_ids (snd (snd (i_apply_ops false ex_fo 2000 t l)))) = 16%nat.
Proof.
  cbv zeta. split; [|split; [|split; vm_compute; reflexivity]].
  - vm_compute. repeat (constructor; [cbn [In]; intuition discriminate|]). constructor.
  - vm_compute. intros x H. repeat (destruct H as [H|H]; [subst x; reflexivity|]). contradiction.
Qed.

(* `parent` pointers of the library as it is (61c2a75; the probed fact JP_REPARENT = 1): "every child's parent field is the node
   that lists it" after every program of operations of any kind on every document - unconditionally for consistent inputs *)
Theorem C15_parent_pointers : forall fo l next t, i_parents_ok t = true -> Forall val_pok l ->
  i_parents_ok (snd (snd (i_apply_ops lib_reparent fo next t l))) = true.
Proof. exact apply_ops_pok. Qed.
Print Assumptions C15_parent_pointers.

(* with the repaired copy (reparent = true) "every child's parent field is the node that lists it" is an invariant: every document,
   every list of operations of any kind whose operand values are consistent trees (parsed patch documents are), after the call -
   successful or not *)
Theorem C15_parent_pointers_with_fix : forall fo l next t, i_parents_ok t = true -> Forall val_pok l ->
  i_parents_ok (snd (snd (i_apply_ops true fo next t l))) = true.
Proof. exact apply_ops_pok. Qed.
Print Assumptions C15_parent_pointers_with_fix.

(* numbered trees (what the parsers build) are consistent *)
Example C15_ex_numbered_tree_consistent :
  let t := snd (i_of_node 0 0 (of_val 0 [] (JObj [([97], JObj [([120], JArr [JI64 1; JI64 2])])]))) in
  i_parents_ok t = true /\ val_pok {| ip_op := OAdd; ip_path := [[97]]; ip_from := None;
                                      ip_val := Some (snd (i_of_node 1000 0 (ex_vnode (JObj [([107], JArr [JI64 7])])))) |}.
Proof. cbv zeta. split; [reflexivity|]. intros v H. inversion H. reflexivity. Qed.

(* the documented meaning of swap and add_create, and that the library's complete reading (lib_op, to which the model is exact:
   C15_patch_any_op_exact) contains it:
   "Swap values of two nodes" - both locations exist (rfc6901 pointers) and neither contains the other: the library's result is the
   document in which the two values have changed places, and the two positions read each other's old value afterwards;
   "Create intermediate object nodes for missing path segments" - along object members: missing members become objects, then add *)
Theorem C15_swap_documented : forall dv f path r, ext_swap strict dv f path = Some r ->
  lib_swap lenient dv f path = Some r /\
  exists pf pc a b, jlocate strict dv f = Some pf /\ jlocate strict dv path = Some pc /\ jget_at dv pf = Some a /\ jget_at dv pc = Some b /\
                    jget_at r pf = Some b /\ jget_at r pc = Some a.
Proof. intros dv f path r H. split; [apply swap_documented; exact H | apply (swap_reads_back strict); exact H]. Qed.
Print Assumptions C15_swap_documented.

Theorem C15_add_create_documented : forall p v x r, ext_add_create lenient v p x = Some r -> lib_add_create lenient v p x = Some r.
Proof. exact add_create_documented. Qed.
Print Assumptions C15_add_create_documented.

(* {"a":{"x":1},"arr":[5,{"y":2}]}: swap /a/x <-> /arr/1/y exchanges 1 and 2; add_create /a/p/q/r [1] creates p and q *)
Example C15_ex_extensions_documented :
  let dv := JObj [([97], JObj [([120], JI64 1)]); ([97;114;114], JArr [JI64 5; JObj [([121], JI64 2)]])] in
  ext_swap strict dv [[97]; [120]] [[97;114;114]; [49]; [121]] =
    Some (JObj [([97], JObj [([120], JI64 2)]); ([97;114;114], JArr [JI64 5; JObj [([121], JI64 1)]])]) /\
  ext_add_create lenient dv [[97]; [112]; [113]; [114]] (JArr [JI64 1]) =
    Some (JObj [([97], JObj [([120], JI64 1); ([112], JObj [([113], JObj [([114], JArr [JI64 1])])])]);
                ([97;114;114], JArr [JI64 5; JObj [([121], JI64 2)]])]).
Proof. cbv zeta. split; reflexivity. Qed.
