(* C05 - a damaged or cut-off log tail never yields a state that is not a synced prefix.  Statements only.
   Model: WAL/Rec.v (record codecs, iwu_crc32), WAL/Scan.v (_last_fix_and_reset_points), WAL/Replay.v
   (_rollforward_exl / _recover_wl).  `scan`, `recover` are the model of the CURRENT tree: whether the scanner
   tests `avail < sizeof(WBSAVEPOINT)` is the regenerated fact Scan.sp_checks. *)
Require Import ZArith List Bool. Require Import IW.Lib.CInt IW.Gen.Facts.
Require Import IW.WAL.Rec IW.WAL.Rec_proofs IW.WAL.Scan IW.WAL.Scan_proofs IW.WAL.Replay IW.WAL.Replay_proofs.
Require Import IW.WAL.Proto IW.WAL.Proto_proofs IW.WAL.Segs_proofs IW.WAL.Flip_proofs IW.WAL.Crc_proofs.
Import ListNotations. Local Open Scope Z_scope.

(* a log with three segments, two savepoints and an unfinished tail; an 8-byte main file *)
Definition ex_log : list rec :=
  [RSep 0 36; RSet 65 0 4; RSavepoint 1000; RSep 0 35; RWrite 0 2 [1;2;3]; RSavepoint 2000; RSep 0 24; RSet 66 1 2].
Definition ex_main : bytes := [0;0;0;0;0;0;0;0].

(* the record layouts the model assumes are the compiled ones; the CRC table is the polynomial's *)
Theorem C05_layout : layout_ok = true /\ iwu_crc32_table = crc_poly_table.
Proof. exact (conj layout_facts crc_table_is_poly). Qed.
Print Assumptions C05_layout.

(* scan_cut: for every well-formed log and every cut, the scanner's recovery point is the last savepoint
   record that is visible in the surviving bytes (all preceding records then survive intact, see
   C05_no_half_write / C05_recovery_point) *)
Theorem C05_scan_cut : forall rs (n : nat), wf_log rs = true -> (n <= length (encode rs))%nat ->
  fst (scan (firstn n (encode rs))) = last_sp sp_checks rs (Z.of_nat n).
Proof. exact (scan_cut sp_checks). Qed.
Print Assumptions C05_scan_cut.
Example C05_scan_cut_ex : wf_log ex_log = true /\ fst (scan (firstn 90 (encode ex_log))) = 36 /\
  fst (scan (firstn 95 (encode ex_log))) = 83 /\ fst (scan (firstn 40 (encode ex_log))) = (if sp_checks then 0 else 36).
Proof. vm_compute. repeat split; reflexivity. Qed.

Theorem C05_recovery_point : forall rs n,
  last_sp sp_checks rs n = 0 \/
  (In (last_sp sp_checks rs n) (sp_offsets rs 0) /\ sp_visible sp_checks (last_sp sp_checks rs n) n = true /\
   last_sp sp_checks rs n < n).
Proof. exact (recovery_point_is_savepoint sp_checks). Qed.
Print Assumptions C05_recovery_point.
Example C05_recovery_point_ex : sp_offsets ex_log 0 = [36; 83] /\ last_sp sp_checks ex_log 100 = 83.
Proof. vm_compute. split; reflexivity. Qed.

(* cut_monotone: a longer surviving prefix never recovers to an earlier savepoint, and a savepoint that
   survived intact is never passed over *)
Theorem C05_cut_monotone : forall rs n1 n2, n1 <= n2 -> last_sp sp_checks rs n1 <= last_sp sp_checks rs n2.
Proof. exact (cut_monotone sp_checks). Qed.
Print Assumptions C05_cut_monotone.
Example C05_cut_monotone_ex : map (fun n => last_sp sp_checks ex_log n) [0; 36; 48; 94; 95; 131] =
  [0; 0; 36; 36; 83; 83].
Proof. vm_compute. reflexivity. Qed.

Theorem C05_intact_savepoint_kept : forall rs n q,
  In q (sp_offsets rs 0) -> q + sizeof_WBSAVEPOINT <= n -> q <= last_sp sp_checks rs n.
Proof. exact (intact_savepoint_kept sp_checks). Qed.
Print Assumptions C05_intact_savepoint_kept.
Example C05_intact_savepoint_kept_ex : In 83 (sp_offsets ex_log 0) /\ 83 + sizeof_WBSAVEPOINT <= 95.
Proof. vm_compute. split; [right; left; reflexivity | discriminate]. Qed.

(* replay_cut_is_savepoint_state: recovery of the cut log succeeds and yields the main-file state at that
   savepoint, checksums on or off (current tree: sp_checks = true, i.e. with fixes/wal-cut-savepoint.diff) *)
Theorem C05_replay_cut_is_savepoint_state : forall ccrc rs (n : nat) main m,
  wf_log rs = true -> no_reset rs = true -> (ccrc = true -> crc_ok rs = true) ->
  (n <= length (encode rs))%nat ->
  state_at rs main (last_sp sp_checks rs (Z.of_nat n)) = Some m ->
  recover ccrc 1 0 (firstn n (encode rs)) main = (VOk, m, ops_before rs 0 (last_sp sp_checks rs (Z.of_nat n))).
Proof.
  intros ccrc rs n main m H1 H2 H3 H4 H5.
  exact (replay_cut_is_savepoint_state sp_checks ccrc rs n main m H1 H2 H3 (or_intror eq_refl) H4 H5).
Qed.
Print Assumptions C05_replay_cut_is_savepoint_state.
Example C05_replay_cut_is_savepoint_state_ex :
  no_reset ex_log = true /\ crc_ok ex_log = true /\
  state_at ex_log ex_main 83 = Some [65;65;1;2;3;0;0;0] /\
  recover true 1 0 (firstn 100 (encode ex_log)) ex_main = (VOk, [65;65;1;2;3;0;0;0], [ASet 65 0 4; AWrite 2 [1;2;3]]).
Proof. vm_compute. repeat split; reflexivity. Qed.

(* the same for either version of the scanner; with the pinned scanner (no avail test) only without checksums *)
Theorem C05_replay_cut_is_savepoint_state_partial : forall spchk ccrc rs (n : nat) main m,
  wf_log rs = true -> no_reset rs = true -> (ccrc = true -> crc_ok rs = true) ->
  (ccrc = false \/ spchk = true) -> (n <= length (encode rs))%nat ->
  state_at rs main (last_sp spchk rs (Z.of_nat n)) = Some m ->
  recover_with spchk ccrc 1 0 (firstn n (encode rs)) main = (VOk, m, ops_before rs 0 (last_sp spchk rs (Z.of_nat n))).
Proof. exact replay_cut_is_savepoint_state. Qed.
Print Assumptions C05_replay_cut_is_savepoint_state_partial.
Example C05_replay_cut_is_savepoint_state_partial_ex :
  recover_with false false 1 0 (firstn 40 (encode ex_log)) ex_main = (VOk, [65;65;65;65;0;0;0;0], [ASet 65 0 4]).
Proof. vm_compute. reflexivity. Qed.

(* ... and false of the pinned scanner with checksums on (replayed on the real code by checks/C05.py; fixed
   in /repo by "fix: a savepoint record cut by the end of the log is not taken as a recovery point") *)
Theorem C05_cut_savepoint_crc_refuted :
  wf_log refute_log = true /\ crc_ok refute_log = true /\ no_reset refute_log = true /\
  fst (replay_ops_with false true 1 0 (firstn 17 (encode refute_log))) = VCorrupt.
Proof. exact cut_savepoint_crc_refuted. Qed.
Print Assumptions C05_cut_savepoint_crc_refuted.

(* no_half_write: every store the recovery performs comes from a record that lies wholly before the recovery
   point, hence wholly inside the surviving bytes: a WRITE whose payload (or header) is cut is never applied *)
Theorem C05_no_half_write : forall ccrc rs (n : nat) op,
  wf_log rs = true -> no_reset rs = true -> (ccrc = true -> crc_ok rs = true) ->
  (n <= length (encode rs))%nat ->
  In op (snd (replay_ops ccrc 1 0 (firstn n (encode rs)))) ->
  exists q r, In (q, r) (offsets rs 0) /\ op_of r = [op] /\
              q + rec_size r <= last_sp sp_checks rs (Z.of_nat n) < Z.of_nat n.
Proof.
  intros ccrc rs n op H1 H2 H3 H4 H5.
  exact (no_half_write sp_checks ccrc rs n op H1 H2 H3 (or_intror eq_refl) H4 H5).
Qed.
Print Assumptions C05_no_half_write.
Example C05_no_half_write_ex :
  snd (replay_ops false 1 0 (firstn 82 (encode ex_log))) = [ASet 65 0 4] /\
  In (60, RWrite 0 2 [1;2;3]) (offsets ex_log 0).
Proof. vm_compute. split; [reflexivity | do 4 right; left; reflexivity]. Qed.

(* recovery_independent_of_recovering_config: the outcome of a recovery is a function of the two files only.  A
   process opened with any options c2 (log-buffer size c_bufsz, checksum checking c_ccrc) recovers a cut log exactly
   as a process with options c1 does - in particular as the writer's own configuration would.  Proto.recover_open
   (the model of _recover_wl under options c) does not read c_bufsz: a test of a segment's length against the
   recovering process's buffer size has no counterpart in the model and is reported by the T2 comparison of
   checks/C05.py on logs recovered with a smaller buffer than they were written with. *)
Theorem C05_recovery_independent_of_recovering_config : forall (c1 c2 : pcfg) rs (n : nat) main,
  wf_log rs = true -> no_reset rs = true -> crc_ok rs = true -> (n <= length (encode rs))%nat ->
  recover_open c1 (firstn n (encode rs)) main = recover_open c2 (firstn n (encode rs)) main.
Proof. exact (fun c1 c2 rs n main => recover_open_config_independent c1 c2 rs n main eq_refl). Qed.
Print Assumptions C05_recovery_independent_of_recovering_config.
Example C05_recovery_independent_of_recovering_config_ex :
  recover_open (mkC 4084 true) (firstn 100 (encode ex_log)) ex_main = (VOk, [65;65;1;2;3;0;0;0], [ASet 65 0 4; AWrite 2 [1;2;3]]) /\
  recover_open (mkC 8388596 false) (firstn 100 (encode ex_log)) ex_main = (VOk, [65;65;1;2;3;0;0;0], [ASet 65 0 4; AWrite 2 [1;2;3]]).
Proof. vm_compute. split; reflexivity. Qed.

(* ... and it is the savepoint state of C05_replay_cut_is_savepoint_state, whatever the recovering options *)
Theorem C05_recover_open_is_savepoint_state : forall (c : pcfg) rs (n : nat) main m,
  wf_log rs = true -> no_reset rs = true -> crc_ok rs = true -> (n <= length (encode rs))%nat ->
  state_at rs main (last_sp sp_checks rs (Z.of_nat n)) = Some m ->
  recover_open c (firstn n (encode rs)) main = (VOk, m, ops_before rs 0 (last_sp sp_checks rs (Z.of_nat n))).
Proof. exact (fun c rs n main m => recover_open_is_savepoint_state c rs n main m eq_refl). Qed.
Print Assumptions C05_recover_open_is_savepoint_state.

(* ---- corruption of checksum-covered bytes, checksums written and checked (was: sampled by checks/C05.py only).
   The len bytes covered by a segment header (or the payload of a WRITE record) of an intact log are replaced by ANY
   bytes X' of the same length - every position, every mask, every multi-byte pattern is such an X'.  Then the replay
   reports CORRUPTED_WAL, or stops with rc 0 at a genuine savepoint at or before the damaged segment (q = 0: nothing
   applied), unless: the stored checksum is 0 (the reader takes 0 for "none"), X' has the checksum of the original
   bytes (collision of iwu_crc32; X' = the original bytes is the trivial one), or the scanner - which verifies no
   checksum - found a reset mark in the damaged log.  Nothing else lets a change of covered bytes pass. *)
Theorem C05_flip_in_segment : forall Rpre crc len Rrest X',
  let R := Rpre ++ RSep crc len :: Rrest in
  wf_log R = true -> crc_ok R = true -> sep_fit Rpre 0 (size Rpre) = true -> len <= size Rrest -> lenZ X' = len ->
  let L' := damaged (encode R) (size Rpre + sizeof_WBSEP) X' in
  crc = 0 \/ crc32 X' 0 = crc \/ snd (scan L') <> 0 \/
  fst (replay_ops true 1 0 L') = VCorrupt \/
  (exists q, (q = 0 \/ In q (sp_offsets R 0)) /\ q <= size Rpre /\ replay_ops true 1 0 L' = (VOk, ops_before R 0 q)).
Proof. exact flip_in_segment_cases. Qed.
Print Assumptions C05_flip_in_segment.

Theorem C05_flip_in_payload : forall Rpre crc off payload Rrest X',
  let R := Rpre ++ RWrite crc off payload :: Rrest in
  wf_log R = true -> crc_ok R = true -> sep_fit Rpre 0 (size Rpre + sizeof_WBWRITE) = true ->
  length X' = length payload -> forallb (fun b => (0 <=? b) && (b <? 256)) X' = true ->
  let L' := damaged (encode R) (size Rpre + sizeof_WBWRITE) X' in
  crc = 0 \/ crc32 X' 0 = crc \/ snd (scan L') <> 0 \/
  fst (replay_ops true 1 0 L') = VCorrupt \/
  (exists q, (q = 0 \/ In q (sp_offsets R 0)) /\ q <= size Rpre /\ replay_ops true 1 0 L' = (VOk, ops_before R 0 q)).
Proof. exact flip_in_payload_cases. Qed.
Print Assumptions C05_flip_in_payload.

(* detection proper: a change that alters the checksum, nonzero stored checksum, no reset mark seen by the scanner *)
Theorem C05_flip_detected : forall Rpre crc len Rrest X',
  let R := Rpre ++ RSep crc len :: Rrest in
  wf_log R = true -> crc_ok R = true -> sep_fit Rpre 0 (size Rpre) = true -> len <= size Rrest -> lenZ X' = len ->
  let L' := damaged (encode R) (size Rpre + sizeof_WBSEP) X' in
  snd (scan L') = 0 -> crc <> 0 -> crc32 X' 0 <> crc ->
  let f := fst (scan L') in
  replay_ops true 1 0 L' =
    if f =? 0 then (VOk, []) else
    if existsb (Z.eqb f) (sp_offsets Rpre 0) then (VOk, ops_before R 0 f) else (VCorrupt, bops Rpre).
Proof. exact flip_in_segment. Qed.
Print Assumptions C05_flip_detected.

(* the hypotheses are satisfiable: the log of three synced stores written with checksums (Flip_proofs.rb_log);
   second segment = 4th record, 36 covered bytes at offset 57.  All outcomes of the theorem occur:
   - one flipped bit in a WRITE opcode (3 -> 2 = COPY, 28 bytes instead of 24): the scanner lands inside the
     savepoint record, whose timestamp byte happens to be 6 = WOP_RESET: third escape, here harmless (rc 0, nothing
     applied, q = 0 - but every savepoint of the log is dropped);
   - one byte changed inside the payload: CORRUPTED_WAL after the first segment's store;
   - all 36 bytes zeroed: the scanner stops there, the replay ends at the first savepoint (q = 33, rc 0);
   - the payload of the first WRITE record changed: CORRUPTED_WAL before anything is applied. *)
Definition fx_body : bytes := firstn 36 (skipn 57 rb_log).
Example C05_flip_in_segment_ex :
  wf_log rb_R = true /\ crc_ok rb_R = true /\ sep_fit (firstn 3 rb_R) 0 (size (firstn 3 rb_R)) = true /\
  size (firstn 3 rb_R) + sizeof_WBSEP = 57 /\ 36 <= size (skipn 4 rb_R) /\
  map (fun X' => (snd (scan (damaged rb_log 57 X')), replay_ops true 1 0 (damaged rb_log 57 X')))
      [Z.lxor (nth 0 fx_body 0) 1 :: skipn 1 fx_body; firstn 24 fx_body ++ [1] ++ skipn 25 fx_body; repeat 0 36%nat] =
    [(85, (VOk, [])); (0, (VCorrupt, [AWrite 0 [1]])); (0, (VOk, [AWrite 0 [1]]))] /\
  replay_ops true 1 0 (damaged rb_log 32 [0]) = (VCorrupt, []) /\ replay_ops true 1 0 rb_log = (VOk, [AWrite 0 [1]; AWrite 1 [2;2;2;2]; AWrite 5 [3]]).
Proof. vm_compute. repeat split; try reflexivity; discriminate. Qed.

(* ... and the third escape is real (finding reset-mark-bypass, replayed on the library by checks/C05.py): 36 covered bytes
   overwritten by reset records and a segment header with checksum 0: rc 0, the first two synced operations are skipped, the
   third is applied.  reset_prefix_verified = regenerated fact: whether the replay checks the segments in front of a reset
   mark before it restarts there (0 on the current tree; fixes/wal-reset-prefix-verified.diff makes it 1 and the same
   bytes are then reported as CORRUPTED_WAL) *)
Theorem C05_reset_mark_bypass_refuted :
  (encode rb_R = rb_log /\ wf_log rb_R = true /\ crc_full rb_R = true /\ no_reset rb_R = true /\
   sp_offsets rb_R 0 = [33; 81; 126] /\ map rec_size (firstn 4 rb_R) = [12; 21; 12; 12] /\
   match nth 3 rb_R RReset with RSep crc len => negb (crc =? 0) && (len =? 36) | _ => false end = true) /\
  length rb_X' = 36%nat /\ scan rb_L' = (126, 89) /\
  (reset_prefix_verified = false -> rb_view (recover true 1 0 rb_L' rb_main) = (VOk, [AWrite 5 [3]], 0, 3)) /\
  (reset_prefix_verified = true -> fst (replay_ops true 1 0 rb_L') = VCorrupt) /\      (* with fixes/wal-reset-prefix-verified.diff *)
  rb_view (recover true 1 0 rb_log rb_main) = (VOk, [AWrite 0 [1]; AWrite 1 [2;2;2;2]; AWrite 5 [3]], 1, 3).
Proof. exact reset_mark_bypass_refuted. Qed.
Print Assumptions C05_reset_mark_bypass_refuted.

(* ---- the general form: ANY damaged log whose records up to some segment header are intact (Rpre); the header itself
   may be damaged (stored checksum crc', length len, both any uint32), followed by any len bytes X' and any rest.  If
   crc' is not 0 and not the checksum of X', the replay does not get past that header: detection for EVERY corruption
   that leaves a non-zero stored checksum different from the computed one (and no reset mark for the scanner). *)
Theorem C05_corrupt_segment_detected : forall Rpre crc' len X' post,
  forallb rec_range Rpre = true -> crc_ok Rpre = true -> head_sep Rpre = true -> sep_fit Rpre 0 (size Rpre) = true ->
  u32 crc' = true -> u32 len = true -> lenZ X' = len ->
  let L' := encode Rpre ++ enc_rec (RSep crc' len) ++ X' ++ post in
  snd (scan L') = 0 -> crc' <> 0 -> crc32 X' 0 <> crc' ->
  let f := fst (scan L') in
  replay_ops true 1 0 L' =
    if f =? 0 then (VOk, []) else
    if existsb (Z.eqb f) (sp_offsets Rpre 0) then (VOk, ops_before Rpre 0 f) else (VCorrupt, bops Rpre).
Proof. exact corrupt_segment_detected. Qed.
Print Assumptions C05_corrupt_segment_detected.
Example C05_corrupt_segment_detected_ex :   (* header damaged as well: stored checksum 7; garbage body, resp. a planted savepoint *)
  let Rpre := firstn 3 rb_R in
  forallb rec_range Rpre = true /\ crc_ok Rpre = true /\ head_sep Rpre = true /\ sep_fit Rpre 0 (size Rpre) = true /\
  replay_ops true 1 0 (encode Rpre ++ enc_rec (RSep 7 5) ++ [1;2;3;4;5] ++ [9;9;9]) = (VOk, [AWrite 0 [1]]) /\  (* scanner stops in the garbage *)
  replay_ops true 1 0 (encode Rpre ++ enc_rec (RSep 7 12) ++ [5;0;0;0;0;0;0;0;0;0;0;0] ++ []) = (VCorrupt, [AWrite 0 [1]]).
Proof. vm_compute. repeat split; reflexivity. Qed.

(* "crc = 0 means unchecked" is part of the format, and the stored checksums are covered by nothing: the first escape
   needs no collision.  9 changed bytes - segment checksum -> 0, WRITE checksum -> 0, one payload byte - and the open
   succeeds on a store holding a byte no operation ever wrote (reported against the unmodified library; replayed by
   checks/C05.py, class crc-zero-unchecked).  The full statement of C05 ("any corruption ... either makes the open fail
   or still yields a savepoint state") is therefore FALSE of the format; what holds is C05_corrupt_segment_detected. *)
Theorem C05_crc_zero_unchecked_refuted :
  (firstn 4 (skipn 49 rb_log) <> [0;0;0;0] /\ firstn 4 (skipn 61 rb_log) <> [0;0;0;0] /\ nth 77 rb_log 0 = 2) /\
  length cz_L' = length rb_log /\ scan cz_L' = (126, 0) /\
  let '(v, m, ops) := recover true 1 0 cz_L' rb_main in
  (v, ops, firstn 6 m) = (VOk, [AWrite 0 [1]; AWrite 1 [9;2;2;2]; AWrite 5 [3]], [1;9;2;2;2;3]).
Proof. exact crc_zero_unchecked_refuted. Qed.
Print Assumptions C05_crc_zero_unchecked_refuted.

(* ---- single-bit and single-byte corruptions never collide: iwu_crc32 changes with EVERY change of one byte (Crc_proofs:
   the table's entries and their low bytes are pairwise different, so the update is injective in the state and in the
   data byte).  For every position in the covered bytes and every mask the second escape of C05_flip_in_segment is
   therefore impossible; the other two (stored checksum 0, reset mark for the scanner) stay. *)
Theorem C05_single_byte_changes_crc : forall pre b b' post init,
  0 <= init < 4294967296 -> 0 <= b < 256 -> 0 <= b' < 256 -> b <> b' ->
  crc32 (pre ++ b :: post) init <> crc32 (pre ++ b' :: post) init.
Proof. exact single_byte_changes_crc. Qed.
Print Assumptions C05_single_byte_changes_crc.

Theorem C05_single_byte_flip_detected : forall Rpre crc len Rrest pre b b' post,
  let R := Rpre ++ RSep crc len :: Rrest in
  wf_log R = true -> crc_ok R = true -> sep_fit Rpre 0 (size Rpre) = true -> len <= size Rrest ->
  firstn (Z.to_nat len) (encode Rrest) = pre ++ b :: post ->
  crc = crc32 (pre ++ b :: post) 0 -> crc <> 0 -> 0 <= b < 256 -> 0 <= b' < 256 -> b <> b' -> 0 <= len ->
  let L' := damaged (encode R) (size Rpre + sizeof_WBSEP) (pre ++ b' :: post) in
  snd (scan L') = 0 ->
  let f := fst (scan L') in
  replay_ops true 1 0 L' =
    if f =? 0 then (VOk, []) else
    if existsb (Z.eqb f) (sp_offsets Rpre 0) then (VOk, ops_before R 0 f) else (VCorrupt, bops Rpre).
Proof. exact single_byte_flip_detected. Qed.
Print Assumptions C05_single_byte_flip_detected.
Example C05_single_byte_flip_detected_ex :    (* every one of the 36 covered bytes of the second segment, masks 0x10 and 0x01:
                                                 corruption reported, or the replay ends at the first savepoint / applies nothing *)
  forallb (fun m => forallb (fun j =>
     match replay_ops true 1 0 (damaged rb_log (57 + Z.of_nat j) [Z.lxor (nth (57 + j) rb_log 0) m]) with
     | (VCorrupt, [AWrite 0 [1]]) | (VOk, [AWrite 0 [1]]) | (VOk, []) => true | _ => false end) (seq 0 36)) [16; 1] = true /\
  length (filter (fun j => match replay_ops true 1 0 (damaged rb_log (57 + Z.of_nat j) [Z.lxor (nth (57 + j) rb_log 0) 16]) with
                           | (VCorrupt, _) => true | _ => false end) (seq 0 36)) = 30%nat.
Proof. vm_compute. split; reflexivity. Qed.
