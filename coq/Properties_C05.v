(* C05 - a damaged or cut-off log tail never yields a state that is not a synced prefix.  Statements only.
   Model: WAL/Rec.v (record codecs, iwu_crc32), WAL/Scan.v (_last_fix_and_reset_points), WAL/Replay.v
   (_rollforward_exl / _recover_wl).  `scan`, `recover` are the model of the CURRENT tree: whether the scanner
   tests `avail < sizeof(WBSAVEPOINT)` is the regenerated fact Scan.sp_checks. *)
Require Import ZArith List Bool. Require Import IW.Lib.CInt IW.Gen.Facts.
Require Import IW.WAL.Rec IW.WAL.Rec_proofs IW.WAL.Scan IW.WAL.Scan_proofs IW.WAL.Replay IW.WAL.Replay_proofs.
Require Import IW.WAL.Proto IW.WAL.Proto_proofs.
Import ListNotations. Local Open Scope Z_scope.

(* a log with three segments, two savepoints and an unfinished tail; an 8-byte main file *)
Definition ex_log : list rec :=
  [RSep 0 36; RSet 65 0 4; RSavepoint 1000; RSep 0 35; RWrite 0 2 [1;2;3]; RSavepoint 2000; RSep 0 24; RSet 66 1 2].
Definition ex_main : bytes := [0;0;0;0;0;0;0;0].

(* the record layouts the model assumes are the compiled ones; the CRC table is the polynomial's *)
Theorem C05_layout : layout_ok = true /\ iwu_crc32_table = crc_poly_table.
Proof. exact (conj layout_facts crc_table_is_poly). Qed.
Print Assumptions C05_layout.

(* scan_cut: for every well-formed log and every cut, the scanner's recovery point is the last savepoint
   record that is visible in the surviving bytes (all preceding records then survive intact, see
   C05_no_half_write / C05_recovery_point) *)
Theorem C05_scan_cut : forall rs (n : nat), wf_log rs = true -> (n <= length (encode rs))%nat ->
  fst (scan (firstn n (encode rs))) = last_sp sp_checks rs (Z.of_nat n).
Proof. exact (scan_cut sp_checks). Qed.
Print Assumptions C05_scan_cut.
Example C05_scan_cut_ex : wf_log ex_log = true /\ fst (scan (firstn 90 (encode ex_log))) = 36 /\
  fst (scan (firstn 95 (encode ex_log))) = 83 /\ fst (scan (firstn 40 (encode ex_log))) = (if sp_checks then 0 else 36).
Proof. vm_compute. repeat split; reflexivity. Qed.

Theorem C05_recovery_point : forall rs n,
  last_sp sp_checks rs n = 0 \/
  (In (last_sp sp_checks rs n) (sp_offsets rs 0) /\ sp_visible sp_checks (last_sp sp_checks rs n) n = true /\
   last_sp sp_checks rs n < n).
Proof. exact (recovery_point_is_savepoint sp_checks). Qed.
Print Assumptions C05_recovery_point.
Example C05_recovery_point_ex : sp_offsets ex_log 0 = [36; 83] /\ last_sp sp_checks ex_log 100 = 83.
Proof. vm_compute. split; reflexivity. Qed.

(* cut_monotone: a longer surviving prefix never recovers to an earlier savepoint, and a savepoint that
   survived intact is never passed over *)
Theorem C05_cut_monotone : forall rs n1 n2, n1 <= n2 -> last_sp sp_checks rs n1 <= last_sp sp_checks rs n2.
Proof. exact (cut_monotone sp_checks). Qed.
Print Assumptions C05_cut_monotone.
Example C05_cut_monotone_ex : map (fun n => last_sp sp_checks ex_log n) [0; 36; 48; 94; 95; 131] =
  [0; 0; 36; 36; 83; 83].
Proof. vm_compute. reflexivity. Qed.

Theorem C05_intact_savepoint_kept : forall rs n q,
  In q (sp_offsets rs 0) -> q + sizeof_WBSAVEPOINT <= n -> q <= last_sp sp_checks rs n.
Proof. exact (intact_savepoint_kept sp_checks). Qed.
Print Assumptions C05_intact_savepoint_kept.
Example C05_intact_savepoint_kept_ex : In 83 (sp_offsets ex_log 0) /\ 83 + sizeof_WBSAVEPOINT <= 95.
Proof. vm_compute. split; [right; left; reflexivity | discriminate]. Qed.

(* replay_cut_is_savepoint_state: recovery of the cut log succeeds and yields the main-file state at that
   savepoint, checksums on or off (current tree: sp_checks = true, i.e. with fixes/wal-cut-savepoint.diff) *)
Theorem C05_replay_cut_is_savepoint_state : forall ccrc rs (n : nat) main m,
  wf_log rs = true -> no_reset rs = true -> (ccrc = true -> crc_ok rs = true) ->
  (n <= length (encode rs))%nat ->
  state_at rs main (last_sp sp_checks rs (Z.of_nat n)) = Some m ->
  recover ccrc 1 0 (firstn n (encode rs)) main = (VOk, m, ops_before rs 0 (last_sp sp_checks rs (Z.of_nat n))).
Proof.
  intros ccrc rs n main m H1 H2 H3 H4 H5.
  exact (replay_cut_is_savepoint_state sp_checks ccrc rs n main m H1 H2 H3 (or_intror eq_refl) H4 H5).
Qed.
Print Assumptions C05_replay_cut_is_savepoint_state.
Example C05_replay_cut_is_savepoint_state_ex :
  no_reset ex_log = true /\ crc_ok ex_log = true /\
  state_at ex_log ex_main 83 = Some [65;65;1;2;3;0;0;0] /\
  recover true 1 0 (firstn 100 (encode ex_log)) ex_main = (VOk, [65;65;1;2;3;0;0;0], [ASet 65 0 4; AWrite 2 [1;2;3]]).
Proof. vm_compute. repeat split; reflexivity. Qed.

(* the same for either version of the scanner; with the pinned scanner (no avail test) only without checksums *)
Theorem C05_replay_cut_is_savepoint_state_partial : forall spchk ccrc rs (n : nat) main m,
  wf_log rs = true -> no_reset rs = true -> (ccrc = true -> crc_ok rs = true) ->
  (ccrc = false \/ spchk = true) -> (n <= length (encode rs))%nat ->
  state_at rs main (last_sp spchk rs (Z.of_nat n)) = Some m ->
  recover_with spchk ccrc 1 0 (firstn n (encode rs)) main = (VOk, m, ops_before rs 0 (last_sp spchk rs (Z.of_nat n))).
Proof. exact replay_cut_is_savepoint_state. Qed.
Print Assumptions C05_replay_cut_is_savepoint_state_partial.
Example C05_replay_cut_is_savepoint_state_partial_ex :
  recover_with false false 1 0 (firstn 40 (encode ex_log)) ex_main = (VOk, [65;65;65;65;0;0;0;0], [ASet 65 0 4]).
Proof. vm_compute. reflexivity. Qed.

(* ... and false of the pinned scanner with checksums on (replayed on the real code by checks/C05.py; fixed
   in /repo by "fix: a savepoint record cut by the end of the log is not taken as a recovery point") *)
Theorem C05_cut_savepoint_crc_refuted :
  wf_log refute_log = true /\ crc_ok refute_log = true /\ no_reset refute_log = true /\
  fst (replay_ops_with false true 1 0 (firstn 17 (encode refute_log))) = VCorrupt.
Proof. exact cut_savepoint_crc_refuted. Qed.
Print Assumptions C05_cut_savepoint_crc_refuted.

(* no_half_write: every store the recovery performs comes from a record that lies wholly before the recovery
   point, hence wholly inside the surviving bytes: a WRITE whose payload (or header) is cut is never applied *)
Theorem C05_no_half_write : forall ccrc rs (n : nat) op,
  wf_log rs = true -> no_reset rs = true -> (ccrc = true -> crc_ok rs = true) ->
  (n <= length (encode rs))%nat ->
  In op (snd (replay_ops ccrc 1 0 (firstn n (encode rs)))) ->
  exists q r, In (q, r) (offsets rs 0) /\ op_of r = [op] /\
              q + rec_size r <= last_sp sp_checks rs (Z.of_nat n) < Z.of_nat n.
Proof.
  intros ccrc rs n op H1 H2 H3 H4 H5.
  exact (no_half_write sp_checks ccrc rs n op H1 H2 H3 (or_intror eq_refl) H4 H5).
Qed.
Print Assumptions C05_no_half_write.
Example C05_no_half_write_ex :
  snd (replay_ops false 1 0 (firstn 82 (encode ex_log))) = [ASet 65 0 4] /\
  In (60, RWrite 0 2 [1;2;3]) (offsets ex_log 0).
Proof. vm_compute. split; [reflexivity | do 4 right; left; reflexivity]. Qed.

(* recovery_independent_of_recovering_config: the outcome of a recovery is a function of the two files only.  A
   process opened with any options c2 (log-buffer size c_bufsz, checksum checking c_ccrc) recovers a cut log exactly
   as a process with options c1 does - in particular as the writer's own configuration would.  Proto.recover_open
   (the model of _recover_wl under options c) does not read c_bufsz: a test of a segment's length against the
   recovering process's buffer size has no counterpart in the model and is reported by the T2 comparison of
   checks/C05.py on logs recovered with a smaller buffer than they were written with. *)
Theorem C05_recovery_independent_of_recovering_config : forall (c1 c2 : pcfg) rs (n : nat) main,
  wf_log rs = true -> no_reset rs = true -> crc_ok rs = true -> (n <= length (encode rs))%nat ->
  recover_open c1 (firstn n (encode rs)) main = recover_open c2 (firstn n (encode rs)) main.
Proof. exact (fun c1 c2 rs n main => recover_open_config_independent c1 c2 rs n main eq_refl). Qed.
Print Assumptions C05_recovery_independent_of_recovering_config.
Example C05_recovery_independent_of_recovering_config_ex :
  recover_open (mkC 4084 true) (firstn 100 (encode ex_log)) ex_main = (VOk, [65;65;1;2;3;0;0;0], [ASet 65 0 4; AWrite 2 [1;2;3]]) /\
  recover_open (mkC 8388596 false) (firstn 100 (encode ex_log)) ex_main = (VOk, [65;65;1;2;3;0;0;0], [ASet 65 0 4; AWrite 2 [1;2;3]]).
Proof. vm_compute. split; reflexivity. Qed.

(* ... and it is the savepoint state of C05_replay_cut_is_savepoint_state, whatever the recovering options *)
Theorem C05_recover_open_is_savepoint_state : forall (c : pcfg) rs (n : nat) main m,
  wf_log rs = true -> no_reset rs = true -> crc_ok rs = true -> (n <= length (encode rs))%nat ->
  state_at rs main (last_sp sp_checks rs (Z.of_nat n)) = Some m ->
  recover_open c (firstn n (encode rs)) main = (VOk, m, ops_before rs 0 (last_sp sp_checks rs (Z.of_nat n))).
Proof. exact (fun c rs n main m => recover_open_is_savepoint_state c rs n main m eq_refl). Qed.
Print Assumptions C05_recover_open_is_savepoint_state.
