Require Import ZArith List. Require Extraction. Require Import ExtrOcamlBasic.
Require Import IW.Lib.CInt IW.UT.Conv IW.JSON.Val IW.JSON.Utf8 IW.JSON.Text IW.JSON.TextChan IW.Gen.Facts.
Extraction "m.ml" Z.add Z.mul Z.sub Z.div_eucl Z.compare Z.of_nat Z.to_nat Z.opp
  from_json as_json jbl_as_json unescape write_json_string write_int encode_char codepoint_valid iterate strtoll0 strtod_end
  parse_key jval_eqb
  as_json_chunks jbl_as_json_chunks chunks_bytes chan_xstr chan_fstream chan_count cstr0.
