(* C03 - a cleanly closed store reopens with identical contents.  Statements only.
   PROVED: the field codecs of the file image are inverse - what close/sync writes (little-endian integers of the
   headers and node blocks, variable-length numbers of the data-block index) is what open reads; and the codecs of whole
   blocks: a node block written by the model of _sblk_sync_mm (KV/Codec.v, field offsets regenerated from the source
   macros) is read back by the reader as exactly that node (C03_node_block_roundtrip), a data-block header + index written
   by the model of _kvblk_sync_mm is read back as exactly that index (C03_data_block_index_roundtrip).  The reader is the
   one of KV/Audit.v; on every real image it is compared FIELD BY FIELD with what the implementation's own block reader
   reports (levels, counts, flags, prefixes, data-block sizes, stored keys of every node), and every data-block index of
   a real image must be in the canonical form the writer model produces (re-encoding what was decoded gives the bytes
   that are there).
   Records, nodes and whole databases (KV/Records.v, Records_proofs.v): a record written the way _kvblk_addkv writes it is
   read back by the key / value readers (C03_record_roundtrip); a node block + data-block index + one record per used slot
   reads back as the node's records in slot order (C03_node_contents_roundtrip); an image that holds the encoding of ANY
   chain of nodes linked through their level-0 links reads back as exactly the records of those nodes
   (C03_image_reads_back_partial) - the codec half of `reopen_identity`.  The model reader of these theorems is run on every
   real image next to the implementation's own readers (_kvblk_key_peek / _kvblk_value_peek): stored key, value length and
   value bytes of every slot of every node must agree, and the hypothesis of the theorem is tested on every real image
   (Records.db_canonical: the image holds the writers' encoding of every decoded node: node block, index, records).
   NOT proved (open goal, kept visible): that iwkv_close leaves such an image behind for the store's in-memory state
   (`reopen_identity : abs (open (close s)) = abs s` for the whole store model), `trim_preserves`, `rdonly_no_effect`.
   Those are decided per history on the implementation: dump before close =
   dump after reopen for {WAL on/off} x {read-only, read-write} x {trim, no-trim}, metadata, database ids/flags, the
   read-only sessions refuse every mutating call, truncate yields an empty store (python oracle in checks/kvcommon.py),
   and the reopened image is read by the extracted auditor (C06). *)
Require Import List ZArith Bool Lia. Import ListNotations.
Require Import IW.Lib.Vnum IW.KV.Audit IW.KV.Inst IW.KV.Image_proofs IW.KV.Codec IW.KV.Codec_proofs IW.KV.Records IW.KV.Records_proofs IW.Gen.Facts.
Local Open Scope Z_scope. Local Open Scope bool_scope.

Theorem C03_le_roundtrip_partial : forall n v, 0 <= v < 256 ^ Z.of_nat n -> le_decode (le_encode n v) = v.
Proof. exact le_roundtrip. Qed.
Print Assumptions C03_le_roundtrip_partial.

Theorem C03_u32_field_roundtrip_partial :
  forall (rd : Z -> Z) (o v : Z), 0 <= v < 2 ^ 32 -> holds rd o (le_encode 4 v) -> u32 rd o = v.
Proof. exact u32_reads_le. Qed.
Print Assumptions C03_u32_field_roundtrip_partial.

Theorem C03_index_entry_roundtrip_partial :
  forall (rd : Z -> Z) (o v : Z), 0 <= v < 2 ^ 63 -> holds rd o (set_vnum64 v) ->
    rdv rd o = Some (v, Z.of_nat (length (set_vnum64 v))).
Proof. exact rdv_reads_set_vnum64. Qed.
Print Assumptions C03_index_entry_roundtrip_partial.

(* a whole node block: for every node record a writer can produce (fields in their byte / 32-bit ranges, 32 slot
   indexes, 24 links, prefix of the announced length <= 115) and every image that holds the written bytes at the node's
   address, the reader returns that node *)
Theorem C03_node_block_roundtrip :
  forall (rd : Z -> Z) (s : sblk),
    sblk_wf s -> holds rd (addr_of (s_blk s)) (write_sblk s) -> read_sblk rd (s_blk s) = s.
Proof. exact sblk_roundtrip. Qed.
Print Assumptions C03_node_block_roundtrip.

(* a data-block header with its index of 32 (offset, length) pairs *)
Theorem C03_data_block_index_roundtrip :
  forall (rd : Z -> Z) (blk szpow : Z) (p : list (Z * Z)),
    byte szpow -> length p = NIDXA -> Forall pair_wf p -> Z.of_nat (length (write_pidx p)) < 2 ^ 16 ->
    holds rd (addr_of blk) (write_kvblk_head szpow p) ->
    read_kvblk rd blk = Some {| k_szpow := szpow; k_idxsz := Z.of_nat (length (write_pidx p)); k_pidx := p;
                                k_idxend := KVBLK_HDRSZ + Z.of_nat (length (write_pidx p)) |}.
Proof. exact kvblk_head_roundtrip. Qed.
Print Assumptions C03_data_block_index_roundtrip.

(* one record: what _kvblk_addkv writes at a slot (key length as a 32-bit variable-length number, stored key, value) is what
   the key / value readers return, for every key of 1..70000 bytes and every value *)
Theorem C03_record_roundtrip :
  forall (rd : Z -> Z) (blk szpow off len : Z) (kv : list Z * list Z),
    1 <= Z.of_nat (length (fst kv)) <= 70000 -> len = Z.of_nat (length (write_rec (fst kv) (snd kv))) ->
    holds rd (addr_of blk + 2 ^ szpow - off) (write_rec (fst kv) (snd kv)) ->
    slot_rec rd blk szpow off len = Some kv.
Proof. intros rd blk szpow off len kv H1 H2 H3. apply record_roundtrip. unfold rec_at. auto. Qed.
Print Assumptions C03_record_roundtrip.

(* one node: node block + data-block header and index + one record per used slot -> the node's records in slot order *)
Theorem C03_node_contents_roundtrip :
  forall (rd : Z -> Z) (n : dnode), node_on_disk rd n -> node_recs rd (read_sblk rd (s_blk (dn_s n))) = Some (dn_recs n).
Proof. exact node_roundtrip. Qed.
Print Assumptions C03_node_contents_roundtrip.

(* a whole database: if the image holds the encoding of a chain of nodes linked through their level-0 links (any number of
   nodes, any addresses, any record contents), the reader that starts at the first node returns exactly the records of
   those nodes, node by node - the codec half of reopen_identity (`_partial`: that close leaves such an image behind is
   checked on the implementation, not proved) *)
Theorem C03_image_reads_back_partial :
  forall (rd : Z -> Z) (ns : list dnode) (start : Z) (fuel : nat),
    chain_on_disk rd ns start -> (length ns < fuel)%nat ->
    chain_recs rd fuel start = Some (map dn_recs ns) /\
    option_map (@concat _) (chain_recs rd fuel start) = Some (concat (map dn_recs ns)).
Proof. intros rd ns start fuel H1 H2. split; [exact (chain_roundtrip rd ns start fuel H1 H2)|exact (chain_contents_roundtrip rd ns start fuel H1 H2)]. Qed.
Print Assumptions C03_image_reads_back_partial.

(* Non-vacuity of the three statements: an image made of placed byte strings holds a chain of two nodes (two records and
   one record); the hypotheses are met and the reader returns the three records *)
Fixpoint img (ps : list (Z * list Z)) (o : Z) : Z :=
  match ps with
  | [] => 0
  | (a, bs) :: r => if (a <=? o) && (o <? a + Z.of_nat (length bs)) then nth (Z.to_nat (o - a)) bs 0 else img r o
  end.
Definition exn1 : dnode :=
  {| dn_s := {| s_blk := 40; s_flags := 1; s_lvl := 0; s_lkl := 2; s_pnum := 2; s_p0 := 0; s_kblk := 100;
                s_pi := [0; 1] ++ repeat 0 30; s_n := [56] ++ repeat 0 23; s_bpos := 1; s_lk := [97; 49] |};
     dn_szpow := 9; dn_pidx := [(5, 5); (7, 2)] ++ repeat (0, 0) 30; dn_recs := [([97; 49], [118; 49]); ([98], [])] |}.
Definition exn2 : dnode :=
  {| dn_s := {| s_blk := 56; s_flags := 1; s_lvl := 0; s_lkl := 1; s_pnum := 1; s_p0 := 40; s_kblk := 120;
                s_pi := repeat 0 32; s_n := repeat 0 24; s_bpos := 5; s_lk := [99] |};
     dn_szpow := 9; dn_pidx := [(5, 5)] ++ repeat (0, 0) 31; dn_recs := [([99], [120; 121; 122])] |}.
Definition ex_img : Z -> Z :=
  img [(addr_of 40, write_sblk (dn_s exn1)); (addr_of 100, write_kvblk_head 9 (dn_pidx exn1));
       (addr_of 100 + 512 - 5, write_rec [97; 49] [118; 49]); (addr_of 100 + 512 - 7, write_rec [98] []);
       (addr_of 56, write_sblk (dn_s exn2)); (addr_of 120, write_kvblk_head 9 (dn_pidx exn2));
       (addr_of 120 + 512 - 5, write_rec [99] [120; 121; 122])].
Example C03_chain_on_disk_example : chain_on_disk ex_img [exn1; exn2] 40.
Proof. apply chain_on_diskb_ok. vm_compute. reflexivity. Qed.
Example C03_image_example : chain_recs ex_img 5 40 = Some [[([97; 49], [118; 49]); ([98], [])]; [([99], [120; 121; 122])]].
Proof. vm_compute. reflexivity. Qed.

(* Non-vacuity: a node with two records on level 1, written into an otherwise empty image at block 40, is read back *)
Definition ex_node : sblk :=
  {| s_blk := 40; s_flags := 1; s_lvl := 1; s_lkl := 3; s_pnum := 2; s_p0 := 17; s_kblk := 99;
     s_pi := [1; 0] ++ repeat 0 30; s_n := [56; 72] ++ repeat 0 22; s_bpos := 3; s_lk := [107; 48; 49] |}.
Definition ex_image (o : Z) : Z := nth (Z.to_nat (o - addr_of 40)) (write_sblk ex_node) 0.
Example C03_node_block_example : read_sblk ex_image 40 = ex_node.
Proof. vm_compute. reflexivity. Qed.

Example C03_roundtrip_example : le_decode (le_encode 4 305419896) = 305419896.
Proof. reflexivity. Qed.
