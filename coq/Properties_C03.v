(* C03 - a cleanly closed store reopens with identical contents.  Statements only.
   PROVED: the field codecs of the file image are inverse - what close/sync writes (little-endian integers of the
   headers and node blocks, variable-length numbers of the data-block index) is what open reads.
   NOT proved (open goal, kept visible): `reopen_identity : abs (open (close s)) = abs s` for the whole store model,
   `trim_preserves`, `rdonly_no_effect`.  Those are decided per history on the implementation: dump before close =
   dump after reopen for {WAL on/off} x {read-only, read-write} x {trim, no-trim}, metadata, database ids/flags, the
   read-only sessions refuse every mutating call, truncate yields an empty store (python oracle in checks/kvcommon.py),
   and the reopened image is read by the extracted auditor (C06). *)
Require Import List ZArith Lia. Import ListNotations.
Require Import IW.Lib.Vnum IW.KV.Audit IW.KV.Inst IW.KV.Image_proofs.
Local Open Scope Z_scope.

Theorem C03_le_roundtrip_partial : forall n v, 0 <= v < 256 ^ Z.of_nat n -> le_decode (le_encode n v) = v.
Proof. exact le_roundtrip. Qed.
Print Assumptions C03_le_roundtrip_partial.

Theorem C03_u32_field_roundtrip_partial :
  forall (rd : Z -> Z) (o v : Z), 0 <= v < 2 ^ 32 -> holds rd o (le_encode 4 v) -> u32 rd o = v.
Proof. exact u32_reads_le. Qed.
Print Assumptions C03_u32_field_roundtrip_partial.

Theorem C03_index_entry_roundtrip_partial :
  forall (rd : Z -> Z) (o v : Z), 0 <= v < 2 ^ 63 -> holds rd o (set_vnum64 v) ->
    rdv rd o = Some (v, Z.of_nat (length (set_vnum64 v))).
Proof. exact rdv_reads_set_vnum64. Qed.
Print Assumptions C03_index_entry_roundtrip_partial.

Example C03_roundtrip_example : le_decode (le_encode 4 305419896) = 305419896.
Proof. reflexivity. Qed.
